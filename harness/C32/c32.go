//go:build verif

package main

import (
	"fmt"
	"sort"
	"strconv"
	"runtime"
	"strings"
	"sync"
	"sync/atomic"
	"time"

	"github.com/WuKongIM/WuKongIM/internal/runtime/delivery"
)

// C32 — delivery.AckTracker vs the Lean model.
//
// ops (fields separated by one space; strings hex, empty = "-"):
//   new SHARDS MAX          fresh tracker (SHARDS 0 = default 32), clock = injected `now`
//   now N                   set the injected clock (Unix seconds)
//   bind P | bindc P | bindb P*            P = uid,sess,msg,seq,chan,ctype,deliveredAt
//   finish P TOK | cancel P TOK            TOK = token id (any number; 0 = zero token)
//   finishb P;P;..|- TOK,TOK|- IDX,IDX|-   FinishBindBatch(pending, tokens, indexes)
//   ack UID SESS MSG | closed UID SESS | expire TTLns | count | reset
//   conc THREAD THREAD..    THREAD = op+op.., op = word~word..; token `$j` = token returned by
//                           this thread's j-th op.  Run concurrently, judged for linearizability.
// output: `<result> || <VerifAckDump>`

func init() {
	Register(&Prop{Gen: genC32, NewRunner: func() Runner { return newC32Runner() }})
}

// ---------------------------------------------------------------- generator

type c32Gen struct {
	g    *Gen
	now  int64
	tok  int              // estimated allocator value (assumes every bind was accepted)
	last map[string][]int // key -> estimated tokens of its binds
}

var c32UIDs = []string{"a", "b", "a", "b", "a", "b", "a", "b", "a", ""}
var c32Sess = []int{1, 2, 3, 33, 1, 2, 1, 2, 3, 33, 0}

// boundKey prefers an identity the generator believes to hold a bind reservation.
func (c *c32Gen) boundKey() (string, int, int) {
	r := c.g.R
	if len(c.last) > 0 && r.Chance(80) {
		keys := make([]string, 0, len(c.last))
		for k := range c.last {
			keys = append(keys, k)
		}
		sort.Strings(keys)
		f := strings.Split(keys[r.Intn(len(keys))], ",")
		sess, _ := strconv.Atoi(f[1])
		msg, _ := strconv.Atoi(f[2])
		return f[0], sess, msg
	}
	return c.key()
}

func (c *c32Gen) key() (string, int, int) {
	r := c.g.R
	uid := c32UIDs[r.Intn(len(c32UIDs))]
	sess := c32Sess[r.Intn(len(c32Sess))]
	msg := r.Intn(5)
	if !r.Chance(4) {
		msg = 1 + r.Intn(4)
	}
	return uid, sess, msg
}

func (c *c32Gen) pendFor(uid string, sess, msg int) string {
	r := c.g.R
	at := int64(0)
	switch r.Pick(3, 5, 2) {
	case 0:
		at = 0
	case 1:
		at = c.now - int64(r.Intn(6))
	default:
		at = c.now - int64(r.Intn(30)) + 3
	}
	return fmt.Sprintf("%s,%d,%d,%d,%s,%d,%d", Hex([]byte(uid)), sess, msg, r.Intn(100), Hex([]byte([]string{"c1", "c2"}[r.Intn(2)])), 1+r.Intn(2), at)
}

func (c *c32Gen) pend() (string, string) {
	uid, sess, msg := c.key()
	return c.pendFor(uid, sess, msg), fmt.Sprintf("%s,%d,%d", uid, sess, msg)
}

func (c *c32Gen) noteBind(key string) {
	f := strings.Split(key, ",")
	if f[0] == "" || f[1] == "0" || f[2] == "0" {
		return // rejected as invalid: no token is consumed
	}
	c.tok++
	c.last[key] = append(c.last[key], c.tok)
}

// token picks a token for a finish/cancel of key: mostly one believed to belong to the key.
func (c *c32Gen) token(key string) string {
	r := c.g.R
	l := c.last[key]
	switch {
	case len(l) > 0 && r.Chance(80):
		i := len(l) - 1 - r.Intn(minInt(len(l), 3))
		t := l[i]
		if r.Chance(85) { // believed consumed by this finish/cancel
			c.last[key] = append(append([]int{}, l[:i]...), l[i+1:]...)
			if len(c.last[key]) == 0 {
				delete(c.last, key)
			}
		}
		c.g.Count("token:believed-own")
		// relative reference: robust against earlier rejected binds
		return fmt.Sprintf("^%d", maxInt(0, c.tok-t+r.Pick(10, 1, 1)-r.Pick(10, 1)))
	case r.Chance(10):
		c.g.Count("token:zero")
		return "0"
	default:
		c.g.Count("token:random")
		return strconv.Itoa(r.Intn(c.tok + 3))
	}
}

func minInt(a, b int) int {
	if a < b {
		return a
	}
	return b
}
func maxInt(a, b int) int {
	if a > b {
		return a
	}
	return b
}

func genC32(g *Gen) {
	ops := 0
	for ops < g.N {
		g.Case()
		c := &c32Gen{g: g, now: 1000, last: map[string][]int{}}
		shards := []int{0, 1, 2, 3, 100}[g.R.Intn(5)]
		max := []int{0, 0, 2, 3}[g.R.Intn(4)]
		g.Count(fmt.Sprintf("cfg:max=%d", max))
		g.Op("new", "%d %d", shards, max)
		g.Op("now", "%d", c.now)
		length := g.R.Range(25, 90)
		for i := 0; i < length; i++ {
			ops++
			r := g.R
			switch r.Pick(22, 5, 7, 16, 4, 12, 7, 3, 6, 3, 1, 5, 5, 4, 2) {
			case 0:
				p, k := c.pend()
				c.noteBind(k)
				g.Op("bind", "%s", p)
			case 1:
				p, k := c.pend()
				c.noteBind(k)
				if l := c.last[k]; len(l) > 0 { // finished immediately: the token is spent
					c.last[k] = l[:len(l)-1]
					if len(c.last[k]) == 0 {
						delete(c.last, k)
					}
				}
				g.Op("bindc", "%s", p)
			case 2:
				n := r.Intn(5)
				ps := make([]string, n)
				keys := make([]string, n)
				for j := range ps {
					ps[j], keys[j] = c.pend()
				}
				// estimated allocation order: shard-grouped is unknown to the generator; input order is a fair guess
				for _, k := range keys {
					c.noteBind(k)
				}
				if n == 0 {
					g.Op("bindb", "")
				} else {
					g.Op("bindb", "%s", strings.Join(ps, " "))
				}
			case 3:
				uid, sess, msg := c.boundKey()
				k := fmt.Sprintf("%s,%d,%d", uid, sess, msg)
				g.Op("finish", "%s %s", c.pendFor(uid, sess, msg), c.token(k))
			case 4:
				n := r.Intn(4)
				ps := make([]string, n)
				ts := make([]string, n)
				for j := range ps {
					uid, sess, msg := c.boundKey()
					ps[j] = c.pendFor(uid, sess, msg)
					ts[j] = c.token(fmt.Sprintf("%s,%d,%d", uid, sess, msg))
				}
				if r.Chance(15) && n > 0 {
					ts = ts[:n-1] // misaligned lengths
				}
				m := r.Intn(5)
				is := make([]string, m)
				for j := range is {
					is[j] = strconv.Itoa(r.Intn(n+2) - 1)
				}
				g.Op("finishb", "%s %s %s", joinOr(ps, ";"), joinOr(ts, ","), joinOr(is, ","))
			case 5:
				uid, sess, msg := c.boundKey()
				k := fmt.Sprintf("%s,%d,%d", uid, sess, msg)
				g.Op("cancel", "%s %s", c.pendFor(uid, sess, msg), c.token(k))
			case 6:
				uid, sess, msg := c.key()
				delete(c.last, fmt.Sprintf("%s,%d,%d", uid, sess, msg))
				g.Op("ack", "%s %d %d", Hex([]byte(uid)), sess, msg)
			case 7:
				uid, sess, _ := c.key()
				for k := range c.last {
					if strings.HasPrefix(k, fmt.Sprintf("%s,%d,", uid, sess)) {
						delete(c.last, k)
					}
				}
				g.Op("closed", "%s %d", Hex([]byte(uid)), sess)
			case 8:
				var ttl int64
				switch r.Pick(1, 3, 3, 2) {
				case 0:
					ttl = []int64{0, -1, -1000000000}[r.Intn(3)]
					g.Count("expire:ttl<=0")
				case 1:
					ttl = int64(1+r.Intn(8)) * 1000000000
					g.Count("expire:whole-seconds")
				case 2:
					ttl = int64(r.Intn(8))*1000000000 + []int64{1, 999999999, 500000000}[r.Intn(3)]
					g.Count("expire:fractional-rounds-up")
				default:
					ttl = int64(1 + r.Intn(3))
					g.Count("expire:tiny")
				}
				g.Op("expire", "%d", ttl)
			case 9:
				g.Op("count", "")
			case 10:
				g.Op("reset", "")
				c.last = map[string][]int{}
			case 11:
				c.now += int64(r.Pick(3, 3, 2, 1) * (1 + r.Intn(3)))
				if r.Chance(5) {
					c.now -= 2
				}
				g.Op("now", "%d", c.now)
			case 12:
				c.genConc()
			case 14:
				// directed: attempts in flight across a Reset come back with their stale tokens after
				// the same identity was delivered again the same number of times
				uid, sess, msg := c.key()
				k := fmt.Sprintf("%s,%d,%d", uid, sess, msg)
				g.Count("scenario:stale-token-across-reset")
				m := 1 + r.Intn(2)
				if r.Chance(60) {
					g.Op("reset", "")
				}
				for j := 0; j < m; j++ {
					c.noteBind(k)
					g.Op("bind", "%s", c.pendFor(uid, sess, msg))
				}
				g.Op("reset", "")
				c.last = map[string][]int{}
				for j := 0; j < m; j++ {
					c.noteBind(k)
					g.Op("bind", "%s", c.pendFor(uid, sess, msg))
				}
				kind := []string{"cancel", "finish"}[r.Intn(2)]
				g.Op(kind, "%s %%%d", c.pendFor(uid, sess, msg), r.Intn(m))
				g.Op("finish", "%s ^0", c.pendFor(uid, sess, msg))
				g.Op("ack", "%s %d %d", Hex([]byte(uid)), sess, msg)
				delete(c.last, k)
				ops += 4
			default:
				// directed: deliver, (commit), re-deliver the same identity, roll the re-delivery back
				uid, sess, msg := c.key()
				k := fmt.Sprintf("%s,%d,%d", uid, sess, msg)
				g.Count("scenario:redelivery-rollback")
				c.noteBind(k)
				g.Op("bind", "%s", c.pendFor(uid, sess, msg))
				if r.Chance(70) {
					g.Op("finish", "%s ^0", c.pendFor(uid, sess, msg))
				}
				n := 1 + r.Intn(2)
				for j := 0; j < n; j++ {
					c.noteBind(k)
					g.Op("bind", "%s", c.pendFor(uid, sess, msg))
				}
				g.Op("cancel", "%s ^%d", c.pendFor(uid, sess, msg), r.Intn(n))
				if r.Chance(50) {
					g.Op("cancel", "%s ^%d", c.pendFor(uid, sess, msg), r.Intn(n+1))
				}
				delete(c.last, k)
				ops += 3
			}
		}
	}
}

func joinOr(xs []string, sep string) string {
	if len(xs) == 0 {
		return "-"
	}
	return strings.Join(xs, sep)
}

// genConc emits one concurrent window: 2-3 threads x 1-3 single-shard ops.
func (c *c32Gen) genConc() {
	r := c.g.R
	nt := 2 + r.Intn(2)
	threads := make([]string, nt)
	// a window works on a small shared key set so that the threads really collide
	uid := []string{"a", "b"}[r.Intn(2)]
	sess := []int{1, 2, 33}[r.Intn(3)]
	for t := range threads {
		n := 1 + r.Intn(3)
		if nt == 3 && n == 3 {
			n = 2
		}
		var ops []string
		var binds []int // indexes of this thread's bind ops
		var bindKeys []int
		for j := 0; j < n; j++ {
			msg := 1 + r.Intn(2)
			u, s := uid, sess
			if r.Chance(20) {
				s = []int{1, 2, 33}[r.Intn(3)]
			}
			p := c.pendFor(u, s, msg)
			switch r.Pick(5, 3, 3, 2, 1, 1) {
			case 0:
				ops = append(ops, "bind~"+p)
				binds = append(binds, j)
				bindKeys = append(bindKeys, msg)
				c.noteBind(fmt.Sprintf("%s,%d,%d", u, s, msg))
			case 1, 2:
				kind := "finish"
				if r.Chance(50) {
					kind = "cancel"
				}
				if len(binds) > 0 && r.Chance(80) {
					b := r.Intn(len(binds))
					p = c.pendFor(u, sess, bindKeys[b])
					ops = append(ops, fmt.Sprintf("%s~%s~$%d", kind, p, binds[b]))
				} else {
					ops = append(ops, fmt.Sprintf("%s~%s~%d", kind, p, r.Intn(c.tok+2)))
				}
			case 3:
				ops = append(ops, fmt.Sprintf("ack~%s~%d~%d", Hex([]byte(u)), s, msg))
			case 4:
				ops = append(ops, fmt.Sprintf("closed~%s~%d", Hex([]byte(u)), s))
			default:
				ops = append(ops, "count")
			}
		}
		threads[t] = strings.Join(ops, "+")
	}
	c.g.Count(fmt.Sprintf("conc:threads=%d", nt))
	c.g.Op("conc", "%s", strings.Join(threads, " "))
}

// ------------------------------------------------------------------- runner

type c32Runner struct {
	t    *delivery.AckTracker
	now  int64
	mu   sync.Mutex
	mark uint64 // allocator value when Reset was last called (tokens <= mark predate it)
}

func newC32Runner() *c32Runner {
	r := &c32Runner{}
	r.t = delivery.NewAckTracker(delivery.AckTrackerOptions{Now: r.clock})
	return r
}

func (r *c32Runner) clock() int64 {
	r.mu.Lock()
	defer r.mu.Unlock()
	return r.now
}

func (r *c32Runner) Close() {}

func c32Str(s string) (string, bool) {
	if s == "-" {
		return "", true
	}
	if len(s)%2 != 0 {
		return "", false
	}
	out := make([]byte, len(s)/2)
	for i := range out {
		v, err := strconv.ParseUint(s[2*i:2*i+2], 16, 8)
		if err != nil {
			return "", false
		}
		out[i] = byte(v)
	}
	return string(out), true
}

func c32Pend(s string) (delivery.PendingRecvAck, bool) {
	f := strings.Split(s, ",")
	if len(f) != 7 {
		return delivery.PendingRecvAck{}, false
	}
	uid, ok0 := c32Str(f[0])
	sess, e1 := strconv.ParseUint(f[1], 10, 64)
	msg, e2 := strconv.ParseUint(f[2], 10, 64)
	seq, e3 := strconv.ParseUint(f[3], 10, 64)
	ch, ok4 := c32Str(f[4])
	ct, e5 := strconv.ParseUint(f[5], 10, 8)
	at, e6 := strconv.ParseInt(f[6], 10, 64)
	if !ok0 || !ok4 || e1 != nil || e2 != nil || e3 != nil || e5 != nil || e6 != nil {
		return delivery.PendingRecvAck{}, false
	}
	return delivery.PendingRecvAck{UID: uid, SessionID: sess, MessageID: msg, MessageSeq: seq, ChannelID: ch, ChannelType: uint8(ct), DeliveredAt: at}, true
}

func c32B(b bool) string {
	if b {
		return "1"
	}
	return "0"
}

func c32Pends(ps []delivery.PendingRecvAck) string {
	sort.Slice(ps, func(i, j int) bool {
		a, c := ps[i], ps[j]
		if a.UID != c.UID {
			return a.UID < c.UID
		}
		if a.SessionID != c.SessionID {
			return a.SessionID < c.SessionID
		}
		return a.MessageID < c.MessageID
	})
	out := "r"
	for _, p := range ps {
		out += " " + delivery.VerifPendString(p)
	}
	return out
}

func (r *c32Runner) Step(op string) string {
	f := strings.Split(op, " ")
	for _, x := range f {
		if x == "" {
			return "bad-op"
		}
	}
	var res string
	if f[0] == "conc" {
		res = r.conc(f[1:])
	} else {
		res = r.exec(f, nil)
	}
	if res == "bad-op" {
		return res
	}
	if race := c32RaceSeen(); race != "" {
		return "PANIC " + race // the framework judges a PANIC output as a violation
	}
	return res + " || " + delivery.VerifAckDump(r.t)
}

// exec runs one op; `own` maps `$j` token references of a concurrent thread.
func (r *c32Runner) exec(f []string, own map[int]uint64) string {
	tok := func(s string) (delivery.AckBindToken, bool) {
		if strings.HasPrefix(s, "$") {
			j, err := strconv.Atoi(s[1:])
			if err != nil || own == nil {
				return delivery.AckBindToken{}, false
			}
			return delivery.VerifAckToken(own[j]), true // a missing reference is the zero token
		}
		if strings.HasPrefix(s, "%") { // the token issued n binds before the last Reset
			n, err := strconv.ParseUint(s[1:], 10, 64)
			if err != nil || own != nil {
				return delivery.AckBindToken{}, false
			}
			if n >= r.mark {
				return delivery.AckBindToken{}, true
			}
			return delivery.VerifAckToken(r.mark - n), true
		}
		if strings.HasPrefix(s, "^") { // the n-th most recently issued token
			n, err := strconv.ParseUint(s[1:], 10, 64)
			if err != nil || own != nil {
				return delivery.AckBindToken{}, false
			}
			next := delivery.VerifAckNext(r.t)
			if n > next {
				return delivery.AckBindToken{}, true
			}
			return delivery.VerifAckToken(next - n), true
		}
		v, err := strconv.ParseUint(s, 10, 64)
		if err != nil {
			return delivery.AckBindToken{}, false
		}
		return delivery.VerifAckToken(v), true
	}
	switch f[0] {
	case "new":
		if len(f) != 3 {
			return "bad-op"
		}
		s, e1 := strconv.ParseUint(f[1], 10, 16)
		m, e2 := strconv.ParseUint(f[2], 10, 16)
		if e1 != nil || e2 != nil {
			return "bad-op"
		}
		r.t = delivery.NewAckTracker(delivery.AckTrackerOptions{ShardCount: int(s), MaxPendingPerSession: int(m), Now: r.clock})
		r.mark = 0
		return "ok"
	case "now":
		if len(f) != 2 {
			return "bad-op"
		}
		n, err := strconv.ParseInt(f[1], 10, 64)
		if err != nil {
			return "bad-op"
		}
		r.mu.Lock()
		r.now = n
		r.mu.Unlock()
		return "ok"
	case "bind", "bindc":
		if len(f) != 2 {
			return "bad-op"
		}
		p, ok := c32Pend(f[1])
		if !ok {
			return "bad-op"
		}
		if f[0] == "bindc" {
			return c32B(r.t.Bind(p))
		}
		res := r.t.BindResult(p)
		if res.Token.Valid() != res.Bound {
			return "b token-validity-mismatch"
		}
		return fmt.Sprintf("b %s %s %d %d", c32B(res.Bound), c32B(res.Added), delivery.VerifAckTokenID(res.Token), res.PendingCount)
	case "bindb":
		var ps []delivery.PendingRecvAck
		for _, x := range f[1:] {
			p, ok := c32Pend(x)
			if !ok {
				return "bad-op"
			}
			ps = append(ps, p)
		}
		res := r.t.BindBatch(ps)
		if len(res.Tokens) != len(ps) {
			return "bb misaligned"
		}
		ts := make([]string, len(res.Tokens))
		for i, t := range res.Tokens {
			ts[i] = strconv.FormatUint(delivery.VerifAckTokenID(t), 10)
		}
		return fmt.Sprintf("bb %s %d %d %d %d", joinOr(ts, ","), res.Bound, res.Added, res.Shards, res.PendingCount)
	case "finish", "cancel":
		if len(f) != 3 {
			return "bad-op"
		}
		p, ok := c32Pend(f[1])
		t, ok2 := tok(f[2])
		if !ok || !ok2 {
			return "bad-op"
		}
		if f[0] == "finish" {
			return c32B(r.t.FinishBind(p, t))
		}
		res := r.t.CancelBind(p, t)
		return fmt.Sprintf("c %s %s %d", c32B(res.Canceled), c32B(res.Removed), res.PendingCount)
	case "finishb":
		if len(f) != 4 {
			return "bad-op"
		}
		var ps []delivery.PendingRecvAck
		if f[1] != "-" {
			for _, x := range strings.Split(f[1], ";") {
				p, ok := c32Pend(x)
				if !ok {
					return "bad-op"
				}
				ps = append(ps, p)
			}
		}
		var ts []delivery.AckBindToken
		if f[2] != "-" {
			for _, x := range strings.Split(f[2], ",") {
				t, ok := tok(x)
				if !ok {
					return "bad-op"
				}
				ts = append(ts, t)
			}
		}
		var is []int
		if f[3] != "-" {
			for _, x := range strings.Split(f[3], ",") {
				v, err := strconv.Atoi(x)
				if err != nil {
					return "bad-op"
				}
				is = append(is, v)
			}
		}
		return fmt.Sprintf("n %d", r.t.FinishBindBatch(ps, ts, is))
	case "ack":
		if len(f) != 4 {
			return "bad-op"
		}
		uid, ok := c32Str(f[1])
		sess, e1 := strconv.ParseUint(f[2], 10, 64)
		msg, e2 := strconv.ParseUint(f[3], 10, 64)
		if !ok || e1 != nil || e2 != nil {
			return "bad-op"
		}
		p, found := r.t.Ack(delivery.Recvack{UID: uid, SessionID: sess, MessageID: msg, MessageSeq: 7})
		if !found {
			if p != (delivery.PendingRecvAck{}) {
				return "a miss-with-data"
			}
			return "a -"
		}
		return "a " + delivery.VerifPendString(p)
	case "closed":
		if len(f) != 3 {
			return "bad-op"
		}
		uid, ok := c32Str(f[1])
		sess, e1 := strconv.ParseUint(f[2], 10, 64)
		if !ok || e1 != nil {
			return "bad-op"
		}
		return c32Pends(r.t.SessionClosed(uid, sess))
	case "expire":
		if len(f) != 2 {
			return "bad-op"
		}
		ttl, err := strconv.ParseInt(f[1], 10, 64)
		if err != nil {
			return "bad-op"
		}
		return c32Pends(r.t.Expire(time.Duration(ttl)))
	case "count":
		if len(f) != 1 {
			return "bad-op"
		}
		return fmt.Sprintf("n %d", r.t.PendingCount())
	case "reset":
		if len(f) != 1 {
			return "bad-op"
		}
		r.mark = delivery.VerifAckNext(r.t)
		r.t.Reset()
		return "ok"
	}
	return "bad-op"
}

// conc runs the threads concurrently behind a start barrier and returns the per-op results.
func (r *c32Runner) conc(threads []string) string {
	if len(threads) == 0 || len(threads) > 4 {
		return "bad-op"
	}
	type parsed [][]string
	ps := make([]parsed, len(threads))
	for i, th := range threads {
		for _, o := range strings.Split(th, "+") {
			w := strings.Split(o, "~")
			switch w[0] {
			case "bind", "finish", "cancel", "ack", "closed", "count":
			default:
				return "bad-op"
			}
			ps[i] = append(ps[i], w)
		}
		if len(ps[i]) > 4 {
			return "bad-op"
		}
	}
	// validate with a dry parse (bad ops must be rejected before anything runs)
	for _, th := range ps {
		for _, w := range th {
			for _, x := range w {
				if x == "" {
					return "bad-op"
				}
			}
			switch w[0] {
			case "bind":
				if len(w) != 2 {
					return "bad-op"
				}
				if _, ok := c32Pend(w[1]); !ok {
					return "bad-op"
				}
			case "finish", "cancel":
				if len(w) != 3 {
					return "bad-op"
				}
				if _, ok := c32Pend(w[1]); !ok {
					return "bad-op"
				}
				s := w[2]
				if strings.HasPrefix(s, "^") || strings.HasPrefix(s, "%") {
					return "bad-op"
				}
				if strings.HasPrefix(s, "$") {
					s = s[1:]
				}
				if _, err := strconv.ParseUint(s, 10, 64); err != nil {
					return "bad-op"
				}
			case "ack":
				if len(w) != 4 {
					return "bad-op"
				}
				_, ok := c32Str(w[1])
				_, e1 := strconv.ParseUint(w[2], 10, 64)
				_, e2 := strconv.ParseUint(w[3], 10, 64)
				if !ok || e1 != nil || e2 != nil {
					return "bad-op"
				}
			case "closed":
				if len(w) != 3 {
					return "bad-op"
				}
				_, ok := c32Str(w[1])
				_, e1 := strconv.ParseUint(w[2], 10, 64)
				if !ok || e1 != nil {
					return "bad-op"
				}
			case "count":
				if len(w) != 1 {
					return "bad-op"
				}
			}
		}
	}
	results := make([][]string, len(ps))
	// spin barrier: all goroutines leave within a few nanoseconds of each other, which makes
	// overlapping critical sections far more likely than a channel wake-up does
	var ready atomic.Int32
	var wg sync.WaitGroup
	for i := range ps {
		wg.Add(1)
		go func(i int) {
			defer wg.Done()
			own := map[int]uint64{}
			ready.Add(1)
			for spins := 0; ready.Load() < int32(len(ps)); spins++ {
				if spins%64 == 63 {
					runtime.Gosched()
				}
			}
			for j, w := range ps[i] {
				res := r.exec(w, own)
				if w[0] == "bind" {
					f := strings.Split(res, " ")
					if len(f) == 5 {
						if v, err := strconv.ParseUint(f[3], 10, 64); err == nil {
							own[j] = v
						}
					}
				}
				results[i] = append(results[i], strings.ReplaceAll(res, " ", "~"))
			}
		}(i)
	}
	wg.Wait()
	out := make([]string, len(results))
	for i, rs := range results {
		out[i] = strings.Join(rs, "+")
	}
	return "conc " + strings.Join(out, " ")
}

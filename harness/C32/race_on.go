//go:build verif && race

package main

import (
	"bytes"
	"os"
	"syscall"
)

// Built with -race (props/C32.json "race": true).  The race detector writes its reports to
// stderr and makes the process exit 66.  For `run` the harness re-executes itself once with
// GORACE=exitcode=0 and redirects fd 2 to a scratch file; after every op the runner looks for a
// new "WARNING: DATA RACE" report and turns it into that op's output (`PANIC data-race …`),
// so the race is attributed to the concurrent window that produced it and can be replayed.

var c32RaceFile *os.File
var c32RaceOff int64

func init() {
	if len(os.Args) < 2 || os.Args[1] != "run" {
		return
	}
	if os.Getenv("VERIF_C32_RACE_CHILD") == "" {
		os.Setenv("VERIF_C32_RACE_CHILD", "1")
		os.Setenv("GORACE", "exitcode=0")
		self, err := os.Executable()
		if err == nil {
			_ = syscall.Exec(self, os.Args, os.Environ()) // returns only on failure
		}
	}
	f, err := os.CreateTemp(".", "c32-race-*.log")
	if err != nil {
		return
	}
	if err := syscall.Dup2(int(f.Fd()), 2); err != nil {
		return
	}
	c32RaceFile = f
}

// c32RaceSeen reports (and consumes) a data-race report written since the last call.
func c32RaceSeen() string {
	if c32RaceFile == nil {
		return ""
	}
	st, err := c32RaceFile.Stat()
	if err != nil || st.Size() <= c32RaceOff {
		return ""
	}
	buf := make([]byte, st.Size()-c32RaceOff)
	n, _ := c32RaceFile.ReadAt(buf, c32RaceOff)
	c32RaceOff = st.Size()
	buf = buf[:n]
	i := bytes.Index(buf, []byte("WARNING: DATA RACE"))
	if i < 0 {
		return ""
	}
	// first frames of the report: which functions raced
	var fns []string
	for _, l := range bytes.Split(buf[i:], []byte("\n")) {
		l = bytes.TrimSpace(l)
		if bytes.Contains(l, []byte("delivery.(*AckTracker)")) || bytes.Contains(l, []byte("delivery.(*ackTrackerEntry)")) {
			if j := bytes.IndexByte(l, '('); j >= 0 {
				name := string(l)
				if k := bytes.LastIndexByte(l, '.'); k >= 0 {
					name = string(l[k+1:])
				}
				fns = append(fns, name)
			}
		}
		if len(fns) >= 4 {
			break
		}
	}
	out := "data-race"
	for _, f := range fns {
		out += " " + f
	}
	return out
}

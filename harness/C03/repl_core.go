//go:build verif

// Shared core of the C01–C04 replication harness (this file is copied verbatim
// into harness/C01..C04; the per-property file only chooses generator weights).
//
// N in-memory voters (the repo's own MemoryFactory behind the real StoreAdapter
// and the real ExchangeServer), one REAL quorumLog per up node, and scripted
// seams that realise every op's probe-responder / durability-ack sets.
//
// ops (all fields space separated):
//   cfg N Q CAP [H K [U]]             (U=1: commits carry ServerAllocatedMessageIDs=true and records
//                                     without idempotency key: empty FromUID / ClientMsgNo)
//   cfg N Q CAP [H K]                 first op of a case (else defaults 3 2 2 0 0); H=1: the round's
//                                     foreground hedge follower is admitted at once; K=1: voters are real
//                                     MessageDB stores (channelstore.NewMessageDBFactory) instead of memory
//   repair l f NF                     follower gap repair l→f from offset NF (real runtimeRepairOwner.repair)
//   install n e t f w q PROBE ACK     PROBE: per voter 1|0|f|p   ACK: per voter D|L|X
//   commit  n e t f c k p ACK         command c, k records, content variant p
//   crash n / restart n
// output: `<result> | L1 .. | .. | S1 .. | ..` (see replRunner.dump).
package main

import (
	"context"
	"encoding/binary"
	"fmt"
	"os"
	"strconv"
	"strings"
	"time"

	ch "github.com/WuKongIM/WuKongIM/pkg/channel"
	"github.com/WuKongIM/WuKongIM/pkg/channel/replication"
	channelstore "github.com/WuKongIM/WuKongIM/pkg/channel/store"
)

const (
	replKey    = ch.ChannelKey("1:verif")
	replMaxN   = 5
	replMaxCmd = 1 << 20
)

// replChannelID is re-salted per MessageDB case: the recovery barrier's message id is a hash of
// the authority (incl. the channel id) and MessageDB indexes message ids DB-wide.
var replChannelID = ch.ChannelID{ID: "verif", Type: 1}

type replNode struct {
	id     ch.NodeID
	up     bool
	store  replication.ReplicaStore
	server *replication.ExchangeServer
	log    *replication.VerifQuorumLog
}

type replRunner struct {
	started bool
	n, q    int
	cap     int
	hedge   bool
	kind    int
	unkeyed bool   // server-allocated message ids, records without idempotency key
	salt    uint64 // per-case salt of message ids (MessageDB indexes message ids DB-wide)
	dbs     []*channelstore.MessageDBFactory
	dirs    []string
	nodes   []*replNode // index = id-1
	owner   map[replication.AuthorityID]int
	digests map[ch.EntryDigest]int
	// script of the op being executed
	probe []byte
	ack   []byte
}

func newReplRunner() *replRunner {
	r := &replRunner{}
	r.configure(3, 2, 2, false, 0)
	return r
}

func (r *replRunner) Close() {
	for _, f := range r.dbs {
		_ = f.Close()
	}
	for _, d := range r.dirs {
		_ = os.RemoveAll(d)
	}
	r.dbs, r.dirs = nil, nil
}

// One real MessageDB per voter index and harness process; every case gets its own channel
// inside it (opening a Pebble instance per voter and case would dominate the run time).
// Message ids are salted per case because MessageDB keeps a DB-wide message-id index.
var (
	replSharedMdb = map[int]*channelstore.MessageDBFactory{} // voter index -> its DB
	replMdbSeq    int
	replCaseSeq   uint64
)

type replRenameFactory struct {
	inner  *channelstore.MessageDBFactory
	suffix string
}

func (f replRenameFactory) rename(key ch.ChannelKey, id ch.ChannelID) (ch.ChannelKey, ch.ChannelID) {
	return ch.ChannelKey(string(key) + f.suffix), ch.ChannelID{ID: id.ID + f.suffix, Type: id.Type}
}

func (f replRenameFactory) ChannelStore(key ch.ChannelKey, id ch.ChannelID) (channelstore.ChannelStore, error) {
	k, i := f.rename(key, id)
	return f.inner.ChannelStore(k, i)
}

func (f replRenameFactory) AppendLeaderBatch(ctx context.Context, items []channelstore.AppendLeaderBatchItem) []channelstore.AppendLeaderBatchResult {
	renamed := make([]channelstore.AppendLeaderBatchItem, len(items))
	for n, it := range items {
		it.ChannelKey, it.ChannelID = f.rename(it.ChannelKey, it.ChannelID)
		renamed[n] = it
	}
	return f.inner.AppendLeaderBatch(ctx, renamed)
}

func (r *replRunner) factory(voter int) channelstore.Factory {
	if r.kind == 0 {
		return channelstore.NewMemoryFactory()
	}
	if replSharedMdb[voter] == nil {
		base := os.Getenv("VERIF_SCRATCH")
		if base == "" {
			base = "."
		}
		dir, err := os.MkdirTemp(base, "mdb")
		if err != nil {
			panic(err)
		}
		replSharedMdb[voter] = channelstore.NewMessageDBFactory(dir)
	}
	replMdbSeq++
	return replRenameFactory{inner: replSharedMdb[voter], suffix: fmt.Sprintf("#%d", replMdbSeq)}
}

func (r *replRunner) configure(n, q, cap int, hedge bool, kind int) {
	r.Close()
	replCaseSeq++
	r.salt = replCaseSeq << 32
	replChannelID = ch.ChannelID{ID: "verif", Type: 1}
	if kind == 1 {
		replChannelID = ch.ChannelID{ID: fmt.Sprintf("verif%d", replCaseSeq), Type: 1}
	}
	r.n, r.q, r.cap, r.hedge, r.kind = n, q, cap, hedge, kind
	r.unkeyed = false
	r.nodes = nil
	r.owner = map[replication.AuthorityID]int{}
	r.digests = map[ch.EntryDigest]int{}
	for i := 1; i <= n; i++ {
		store, err := replication.NewStoreAdapter(replication.StoreAdapterConfig{
			Factory: r.factory(i), MaxBatchItems: 4, MaxBatchBytes: 1 << 20,
		})
		if err != nil {
			panic(err)
		}
		server, err := replication.NewExchangeServer(replication.ExchangeServerConfig{
			LocalNode: ch.NodeID(i), Store: store, MaxBatchItems: 4, MaxBatchBytes: 1 << 20,
		})
		if err != nil {
			panic(err)
		}
		node := &replNode{id: ch.NodeID(i), up: true, store: store, server: server}
		r.nodes = append(r.nodes, node)
		r.newLog(node)
	}
}

func (r *replRunner) newLog(node *replNode) {
	seams := &replSeams{r: r, node: node}
	log, err := replication.VerifNewQuorumLog(node.id, node.store, seams, seams, r.n, r.cap)
	if err != nil {
		panic(err)
	}
	node.log = log
}

func (r *replRunner) voters() []ch.NodeID {
	v := make([]ch.NodeID, r.n)
	for i := range v {
		v[i] = ch.NodeID(i + 1)
	}
	return v
}

// ---------------------------------------------------------------- seams ---

type replSeams struct {
	r    *replRunner
	node *replNode
}

func (s *replSeams) ackOf(voter ch.NodeID) byte {
	i := int(voter) - 1
	if i < 0 || i >= len(s.r.nodes) || !s.r.nodes[i].up || i >= len(s.r.ack) {
		return 'X'
	}
	return s.r.ack[i]
}

func (s *replSeams) probeOf(voter ch.NodeID) byte {
	i := int(voter) - 1
	if i < 0 || i >= len(s.r.nodes) || !s.r.nodes[i].up || i >= len(s.r.probe) {
		return '0'
	}
	return s.r.probe[i]
}

func replMutation(p replication.VerifProposal, class replication.MutationClass) replication.Mutation {
	return replication.Mutation{
		ChannelKey: p.ChannelKey, ChannelID: p.ChannelID, Manifest: p.Manifest, Records: p.Records,
		Committed: p.Committed, Class: class, ServerAllocatedMessageIDs: p.ServerAllocatedMessageIDs,
	}
}

func (s *replSeams) SubmitLocal(p replication.VerifProposal) replication.VerifCompletion {
	spec := s.ackOf(s.node.id)
	if spec == 'X' {
		return replication.VerifCompletion{Outcome: ch.AppendOutcomeDefinitelyNotWritten, Err: replication.VerifErrLinkDown}
	}
	results := s.node.store.Sync(context.Background(), []replication.Mutation{replMutation(p, replication.MutationClassLeaderQuorum)})
	if os.Getenv("VERIF_DEBUG") != "" && len(results) == 1 {
		fmt.Fprintf(os.Stderr, "local sync: %+v err=%v\n", results[0].Outcome, results[0].Err)
	}
	if spec == 'L' || len(results) != 1 {
		return replication.VerifCompletion{Outcome: ch.AppendOutcomeUnknown, Err: replication.VerifErrLinkDown}
	}
	return replication.VerifLocalCompletion(p, results[0])
}

func (s *replSeams) replicate(voter ch.NodeID, p replication.VerifProposal, prio replication.ExchangePriority) (replication.ReplicateResult, error) {
	target := s.r.nodes[int(voter)-1]
	request := replication.ReplicateRequest{
		ChannelKey: p.ChannelKey, ChannelID: p.ChannelID, Leader: s.node.id, Follower: voter,
		Manifest: p.Manifest, Records: p.Records, Committed: p.Committed,
		ServerAllocatedMessageIDs: p.ServerAllocatedMessageIDs,
	}
	res, err := target.server.Handle(context.Background(), s.node.id, replication.ExchangeBatch{
		Version: replication.ExchangeVersion, Priority: prio,
		Items: []replication.ExchangeItem{{RequestID: 1, Kind: replication.ExchangeReplicate, Replicate: &request}},
	})
	if err != nil {
		return replication.ReplicateResult{}, err
	}
	if len(res.Items) != 1 {
		return replication.ReplicateResult{}, replication.VerifErrLinkDown
	}
	return res.Items[0].Replicate, nil
}

func (s *replSeams) SubmitReplica(voter ch.NodeID, p replication.VerifProposal) replication.VerifCompletion {
	spec := s.ackOf(voter)
	if spec == 'X' {
		return replication.VerifReplicaCompletion(voter, replication.ReplicateResult{}, replication.VerifErrLinkDown)
	}
	result, err := s.replicate(voter, p, replication.ExchangePriorityForeground)
	if os.Getenv("VERIF_DEBUG") != "" {
		fmt.Fprintf(os.Stderr, "replicate -> %d: %+v err=%v\n", voter, result.Status, err)
	}
	if spec == 'L' {
		return replication.VerifReplicaCompletion(voter, replication.ReplicateResult{}, replication.VerifErrLinkDown)
	}
	return replication.VerifReplicaCompletion(voter, result, err)
}

func (s *replSeams) HedgeDelay() time.Duration {
	if s.r.hedge {
		return 0
	}
	return time.Hour
}

// replLink is the transport of a follower repair: reachable iff the target is up
type replLink struct {
	r    *replRunner
	from ch.NodeID
}

func (l replLink) Exchange(ctx context.Context, node ch.NodeID, batch replication.ExchangeBatch) (replication.ExchangeBatchResult, error) {
	i := int(node) - 1
	if i < 0 || i >= len(l.r.nodes) || !l.r.nodes[i].up {
		return replication.ExchangeBatchResult{}, replication.VerifErrLinkDown
	}
	return l.r.nodes[i].server.Handle(ctx, l.from, batch)
}

func (s *replSeams) SubmitDeferred(voter ch.NodeID, p replication.VerifProposal) {
	if s.ackOf(voter) == 'X' {
		return
	}
	_, _ = s.replicate(voter, p, replication.ExchangePriorityBackground)
}

func (s *replSeams) Probe(voter ch.NodeID, indexes []uint64) (replication.ProbeResult, error) {
	spec := s.probeOf(voter)
	if spec == '0' || (spec == 'f' && len(indexes) > 0) {
		return replication.ProbeResult{}, replication.VerifErrLinkDown
	}
	if voter == s.node.id {
		return replication.VerifLocalProbe(s.node.id, s.node.store, replKey, replChannelID, indexes)
	}
	target := s.r.nodes[int(voter)-1]
	request := replication.ProbeRequest{ChannelKey: replKey, ChannelID: replChannelID, Leader: s.node.id, Follower: voter, Indexes: indexes}
	res, err := target.server.Handle(context.Background(), s.node.id, replication.ExchangeBatch{
		Version: replication.ExchangeVersion, Priority: replication.ExchangePriorityForeground,
		Items: []replication.ExchangeItem{{RequestID: 1, Kind: replication.ExchangeProbe, Probe: &request}},
	})
	if err != nil {
		return replication.ProbeResult{}, err
	}
	if len(res.Items) != 1 {
		return replication.ProbeResult{}, replication.VerifErrLinkDown
	}
	return res.Items[0].Probe, nil
}

func (s *replSeams) Fetch(donor ch.NodeID, request replication.FetchRequest) (replication.FetchResult, error) {
	spec := s.probeOf(donor)
	if spec != '1' {
		return replication.FetchResult{}, replication.VerifErrLinkDown
	}
	if donor == s.node.id {
		return replication.VerifLocalFetch(s.node.id, s.node.store, request)
	}
	target := s.r.nodes[int(donor)-1]
	res, err := target.server.Handle(context.Background(), s.node.id, replication.ExchangeBatch{
		Version: replication.ExchangeVersion, Priority: replication.ExchangePriorityForeground,
		Items: []replication.ExchangeItem{{RequestID: 1, Kind: replication.ExchangeFetch, Fetch: &request}},
	})
	if err != nil {
		return replication.FetchResult{}, err
	}
	if len(res.Items) != 1 {
		return replication.FetchResult{}, replication.VerifErrLinkDown
	}
	return res.Items[0].Fetch, nil
}

// ------------------------------------------------------------------ ops ---

func replCmdID(c uint64) ch.CommandID {
	var id ch.CommandID
	binary.BigEndian.PutUint64(id[24:], c)
	return id
}

func replCmdStr(id ch.CommandID) string {
	for _, b := range id[:24] {
		if b != 0 {
			return "B"
		}
	}
	return strconv.FormatUint(binary.BigEndian.Uint64(id[24:]), 10)
}

// replRecords: record j of (c,k,p) has abstract content p*8+j; every digest-bound
// field is a function of (c, p, j) only.
func replRecords(salt, epoch, c uint64, k, p int) []ch.Record {
	recs := make([]ch.Record, k)
	for j := 0; j < k; j++ {
		payload := []byte(fmt.Sprintf("c%d-p%d-j%d", c, p, j))
		recs[j] = ch.Record{
			ID: salt + 1 + c*64 + uint64(p)*8 + uint64(j), Epoch: epoch, FromUID: fmt.Sprintf("u%d", p),
			ClientMsgNo: fmt.Sprintf("m%d-%d", c, j), ServerTimestampMS: int64(1000 + p*8 + j),
			Payload: payload, SizeBytes: len(payload),
		}
		if p >= 6 {
			// variants 6 and 7 are "boundary shifts" of each other: identical id, timestamp, payload and
			// identical concatenation FromUID‖ClientMsgNo, split at a different place.  They are different
			// content (the entry digest length-prefixes every field) and must conflict.
			recs[j].ID = salt + 1 + c*64 + 6*8 + uint64(j)
			recs[j].ServerTimestampMS = int64(1000 + 6*8 + j)
			recs[j].Payload = []byte(fmt.Sprintf("c%d-shift-j%d", c, j))
			recs[j].SizeBytes = len(recs[j].Payload)
			if p == 6 {
				recs[j].FromUID, recs[j].ClientMsgNo = "alice", fmt.Sprintf("7-%d-%d", c, j)
			} else {
				recs[j].FromUID, recs[j].ClientMsgNo = "alice7", fmt.Sprintf("-%d-%d", c, j)
			}
		}
	}
	return recs
}

func parseSpec(s string, n int, allowed string) ([]byte, bool) {
	if len(s) != n {
		return nil, false
	}
	for i := 0; i < n; i++ {
		if !strings.ContainsRune(allowed, rune(s[i])) {
			return nil, false
		}
	}
	return []byte(s), true
}

func atoiU(s string) (uint64, bool) {
	if s == "" || len(s) > 9 {
		return 0, false
	}
	v, err := strconv.ParseUint(s, 10, 64)
	return v, err == nil
}

func (r *replRunner) Step(op string) string {
	f := strings.Fields(op)
	if len(f) == 0 {
		return "bad-op"
	}
	res := r.exec(f)
	if res == "bad-op" {
		return res
	}
	return res + r.dump()
}

func (r *replRunner) exec(f []string) string {
	if f[0] == "cfg" {
		if r.started || (len(f) != 4 && len(f) != 6 && len(f) != 7) {
			return "bad-op"
		}
		n, ok1 := atoiU(f[1])
		q, ok2 := atoiU(f[2])
		cp, ok3 := atoiU(f[3])
		var h, k, u uint64
		if len(f) == 7 {
			var ok6 bool
			u, ok6 = atoiU(f[6])
			if !ok6 || u > 1 {
				return "bad-op"
			}
		}
		if len(f) >= 6 {
			var ok4, ok5 bool
			h, ok4 = atoiU(f[4])
			k, ok5 = atoiU(f[5])
			if !ok4 || !ok5 || h > 1 || k > 1 {
				return "bad-op"
			}
		}
		if !ok1 || !ok2 || !ok3 || n < 1 || n > replMaxN || q < 1 || q > n || cp < 1 || cp > 8 {
			return "bad-op"
		}
		r.started = true
		r.configure(int(n), int(q), int(cp), h == 1, int(k))
		r.unkeyed = u == 1
		return "ok"
	}
	r.started = true
	node := func(s string) *replNode {
		v, ok := atoiU(s)
		if !ok || v < 1 || int(v) > r.n {
			return nil
		}
		return r.nodes[v-1]
	}
	switch f[0] {
	case "crash":
		if len(f) != 2 || node(f[1]) == nil {
			return "bad-op"
		}
		nd := node(f[1])
		if !nd.up {
			return "err notup"
		}
		nd.up = false
		nd.log = nil
		return "ok"
	case "repair":
		if len(f) != 4 || node(f[1]) == nil || node(f[2]) == nil {
			return "bad-op"
		}
		nf, ok := atoiU(f[3])
		if !ok {
			return "bad-op"
		}
		ld, fl := node(f[1]), node(f[2])
		if !ld.up {
			return "err notup"
		}
		if nf >= 1000 {
			return r.batchRepair(ld, fl, nf-1000)
		}
		if ld.id == fl.id {
			return "err norepair"
		}
		repaired, valid := replication.VerifRepairFollower(ld.id, ld.store, replLink{r: r, from: ld.id}, replKey, replChannelID, fl.id, nf)
		if !valid {
			return "err norepair"
		}
		if !repaired {
			return "err repair-failed"
		}
		return "ok"
	case "restart":
		if len(f) != 2 || node(f[1]) == nil {
			return "bad-op"
		}
		nd := node(f[1])
		if nd.up {
			return "err already"
		}
		nd.up = true
		r.newLog(nd)
		return "ok"
	case "install":
		if len(f) != 9 || node(f[1]) == nil {
			return "bad-op"
		}
		nd := node(f[1])
		e, ok1 := atoiU(f[2])
		t, ok2 := atoiU(f[3])
		fv, ok3 := atoiU(f[4])
		w, ok4 := atoiU(f[5])
		q, ok5 := atoiU(f[6])
		probe, ok6 := parseSpec(f[7], r.n, "10fp")
		ack, ok7 := parseSpec(f[8], r.n, "DLX")
		if !ok1 || !ok2 || !ok3 || !ok4 || !ok5 || !ok6 || !ok7 || w > 1 || q > 9 {
			return "bad-op"
		}
		id := replication.AuthorityID{ChannelEpoch: e, LeaderTerm: t, FenceVersion: fv}
		// control-plane assumption: one authority id is granted to at most one leader
		if prev, seen := r.owner[id]; seen && prev != int(nd.id) {
			return "bad-op"
		}
		if !nd.up {
			return "err notup"
		}
		r.owner[id] = int(nd.id)
		auth := replication.Authority{
			Key: replKey, ChannelID: replChannelID, ID: id, Leader: nd.id, Voters: r.voters(), WriteQuorum: int(q),
		}
		if w == 1 {
			auth.WriteFence = ch.WriteFence{Token: "fence", Version: fv, Reason: ch.WriteFenceReasonLeaderTransfer}
		}
		r.probe, r.ack = probe, ack
		inst, err := nd.log.Install(auth)
		r.probe, r.ack = nil, nil
		if err != nil {
			return "err " + replication.VerifErrClass(err)
		}
		return fmt.Sprintf("ok %d.%d.%d %d %d", inst.Authority.ChannelEpoch, inst.Authority.LeaderTerm, inst.Authority.FenceVersion, inst.LEO, inst.HW)
	case "commit":
		if len(f) != 9 || node(f[1]) == nil {
			return "bad-op"
		}
		nd := node(f[1])
		e, ok1 := atoiU(f[2])
		t, ok2 := atoiU(f[3])
		fv, ok3 := atoiU(f[4])
		c, ok4 := atoiU(f[5])
		k, ok5 := atoiU(f[6])
		p, ok6 := atoiU(f[7])
		ack, ok7 := parseSpec(f[8], r.n, "DLX")
		if !ok1 || !ok2 || !ok3 || !ok4 || !ok5 || !ok6 || !ok7 || c >= replMaxCmd || k > 3 || p > 7 {
			return "bad-op"
		}
		if !nd.up {
			return "err notup"
		}
		id := replication.AuthorityID{ChannelEpoch: e, LeaderTerm: t, FenceVersion: fv}
		epoch := e
		if epoch == 0 {
			epoch = 1 // keep the records valid so that the authority guard is what rejects
		}
		prop := replication.Proposal{
			Key: replKey, Expected: id, CommandID: replCmdID(c), Records: replRecords(r.salt, epoch, c, int(k), int(p)),
		}
		if r.unkeyed {
			prop.ServerAllocatedMessageIDs = true
			for j := range prop.Records {
				prop.Records[j].FromUID, prop.Records[j].ClientMsgNo = "", ""
				if p == 7 { // keep variant 7 different from 6 without the key fields
					prop.Records[j].Payload = append(prop.Records[j].Payload, '\'')
					prop.Records[j].SizeBytes = len(prop.Records[j].Payload)
				}
			}
		}
		r.ack = ack
		rc, err := nd.log.Commit(prop)
		r.ack = nil
		if err != nil {
			return "err " + replication.VerifErrClass(err)
		}
		return fmt.Sprintf("ok %d.%d.%d %s %d %d %d", rc.Authority.ChannelEpoch, rc.Authority.LeaderTerm, rc.Authority.FenceVersion,
			replCmdStr(rc.CommandID), rc.First, rc.Last, rc.HW)
	}
	return "bad-op"
}

// batchRepair: the leader's proposals [nf, LEO] followed by an exact replay of the proposal ending at
// nf-1, sent to the follower as ONE exchange batch (one ReplicaStore.Sync call with several mutations
// of one channel, the last of them an out-of-order replay).
func (r *replRunner) batchRepair(ld, fl *replNode, nf uint64) string {
	if ld.id == fl.id {
		return "err norepair"
	}
	loaded, err := ld.store.Load(context.Background(), replication.LoadBatch{Items: []replication.LoadRequest{{ChannelKey: replKey, ChannelID: replChannelID}}})
	if err != nil || len(loaded.Items) != 1 || loaded.Items[0].Err != nil {
		return "err norepair"
	}
	state := loaded.Items[0].State
	var all []replication.RecoveryProposal
	if state.LEO > 0 {
		pages := ld.store.Fetch(context.Background(), []replication.FetchRange{{
			ChannelKey: replKey, ChannelID: replChannelID, Expected: state, From: 1, Through: state.LEO, MaxBytes: 64 << 10,
		}})
		if len(pages) != 1 || pages[0].Err != nil {
			return "err norepair"
		}
		all = pages[0].Proposals
	}
	var tail, replay []replication.RecoveryProposal
	for _, p := range all {
		if p.Manifest.LastOffset >= nf {
			tail = append(tail, p)
		} else if p.Manifest.LastOffset+1 == nf && len(replay) == 0 {
			replay = append(replay, p)
		}
	}
	items := append(tail, replay...)
	if nf == 0 || len(tail) == 0 || tail[0].Manifest.BaseOffset+1 != nf || len(items) > 4 || !fl.up {
		return "err norepair"
	}
	batch := replication.ExchangeBatch{Version: replication.ExchangeVersion, Priority: replication.ExchangePriorityForeground}
	reqs := make([]replication.ReplicateRequest, len(items))
	for i, p := range items {
		committed := state.Committed
		if p.Manifest.LastOffset < committed {
			committed = p.Manifest.LastOffset
		}
		reqs[i] = replication.ReplicateRequest{
			ChannelKey: replKey, ChannelID: replChannelID, Leader: ld.id, Follower: fl.id,
			Manifest: p.Manifest, Records: p.Records, Committed: committed, ServerAllocatedMessageIDs: r.unkeyed,
		}
		batch.Items = append(batch.Items, replication.ExchangeItem{RequestID: uint64(i + 1), Kind: replication.ExchangeReplicate, Replicate: &reqs[i]})
	}
	res, err := fl.server.Handle(context.Background(), ld.id, batch)
	if err != nil || len(res.Items) != len(items) {
		return "err " + replication.VerifErrClass(err)
	}
	out := make([]string, len(items))
	for i, it := range res.Items {
		out[i] = map[replication.ReplicateStatus]string{
			replication.ReplicateDurable: "D", replication.ReplicateAlreadyDurable: "A", replication.ReplicateNeedFrom: "N",
			replication.ReplicateStaleFence: "S", replication.ReplicateConflict: "C", replication.ReplicateBackpressured: "B",
			replication.ReplicateOutcomeUnknown: "U",
		}[it.Replicate.Status]
	}
	return "ok " + strings.Join(out, ",")
}

// ----------------------------------------------------------------- dump ---

func (r *replRunner) dig(d ch.EntryDigest) int {
	if d == (ch.EntryDigest{}) {
		return 0
	}
	if v, ok := r.digests[d]; ok {
		return v
	}
	v := len(r.digests) + 1
	r.digests[d] = v
	return v
}

func (r *replRunner) dump() string {
	var b strings.Builder
	for _, nd := range r.nodes {
		fmt.Fprintf(&b, " | L%d ", nd.id)
		if !nd.up {
			b.WriteString("down")
			continue
		}
		v := nd.log.View(replKey)
		if !v.Present {
			b.WriteString("none")
			continue
		}
		pend := "-"
		if v.HasPending {
			pend = replCmdStr(v.PendingCmd)
		}
		order := make([]string, len(v.Order))
		for i, c := range v.Order {
			order[i] = replCmdStr(c)
		}
		ord := strings.Join(order, ",")
		if ord == "" {
			ord = "-"
		}
		fmt.Fprintf(&b, "%d.%d.%d q%d w%s r%s leo%d fc%d hw%d p%s o%s n%d",
			v.Authority.ChannelEpoch, v.Authority.LeaderTerm, v.Authority.FenceVersion, v.Quorum,
			b01(v.Fenced), b01(v.Ready), v.LEO, v.FrontierHW, v.HW, pend, ord, v.RetainedLen)
	}
	for _, nd := range r.nodes {
		fmt.Fprintf(&b, " | S%d ", nd.id)
		b.WriteString(r.dumpStore(nd))
	}
	return b.String()
}

func b01(v bool) string {
	if v {
		return "1"
	}
	return "0"
}

func (r *replRunner) dumpStore(nd *replNode) string {
	load := func(indexes []uint64) (replication.LoadResult, string) {
		res, err := nd.store.Load(context.Background(), replication.LoadBatch{Items: []replication.LoadRequest{{
			ChannelKey: replKey, ChannelID: replChannelID, ProbeIndexes: indexes,
		}}})
		if err != nil {
			return replication.LoadResult{}, "ERR " + replication.VerifErrClass(err)
		}
		if len(res.Items) != 1 {
			return replication.LoadResult{}, "ERR items"
		}
		if res.Items[0].Err != nil {
			return replication.LoadResult{}, "ERR " + replication.VerifErrClass(res.Items[0].Err)
		}
		return res.Items[0], ""
	}
	first, e := load(nil)
	if e != "" {
		return e
	}
	leo := first.State.LEO
	if leo > 250 {
		return "ERR too-long"
	}
	indexes := make([]uint64, leo)
	for i := range indexes {
		indexes[i] = uint64(i + 1)
	}
	full := first
	if leo > 0 {
		full, e = load(indexes)
		if e != "" {
			return e
		}
	}
	var b strings.Builder
	fmt.Fprintf(&b, "%d %d", full.State.LEO, full.State.Committed)
	for i, ent := range full.Entries {
		id := ent.Identity
		if !ent.Present || id.Index != uint64(i+1) || id.PreviousIndex+1 != id.Index {
			fmt.Fprintf(&b, " !bad%d", i+1)
			continue
		}
		fmt.Fprintf(&b, " %d.%d.%d:%s:%d:%d:%d", id.ChannelEpoch, id.LeaderTerm, id.FenceVersion, replCmdStr(id.CommandID),
			id.PreviousTerm, r.dig(id.PreviousDigest), r.dig(id.Digest))
	}
	// tail identity / manifest must describe the last entry
	if leo > 0 && len(full.Entries) == int(leo) {
		tail := full.State.TailIdentity
		if tail != full.Entries[leo-1].Identity || full.State.Manifest.LastOffset != leo {
			b.WriteString(" !tail")
		}
	}
	return b.String()
}

// ------------------------------------------------------------ generator ---

// replGenParams are the per-property generator weights.
type replGenParams struct {
	name          string
	pInstall      int // weights of op kinds
	pCommit       int
	pCrash        int
	pRestart      int
	pRetryExact   int // % of commits
	pRetryConfl   int
	pStaleAuth    int // % of installs with a lower authority
	pEqualAuth    int
	pFenced       int
	pScenario     int // % of cases that start with the bare-quorum/failover template
	pSmallCap     int // % of cases with retained cap 1
	maxOps        int
	pWrongExpect  int // % of commits with a stale / foreign expected authority
	pBareQuorum   int // % of commit ack specs that are a bare quorum
	pLostAcks     int
	pMinorityResp int // % of installs with exactly Q responders
	pRepair       int // weight of follower gap repair ops
	pMdb          int // % of cases whose voters are real MessageDB stores
	pSameTerm     int // % of cases starting with the same-term divergent-tail template
	pUnkeyed      int // % of cases on MessageDB with server-allocated, unkeyed records (cap 1)
	pStaleBatch   int // % of cases: the batched-replay + deposed-leader template on that store kind
	pOlderFence   int // % of cases: write under (e,t,f+1), restart the owner, install (e,t,f)
}

type replAuth struct{ e, t, f uint64 }

type replGenState struct {
	g        *Gen
	p        replGenParams
	n, q     int
	up       []bool
	last     []replAuth // last authority handed to node i (zero = none)
	top      replAuth   // highest authority handed out
	owner    map[replAuth]int
	cmds     [][3]int // issued (c,k,p)
	nextCmd  int
	leader   int // node of the most recent install
	installs int
	ready    []bool // generator's own guess: the node's last install probably succeeded
	lastCmd  [][3]int // last command each node was asked to commit (c,k,p); c=0 = none
	records  int      // records the generator has asked to commit so far (rough log length)
}

func (s *replGenState) all(c byte) string { return strings.Repeat(string(c), s.n) }

func (s *replGenState) upNodes() []int {
	var v []int
	for i, u := range s.up {
		if u {
			v = append(v, i+1)
		}
	}
	return v
}

func (s *replGenState) pickNode(preferUp bool) int {
	ups := s.upNodes()
	if preferUp && len(ups) > 0 && !s.g.R.Chance(7) {
		return ups[s.g.R.Intn(len(ups))]
	}
	return 1 + s.g.R.Intn(s.n)
}

// subset spec: exactly `want` of the up nodes (always including `must` when >0) get `yes`, others `no`.
func (s *replGenState) subsetSpec(want int, must int, yes, no byte) string {
	spec := []byte(s.all(no))
	var pool []int
	for _, u := range s.upNodes() {
		if u != must {
			pool = append(pool, u)
		}
	}
	cnt := 0
	if must > 0 {
		spec[must-1] = yes
		cnt = 1
	}
	for cnt < want && len(pool) > 0 {
		i := s.g.R.Intn(len(pool))
		spec[pool[i]-1] = yes
		pool = append(pool[:i], pool[i+1:]...)
		cnt++
	}
	return string(spec)
}

func (s *replGenState) randomSpec(alphabet string, weights ...int) string {
	spec := make([]byte, s.n)
	for i := range spec {
		spec[i] = alphabet[s.g.R.Pick(weights...)]
	}
	return string(spec)
}

func (s *replGenState) ackSpec(local int) string {
	g := s.g
	switch g.R.Pick(35, s.p.pBareQuorum, s.p.pLostAcks, 8, 12) {
	case 0:
		g.Count("ack:all-durable")
		return s.all('D')
	case 1:
		g.Count("ack:bare-quorum")
		return s.subsetSpec(s.q, local, 'D', 'X')
	case 2:
		g.Count("ack:lost-replies")
		spec := []byte(s.subsetSpec(s.q, local, 'D', 'L'))
		if g.R.Chance(40) {
			spec[local-1] = 'L'
		}
		return string(spec)
	case 3:
		g.Count("ack:below-quorum")
		return s.subsetSpec(s.q-1, local, 'D', 'X')
	default:
		g.Count("ack:random")
		return s.randomSpec("DLX", 5, 2, 3)
	}
}

func (s *replGenState) probeSpec(local int) string {
	g := s.g
	switch g.R.Pick(30, s.p.pMinorityResp, 6, 18, 8) {
	case 0:
		g.Count("probe:all")
		return s.all('1')
	case 1:
		g.Count("probe:exactly-Q")
		return s.subsetSpec(s.q, local, '1', '0')
	case 2:
		g.Count("probe:below-Q")
		return s.subsetSpec(s.q-1, local, '1', '0')
	case 3:
		g.Count("probe:random")
		return s.randomSpec("10", 3, 2)
	default:
		g.Count("probe:partial-rounds")
		return s.randomSpec("10fp", 4, 1, 2, 2)
	}
}

func (s *replGenState) bump() replAuth {
	a := s.top
	if a.e == 0 {
		a = replAuth{1, 0, 1}
	}
	switch s.g.R.Pick(55, 15, 10, 20) {
	case 0:
		a.t++
	case 1:
		a.t++
		a.f++
	case 2:
		a.e++
		a.t = uint64(s.g.R.Range(1, 2))
	default:
		if a.t == 0 {
			a.t = 1
		} else if s.g.R.Chance(40) {
			a.f++ // fence-only bump (barrier then refuses a same-term tail)
		} else {
			a.t += 2
		}
	}
	return a
}

// heal: a clean leader change (term bump, every up voter answers everything)
func (s *replGenState) heal() {
	g := s.g
	node := s.pickNode(true)
	a := s.top
	if a.e == 0 {
		a = replAuth{1, 0, 1}
	}
	a.t++
	if o, seen := s.owner[a]; seen && o != node {
		a.t++
	}
	s.owner[a] = node
	g.Count("install:heal")
	if s.up[node-1] {
		s.last[node-1] = a
		s.top = a
		s.leader = node
		s.ready[node-1] = true
	}
	s.installs++
	g.Op("install", "%d %d %d %d 0 %d %s %s", node, a.e, a.t, a.f, s.q, s.all('1'), s.all('D'))
}

func (s *replGenState) install(node int) {
	g := s.g
	var a replAuth
	lowered := false
	kind := g.R.Pick(100-s.p.pStaleAuth-s.p.pEqualAuth, s.p.pEqualAuth, s.p.pStaleAuth)
	switch {
	case kind == 1 && s.last[node-1] != (replAuth{}):
		a = s.last[node-1]
		g.Count("install:equal-authority")
	case kind == 2 && s.top != (replAuth{}):
		a = s.top
		switch g.R.Intn(3) {
		case 0:
			if a.t > 1 {
				a.t--
			}
		case 1:
			if a.f > 1 {
				a.f--
			}
		default:
			if a.e > 1 {
				a.e--
			}
		}
		g.Count("install:lower-or-old-authority")
		lowered = true
	default:
		a = s.bump()
		g.Count("install:higher-authority")
	}
	if g.R.Chance(2) {
		a.f = 0
		g.Count("install:zero-component")
	}
	if o, seen := s.owner[a]; seen && o != node {
		// id already granted to another leader: take a fresh one instead
		a = s.bump()
	}
	s.owner[a] = node
	w := 0
	if g.R.Chance(s.p.pFenced) {
		w = 1
		g.Count("install:fenced")
	}
	q := s.q
	if g.R.Chance(6) {
		q = g.R.Range(0, s.n+1)
		if s.n%2 == 0 && g.R.Bool() {
			q = s.n / 2 // an even split is not a quorum: must be refused
			g.Count("install:even-split-quorum")
		}
		g.Count("install:other-quorum")
	}
	if s.up[node-1] {
		s.last[node-1] = a
		if cmpReplAuth(a, s.top) > 0 {
			s.top = a
		}
		s.leader = node
	} else {
		g.Count("install:on-down-node")
	}
	s.installs++
	probe := s.probeSpec(node)
	resp := 0
	for i := 0; i < s.n; i++ {
		if s.up[i] && (probe[i] == '1' || probe[i] == 'p') {
			resp++
		}
	}
	ack := s.ackSpec(node)
	if g.R.Chance(45) {
		ack = s.all('D')
	}
	acks := 0
	for i := 0; i < s.n; i++ {
		if s.up[i] && ack[i] == 'D' {
			acks++
		}
	}
	if s.up[node-1] {
		s.ready[node-1] = w == 0 && q == s.q && resp >= s.q && a.f != 0 && !lowered && acks >= s.q && ack[node-1] == 'D'
	}
	g.Op("install", "%d %d %d %d %d %d %s %s", node, a.e, a.t, a.f, w, q, probe, ack)
}

func cmpReplAuth(a, b replAuth) int {
	for _, p := range [][2]uint64{{a.e, b.e}, {a.t, b.t}, {a.f, b.f}} {
		if p[0] < p[1] {
			return -1
		}
		if p[0] > p[1] {
			return 1
		}
	}
	return 0
}

// replay: a node that is no longer the newest leader retries its last command under its own
// (possibly deposed) authority — late writes of an old leader, exact replays to followers
func (s *replGenState) replay() bool {
	g := s.g
	var cand []int
	for i := 0; i < s.n; i++ {
		if s.up[i] && i+1 != s.leader && s.lastCmd[i][0] != 0 && s.last[i] != (replAuth{}) {
			cand = append(cand, i+1)
		}
	}
	if len(cand) == 0 {
		return false
	}
	node := cand[g.R.Intn(len(cand))]
	a, c := s.last[node-1], s.lastCmd[node-1]
	g.Count("commit:deposed-leader-replay")
	g.Op("commit", "%d %d %d %d %d %d %d %s", node, a.e, a.t, a.f, c[0], c[1], c[2], s.ackSpec(node))
	return true
}

// repair: follower gap repair from some node's log to another voter, from a small offset
func (s *replGenState) repair() {
	g := s.g
	l := s.leader
	if l == 0 || g.R.Chance(25) {
		l = s.pickNode(true)
	}
	f := 1 + g.R.Intn(s.n)
	if f == l && s.n > 1 && !g.R.Chance(5) {
		f = 1 + (l % s.n)
	}
	nf := 1
	if !g.R.Chance(35) {
		nf = g.R.Range(0, minInt(s.records, 12)+1)
	}
	if g.R.Chance(35) && nf > 0 {
		g.Count("repair:batched")
		g.Op("repair", "%d %d %d", l, f, 1000+nf)
		return
	}
	g.Count("repair")
	g.Op("repair", "%d %d %d", l, f, nf)
}

func (s *replGenState) staleBatch() {
	g := s.g
	k := g.R.Range(1, 2)
	g.Op("install", "1 1 1 1 0 2 111 DDD")
	g.Op("commit", "1 1 1 1 1 %d 0 DDD", k)
	g.Op("commit", "1 1 1 1 9 1 0 XXX")
	g.Op("install", "2 1 2 1 0 2 111 DDX")
	g.Op("commit", "2 1 2 1 3 1 0 DDX")
	g.Op("repair", "2 3 %d", 1000+k+1)
	g.Op("commit", "1 1 1 1 9 1 0 XXD")
	g.Op("commit", "2 1 2 1 4 1 0 DDD")
	g.Op("repair", "2 3 1")
}

func (s *replGenState) commit() {
	g := s.g
	if g.R.Chance(7) && s.replay() {
		return
	}
	node := s.leader
	if node == 0 || !s.ready[node-1] || !s.up[node-1] {
		var cand []int
		for i := range s.ready {
			if s.ready[i] && s.up[i] {
				cand = append(cand, i+1)
			}
		}
		if len(cand) > 0 {
			node = cand[g.R.Intn(len(cand))]
		}
	}
	if node == 0 || g.R.Chance(8) {
		node = s.pickNode(true)
	}
	if s.ready[node-1] && s.up[node-1] {
		g.Count("commit:node-predicted-writable")
	} else {
		g.Count("commit:node-predicted-not-writable")
	}
	a := s.last[node-1]
	if g.R.Chance(s.p.pWrongExpect) {
		g.Count("commit:foreign-or-stale-expected")
		switch g.R.Intn(3) {
		case 0:
			a = s.top
		case 1:
			if a.t > 1 {
				a.t--
			}
		default:
			a = s.last[g.R.Intn(s.n)]
		}
	}
	if a == (replAuth{}) {
		a = replAuth{1, 1, 1}
	}
	var c, k, p int
	kind := g.R.Pick(100-s.p.pRetryExact-s.p.pRetryConfl, s.p.pRetryExact, s.p.pRetryConfl)
	switch {
	case kind == 1 && len(s.cmds) > 0:
		// recent commands are retried more often than old ones (cache hits vs evictions)
		i := len(s.cmds) - 1 - g.R.Intn(minInt(len(s.cmds), 1+g.R.Intn(5)))
		c, k, p = s.cmds[i][0], s.cmds[i][1], s.cmds[i][2]
		g.Count("commit:retry-exact")
	case kind == 2 && len(s.cmds) > 0:
		i := len(s.cmds) - 1 - g.R.Intn(minInt(len(s.cmds), 3))
		c, k, p = s.cmds[i][0], s.cmds[i][1], s.cmds[i][2]
		if p >= 6 && !g.R.Chance(25) {
			p = 13 - p // the boundary-shifted twin
			g.Count("commit:retry-boundary-shift")
		} else if g.R.Bool() {
			p = (p + 1 + g.R.Intn(6)) % 8
		} else {
			k = 1 + (k % 3)
		}
		g.Count("commit:retry-conflicting")
	default:
		s.nextCmd++
		c, k, p = s.nextCmd, g.R.Pick(0, 6, 3, 2), g.R.Intn(3)
		if g.R.Chance(15) {
			p = 6 + g.R.Intn(2)
		}
		if g.R.Chance(2) {
			c = 0
			g.Count("commit:zero-command")
		} else if g.R.Chance(2) {
			k = 0
			g.Count("commit:no-records")
		} else {
			s.cmds = append(s.cmds, [3]int{c, k, p})
		}
		g.Count("commit:new-command")
	}
	if c != 0 && k != 0 {
		s.lastCmd[node-1] = [3]int{c, k, p}
		s.records += k
	}
	g.Op("commit", "%d %d %d %d %d %d %d %s", node, a.e, a.t, a.f, c, k, p, s.ackSpec(node))
}

func minInt(a, b int) int {
	if a < b {
		return a
	}
	return b
}

func replGenCase(g *Gen, p replGenParams) {
	g.Case()
	s := &replGenState{g: g, p: p, owner: map[replAuth]int{}}
	if g.R.Chance(p.pStaleBatch) {
		// directed family (MessageDB, server-allocated unkeyed records): an old leader keeps a sealed but
		// unwritten proposal at base 2; the new leader's barrier and next entry reach voter 3 only as ONE
		// batch that ends in an exact replay of the older proposal; then the old leader's proposal arrives
		g.Count("case:batched-replay-then-deposed-proposal")
		g.Op("cfg", "3 2 2 %d 1 1", g.R.Intn(2))
		s.staleBatch()
		return
	}
	switch g.R.Pick(2, 12, 1, 4, 1) {
	case 0:
		s.n = 1
	case 1:
		s.n = 3
	case 2:
		s.n = 2
	case 3:
		s.n = 5
	default:
		s.n = 4
	}
	s.q = s.n/2 + 1
	if s.q < s.n && g.R.Chance(20) {
		s.q = g.R.Range(s.q, s.n)
	}
	cp := g.R.Range(1, 3)
	if g.R.Chance(p.pSmallCap) {
		cp = 1
	}
	g.Count(fmt.Sprintf("cfg:N=%d", s.n))
	hedge, kind := 0, 0
	if g.R.Bool() {
		hedge = 1
		g.Count("cfg:hedge-at-once")
	}
	sameTerm := s.n >= 2 && g.R.Chance(p.pSameTerm)
	if g.R.Chance(p.pMdb) || (sameTerm && g.R.Bool()) {
		kind = 1
		g.Count("cfg:store=messagedb")
	}
	if g.R.Chance(p.pUnkeyed) {
		g.Count("cfg:store=messagedb-unkeyed")
		// conflicting reuse of a command id in this store kind is ALSO accepted at the log end (same root
		// cause as the registered finding, verdict conflicting-retry-acked:server-allocated-unkeyed-evicted,
		// not yet registered): keep these cases to exact retries
		s.p.pRetryConfl = 0
		g.Op("cfg", "%d %d 1 %d 1 1", s.n, s.q, hedge)
	} else {
		g.Op("cfg", "%d %d %d %d %d", s.n, s.q, cp, hedge, kind)
	}
	s.up = make([]bool, s.n)
	for i := range s.up {
		s.up[i] = true
	}
	s.last = make([]replAuth, s.n)
	s.ready = make([]bool, s.n)
	s.lastCmd = make([][3]int, s.n)
	nops := g.R.Range(4, p.maxOps)
	if g.R.Chance(p.pOlderFence) {
		// directed family: the durable tail is written under (e,t,f+1); the owner restarts (its memory of
		// authorities is gone) and is asked to install (e,t,f) or (e,t,f+2): same epoch and term, so the
		// barrier's comparison against the durable tail is the only thing that can refuse
		g.Count("case:restart-then-same-term-other-fence")
		l := 1 + g.R.Intn(s.n)
		a := replAuth{1, uint64(g.R.Range(1, 2)), 2}
		s.owner[a] = l
		s.last[l-1], s.top, s.leader = a, a, l
		g.Op("install", "%d %d %d %d 0 %d %s %s", l, a.e, a.t, a.f, s.q, s.all('1'), s.all('D'))
		s.nextCmd++
		s.cmds = append(s.cmds, [3]int{s.nextCmd, 1, 0})
		g.Op("commit", "%d %d %d %d %d 1 0 %s", l, a.e, a.t, a.f, s.nextCmd, s.all('D'))
		g.Op("crash", "%d", l)
		g.Op("restart", "%d", l)
		b := a
		if g.R.Chance(70) {
			b.f--
		} else {
			b.f++
		}
		s.owner[b] = l
		g.Op("install", "%d %d %d %d 0 %d %s %s", l, b.e, b.t, b.f, s.q, s.all('1'), s.all('D'))
		s.nextCmd++
		g.Op("commit", "%d %d %d %d %d 1 0 %s", l, b.e, b.t, b.f, s.nextCmd, s.all('D'))
		s.records += 2
	}
	if sameTerm {
		// directed family: two authorities sharing a leader term (fence-only or epoch-only bump over an
		// empty quorum log) write different entries at offset 1; a follower keeps the old one and is then
		// offered the successor of the new one
		g.Count("case:same-term-divergent-tail")
		a1 := replAuth{1, uint64(g.R.Range(1, 2)), 1}
		la := 1 + g.R.Intn(s.n)
		x := 1 + (la % s.n) // the follower that keeps the old tail
		s.owner[a1] = la
		s.last[la-1], s.top, s.leader = a1, a1, la
		g.Op("install", "%d %d %d %d 0 %d %s %s", la, a1.e, a1.t, a1.f, s.q, s.all('1'), s.all('D'))
		spec := []byte(s.all('X'))
		spec[x-1] = 'L'
		s.nextCmd++
		g.Op("commit", "%d %d %d %d %d 1 0 %s", la, a1.e, a1.t, a1.f, s.nextCmd, string(spec))
		a2 := a1
		if g.R.Chance(70) {
			a2.f++
		} else {
			a2.e++
		}
		lb := la
		if s.n > 2 && g.R.Bool() {
			for lb == la || lb == x {
				lb = 1 + g.R.Intn(s.n)
			}
		}
		probe := []byte(s.all('1'))
		probe[x-1] = '0'
		s.owner[a2] = lb
		s.last[lb-1], s.top, s.leader = a2, a2, lb
		s.ready[lb-1] = true
		g.Op("install", "%d %d %d %d 0 %d %s %s", lb, a2.e, a2.t, a2.f, s.q, string(probe), s.all('D'))
		for i := 0; i < 2; i++ {
			s.nextCmd++
			s.cmds = append(s.cmds, [3]int{s.nextCmd, 1, 1})
			g.Op("commit", "%d %d %d %d %d 1 1 %s", lb, a2.e, a2.t, a2.f, s.nextCmd, s.all('D'))
		}
		s.records += 3
	}
	if s.n >= 2 && !sameTerm && g.R.Chance(p.pScenario) {
		// directed family: commits on a bare quorum, the leader goes away, a survivor takes over
		g.Count("case:failover-template")
		l := 1 + g.R.Intn(s.n)
		a := s.bump()
		s.owner[a] = l
		s.last[l-1], s.top, s.leader = a, a, l
		s.ready[l-1] = true
		g.Op("install", "%d %d %d %d 0 %d %s %s", l, a.e, a.t, a.f, s.q, s.all('1'), s.all('D'))
		for i, m := 0, g.R.Range(1, 3); i < m; i++ {
			s.nextCmd++
			k := g.R.Range(1, 2)
			s.cmds = append(s.cmds, [3]int{s.nextCmd, k, 0})
			spec := s.subsetSpec(s.q, l, 'D', 'X')
			if g.R.Chance(30) {
				spec = s.all('D')
			}
			g.Op("commit", "%d %d %d %d %d %d 0 %s", l, a.e, a.t, a.f, s.nextCmd, k, spec)
		}
		if g.R.Chance(80) {
			g.Op("crash", "%d", l)
			s.up[l-1] = false
			s.ready[l-1] = false
		}
		nl := s.pickNode(true)
		s.install(nl)
	}
	for i := 0; i < nops; i++ {
		switch g.R.Pick(p.pInstall, p.pCommit, p.pCrash, p.pRestart, p.pRepair) {
		case 0:
			s.install(s.pickNode(true))
		case 1:
			anyReady := false
			for j := range s.ready {
				anyReady = anyReady || (s.ready[j] && s.up[j])
			}
			if !anyReady && g.R.Chance(90) {
				if g.R.Chance(60) {
					s.heal()
				} else {
					s.install(s.pickNode(true))
				}
			} else {
				s.commit()
			}
		case 2:
			ups := s.upNodes()
			// keep at least a quorum up most of the time
			if len(ups) > s.q || g.R.Chance(15) {
				n := s.pickNode(true)
				g.Op("crash", "%d", n)
				s.up[n-1] = false
				s.ready[n-1] = false
			} else {
				s.commit()
			}
		case 4:
			s.repair()
		default:
			var downs []int
			for j, u := range s.up {
				if !u {
					downs = append(downs, j+1)
				}
			}
			if len(downs) == 0 && !g.R.Chance(6) {
				s.commit()
				continue
			}
			n := s.pickNode(false)
			if len(downs) > 0 && !g.R.Chance(5) {
				n = downs[g.R.Intn(len(downs))]
			}
			g.Op("restart", "%d", n)
			if !s.up[n-1] {
				s.up[n-1] = true
			}
		}
	}
}

func replGen(p replGenParams) func(g *Gen) {
	return func(g *Gen) {
		for i := 0; i < g.N; i++ {
			replGenCase(g, p)
		}
	}
}

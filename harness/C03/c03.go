//go:build verif

package main

// C03 — receipts are exact, contiguous and retry-stable.  Generator biased
// towards retries (exact and conflicting), a retained-command cache of size 1–2
// (eviction is the common case), lost durability replies followed by retries,
// and owner restarts that re-install the same authority.
func init() {
	Register(&Prop{Gen: replGen(replGenParams{
		name: "C03", pInstall: 16, pCommit: 68, pCrash: 8, pRestart: 8,
		pRetryExact: 30, pRetryConfl: 14, pStaleAuth: 3, pEqualAuth: 35, pFenced: 1,
		pScenario: 15, pSmallCap: 55, maxOps: 32, pWrongExpect: 3,
		pBareQuorum: 20, pLostAcks: 25, pMinorityResp: 15,
		pRepair: 3, pMdb: 8, pSameTerm: 3, pUnkeyed: 4,
	}), NewRunner: func() Runner { return newReplRunner() }})
}

//go:build verif

package main

import (
	"errors"
	"fmt"
	"sort"
	"strconv"
	"strings"
	"time"

	"github.com/WuKongIM/WuKongIM/internal/runtime/presence"
)

// C33 — presence Directory vs the Lean model.
//
// ops (fields separated by one space; strings hex, empty = "-"):
//   new L S                 fresh Directory{LocalNodeID: L, ShardCount: S}
//   become T | lose HS
//   reg T R | commit T TOK | abort T TOK | unreg T K SEQ | touch T R*
//   expire NOW TTL          NOW = z (zero time.Time) or unix nanoseconds; TTL nanoseconds
//   ep T UID | eps T UID* | ept G*   (G = T/UID/UID…)
//   snap
// T = hs,slot,leader,term,epoch,rev,aepoch   R = uid,node,boot,seq,sess,dev,flag,level,listener,conn,seen
// K = uid,node,boot,sess
// output: `<result> || <VerifDump>`

func init() {
	Register(&Prop{Gen: genC33, NewRunner: func() Runner { return newC33Runner() }})
}

// ---------------------------------------------------------------- generator

type c33Gen struct {
	g     *Gen
	local int
	cur   map[int][7]int // believed installed target per hash slot
	regs  map[int]int    // registrations issued per hash slot since (believed) install
	seq   int            // loosely increasing owner sequence
	unreg []c33Unreg     // recent unregisters, to aim registers at the fence
}

type c33Unreg struct {
	hs  int
	key [4]string
	seq int
}

var c33UIDs = []string{"u1", "u2", "u1", "u2", "u1", "u3", ""}
var c33Devs = []string{"d1", "d2", "d1", ""}
var c33Lis = []string{"tcp", "ws", ""}

func c33hex(s string) string { return Hex([]byte(s)) }

func (c *c33Gen) target() (string, int) {
	r := c.g.R
	hs := r.Intn(4)
	if len(c.cur) > 0 && !r.Chance(7) { // mostly an installed hash slot
		for tries := 0; tries < 16; tries++ {
			if _, ok := c.cur[hs]; ok {
				break
			}
			hs = r.Intn(4)
		}
	}
	t, have := c.cur[hs]
	if !have {
		t = [7]int{hs, 1 + r.Intn(2), 1 + r.Intn(2), 1 + r.Intn(2), 1 + r.Intn(2), r.Intn(4), r.Intn(3)}
	}
	kind := "current"
	if !have {
		kind = "no-slot"
	}
	if r.Chance(22) {
		// a stale / foreign target: change exactly one fencing field (or only a non-fencing one)
		switch r.Intn(7) {
		case 0:
			t[1] = t[1]%2 + 1
			kind = "stale-slotid"
		case 1:
			t[2] = t[2]%2 + 1
			kind = "stale-leader"
		case 2:
			t[3] = t[3] + 1 - 2*r.Intn(2)
			kind = "stale-term"
		case 3:
			t[4] = t[4] + 1 - 2*r.Intn(2)
			kind = "stale-epoch"
		case 4:
			t[0] = 4 + r.Intn(2)
			kind = "unknown-hashslot"
		default:
			t[5] = r.Intn(5)
			t[6] = r.Intn(5)
			if have {
				kind = "current-other-revision"
			}
		}
	}
	if have && c.local != 0 && t[2] != c.local {
		kind = "not-local-leader"
	}
	c.g.Count("target:" + kind)
	return fmt.Sprintf("%d,%d,%d,%d,%d,%d,%d", t[0], t[1], t[2], t[3], t[4], t[5], t[6]), t[0]
}

func (c *c33Gen) key() [4]string {
	r := c.g.R
	uid := c33UIDs[r.Intn(len(c33UIDs))]
	node := 1 + r.Pick(4, 1)
	boot := 1 + r.Pick(5, 1)
	sess := 1 + r.Intn(3)
	return [4]string{c33hex(uid), strconv.Itoa(node), strconv.Itoa(boot), strconv.Itoa(sess)}
}

func (c *c33Gen) route(hs int) string {
	r := c.g.R
	k := c.key()
	var seq int
	switch r.Pick(5, 2, 2, 1) {
	case 0:
		c.seq++
		seq = c.seq
	case 1:
		seq = r.Intn(c.seq + 2)
	case 2:
		// aim at a recent unregister fence of this hash slot: seq-1, seq, seq+1
		var cand []c33Unreg
		for _, u := range c.unreg {
			if u.hs == hs {
				cand = append(cand, u)
			}
		}
		if len(cand) > 0 {
			u := cand[r.Intn(len(cand))]
			k = u.key
			seq = u.seq + r.Intn(3) - 1
			if seq < 0 {
				seq = 0
			}
			c.g.Count("route:aimed-at-unregister-fence")
		} else {
			seq = r.Intn(4)
		}
	default:
		seq = 0
	}
	if seq == 0 {
		c.g.Count("route:ownerseq-zero")
	}
	conn := int64(0)
	if !r.Chance(15) {
		conn = int64(100 + r.Intn(12))
	}
	seen := int64(0)
	if r.Chance(60) {
		seen = int64(100 + r.Intn(30))
	}
	if r.Chance(3) {
		seen = -int64(r.Intn(5))
	}
	if conn == 0 && seen == 0 {
		c.g.Count("route:no-activity-second")
	}
	level := r.Pick(4, 6, 1)
	return fmt.Sprintf("%s,%s,%s,%d,%s,%s,%d,%d,%s,%d,%d", k[0], k[1], k[2], seq, k[3],
		c33hex(c33Devs[r.Intn(len(c33Devs))]), r.Pick(5, 1), level, c33hex(c33Lis[r.Intn(len(c33Lis))]), conn, seen)
}

func (c *c33Gen) token(hs int) string {
	r := c.g.R
	if r.Chance(5) {
		return []string{"x", "01", "0", "999"}[r.Intn(4)]
	}
	// tokens are the decimal pending counter of the slot: only registrations that met a
	// conflict consume one, so small numbers are the likely live ones
	n := c.regs[hs]/3 + 1
	if n > 5 {
		n = 5
	}
	return strconv.Itoa(1 + r.Intn(n))
}

func genC33(g *Gen) {
	ops := 0
	for ops < g.N {
		g.Case()
		c := &c33Gen{g: g, cur: map[int][7]int{}, regs: map[int]int{}}
		c.local = g.R.Pick(6, 2, 2)
		g.Op("new", "%d %d", c.local, []int{1, 2, 3, 0}[g.R.Intn(4)])
		length := g.R.Range(30, 140)
		for i := 0; i < length; i++ {
			ops++
			r := g.R
			w := []int{4, 1, 28, 11, 3, 9, 14, 9, 5, 4, 3, 2}
			if i < 3 {
				w = []int{1}
			}
			switch r.Pick(w...) {
			case 0: // become
				hs := r.Intn(4)
				t, have := c.cur[hs]
				leader := 1 + r.Intn(2)
				if c.local != 0 && r.Chance(80) {
					leader = c.local
				}
				nt := [7]int{hs, 1 + r.Intn(2), leader, 1 + r.Intn(2), 1 + r.Intn(2), r.Intn(4), r.Intn(3)}
				if have && r.Chance(70) { // same identity, revision may go up or down
					nt = t
					nt[5] = r.Intn(5)
					nt[6] = r.Intn(5)
					if nt[5] >= t[5] {
						c.cur[hs] = nt
						g.Count("become:same-identity-newer-or-equal")
					} else {
						g.Count("become:same-identity-older-revision")
					}
				} else {
					same := have && nt[1] == t[1] && nt[2] == t[2] && nt[3] == t[3] && nt[4] == t[4]
					if !same {
						c.regs[hs] = 0
						c.cur[hs] = nt
						var keep []c33Unreg
						for _, u := range c.unreg {
							if u.hs != hs {
								keep = append(keep, u)
							}
						}
						c.unreg = keep
						g.Count("become:new-identity")
					} else if nt[5] >= t[5] {
						c.cur[hs] = nt
					}
				}
				g.Op("become", "%d,%d,%d,%d,%d,%d,%d", nt[0], nt[1], nt[2], nt[3], nt[4], nt[5], nt[6])
			case 1:
				hs := r.Intn(5)
				delete(c.cur, hs)
				c.regs[hs] = 0
				g.Op("lose", "%d", hs)
			case 2:
				t, hs := c.target()
				c.regs[hs]++
				g.Op("reg", "%s %s", t, c.route(hs))
			case 3:
				t, hs := c.target()
				g.Op("commit", "%s %s", t, c.token(hs))
			case 4:
				t, hs := c.target()
				g.Op("abort", "%s %s", t, c.token(hs))
			case 5:
				t, hs := c.target()
				k := c.key()
				seq := r.Intn(c.seq + 2)
				if r.Chance(8) {
					seq = 0
					g.Count("unreg:seq-zero")
				}
				c.unreg = append(c.unreg, c33Unreg{hs, k, seq})
				if len(c.unreg) > 6 {
					c.unreg = c.unreg[1:]
				}
				g.Op("unreg", "%s %s,%s,%s,%s %d", t, k[0], k[1], k[2], k[3], seq)
			case 6:
				t, hs := c.target()
				n := r.Pick(1, 5, 3, 2)
				rs := make([]string, n)
				for j := range rs {
					rs[j] = c.route(hs)
				}
				g.Op("touch", "%s", strings.TrimSpace(t+" "+strings.Join(rs, " ")))
			case 7:
				var now, ttl int64
				base := int64(100 + r.Intn(32))
				switch r.Pick(2, 2, 2, 5, 3) {
				case 0:
					ttl = []int64{0, -1, -1000000000}[r.Intn(3)]
					g.Count("expire:ttl<=0")
				case 1:
					g.Count("expire:zero-time")
					g.Op("expire", "z %d", int64(1+r.Intn(3))*1000000000)
					continue
				case 2:
					ttl = 1 + int64(r.Intn(3))
					g.Count("expire:tiny-ttl")
				case 3:
					// exact boundary: seen*1e9+ttl vs now differs by -1, 0, +1 ns
					ttl = int64(r.Intn(12)) * 1000000000 + int64(r.Intn(2))*int64(r.Intn(1000))
					if ttl == 0 {
						ttl = 1000000000
					}
					now = base*1000000000 + ttl + int64(r.Intn(3)) - 1
					g.Count("expire:boundary")
					g.Op("expire", "%d %d", now, ttl)
					continue
				default:
					ttl = int64(1+r.Intn(20)) * 1000000000
					g.Count("expire:plain")
				}
				now = (base+int64(r.Intn(25)))*1000000000 + []int64{0, 1, 999999999, int64(r.Intn(1000000000))}[r.Intn(4)]
				g.Op("expire", "%d %d", now, ttl)
			case 8:
				t, _ := c.target()
				g.Op("ep", "%s %s", t, c33hex(c33UIDs[r.Intn(len(c33UIDs))]))
			case 9:
				t, _ := c.target()
				n := r.Intn(4)
				us := make([]string, n)
				for j := range us {
					us[j] = c33hex(c33UIDs[r.Intn(len(c33UIDs))])
				}
				g.Op("eps", "%s", strings.TrimSpace(t+" "+strings.Join(us, " ")))
			case 10:
				n := r.Intn(4)
				gs := make([]string, n)
				for j := range gs {
					t, _ := c.target()
					m := r.Intn(3)
					gs[j] = t
					for q := 0; q < m; q++ {
						gs[j] += "/" + c33hex(c33UIDs[r.Intn(len(c33UIDs))])
					}
				}
				if n == 0 {
					g.Op("ept", "")
				} else {
					g.Op("ept", "%s", strings.Join(gs, " "))
				}
			default:
				g.Op("snap", "")
			}
		}
	}
}

// ------------------------------------------------------------------- runner

type c33Runner struct{ d *presence.Directory }

func newC33Runner() *c33Runner {
	return &c33Runner{d: presence.NewDirectory(presence.DirectoryOptions{})}
}

func (r *c33Runner) Close() {}

func c33Err(err error) string {
	switch {
	case err == nil:
		return "ok"
	case errors.Is(err, presence.ErrNotLeader):
		return "err:notleader"
	case errors.Is(err, presence.ErrStaleRoute):
		return "err:stale"
	case errors.Is(err, presence.ErrRouteNotReady):
		return "err:notready"
	}
	return "err:other"
}

func c33U(s string, bits int) (uint64, bool) {
	v, err := strconv.ParseUint(s, 10, bits)
	return v, err == nil
}

func c33Str(s string) (string, bool) {
	if s == "-" {
		return "", true
	}
	b := []byte(s)
	if len(b)%2 != 0 {
		return "", false
	}
	out := make([]byte, len(b)/2)
	for i := range out {
		v, err := strconv.ParseUint(s[2*i:2*i+2], 16, 8)
		if err != nil {
			return "", false
		}
		out[i] = byte(v)
	}
	return string(out), true
}

func c33Target(s string) (presence.RouteTarget, bool) {
	f := strings.Split(s, ",")
	if len(f) != 7 {
		return presence.RouteTarget{}, false
	}
	hs, ok0 := c33U(f[0], 16)
	sl, ok1 := c33U(f[1], 32)
	ld, ok2 := c33U(f[2], 64)
	tm, ok3 := c33U(f[3], 64)
	ep, ok4 := c33U(f[4], 64)
	rv, ok5 := c33U(f[5], 64)
	ae, ok6 := c33U(f[6], 64)
	if !(ok0 && ok1 && ok2 && ok3 && ok4 && ok5 && ok6) {
		return presence.RouteTarget{}, false
	}
	return presence.RouteTarget{HashSlot: uint16(hs), SlotID: uint32(sl), LeaderNodeID: ld, LeaderTerm: tm,
		ConfigEpoch: ep, RouteRevision: rv, AuthorityEpoch: ae}, true
}

func c33Route(s string) (presence.Route, bool) {
	f := strings.Split(s, ",")
	if len(f) != 11 {
		return presence.Route{}, false
	}
	uid, ok0 := c33Str(f[0])
	node, ok1 := c33U(f[1], 64)
	boot, ok2 := c33U(f[2], 64)
	seq, ok3 := c33U(f[3], 64)
	sess, ok4 := c33U(f[4], 64)
	dev, ok5 := c33Str(f[5])
	flag, ok6 := c33U(f[6], 8)
	level, ok7 := c33U(f[7], 8)
	lis, ok8 := c33Str(f[8])
	conn, e9 := strconv.ParseInt(f[9], 10, 64)
	seen, e10 := strconv.ParseInt(f[10], 10, 64)
	if !(ok0 && ok1 && ok2 && ok3 && ok4 && ok5 && ok6 && ok7 && ok8) || e9 != nil || e10 != nil {
		return presence.Route{}, false
	}
	return presence.Route{UID: uid, OwnerNodeID: node, OwnerBootID: boot, OwnerSeq: seq, SessionID: sess, DeviceID: dev,
		DeviceFlag: uint8(flag), DeviceLevel: uint8(level), Listener: lis, ConnectedUnix: conn, LastSeenUnix: seen}, true
}

func c33Identity(s string) (presence.RouteIdentity, bool) {
	f := strings.Split(s, ",")
	if len(f) != 4 {
		return presence.RouteIdentity{}, false
	}
	uid, ok0 := c33Str(f[0])
	node, ok1 := c33U(f[1], 64)
	boot, ok2 := c33U(f[2], 64)
	sess, ok3 := c33U(f[3], 64)
	if !(ok0 && ok1 && ok2 && ok3) {
		return presence.RouteIdentity{}, false
	}
	return presence.RouteIdentity{UID: uid, OwnerNodeID: node, OwnerBootID: boot, SessionID: sess}, true
}

func c33Routes(rs []presence.Route) string {
	out := "ok"
	for _, r := range rs {
		out += " " + presence.VerifRouteString(r)
	}
	return out
}

func c33Hex(s string) string {
	if s == "" {
		return "-"
	}
	return Hex([]byte(s))
}

func (r *c33Runner) Step(op string) string {
	res := r.exec(strings.Split(op, " "))
	if res == "bad-op" {
		return res
	}
	return res + " || " + presence.VerifDump(r.d)
}

func (r *c33Runner) exec(f []string) string {
	if len(f) == 0 {
		return "bad-op"
	}
	for _, x := range f {
		if x == "" {
			return "bad-op"
		}
	}
	switch f[0] {
	case "new":
		if len(f) != 3 {
			return "bad-op"
		}
		l, ok1 := c33U(f[1], 64)
		s, ok2 := c33U(f[2], 16)
		if !ok1 || !ok2 {
			return "bad-op"
		}
		r.d = presence.NewDirectory(presence.DirectoryOptions{LocalNodeID: l, ShardCount: int(s)})
		return "ok"
	case "become":
		if len(f) != 2 {
			return "bad-op"
		}
		t, ok := c33Target(f[1])
		if !ok {
			return "bad-op"
		}
		r.d.BecomeAuthority(t)
		return "ok"
	case "lose":
		if len(f) != 2 {
			return "bad-op"
		}
		hs, ok := c33U(f[1], 16)
		if !ok {
			return "bad-op"
		}
		r.d.LoseAuthority(uint16(hs))
		return "ok"
	case "reg":
		if len(f) != 3 {
			return "bad-op"
		}
		t, ok1 := c33Target(f[1])
		rt, ok2 := c33Route(f[2])
		if !ok1 || !ok2 {
			return "bad-op"
		}
		res, err := r.d.RegisterRoute(t, rt)
		if err != nil {
			return c33Err(err)
		}
		tok := "-"
		if res.PendingToken != "" {
			tok = string(res.PendingToken)
		}
		acts := "-"
		if len(res.Actions) > 0 {
			as := make([]string, len(res.Actions))
			for i, a := range res.Actions {
				as[i] = fmt.Sprintf("%s,%d,%d,%d,%s,%s,%d", c33Hex(a.UID), a.OwnerNodeID, a.OwnerBootID, a.SessionID, a.Kind, a.Reason, a.DelayMS)
			}
			acts = strings.Join(as, ";")
		}
		return "ok " + tok + " " + acts
	case "commit", "abort":
		if len(f) != 3 {
			return "bad-op"
		}
		t, ok := c33Target(f[1])
		if !ok {
			return "bad-op"
		}
		if f[0] == "commit" {
			return c33Err(r.d.CommitRoute(t, presence.PendingRouteToken(f[2])))
		}
		return c33Err(r.d.AbortRoute(t, presence.PendingRouteToken(f[2])))
	case "unreg":
		if len(f) != 4 {
			return "bad-op"
		}
		t, ok1 := c33Target(f[1])
		id, ok2 := c33Identity(f[2])
		seq, ok3 := c33U(f[3], 64)
		if !ok1 || !ok2 || !ok3 {
			return "bad-op"
		}
		return c33Err(r.d.UnregisterRoute(t, id, seq))
	case "touch":
		if len(f) < 2 {
			return "bad-op"
		}
		t, ok := c33Target(f[1])
		if !ok {
			return "bad-op"
		}
		var rs []presence.Route
		for _, x := range f[2:] {
			rt, ok := c33Route(x)
			if !ok {
				return "bad-op"
			}
			rs = append(rs, rt)
		}
		return c33Err(r.d.TouchRoutes(t, rs))
	case "expire":
		if len(f) != 3 {
			return "bad-op"
		}
		ttl, err := strconv.ParseInt(f[2], 10, 64)
		if err != nil {
			return "bad-op"
		}
		var now time.Time
		if f[1] != "z" {
			ns, err := strconv.ParseInt(f[1], 10, 64)
			if err != nil {
				return "bad-op"
			}
			now = time.Unix(0, ns)
		}
		e := r.d.ExpireRoutesDetailed(now, time.Duration(ttl))
		return fmt.Sprintf("exp %d %d %d %d %d", e.Expired, e.DueBuckets, e.Examined, e.IndexRoutes, e.IndexBuckets)
	case "ep":
		if len(f) != 3 {
			return "bad-op"
		}
		t, ok1 := c33Target(f[1])
		uid, ok2 := c33Str(f[2])
		if !ok1 || !ok2 {
			return "bad-op"
		}
		rs, err := r.d.EndpointsByUID(t, uid)
		if err != nil {
			return c33Err(err)
		}
		return c33Routes(rs)
	case "eps":
		if len(f) < 2 {
			return "bad-op"
		}
		t, ok := c33Target(f[1])
		if !ok {
			return "bad-op"
		}
		var uids []string
		for _, x := range f[2:] {
			u, ok := c33Str(x)
			if !ok {
				return "bad-op"
			}
			uids = append(uids, u)
		}
		rs, err := r.d.EndpointsByUIDs(t, uids)
		if err != nil {
			return c33Err(err)
		}
		return c33Routes(rs)
	case "ept":
		var groups []presence.EndpointLookupGroup
		for _, x := range f[1:] {
			parts := strings.Split(x, "/")
			t, ok := c33Target(parts[0])
			if !ok {
				return "bad-op"
			}
			g := presence.EndpointLookupGroup{Target: t}
			for _, p := range parts[1:] {
				u, ok := c33Str(p)
				if !ok {
					return "bad-op"
				}
				g.UIDs = append(g.UIDs, u)
			}
			groups = append(groups, g)
		}
		results := r.d.EndpointsByTargets(groups)
		if len(results) != len(groups) {
			return fmt.Sprintf("misaligned %d", len(results))
		}
		if len(results) == 0 {
			return "none"
		}
		out := make([]string, len(results))
		for i, res := range results {
			if res.Err != nil {
				out[i] = c33Err(res.Err)
				if len(res.Routes) != 0 {
					out[i] += "+routes"
				}
			} else {
				out[i] = c33Routes(res.Routes)
			}
		}
		return strings.Join(out, " / ")
	case "snap":
		if len(f) != 1 {
			return "bad-op"
		}
		s := r.d.Snapshot()
		hs := make([]int, 0, len(s.ByHashSlot))
		for k := range s.ByHashSlot {
			hs = append(hs, int(k))
		}
		sort.Ints(hs)
		by := "-"
		if len(hs) > 0 {
			parts := make([]string, len(hs))
			for i, k := range hs {
				parts[i] = fmt.Sprintf("%d:%d", k, s.ByHashSlot[uint16(k)])
			}
			by = strings.Join(parts, ",")
		}
		return fmt.Sprintf("snap %d %s %d %d %d %d", s.Active, by, s.TouchRoutesTotal, s.ExpiredRoutesTotal, s.ExpiryIndexRoutes, s.ExpiryIndexBuckets)
	}
	return "bad-op"
}

//go:build verif

package main

// C40 — message event projection is monotonic and fail-closed.
// Real code driven: meta Shard.AppendMessageEvent, meta.Batch.AppendMessageEvent+Commit,
// and cluster.Node.AppendMessageEvent on a hook-built single-node leader whose durable
// proposals are applied by the real slot FSM state machine on the same meta DB.
// Op syntax: /verif/lean/Driver/C40.lean.

import (
	"bytes"
	"context"
	"encoding/json"
	"errors"
	"fmt"
	"os"
	"sort"
	"strconv"
	"strings"

	"github.com/WuKongIM/WuKongIM/pkg/cluster"
	"github.com/WuKongIM/WuKongIM/pkg/cluster/routing"
	metadb "github.com/WuKongIM/WuKongIM/pkg/db/meta"
	metafsm "github.com/WuKongIM/WuKongIM/pkg/slot/fsm"
	"github.com/WuKongIM/WuKongIM/pkg/slot/multiraft"
)

const c40HashSlots = 4

func init() {
	Register(&Prop{Gen: genC40, NewRunner: func() Runner { return newC40Runner() }})
}

type c40Runner struct {
	dir   string
	db    *metadb.DB
	sm    multiraft.StateMachine
	node  *cluster.Node
	index uint64
	rev   uint64
	cap   int
	err   error
}

func newC40Runner() *c40Runner {
	r := &c40Runner{}
	base := os.Getenv("VERIF_SCRATCH")
	if base == "" {
		base = "."
	}
	dir, err := os.MkdirTemp(base, "c40-")
	if err != nil {
		r.err = err
		return r
	}
	r.dir = dir
	r.db, err = metadb.Open(dir)
	if err != nil {
		r.err = err
		return r
	}
	hs := make([]uint16, c40HashSlots)
	for i := range hs {
		hs[i] = uint16(i)
	}
	r.sm, err = metafsm.NewStateMachineWithHashSlots(r.db, 1, hs)
	if err != nil {
		r.err = err
		return r
	}
	r.rev = 1
	r.cap = 4096
	r.node, err = cluster.VerifNewMessageEventNode(c40HashSlots, 4096, r.propose)
	if err != nil {
		r.err = err
	}
	return r
}

func (r *c40Runner) Close() {
	if r.db != nil {
		_ = r.db.Close()
	}
	if r.dir != "" {
		_ = os.RemoveAll(r.dir)
	}
}

// propose plays the slot Raft group: the command is applied by the real FSM.
func (r *c40Runner) propose(ctx context.Context, key string, command []byte) ([]byte, error) {
	r.index++
	return r.sm.Apply(ctx, multiraft.Command{SlotID: 1, HashSlot: routing.HashSlotForKey(key, c40HashSlots), Index: r.index, Term: 1, Data: command})
}

func c40Err(err error) string {
	switch {
	case err == nil:
		return "ok"
	case errors.Is(err, metadb.ErrInvalidArgument):
		return "invalid"
	case errors.Is(err, cluster.ErrMessageEventStreamCacheMiss):
		return "cachemiss"
	case errors.Is(err, cluster.ErrBackpressured):
		return "backpressure"
	}
	return "other:" + strings.ReplaceAll(err.Error(), " ", "_")
}

// ---- payload descriptors ----

func c40Alnum(b []byte) bool {
	for _, c := range b {
		if !(c >= '0' && c <= '9' || c >= 'a' && c <= 'z' || c >= 'A' && c <= 'Z') {
			return false
		}
	}
	return true
}

func c40Text(h string) ([]byte, bool) {
	b, ok := c40Hex(h)
	if !ok || !c40Alnum(b) {
		return nil, false
	}
	return b, true
}

func c40Hex(s string) (out []byte, ok bool) {
	defer func() {
		if recover() != nil {
			ok = false
		}
	}()
	return UnHex(s), true
}

type c40Views struct {
	delta    *string // kind == "text" => delta
	termOK   bool
	termSnap []byte
	termR    uint8
	termErr  string
}

// c40Payload builds the payload bytes of a descriptor and the views the descriptor announces.
func c40Payload(d string) ([]byte, c40Views, bool) {
	var v c40Views
	if d == "-" {
		return nil, v, true
	}
	if d == "null" {
		// the JSON literal null: every struct view unmarshals to zero values
		v.termOK = true
		return []byte("null"), v, true
	}
	if len(d) < 2 {
		return nil, v, false
	}
	switch d[0] {
	case 'x':
		b, ok := c40Hex(d[1:])
		if !ok || len(b) == 0 || b[0] != '!' {
			return nil, v, false
		}
		return b, v, true
	case 'j':
		n, err := strconv.ParseUint(d[1:], 10, 64)
		if err != nil {
			return nil, v, false
		}
		v.termOK = true
		return []byte(fmt.Sprintf(`{"k":%d}`, n)), v, true
	case 'd':
		t, ok := c40Text(d[1:])
		if !ok {
			return nil, v, false
		}
		s := string(t)
		v.delta = &s
		v.termOK = true
		return []byte(`{"kind":"text","delta":"` + s + `"}`), v, true
	case 's':
		t, ok := c40Text(d[1:])
		if !ok {
			return nil, v, false
		}
		e := ""
		v.delta = &e
		v.termOK = true
		return []byte(`{"kind":"text","text":"` + string(t) + `"}`), v, true
	case 't':
		p := strings.Split(d[1:], ".")
		if len(p) != 3 {
			return nil, v, false
		}
		rr, err := strconv.ParseUint(p[0], 10, 64)
		e, ok := c40Text(p[1])
		if err != nil || rr > 255 || !ok {
			return nil, v, false
		}
		var snap []byte
		switch {
		case p[2] == "n":
			snap = []byte("null")
		case strings.HasPrefix(p[2], "s"):
			t, ok := c40Text(p[2][1:])
			if !ok {
				return nil, v, false
			}
			snap = []byte(`{"kind":"text","text":"` + string(t) + `"}`)
			v.termSnap = snap
		case strings.HasPrefix(p[2], "j"):
			n, err := strconv.ParseUint(p[2][1:], 10, 64)
			if err != nil {
				return nil, v, false
			}
			snap = []byte(fmt.Sprintf(`{"k":%d}`, n))
			v.termSnap = snap
		default:
			return nil, v, false
		}
		v.termOK = true
		v.termR = uint8(rr)
		v.termErr = string(e)
		return []byte(fmt.Sprintf(`{"snapshot":%s,"end_reason":%d,"error":"%s"}`, snap, rr, e)), v, true
	}
	return nil, v, false
}

// c40CheckViews re-derives the views with encoding/json (the same calls the reducers make) and
// compares them with what the descriptor announces: the JSON layer is abstract in the model,
// this keeps the abstraction honest.
func c40CheckViews(b []byte, v c40Views) bool {
	var dl struct {
		Kind  string `json:"kind"`
		Delta string `json:"delta"`
	}
	gotDelta := json.Unmarshal(b, &dl) == nil && dl.Kind == "text"
	if gotDelta != (v.delta != nil) || (gotDelta && dl.Delta != *v.delta) {
		return false
	}
	var raw struct {
		Snapshot  json.RawMessage `json:"snapshot"`
		EndReason uint8           `json:"end_reason"`
		Error     string          `json:"error"`
	}
	err := json.Unmarshal(b, &raw)
	if (err == nil) != v.termOK {
		return false
	}
	if err == nil {
		var snap []byte
		if len(raw.Snapshot) > 0 && string(raw.Snapshot) != "null" {
			snap = raw.Snapshot
		}
		if !bytes.Equal(snap, v.termSnap) || raw.EndReason != v.termR || raw.Error != v.termErr {
			return false
		}
	}
	return true
}

func c40Snap(b []byte) string {
	if len(b) == 0 {
		return "N"
	}
	var cur struct {
		Kind string `json:"kind"`
		Text string `json:"text"`
	}
	if json.Unmarshal(b, &cur) == nil && cur.Kind == "text" {
		return "T" + Hex([]byte(cur.Text))
	}
	return "R" + Hex(b)
}

func c40Status(s string) string {
	switch s {
	case metadb.EventStatusOpen:
		return "o"
	case metadb.EventStatusClosed:
		return "c"
	case metadb.EventStatusError:
		return "e"
	case metadb.EventStatusCancelled:
		return "x"
	}
	return "?" + s
}

var c40Types = []string{metadb.EventTypeStreamOpen, metadb.EventTypeStreamDelta, metadb.EventTypeStreamClose, metadb.EventTypeStreamError,
	metadb.EventTypeStreamCancel, metadb.EventTypeStreamSnapshot, metadb.EventTypeStreamFinish}

func c40Type(s string) string {
	if s == "" {
		return "-"
	}
	for i, t := range c40Types {
		if t == s {
			return strconv.Itoa(i)
		}
	}
	return "?" + s
}

func c40Lane(s metadb.MessageEventState) string {
	return fmt.Sprintf("%s,%d,%s,%s,%s,%d,%s,%d,%s,%d", c40Status(s.Status), s.LastMsgEventSeq, Hex([]byte(s.LastEventID)), c40Type(s.LastEventType),
		Hex([]byte(s.LastVisibility)), s.LastOccurredAt, c40Snap(s.SnapshotPayload), s.EndReason, Hex([]byte(s.Error)), s.UpdatedAt)
}

func (r *c40Runner) shard(ch string) *metadb.Shard {
	return r.db.MetaDB().HashSlot(metadb.HashSlot(routing.HashSlotForKey(strings.TrimSpace(ch), c40HashSlots)))
}

func (r *c40Runner) obs(ch string, ct int64, no string) string {
	ctx := context.Background()
	ch, no = strings.TrimSpace(ch), strings.TrimSpace(no)
	sh := r.shard(ch)
	cur, _, err := metadb.VerifGetMessageEventCursor(sh, ch, ct, no)
	if err != nil {
		return "curerr:" + c40Err(err)
	}
	rows, err := sh.ListMessageEventStates(ctx, ch, ct, no, 0)
	if err != nil {
		return "listerr:" + c40Err(err)
	}
	sort.Slice(rows, func(i, j int) bool { return rows[i].EventKey < rows[j].EventKey })
	out := fmt.Sprintf("cur=%d", cur)
	for _, s := range rows {
		if s.ChannelID != ch || s.ChannelType != ct || s.ClientMsgNo != no {
			out += " wrong-message"
			continue
		}
		out += " " + Hex([]byte(s.EventKey)) + "=" + c40Lane(s)
	}
	return out
}

func c40Result(res metadb.MessageEventAppendResult) string {
	return fmt.Sprintf("%s %d %s %s", Hex([]byte(res.EventKey)), res.MsgEventSeq, c40Status(res.Status), c40Lane(res.State))
}

func c40ParseEvent(f []string) (metadb.MessageEventAppend, bool, bool) {
	var ev metadb.MessageEventAppend
	if len(f) != 10 {
		return ev, false, false
	}
	hx := make([][]byte, 0, 6)
	for _, i := range []int{0, 2, 3, 4, 5, 6} {
		b, ok := c40Hex(f[i])
		if !ok {
			return ev, false, false
		}
		hx = append(hx, b)
	}
	ct, e1 := strconv.ParseInt(f[1], 10, 64)
	occ, e2 := strconv.ParseInt(f[7], 10, 64)
	upd, e3 := strconv.ParseInt(f[9], 10, 64)
	pl, views, ok := c40Payload(f[8])
	if e1 != nil || e2 != nil || e3 != nil || !ok || strings.HasPrefix(f[1], "+") || strings.HasPrefix(f[7], "+") || strings.HasPrefix(f[9], "+") {
		return ev, false, false
	}
	ev = metadb.MessageEventAppend{ChannelID: string(hx[0]), ChannelType: ct, ClientMsgNo: string(hx[1]), EventID: string(hx[2]), EventKey: string(hx[3]),
		EventType: string(hx[4]), Visibility: string(hx[5]), OccurredAt: occ, Payload: pl, UpdatedAt: upd}
	return ev, true, c40CheckViews(pl, views)
}

func (r *c40Runner) Step(op string) string {
	if r.err != nil {
		return "other:open:" + r.err.Error()
	}
	ctx := context.Background()
	f := strings.Fields(op)
	if len(f) == 0 {
		return "bad-op"
	}
	switch f[0] {
	case "lose":
		if len(f) != 1 {
			return "bad-op"
		}
		r.node.VerifLoseMessageEventStreamCache(r.cap)
		return "ok"
	case "cap":
		if len(f) != 2 {
			return "bad-op"
		}
		c, err := strconv.ParseUint(f[1], 10, 32)
		if err != nil || c == 0 || c > 100000 {
			return "bad-op"
		}
		r.cap = int(c)
		r.node.VerifSetMessageEventStreamCacheCapacity(r.cap)
		return "ok"
	case "rt":
		if len(f) != 4 || len(f[3]) != c40HashSlots {
			return "bad-op"
		}
		l1, e1 := strconv.ParseUint(f[1], 10, 8)
		l2, e2 := strconv.ParseUint(f[2], 10, 8)
		if e1 != nil || e2 != nil || l1 > 2 || l2 > 2 || l1 == 0 || l2 == 0 {
			return "bad-op"
		}
		owners := make([]uint32, c40HashSlots)
		for i, c := range f[3] {
			if c != '1' && c != '2' {
				return "bad-op"
			}
			owners[i] = uint32(c - '0')
		}
		r.rev++
		if err := r.node.VerifUpdateRoute(r.rev, l1, l2, owners); err != nil {
			return c40Err(err)
		}
		return "ok"
	case "q":
		if len(f) != 4 {
			return "bad-op"
		}
		ch, o1 := c40Hex(f[1])
		ct, err := strconv.ParseInt(f[2], 10, 64)
		no, o2 := c40Hex(f[3])
		if !o1 || !o2 || err != nil || strings.HasPrefix(f[2], "+") {
			return "bad-op"
		}
		if strings.TrimSpace(string(ch)) == "" || ct <= 0 || strings.TrimSpace(string(no)) == "" {
			return "invalid"
		}
		return "ok " + r.obs(string(ch), ct, string(no))
	case "ev", "nd":
		ev, ok, views := c40ParseEvent(f[1:])
		if !ok {
			return "bad-op"
		}
		if !views {
			return "bad-annotation"
		}
		var res metadb.MessageEventAppendResult
		var err error
		if f[0] == "ev" {
			res, err = r.shard(ev.ChannelID).AppendMessageEvent(ctx, ev)
		} else {
			// the forward-to-leader RPC path is out of scope: only the local-leader path is driven
			if route, rerr := r.node.RouteKey(strings.TrimSpace(ev.ChannelID)); strings.TrimSpace(ev.ChannelID) != "" && (rerr != nil || route.Leader != 1) {
				if _, nerr := c40Normalize(ev); nerr {
					return "invalid"
				}
				return "notleader"
			}
			var panicked bool
			res, err, panicked = c40NodeAppend(r.node, ctx, ev)
			if panicked {
				return "panic"
			}
		}
		if err != nil {
			return c40Err(err)
		}
		return "ok " + c40Result(res) + " " + r.obs(ev.ChannelID, ev.ChannelType, ev.ClientMsgNo)
	case "bt":
		var subs [][]string
		cur := []string{}
		for _, x := range f[1:] {
			if x == ";" {
				subs = append(subs, cur)
				cur = []string{}
			} else {
				cur = append(cur, x)
			}
		}
		subs = append(subs, cur)
		var evs []metadb.MessageEventAppend
		for _, s := range subs {
			if len(s) == 0 || s[0] != "ev" {
				return "bad-op"
			}
			ev, ok, views := c40ParseEvent(s[1:])
			if !ok {
				return "bad-op"
			}
			if !views {
				return "bad-annotation"
			}
			evs = append(evs, ev)
		}
		b := r.db.MetaDB().NewBatch()
		defer b.Close()
		var trips []string
		for _, ev := range evs {
			res, err := b.AppendMessageEvent(metadb.HashSlot(routing.HashSlotForKey(strings.TrimSpace(ev.ChannelID), c40HashSlots)), ev)
			if err != nil {
				return c40Err(err)
			}
			trips = append(trips, fmt.Sprintf("%s,%d,%s", Hex([]byte(res.EventKey)), res.MsgEventSeq, c40Status(res.Status)))
		}
		if err := b.Commit(ctx); err != nil {
			return c40Err(err)
		}
		return "ok " + strings.Join(trips, ";") + " " + r.obs(evs[0].ChannelID, evs[0].ChannelType, evs[0].ClientMsgNo)
	}
	return "bad-op"
}

// c40Normalize reports whether the event is refused by normalisation (the check that precedes
// routing in Node.AppendMessageEvent); used only to order `invalid` before `notleader`.
func c40Normalize(ev metadb.MessageEventAppend) (metadb.MessageEventAppend, bool) {
	t := strings.ToLower(strings.TrimSpace(ev.EventType))
	bad := strings.TrimSpace(ev.ChannelID) == "" || ev.ChannelType <= 0 || strings.TrimSpace(ev.ClientMsgNo) == "" || strings.TrimSpace(ev.EventID) == "" || t == ""
	if !bad {
		bad = true
		for _, k := range c40Types {
			if k == t {
				bad = false
			}
		}
	}
	return ev, bad
}

// c40NodeAppend recovers a panic of the append path and reports it as an outcome of its own, so
// that the model (which reproduces the nil-map panic of mergeMessageEventTerminalPayload on a
// JSON `null` payload) and the judge can name it precisely.
func c40NodeAppend(n *cluster.Node, ctx context.Context, ev metadb.MessageEventAppend) (res metadb.MessageEventAppendResult, err error, panicked bool) {
	defer func() {
		if e := recover(); e != nil {
			if !strings.Contains(fmt.Sprint(e), "nil map") {
				panic(e)
			}
			panicked = true
		}
	}()
	res, err = n.AppendMessageEvent(ctx, ev)
	return
}

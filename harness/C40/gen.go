//go:build verif

package main

// C40 generator.  g.N = number of cases; cases alternate between the table level
// (Shard / Batch appends) and the node level (leader stream cache + durable FSM path,
// cache loss).  Event ids are drawn from a small pool so that duplicates are frequent.

import (
	"fmt"
	"strings"
)

var c40Keys = []string{"", "main", "a", "b", "tool", "zz"}
var c40TypeNames = []string{"stream.open", "stream.delta", "stream.close", "stream.error", "stream.cancel", "stream.snapshot", "stream.finish"}

func c40Word(g *Gen, n int) string {
	b := make([]byte, n)
	for i := range b {
		b[i] = "abcdefghijklmnopqrstuvwxyzABCXYZ0123456789"[g.R.Intn(42)]
	}
	return string(b)
}

func c40GenPayload(g *Gen, ty int) string {
	snapPart := func() string {
		switch g.R.Pick(40, 40, 20) {
		case 0:
			return "n"
		case 1:
			return "s" + Hex([]byte(c40Word(g, g.R.Range(0, 4))))
		default:
			return fmt.Sprintf("j%d", g.R.Intn(50))
		}
	}
	term := func() string {
		return fmt.Sprintf("t%d.%s.%s", g.R.Pick(50, 50)*g.R.Intn(256), Hex([]byte(c40Word(g, g.R.Pick(60, 40)*g.R.Range(1, 5)))), snapPart())
	}
	var w []int
	switch ty {
	case 1: // delta
		w = []int{5, 5, 8, 62, 12, 8}
	case 5: // snapshot
		w = []int{8, 6, 20, 10, 50, 6}
	case 2, 3, 4: // terminal
		w = []int{25, 5, 8, 5, 7, 50}
	case 6: // finish
		w = []int{45, 3, 6, 3, 3, 40}
	default:
		w = []int{60, 5, 10, 10, 10, 5}
	}
	if (ty == 2 || ty == 3 || ty == 4 || ty == 6) && g.R.Chance(3) {
		g.Count("payload:json-null")
		return "null"
	}
	switch g.R.Pick(w...) {
	case 0:
		g.Count("payload:empty")
		return "-"
	case 1:
		g.Count("payload:non-json")
		return "x" + Hex([]byte("!"+c40Word(g, g.R.Range(0, 4))))
	case 2:
		g.Count("payload:json-object")
		return fmt.Sprintf("j%d", g.R.Intn(50))
	case 3:
		g.Count("payload:text-delta")
		return "d" + Hex([]byte(c40Word(g, g.R.Range(0, 4))))
	case 4:
		g.Count("payload:text-snapshot")
		return "s" + Hex([]byte(c40Word(g, g.R.Range(0, 5))))
	default:
		g.Count("payload:terminal")
		return term()
	}
}

type c40Msg struct {
	ch  string
	ct  int64
	no  string
	ids []string
}

func genC40(g *Gen) {
	for i := 0; i < g.N; i++ {
		g.Case()
		node := i%2 == 1
		if node {
			g.Count("case:node")
		} else {
			g.Count("case:table")
		}
		nm := g.R.Range(1, 2)
		tiny := node && i%4 == 3 // node cases with a tiny stream cache: admission at capacity, eviction, backpressure
		if tiny {
			nm = g.R.Range(2, 4)
			g.Count("case:node-tiny-cache")
		}
		msgs := make([]*c40Msg, nm)
		for m := range msgs {
			msgs[m] = &c40Msg{ch: []string{"g1", "room", "u1@u2", "c"}[g.R.Intn(4)], ct: int64(g.R.Range(1, 3)), no: fmt.Sprintf("m%d", m)}
		}
		nextID := 0
		pad := func(s string) string {
			if s != "" && g.R.Chance(4) {
				g.Count("shape:padded")
				return " " + s + "\t"
			}
			return s
		}
		event := func(m *c40Msg, forceTy int) string {
			ty := forceTy
			if ty < 0 {
				if node {
					ty = g.R.Pick(8, 40, 12, 6, 6, 12, 16)
				} else {
					ty = g.R.Pick(10, 34, 14, 7, 7, 14, 14)
				}
			}
			var id string
			if len(m.ids) > 0 && g.R.Chance(28) {
				id = m.ids[g.R.Intn(len(m.ids))]
				g.Count("shape:duplicate-id")
			} else {
				nextID++
				id = fmt.Sprintf("e%d", nextID)
				m.ids = append(m.ids, id)
			}
			key := c40Keys[g.R.Pick(30, 15, 20, 15, 10, 10)]
			tyName := c40TypeNames[ty]
			if g.R.Chance(3) {
				tyName = strings.ToUpper(tyName)
			}
			vis := []string{"", "public", "private", "restricted"}[g.R.Intn(4)]
			ch, ct, no := m.ch, m.ct, m.no
			if g.R.Chance(3) {
				g.Count("shape:invalid")
				switch g.R.Intn(5) {
				case 0:
					id = ""
				case 1:
					ct = int64(-g.R.Intn(2))
				case 2:
					tyName = "stream.bogus"
				case 3:
					no = " "
				default:
					ch = ""
				}
			}
			g.Count("type:" + c40TypeNames[ty])
			return fmt.Sprintf("%s %d %s %s %s %s %s %d %s %d", Hex([]byte(pad(ch))), ct, Hex([]byte(pad(no))), Hex([]byte(pad(id))), Hex([]byte(pad(key))),
				Hex([]byte(pad(tyName))), Hex([]byte(vis)), g.R.Intn(1000), c40GenPayload(g, ty), g.R.Intn(1000))
		}
		// current route as sent (generator bookkeeping only): leaders of Slot 1/2, owner per hash slot
		l1, l2 := 1, 2
		own := []byte("1111")
		away := false
		route := func() {
			if away && g.R.Chance(75) {
				// come back: node 1 leads everything again, possibly leaving migrated slots on Slot 2 led by node 1
				l1 = 1
				if g.R.Bool() {
					own = []byte("1111")
					l2 = 2
				} else {
					l2 = 1
				}
				away = false
				g.Count("rt:back-to-local")
			} else {
				switch g.R.Pick(35, 45, 10, 10) {
				case 0:
					l1 = 2
					g.Count("rt:slot-leader-away")
				case 1:
					// migrate one or two hash slots to Slot 2 (led by node 2 unless it was handed to node 1)
					l2 = 2
					for k := 0; k < g.R.Range(1, 2); k++ {
						own[g.R.Intn(4)] = '2'
					}
					g.Count("rt:hashslot-migrated-away")
				case 2:
					l1, l2 = 2, 1
					g.Count("rt:leaders-swapped")
				default:
					own[g.R.Intn(4)] = '1'
					g.Count("rt:hashslot-migrated-home")
				}
				away = true
			}
			g.Op("rt", "%d %d %s", l1, l2, string(own))
		}
		nops := g.R.Range(15, 60)
		if tiny {
			g.Op("cap", "%d", g.R.Range(1, 3))
		}
		// ids of cache-only events sent per message and lane (for retries of an older delta on another lane)
		type sent struct{ id, key string }
		cacheSent := map[*c40Msg][]sent{}
		plain := func(m *c40Msg, id, key string, ty int, payload string) string {
			return fmt.Sprintf("%s %d %s %s %s %s - %d %s %d", Hex([]byte(m.ch)), m.ct, Hex([]byte(m.no)), Hex([]byte(id)), Hex([]byte(key)),
				Hex([]byte(c40TypeNames[ty])), g.R.Intn(1000), payload, g.R.Intn(1000))
		}
		for n := 0; n < nops; n++ {
			if node && g.R.Chance(12) {
				// multi-lane stream: deltas on two lanes, a terminal event on one, a retried older delta id on the other
				m := msgs[g.R.Intn(nm)]
				ka, kb := "a", "b"
				nextID++
				ia := fmt.Sprintf("e%d", nextID)
				nextID++
				ib := fmt.Sprintf("e%d", nextID)
				nextID++
				ic := fmt.Sprintf("e%d", nextID)
				m.ids = append(m.ids, ia, ib, ic)
				g.Op("nd", "%s", plain(m, ia, ka, 1, "d"+Hex([]byte(c40Word(g, 2)))))
				g.Op("nd", "%s", plain(m, ib, kb, 1, "d"+Hex([]byte(c40Word(g, 2)))))
				cacheSent[m] = append(cacheSent[m], sent{ia, ka}, sent{ib, kb})
				g.Op("nd", "%s", plain(m, ic, ka, []int{2, 3, 4}[g.R.Intn(3)], "-"))
				if g.R.Chance(60) {
					// another stream arrives (at capacity in tiny-cache cases)
					o := msgs[g.R.Intn(nm)]
					nextID++
					g.Op("nd", "%s", plain(o, fmt.Sprintf("e%d", nextID), "a", 1, "d"+Hex([]byte(c40Word(g, 1)))))
					if o != m && g.R.Bool() {
						// ... and completes, leaving room for the first stream to go on
						nextID++
						g.Op("nd", "%s", plain(o, fmt.Sprintf("e%d", nextID), "", 6, "-"))
					}
				}
				g.Op("nd", "%s", plain(m, ib, kb, 1, "d"+Hex([]byte(c40Word(g, 2))))) // retry of the older id
				nextID++
				g.Op("nd", "%s", plain(m, fmt.Sprintf("e%d", nextID), kb, 1, "d"+Hex([]byte(c40Word(g, 1)))))
				nextID++
				g.Op("nd", "%s", plain(m, fmt.Sprintf("e%d", nextID), "", 6, "-"))
				g.Count("shape:multi-lane-close-retry-finish")
				continue
			}
			m := msgs[g.R.Intn(nm)]
			if node {
				switch g.R.Pick(74, 3, 8, 6, 9) {
				case 4:
					route()
				case 0:
					g.Op("nd", "%s", event(m, -1))
				case 1:
					g.Op("lose", "")
				case 2:
					// a durable write that bypasses this leader's cache (e.g. applied by a previous leader)
					g.Op("ev", "%s", event(m, -1))
				default:
					g.Op("q", "%s %d %s", Hex([]byte(m.ch)), m.ct, Hex([]byte(m.no)))
				}
			} else {
				switch g.R.Pick(70, 22, 8) {
				case 0:
					g.Op("ev", "%s", event(m, -1))
				case 1:
					k := g.R.Range(1, 4)
					subs := make([]string, k)
					for j := range subs {
						subs[j] = "ev " + event(m, -1)
					}
					g.Count(fmt.Sprintf("batch:size%d", k))
					g.Op("bt", "%s", strings.Join(subs, " ; "))
				default:
					g.Op("q", "%s %d %s", Hex([]byte(m.ch)), m.ct, Hex([]byte(m.no)))
				}
			}
		}
	}
}

//go:build verif

// C37 — work queues run each accepted task exactly once.
//
// One op = one concurrent scenario on a REAL queue of pkg/workqueue (fresh queue
// per op).  The implementation output is the linearised event log of the
// scenario; the Lean driver's trace acceptor (WK.C37.judge) evaluates the
// property on it.  Nothing here asserts on timing: waits only ever delay a
// goroutine, every wait has a generous timeout and a timeout only makes a
// steered scenario miss its window (verdict-neutral `T` note in the log).
//
// Steering uses seams that exist in the UNMODIFIED source (no replacement copy of
// any file, so an edit of the originals is never masked):
//   * ShardedMailbox: cfg.Observer is called with Kind="worker" in the deferred
//     exit of drainScheduledShard, i.e. after the drain's final empty check and
//     before finishShardDrain  -> the "drain window";
//   * BoundedPool / BoundedBatchPool: the caller's ctx.Done() is evaluated when
//     submit enters its final select, i.e. after the closed check and the slot
//     acquisition -> the "submit select" window;
//   * Close(ctx): ctx.Done() is evaluated when Close starts waiting, i.e. after
//     the closed flags are set.
//
// op:  run <kind> <steer> <cancel> <workers> <queue> <shards> <bmax> <bwaitUs> <prod> <per> <mode> <closeAt> <closeDlUs> <hdlUs> <seed>
//      kind  bp|bbp|wq|mb        steer none|wc|wn (mailbox window, close in between / not) |sc|sn (submit select)
//                                |sl (pools: <per> independent rounds, fresh pool each, of: hold one Submit at its FIRST
//                                 ctx.Done() — after the closed check, before slot/lock — Close completely, release;
//                                 the log of the first round with a stranded task, else of the last round, is returned)
//                                |ws (mailbox: Close runs inside the Observer's admission callback of a Submit to an idle
//                                 shard, i.e. after the item is queued and the shard marked scheduled, before the drain is
//                                 invoked — Close must already be waiting for that drain)
//                                |dd|dn (mailbox: item admitted in the drain window, its handler blocked, another item
//                                 submitted meanwhile — must not start a second drain; dn = same without the hold)
//      cancel bit 1 = CancelAcceptedOnClose + hook, bit 2 = CancelRunningOnClose   mode try|wait
// out: ev=<tok>,<tok>,...   tokens (t = task id, s = shard):
//      S<t>:<s> submit begins   A<t> accepted   F<t> full   X<t> closed   E<t> ctx error   Q<t> other error
//      R<t> handler entered     D<t> handler left       K<t> cancel hook ran
//      B<s>/b<s> mailbox batch begins/ends on shard s   U<s> drain entered, V<s>/W<s> drain-exit observer call begins/ends
//      C close called   Z0 close returned nil   Z1 close returned an error   Z2 close did not return (20 s)
//      H steering hold engaged   T a steering wait timed out (verdict-neutral)
package main

import (
	"context"
	"errors"
	"fmt"
	"runtime"
	"strconv"
	"strings"
	"sync"
	"sync/atomic"
	"time"

	"github.com/WuKongIM/WuKongIM/pkg/workqueue"
)

func init() {
	Register(&Prop{Gen: genC37, NewRunner: func() Runner { return &c37Runner{} }})
}

// ---------------------------------------------------------------- generator ---

func genC37(g *Gen) {
	emit := func(kind, steer string, cancel, workers, queue, shards, bmax, bwait, prod, per int, mode string, closeAt, closeDl, hdl int) {
		g.Count("kind:" + kind)
		g.Count("steer:" + steer)
		if cancel != 0 {
			g.Count(fmt.Sprintf("cancel:%d", cancel))
		}
		if closeDl > 0 {
			g.Count("close:deadline")
		}
		if closeAt < prod*per {
			g.Count("close:races-producers")
		} else {
			g.Count("close:after-producers")
		}
		if queue < prod {
			g.Count("queue:smaller-than-producers")
		}
		g.Op("run", "%s %s %d %d %d %d %d %d %d %d %s %d %d %d %d", kind, steer, cancel, workers, queue, shards, bmax, bwait,
			prod, per, mode, closeAt, closeDl, hdl, g.R.U64()>>1)
	}
	directed := func() {
		// the repaired windows (drain window, submit select) and their close-free controls, several sizes
		for i := 0; i < 4; i++ {
			emit("mb", "wc", 0, 1+i%2, 4, 1+i%3, 1+i%2, 0, 1, 1+i, "try", 0, 0, 0)
			emit("mb", "wn", 0, 1+i%2, 4, 1+i%3, 1+i%2, 0, 1, 1+i, "try", 0, 0, 0)
			emit("bp", "sc", 0, 1+i%2, 4, 1, 1, 0, 1, 1+i, []string{"try", "wait"}[i%2], 0, 0, 0)
			emit("bp", "sn", 0, 1+i%2, 4, 1, 1, 0, 1, 1+i, []string{"try", "wait"}[i%2], 0, 0, 0)
		}
		for i := 0; i < 3; i++ {
			emit("mb", "ws", 0, 1+i%2, 4, 1+i, 1, 0, 1, 1+i, "try", 0, 0, 0)
		}
		for i := 0; i < 3; i++ {
			emit("mb", "dd", 0, 2+i%2, 4, 1+i%2, 1+i%2, 0, 1, 1+i, "try", 0, 0, 0)
			emit("mb", "dn", 0, 2+i%2, 4, 1+i%2, 1+i%2, 0, 1, 1+i, "try", 0, 0, 0)
		}
		// the pre-lock window of the two pools, 64 rounds each (two random select choices per round)
		emit("bp", "sl", 0, 2, 4, 1, 1, 0, 1, 64, "try", 0, 0, 0)
		emit("bp", "sl", 0, 1, 4, 1, 1, 0, 1, 64, "wait", 0, 0, 0)
		emit("bbp", "sl", 0, 2, 4, 1, 2, 0, 1, 64, "try", 0, 0, 0)
		emit("bbp", "sc", 0, 1, 4, 1, 2, 0, 1, 2, "try", 0, 0, 0)
		emit("bbp", "sn", 1, 1, 4, 1, 2, 0, 1, 2, "try", 0, 0, 0)
	}
	g.Case()
	directed()
	for i := 0; i < g.N; i++ {
		if i%8 == 0 {
			g.Case()
		}
		kind := []string{"bp", "bbp", "wq", "mb"}[g.R.Pick(3, 3, 2, 4)]
		steer := "none"
		if g.R.Chance(10) {
			switch kind {
			case "mb":
				steer = []string{"wc", "wn", "dd", "dn"}[g.R.Pick(3, 3, 3, 1)]
			case "bp":
				steer = []string{"sc", "sn"}[g.R.Intn(2)]
			case "bbp":
				if g.R.Chance(25) { // each costs a 300 ms hold when the protocol is sound
					steer = "sc"
				} else {
					steer = "sn"
				}
			}
		}
		workers := g.R.Range(1, 4)
		queue := []int{1, 2, 3, 4, 8, 16}[g.R.Pick(2, 2, 2, 3, 3, 2)]
		shards, bmax, bwait := 1, 1, 0
		if kind == "mb" {
			shards = g.R.Range(1, 4)
		}
		if kind == "mb" || kind == "bbp" {
			bmax = []int{1, 2, 3, 8}[g.R.Pick(3, 3, 2, 2)]
			if bmax > 1 && g.R.Chance(40) {
				bwait = []int{20, 200, 2000}[g.R.Intn(3)]
			}
		}
		cancel := 0
		if kind == "bbp" && steer == "none" {
			cancel = g.R.Pick(5, 3, 1, 3)
		}
		prod := g.R.Range(1, 6)
		per := g.R.Range(1, 8)
		mode := "try"
		if (kind == "bp" || kind == "wq") && g.R.Chance(35) {
			mode = "wait"
		}
		total := prod * per
		closeAt := total
		if g.R.Chance(70) {
			closeAt = g.R.Intn(total + 1)
		}
		closeDl := 0
		hdl := []int{0, 0, 5, 50, 400}[g.R.Intn(5)]
		if steer == "none" && hdl >= 50 && g.R.Chance(30) {
			closeDl = []int{1, 50, 300}[g.R.Intn(3)]
		}
		if steer != "none" {
			closeAt, closeDl = 0, 0
			prod = 1
			per = g.R.Range(1, 4)
		}
		if steer == "dd" || steer == "dn" {
			per = g.R.Range(1, 2)
			if workers < 2 { // a second drain needs a second pool worker to become visible
				workers = 2
			}
			if queue < 4 {
				queue = 4
			}
			bwait = 0
		}
		emit(kind, steer, cancel, workers, queue, shards, bmax, bwait, prod, per, mode, closeAt, closeDl, hdl)
	}
}

// ---------------------------------------------------------------- event log ---

type c37Ev struct {
	k    byte
	a, b int32
	set  atomic.Bool
}

type c37Log struct {
	buf []c37Ev
	n   atomic.Int64
}

func newC37Log() *c37Log { return &c37Log{buf: make([]c37Ev, 1<<13)} }

func (l *c37Log) add(k byte, a, b int) {
	i := l.n.Add(1) - 1
	if int(i) >= len(l.buf) {
		return
	}
	e := &l.buf[i]
	e.k, e.a, e.b = k, int32(a), int32(b)
	e.set.Store(true)
}

func (l *c37Log) render() string {
	n := int(l.n.Load())
	if n > len(l.buf) {
		n = len(l.buf)
	}
	var sb strings.Builder
	sb.WriteString("ev=")
	first := true
	for i := 0; i < n; i++ {
		e := &l.buf[i]
		if !e.set.Load() {
			continue
		}
		if !first {
			sb.WriteByte(',')
		}
		first = false
		sb.WriteByte(e.k)
		switch e.k {
		case 'C', 'H', 'T':
		case 'S':
			sb.WriteString(strconv.Itoa(int(e.a)))
			sb.WriteByte(':')
			sb.WriteString(strconv.Itoa(int(e.b)))
		default:
			sb.WriteString(strconv.Itoa(int(e.a)))
		}
	}
	if first {
		sb.WriteString("-")
	}
	return sb.String()
}

// ------------------------------------------------------------------ seams ---

// hold is a steering point: the goroutine that reaches it announces itself and is
// delayed until released or until the (generous) timeout expires.
type c37Hold struct {
	armed    atomic.Bool
	engaged  chan struct{}
	release  chan struct{}
	once     sync.Once
	relOnce  sync.Once
	log      *c37Log
	maxDelay time.Duration
}

func newC37Hold(l *c37Log, d time.Duration) *c37Hold {
	return &c37Hold{engaged: make(chan struct{}), release: make(chan struct{}), log: l, maxDelay: d}
}

func (h *c37Hold) reach() {
	if !h.armed.CompareAndSwap(true, false) {
		return
	}
	h.log.add('H', 0, 0)
	h.once.Do(func() { close(h.engaged) })
	t := time.NewTimer(h.maxDelay)
	defer t.Stop()
	select {
	case <-h.release:
	case <-t.C:
		h.log.add('T', 0, 0)
	}
}

func (h *c37Hold) free() { h.relOnce.Do(func() { close(h.release) }) }

// waitCh waits for ch with a timeout; false = timed out (noted, never a violation).
func c37Wait(l *c37Log, ch <-chan struct{}, d time.Duration) bool {
	t := time.NewTimer(d)
	defer t.Stop()
	select {
	case <-ch:
		return true
	case <-t.C:
		l.add('T', 0, 0)
		return false
	}
}

// c37Ctx is a caller context whose Done() is a steering/notification seam.
type c37Ctx struct {
	context.Context
	calls atomic.Int32
	at    int32
	fn    func()
}

func (c *c37Ctx) Done() <-chan struct{} {
	if c.calls.Add(1) == c.at && c.fn != nil {
		c.fn()
	}
	return c.Context.Done()
}

type c37MailboxObserver struct {
	onAdmit atomic.Pointer[func()] // one-shot action run inside the next successful admission observation
	log    *c37Log
	mu     sync.Mutex
	phase  map[int]int
	target int
	hold   *c37Hold
}

func (o *c37MailboxObserver) ObserveShardedMailbox(obs workqueue.ShardedMailboxObservation) {
	if obs.Kind == "admission" && obs.Result == "ok" {
		if fn := o.onAdmit.Swap(nil); fn != nil {
			(*fn)()
		}
		return
	}
	if obs.Kind != "worker" || obs.Shard < 0 {
		return
	}
	o.mu.Lock()
	o.phase[obs.Shard]++
	down := o.phase[obs.Shard]%2 == 0
	o.mu.Unlock()
	if !down {
		o.log.add('U', obs.Shard, 0)
		return
	}
	o.log.add('V', obs.Shard, 0)
	if o.hold != nil && obs.Shard == o.target {
		o.hold.reach()
	}
	o.log.add('W', obs.Shard, 0)
}

// -------------------------------------------------------------- scenario ---

type c37Scn struct {
	kind, steer, mode                                  string
	cancel, workers, queue, shards, bmax, bwait        int
	prod, per, closeAt, closeDl, hdl                   int
	seed                                               uint64
	log                                                *c37Log
	active                                             atomic.Int64
	submitted                                          atomic.Int64
	submit, submitWait                                 func(ctx context.Context, t int) error
	closeFn                                            func(ctx context.Context) error
	shardOf                                            func(t int) int
	gateTask                                           atomic.Int64 // task whose handler is held (-1 none)
	gateIn                                             chan struct{}
	gateOut                                            chan struct{}
	gateOnce                                           sync.Once
}

type c37Task struct{ id, shard int }

func c37mix(a, b uint64) uint64 {
	z := a + 0x9E3779B97F4A7C15*(b+1)
	z = (z ^ (z >> 30)) * 0xBF58476D1CE4E5B9
	z = (z ^ (z >> 27)) * 0x94D049BB133111EB
	return z ^ (z >> 31)
}

func (s *c37Scn) delay(t int) {
	if s.hdl <= 0 {
		return
	}
	us := int(c37mix(s.seed, uint64(t)) % uint64(s.hdl+1))
	if us >= 100 {
		time.Sleep(time.Duration(us) * time.Microsecond)
		return
	}
	end := time.Now().Add(time.Duration(us) * time.Microsecond)
	for time.Now().Before(end) {
		runtime.Gosched()
	}
}

// gate holds the handler call that contains the gated task until released (or 3 s).
func (s *c37Scn) gate(ids ...int) {
	g := int(s.gateTask.Load())
	if g < 0 || s.gateIn == nil {
		return
	}
	for _, id := range ids {
		if id == g {
			s.gateOnce.Do(func() { close(s.gateIn) })
			t := time.NewTimer(3 * time.Second)
			select {
			case <-s.gateOut:
			case <-t.C:
				s.log.add('T', 0, 0)
			}
			t.Stop()
			return
		}
	}
}

func (s *c37Scn) handleOne(t c37Task) {
	s.active.Add(1)
	s.log.add('R', t.id, 0)
	s.delay(t.id)
	s.log.add('D', t.id, 0)
	s.active.Add(-1)
}

func (s *c37Scn) handleBatch(shard int, ts []c37Task, mailbox bool) {
	s.active.Add(1)
	if mailbox {
		s.log.add('B', shard, 0)
	}
	ids := make([]int, 0, len(ts))
	for _, t := range ts {
		s.log.add('R', t.id, 0)
		ids = append(ids, t.id)
	}
	s.gate(ids...)
	for _, t := range ts {
		s.delay(t.id)
	}
	for _, t := range ts {
		s.log.add('D', t.id, 0)
	}
	if mailbox {
		s.log.add('b', shard, 0)
	}
	s.active.Add(-1)
}

func (s *c37Scn) build(obs *c37MailboxObserver) error {
	s.shardOf = func(t int) int { return 0 }
	switch s.kind {
	case "bp":
		p, err := workqueue.NewBoundedPool[c37Task](workqueue.BoundedPoolConfig{Name: "c37", Workers: s.workers, QueueSize: s.queue},
			func(_ context.Context, t c37Task) error { s.handleOne(t); return nil })
		if err != nil {
			return err
		}
		s.submit = func(ctx context.Context, t int) error { return p.Submit(ctx, c37Task{id: t}) }
		s.submitWait = func(ctx context.Context, t int) error { return p.SubmitWait(ctx, c37Task{id: t}) }
		s.closeFn = p.Close
	case "bbp":
		cfg := workqueue.BoundedBatchPoolConfig[c37Task]{Name: "c37", Workers: s.workers, QueueSize: s.queue,
			Policy: func(c37Task) workqueue.BatchOptions {
				return workqueue.BatchOptions{MaxItems: s.bmax, MaxWait: time.Duration(s.bwait) * time.Microsecond}
			}}
		if s.cancel&1 != 0 {
			cfg.CancelAcceptedOnClose = true
			cfg.CancelAccepted = func(t c37Task, _ error) { s.log.add('K', t.id, 0) }
		}
		if s.cancel&2 != 0 {
			cfg.CancelRunningOnClose = true
		}
		p, err := workqueue.NewBoundedBatchPool[c37Task](cfg, func(_ context.Context, ts []c37Task) error {
			s.handleBatch(0, ts, false)
			return nil
		})
		if err != nil {
			return err
		}
		s.submit = func(ctx context.Context, t int) error { return p.Submit(ctx, c37Task{id: t}) }
		s.submitWait = s.submit
		s.closeFn = p.Close
	case "wq":
		q, err := workqueue.NewBoundedWorkerQueue[c37Task](workqueue.BoundedWorkerQueueConfig{Name: "c37", Workers: s.workers, QueueSize: s.queue},
			func(_ context.Context, t c37Task) error { s.handleOne(t); return nil })
		if err != nil {
			return err
		}
		s.submit = func(ctx context.Context, t int) error { return q.Submit(ctx, c37Task{id: t}) }
		s.submitWait = func(ctx context.Context, t int) error { return q.SubmitWait(ctx, c37Task{id: t}) }
		s.closeFn = q.Close
	case "mb":
		if s.steer == "none" {
			s.shardOf = func(t int) int { return int(c37mix(s.seed^0x5bd1e995, uint64(t)) % uint64(s.shards)) }
		}
		m, err := workqueue.NewShardedMailbox[c37Task](workqueue.ShardedMailboxConfig{Name: "c37", Shards: s.shards, Workers: s.workers,
			QueueSizePerShard: s.queue, BatchMaxItems: s.bmax, BatchMaxWait: time.Duration(s.bwait) * time.Microsecond, Observer: obs},
			func(_ context.Context, b workqueue.MailboxBatch[c37Task]) error {
				s.handleBatch(b.Shard, b.Items, true)
				return nil
			})
		if err != nil {
			return err
		}
		s.submit = func(ctx context.Context, t int) error {
			sh := s.shardOf(t)
			return m.SubmitHash(ctx, uint64(sh), c37Task{id: t, shard: sh})
		}
		s.submitWait = s.submit
		s.closeFn = m.Close
	default:
		return errors.New("bad kind")
	}
	return nil
}

func (s *c37Scn) doSubmit(ctx context.Context, t int, wait bool) error {
	s.log.add('S', t, s.shardOf(t))
	var err error
	if wait {
		err = s.submitWait(ctx, t)
	} else {
		err = s.submit(ctx, t)
	}
	switch {
	case err == nil:
		s.log.add('A', t, 0)
	case errors.Is(err, workqueue.ErrFull):
		s.log.add('F', t, 0)
	case errors.Is(err, workqueue.ErrClosed):
		s.log.add('X', t, 0)
	case errors.Is(err, context.Canceled), errors.Is(err, context.DeadlineExceeded):
		s.log.add('E', t, 0)
	default:
		s.log.add('Q', t, 0)
	}
	s.submitted.Add(1)
	return err
}

// doClose logs C, lets a little time pass (so that a drain that logged its exit
// before C has long since finished, see the judge's window classification) and
// calls the real Close.  Returns when Close returned or after 20 s.
func (s *c37Scn) doClose(ctx context.Context) {
	s.log.add('C', 0, 0)
	end := time.Now().Add(50 * time.Microsecond)
	for time.Now().Before(end) {
		runtime.Gosched()
	}
	done := make(chan error, 1)
	go func() { done <- s.closeFn(ctx) }()
	t := time.NewTimer(20 * time.Second)
	defer t.Stop()
	select {
	case err := <-done:
		if err == nil {
			s.log.add('Z', 0, 0)
		} else {
			s.log.add('Z', 1, 0)
		}
	case <-t.C:
		s.log.add('Z', 2, 0)
	}
}

func (s *c37Scn) settle() {
	// give stray runs (a violation in themselves) a chance to show; bounded, never asserted on
	deadline := time.Now().Add(2 * time.Second)
	quiet := 0
	for time.Now().Before(deadline) && quiet < 3 {
		time.Sleep(300 * time.Microsecond)
		if s.active.Load() == 0 {
			quiet++
		} else {
			quiet = 0
		}
	}
}

func (s *c37Scn) closeCtx() (context.Context, context.CancelFunc) {
	if s.closeDl > 0 {
		return context.WithTimeout(context.Background(), time.Duration(s.closeDl)*time.Microsecond)
	}
	return context.Background(), func() {}
}

func (s *c37Scn) runUnsteered() {
	total := s.prod * s.per
	var wg sync.WaitGroup
	var prodDone atomic.Bool
	for p := 0; p < s.prod; p++ {
		wg.Add(1)
		go func(p int) {
			defer wg.Done()
			for i := 0; i < s.per; i++ {
				t := p*s.per + i
				ctx := context.Background()
				if c37mix(s.seed^0xabc, uint64(t))%23 == 0 { // an already cancelled caller context
					c, cancel := context.WithCancel(ctx)
					cancel()
					ctx = c
				}
				_ = s.doSubmit(ctx, t, s.mode == "wait")
				if c37mix(s.seed^0x77, uint64(t))%4 == 0 {
					runtime.Gosched()
				}
			}
		}(p)
	}
	go func() { wg.Wait(); prodDone.Store(true) }()
	for int(s.submitted.Load()) < s.closeAt && s.closeAt <= total && !prodDone.Load() {
		runtime.Gosched()
	}
	ctx, cancel := s.closeCtx()
	s.doClose(ctx)
	cancel()
	wg.Wait()
	s.settle()
}

func (s *c37Scn) waitAllAcceptedDone(ids []int, accepted map[int]bool) {
	// poll the log-free way: active handlers zero and every accepted id seen done is not knowable here
	// without scanning, so simply wait until the queue has been quiet for a while (bounded).
	deadline := time.Now().Add(2 * time.Second)
	for time.Now().Before(deadline) {
		if s.doneCount() >= len(accepted) {
			return
		}
		time.Sleep(200 * time.Microsecond)
	}
	s.log.add('T', 0, 0)
}

func (s *c37Scn) doneCount() int {
	n := int(s.log.n.Load())
	if n > len(s.log.buf) {
		n = len(s.log.buf)
	}
	c := 0
	for i := 0; i < n; i++ {
		e := &s.log.buf[i]
		if e.set.Load() && (e.k == 'D' || e.k == 'K') {
			c++
		}
	}
	return c
}

// runMailboxWindow: hold a drain of shard 0 between its final empty check and
// finishShardDrain, admit items meanwhile, and (wc) let Close set its flags before
// the drain continues, or (wn) continue first and close afterwards.
func (s *c37Scn) runMailboxWindow(hold *c37Hold) {
	accepted := map[int]bool{}
	next := 0
	sub := func() {
		if s.doSubmit(context.Background(), next, false) == nil {
			accepted[next] = true
		}
		next++
	}
	hold.armed.Store(true)
	for i := 0; i < s.per; i++ {
		sub()
	}
	engaged := c37Wait(s.log, hold.engaged, 2*time.Second)
	if engaged {
		for i := 0; i < 1+int(s.seed%2); i++ {
			sub()
		}
	}
	if s.steer == "wc" {
		waiting := make(chan struct{})
		var once sync.Once
		cctx := &c37Ctx{Context: context.Background(), at: 1, fn: func() { once.Do(func() { close(waiting) }) }}
		closed := make(chan struct{})
		go func() { s.doClose(cctx); close(closed) }()
		c37Wait(s.log, waiting, 2*time.Second)
		hold.free()
		<-closed
	} else {
		hold.free()
		s.waitAllAcceptedDone(nil, accepted)
		s.doClose(context.Background())
	}
	sub() // after close: must be rejected
	s.settle()
}

// runMailboxDoubleDrain: an item X is admitted while the exiting drain sits between its final empty
// check and finishShardDrain (dd) — or simply while nothing is queued (dn); the drain that picks X up is
// held inside X's handler; meanwhile Y is submitted to the same shard.  The scheduled flag must keep Y from
// starting a second drain: Y's batch may only begin after X's batch ended, and X runs before Y.
func (s *c37Scn) runMailboxDoubleDrain(hold *c37Hold) {
	accepted := map[int]bool{}
	next := 0
	sub := func() int {
		id := next
		next++
		if s.doSubmit(context.Background(), id, false) == nil {
			accepted[id] = true
		}
		return id
	}
	if hold != nil {
		hold.armed.Store(true)
	}
	for i := 0; i < s.per; i++ {
		sub()
	}
	if hold != nil {
		c37Wait(s.log, hold.engaged, 2*time.Second)
	} else {
		s.waitAllAcceptedDone(nil, accepted)
	}
	s.gateTask.Store(int64(next))
	x := sub()
	if hold != nil {
		hold.free()
	}
	if accepted[x] {
		c37Wait(s.log, s.gateIn, 2*time.Second) // X's handler is running (and held)
	}
	y := sub()
	if int(s.seed%2) == 0 {
		sub()
	}
	// a second drain, if the protocol allowed one, starts within microseconds; give it time, never assert
	deadline := time.Now().Add(100 * time.Millisecond)
	for time.Now().Before(deadline) && !s.ran(y) {
		time.Sleep(200 * time.Microsecond)
	}
	close(s.gateOut)
	s.waitAllAcceptedDone(nil, accepted)
	s.doClose(context.Background())
	sub()
	s.settle()
}

func (s *c37Scn) ran(t int) bool {
	n := int(s.log.n.Load())
	if n > len(s.log.buf) {
		n = len(s.log.buf)
	}
	for i := 0; i < n; i++ {
		e := &s.log.buf[i]
		if e.set.Load() && e.k == 'R' && int(e.a) == t {
			return true
		}
	}
	return false
}

// runSubmitLoop: <per> independent rounds on fresh pools.  In each round one Submit is held at its first
// ctx.Done() (inside acquireSlot: after the closed check, before the slot and before any admission lock),
// Close runs to completion (signalled, not slept for), the Submit is released.  Whatever the two random
// select choices, a Submit that returns nil must have its task run.  Stops at the first stranded task.
func (s *c37Scn) runSubmitLoop() string {
	rounds := s.per
	if rounds < 1 {
		rounds = 1
	}
	var last *c37Log
	for r := 0; r < rounds; r++ {
		rs := &c37Scn{kind: s.kind, steer: s.steer, mode: s.mode, cancel: s.cancel, workers: s.workers, queue: s.queue, shards: 1, bmax: s.bmax,
			bwait: 0, seed: c37mix(s.seed, uint64(r)), log: newC37Log()}
		rs.gateTask.Store(-1)
		if err := rs.build(nil); err != nil {
			return "bad-op"
		}
		last = rs.log
		hold := newC37Hold(rs.log, 2*time.Second)
		_ = rs.doSubmit(context.Background(), 0, false)
		hold.armed.Store(true)
		yctx := &c37Ctx{Context: context.Background(), at: 1, fn: hold.reach}
		subDone := make(chan error, 1)
		go func() { subDone <- rs.doSubmit(yctx, 1, rs.mode == "wait") }()
		engaged := false
		var subErr error
		finished := false
		select {
		case <-hold.engaged:
			engaged = true
		case subErr = <-subDone:
			finished = true
		case <-time.After(2 * time.Second):
			rs.log.add('T', 0, 0)
		}
		closed := make(chan struct{})
		go func() { rs.doClose(context.Background()); close(closed) }()
		if engaged {
			t := time.NewTimer(300 * time.Millisecond) // Close does not depend on the held Submit here; bound anyway
			select {
			case <-closed:
			case <-t.C:
			}
			t.Stop()
		}
		hold.free()
		if !finished {
			subErr = <-subDone
		}
		<-closed
		if subErr == nil { // accepted: it must run (it cannot, if Close already returned); look briefly, never assert on time
			deadline := time.Now().Add(20 * time.Millisecond)
			for time.Now().Before(deadline) && !rs.ran(1) {
				time.Sleep(200 * time.Microsecond)
			}
			if !rs.ran(1) {
				break
			}
		}
	}
	if last == nil {
		return "bad-op"
	}
	return last.render()
}

// runMailboxSubmitWindow: a Submit to an idle shard is delayed inside the Observer's admission callback (the item
// is queued, the shard is marked scheduled, the drain is not yet invoked) while Close is called and given time to
// return.  Close must already be bound to that drain (wg.Add under the shard lock), so it cannot return before the
// item ran; the delay is bounded (100 ms) and only delays the submitting goroutine.
func (s *c37Scn) runMailboxSubmitWindow(obs *c37MailboxObserver) {
	accepted := map[int]bool{}
	next := 0
	for i := 0; i < s.per-1; i++ { // earlier traffic; the shard is idle again afterwards
		if s.doSubmit(context.Background(), next, false) == nil {
			accepted[next] = true
		}
		next++
	}
	s.waitAllAcceptedDone(nil, accepted)
	closed := make(chan struct{})
	fn := func() {
		go func() { s.doClose(context.Background()); close(closed) }()
		t := time.NewTimer(100 * time.Millisecond)
		select {
		case <-closed:
		case <-t.C:
		}
		t.Stop()
	}
	obs.onAdmit.Store(&fn)
	if s.doSubmit(context.Background(), next, false) != nil {
		if obs.onAdmit.Swap(nil) != nil { // refused before the window: close normally
			go func() { s.doClose(context.Background()); close(closed) }()
		}
	}
	next++
	<-closed
	_ = s.doSubmit(context.Background(), next, false)
	s.settle()
}

// runSubmitSelect: hold one Submit right before its final select (after the closed
// check and the slot acquisition); (sc) Close completely meanwhile, or (sn) not.
func (s *c37Scn) runSubmitSelect(hold *c37Hold) {
	accepted := map[int]bool{}
	next := 0
	var mu sync.Mutex
	for i := 0; i < s.per; i++ {
		if s.doSubmit(context.Background(), next, s.mode == "wait") == nil {
			accepted[next] = true
		}
		next++
	}
	steered := next
	next++
	hold.armed.Store(true)
	yctx := &c37Ctx{Context: context.Background(), at: 2, fn: hold.reach}
	subDone := make(chan struct{})
	go func() {
		if s.doSubmit(yctx, steered, s.mode == "wait") == nil {
			mu.Lock()
			accepted[steered] = true
			mu.Unlock()
		}
		close(subDone)
	}()
	engaged := false
	select { // the hold engages unless the Submit was refused before its final select
	case <-hold.engaged:
		engaged = true
	case <-subDone:
	case <-time.After(2 * time.Second):
		s.log.add('T', 0, 0)
	}
	if s.steer == "sc" && engaged {
		closed := make(chan struct{})
		go func() { s.doClose(context.Background()); close(closed) }()
		// wait for Close to finish; under an admission lock it cannot before the held
		// Submit continues, so this wait is bounded and its expiry is not an event
		t := time.NewTimer(300 * time.Millisecond)
		select {
		case <-closed:
		case <-t.C:
		}
		t.Stop()
		hold.free()
		<-subDone
		<-closed
	} else {
		hold.free()
		<-subDone
		mu.Lock()
		acc := map[int]bool{}
		for k := range accepted {
			acc[k] = true
		}
		mu.Unlock()
		s.waitAllAcceptedDone(nil, acc)
		s.doClose(context.Background())
	}
	_ = s.doSubmit(context.Background(), next, false) // after close: must be rejected
	s.settle()
}

// ------------------------------------------------------------------ runner ---

type c37Runner struct{}

func (*c37Runner) Close() {}

func (*c37Runner) Step(op string) string {
	f := strings.Fields(op)
	if len(f) != 16 || f[0] != "run" {
		return "bad-op"
	}
	ints := make([]int, 16)
	for _, i := range []int{3, 4, 5, 6, 7, 8, 9, 10, 12, 13, 14} {
		v, err := strconv.Atoi(f[i])
		if err != nil || v < 0 || v > 1<<20 {
			return "bad-op"
		}
		ints[i] = v
	}
	seed, err := strconv.ParseUint(f[15], 10, 64)
	if err != nil {
		return "bad-op"
	}
	s := &c37Scn{kind: f[1], steer: f[2], cancel: ints[3], workers: ints[4], queue: ints[5], shards: ints[6], bmax: ints[7], bwait: ints[8],
		prod: ints[9], per: ints[10], mode: f[11], closeAt: ints[12], closeDl: ints[13], hdl: ints[14], seed: seed, log: newC37Log()}
	if s.mode != "try" && s.mode != "wait" {
		return "bad-op"
	}
	if s.prod*s.per > 256 || s.workers < 1 || s.queue < 1 || s.shards < 1 {
		return "bad-op"
	}
	okSteer := map[string][]string{"bp": {"none", "sc", "sn", "sl"}, "bbp": {"none", "sc", "sn", "sl"}, "wq": {"none"}, "mb": {"none", "wc", "wn", "dd", "dn", "ws"}}
	valid := false
	for _, st := range okSteer[s.kind] {
		valid = valid || st == s.steer
	}
	if !valid {
		return "bad-op"
	}
	if s.steer == "sl" {
		return s.runSubmitLoop()
	}
	var hold *c37Hold
	var obs *c37MailboxObserver
	s.gateTask.Store(-1)
	if s.steer != "none" && s.steer != "dn" && s.steer != "ws" {
		hold = newC37Hold(s.log, 2*time.Second)
	}
	if s.steer == "dd" || s.steer == "dn" {
		s.gateIn = make(chan struct{})
		s.gateOut = make(chan struct{})
	}
	if s.kind == "mb" {
		obs = &c37MailboxObserver{log: s.log, phase: map[int]int{}, target: 0, hold: hold}
	}
	if err := s.build(obs); err != nil {
		return "bad-op"
	}
	switch s.steer {
	case "none":
		s.runUnsteered()
	case "wc", "wn":
		s.runMailboxWindow(hold)
	case "sc", "sn":
		s.runSubmitSelect(hold)
	case "dd", "dn":
		s.runMailboxDoubleDrain(hold)
	case "ws":
		s.runMailboxSubmitWindow(obs)
	}
	return s.log.render()
}

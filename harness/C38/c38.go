//go:build verif

// C38 — backup archives are self-verifying.
//
// One REAL filesystem repository (internal/infra/backup.FileArchiveStore) per
// case.  Ops:
//
//	arch seed                  build and publish a random archive "b1": 256 Slot manifests (1-3 chunks each, real
//	                           EncodeChunk output), top-level manifest, COMPLETE marker; then VerifyPublishedArchive
//	verify                     VerifyPublishedArchive
//	mut class a b c            apply ONE mutation of the class to the stored objects, verify, UNDO it
//	                           classes: chunk-flip chunk-trunc chunk-extend chunk-swap chunk-delete chunk-recompress
//	                                    slotman-flip slotman-rewrite slotman-delete slotman-swap
//	                                    manifest-flip manifest-rewrite manifest-order manifest-delete
//	                                    marker-flip marker-rewrite-size marker-rewrite-digest marker-delete corrupt-flag
//	                                    id-mismatch
//	json kind mutation n       feed a manifest body to the strict decoder: kind = archive|slot|msgchunks|marker|repo,
//	                           mutation = valid|unknown-field|dup-key|space|number-float|number-exp|leading-zero|
//	                           reorder|trailing|null|escape|upper-hex|truncate|oversize|byte-flip|empty|array|nested-unknown
//
// Output: `ok …` / `err:<kind>`; for `mut`: `verify=<result>` (the mutation is undone afterwards; a later `verify` op
// checks the archive is intact again); for `json`: `rej:<kind>` | `acc same=<bool> canon=<bool>`.
package main

import (
	"bytes"
	"context"
	"crypto/sha256"
	"encoding/hex"
	"encoding/json"
	"errors"
	"fmt"
	"io"
	"os"
	"path/filepath"
	"sort"
	"strconv"
	"strings"

	infra "github.com/WuKongIM/WuKongIM/internal/infra/backup"
	"github.com/WuKongIM/WuKongIM/pkg/backup"
)

func init() {
	Register(&Prop{Gen: genC38, NewRunner: func() Runner { return newC38Runner() }})
}

type c38Runner struct {
	dir      string
	store    *infra.FileArchiveStore
	built    bool
	slotMans [256]backup.SlotManifest
	manifest backup.ArchiveManifest
	empties  []int // slots that contain an empty-stream chunk (logical_bytes = 0)
	r        *Rand
}

var c38Seq int

func newC38Runner() *c38Runner {
	c38Seq++
	base := os.Getenv("VERIF_SCRATCH")
	if base == "" {
		base = "."
	}
	dir := filepath.Join(base, fmt.Sprintf("c38-%d-%d", os.Getpid(), c38Seq))
	st, err := infra.NewFileArchiveStore(dir)
	if err != nil {
		panic(err)
	}
	return &c38Runner{dir: dir, store: st}
}

func (r *c38Runner) Close() { _ = os.RemoveAll(r.dir) }

func c38Err(err error) string {
	switch {
	case err == nil:
		return "ok"
	case errors.Is(err, backup.ErrObjectCorrupt):
		return "err:corrupt"
	case errors.Is(err, backup.ErrUnsupportedVersion):
		return "err:version"
	case errors.Is(err, backup.ErrInvalidManifest):
		return "err:manifest"
	case errors.Is(err, backup.ErrInvalidObject):
		return "err:object"
	case errors.Is(err, backup.ErrObjectNotFound):
		return "err:notfound"
	default:
		return "err:other"
	}
}

const c38ID = "b1"

func (r *c38Runner) put(key string, body []byte) {
	ctx := context.Background()
	_ = r.store.Delete(ctx, key)
	if err := r.store.Put(ctx, backup.PutObject{Key: key, Body: bytes.NewReader(body), ExpectedBytes: uint64(len(body))}); err != nil {
		panic("put " + key + ": " + err.Error())
	}
}

func (r *c38Runner) get(key string) []byte {
	rd, _, err := r.store.Open(context.Background(), key)
	if err != nil {
		panic("open " + key + ": " + err.Error())
	}
	defer rd.Close()
	b, err := io.ReadAll(rd)
	if err != nil {
		panic(err)
	}
	return b
}

func sha(b []byte) string { s := sha256.Sum256(b); return hex.EncodeToString(s[:]) }

func (r *c38Runner) build(seed uint64) string {
	rnd := NewRand(seed)
	ctx := context.Background()
	_ = r.store.DeletePrefix(ctx, "backups/"+c38ID)
	root := "backups/" + c38ID + "/"
	var refs []backup.SlotReference
	totalChunks := 0
	r.empties = nil
	for hs := 0; hs < 256; hs++ {
		nmsg := rnd.Pick(5, 3, 1)
		var chunks []backup.ChunkReference
		mk := func(kind backup.ChunkKind, seq, stream, part uint32, final bool, prefix string) {
			body := rnd.Bytes(rnd.Range(1, 200))
			if rnd.Chance(6) {
				body = nil // an EMPTY stream: the exporter writes a chunk with logical_bytes = 0
				if len(r.empties) == 0 || r.empties[len(r.empties)-1] != hs {
					r.empties = append(r.empties, hs)
				}
			}
			var stored bytes.Buffer
			desc, err := backup.EncodeChunk(&stored, bytes.NewReader(body))
			if err != nil {
				panic(err)
			}
			key := fmt.Sprintf("slots/%03d/%s-%06d.zst", hs, prefix, seq)
			r.put(root+key, stored.Bytes())
			ref := backup.ChunkReference{Kind: kind, Sequence: seq, Stream: stream, Part: part, Final: final, Key: key, Descriptor: desc, Records: uint64(rnd.Range(0, 9))}
			if kind == backup.ChunkKindMessages {
				ref.MaxMessageID = uint64(rnd.Range(1, 1<<30))
			}
			chunks = append(chunks, ref)
			totalChunks++
		}
		mk(backup.ChunkKindMetadata, 1, 0, 1, true, "meta")
		for i := 0; i < nmsg; i++ {
			mk(backup.ChunkKindMessages, uint32(i+1), 1, uint32(i+1), i == nmsg-1, "messages")
		}
		sm := backup.SlotManifest{Format: backup.SlotManifestFormat, Version: backup.SlotManifestVersion, HashSlot: uint16(hs),
			Cut:    backup.SlotCut{PhysicalSlotID: uint32(hs%4 + 1), LeaderTerm: 3, AppliedTerm: 3, ConfigurationVersion: 2, AppliedIndex: uint64(rnd.Range(1, 1000)), CapturedAtUnixMillis: 1700000000100},
			Chunks: chunks}
		for _, c := range chunks {
			sm.LogicalBytes += c.Descriptor.LogicalBytes
			sm.StoredBytes += c.Descriptor.StoredBytes
			sm.Records += c.Records
			if c.MaxMessageID > sm.MaxMessageID {
				sm.MaxMessageID = c.MaxMessageID
			}
		}
		body, err := backup.MarshalSlotManifest(sm)
		if err != nil {
			panic("marshal slot manifest: " + err.Error())
		}
		key := fmt.Sprintf("slots/%03d/manifest.json", hs)
		r.put(root+key, body)
		r.slotMans[hs] = sm
		refs = append(refs, backup.SlotReference{HashSlot: uint16(hs), ManifestKey: key, ManifestSHA256: sha(body),
			LogicalBytes: sm.LogicalBytes, StoredBytes: sm.StoredBytes, Records: sm.Records, MaxMessageID: sm.MaxMessageID})
	}
	am := backup.ArchiveManifest{Format: backup.ArchiveFormat, Version: backup.ArchiveVersion, ID: c38ID, Trigger: backup.TriggerManual,
		SourceClusterID: "cluster-1", SourceApplication: "wukongim", HashSlotCount: 256,
		StartedAtUnixMillis: 1700000000000, CompletedAtUnixMillis: 1700000009000, CutStartedUnixMillis: 1700000000050, CutEndedUnixMillis: 1700000000900,
		Compression: backup.CompressionZstd, Checksum: backup.ChecksumSHA256, Slots: refs}
	for _, s := range refs {
		am.LogicalBytes += s.LogicalBytes
		am.StoredBytes += s.StoredBytes
		am.Records += s.Records
		if s.MaxMessageID > am.MaxMessageID {
			am.MaxMessageID = s.MaxMessageID
		}
	}
	r.manifest = am
	r.publish(am)
	r.built = true
	_, err := backup.VerifyPublishedArchive(ctx, r.store, c38ID)
	return fmt.Sprintf("%s slots=256 chunks=%d emptyslots=%d", c38Err(err), totalChunks, len(r.empties))
}

func (r *c38Runner) publish(am backup.ArchiveManifest) {
	body, err := backup.MarshalArchiveManifest(am)
	if err != nil {
		panic("marshal archive manifest: " + err.Error())
	}
	root := "backups/" + c38ID + "/"
	r.put(root+"manifest.json", body)
	mk, err := backup.NewCompleteMarker(body)
	if err != nil {
		panic(err)
	}
	mb, err := backup.MarshalCompleteMarker(mk)
	if err != nil {
		panic(err)
	}
	r.put(root+"COMPLETE", mb)
}

func (r *c38Runner) verify() string {
	_, err := backup.VerifyPublishedArchive(context.Background(), r.store, c38ID)
	return c38Err(err)
}

func (r *c38Runner) mutate(class string, a, b, c uint64) string {
	ctx := context.Background()
	root := "backups/" + c38ID + "/"
	hs := int(a % 256)
	sm := r.slotMans[hs]
	ck := sm.Chunks[int(b)%len(sm.Chunks)]
	if class == "chunk-bitsweep" {
		return r.bitSweep(hs, c)
	}
	if class == "chunk-bitsweep-empty" {
		if len(r.empties) == 0 {
			return "skip"
		}
		return r.bitSweep(r.empties[int(a)%len(r.empties)], c)
	}
	type saved struct {
		key  string
		body []byte // nil = did not exist
	}
	var undo []saved
	save := func(key string) []byte {
		rd, _, err := r.store.Open(ctx, key)
		if err != nil {
			undo = append(undo, saved{key, nil})
			return nil
		}
		body, _ := io.ReadAll(rd)
		rd.Close()
		undo = append(undo, saved{key, body})
		return append([]byte(nil), body...)
	}
	flip := func(body []byte) []byte {
		body[int(c)%len(body)] ^= byte(b%255) + 1
		return body
	}
	switch class {
	case "chunk-flip":
		r.put(root+ck.Key, flip(save(root+ck.Key)))
	case "chunk-trunc":
		body := save(root + ck.Key)
		r.put(root+ck.Key, body[:len(body)-1-int(c)%(len(body)-1)])
	case "chunk-extend":
		r.put(root+ck.Key, append(save(root+ck.Key), byte(c)))
	case "chunk-swap":
		other := r.slotMans[(hs+1+int(c)%255)%256].Chunks[0]
		x, y := save(root+ck.Key), save(root+other.Key)
		if bytes.Equal(x, y) {
			return "skip"
		}
		r.put(root+ck.Key, y)
		r.put(root+other.Key, x)
	case "chunk-delete":
		save(root + ck.Key)
		_ = r.store.Delete(ctx, root+ck.Key)
	case "chunk-recompress":
		// a different valid zstd stream (other logical content) of any size
		save(root + ck.Key)
		var stored bytes.Buffer
		if _, err := backup.EncodeChunk(&stored, bytes.NewReader([]byte(fmt.Sprintf("other-%d", c)))); err != nil {
			panic(err)
		}
		r.put(root+ck.Key, stored.Bytes())
	case "slotman-flip":
		key := root + fmt.Sprintf("slots/%03d/manifest.json", hs)
		r.put(key, flip(save(key)))
	case "slotman-rewrite":
		// a VALID canonical Slot manifest that differs from the published one
		key := root + fmt.Sprintf("slots/%03d/manifest.json", hs)
		save(key)
		sm2 := sm
		sm2.Cut.AppliedIndex += 1 + c%7
		body, err := backup.MarshalSlotManifest(sm2)
		if err != nil {
			panic(err)
		}
		r.put(key, body)
	case "slotman-delete":
		key := root + fmt.Sprintf("slots/%03d/manifest.json", hs)
		save(key)
		_ = r.store.Delete(ctx, key)
	case "slotman-swap":
		k1 := root + fmt.Sprintf("slots/%03d/manifest.json", hs)
		k2 := root + fmt.Sprintf("slots/%03d/manifest.json", (hs+1+int(c)%255)%256)
		x, y := save(k1), save(k2)
		r.put(k1, y)
		r.put(k2, x)
	case "manifest-flip":
		r.put(root+"manifest.json", flip(save(root+"manifest.json")))
	case "manifest-rewrite":
		// a VALID canonical archive manifest that differs; COMPLETE still binds the old one
		save(root + "manifest.json")
		am := r.manifest
		am.CompletedAtUnixMillis += int64(1 + c%1000)
		body, err := backup.MarshalArchiveManifest(am)
		if err != nil {
			panic(err)
		}
		r.put(root+"manifest.json", body)
	case "manifest-order":
		// consistent re-publication (manifest AND marker) of a manifest whose Slot references are out of order
		save(root + "manifest.json")
		save(root + "COMPLETE")
		am := r.manifest
		am.Slots = append([]backup.SlotReference(nil), am.Slots...)
		i, j := hs, (hs+1+int(c)%255)%256
		am.Slots[i], am.Slots[j] = am.Slots[j], am.Slots[i]
		r.publish(am)
	case "manifest-delete":
		save(root + "manifest.json")
		_ = r.store.Delete(ctx, root+"manifest.json")
	case "marker-flip":
		r.put(root+"COMPLETE", flip(save(root+"COMPLETE")))
	case "marker-rewrite-size", "marker-rewrite-digest":
		save(root + "COMPLETE")
		mbody := r.get(root + "manifest.json")
		mk, _ := backup.NewCompleteMarker(mbody)
		if class == "marker-rewrite-size" {
			mk.ManifestBytes += 1 + c%9
		} else {
			d := []byte(mk.ManifestSHA256)
			p := int(c) % 64
			if d[p] == 'a' {
				d[p] = 'b'
			} else {
				d[p] = 'a'
			}
			mk.ManifestSHA256 = string(d)
		}
		body, err := backup.MarshalCompleteMarker(mk)
		if err != nil {
			panic(err)
		}
		r.put(root+"COMPLETE", body)
	case "marker-delete":
		save(root + "COMPLETE")
		_ = r.store.Delete(ctx, root+"COMPLETE")
	case "corrupt-flag":
		save(root + "CORRUPT")
		r.put(root+"CORRUPT", []byte("x"))
	case "slotman-traversal-key":
		// a consistently re-published archive whose Slot manifest names a chunk through a non-canonical
		// key (`slots/HHH/attempts/../../KKK/meta-000001.zst`) that resolves to ANOTHER slot's chunk
		other := (hs + 1 + int(c)%255) % 256
		oc := r.slotMans[other].Chunks[0]
		sm2 := sm
		sm2.Chunks = append([]backup.ChunkReference(nil), sm.Chunks...)
		first := sm2.Chunks[0]
		first.Key = fmt.Sprintf("slots/%03d/attempts/../../%03d/meta-000001.zst", hs, other)
		first.Descriptor = oc.Descriptor
		first.Records = oc.Records
		sm2.Chunks[0] = first
		sm2.LogicalBytes, sm2.StoredBytes, sm2.Records = 0, 0, 0
		for _, x := range sm2.Chunks {
			sm2.LogicalBytes += x.Descriptor.LogicalBytes
			sm2.StoredBytes += x.Descriptor.StoredBytes
			sm2.Records += x.Records
		}
		body, err := backup.MarshalSlotManifest(sm2)
		if err != nil {
			return "verify=err:encoder-" + strings.TrimPrefix(c38Err(err), "err:")
		}
		key := root + fmt.Sprintf("slots/%03d/manifest.json", hs)
		save(key)
		save(root + "manifest.json")
		save(root + "COMPLETE")
		r.put(key, body)
		am := r.manifest
		am.Slots = append([]backup.SlotReference(nil), am.Slots...)
		am.Slots[hs].ManifestSHA256 = sha(body)
		am.Slots[hs].LogicalBytes, am.Slots[hs].StoredBytes, am.Slots[hs].Records = sm2.LogicalBytes, sm2.StoredBytes, sm2.Records
		am.LogicalBytes, am.StoredBytes, am.Records = 0, 0, 0
		for _, x := range am.Slots {
			am.LogicalBytes += x.LogicalBytes
			am.StoredBytes += x.StoredBytes
			am.Records += x.Records
		}
		r.publish(am)
	case "id-mismatch":
		// a consistently published manifest that names another backup id
		save(root + "manifest.json")
		save(root + "COMPLETE")
		am := r.manifest
		am.ID = "b2"
		r.publish(am)
	default:
		return "bad-op"
	}
	res := r.verify()
	for i := len(undo) - 1; i >= 0; i-- {
		if undo[i].body == nil {
			_ = r.store.Delete(ctx, undo[i].key)
		} else {
			r.put(undo[i].key, undo[i].body)
		}
	}
	return fmt.Sprintf("verify=%s", res)
}

// bitSweep: EVERY single-bit flip of the first 32 and the last 16 bytes of every stored chunk object of one
// Slot, plus 64 random bit flips elsewhere, judged by the function verification uses (DecodeChunk with the
// manifest's descriptor); the flips of the zstd frame-header bytes 4 and 5 additionally go through the
// repository (Put + LoadStoredSlotReference with chunk verification).  Every change must be detected.
func (r *c38Runner) bitSweep(hs int, seed uint64) string {
	ctx := context.Background()
	root := "backups/" + c38ID + "/"
	sm := r.slotMans[hs]
	rnd := NewRand(seed)
	flips, undetected, storeFlips, storeUndetected := 0, 0, 0, 0
	first := "-"
	ref := r.manifest.Slots[hs]
	for ci, ck := range sm.Chunks {
		orig := r.get(root + ck.Key)
		try := func(byteIdx, bit int) {
			b := append([]byte(nil), orig...)
			b[byteIdx] ^= 1 << uint(bit)
			flips++
			if backup.DecodeChunk(io.Discard, bytes.NewReader(b), ck.Descriptor) == nil {
				undetected++
				if first == "-" {
					first = fmt.Sprintf("%d:%d:%d", ci, byteIdx, bit)
				}
			}
			if byteIdx == 4 || byteIdx == 5 || ck.Descriptor.LogicalBytes == 0 {
				storeFlips++
				r.put(root+ck.Key, b)
				if _, _, err := backup.LoadStoredSlotReference(ctx, r.store, c38ID, ref, true); err == nil {
					storeUndetected++
				}
				r.put(root+ck.Key, orig)
			}
		}
		for i := range orig {
			if i < 32 || i >= len(orig)-16 {
				for bit := 0; bit < 8; bit++ {
					try(i, bit)
				}
			}
		}
		for k := 0; k < 64 && len(orig) > 48; k++ {
			try(32+rnd.Intn(len(orig)-48), rnd.Intn(8))
		}
		if ck.Descriptor.LogicalBytes == 0 {
			// same-length garbage in place of an empty-stream chunk
			for k := 0; k < 4; k++ {
				g := rnd.Bytes(len(orig))
				if bytes.Equal(g, orig) {
					continue
				}
				flips++
				storeFlips++
				if backup.DecodeChunk(io.Discard, bytes.NewReader(g), ck.Descriptor) == nil {
					undetected++
				}
				r.put(root+ck.Key, g)
				if _, _, err := backup.LoadStoredSlotReference(ctx, r.store, c38ID, ref, true); err == nil {
					storeUndetected++
				}
				r.put(root+ck.Key, orig)
			}
		}
	}
	return fmt.Sprintf("flips=%d undetected=%d storeflips=%d storeundetected=%d first=%s", flips, undetected, storeFlips, storeUndetected, first)
}

func (r *c38Runner) Step(op string) string {
	f := strings.Fields(op)
	if len(f) == 0 {
		return "bad-op"
	}
	num := func(i int) uint64 {
		if i >= len(f) {
			return 0
		}
		n, _ := strconv.ParseUint(f[i], 10, 63)
		return n
	}
	switch f[0] {
	case "arch":
		return r.build(num(1))
	case "verify":
		if !r.built {
			return "no-archive"
		}
		return r.verify()
	case "mut":
		if !r.built {
			return "no-archive"
		}
		if len(f) != 5 {
			return "bad-op"
		}
		return r.mutate(f[1], num(2), num(3), num(4))
	case "json":
		if len(f) != 4 {
			return "bad-op"
		}
		return c38JSON(f[1], f[2], num(3))
	}
	return "bad-op"
}

// ---------------------------------------------------------------- JSON -----

func c38Valid(kind string, n uint64) []byte {
	rnd := NewRand(n)
	desc := func() backup.ChunkDescriptor {
		var stored bytes.Buffer
		d, err := backup.EncodeChunk(&stored, bytes.NewReader(rnd.Bytes(rnd.Range(1, 40))))
		if err != nil {
			panic(err)
		}
		return d
	}
	var body []byte
	var err error
	switch kind {
	case "slot":
		d := desc()
		sm := backup.SlotManifest{Format: backup.SlotManifestFormat, Version: 1, HashSlot: uint16(n % 256),
			Cut:    backup.SlotCut{PhysicalSlotID: 1, LeaderTerm: 2, AppliedTerm: 2, ConfigurationVersion: 1, AppliedIndex: 5 + n%100, CapturedAtUnixMillis: 1700000000100},
			Chunks: []backup.ChunkReference{{Kind: backup.ChunkKindMetadata, Sequence: 1, Stream: 0, Part: 1, Final: true, Key: fmt.Sprintf("slots/%03d/meta-000001.zst", n%256), Descriptor: d, Records: n % 5}},
			LogicalBytes: d.LogicalBytes, StoredBytes: d.StoredBytes, Records: n % 5}
		body, err = backup.MarshalSlotManifest(sm)
	case "msgchunks":
		d := desc()
		m, e := backup.NewMessageChunkManifest(uint16(n%256), []backup.ChunkReference{{Kind: backup.ChunkKindMessages, Sequence: 1, Stream: 1, Part: 1, Final: true,
			Key: fmt.Sprintf("slots/%03d/messages-000001.zst", n%256), Descriptor: d, Records: 1 + n%5, MaxMessageID: 100 + n}})
		if e != nil {
			panic(e)
		}
		body, err = backup.MarshalMessageChunkManifest(m)
	case "marker":
		mk, e := backup.NewCompleteMarker(c38Valid("archive", 1))
		if e != nil {
			panic(e)
		}
		body, err = backup.MarshalCompleteMarker(mk)
	case "repo":
		body, err = backup.MarshalRepositoryMarker(backup.RepositoryMarker{Format: backup.RepositoryFormat, Version: 1, SourceClusterID: "cluster-1", HashSlotCount: 256, CreatedAtUnixMillis: 1700000000000 + int64(n%1000)})
	case "archive":
		am := backup.ArchiveManifest{Format: backup.ArchiveFormat, Version: 1, ID: "b1", Trigger: backup.TriggerScheduled, SourceClusterID: "cluster-1", SourceApplication: "wukongim",
			HashSlotCount: 256, StartedAtUnixMillis: 1700000000000, CompletedAtUnixMillis: 1700000009000, CutStartedUnixMillis: 1700000000050, CutEndedUnixMillis: 1700000000900,
			Compression: backup.CompressionZstd, Checksum: backup.ChecksumSHA256}
		for hs := 0; hs < 256; hs++ {
			am.Slots = append(am.Slots, backup.SlotReference{HashSlot: uint16(hs), ManifestKey: fmt.Sprintf("slots/%03d/manifest.json", hs), ManifestSHA256: sha([]byte{byte(hs), byte(n)}), Records: uint64(hs) % 3})
			am.Records += uint64(hs) % 3
		}
		body, err = backup.MarshalArchiveManifest(am)
	default:
		return nil
	}
	if err != nil {
		panic("valid " + kind + ": " + err.Error())
	}
	return body
}

func c38Load(kind string, body []byte) (any, error) {
	switch kind {
	case "slot":
		return backup.LoadSlotManifest(body)
	case "msgchunks":
		return backup.LoadMessageChunkManifest(body)
	case "marker":
		// the marker loader also binds a manifest body; use the strict decoder path through a self-consistent pair
		var m backup.CompleteMarker
		_, err := backup.LoadCompleteMarker(body, c38Valid("archive", 1))
		return m, err
	case "repo":
		return backup.LoadRepositoryMarker(body)
	case "archive":
		return backup.LoadArchiveManifest(body)
	}
	return nil, errors.New("kind")
}

// c38Mutate applies a JSON-text mutation that keeps (or tries to keep) the document's MEANING.
func c38Mutate(body []byte, mutation string, n uint64) []byte {
	s := string(body)
	firstNum := func() (int, int) { // a numeric value after a colon
		idx := []int{}
		for i := 0; i+1 < len(s); i++ {
			if s[i] == ':' && s[i+1] >= '1' && s[i+1] <= '9' {
				idx = append(idx, i+1)
			}
		}
		if len(idx) == 0 {
			return -1, -1
		}
		st := idx[int(n)%len(idx)]
		en := st
		for en < len(s) && s[en] >= '0' && s[en] <= '9' {
			en++
		}
		return st, en
	}
	switch mutation {
	case "valid":
		return body
	case "unknown-field":
		return []byte(`{"zz_unknown":1,` + s[1:])
	case "nested-unknown":
		if i := strings.Index(s, `"cut":{`); i >= 0 {
			return []byte(s[:i+7] + `"zz":0,` + s[i+7:])
		}
		if i := strings.Index(s, `"slots":[{`); i >= 0 {
			return []byte(s[:i+10] + `"zz":0,` + s[i+10:])
		}
		return []byte(`{"zz_unknown":{"a":1},` + s[1:])
	case "dup-key":
		// repeat the first member at the end (same value): same meaning under last-wins decoding
		end := strings.Index(s, ",")
		if end < 0 {
			return []byte(s)
		}
		return []byte(s[:len(s)-1] + "," + s[1:end] + "}")
	case "space":
		pos := []int{}
		for i := 0; i < len(s); i++ {
			if s[i] == ':' || s[i] == ',' {
				pos = append(pos, i+1)
			}
		}
		p := pos[int(n)%len(pos)]
		return []byte(s[:p] + []string{" ", "\n", "\t", "\r\n"}[n%4] + s[p:])
	case "number-float":
		st, en := firstNum()
		if st < 0 {
			return []byte(s + " ")
		}
		return []byte(s[:en] + ".0" + s[en:])
	case "number-exp":
		st, en := firstNum()
		if st < 0 {
			return []byte(s + " ")
		}
		return []byte(s[:en] + "e0" + s[en:])
	case "leading-zero":
		st, _ := firstNum()
		if st < 0 {
			return []byte(s + " ")
		}
		return []byte(s[:st] + "0" + s[st:])
	case "reorder":
		// move the first member to the end
		end := strings.Index(s, ",")
		return []byte("{" + s[end+1:len(s)-1] + "," + s[1:end] + "}")
	case "trailing":
		return []byte(s + []string{" ", "\n", "{}", "null", "0"}[n%5])
	case "null":
		return []byte(s[:len(s)-1] + `,"zz":null}`)
	case "escape":
		// "format":"wukongim… -> "format":"wukongim…  (same string, non-canonical escape)
		i := strings.Index(s, `":"w`)
		if i < 0 {
			return []byte(s + " ")
		}
		return []byte(s[:i+3] + `w` + s[i+4:])
	case "upper-hex":
		i := strings.Index(s, `sha256":"`)
		if i < 0 {
			return []byte(s + " ")
		}
		st := i + 9
		return []byte(s[:st] + strings.ToUpper(s[st:st+64]) + s[st+64:])
	case "truncate":
		return body[:int(n)%len(body)]
	case "oversize":
		return append(body, bytes.Repeat([]byte(" "), int(backup.MaxSlotManifestBytes)+10)...)
	case "byte-flip":
		b := append([]byte(nil), body...)
		b[int(n)%len(b)] ^= byte(n>>8%255) + 1
		return b
	case "empty":
		return []byte{}
	case "array":
		return []byte("[" + s + "]")
	}
	return nil
}

func c38JSON(kind, mutation string, n uint64) string {
	valid := c38Valid(kind, n)
	if valid == nil {
		return "bad-op"
	}
	body := c38Mutate(valid, mutation, n)
	if body == nil {
		return "bad-op"
	}
	_, err := c38Load(kind, body)
	if err != nil {
		return "rej:" + strings.TrimPrefix(c38Err(err), "err:")
	}
	// independent canonicality witness: lenient decode + re-encode reproduces the accepted bytes
	canon := false
	var generic any
	switch kind {
	case "slot":
		var m backup.SlotManifest
		if json.Unmarshal(body, &m) == nil {
			generic = m
		}
	case "msgchunks":
		var m backup.MessageChunkManifest
		if json.Unmarshal(body, &m) == nil {
			generic = m
		}
	case "marker":
		var m backup.CompleteMarker
		if json.Unmarshal(body, &m) == nil {
			generic = m
		}
	case "repo":
		var m backup.RepositoryMarker
		if json.Unmarshal(body, &m) == nil {
			generic = m
		}
	case "archive":
		var m backup.ArchiveManifest
		if json.Unmarshal(body, &m) == nil {
			generic = m
		}
	}
	if generic != nil {
		if again, err := json.Marshal(generic); err == nil && bytes.Equal(again, body) {
			canon = true
		}
	}
	return fmt.Sprintf("acc same=%v canon=%v", bytes.Equal(body, valid), canon)
}

var _ = sort.Strings
var _ = json.Marshal

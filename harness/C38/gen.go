//go:build verif

package main

var c38Classes = []string{"chunk-flip", "chunk-trunc", "chunk-extend", "chunk-swap", "chunk-delete", "chunk-recompress",
	"slotman-flip", "slotman-rewrite", "slotman-delete", "slotman-swap",
	"manifest-flip", "manifest-rewrite", "manifest-order", "manifest-delete",
	"marker-flip", "marker-rewrite-size", "marker-rewrite-digest", "marker-delete", "corrupt-flag", "id-mismatch", "slotman-traversal-key"}

var c38Muts = []string{"valid", "unknown-field", "nested-unknown", "dup-key", "space", "number-float", "number-exp", "leading-zero",
	"reorder", "trailing", "null", "escape", "upper-hex", "truncate", "oversize", "byte-flip", "byte-flip", "byte-flip", "empty", "array"}

// genC38: g.N = number of cases; each case = one random archive, every mutation class several
// times at random positions, and a batch of manifest-decoder inputs.
func genC38(g *Gen) {
	for i := 0; i < g.N; i++ {
		g.Case()
		g.Op("arch", "%d", g.R.Intn(1<<30))
		g.Op("verify", "")
		for rep := 0; rep < 2; rep++ {
			for _, c := range c38Classes {
				g.Count("mut:" + c)
				g.Op("mut", "%s %d %d %d", c, g.R.Intn(1<<20), g.R.Intn(1<<20), g.R.Intn(1<<20))
			}
		}
		for k := 0; k < 6; k++ {
			g.Count("mut:chunk-bitsweep")
			g.Op("mut", "chunk-bitsweep %d 0 %d", g.R.Intn(1<<20), g.R.Intn(1<<20))
		}
		for k := 0; k < 4; k++ {
			g.Count("mut:chunk-bitsweep-empty")
			g.Op("mut", "chunk-bitsweep-empty %d 0 %d", g.R.Intn(1<<20), g.R.Intn(1<<20))
		}
		g.Op("verify", "")
		for j := 0; j < 120; j++ {
			kind := []string{"slot", "slot", "msgchunks", "marker", "repo", "archive"}[g.R.Pick(4, 4, 4, 3, 3, 1)]
			m := c38Muts[g.R.Intn(len(c38Muts))]
			g.Count("json:" + m)
			g.Count("jsonkind:" + kind)
			g.Op("json", "%s %s %d", kind, m, g.R.Intn(1<<30))
		}
	}
}

//go:build verif

package main

// C25 — end-to-end payload encryption is correct and tamper-evident.
//
// ops (all byte strings hex, "-" = empty):
//   pad   <n> <bs>                               real pkcs7PaddingSize
//   unpad <bytes> <bs>                           real pkcs7UnpadView
//   enc   <key> <iv> <payload>                   real EncryptPayloadWithCrypto (AES calls recorded) + DecryptPayload round trip
//   dec   <key> <iv> <text>                      real DecryptPayloadWithCrypto (AES calls recorded)
//   mk    <key> <iv> <seq> <msgno> <chid> <chtype> <payload>   real SendMsgKeyWithCrypto (AES calls recorded)
//   send  <key> <iv> <mode> <ver> <setting> <seq> <msgno> <chid> <chtype> <expire> <topic> <payload> <tamper>
//                                                client seals with the real API, the packet is perturbed, encoded with the real
//                                                codec and fed to the real gateway Adapter.Decode on a session in <mode>
//   recv  <key> <iv> <mode> <setting> <mid> <mseq> <msgno> <ts> <from> <chid> <chtype> <payload>
//                                                real gateway Adapter.Encode seals a RECV on a session in <mode>; decoded with the real codec, opened by the client API
//   sopen <key> <iv>                             one gateway session with a cached SessionCrypto, kept for the rest of the case
//   sgen  <seq> <msgno> <chid> <chtype> <payload>  a genuine sealed SEND through Adapter.Decode on THAT session
//   srep  <tamper>                               the last genuine packet again (same MsgKey), perturbed, on the same session
//   neg   <clientPriv> <variant>                 real NegotiateServerSession / DeriveClientSession with real X25519 both sides
//
// The generator uses only Go's standard library (crypto/aes, crypto/cipher,
// encoding/base64) to construct ciphertexts; it never looks at results of the
// code under test.

import (
	"bytes"
	"crypto/aes"
	"crypto/cipher"
	"encoding/base64"
	"errors"
	"fmt"
	"strconv"
	"strings"

	gwadapter "github.com/WuKongIM/WuKongIM/pkg/gateway/protocol/wkproto"
	"github.com/WuKongIM/WuKongIM/pkg/gateway/session"
	gatewaytypes "github.com/WuKongIM/WuKongIM/pkg/gateway/types"
	gwenc "github.com/WuKongIM/WuKongIM/pkg/gateway/wkprotoenc"
	codec "github.com/WuKongIM/WuKongIM/pkg/protocol/codec"
	"github.com/WuKongIM/WuKongIM/pkg/protocol/frame"
	penc "github.com/WuKongIM/WuKongIM/pkg/protocol/wkprotoenc"
	"golang.org/x/crypto/curve25519"
)

func init() {
	Register(&Prop{Gen: genC25, NewRunner: func() Runner { return &c25Runner{} }})
}

// ------------------------------------------------------------------ generator

const c25Alnum = "abcdefghijklmnopqrstuvwxyzABCDEFGHIJKLMNOPQRSTUVWXYZ0123456789"

func c25Key(g *Gen, what string) []byte {
	switch g.R.Pick(70, 10, 10, 4, 3, 3) {
	case 0: // what the server really negotiates: 16 lower-case hex chars / 16 alnum chars
		b := make([]byte, 16)
		for i := range b {
			if what == "key" {
				b[i] = "0123456789abcdef"[g.R.Intn(16)]
			} else {
				b[i] = c25Alnum[g.R.Intn(len(c25Alnum))]
			}
		}
		g.Count(what + ":16-text")
		return b
	case 1:
		g.Count(what + ":16-binary")
		return g.R.Bytes(16)
	case 2: // longer: only the first block is used
		g.Count(what + ":longer")
		return g.R.Bytes(g.R.Range(17, 40))
	case 3:
		g.Count(what + ":15")
		return g.R.Bytes(15)
	case 4:
		g.Count(what + ":short")
		return g.R.Bytes(g.R.Range(1, 14))
	default:
		g.Count(what + ":empty")
		return nil
	}
}

func c25GoodKey(g *Gen, what string) []byte {
	for {
		k := c25Key(g, what)
		if len(k) >= 16 {
			return k
		}
	}
}

func c25Text(g *Gen) []byte {
	switch g.R.Pick(2, 5, 2, 2, 1) {
	case 0:
		return nil
	case 1:
		n := g.R.Range(1, 24)
		b := make([]byte, n)
		for i := range b {
			b[i] = (c25Alnum + "_@-")[g.R.Intn(len(c25Alnum)+3)]
		}
		return b
	case 2: // digits: the decimal fields of the preimage can alias with these
		n := g.R.Range(1, 6)
		b := make([]byte, n)
		for i := range b {
			b[i] = byte('0' + g.R.Intn(10))
		}
		return b
	case 3:
		return g.R.Bytes(g.R.Range(1, 12))
	default:
		return g.R.Bytes(g.R.Range(13, 90))
	}
}

func c25PayloadLen(g *Gen, large int) int {
	switch g.R.Pick(6, 3, 1) {
	case 0:
		return g.R.Range(0, 80)
	case 1: // block boundaries
		return 16*g.R.Range(0, 40) + []int{0, 1, 15}[g.R.Intn(3)]
	default:
		return g.R.Range(81, large)
	}
}

func c25StdEncrypt(key, iv, padded []byte) []byte {
	blk, _ := aes.NewCipher(key[:16])
	out := make([]byte, len(padded))
	cipher.NewCBCEncrypter(blk, iv[:16]).CryptBlocks(out, padded)
	return out
}

func c25StdPad(p []byte) []byte {
	k := 16 - len(p)%16
	return append(append([]byte(nil), p...), bytes.Repeat([]byte{byte(k)}, k)...)
}

func genC25(g *Gen) {
	large := 3000
	if g.Tier == "thorough" {
		large = 20000
	}
	g.Case()
	// ---- directed sweep: every payload length 0..80, every padding value
	for n := 0; n <= 100; n++ {
		g.Op("pad", "%d 16", n)
	}
	for _, bs := range []int{1, 8, 32} {
		for n := 0; n <= 2*bs+1; n++ {
			g.Op("pad", "%d %d", n, bs)
		}
	}
	{
		key, iv := []byte("0123456789abcdef"), []byte("ABCDEFGHIJKLMNOP")
		for n := 0; n <= 80; n++ {
			p := g.R.Bytes(n)
			g.Count("enc:len0-80")
			g.Op("enc", "%s %s %s", Hex(key), Hex(iv), Hex(p))
			g.Op("dec", "%s %s %s", Hex(key), Hex(iv), Hex([]byte(base64.StdEncoding.EncodeToString(c25StdEncrypt(key, iv, c25StdPad(p))))))
			g.Op("send", "%s %s %s 0 0 %d %s %s %d 0 - %s none", Hex(key), Hex(iv), []string{"c", "k"}[n%2], n, Hex([]byte("no"+strconv.Itoa(n))), Hex([]byte("chan")), 1+n%2, Hex(p))
		}
	}
	{
		key, iv := []byte("0123456789abcdef"), []byte("ABCDEFGHIJKLMNOP")
		for _, n := range []int{0, 5, 16, 20} {
			p := g.R.Bytes(n)
			encLen := ((n/16+1)*16 + 2) / 3 * 4
			for k := 0; k < encLen; k++ {
				for _, mode := range []string{"c", "k"} {
					for _, kind := range []string{"t", "c"} {
						g.Count("send:prefix-sweep")
						g.Op("send", "%s %s %s 0 0 %d %s %s 1 0 - %s %s:payload:%d:%d", Hex(key), Hex(iv), mode, n, Hex([]byte("m1")), Hex([]byte("chan")), Hex(p), kind, k, k%8)
					}
				}
			}
		}
	}
	// per-session histories: genuine SEND, forged SENDs reusing its MsgKey with each covered field altered, genuine again
	for h := 0; h < 6+g.N/100; h++ {
		g.Case()
		g.Op("sopen", "%s %s", Hex(c25GoodKey(g, "key")), Hex(c25GoodKey(g, "iv")))
		for round := g.R.Range(1, 3); round > 0; round-- {
			g.Op("sgen", "%d %s %s %d %s", g.R.Intn(100000), Hex(c25Text(g)), Hex(c25Text(g)), g.R.Intn(256), Hex(g.R.Bytes(c25PayloadLen(g, 200))))
			if g.R.Chance(30) {
				g.Op("srep", "none")
			}
			for _, fld := range []string{"payload", "msgno", "chid", "seq", "chtype"} {
				if g.R.Chance(85) {
					kind := "f"
					if fld != "seq" && fld != "chtype" {
						kind = []string{"f", "f", "d", "i", "t"}[g.R.Intn(5)]
						if kind == "t" && fld != "payload" {
							kind = "i"
						}
					}
					g.Count("hist:replay-" + fld)
					g.Op("srep", "%s:%s:%d:%d", kind, fld, g.R.Intn(4096), g.R.Intn(256))
				}
			}
		}
		g.Op("sgen", "%d %s %s %d %s", g.R.Intn(100000), Hex(c25Text(g)), Hex(c25Text(g)), g.R.Intn(256), Hex(g.R.Bytes(c25PayloadLen(g, 200))))
	}
	g.Case()
	for i := 0; i < g.N; i++ {
		if i%200 == 199 {
			g.Case()
		}
		switch g.R.Pick(4, 14, 14, 18, 14, 30, 6, 8) {
		case 7:
			genC25Recv(g)
		case 0:
			g.Op("pad", "%d %d", c25PayloadLen(g, 1<<20), []int{16, 16, 16, 8, 32, 1}[g.R.Intn(6)])
		case 1:
			genC25Unpad(g)
		case 2:
			key, iv := c25Key(g, "key"), c25Key(g, "iv")
			n := c25PayloadLen(g, large)
			switch {
			case n <= 80:
				g.Count("enc:len0-80")
			case n%16 <= 1 || n%16 == 15:
				g.Count("enc:block-boundary")
			default:
				g.Count("enc:large")
			}
			g.Op("enc", "%s %s %s", Hex(key), Hex(iv), Hex(g.R.Bytes(n)))
		case 3:
			genC25Dec(g, large)
		case 4:
			key, iv := c25Key(g, "key"), c25Key(g, "iv")
			seq := g.R.BoundaryU64()
			g.Op("mk", "%s %s %d %s %s %d %s", Hex(key), Hex(iv), seq, Hex(c25Text(g)), Hex(c25Text(g)), g.R.Intn(256), Hex(g.R.Bytes(c25PayloadLen(g, 600))))
		case 5:
			genC25Send(g)
		default:
			v := []string{"ok", "ok", "ok", "ok", "badb64", "len31", "len33", "zero", "empty", "loworder1", "newline"}[g.R.Intn(11)]
			g.Count("neg:" + v)
			g.Op("neg", "%s %s", Hex(g.R.Bytes(32)), v)
		}
	}
}

func genC25Unpad(g *Gen) {
	bs := []int{16, 16, 16, 16, 8, 32}[g.R.Intn(6)]
	nblocks := g.R.Range(1, 5)
	var b []byte
	switch g.R.Pick(30, 10, 10, 15, 10, 5, 10, 10, 8) {
	case 8: // padding value just above the block size, but consistent (only the `padding > blockSize` guard rejects it)
		k := bs + g.R.Range(1, 2)
		nb := g.R.Range(2, 5)
		b = append(g.R.Bytes(nb*bs-k), bytes.Repeat([]byte{byte(k)}, k)...)
		g.Count("unpad:too-big-but-consistent")
	case 0: // valid padding k = 1..bs
		k := g.R.Range(1, bs)
		b = append(g.R.Bytes(nblocks*bs-k), bytes.Repeat([]byte{byte(k)}, k)...)
		g.Count("unpad:valid")
	case 1: // last byte 0
		b = g.R.Bytes(nblocks * bs)
		b[len(b)-1] = 0
		g.Count("unpad:last-zero")
	case 2: // last byte > bs
		b = g.R.Bytes(nblocks * bs)
		b[len(b)-1] = byte(g.R.Range(bs+1, 255))
		g.Count("unpad:last-too-big")
	case 3: // one padding byte wrong
		k := g.R.Range(2, bs)
		b = append(g.R.Bytes(nblocks*bs-k), bytes.Repeat([]byte{byte(k)}, k)...)
		j := len(b) - k + g.R.Intn(k-1) // never the last byte
		b[j] ^= byte(1 << uint(g.R.Intn(8)))
		g.Count("unpad:one-pad-byte-wrong")
	case 4: // the first padding byte (the boundary of the check loop) wrong
		k := g.R.Range(2, bs)
		b = append(g.R.Bytes(nblocks*bs-k), bytes.Repeat([]byte{byte(k)}, k)...)
		b[len(b)-k] ^= 0x80
		g.Count("unpad:first-pad-byte-wrong")
	case 5:
		b = nil
		g.Count("unpad:empty")
	case 6: // not a multiple of the block size
		n := nblocks*bs + g.R.Range(1, bs-1)
		b = g.R.Bytes(n)
		b[len(b)-1] = byte(g.R.Range(1, bs))
		g.Count("unpad:not-multiple")
	default: // a whole block of padding; the byte before the padding equal to k (must not be eaten)
		k := g.R.Range(1, bs)
		b = append(g.R.Bytes(nblocks*bs-k), bytes.Repeat([]byte{byte(k)}, k)...)
		if len(b) > k {
			b[len(b)-k-1] = byte(k)
		}
		g.Count("unpad:pad-value-before-padding")
	}
	g.Op("unpad", "%s %d", Hex(b), bs)
}

func genC25Dec(g *Gen, large int) {
	key, iv := c25Key(g, "key"), c25Key(g, "iv")
	kk, vv := key, iv
	if len(kk) < 16 {
		kk = append(append([]byte(nil), kk...), make([]byte, 16)...)
	}
	if len(vv) < 16 {
		vv = append(append([]byte(nil), vv...), make([]byte, 16)...)
	}
	p := g.R.Bytes(c25PayloadLen(g, large))
	padded := c25StdPad(p)
	kind := g.R.Pick(30, 8, 8, 8, 8, 8, 6, 6, 6, 6, 3, 3, 6)
	switch kind {
	case 12: // padding value 17/18, consistent: only the `padding > blockSize` guard rejects it
		k := g.R.Range(17, 18)
		padded = append(g.R.Bytes(16*g.R.Range(2, 4)-k), bytes.Repeat([]byte{byte(k)}, k)...)
		g.Count("dec:pad-too-big-consistent")
	case 1: // bad padding: last byte zero
		padded[len(padded)-1] = 0
		g.Count("dec:pad-last-zero")
	case 2:
		padded[len(padded)-1] = byte(g.R.Range(17, 255))
		g.Count("dec:pad-too-big")
	case 3: // inconsistent padding bytes
		k := g.R.Range(2, 16)
		padded = append(g.R.Bytes(16*g.R.Range(0, 3)+16-k), bytes.Repeat([]byte{byte(k)}, k)...)
		padded[len(padded)-k+g.R.Intn(k-1)] ^= byte(1 << uint(g.R.Intn(8)))
		g.Count("dec:pad-inconsistent")
	case 4: // a plaintext of whole blocks without any padding (ends in whatever)
		padded = g.R.Bytes(16 * g.R.Range(1, 4))
		g.Count("dec:no-padding")
	}
	raw := c25StdEncrypt(kk, vv, padded)
	text := []byte(base64.StdEncoding.EncodeToString(raw))
	switch kind {
	case 0:
		g.Count("dec:valid")
	case 5: // raw length not a multiple of 16
		raw = raw[:len(raw)-g.R.Range(1, 15)]
		text = []byte(base64.StdEncoding.EncodeToString(raw))
		g.Count("dec:raw-not-multiple")
	case 6: // an illegal character
		text[g.R.Intn(len(text))] = []byte("!*-_ \x00\xff~")[g.R.Intn(8)]
		g.Count("dec:b64-bad-char")
	case 7: // newlines are skipped by Go's decoder: still valid
		j := g.R.Intn(len(text) + 1)
		text = append(append(append([]byte(nil), text[:j]...), []byte{'\n', '\r', '\n'}[:g.R.Range(1, 3)]...), text[j:]...)
		g.Count("dec:b64-newline")
	case 8: // truncated text / padding damaged
		text = text[:len(text)-g.R.Range(1, 3)]
		g.Count("dec:b64-truncated")
	case 9: // one bit of the text flipped
		j := g.R.Intn(len(text))
		text[j] ^= byte(1 << uint(g.R.Intn(8)))
		g.Count("dec:b64-bitflip")
	case 10:
		text = nil
		g.Count("dec:empty")
	case 11: // trailing garbage after the padding, padding in the middle
		text = append(text, []string{"=", "A", "==", "\n", "AAAA"}[g.R.Intn(5)]...)
		g.Count("dec:b64-trailing")
	}
	g.Op("dec", "%s %s %s", Hex(key), Hex(iv), Hex(text))
}

func genC25Recv(g *Gen) {
	key, iv := c25GoodKey(g, "key"), c25GoodKey(g, "iv")
	mode := []string{"c", "c", "k", "n"}[g.R.Intn(4)]
	setting := []int{0, 0, 0, 16}[g.R.Intn(4)]
	mid := int64(g.R.BoundaryU64())
	ts := int32(g.R.BoundaryU64())
	g.Count("recv:mode-" + mode)
	if mid < 0 || ts < 0 {
		g.Count("recv:negative-decimal")
	}
	g.Op("recv", "%s %s %s %d %d %d %s %d %s %s %d %s", Hex(key), Hex(iv), mode, setting, mid, uint32(g.R.BoundaryU64()), Hex(c25Text(g)), ts, Hex(c25Text(g)), Hex(c25Text(g)), g.R.Intn(256), Hex(g.R.Bytes(c25PayloadLen(g, 600))))
}

var c25Tampers = []string{"payload", "msgkey", "msgno", "chid", "seq", "chtype"}

func genC25Send(g *Gen) {
	key, iv := c25GoodKey(g, "key"), c25GoodKey(g, "iv")
	mode := []string{"c", "k", "c", "k", "c", "k", "c", "k", "n", "e"}[g.R.Intn(10)]
	ver := []int{0, 5, 6}[g.R.Intn(3)]
	setting := []int{0, 0, 0, 0, 0, 8, 8, 16, 24}[g.R.Intn(9)]
	var seq uint64
	switch g.R.Pick(6, 2, 1, 1) {
	case 0:
		seq = uint64(g.R.Intn(100000))
	case 1:
		seq = uint64(uint32(g.R.BoundaryU64()))
	case 2:
		seq = 0xFFFFFFFF
	default:
		seq = g.R.BoundaryU64() // may exceed 32 bits: the wire truncates, validation must fail
	}
	msgno, chid, topic := c25Text(g), c25Text(g), c25Text(g)
	payload := g.R.Bytes(c25PayloadLen(g, 1500))
	var tamper string
	switch g.R.Pick(20, 55, 14, 6, 6) {
	case 0:
		tamper = "none"
	case 1: // single bit flip of a covered field / ciphertext / msg key
		f := c25Tampers[g.R.Intn(len(c25Tampers))]
		bit := g.R.Intn(32)
		if g.R.Chance(25) {
			bit = 5 // the ASCII case bit: 'a'..'f' <-> 'A'..'F' in the hex msg key, upper/lower case in ids and base64 text
		}
		tamper = fmt.Sprintf("f:%s:%d:%d", f, g.R.Intn(4096), bit)
	case 2: // single byte deleted / inserted, ciphertext truncated to a prefix (incl. nothing)
		f := c25Tampers[g.R.Intn(4)]
		if g.R.Chance(40) {
			k := g.R.Intn(4096)
			if g.R.Chance(40) {
				k = 0
			}
			tamper = fmt.Sprintf("%s:payload:%d:%d", []string{"t", "c"}[g.R.Intn(2)], k, g.R.Intn(8))
		} else if g.R.Bool() {
			tamper = fmt.Sprintf("d:%s:%d:0", f, g.R.Intn(4096))
		} else {
			tamper = fmt.Sprintf("i:%s:%d:%d", f, g.R.Intn(4096), []int{'0', '1', 'A', '=', '\n', 0, 255, g.R.Intn(256)}[g.R.Intn(8)])
		}
	case 3: // joint perturbation that keeps the preimage (outside the property's quantifier, kept visible)
		tamper = "shift"
	default: // fields the msg key does not cover
		tamper = fmt.Sprintf("f:%s:%d:%d", []string{"expire", "topic"}[g.R.Intn(2)], g.R.Intn(64), g.R.Intn(32))
	}
	g.Count("send:mode-" + mode)
	g.Count("send:tamper-" + strings.SplitN(strings.TrimPrefix(strings.TrimPrefix(strings.TrimPrefix(strings.TrimPrefix(strings.TrimPrefix(tamper, "f:"), "d:"), "i:"), "t:"), "c:"), ":", 2)[0] + map[byte]string{'f': "-flip", 'd': "-del", 'i': "-ins", 't': "-trunc", 'c': "-trunc+forged"}[tamper[0]])
	if setting&16 != 0 {
		g.Count("send:noencrypt-bit")
	}
	if seq > 0xFFFFFFFF {
		g.Count("send:seq>u32")
	}
	g.Op("send", "%s %s %s %d %d %d %s %s %d %d %s %s %s", Hex(key), Hex(iv), mode, ver, setting, seq, Hex(msgno), Hex(chid), g.R.Intn(256), uint32(g.R.BoundaryU64()), Hex(topic), Hex(payload), tamper)
}

// --------------------------------------------------------------------- runner

// per-case state of the session histories (sopen / sgen / srep)
type c25Runner struct {
	sess   session.Session
	keys   penc.SessionKeys
	sealed *frame.SendPacket // the last genuine packet as it went on the wire
}

func (*c25Runner) Close() {}

func c25Err(err error) string {
	var ce base64.CorruptInputError
	switch {
	case errors.Is(err, penc.ErrMissingSessionKey):
		return "err:missingkey"
	case errors.Is(err, penc.ErrMsgKeyMismatch):
		return "err:mismatch"
	case errors.Is(err, penc.ErrInvalidPublicKey):
		return "err:invalidpub"
	case errors.As(err, &ce):
		return "err:b64"
	default:
		return "err:other"
	}
}

func c25U(s string, bits int) (uint64, bool) {
	v, err := strconv.ParseUint(s, 10, bits)
	return v, err == nil
}

// applyBytesTamper is mirrored exactly by the Lean driver.
func c25TamperBytes(kind byte, b []byte, idx, arg int) []byte {
	out := append([]byte(nil), b...)
	switch kind {
	case 'f':
		if len(out) == 0 {
			return out
		}
		out[idx%len(out)] ^= byte(1 << uint(arg%8))
	case 'd':
		if len(out) == 0 {
			return out
		}
		j := idx % len(out)
		out = append(out[:j], out[j+1:]...)
	case 't', 'c': // keep a strict prefix (possibly nothing)
		if len(out) == 0 {
			return out
		}
		out = out[:idx%len(out)]
	case 'i':
		j := idx % (len(out) + 1)
		out = append(out[:j], append([]byte{byte(arg)}, out[j:]...)...)
	}
	return out
}

func (r *c25Runner) Step(op string) string {
	f := strings.Fields(op)
	if len(f) == 0 {
		return "bad-op"
	}
	switch f[0] {
	case "pad":
		if len(f) != 3 {
			return "bad-op"
		}
		n, ok1 := c25U(f[1], 31)
		bs, ok2 := c25U(f[2], 16)
		if !ok1 || !ok2 || bs == 0 {
			return "bad-op"
		}
		return strconv.Itoa(penc.VerifPaddingSize(int(n), int(bs)))
	case "unpad":
		if len(f) != 3 {
			return "bad-op"
		}
		bs, ok := c25U(f[2], 16)
		if !ok || bs == 0 {
			return "bad-op"
		}
		in := UnHex(f[1])
		keep := append([]byte(nil), in...)
		out, err := penc.VerifUnpadView(in, int(bs))
		if err != nil {
			return c25Err(err)
		}
		if !bytes.Equal(in, keep) {
			return "ok " + Hex(out) + " input-mutated"
		}
		return "ok " + Hex(out)
	case "enc":
		if len(f) != 4 {
			return "bad-op"
		}
		keys := penc.SessionKeys{AESKey: UnHex(f[1]), AESIV: UnHex(f[2])}
		payload := UnHex(f[3])
		keep := append([]byte(nil), payload...)
		sc, tr, err := penc.VerifTracedCrypto(keys)
		if err != nil {
			if _, err2 := gwenc.EncryptPayload(payload, keys); c25Err(err2) != c25Err(err) {
				return c25Err(err) + " pub=0"
			}
			return c25Err(err)
		}
		out, err := penc.EncryptPayloadWithCrypto(payload, sc)
		if err != nil {
			return c25Err(err)
		}
		pub, err := gwenc.EncryptPayload(payload, keys)
		same := err == nil && bytes.Equal(pub, out) && bytes.Equal(payload, keep)
		rt := ""
		if plain, err := gwenc.DecryptPayload(out, keys); err != nil {
			rt = c25Err(err)
		} else {
			rt = Hex(plain)
		}
		return fmt.Sprintf("ok ein=%s eout=%s out=%s rt=%s pub=%s", Hex(tr.EncIn), Hex(tr.EncOut), Hex(out), rt, c25B(same))
	case "dec":
		if len(f) != 4 {
			return "bad-op"
		}
		keys := penc.SessionKeys{AESKey: UnHex(f[1]), AESIV: UnHex(f[2])}
		text := UnHex(f[3])
		keep := append([]byte(nil), text...)
		sc, tr, err := penc.VerifTracedCrypto(keys)
		if err != nil {
			return c25Err(err) + " din=- dout=-"
		}
		plain, err := penc.DecryptPayloadWithCrypto(text, sc)
		plain2, err2 := gwenc.DecryptPayload(keep, keys)
		same := (err == nil) == (err2 == nil) && bytes.Equal(plain, plain2) && (err == nil || c25Err(err) == c25Err(err2)) && bytes.Equal(text, keep)
		if err != nil {
			return fmt.Sprintf("%s din=%s dout=%s pub=%s", c25Err(err), Hex(tr.DecIn), Hex(tr.DecOut), c25B(same))
		}
		return fmt.Sprintf("ok din=%s dout=%s plain=%s pub=%s", Hex(tr.DecIn), Hex(tr.DecOut), Hex(plain), c25B(same))
	case "mk":
		if len(f) != 8 {
			return "bad-op"
		}
		keys := penc.SessionKeys{AESKey: UnHex(f[1]), AESIV: UnHex(f[2])}
		seq, ok1 := c25U(f[3], 64)
		ct, ok2 := c25U(f[6], 8)
		if !ok1 || !ok2 {
			return "bad-op"
		}
		pkt := &frame.SendPacket{ClientSeq: seq, ClientMsgNo: string(UnHex(f[4])), ChannelID: string(UnHex(f[5])), ChannelType: uint8(ct), Payload: UnHex(f[7])}
		sc, tr, err := penc.VerifTracedCrypto(keys)
		if err != nil {
			if _, err2 := gwenc.SendMsgKey(pkt, keys); c25Err(err2) != c25Err(err) {
				return c25Err(err) + " pub=0"
			}
			return c25Err(err)
		}
		k, err := penc.SendMsgKeyWithCrypto(pkt, sc)
		if err != nil {
			return c25Err(err)
		}
		k2, err2 := gwenc.SendMsgKey(pkt, keys)
		// the genuine key validates, through both entry points
		pkt.MsgKey = k
		v1 := gwenc.ValidateSendPacket(pkt, keys)
		sc2, _ := gwenc.NewSessionCrypto(keys)
		v2 := gwenc.ValidateSendPacketWithCrypto(pkt, sc2)
		return fmt.Sprintf("ok ein=%s eout=%s key=%s pub=%s", Hex(tr.EncIn), Hex(tr.EncOut), Hex([]byte(k)), c25B(err2 == nil && k2 == k && v1 == nil && v2 == nil))
	case "send":
		suffix := ""
		out := c25Send(f, &suffix)
		if out == "bad-op" {
			return out
		}
		return out + suffix
	case "neg":
		return c25Neg(f)
	case "recv":
		return c25Recv(f)
	case "sopen", "sgen", "srep":
		return r.history(f)
	}
	return "bad-op"
}

func c25B(b bool) string {
	if b {
		return "1"
	}
	return "0"
}

func c25Send(f []string, suffix *string) string {
	if len(f) != 14 {
		return "bad-op"
	}
	keys := penc.SessionKeys{AESKey: UnHex(f[1]), AESIV: UnHex(f[2])}
	mode := f[3]
	ver, ok0 := c25U(f[4], 8)
	setting, ok1 := c25U(f[5], 8)
	seq, ok2 := c25U(f[6], 64)
	chtype, ok3 := c25U(f[9], 8)
	expire, ok4 := c25U(f[10], 32)
	if !ok0 || !ok1 || !ok2 || !ok3 || !ok4 || (mode != "c" && mode != "k" && mode != "n" && mode != "e") || (ver != 0 && ver != 5 && ver != 6) || setting&^24 != 0 {
		return "bad-op"
	}
	if len(keys.AESKey) < 16 || len(keys.AESIV) < 16 {
		return "bad-op"
	}
	payload := UnHex(f[12])
	pkt := &frame.SendPacket{
		Setting: frame.Setting(setting), ClientSeq: seq, ClientMsgNo: string(UnHex(f[7])), ChannelID: string(UnHex(f[8])),
		ChannelType: uint8(chtype), Expire: uint32(expire), Topic: string(UnHex(f[11])), Payload: payload,
	}
	// ---- client side (real API)
	if setting&uint64(frame.SettingNoEncrypt) == 0 && mode != "n" {
		enc, err := gwenc.EncryptPayload(payload, keys)
		if err != nil {
			return "err:client-encrypt"
		}
		pkt.Payload = enc
		mk, err := gwenc.SendMsgKey(pkt, keys)
		if err != nil {
			return "err:client-msgkey"
		}
		pkt.MsgKey = mk
		*suffix = fmt.Sprintf(" enc=%s mk=%s", Hex(enc), Hex([]byte(mk)))
	}
	// ---- the perturbation
	t := f[13]
	switch {
	case t == "none":
	case t == "shift":
		if n := len(pkt.ClientMsgNo); n > 0 {
			pkt.ChannelID = pkt.ClientMsgNo[n-1:] + pkt.ChannelID
			pkt.ClientMsgNo = pkt.ClientMsgNo[:n-1]
		}
	default:
		p := strings.Split(t, ":")
		if len(p) != 4 || len(p[0]) != 1 || !strings.Contains("fditc", p[0]) || ((p[0] == "t" || p[0] == "c") && p[1] != "payload") {
			return "bad-op"
		}
		idx, e1 := strconv.Atoi(p[2])
		arg, e2 := strconv.Atoi(p[3])
		if e1 != nil || e2 != nil || idx < 0 || arg < 0 || arg > 255 {
			return "bad-op"
		}
		k := p[0][0]
		switch p[1] {
		case "payload":
			pkt.Payload = c25TamperBytes(k, pkt.Payload, idx, arg)
			if k == 'c' { // combined: truncated ciphertext + forged msg key + altered channel id
				if len(pkt.MsgKey) > 0 {
					mk := []byte(pkt.MsgKey)
					mk[0] ^= byte(1 << uint(arg%8))
					pkt.MsgKey = string(mk)
				}
				pkt.ChannelID += "X"
			}
		case "msgkey":
			pkt.MsgKey = string(c25TamperBytes(k, []byte(pkt.MsgKey), idx, arg))
		case "msgno":
			pkt.ClientMsgNo = string(c25TamperBytes(k, []byte(pkt.ClientMsgNo), idx, arg))
		case "chid":
			pkt.ChannelID = string(c25TamperBytes(k, []byte(pkt.ChannelID), idx, arg))
		case "topic":
			pkt.Topic = string(c25TamperBytes(k, []byte(pkt.Topic), idx, arg))
		case "seq":
			if k != 'f' {
				return "bad-op"
			}
			pkt.ClientSeq ^= 1 << uint(arg%32)
		case "chtype":
			if k != 'f' {
				return "bad-op"
			}
			pkt.ChannelType ^= 1 << uint(arg%8)
		case "expire":
			if k != 'f' {
				return "bad-op"
			}
			pkt.Expire ^= 1 << uint(arg%32)
		default:
			return "bad-op"
		}
	}
	// ---- the wire and the server side (real codec, real gateway adapter)
	encVer := uint8(ver)
	if ver == 0 {
		encVer = frame.LatestVersion
	}
	wire, err := codec.New().EncodeFrame(pkt, encVer)
	if err != nil {
		return "err:client-encode"
	}
	sess := session.New(session.Config{ID: 1, Listener: "verif", RemoteAddr: "r", LocalAddr: "l"})
	if ver != 0 {
		sess.SetValue(gatewaytypes.SessionValueProtocolVersion, uint8(ver))
	}
	switch mode {
	case "c":
		sc, err := gwenc.NewSessionCrypto(keys)
		if err != nil {
			return "err:setup"
		}
		sess.SetValue(gatewaytypes.SessionValueEncryptionEnabled, true)
		sess.SetValue(gatewaytypes.SessionValueAESKey, keys.AESKey)
		sess.SetValue(gatewaytypes.SessionValueAESIV, keys.AESIV)
		sess.SetValue(gatewaytypes.SessionValueCrypto, sc)
	case "k":
		sess.SetValue(gatewaytypes.SessionValueEncryptionEnabled, true)
		sess.SetValue(gatewaytypes.SessionValueAESKey, keys.AESKey)
		sess.SetValue(gatewaytypes.SessionValueAESIV, string(keys.AESIV)) // the string branch of bytesValue
	case "e":
		sess.SetValue(gatewaytypes.SessionValueEncryptionEnabled, true)
	}
	frames, consumed, err := gwadapter.New().Decode(sess, wire)
	if err != nil {
		return c25Err(err)
	}
	if len(frames) != 1 || consumed != len(wire) {
		return fmt.Sprintf("err:frames=%d consumed=%d/%d", len(frames), consumed, len(wire))
	}
	got, ok := frames[0].(*frame.SendPacket)
	if !ok {
		return "err:not-a-send"
	}
	return fmt.Sprintf("ok seq=%d msgno=%s chid=%s chtype=%d expire=%d topic=%s payload=%s", got.ClientSeq, Hex([]byte(got.ClientMsgNo)), Hex([]byte(got.ChannelID)), got.ChannelType, got.Expire, Hex([]byte(got.Topic)), Hex(got.Payload))
}

func c25Neg(f []string) string {
	if len(f) != 3 {
		return "bad-op"
	}
	pb := UnHex(f[1])
	if len(pb) != 32 {
		return "bad-op"
	}
	var priv, pub [32]byte
	copy(priv[:], pb)
	p, err := curve25519.X25519(priv[:], curve25519.Basepoint)
	if err != nil {
		return "bad-op"
	}
	copy(pub[:], p)
	clientKey := gwenc.EncodePublicKey(pub)
	switch f[2] {
	case "ok":
	case "badb64":
		clientKey = "*" + clientKey[1:]
	case "len31":
		clientKey = base64.StdEncoding.EncodeToString(pub[:31])
	case "len33":
		clientKey = base64.StdEncoding.EncodeToString(append(pub[:], 7))
	case "zero":
		clientKey = base64.StdEncoding.EncodeToString(make([]byte, 32))
	case "loworder1":
		one := make([]byte, 32)
		one[0] = 1
		clientKey = base64.StdEncoding.EncodeToString(one)
	case "empty":
		clientKey = ""
	case "newline": // Go's decoder skips newlines: accepted
		clientKey = clientKey[:10] + "\n" + clientKey[10:]
	default:
		return "bad-op"
	}
	// oracle for the abstract dh: does X25519 accept this point at all (low-order points are rejected for every scalar)
	dhok := "-"
	if dec, err := base64.StdEncoding.DecodeString(clientKey); err == nil && len(dec) == 32 {
		_, e := curve25519.X25519(priv[:], dec)
		dhok = c25B(e == nil)
	}
	keys, serverKey, err := gwenc.NegotiateServerSession(clientKey)
	if err != nil {
		return fmt.Sprintf("%s ckey=%s dhok=%s", c25Err(err), Hex([]byte(clientKey)), dhok)
	}
	ck, err := gwenc.DeriveClientSession(priv, serverKey, string(keys.AESIV))
	if err != nil {
		return "err:client-derive " + c25Err(err)
	}
	spub, err := gwenc.DecodePublicKey(serverKey)
	if err != nil {
		return "err:server-key-undecodable"
	}
	secret, err := penc.VerifSharedSecret(priv, spub)
	if err != nil {
		return "err:client-secret"
	}
	// both sides can talk: client seals, server opens, through the public API
	msg := []byte("both sides derive the same keys")
	sealed, e1 := gwenc.EncryptPayload(msg, ck)
	opened, e2 := gwenc.DecryptPayload(sealed, keys)
	talk := e1 == nil && e2 == nil && bytes.Equal(opened, msg)
	return fmt.Sprintf("ok ckey=%s dhok=%s secret=%s skey=%s siv=%s ckey2=%s civ=%s talk=%s", Hex([]byte(clientKey)), dhok, Hex(secret), Hex(keys.AESKey), Hex(keys.AESIV), Hex(ck.AESKey), Hex(ck.AESIV), c25B(talk))
}

func c25Recv(f []string) string {
	if len(f) != 13 {
		return "bad-op"
	}
	keys := penc.SessionKeys{AESKey: UnHex(f[1]), AESIV: UnHex(f[2])}
	mode := f[3]
	setting, ok1 := c25U(f[4], 8)
	mid, err := strconv.ParseInt(f[5], 10, 64)
	mseq, ok2 := c25U(f[6], 32)
	ts, err2 := strconv.ParseInt(f[8], 10, 32)
	chtype, ok3 := c25U(f[11], 8)
	if !ok1 || !ok2 || !ok3 || err != nil || err2 != nil || (mode != "c" && mode != "k" && mode != "n") || (setting != 0 && setting != 16) || len(keys.AESKey) < 16 || len(keys.AESIV) < 16 {
		return "bad-op"
	}
	payload := UnHex(f[12])
	keep := append([]byte(nil), payload...)
	pkt := &frame.RecvPacket{Setting: frame.Setting(setting), MessageID: mid, MessageSeq: mseq, ClientMsgNo: string(UnHex(f[7])), Timestamp: int32(ts),
		FromUID: string(UnHex(f[9])), ChannelID: string(UnHex(f[10])), ChannelType: uint8(chtype), Payload: payload}
	sess := session.New(session.Config{ID: 1, Listener: "verif", RemoteAddr: "r", LocalAddr: "l"})
	var tr *penc.VerifTrace
	switch mode {
	case "c":
		sc, t, err := penc.VerifTracedCrypto(keys)
		if err != nil {
			return "err:setup"
		}
		tr = t
		sess.SetValue(gatewaytypes.SessionValueEncryptionEnabled, true)
		sess.SetValue(gatewaytypes.SessionValueCrypto, sc)
	case "k":
		sess.SetValue(gatewaytypes.SessionValueEncryptionEnabled, true)
		sess.SetValue(gatewaytypes.SessionValueAESKey, string(keys.AESKey))
		sess.SetValue(gatewaytypes.SessionValueAESIV, keys.AESIV)
	}
	wire, err := gwadapter.New().Encode(sess, pkt, session.OutboundMeta{})
	if err != nil {
		return c25Err(err)
	}
	if !bytes.Equal(pkt.Payload, keep) || pkt.MsgKey != "" {
		return "err:input-packet-mutated"
	}
	fr, n, err := codec.New().DecodeFrame(wire, frame.LegacyMessageSeqVersion)
	if err != nil || n != len(wire) {
		return "err:client-decode"
	}
	got, ok := fr.(*frame.RecvPacket)
	if !ok {
		return "err:not-a-recv"
	}
	sealed := mode != "n" && setting&16 == 0
	pl := Hex(got.Payload)
	if sealed {
		plain, err := gwenc.DecryptPayload(got.Payload, keys)
		if err != nil {
			pl = c25Err(err)
		} else {
			pl = Hex(plain)
		}
	}
	out := fmt.Sprintf("ok pl=%s mk=%s enc=%s", pl, Hex([]byte(got.MsgKey)), Hex(got.Payload))
	if tr == nil && sealed {
		// keys-only path: SealRecvPacket builds its own cipher.  The AES oracle for the model is taken from a side run of
		// the traced path on a copy of the packet (same key => same block function); the keys-path OUTPUT above is what is compared.
		if sc, t, err := penc.VerifTracedCrypto(keys); err == nil {
			cp := *pkt
			if _, err := penc.SealRecvPacketWithCrypto(&cp, sc); err == nil {
				tr = t
			}
		}
	}
	if tr != nil && sealed {
		out += fmt.Sprintf(" ein=%s eout=%s", Hex(tr.EncIn), Hex(tr.EncOut))
	}
	return out
}

// deliver puts one packet on the wire and through the real gateway adapter on the given session.
func c25Deliver(sess session.Session, pkt *frame.SendPacket) string {
	wire, err := codec.New().EncodeFrame(pkt, frame.LatestVersion)
	if err != nil {
		return "err:client-encode"
	}
	frames, consumed, err := gwadapter.New().Decode(sess, wire)
	if err != nil {
		return c25Err(err)
	}
	if len(frames) != 1 || consumed != len(wire) {
		return fmt.Sprintf("err:frames=%d consumed=%d/%d", len(frames), consumed, len(wire))
	}
	got, ok := frames[0].(*frame.SendPacket)
	if !ok {
		return "err:not-a-send"
	}
	return fmt.Sprintf("ok seq=%d msgno=%s chid=%s chtype=%d expire=%d topic=%s payload=%s", got.ClientSeq, Hex([]byte(got.ClientMsgNo)), Hex([]byte(got.ChannelID)), got.ChannelType, got.Expire, Hex([]byte(got.Topic)), Hex(got.Payload))
}

func (r *c25Runner) history(f []string) string {
	switch f[0] {
	case "sopen":
		if len(f) != 3 {
			return "bad-op"
		}
		keys := penc.SessionKeys{AESKey: UnHex(f[1]), AESIV: UnHex(f[2])}
		sc, err := gwenc.NewSessionCrypto(keys)
		if err != nil {
			return "bad-op"
		}
		sess := session.New(session.Config{ID: 1, Listener: "verif", RemoteAddr: "r", LocalAddr: "l"})
		sess.SetValue(gatewaytypes.SessionValueEncryptionEnabled, true)
		sess.SetValue(gatewaytypes.SessionValueAESKey, keys.AESKey)
		sess.SetValue(gatewaytypes.SessionValueAESIV, keys.AESIV)
		sess.SetValue(gatewaytypes.SessionValueCrypto, sc)
		r.sess, r.keys, r.sealed = sess, keys, nil
		return "ok"
	case "sgen":
		if len(f) != 6 {
			return "bad-op"
		}
		seq, ok1 := c25U(f[1], 32)
		ct, ok2 := c25U(f[4], 8)
		if !ok1 || !ok2 {
			return "bad-op"
		}
		if r.sess == nil {
			return "err:no-session"
		}
		pkt := &frame.SendPacket{ClientSeq: seq, ClientMsgNo: string(UnHex(f[2])), ChannelID: string(UnHex(f[3])), ChannelType: uint8(ct)}
		enc, err := gwenc.EncryptPayload(UnHex(f[5]), r.keys)
		if err != nil {
			return "err:client-encrypt"
		}
		pkt.Payload = enc
		mk, err := gwenc.SendMsgKey(pkt, r.keys)
		if err != nil {
			return "err:client-msgkey"
		}
		pkt.MsgKey = mk
		cp := *pkt
		cp.Payload = append([]byte(nil), enc...)
		r.sealed = &cp
		return c25Deliver(r.sess, pkt) + fmt.Sprintf(" enc=%s mk=%s", Hex(enc), Hex([]byte(mk)))
	default: // srep
		if len(f) != 2 {
			return "bad-op"
		}
		if r.sess == nil {
			return "err:no-session"
		}
		if r.sealed == nil {
			return "err:no-genuine"
		}
		pkt := *r.sealed
		pkt.Payload = append([]byte(nil), r.sealed.Payload...)
		if f[1] != "none" {
			p := strings.Split(f[1], ":")
			if len(p) != 4 || len(p[0]) != 1 || !strings.Contains("fdit", p[0]) || (p[0] == "t" && p[1] != "payload") {
				return "bad-op"
			}
			idx, e1 := strconv.Atoi(p[2])
			arg, e2 := strconv.Atoi(p[3])
			if e1 != nil || e2 != nil || idx < 0 || arg < 0 || arg > 255 {
				return "bad-op"
			}
			k := p[0][0]
			switch p[1] {
			case "payload":
				pkt.Payload = c25TamperBytes(k, pkt.Payload, idx, arg)
			case "msgno":
				pkt.ClientMsgNo = string(c25TamperBytes(k, []byte(pkt.ClientMsgNo), idx, arg))
			case "chid":
				pkt.ChannelID = string(c25TamperBytes(k, []byte(pkt.ChannelID), idx, arg))
			case "seq":
				if k != 'f' {
					return "bad-op"
				}
				pkt.ClientSeq ^= 1 << uint(arg%32)
			case "chtype":
				if k != 'f' {
					return "bad-op"
				}
				pkt.ChannelType ^= 1 << uint(arg%8)
			default:
				return "bad-op"
			}
		}
		return c25Deliver(r.sess, &pkt)
	}
}

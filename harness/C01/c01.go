//go:build verif

package main

// C01 — acknowledged appends survive failover and crashes.  Generator biased
// towards bare-quorum commits followed by a leader change whose probe reaches
// exactly Q voters (the §8.1 class) and towards crash/restart.
func init() {
	Register(&Prop{Gen: replGen(replGenParams{
		name: "C01", pInstall: 26, pCommit: 48, pCrash: 13, pRestart: 13,
		pRetryExact: 10, pRetryConfl: 5, pStaleAuth: 6, pEqualAuth: 12, pFenced: 4,
		pScenario: 45, pSmallCap: 20, maxOps: 22, pWrongExpect: 6,
		pBareQuorum: 32, pLostAcks: 12, pMinorityResp: 34,
		pRepair: 4, pMdb: 8, pSameTerm: 3,
	}), NewRunner: func() Runner { return newReplRunner() }})
}

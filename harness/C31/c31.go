//go:build verif

// C31 — Online delivery preserves per-channel order and recipient coverage.
//
// D tie: the REAL delivery.Runtime (orderedPlanQueue shards, workers, processPlan,
// pushWithRetry, pushOwnerLocal with the real AckTracker, Stop drain) fed through
// the REAL channelappend.dispatchRecipientPlans (plan packing) with fake presence,
// remote-owner and local-session ports that fail at random.  All port calls are
// logged under one mutex; the Lean driver judges the trace.
//
// ops of a case:
//   cfg <workers> <queue> <batch> <ownerbatch> <ownerconc> <retrymax> <nusers> <wseed>
//        -> "ok <uid>=<node>.<sess>+<node>.<sess>,<uid>=,..."   (the static presence world)
//   phase <pseed> <nch> <nmsg> <fanout> <presfail%> <wfail%> <rfail%> <lat_us> <transient%> <act>
//        act 1 = Stop concurrently at a random point
//   longid <mb>
//        steered admission window: orderedPlanQueue.enqueue hashes the channel id AFTER its last
//        admission re-check, so a plan with a <mb>-megabyte channel id keeps its sender inside the
//        admission window for milliseconds; Stop is called in the middle of it.  Timing only decides
//        whether the window is hit (verdict-neutral).  Must be the last op before fin.
//   fin  -> Stop (watchdog) ; remaining events
// events:
//   N:<msg>:<ch>:<seq>:<mode>:<fromuid>:<snode>:<ssess>:<uid.uid>   message about to be dispatched to these recipients
//   E:<msg>:<res>:<g>/<uid>.<uid>;<g>/<uid>                 plan handed to EnqueueRecipientDeliveryPlan (res 1 accepted)
//   Q:<msg>:<g>:<res>:<uid>.<uid>                           presence answer for one target batch (res 1 ok)
//   W:<msg>:<uid>:<node>:<sess>:<disp>                      local session write (1 accepted 2 retryable 3 dropped)
//   R:<msg>:<owner>:<res>:<uid>.<node>.<sess>.<disp>,...    remote owner push (res 1 ok, 0 transport error)
//   F:<msg>:<uid>.<uid>                                     offline recipients report
//   T0 / T1:<1|0>                                           Stop called / returned (1 = nil)
package main

import (
	"context"
	"errors"
	"fmt"
	"os"
	"runtime"
	"strconv"
	"strings"
	"sync"
	"sync/atomic"
	"time"

	"github.com/WuKongIM/WuKongIM/internal/contracts/authority"
	channelappendcontract "github.com/WuKongIM/WuKongIM/internal/contracts/channelappend"
	"github.com/WuKongIM/WuKongIM/internal/contracts/onlinedelivery"
	"github.com/WuKongIM/WuKongIM/internal/runtime/channelappend"
	"github.com/WuKongIM/WuKongIM/internal/runtime/delivery"
)

func init() {
	Register(&Prop{Gen: genC31, NewRunner: func() Runner { return &c31Runner{} }})
}

func genC31(g *Gen) {
	for k := 0; k < 6; k++ { // steered: Stop while a sender is inside the admission window
		g.Case()
		g.Count("case:steered-stop-in-admission-window")
		g.Op("cfg", "%d %d %d %d %d %d %d %d", g.R.Range(1, 4), 64, 8, 256, 2, 2, g.R.Range(2, 6), g.R.U64()>>1)
		if g.R.Chance(50) {
			g.Op("phase", "%d %d %d %d %d %d %d %d %d %d", g.R.U64()>>1, 2, 3, 4, 0, 0, 0, 0, 0, 0)
		}
		g.Op("longid", "%d", []int{16, 32, 48}[k%3])
		g.Op("fin", "")
	}
	for c := 0; c < g.N; c++ {
		g.Case()
		workers := []int{1, 2, 2, 3, 4}[g.R.Intn(5)]
		queue := []int{1, 2, 4, 64}[g.R.Intn(4)]
		if queue <= 2 {
			g.Count("cfg:queue-tight")
		}
		batch := []int{1, 2, 3, 8, 256}[g.R.Intn(5)]
		if batch <= 3 {
			g.Count("cfg:plan-split")
		}
		ownerbatch := []int{1, 2, 256}[g.R.Intn(3)]
		if ownerbatch <= 2 {
			g.Count("cfg:owner-batch-split")
		}
		ownerconc := g.R.Range(1, 3)
		retrymax := g.R.Range(1, 4)
		if retrymax == 1 {
			g.Count("cfg:no-retry")
		}
		nusers := g.R.Range(2, 12)
		g.Op("cfg", "%d %d %d %d %d %d %d %d", workers, queue, batch, ownerbatch, ownerconc, retrymax, nusers, g.R.U64()>>1)
		nph := g.R.Range(1, 2)
		stopped := false
		for p := 0; p < nph; p++ {
			calm := g.R.Chance(30)
			presfail, wfail, rfail := 0, 0, 0
			if !calm {
				presfail = []int{0, 0, 10, 30}[g.R.Intn(4)]
				wfail = []int{0, 10, 30, 60}[g.R.Intn(4)]
				rfail = []int{0, 10, 30}[g.R.Intn(3)]
			} else {
				g.Count("phase:calm")
			}
			if presfail > 0 {
				g.Count("phase:presence-failures")
			}
			if wfail > 0 {
				g.Count("phase:session-write-failures")
			}
			if rfail > 0 {
				g.Count("phase:remote-owner-failures")
			}
			lat := []int{0, 0, 50, 300}[g.R.Intn(4)]
			trans := []int{0, 0, 30}[g.R.Intn(3)]
			act := 0
			if !stopped && g.R.Chance(15) {
				act = 1
				stopped = true
				g.Count("phase:stop-mid")
			} else if stopped {
				g.Count("phase:after-stop")
			}
			g.Op("phase", "%d %d %d %d %d %d %d %d %d %d", g.R.U64()>>1, g.R.Range(1, 5), g.R.Range(1, 12), g.R.Range(1, 10),
				presfail, wfail, rfail, lat, trans, act)
		}
		g.Op("fin", "")
	}
}

// ------------------------------------------------------------------ log ---

type c31Log struct {
	mu   sync.Mutex
	ev   []string
	n    atomic.Int64
	dead atomic.Bool
}

func (l *c31Log) add(s string) {
	if l.dead.Load() {
		return
	}
	l.mu.Lock()
	l.ev = append(l.ev, s)
	l.mu.Unlock()
	l.n.Add(1)
}

func (l *c31Log) take() string {
	l.mu.Lock()
	defer l.mu.Unlock()
	out := strings.Join(l.ev, " ")
	l.ev = nil
	if out == "" {
		return "-"
	}
	return out
}

// ---------------------------------------------------------------- world ---

type c31Route struct{ node, sess uint64 }

type c31Phase struct {
	seed                         uint64
	presfail, wfail, rfail, lat int
}

type c31Runner struct {
	rt       *delivery.Runtime
	log      *c31Log
	world    map[uint64][]c31Route // uid -> routes
	nusers   int
	batch    int
	phase    atomic.Pointer[c31Phase]
	amu      sync.Mutex
	attempts map[[3]uint64]int // (msg, node, sess) -> attempts so far
	nextCh   int
	ops      []string
	replay   bool
	stats    struct{ wr, wa, rr, re, off, plans atomic.Int64 }
}

func c31Mix(a, b, c uint64) uint64 {
	z := a*0x9E3779B97F4A7C15 ^ b*0xBF58476D1CE4E5B9 ^ c*0x94D049BB133111EB
	z ^= z >> 29
	z *= 0xBF58476D1CE4E5B9
	z ^= z >> 32
	return z
}

// c31Rng is a private splitmix64 (mirrored by lean/Driver/C31.lean smNew/smNext).
type c31Rng struct{ s uint64 }

func (r *c31Rng) Intn(n int) int {
	r.s += 0x9E3779B97F4A7C15
	z := r.s
	z = (z ^ (z >> 30)) * 0xBF58476D1CE4E5B9
	z = (z ^ (z >> 27)) * 0x94D049BB133111EB
	z ^= z >> 31
	return int(z % uint64(n))
}

func c31UID(u uint64) string { return "u" + strconv.FormatUint(u, 10) }
func c31UIDNum(s string) uint64 {
	n, _ := strconv.ParseUint(strings.TrimPrefix(s, "u"), 10, 64)
	return n
}

func (r *c31Runner) pause(rnd *Rand) {
	lat := r.phase.Load().lat
	if lat <= 0 {
		if rnd.Chance(30) {
			runtime.Gosched()
		}
		return
	}
	d := rnd.Intn(lat + 1)
	if d < 20 {
		runtime.Gosched()
		return
	}
	time.Sleep(time.Duration(d) * time.Microsecond)
}

func (r *c31Runner) attempt(msg, node, sess uint64) int {
	r.amu.Lock()
	defer r.amu.Unlock()
	k := [3]uint64{msg, node, sess}
	r.attempts[k]++
	return r.attempts[k]
}

// presence port
func (r *c31Runner) EndpointsByTargets(_ context.Context, targets []onlinedelivery.RecipientTargetBatch) []delivery.TargetPresenceResult {
	ph := r.phase.Load()
	out := make([]delivery.TargetPresenceResult, len(targets))
	for i, t := range targets {
		msg := t.Target.RouteRevision // the harness stamps the message id into the target fence
		g := uint64(t.Target.SlotID)
		rnd := NewRand(c31Mix(ph.seed, msg, g*1000+uint64(len(t.Recipients))))
		r.pause(rnd)
		ids := make([]string, len(t.Recipients))
		for j, rc := range t.Recipients {
			ids[j] = strconv.FormatUint(c31UIDNum(rc.UID), 10)
		}
		if rnd.Chance(ph.presfail) {
			out[i].Err = errors.New("c31: presence unavailable")
			r.log.add(fmt.Sprintf("Q:%d:%d:0:%s", msg, g, strings.Join(ids, ".")))
			continue
		}
		for _, rc := range t.Recipients {
			u := c31UIDNum(rc.UID)
			for _, rt := range r.world[u] {
				out[i].Routes = append(out[i].Routes, onlinedelivery.Route{UID: rc.UID, OwnerNodeID: rt.node, OwnerBootID: 1, OwnerSeq: 1, SessionID: rt.sess})
			}
		}
		r.log.add(fmt.Sprintf("Q:%d:%d:1:%s", msg, g, strings.Join(ids, ".")))
	}
	return out
}

func (r *c31Runner) disp(ph *c31Phase, msg, node, sess uint64, failpct int) int {
	k := r.attempt(msg, node, sess)
	x := int(c31Mix(ph.seed, msg*1000003+sess, uint64(k)) % 100)
	switch {
	case x >= failpct:
		return 1
	case x%3 == 0:
		return 3
	default:
		return 2
	}
}

// local session port
func (r *c31Runner) WriteSession(_ context.Context, w delivery.LocalSessionWrite) delivery.SessionWriteResult {
	ph := r.phase.Load()
	rnd := NewRand(c31Mix(ph.seed, w.Event.MessageID, w.Route.SessionID))
	r.pause(rnd)
	d := r.disp(ph, w.Event.MessageID, w.Route.OwnerNodeID, w.Route.SessionID, ph.wfail)
	r.log.add(fmt.Sprintf("W:%d:%d:%d:%d:%d", w.Event.MessageID, c31UIDNum(w.Route.UID), w.Route.OwnerNodeID, w.Route.SessionID, d))
	r.stats.wr.Add(1)
	switch d {
	case 1:
		r.stats.wa.Add(1)
		return delivery.SessionWriteResult{Disposition: delivery.SessionWriteAccepted}
	case 2:
		return delivery.SessionWriteResult{Disposition: delivery.SessionWriteRetryable, Err: errors.New("c31: busy")}
	default:
		return delivery.SessionWriteResult{Disposition: delivery.SessionWriteDropped, Err: errors.New("c31: stale route")}
	}
}

// remote owner port: behaves like an honest peer runtime (every route classified exactly once)
func (r *c31Runner) PushOwner(_ context.Context, p onlinedelivery.OwnerPush) (onlinedelivery.OwnerPushResult, error) {
	ph := r.phase.Load()
	first := uint64(0)
	if len(p.Routes) > 0 {
		first = p.Routes[0].SessionID
	}
	rnd := NewRand(c31Mix(ph.seed, p.Event.MessageID, p.OwnerNodeID*7919+first+uint64(r.attempt(p.Event.MessageID, p.OwnerNodeID, 0))))
	r.pause(rnd)
	var res onlinedelivery.OwnerPushResult
	toks := make([]string, len(p.Routes))
	for i, rt := range p.Routes {
		d := r.disp(ph, p.Event.MessageID, rt.OwnerNodeID, rt.SessionID, ph.rfail)
		toks[i] = fmt.Sprintf("%d.%d.%d.%d", c31UIDNum(rt.UID), rt.OwnerNodeID, rt.SessionID, d)
		switch d {
		case 1:
			res.Accepted = append(res.Accepted, rt)
		case 2:
			res.Retryable = append(res.Retryable, rt)
		default:
			res.Dropped = append(res.Dropped, rt)
		}
	}
	r.stats.rr.Add(1)
	if rnd.Chance(ph.rfail / 2) { // the answer is lost: the caller cannot know what was delivered
		r.stats.re.Add(1)
		r.log.add(fmt.Sprintf("R:%d:%d:0:%s", p.Event.MessageID, p.OwnerNodeID, strings.Join(toks, ",")))
		return onlinedelivery.OwnerPushResult{}, errors.New("c31: rpc failed")
	}
	r.log.add(fmt.Sprintf("R:%d:%d:1:%s", p.Event.MessageID, p.OwnerNodeID, strings.Join(toks, ",")))
	return res, nil
}

// offline observer
func (r *c31Runner) ObserveOfflineRecipients(_ context.Context, ev delivery.OfflineRecipientsEvent) {
	ids := make([]string, len(ev.UIDs))
	for i, u := range ev.UIDs {
		ids[i] = strconv.FormatUint(c31UIDNum(u), 10)
	}
	r.stats.off.Add(1)
	r.log.add(fmt.Sprintf("F:%d:%s", ev.Event.MessageID, strings.Join(ids, ".")))
}

// enqueuer wrapper: logs the plan exactly as dispatchRecipientPlans built it
type c31Enq struct{ r *c31Runner }

func (e c31Enq) EnqueueRecipientDeliveryPlan(ctx context.Context, plan onlinedelivery.RecipientDeliveryPlan) error {
	parts := make([]string, len(plan.Targets))
	for i, t := range plan.Targets {
		ids := make([]string, len(t.Recipients))
		for j, rc := range t.Recipients {
			ids[j] = strconv.FormatUint(c31UIDNum(rc.UID), 10)
		}
		parts[i] = fmt.Sprintf("%d/%s", t.Target.SlotID, strings.Join(ids, "."))
	}
	err := e.r.rt.EnqueueRecipientDeliveryPlan(ctx, plan)
	res := 1
	if err != nil {
		res = 0
	}
	e.r.stats.plans.Add(1)
	// logged after the call returned: an accepted plan may already be running, so the judge
	// never orders E against Q/W/R events
	e.r.log.add(fmt.Sprintf("E:%d:%d:%s", plan.Event.MessageID, res, strings.Join(parts, ";")))
	return err
}

func (r *c31Runner) start(a []int64) (string, error) {
	r.log = &c31Log{}
	r.attempts = map[[3]uint64]int{}
	r.world = map[uint64][]c31Route{}
	r.nusers = int(a[6])
	r.batch = int(a[2])
	r.phase.Store(&c31Phase{})
	wr := &c31Rng{s: uint64(a[7])*0x9E3779B97F4A7C15 + 0x1234567} // own generator: the Lean driver recomputes the world
	var sb strings.Builder
	for u := 1; u <= r.nusers; u++ {
		n := []int{0, 0, 0, 1, 1, 1, 1, 2, 2, 2}[wr.Intn(10)]
		if u > 1 {
			sb.WriteByte(',')
		}
		fmt.Fprintf(&sb, "%d=", u)
		for j := 0; j < n; j++ {
			node := []uint64{1, 1, 2, 3}[wr.Intn(4)]
			rt := c31Route{node: node, sess: uint64(u*10 + j + 1)}
			r.world[uint64(u)] = append(r.world[uint64(u)], rt)
			if j > 0 {
				sb.WriteByte('+')
			}
			fmt.Fprintf(&sb, "%d.%d", rt.node, rt.sess)
		}
	}
	r.rt = delivery.NewRuntime(delivery.RuntimeOptions{
		LocalNodeID: 1, Presence: r, RemoteOwnerPusher: r, SessionWriter: r, OfflineRecipientsObserver: r,
		QueueSize: int(a[1]), Workers: int(a[0]), PlanTimeout: 10 * time.Minute, MaxPlanRecipients: 512,
		OwnerPushBatchSize: int(a[3]), OwnerConcurrency: int(a[4]), RetryMaxAttempts: int(a[5]),
		RetryInitialBackoff: 20 * time.Microsecond, RetryMaxBackoff: 200 * time.Microsecond,
	})
	if err := r.rt.Start(context.Background()); err != nil {
		return "", err
	}
	return sb.String(), nil
}

func (r *c31Runner) Close() {
	if r.rt != nil {
		r.log.dead.Store(true)
		rt := r.rt
		r.rt = nil
		go func() {
			ctx, cancel := context.WithTimeout(context.Background(), time.Minute)
			defer cancel()
			_ = rt.Stop(ctx)
		}()
	}
	if os.Getenv("C31_STATS") != "" {
		fmt.Fprintf(os.Stderr, "C31STATS plans=%d writes=%d accepted=%d remote=%d remoteErr=%d offline=%d\n", r.stats.plans.Load(),
			r.stats.wr.Load(), r.stats.wa.Load(), r.stats.rr.Load(), r.stats.re.Load(), r.stats.off.Load())
	}
}

func (r *c31Runner) Step(op string) string {
	if !r.replay {
		r.ops = append(r.ops, op)
	}
	f := strings.Fields(op)
	if len(f) == 0 {
		return "bad-op"
	}
	a, ok := atoiAll31(f[1:])
	if !ok {
		return "bad-op"
	}
	switch f[0] {
	case "cfg":
		if len(a) != 8 || r.log != nil || a[0] < 1 || a[0] > 16 || a[1] < 1 || a[2] < 1 || a[3] < 1 || a[4] < 1 || a[5] < 1 || a[5] > 8 || a[6] < 1 || a[6] > 64 {
			return "bad-op"
		}
		w, err := r.start(a)
		if err != nil {
			return "start-failed"
		}
		return "ok " + w
	case "phase":
		if len(a) != 10 || r.rt == nil || a[1] < 1 || a[1] > 16 || a[2] < 1 || a[2] > 200 || a[3] < 1 || a[9] > 1 {
			return "bad-op"
		}
		r.runPhase(a)
		return r.log.take()
	case "longid":
		if len(a) != 1 || r.rt == nil || a[0] < 1 || a[0] > 256 {
			return "bad-op"
		}
		r.runLongID(int(a[0]))
		return r.log.take()
	case "fin":
		if len(a) != 0 || r.rt == nil {
			return "bad-op"
		}
		return r.fin()
	}
	return "bad-op"
}

func atoiAll31(f []string) ([]int64, bool) {
	out := make([]int64, len(f))
	for i, s := range f {
		v, err := strconv.ParseInt(s, 10, 64)
		if err != nil || v < 0 {
			return nil, false
		}
		out[i] = v
	}
	return out, true
}

func (r *c31Runner) runPhase(a []int64) {
	seed := uint64(a[0])
	r.phase.Store(&c31Phase{seed: seed, presfail: int(a[4]), wfail: int(a[5]), rfail: int(a[6]), lat: int(a[7])})
	nch, nmsg, fanout, trans, act := int(a[1]), int(a[2]), int(a[3]), int(a[8]), int(a[9])
	var wg sync.WaitGroup
	for c := 0; c < nch; c++ {
		r.nextCh++
		ch := uint64(r.nextCh)
		pr := NewRand(c31Mix(seed, ch, 1))
		wg.Add(1)
		go func() { // the channel writer's post-commit effects: one message after the other
			defer wg.Done()
			for seq := uint64(1); seq <= uint64(nmsg); seq++ {
				msg := ch*1000 + seq
				mode := onlinedelivery.ModeDurable
				if pr.Chance(trans) {
					mode = onlinedelivery.ModeTransient
				}
				ev := channelappendcontract.CommittedEnvelope{MessageID: msg, MessageSeq: seq, ChannelID: "c" + strconv.FormatUint(ch, 10), ChannelType: 2}
				if pr.Chance(40) { // a sender session that is also a recipient route: must be suppressed
					u := uint64(1 + pr.Intn(r.nusers))
					ev.FromUID = c31UID(u)
					if rts := r.world[u]; len(rts) > 0 {
						rt := rts[pr.Intn(len(rts))]
						ev.SenderNodeID, ev.SenderSessionID = rt.node, rt.sess
					}
				}
				// recipients: a random subset without duplicates, grouped by authority target
				ngroups := 1 + pr.Intn(3)
				targets := make([]authority.Target, ngroups)
				recips := make([][]channelappendcontract.Recipient, ngroups)
				for g := range targets {
					targets[g] = authority.Target{HashSlot: uint16(g), SlotID: uint32(g), LeaderNodeID: uint64(1 + g), RouteRevision: msg}
				}
				picked := 0
				start := pr.Intn(r.nusers)
				for k := 0; k < r.nusers && picked < fanout; k++ {
					u := uint64(1 + (start+k)%r.nusers)
					if pr.Chance(70) {
						g := int(u) % ngroups
						recips[g] = append(recips[g], channelappendcontract.Recipient{UID: c31UID(u)})
						picked++
					}
				}
				if picked == 0 {
					u := uint64(1 + start%r.nusers)
					recips[int(u)%ngroups] = append(recips[int(u)%ngroups], channelappendcontract.Recipient{UID: c31UID(u)})
				}
				var all []string
				for g := range recips {
					for _, rc := range recips[g] {
						all = append(all, strconv.FormatUint(c31UIDNum(rc.UID), 10))
					}
				}
				r.log.add(fmt.Sprintf("N:%d:%d:%d:%d:%d:%d:%d:%s", msg, ch, seq, mode, c31UIDNum(ev.FromUID), ev.SenderNodeID, ev.SenderSessionID, strings.Join(all, ".")))
				_ = channelappend.VerifDispatchRecipientPlans(context.Background(), mode, ev, targets, recips, r.batch, c31Enq{r})
				if pr.Chance(30) {
					r.pause(pr)
				}
			}
		}()
	}
	if act == 1 {
		ar := NewRand(c31Mix(seed, 0, 9))
		wg.Add(1)
		go func() {
			defer wg.Done()
			for k := ar.Intn(40); k > 0; k-- {
				r.pause(ar)
			}
			r.stop(false)
		}()
	}
	wg.Wait()
}

func (r *c31Runner) runLongID(mb int) {
	r.phase.Store(&c31Phase{seed: 5})
	id := strings.Repeat("x", mb<<20)
	send := func(ch, seq uint64) {
		msg := ch*1000 + seq
		ev := channelappendcontract.CommittedEnvelope{MessageID: msg, MessageSeq: seq, ChannelID: id, ChannelType: 2}
		targets := []authority.Target{{LeaderNodeID: 1, RouteRevision: msg}}
		recips := [][]channelappendcontract.Recipient{{{UID: c31UID(1)}}}
		r.log.add(fmt.Sprintf("N:%d:%d:%d:1:0:0:0:1", msg, ch, seq))
		_ = channelappend.VerifDispatchRecipientPlans(context.Background(), onlinedelivery.ModeDurable, ev, targets, recips, r.batch, c31Enq{r})
	}
	r.nextCh++
	ch := uint64(r.nextCh)
	t0 := time.Now()
	send(ch, 1) // calibration: how long one admission of such a plan takes
	took := time.Since(t0)
	done := make(chan struct{})
	go func() { defer close(done); send(ch, 2) }()
	time.Sleep(took / 2)
	r.stop(false)
	<-done
}

// stop logs T0, calls Runtime.Stop and logs T1:<1|0>.  With watchdog the wait is given up only
// after 30 s without any logged event (or 5 min in total).
func (r *c31Runner) stop(watchdog bool) string {
	ctx, cancel := context.WithCancel(context.Background())
	defer cancel()
	r.log.add("T0")
	done := make(chan error, 1)
	go func() { done <- r.rt.Stop(ctx) }()
	var err error
	last := r.log.n.Load()
	idle := 0
	tick := time.NewTicker(time.Second)
	defer tick.Stop()
loop:
	for total := 0; ; total++ {
		select {
		case err = <-done:
			break loop
		case <-tick.C:
			if n := r.log.n.Load(); n != last {
				last, idle = n, 0
			} else {
				idle++
			}
			if idle >= 30 || total >= 300 {
				cancel()
				err = <-done
				break loop
			}
		}
	}
	_ = watchdog
	res := "1"
	if err != nil {
		res = "0"
	}
	r.log.add("T1:" + res)
	return res
}

func (r *c31Runner) fin() string {
	res := r.stop(true)
	if res == "0" && !r.replay {
		r.log.dead.Store(true)
		again := &c31Runner{replay: true}
		out := ""
		for _, op := range r.ops {
			out = again.Step(op)
		}
		again.Close()
		r.rt = nil
		if strings.Contains(out, "T1:0") {
			return "STUCK"
		}
		return "inconclusive"
	}
	out := r.log.take()
	r.log.dead.Store(true)
	r.rt = nil
	return out
}

//go:build verif

package main

import (
	"context"
	"errors"
	"fmt"
	"hash/crc32"
	"strconv"
	"strings"

	channelmembers "github.com/WuKongIM/WuKongIM/internal/contracts/channelmembers"
	message "github.com/WuKongIM/WuKongIM/internal/usecase/message"
	metadb "github.com/WuKongIM/WuKongIM/pkg/db/meta"
	"github.com/WuKongIM/WuKongIM/pkg/protocol/channelid"
)

func init() {
	Register(&Prop{Gen: genC36, NewRunner: func() Runner { return c36Runner{} }})
}

// ------------------------------------------------------------------ facts ---

type c36ChanKey struct {
	id string
	ty int64
}
type c36ContainsKey struct {
	id  string // the channel id the store is asked for (namespaced for deny/allow lists)
	ty  int64
	uid string
}

var errC36Store = errors.New("verif: injected permission store failure")

type c36Chan struct {
	state string // nf | err | found
	ch    metadb.Channel
}

// c36Store is the fake PermissionStore AND PermissionBatchStore: both answer
// from the same fact tables, so the two decision paths see the same facts.
type c36Store struct {
	chans    map[c36ChanKey]c36Chan
	contains map[c36ContainsKey]string // "0" | "1" | "e"
	hasAny   map[c36ChanKey]string
}

func (s *c36Store) GetChannelForPermission(_ context.Context, id string, ty int64) (metadb.Channel, error) {
	c, ok := s.chans[c36ChanKey{id, ty}]
	if !ok || c.state == "nf" {
		return metadb.Channel{}, metadb.ErrNotFound
	}
	if c.state == "err" {
		return metadb.Channel{}, errC36Store
	}
	return c.ch, nil
}

func c36BoolRes(v string) (bool, error) {
	switch v {
	case "e":
		return false, errC36Store
	case "1":
		return true, nil
	}
	return false, nil
}

func (s *c36Store) ContainsChannelSubscriber(_ context.Context, id string, ty int64, uid string) (bool, error) {
	return c36BoolRes(s.contains[c36ContainsKey{id, ty, uid}])
}

func (s *c36Store) HasChannelSubscribers(_ context.Context, id string, ty int64) (bool, error) {
	return c36BoolRes(s.hasAny[c36ChanKey{id, ty}])
}

func (s *c36Store) ReadPermissionsBatch(ctx context.Context, reads []message.PermissionRead) []message.PermissionReadResult {
	out := make([]message.PermissionReadResult, len(reads))
	for i, r := range reads {
		switch r.Kind {
		case message.PermissionReadChannel:
			ch, err := s.GetChannelForPermission(ctx, r.ChannelID, r.ChannelType)
			switch {
			case errors.Is(err, metadb.ErrNotFound):
			case err != nil:
				out[i].Err = err
			default:
				out[i].Found, out[i].Channel = true, ch
			}
		case message.PermissionReadSubscriberContains:
			out[i].Value, out[i].Err = s.ContainsChannelSubscriber(ctx, r.ChannelID, r.ChannelType, r.UID)
		case message.PermissionReadSubscriberHasAny:
			out[i].Value, out[i].Err = s.HasChannelSubscribers(ctx, r.ChannelID, r.ChannelType)
		default:
			out[i].Err = fmt.Errorf("unexpected permission read kind %d", r.Kind)
		}
	}
	return out
}

type c36SysUIDs map[string]bool

func (f c36SysUIDs) IsSystemUID(uid string) bool { return f[uid] }

// c36Submitter accepts everything and records the channel id it was handed.
type c36Submitter struct {
	delivered map[string]string // ClientMsgNo -> channel id
}

func (s *c36Submitter) Send(_ context.Context, cmd message.SendCommand) (message.SendResult, error) {
	s.delivered[cmd.ClientMsgNo] = cmd.ChannelID
	return message.SendResult{Reason: message.ReasonSuccess}, nil
}

func (s *c36Submitter) SendBatch(items []message.SendBatchItem) []message.SendBatchItemResult {
	out := make([]message.SendBatchItemResult, len(items))
	for i, it := range items {
		s.delivered[it.Command.ClientMsgNo] = it.Command.ChannelID
		out[i] = message.SendBatchItemResult{Result: message.SendResult{Reason: message.ReasonSuccess}}
	}
	return out
}

// ----------------------------------------------------------------- runner ---

type c36Runner struct{}

func (c36Runner) Close() {}

func c36ListID(kind, id string, ty int64) (string, bool) {
	key := channelmembers.ChannelKey{ChannelID: id, ChannelType: uint8(ty)}
	switch kind {
	case "m":
		return id, true
	case "d":
		return channelmembers.DenylistChannelID(key), true
	case "a":
		return channelmembers.AllowlistChannelID(key), true
	}
	return "", false
}

func c36ErrClass(err error) string {
	switch {
	case err == nil:
		return "nil"
	case errors.Is(err, channelid.ErrInvalidPersonChannel):
		return "invp"
	case errors.Is(err, channelid.ErrInvalidAgentChannel):
		return "inva"
	case errors.Is(err, errC36Store):
		return "store"
	}
	return "other"
}

func c36Outcome(reason message.Reason, err error, sub *c36Submitter, msgNo string) string {
	d := "x"
	if ch, ok := sub.delivered[msgNo]; ok {
		d = Hex([]byte(ch))
	}
	return fmt.Sprintf("%d/%s/%s", uint8(reason), c36ErrClass(err), d)
}

func c36KV(tok, key string) (string, bool) {
	if !strings.HasPrefix(tok, key+"=") {
		return "", false
	}
	return tok[len(key)+1:], true
}

func c36Items(s string) [][]string {
	var out [][]string
	for _, e := range strings.Split(s, ";") {
		if e != "" {
			out = append(out, strings.Split(e, "/"))
		}
	}
	return out
}

func (c36Runner) Step(op string) string {
	f := strings.Fields(op)
	if len(f) != 7 || f[0] != "perm" {
		return "bad-op"
	}
	cfgS, ok1 := c36KV(f[1], "cfg")
	sysS, ok2 := c36KV(f[2], "sys")
	chS, ok3 := c36KV(f[3], "ch")
	ctS, ok4 := c36KV(f[4], "ct")
	haS, ok5 := c36KV(f[5], "ha")
	cmS, ok6 := c36KV(f[6], "cmd")
	if !(ok1 && ok2 && ok3 && ok4 && ok5 && ok6) {
		return "bad-op"
	}
	cp := strings.Split(cfgS, "/")
	if len(cp) != 2 || len(cp[0]) != 3 {
		return "bad-op"
	}
	store := &c36Store{chans: map[c36ChanKey]c36Chan{}, contains: map[c36ContainsKey]string{}, hasAny: map[c36ChanKey]string{}}
	bit := func(b byte) int64 {
		if b == '1' {
			return 1
		}
		return 0
	}
	for _, e := range c36Items(chS) {
		if len(e) != 3 {
			return "bad-op"
		}
		ty, err := strconv.ParseInt(e[1], 10, 64)
		if err != nil {
			return "bad-op"
		}
		k := c36ChanKey{string(UnHex(e[0])), ty}
		if _, dup := store.chans[k]; dup {
			continue
		}
		switch {
		case e[2] == "nf" || e[2] == "err":
			store.chans[k] = c36Chan{state: e[2]}
		case len(e[2]) == 4:
			// non-zero flags take different non-zero values: the code must test `!= 0`
			store.chans[k] = c36Chan{state: "found", ch: metadb.Channel{ChannelID: k.id, ChannelType: ty,
				Ban: bit(e[2][0]) * 2, Disband: bit(e[2][1]), SendBan: -bit(e[2][2]), AllowStranger: bit(e[2][3]) * 7}}
		default:
			return "bad-op"
		}
	}
	for _, e := range c36Items(ctS) {
		if len(e) != 5 {
			return "bad-op"
		}
		ty, err := strconv.ParseInt(e[2], 10, 64)
		id, ok := c36ListID(e[0], string(UnHex(e[1])), ty)
		if err != nil || !ok || (e[4] != "0" && e[4] != "1" && e[4] != "e") {
			return "bad-op"
		}
		k := c36ContainsKey{id, ty, string(UnHex(e[3]))}
		if _, dup := store.contains[k]; !dup {
			store.contains[k] = e[4]
		}
	}
	for _, e := range c36Items(haS) {
		if len(e) != 4 {
			return "bad-op"
		}
		ty, err := strconv.ParseInt(e[2], 10, 64)
		id, ok := c36ListID(e[0], string(UnHex(e[1])), ty)
		if err != nil || !ok || (e[3] != "0" && e[3] != "1" && e[3] != "e") {
			return "bad-op"
		}
		k := c36ChanKey{id, ty}
		if _, dup := store.hasAny[k]; !dup {
			store.hasAny[k] = e[3]
		}
	}
	var cmds []message.SendCommand
	for i, e := range c36Items(cmS) {
		if len(e) != 6 || len(e[4]) != 2 {
			return "bad-op"
		}
		ty, err := strconv.Atoi(e[3])
		sc, err2 := strconv.Atoi(e[5])
		if err != nil || err2 != nil || ty < 0 || ty > 255 || sc < 0 || sc > 8 {
			return "bad-op"
		}
		cmd := message.SendCommand{
			FromUID: string(UnHex(e[0])), DeviceID: string(UnHex(e[1])), ChannelID: string(UnHex(e[2])),
			ChannelType: uint8(ty), NormalizePersonChannel: e[4][0] == '1', RequestScoped: e[4][1] == '1',
			ClientMsgNo: strconv.Itoa(i), Payload: []byte("p"),
		}
		for j := 0; j < sc; j++ {
			cmd.MessageScopedUIDs = append(cmd.MessageScopedUIDs, "scoped"+strconv.Itoa(j))
		}
		cmds = append(cmds, cmd)
	}
	if len(cmds) == 0 {
		return "bad-op"
	}
	newApp := func() (*message.App, *c36Submitter) {
		sub := &c36Submitter{delivered: map[string]string{}}
		opts := message.Options{Submitter: sub, PersonWhitelistEnabled: cp[0][2] == '1', SystemDeviceID: string(UnHex(cp[1]))}
		if cp[0][0] == '1' {
			opts.PermissionStore = store
		}
		if cp[0][1] == '1' {
			opts.PermissionBatchStore = store
		}
		if sysS != "nil" {
			m := c36SysUIDs{}
			for _, u := range strings.Split(sysS, ",") {
				if u != "" {
					m[string(UnHex(u))] = true
				}
			}
			opts.SystemUIDs = m
		}
		return message.New(opts), sub
	}
	// path 1: one App.Send per command
	sendOut := make([]string, len(cmds))
	{
		app, sub := newApp()
		for i, cmd := range cmds {
			res, err := app.Send(context.Background(), cmd.Clone())
			sendOut[i] = c36Outcome(res.Reason, err, sub, cmd.ClientMsgNo)
		}
	}
	// path 2: all commands in ONE App.SendBatch (coalescing, read de-duplication, alignment)
	batchOut := make([]string, len(cmds))
	{
		app, sub := newApp()
		items := make([]message.SendBatchItem, len(cmds))
		for i, cmd := range cmds {
			items[i] = message.SendBatchItem{Context: context.Background(), Command: cmd.Clone()}
		}
		results := app.SendBatch(items)
		if len(results) != len(cmds) {
			return fmt.Sprintf("misaligned-batch-results %d/%d", len(results), len(cmds))
		}
		for i, r := range results {
			batchOut[i] = c36Outcome(r.Result.Reason, r.Err, sub, cmds[i].ClientMsgNo)
		}
	}
	parts := make([]string, len(cmds))
	for i := range cmds {
		parts[i] = sendOut[i] + "~" + batchOut[i]
	}
	return strings.Join(parts, " ")
}

// -------------------------------------------------------------- generator ---

const c36Suffix = "____cmd"

var c36UIDs = []string{"u1", "u2", "u3", "sys", "bot" + c36Suffix}
var c36Groups = []string{"g1", "g2", "g3"}

// c36Canon is the generator's own canonical person id (chooses inputs; never an oracle).
func c36Canon(a, b string) string {
	ha, hb := crc32.ChecksumIEEE([]byte(a)), crc32.ChecksumIEEE([]byte(b))
	if ha > hb || (ha == hb && a > b) {
		return a + "@" + b
	}
	return b + "@" + a
}

func c36Pick(g *Gen, xs []string) string { return xs[g.R.Intn(len(xs))] }

func c36ChanState(g *Gen, pNF, pErr, pBan, pDisband, pSendBan, pStranger int) string {
	x := g.R.Intn(100)
	switch {
	case x < pNF:
		return "nf"
	case x < pNF+pErr:
		return "err"
	}
	b := func(p int) byte {
		if g.R.Chance(p) {
			return '1'
		}
		return '0'
	}
	return string([]byte{b(pBan), b(pDisband), b(pSendBan), b(pStranger)})
}

func c36BoolFact(g *Gen, pTrue, pErr int) string {
	x := g.R.Intn(100)
	switch {
	case x < pErr:
		return "e"
	case x < pErr+pTrue:
		return "1"
	}
	return "0"
}

func genC36(g *Gen) {
	g.Case()
	for n := 0; n < g.N; n++ {
		// ---- configuration
		bits := "11"
		switch g.R.Pick(78, 14, 8) {
		case 1:
			bits = "10"
		case 2:
			bits = "00"
		}
		g.Count("cfg:perm,batch=" + bits)
		wl := "0"
		if g.R.Chance(55) {
			wl = "1"
		}
		sysDev := "sysdev"
		if g.R.Chance(25) {
			sysDev = ""
		}
		sys := "nil"
		if !g.R.Chance(12) {
			var l []string
			if g.R.Chance(70) {
				l = append(l, Hex([]byte("sys")))
			}
			if g.R.Chance(12) {
				l = append(l, Hex([]byte(c36Pick(g, c36UIDs))))
			}
			sys = strings.Join(l, ",")
		}
		// ---- facts over the small universe, sparse
		var ch, ct, ha []string
		for _, u := range c36UIDs { // sender / receiver person rows
			if g.R.Chance(70) {
				ch = append(ch, fmt.Sprintf("%s/1/%s", Hex([]byte(u)), c36ChanState(g, 25, 6, 10, 10, 35, 50)))
			}
		}
		extraUIDs := append([]string{"bot", "x"}, c36UIDs...) // "bot" = what a second strip makes of bot____cmd
		for _, rc := range extraUIDs {
			for _, from := range c36UIDs {
				if g.R.Chance(30) {
					ct = append(ct, fmt.Sprintf("d/%s/1/%s/%s", Hex([]byte(rc)), Hex([]byte(from)), c36BoolFact(g, 45, 6)))
				}
				if g.R.Chance(30) {
					ct = append(ct, fmt.Sprintf("a/%s/1/%s/%s", Hex([]byte(rc)), Hex([]byte(from)), c36BoolFact(g, 45, 6)))
				}
			}
		}
		if g.R.Chance(40) {
			ch = append(ch, fmt.Sprintf("%s/1/%s", Hex([]byte("bot")), c36ChanState(g, 20, 5, 0, 0, 30, 50)))
		}
		for i, a := range c36UIDs { // person channel rows (terminal state)
			for _, b := range c36UIDs[i:] {
				if g.R.Chance(25) {
					id := c36Canon(a, b)
					if g.R.Chance(10) {
						id = strings.TrimSuffix(id, c36Suffix)
					}
					ch = append(ch, fmt.Sprintf("%s/1/%s", Hex([]byte(id)), c36ChanState(g, 20, 8, 10, 55, 10, 10)))
				}
			}
		}
		for _, gid := range append([]string{"g1" + c36Suffix}, c36Groups...) {
			for _, ty := range []int{2, 3, 10, 6, 11, 5} {
				p := 8
				if ty == 2 {
					p = 85
				} else if ty == 10 || ty == 3 {
					p = 40
				}
				if g.R.Chance(p) {
					ch = append(ch, fmt.Sprintf("%s/%d/%s", Hex([]byte(gid)), ty, c36ChanState(g, 10, 6, 22, 22, 10, 10)))
				}
			}
			for _, lty := range []int{2, 3} { // group lists, customer-service lists (visitors)
				if g.R.Chance(60) {
					ha = append(ha, fmt.Sprintf("a/%s/%d/%s", Hex([]byte(gid)), lty, c36BoolFact(g, 50, 5)))
				}
				for _, u := range c36UIDs {
					if g.R.Chance(75) {
						ct = append(ct, fmt.Sprintf("m/%s/%d/%s/%s", Hex([]byte(gid)), lty, Hex([]byte(u)), c36BoolFact(g, 80, 4)))
					}
					if g.R.Chance(35) {
						ct = append(ct, fmt.Sprintf("d/%s/%d/%s/%s", Hex([]byte(gid)), lty, Hex([]byte(u)), c36BoolFact(g, 35, 5)))
					}
					if g.R.Chance(50) {
						ct = append(ct, fmt.Sprintf("a/%s/%d/%s/%s", Hex([]byte(gid)), lty, Hex([]byte(u)), c36BoolFact(g, 55, 5)))
					}
				}
			}
		}
		// uids used as visitor channels
		for _, u := range c36UIDs[:3] {
			if g.R.Chance(30) {
				ct = append(ct, fmt.Sprintf("m/%s/3/%s/%s", Hex([]byte(u)), Hex([]byte(c36Pick(g, c36UIDs))), c36BoolFact(g, 80, 4)))
			}
		}
		// agent channel rows
		if g.R.Chance(30) {
			ch = append(ch, fmt.Sprintf("%s/11/%s", Hex([]byte("u1@agent")), c36ChanState(g, 20, 8, 10, 50, 10, 10)))
		}
		// ---- commands
		k := 1 + g.R.Pick(40, 30, 20, 10)
		var cmds []string
		for i := 0; i < k; i++ {
			from := c36Pick(g, c36UIDs)
			if g.R.Chance(3) {
				from = ""
			}
			dev := "d1"
			switch g.R.Pick(60, 25, 15) {
			case 1:
				dev = "sysdev"
			case 2:
				dev = ""
			}
			norm, rs, scoped := "0", "0", 0
			var id string
			var ty int
			switch g.R.Pick(36, 36, 8, 8, 4, 4, 4) {
			case 0:
				ty = 1
				norm = "1"
				if g.R.Chance(10) {
					norm = "0"
				}
				peer := c36Pick(g, c36UIDs)
				switch g.R.Pick(40, 25, 10, 12, 13) {
				case 0:
					id = peer
					g.Count("person:peer-uid")
				case 1:
					id = c36Canon(from, peer)
					g.Count("person:canonical")
				case 2:
					id = peer + "@" + from
					g.Count("person:any-order")
				case 3:
					id = c36Canon(c36Pick(g, c36UIDs), peer)
					g.Count("person:maybe-third-party")
				default:
					id = []string{"abc", "u1@", "@u2", "u1@u2@u3", ""}[g.R.Intn(5)]
					g.Count("person:malformed")
				}
				g.Count("person:normalize=" + norm)
			case 1:
				ty = 2
				id = c36Pick(g, c36Groups)
				if g.R.Chance(10) {
					id = "g9" // no facts at all
				}
			case 2:
				ty = 11
				id = []string{"u1@agent", from + "@agent", "agent", "u2@u1", "u1@agent@x"}[g.R.Intn(5)]
			case 3:
				ty = 10
				id = from
				if g.R.Chance(60) {
					id = c36Pick(g, append([]string{"u1", "u2"}, c36Groups...))
				}
			case 4:
				ty = 6
				id = c36Pick(g, c36Groups)
			case 5:
				ty = 3
				id = c36Pick(g, c36Groups)
			default:
				ty = []int{5, 0, 255, 4}[g.R.Intn(4)]
				id = c36Pick(g, c36Groups)
			}
			switch g.R.Pick(78, 18, 4) {
			case 1:
				id += c36Suffix
				g.Count("chan:cmd-suffix")
			case 2:
				id += c36Suffix + c36Suffix
				g.Count("chan:double-cmd-suffix")
			}
			if g.R.Chance(3) {
				rs = "1"
				g.Count("cmd:request-scoped")
			}
			if g.R.Chance(5) {
				scoped = g.R.Range(1, 3)
				if g.R.Chance(40) {
					id = ""
				}
				g.Count("cmd:message-scoped")
			}
			g.Count(fmt.Sprintf("type:%d", ty))
			if dev == "sysdev" && sysDev != "" {
				g.Count("sender:system-device")
			}
			cmds = append(cmds, fmt.Sprintf("%s/%s/%s/%d/%s%s/%d", Hex([]byte(from)), Hex([]byte(dev)), Hex([]byte(id)), ty, norm, rs, scoped))
		}
		if k > 1 && g.R.Chance(35) { // identical permission scope twice in one batch (coalescing)
			cmds[k-1] = cmds[0]
			g.Count("batch:duplicate-scope")
		} else if k > 1 && g.R.Chance(30) { // same sender/channel, ONE scope field differs (must not coalesce)
			p := strings.Split(cmds[0], "/")
			switch g.R.Intn(3) {
			case 0: // device: system device vs ordinary
				if p[1] == Hex([]byte("sysdev")) {
					p[1] = Hex([]byte("d1"))
				} else {
					p[1] = Hex([]byte("sysdev"))
				}
			case 1: // normalize flag
				if p[4][0] == '1' {
					p[4] = "0" + p[4][1:]
				} else {
					p[4] = "1" + p[4][1:]
				}
			default: // channel type
				if p[3] == "2" {
					p[3] = "6"
				} else {
					p[3] = "2"
				}
			}
			cmds[k-1] = strings.Join(p, "/")
			g.Count("batch:near-duplicate-scope")
		}
		g.Count(fmt.Sprintf("batch:size=%d", k))
		g.Op("perm", "cfg=%s%s/%s sys=%s ch=%s ct=%s ha=%s cmd=%s", bits, wl, Hex([]byte(sysDev)), sys,
			strings.Join(ch, ";"), strings.Join(ct, ";"), strings.Join(ha, ";"), strings.Join(cmds, ";"))
	}
}

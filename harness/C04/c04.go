//go:build verif

package main

// C04 — a deposed or fenced authority cannot acknowledge appends.  Generator
// biased towards authority orderings (higher / equal / lower / fence-only
// bumps), fenced installs, installs that fail after the owner was fenced, and
// commits with stale or foreign Expected authorities.
func init() {
	Register(&Prop{Gen: replGen(replGenParams{
		name: "C04", pInstall: 40, pCommit: 48, pCrash: 6, pRestart: 6,
		pRetryExact: 8, pRetryConfl: 4, pStaleAuth: 18, pEqualAuth: 18, pFenced: 14,
		pScenario: 10, pSmallCap: 10, maxOps: 26, pWrongExpect: 30,
		pBareQuorum: 15, pLostAcks: 8, pMinorityResp: 22,
		pRepair: 3, pMdb: 6, pSameTerm: 3,
	}), NewRunner: func() Runner { return newReplRunner() }})
}

//go:build verif

package main

import (
	"errors"
	"strings"

	ch "github.com/WuKongIM/WuKongIM/pkg/channel"
	"github.com/WuKongIM/WuKongIM/pkg/channel/machine"
)

// C04 — a deposed or fenced authority cannot acknowledge appends.  Generator
// biased towards authority orderings (higher / equal / lower / fence-only
// bumps), fenced installs, installs that fail after the owner was fenced, and
// commits with stale or foreign Expected authorities.  One extra case drives the
// real ChannelState.ValidateMeta against its regenerated translation (op `vmeta`).
func init() {
	base := replGen(replGenParams{
		name: "C04", pInstall: 40, pCommit: 48, pCrash: 6, pRestart: 6,
		pRetryExact: 8, pRetryConfl: 4, pStaleAuth: 18, pEqualAuth: 18, pFenced: 14,
		pScenario: 10, pSmallCap: 10, maxOps: 26, pWrongExpect: 30,
		pBareQuorum: 15, pLostAcks: 8, pMinorityResp: 22,
		pRepair: 3, pMdb: 6, pSameTerm: 3, pOlderFence: 8,
	})
	Register(&Prop{Gen: func(g *Gen) {
		base(g)
		g.Case()
		for i := 0; i < 300; i++ {
			// vmeta se sle sl km im me mle ml minisr isrlen   (small values: equalities are common)
			g.Count("vmeta")
			g.Op("vmeta", "%d %d %d %d %d %d %d %d %d %d", g.R.Range(1, 3), g.R.Range(1, 3), g.R.Range(1, 2),
				g.R.Pick(9, 1), g.R.Pick(9, 1), g.R.Range(0, 4), g.R.Range(0, 4), g.R.Range(1, 2), g.R.Range(0, 4), g.R.Range(0, 3))
		}
	}, NewRunner: func() Runner { return &c04Runner{inner: newReplRunner()} }})
}

type c04Runner struct{ inner *replRunner }

func (r *c04Runner) Close() { r.inner.Close() }

func (r *c04Runner) Step(op string) string {
	f := strings.Fields(op)
	if len(f) == 0 || f[0] != "vmeta" {
		return r.inner.Step(op)
	}
	if len(f) != 11 {
		return "bad-op"
	}
	v := make([]uint64, 10)
	for i := range v {
		x, ok := atoiU(f[i+1])
		if !ok {
			return "bad-op"
		}
		v[i] = x
	}
	if v[3] > 1 || v[4] > 1 {
		return "bad-op"
	}
	st := &machine.ChannelState{Key: "k", ID: ch.ChannelID{ID: "c", Type: 1}, Epoch: v[0], LeaderEpoch: v[1], Leader: ch.NodeID(v[2])}
	meta := ch.Meta{Key: "k", ID: st.ID, Epoch: v[5], LeaderEpoch: v[6], Leader: ch.NodeID(v[7]), MinISR: int(v[8]), ISR: make([]ch.NodeID, v[9])}
	if v[3] == 1 {
		meta.Key = "other"
	}
	if v[4] == 1 {
		meta.ID = ch.ChannelID{ID: "d", Type: 1}
	}
	err := st.ValidateMeta(meta)
	switch {
	case err == nil:
		return "ok"
	case errors.Is(err, ch.ErrStaleMeta):
		return "stale"
	case errors.Is(err, ch.ErrInvalidConfig):
		return "invalid"
	default:
		return "other"
	}
}

//go:build verif

package main

// C12 — slot Raft replicas apply identical command sequences (trace acceptance).
//
// One op = one schedule: a 3-node in-process cluster of real multiraft.Runtime
// instances (2 slots, the repo's raftlog.NewMemory() as durable storage, a
// logging state machine with an atomic durable applied index, like the real
// slot FSM) driven by a seeded lossy / duplicating / delaying / partitioning
// transport, with log compaction, snapshot catch-up, leader transfers and
// crash-restarts of a minority injected at chosen points of the Ready driver
// (before a Save, after a Save, before an ApplyBatch, after an ApplyBatch).
// The output is the trace: every ApplyBatch / Restore / restart per replica and
// every proposal future result.  Nothing about timing is asserted; the Lean
// driver is the acceptor.

import (
	"context"
	"encoding/binary"
	"errors"
	"fmt"
	"strconv"
	"strings"
	"sync"
	"sync/atomic"
	"time"

	"github.com/WuKongIM/WuKongIM/pkg/raftlog"
	"github.com/WuKongIM/WuKongIM/pkg/slot/multiraft"
	"go.etcd.io/raft/v3/raftpb"
)

func init() {
	Register(&Prop{Gen: genC12, NewRunner: func() Runner { return c12Runner{} }})
}

const c12Mod = 4294967291

var errC12Dead = errors.New("c12: process is dead")

// ---- per-node fault state ---------------------------------------------------

type c12Node struct {
	id   multiraft.NodeID
	inc  atomic.Int64 // current process incarnation
	dead atomic.Bool
	// life is held (shared) by every call of a live process for the duration of its
	// effect, and exclusively while a new incarnation takes over: no effect of the old
	// process can land after the restart
	life sync.RWMutex
	// crash points: countdowns; when one reaches zero the node "dies" at that point
	killBeforeSave  atomic.Int64
	killAfterSave   atomic.Int64
	killBeforeApply atomic.Int64
	killAfterApply  atomic.Int64
	died            chan struct{}
	diedOnce        *sync.Once
}

func (n *c12Node) armReset() {
	n.killBeforeSave.Store(-1)
	n.killAfterSave.Store(-1)
	n.killBeforeApply.Store(-1)
	n.killAfterApply.Store(-1)
	n.died = make(chan struct{})
	n.diedOnce = &sync.Once{}
}

func (n *c12Node) die() {
	n.dead.Store(true)
	n.diedOnce.Do(func() { close(n.died) })
}

// hit decrements a countdown and reports whether this call is the crash point
func c12Hit(c *atomic.Int64) bool {
	for {
		v := c.Load()
		if v < 0 {
			return false
		}
		if c.CompareAndSwap(v, v-1) {
			return v == 0
		}
	}
}

// ---- durable storage wrapper --------------------------------------------------

type c12Store struct {
	node  *c12Node
	inc   int64
	inner multiraft.Storage
}

// c12Hang: a call made by a dead process never returns (returning an error instead
// would let the old runtime go on; a failed Save even makes it panic in
// rawNode.Ready: "two accepted Ready structs without call to Advance").
func c12Hang() { select {} }

func c12Alive(n *c12Node, inc int64) bool { return !n.dead.Load() && n.inc.Load() == inc }

// c12Enter: begin a call of a live process (or never return)
func c12Enter(n *c12Node, inc int64) {
	n.life.RLock()
	if !c12Alive(n, inc) {
		n.life.RUnlock()
		c12Hang()
	}
}

func (s *c12Store) chk() error { return nil }
func (s *c12Store) InitialState(ctx context.Context) (multiraft.BootstrapState, error) {
	c12Enter(s.node, s.inc)
	defer s.node.life.RUnlock()
	return s.inner.InitialState(ctx)
}
func (s *c12Store) Entries(ctx context.Context, lo, hi, max uint64) ([]raftpb.Entry, error) {
	c12Enter(s.node, s.inc)
	defer s.node.life.RUnlock()
	return s.inner.Entries(ctx, lo, hi, max)
}
func (s *c12Store) Term(ctx context.Context, i uint64) (uint64, error) {
	c12Enter(s.node, s.inc)
	defer s.node.life.RUnlock()
	return s.inner.Term(ctx, i)
}
func (s *c12Store) FirstIndex(ctx context.Context) (uint64, error) {
	c12Enter(s.node, s.inc)
	defer s.node.life.RUnlock()
	return s.inner.FirstIndex(ctx)
}
func (s *c12Store) LastIndex(ctx context.Context) (uint64, error) {
	c12Enter(s.node, s.inc)
	defer s.node.life.RUnlock()
	return s.inner.LastIndex(ctx)
}
func (s *c12Store) Snapshot(ctx context.Context) (raftpb.Snapshot, error) {
	c12Enter(s.node, s.inc)
	defer s.node.life.RUnlock()
	return s.inner.Snapshot(ctx)
}
func (s *c12Store) Save(ctx context.Context, st multiraft.PersistentState) error {
	c12Enter(s.node, s.inc)
	if c12Hit(&s.node.killBeforeSave) {
		s.node.die()
		s.node.life.RUnlock()
		c12Hang()
	}
	err := s.inner.Save(ctx, st)
	s.node.life.RUnlock()
	if c12Hit(&s.node.killAfterSave) {
		s.node.die() // durable, but the process never gets to send/apply
		c12Hang()
	}
	return err
}
func (s *c12Store) MarkApplied(ctx context.Context, i uint64) error {
	c12Enter(s.node, s.inc)
	defer s.node.life.RUnlock()
	return s.inner.MarkApplied(ctx, i)
}
func (s *c12Store) MarkConfigApplied(ctx context.Context, i uint64) error {
	c12Enter(s.node, s.inc)
	defer s.node.life.RUnlock()
	if c, ok := s.inner.(multiraft.ConfigAppliedIndexStorage); ok {
		return c.MarkConfigApplied(ctx, i)
	}
	return nil
}

// ---- logging state machine (durable across restarts) ---------------------------

type c12Trace struct {
	mu     sync.Mutex
	events []string
}

func (t *c12Trace) add(s string) {
	t.mu.Lock()
	t.events = append(t.events, s)
	t.mu.Unlock()
}

// c12Core is the durable state of one replica's state machine
type c12Core struct {
	mu      sync.Mutex
	applied uint64
	chain   uint64
	// slowEvery > 0: a batch containing a proposal id divisible by it takes a while, so
	// async apply tasks pile up and the MaxApplyingTasks backpressure fallback is reached
	slowEvery uint64
}

// c12SM is one process incarnation's handle on it
type c12SM struct {
	node  *c12Node
	inc   int64
	key   string // "<node>.<slot>"
	trace *c12Trace
	*c12Core
}

func (m *c12SM) chk() { c12Enter(m.node, m.inc) }

func c12ID(data []byte) uint64 {
	if len(data) < 8 {
		return 0
	}
	return binary.BigEndian.Uint64(data[:8])
}

func (m *c12SM) Apply(ctx context.Context, cmd multiraft.Command) ([]byte, error) {
	res, err := m.ApplyBatch(ctx, []multiraft.Command{cmd})
	if err != nil {
		return nil, err
	}
	return res[0], nil
}

func (m *c12SM) ApplyBatch(ctx context.Context, cmds []multiraft.Command) ([][]byte, error) {
	if m.slowEvery > 0 {
		for _, c := range cmds {
			if c12ID(c.Data)%m.slowEvery == 0 {
				time.Sleep(12 * time.Millisecond)
				break
			}
		}
	}
	m.chk()
	if c12Hit(&m.node.killBeforeApply) {
		m.node.die()
		m.node.life.RUnlock()
		c12Hang()
	}
	m.mu.Lock()
	parts := make([]string, len(cmds))
	out := make([][]byte, len(cmds))
	chain := m.chain
	for i, c := range cmds {
		id := c12ID(c.Data)
		chain = (chain*1000003 + id*7 + c.Index) % c12Mod
		parts[i] = fmt.Sprintf("%d=%d", c.Index, id)
		out[i] = []byte(fmt.Sprintf("%d", c.Index))
	}
	m.chain = chain
	if n := len(cmds); n > 0 {
		m.applied = cmds[n-1].Index
	}
	m.trace.add(fmt.Sprintf("T%s:A%s#%d", m.key, strings.Join(parts, ","), chain))
	m.mu.Unlock()
	m.node.life.RUnlock()
	if c12Hit(&m.node.killAfterApply) {
		m.node.die() // the effect is durable, MarkApplied / Advance / future completion never happen
		c12Hang()
	}
	return out, nil
}

func (m *c12SM) DurableAppliedIndex(ctx context.Context) (uint64, error) {
	m.chk()
	defer m.node.life.RUnlock()
	m.mu.Lock()
	defer m.mu.Unlock()
	return m.applied, nil
}

func (m *c12SM) Snapshot(ctx context.Context) (multiraft.Snapshot, error) {
	m.chk()
	defer m.node.life.RUnlock()
	m.mu.Lock()
	defer m.mu.Unlock()
	b := make([]byte, 16)
	binary.BigEndian.PutUint64(b[:8], m.applied)
	binary.BigEndian.PutUint64(b[8:], m.chain)
	m.trace.add(fmt.Sprintf("T%s:S%d#%d", m.key, m.applied, m.chain))
	return multiraft.Snapshot{Data: b}, nil
}

func (m *c12SM) Restore(ctx context.Context, snap multiraft.Snapshot) error {
	m.chk()
	defer m.node.life.RUnlock()
	if len(snap.Data) != 16 {
		return errors.New("c12: bad snapshot")
	}
	m.mu.Lock()
	defer m.mu.Unlock()
	inner := binary.BigEndian.Uint64(snap.Data[:8])
	m.applied = snap.Index
	m.chain = binary.BigEndian.Uint64(snap.Data[8:])
	m.trace.add(fmt.Sprintf("T%s:R%d.%d#%d", m.key, snap.Index, inner, m.chain))
	return nil
}

// ---- network ------------------------------------------------------------------

type c12Net struct {
	mu      sync.Mutex
	rng     *Rand
	drop    int // percent
	dup     int
	maxMS   int
	blocked map[[2]multiraft.NodeID]bool
	rts     map[multiraft.NodeID]*multiraft.Runtime
	closed  bool
	wg      sync.WaitGroup
}

type c12Transport struct {
	net  *c12Net
	from multiraft.NodeID
	node *c12Node
	inc  int64
}

func (t *c12Transport) Send(ctx context.Context, batch []multiraft.Envelope) error {
	n := t.net
	if !c12Alive(t.node, t.inc) {
		return nil // a dead process sends nothing
	}
	for _, env := range batch {
		n.mu.Lock()
		if n.closed {
			n.mu.Unlock()
			return nil
		}
		copies := 1
		if n.rng.Chance(n.drop) {
			copies = 0
		} else if n.rng.Chance(n.dup) {
			copies = 2
		}
		delays := make([]time.Duration, copies)
		for i := range delays {
			delays[i] = time.Duration(n.rng.Intn(n.maxMS*1000+1)) * time.Microsecond
		}
		n.mu.Unlock()
		data, err := env.Message.Marshal()
		if err != nil {
			continue
		}
		for _, d := range delays {
			var msg raftpb.Message
			if err := msg.Unmarshal(data); err != nil {
				continue
			}
			n.wg.Add(1)
			go func(d time.Duration, slot multiraft.SlotID, msg raftpb.Message) {
				defer n.wg.Done()
				time.Sleep(d)
				n.mu.Lock()
				to := multiraft.NodeID(msg.To)
				blocked := n.closed || n.blocked[[2]multiraft.NodeID{t.from, to}]
				rt := n.rts[to]
				n.mu.Unlock()
				if blocked || rt == nil {
					return
				}
				_ = rt.Step(context.Background(), multiraft.Envelope{SlotID: slot, Message: msg})
			}(d, env.SlotID, msg)
		}
	}
	return nil
}

// ---- cluster ------------------------------------------------------------------

type c12Cluster struct {
	net    *c12Net
	nodes  map[multiraft.NodeID]*c12Node
	inner  map[string]multiraft.Storage
	cores  map[string]*c12Core
	trace  *c12Trace
	tick   time.Duration
	// RaftOptions under test
	maxApplying int
	checkQuorum bool
	compactAt   uint64
}

var c12NodeIDs = []multiraft.NodeID{1, 2, 3}
var c12Slots = []multiraft.SlotID{1, 2}

func c12Key(n multiraft.NodeID, s multiraft.SlotID) string { return fmt.Sprintf("%d.%d", n, s) }

func (c *c12Cluster) newRuntime(id multiraft.NodeID) *multiraft.Runtime {
	rt, err := multiraft.New(multiraft.Options{
		NodeID:       id,
		TickInterval: c.tick,
		Workers:      2,
		Transport:    &c12Transport{net: c.net, from: id, node: c.nodes[id], inc: c.nodes[id].inc.Load()},
		Raft: multiraft.RaftOptions{
			ElectionTick:  10,
			HeartbeatTick: 1,
			PreVote:       true,
			CheckQuorum:   c.checkQuorum,
			MaxApplyingTasks: c.maxApplying,
			LogCompaction: multiraft.LogCompactionConfig{Enabled: true, EnabledSet: true, TriggerEntries: c.compactAt, CheckInterval: time.Millisecond},
		},
	})
	if err != nil {
		panic("multiraft.New: " + err.Error())
	}
	return rt
}

func (c *c12Cluster) slotOptions(id multiraft.NodeID, s multiraft.SlotID) multiraft.SlotOptions {
	k := c12Key(id, s)
	n := c.nodes[id]
	inc := n.inc.Load()
	return multiraft.SlotOptions{ID: s,
		Storage:      &c12Store{node: n, inc: inc, inner: c.inner[k]},
		StateMachine: &c12SM{node: n, inc: inc, key: k, trace: c.trace, c12Core: c.cores[k]}}
}

func (c *c12Cluster) leader(s multiraft.SlotID) (multiraft.NodeID, *multiraft.Runtime) {
	c.net.mu.Lock()
	rts := make(map[multiraft.NodeID]*multiraft.Runtime, len(c.net.rts))
	for k, v := range c.net.rts {
		rts[k] = v
	}
	c.net.mu.Unlock()
	for _, id := range c12NodeIDs {
		rt := rts[id]
		if rt == nil || c.nodes[id].dead.Load() {
			continue
		}
		st, err := rt.Status(s)
		if err == nil && st.Role == multiraft.RoleLeader {
			return id, rt
		}
	}
	return 0, nil
}

// restart: the node's process is gone (dead flag already set or set now), a new runtime opens the same durable state
func (c *c12Cluster) restart(id multiraft.NodeID) {
	node := c.nodes[id]
	node.die()
	c.net.mu.Lock()
	delete(c.net.rts, id)
	c.net.mu.Unlock()
	// the old runtime is abandoned, not closed: it is a dead process; whatever it still
	// tries to do hangs in its first storage / state machine call and it sends nothing
	node.life.Lock()
	for _, s := range c12Slots {
		c.trace.add(fmt.Sprintf("T%s:X", c12Key(id, s)))
	}
	node.armReset()
	node.inc.Add(1)
	node.dead.Store(false)
	node.life.Unlock()
	rt := c.newRuntime(id)
	for _, s := range c12Slots {
		if err := rt.OpenSlot(context.Background(), c.slotOptions(id, s)); err != nil {
			c.trace.add(fmt.Sprintf("T%s:Eopen", c12Key(id, s)))
		}
	}
	c.net.mu.Lock()
	c.net.rts[id] = rt
	c.net.mu.Unlock()
}

func c12Run(seed uint64, proposals int, profile string) string {
	r := NewRand(seed)
	c := &c12Cluster{
		net: &c12Net{rng: NewRand(seed ^ 0x5bd1e995), blocked: map[[2]multiraft.NodeID]bool{}, rts: map[multiraft.NodeID]*multiraft.Runtime{},
			maxMS: 3},
		nodes:  map[multiraft.NodeID]*c12Node{},
		inner:  map[string]multiraft.Storage{},
		cores:  map[string]*c12Core{},
		trace:       &c12Trace{},
		tick:        4 * time.Millisecond,
		checkQuorum: true,
		compactAt:   6,
	}
	slowEvery := uint64(0)
	switch profile {
	case "backpressure": // tiny async-apply window + a slow state machine: processReadyAsyncNormal falls back to the synchronous path
		c.net.drop, c.net.dup, c.net.maxMS = 0, 0, 1
		c.maxApplying = 1 + int(seed%2)
		slowEvery = 3
	case "confchange": // directed: see c12ConfChangeCatchUp
		c.net.drop, c.net.dup, c.net.maxMS = 0, 0, 1
		c.compactAt = 100000
	case "stalefuture": // directed: see c12StaleFuture
		c.net.drop, c.net.dup, c.net.maxMS = 0, 0, 1
		c.checkQuorum = false
		c.compactAt = 100000 // the old leader must catch up by log entries, not by a snapshot
	}
	switch profile {
	case "backpressure", "stalefuture", "confchange":
	case "lossy":
		c.net.drop, c.net.dup, c.net.maxMS = 8, 6, 6
	case "calm":
		c.net.drop, c.net.dup, c.net.maxMS = 0, 0, 1
	default: // "faulty"
		c.net.drop, c.net.dup, c.net.maxMS = 4, 4, 4
	}
	for _, id := range c12NodeIDs {
		n := &c12Node{id: id}
		n.armReset()
		c.nodes[id] = n
		for _, s := range c12Slots {
			k := c12Key(id, s)
			c.inner[k] = raftlog.NewMemory()
			c.cores[k] = &c12Core{slowEvery: slowEvery}
		}
	}
	for _, id := range c12NodeIDs {
		rt := c.newRuntime(id)
		c.net.rts[id] = rt
	}
	for _, id := range c12NodeIDs {
		for _, s := range c12Slots {
			err := c.net.rts[id].BootstrapSlot(context.Background(), multiraft.BootstrapSlotRequest{
				Slot: c.slotOptions(id, s), Voters: c12NodeIDs, Campaign: id == multiraft.NodeID(1+int(s)%3)})
			if err != nil {
				panic("bootstrap: " + err.Error())
			}
		}
	}
	var futs []string
	var fmu sync.Mutex
	var fwg sync.WaitGroup
	nextID := uint64(seed%1000)*100000 + 1
	deadline := time.Now().Add(40 * time.Second)
	if profile == "stalefuture" {
		c12StaleFuture(c, r, &nextID, &futs, &fmu, &fwg)
		proposals = 0
	}
	if profile == "confchange" {
		c12ConfChangeCatchUp(c, r, &nextID, &futs, &fmu, &fwg)
		proposals = 0
	}
	for p := 0; p < proposals && time.Now().Before(deadline); p++ {
		// fault injection between proposals (never more than one node down: a minority)
		if profile != "calm" && profile != "backpressure" {
			switch r.Pick(70, 6, 5, 5, 5, 4, 5) {
			case 1: // crash at a driver point, then restart
				id := c12NodeIDs[r.Intn(3)]
				n := c.nodes[id]
				cnt := int64(r.Intn(3))
				switch r.Intn(4) {
				case 0:
					n.killBeforeSave.Store(cnt)
				case 1:
					n.killAfterSave.Store(cnt)
				case 2:
					n.killBeforeApply.Store(cnt)
				default:
					n.killAfterApply.Store(cnt)
				}
				// keep the workload going so the crash point is reached, then restart
				go func(died chan struct{}) {
					select {
					case <-died:
					case <-time.After(300 * time.Millisecond):
					}
				}(n.died)
				c12Propose(c, r, &nextID, &futs, &fmu, &fwg)
				select {
				case <-n.died:
				case <-time.After(400 * time.Millisecond):
				}
				c.restart(id)
			case 2: // plain kill -9 and restart
				c.restart(c12NodeIDs[r.Intn(3)])
			case 3: // partition one node for a while
				id := c12NodeIDs[r.Intn(3)]
				c.net.mu.Lock()
				for _, o := range c12NodeIDs {
					if o != id {
						c.net.blocked[[2]multiraft.NodeID{id, o}] = true
						c.net.blocked[[2]multiraft.NodeID{o, id}] = true
					}
				}
				c.net.mu.Unlock()
			case 4: // heal
				c.net.mu.Lock()
				c.net.blocked = map[[2]multiraft.NodeID]bool{}
				c.net.mu.Unlock()
			case 5: // leader transfer
				s := c12Slots[r.Intn(len(c12Slots))]
				if _, rt := c.leader(s); rt != nil {
					_ = rt.TransferLeadership(context.Background(), s, c12NodeIDs[r.Intn(3)])
				}
			case 6: // one-way link loss
				a, b := c12NodeIDs[r.Intn(3)], c12NodeIDs[r.Intn(3)]
				if a != b {
					c.net.mu.Lock()
					c.net.blocked[[2]multiraft.NodeID{a, b}] = true
					c.net.mu.Unlock()
				}
			}
		}
		c12Propose(c, r, &nextID, &futs, &fmu, &fwg)
		if r.Chance(30) {
			time.Sleep(time.Duration(r.Intn(8)) * time.Millisecond)
		}
	}
	// settle: heal, give replicas a moment to catch up (no assertion on it)
	c.net.mu.Lock()
	c.net.blocked = map[[2]multiraft.NodeID]bool{}
	c.net.drop, c.net.dup = 0, 0
	c.net.mu.Unlock()
	waitDone := make(chan struct{})
	go func() { fwg.Wait(); close(waitDone) }()
	select {
	case <-waitDone:
	case <-time.After(6 * time.Second):
	}
	settle := time.Now().Add(1500 * time.Millisecond)
	for time.Now().Before(settle) {
		same := true
		for _, s := range c12Slots {
			var ref uint64
			for i, id := range c12NodeIDs {
				core := c.cores[c12Key(id, s)]
				core.mu.Lock()
				a := core.applied
				core.mu.Unlock()
				if i == 0 {
					ref = a
				} else if a != ref {
					same = false
				}
			}
		}
		if same {
			break
		}
		time.Sleep(20 * time.Millisecond)
	}
	// stop
	c.net.mu.Lock()
	c.net.closed = true
	rts := c.net.rts
	c.net.rts = map[multiraft.NodeID]*multiraft.Runtime{}
	c.net.mu.Unlock()
	for _, rt := range rts {
		done := make(chan struct{})
		go func(rt *multiraft.Runtime) { _ = rt.Close(); close(done) }(rt)
		select {
		case <-done:
		case <-time.After(10 * time.Second):
		}
	}
	c.trace.mu.Lock()
	ev := append([]string(nil), c.trace.events...)
	c.trace.mu.Unlock()
	fmu.Lock()
	ev = append(ev, futs...)
	fmu.Unlock()
	if len(ev) == 0 {
		return "-"
	}
	return strings.Join(ev, " ")
}

// c12ProposeOn proposes one fresh command on a given runtime and records its future
func c12ProposeOn(rt *multiraft.Runtime, s multiraft.SlotID, nextID *uint64, futs *[]string, fmu *sync.Mutex, fwg *sync.WaitGroup, wait time.Duration) {
	id := *nextID
	*nextID++
	data := make([]byte, 18)
	binary.BigEndian.PutUint64(data[10:], id)
	fut, err := rt.Propose(context.Background(), s, data)
	if err != nil {
		fmu.Lock()
		*futs = append(*futs, fmt.Sprintf("F%d.%d:rejected", s, id))
		fmu.Unlock()
		return
	}
	fwg.Add(1)
	go func() {
		defer fwg.Done()
		ctx, cancel := context.WithTimeout(context.Background(), wait)
		defer cancel()
		res, err := fut.Wait(ctx)
		fmu.Lock()
		defer fmu.Unlock()
		switch {
		case err == nil:
			*futs = append(*futs, fmt.Sprintf("F%d.%d:ok@%d.%d=%s", s, id, res.Index, res.Term, string(res.Data)))
		case errors.Is(err, context.DeadlineExceeded):
			*futs = append(*futs, fmt.Sprintf("F%d.%d:timeout", s, id))
		default:
			*futs = append(*futs, fmt.Sprintf("F%d.%d:err", s, id))
		}
	}()
}

// c12StaleFuture — directed schedule for the term fence of proposal futures: the leader is cut
// off (CheckQuorum off, so it keeps believing it leads), k >= 3 proposals are tracked on it at
// (i.., t); the majority elects a new leader which commits MORE than k other commands on the same
// indexes in term t+1; then the partition heals and the old leader receives, in one Ready, the
// conflicting entries together with their commit.  Its old futures must fail; none may be resolved
// with the result of the command that took its index.
func c12StaleFuture(c *c12Cluster, r *Rand, nextID *uint64, futs *[]string, fmu *sync.Mutex, fwg *sync.WaitGroup) {
	s := c12Slots[0]
	wait := func(cond func() bool, d time.Duration) bool {
		end := time.Now().Add(d)
		for time.Now().Before(end) {
			if cond() {
				return true
			}
			time.Sleep(5 * time.Millisecond)
		}
		return false
	}
	var old multiraft.NodeID
	var oldRT *multiraft.Runtime
	if !wait(func() bool { old, oldRT = c.leader(s); return oldRT != nil }, 5*time.Second) {
		return
	}
	for i := 0; i < 3; i++ { // some ordinary traffic first
		c12ProposeOn(oldRT, s, nextID, futs, fmu, fwg, 3*time.Second)
	}
	time.Sleep(60 * time.Millisecond)
	c.net.mu.Lock()
	for _, o := range c12NodeIDs {
		if o != old {
			c.net.blocked[[2]multiraft.NodeID{old, o}] = true
			c.net.blocked[[2]multiraft.NodeID{o, old}] = true
		}
	}
	c.net.mu.Unlock()
	k := r.Range(3, 5)
	for i := 0; i < k; i++ { // tracked on the isolated leader, can never commit there
		c12ProposeOn(oldRT, s, nextID, futs, fmu, fwg, 2500*time.Millisecond)
	}
	// the majority elects a new leader
	var newRT *multiraft.Runtime
	ok := wait(func() bool {
		c.net.mu.Lock()
		rts := map[multiraft.NodeID]*multiraft.Runtime{}
		for id, rt := range c.net.rts {
			rts[id] = rt
		}
		c.net.mu.Unlock()
		for _, id := range c12NodeIDs {
			if id == old {
				continue
			}
			if st, err := rts[id].Status(s); err == nil && st.Role == multiraft.RoleLeader {
				newRT = rts[id]
				return true
			}
		}
		return false
	}, 5*time.Second)
	if ok {
		var mine []string
		var mmu sync.Mutex
		var mwg sync.WaitGroup
		for i := 0; i < k+3; i++ {
			c12ProposeOn(newRT, s, nextID, &mine, &mmu, &mwg, 3*time.Second)
		}
		mwg.Wait() // committed by the majority before the heal
		fmu.Lock()
		*futs = append(*futs, mine...)
		fmu.Unlock()
	}
	c.net.mu.Lock()
	c.net.blocked = map[[2]multiraft.NodeID]bool{}
	c.net.mu.Unlock()
}

// c12ConfChangeCatchUp — directed schedule for the flush of pending normal entries in front of a
// membership change: one follower is cut off, the leader commits ONE command, then a ConfChange
// (add learner), then more commands; the follower heals and receives the whole backlog in one
// Ready, i.e. a committed span `normal, ConfChange, normal, normal…` that applyCommittedEntries must
// flush around the ConfChange without handing any command to the state machine twice.  The same
// is repeated with 2 commands in front of a second ConfChange (remove the learner again).
func c12ConfChangeCatchUp(c *c12Cluster, r *Rand, nextID *uint64, futs *[]string, fmu *sync.Mutex, fwg *sync.WaitGroup) {
	s := c12Slots[0]
	wait := func(cond func() bool, d time.Duration) bool {
		end := time.Now().Add(d)
		for time.Now().Before(end) {
			if cond() {
				return true
			}
			time.Sleep(5 * time.Millisecond)
		}
		return false
	}
	appliedOf := func(id multiraft.NodeID) uint64 {
		core := c.cores[c12Key(id, s)]
		core.mu.Lock()
		defer core.mu.Unlock()
		return core.applied
	}
	var lead multiraft.NodeID
	var rt *multiraft.Runtime
	if !wait(func() bool { lead, rt = c.leader(s); return rt != nil }, 5*time.Second) {
		return
	}
	sync1 := func(n int) { // n proposals on the leader, wait until they are committed
		var mine []string
		var mmu sync.Mutex
		var mwg sync.WaitGroup
		for i := 0; i < n; i++ {
			c12ProposeOn(rt, s, nextID, &mine, &mmu, &mwg, 3*time.Second)
		}
		mwg.Wait()
		fmu.Lock()
		*futs = append(*futs, mine...)
		fmu.Unlock()
	}
	sync1(2)
	follower := c12NodeIDs[0]
	if follower == lead {
		follower = c12NodeIDs[1]
	}
	for round := 0; round < 2; round++ {
		wait(func() bool { return appliedOf(follower) == appliedOf(lead) }, 3*time.Second)
		c.net.mu.Lock()
		for _, o := range c12NodeIDs {
			if o != follower {
				c.net.blocked[[2]multiraft.NodeID{follower, o}] = true
				c.net.blocked[[2]multiraft.NodeID{o, follower}] = true
			}
		}
		c.net.mu.Unlock()
		sync1(1 + round) // exactly one (then two) commands in front of the membership change
		change := multiraft.ConfigChange{Type: multiraft.AddLearner, NodeID: 4}
		if round == 1 {
			change = multiraft.ConfigChange{Type: multiraft.RemoveVoter, NodeID: 4}
		}
		if fut, err := rt.ChangeConfig(context.Background(), s, change); err == nil {
			ctx, cancel := context.WithTimeout(context.Background(), 3*time.Second)
			_, _ = fut.Wait(ctx)
			cancel()
		}
		sync1(r.Range(2, 3))
		c.net.mu.Lock()
		c.net.blocked = map[[2]multiraft.NodeID]bool{}
		c.net.mu.Unlock()
		wait(func() bool { return appliedOf(follower) == appliedOf(lead) }, 3*time.Second)
	}
}

func c12Propose(c *c12Cluster, r *Rand, nextID *uint64, futs *[]string, fmu *sync.Mutex, fwg *sync.WaitGroup) {
	s := c12Slots[r.Intn(len(c12Slots))]
	id := *nextID
	*nextID++
	data := make([]byte, 18)
	binary.BigEndian.PutUint64(data[10:], id)
	var rt *multiraft.Runtime
	for try := 0; try < 40 && rt == nil; try++ {
		_, rt = c.leader(s)
		if rt == nil {
			time.Sleep(5 * time.Millisecond)
		}
	}
	if rt == nil {
		fmu.Lock()
		*futs = append(*futs, fmt.Sprintf("F%d.%d:noleader", s, id))
		fmu.Unlock()
		return
	}
	fut, err := rt.Propose(context.Background(), s, data)
	if err != nil {
		fmu.Lock()
		*futs = append(*futs, fmt.Sprintf("F%d.%d:rejected", s, id))
		fmu.Unlock()
		return
	}
	fwg.Add(1)
	go func() {
		defer fwg.Done()
		ctx, cancel := context.WithTimeout(context.Background(), 3*time.Second)
		defer cancel()
		res, err := fut.Wait(ctx)
		fmu.Lock()
		defer fmu.Unlock()
		switch {
		case err == nil:
			*futs = append(*futs, fmt.Sprintf("F%d.%d:ok@%d.%d=%s", s, id, res.Index, res.Term, string(res.Data)))
		case errors.Is(err, context.DeadlineExceeded):
			*futs = append(*futs, fmt.Sprintf("F%d.%d:timeout", s, id))
		default:
			*futs = append(*futs, fmt.Sprintf("F%d.%d:err", s, id))
		}
	}()
}

// ---- runner / generator ---------------------------------------------------------

type c12Runner struct{}

func (c12Runner) Close() {}

func (c12Runner) Step(op string) string {
	f := strings.Fields(op)
	if len(f) != 4 || f[0] != "sched" {
		return "bad-op"
	}
	seed, e1 := strconv.ParseUint(f[1], 10, 64)
	n, e2 := strconv.Atoi(f[2])
	if e1 != nil || e2 != nil || n < 1 || n > 2000 {
		return "bad-op"
	}
	return c12Run(seed, n, f[3])
}

func genC12(g *Gen) {
	for i := 0; i < g.N; i++ {
		g.Case()
		// the first two schedules of every run are the directed ones
		profile := []string{"faulty", "faulty", "lossy", "calm"}[g.R.Pick(5, 3, 3, 1)]
		switch i {
		case 0:
			profile = "stalefuture"
		case 1:
			profile = "backpressure"
		case 2:
			profile = "confchange"
		}
		g.Count("profile:" + profile)
		n := g.R.Range(40, 90)
		if g.Tier == "thorough" {
			n = g.R.Range(80, 200)
		}
		g.Op("sched", "%d %d %s", g.R.U64()%1000000, n, profile)
	}
}

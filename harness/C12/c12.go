//go:build verif

package main

// C12 — slot Raft replicas apply identical command sequences (trace acceptance).
//
// One op = one schedule: a 3-node in-process cluster of real multiraft.Runtime
// instances (2 slots, the repo's raftlog.NewMemory() as durable storage, a
// logging state machine with an atomic durable applied index, like the real
// slot FSM) driven by a seeded lossy / duplicating / delaying / partitioning
// transport, with log compaction, snapshot catch-up, leader transfers and
// crash-restarts of a minority injected at chosen points of the Ready driver
// (before a Save, after a Save, before an ApplyBatch, after an ApplyBatch).
// The output is the trace: every ApplyBatch / Restore / restart per replica and
// every proposal future result.  Nothing about timing is asserted; the Lean
// driver is the acceptor.

import (
	"context"
	"encoding/binary"
	"errors"
	"fmt"
	"strconv"
	"strings"
	"sync"
	"sync/atomic"
	"time"

	"github.com/WuKongIM/WuKongIM/pkg/raftlog"
	"github.com/WuKongIM/WuKongIM/pkg/slot/multiraft"
	"go.etcd.io/raft/v3/raftpb"
)

func init() {
	Register(&Prop{Gen: genC12, NewRunner: func() Runner { return c12Runner{} }})
}

const c12Mod = 4294967291

var errC12Dead = errors.New("c12: process is dead")

// ---- per-node fault state ---------------------------------------------------

type c12Node struct {
	id   multiraft.NodeID
	dead atomic.Bool
	// crash points: countdowns; when one reaches zero the node "dies" at that point
	killBeforeSave  atomic.Int64
	killAfterSave   atomic.Int64
	killBeforeApply atomic.Int64
	killAfterApply  atomic.Int64
	died            chan struct{}
	diedOnce        *sync.Once
}

func (n *c12Node) armReset() {
	n.killBeforeSave.Store(-1)
	n.killAfterSave.Store(-1)
	n.killBeforeApply.Store(-1)
	n.killAfterApply.Store(-1)
	n.died = make(chan struct{})
	n.diedOnce = &sync.Once{}
}

func (n *c12Node) die() {
	n.dead.Store(true)
	n.diedOnce.Do(func() { close(n.died) })
}

// hit decrements a countdown and reports whether this call is the crash point
func c12Hit(c *atomic.Int64) bool {
	for {
		v := c.Load()
		if v < 0 {
			return false
		}
		if c.CompareAndSwap(v, v-1) {
			return v == 0
		}
	}
}

// ---- durable storage wrapper --------------------------------------------------

type c12Store struct {
	node  *c12Node
	inner multiraft.Storage
}

func (s *c12Store) chk() error {
	if s.node.dead.Load() {
		return errC12Dead
	}
	return nil
}
func (s *c12Store) InitialState(ctx context.Context) (multiraft.BootstrapState, error) {
	if err := s.chk(); err != nil {
		return multiraft.BootstrapState{}, err
	}
	return s.inner.InitialState(ctx)
}
func (s *c12Store) Entries(ctx context.Context, lo, hi, max uint64) ([]raftpb.Entry, error) {
	if err := s.chk(); err != nil {
		return nil, err
	}
	return s.inner.Entries(ctx, lo, hi, max)
}
func (s *c12Store) Term(ctx context.Context, i uint64) (uint64, error) {
	if err := s.chk(); err != nil {
		return 0, err
	}
	return s.inner.Term(ctx, i)
}
func (s *c12Store) FirstIndex(ctx context.Context) (uint64, error) {
	if err := s.chk(); err != nil {
		return 0, err
	}
	return s.inner.FirstIndex(ctx)
}
func (s *c12Store) LastIndex(ctx context.Context) (uint64, error) {
	if err := s.chk(); err != nil {
		return 0, err
	}
	return s.inner.LastIndex(ctx)
}
func (s *c12Store) Snapshot(ctx context.Context) (raftpb.Snapshot, error) {
	if err := s.chk(); err != nil {
		return raftpb.Snapshot{}, err
	}
	return s.inner.Snapshot(ctx)
}
func (s *c12Store) Save(ctx context.Context, st multiraft.PersistentState) error {
	if err := s.chk(); err != nil {
		return err
	}
	if c12Hit(&s.node.killBeforeSave) {
		s.node.die()
		return errC12Dead
	}
	err := s.inner.Save(ctx, st)
	if c12Hit(&s.node.killAfterSave) {
		s.node.die() // durable, but the process never gets to send/apply
		return errC12Dead
	}
	return err
}
func (s *c12Store) MarkApplied(ctx context.Context, i uint64) error {
	if err := s.chk(); err != nil {
		return err
	}
	return s.inner.MarkApplied(ctx, i)
}
func (s *c12Store) MarkConfigApplied(ctx context.Context, i uint64) error {
	if err := s.chk(); err != nil {
		return err
	}
	if c, ok := s.inner.(multiraft.ConfigAppliedIndexStorage); ok {
		return c.MarkConfigApplied(ctx, i)
	}
	return nil
}

// ---- logging state machine (durable across restarts) ---------------------------

type c12Trace struct {
	mu     sync.Mutex
	events []string
}

func (t *c12Trace) add(s string) {
	t.mu.Lock()
	t.events = append(t.events, s)
	t.mu.Unlock()
}

type c12SM struct {
	node  *c12Node
	key   string // "<node>.<slot>"
	trace *c12Trace
	mu    sync.Mutex
	// durable state, changed atomically
	applied uint64
	chain   uint64
}

func c12ID(data []byte) uint64 {
	if len(data) < 8 {
		return 0
	}
	return binary.BigEndian.Uint64(data[:8])
}

func (m *c12SM) Apply(ctx context.Context, cmd multiraft.Command) ([]byte, error) {
	res, err := m.ApplyBatch(ctx, []multiraft.Command{cmd})
	if err != nil {
		return nil, err
	}
	return res[0], nil
}

func (m *c12SM) ApplyBatch(ctx context.Context, cmds []multiraft.Command) ([][]byte, error) {
	if m.node.dead.Load() {
		return nil, errC12Dead
	}
	if c12Hit(&m.node.killBeforeApply) {
		m.node.die()
		return nil, errC12Dead
	}
	m.mu.Lock()
	parts := make([]string, len(cmds))
	out := make([][]byte, len(cmds))
	chain := m.chain
	for i, c := range cmds {
		id := c12ID(c.Data)
		chain = (chain*1000003 + id*7 + c.Index) % c12Mod
		parts[i] = fmt.Sprintf("%d=%d", c.Index, id)
		out[i] = []byte(fmt.Sprintf("%d", c.Index))
	}
	m.chain = chain
	if n := len(cmds); n > 0 {
		m.applied = cmds[n-1].Index
	}
	m.trace.add(fmt.Sprintf("T%s:A%s#%d", m.key, strings.Join(parts, ","), chain))
	m.mu.Unlock()
	if c12Hit(&m.node.killAfterApply) {
		m.node.die() // the effect is durable, MarkApplied / Advance / future completion never happen
		return nil, errC12Dead
	}
	return out, nil
}

func (m *c12SM) DurableAppliedIndex(ctx context.Context) (uint64, error) {
	if m.node.dead.Load() {
		return 0, errC12Dead
	}
	m.mu.Lock()
	defer m.mu.Unlock()
	return m.applied, nil
}

func (m *c12SM) Snapshot(ctx context.Context) (multiraft.Snapshot, error) {
	if m.node.dead.Load() {
		return multiraft.Snapshot{}, errC12Dead
	}
	m.mu.Lock()
	defer m.mu.Unlock()
	b := make([]byte, 16)
	binary.BigEndian.PutUint64(b[:8], m.applied)
	binary.BigEndian.PutUint64(b[8:], m.chain)
	m.trace.add(fmt.Sprintf("T%s:S%d#%d", m.key, m.applied, m.chain))
	return multiraft.Snapshot{Data: b}, nil
}

func (m *c12SM) Restore(ctx context.Context, snap multiraft.Snapshot) error {
	if m.node.dead.Load() {
		return errC12Dead
	}
	if len(snap.Data) != 16 {
		return errors.New("c12: bad snapshot")
	}
	m.mu.Lock()
	defer m.mu.Unlock()
	inner := binary.BigEndian.Uint64(snap.Data[:8])
	m.applied = snap.Index
	m.chain = binary.BigEndian.Uint64(snap.Data[8:])
	m.trace.add(fmt.Sprintf("T%s:R%d.%d#%d", m.key, snap.Index, inner, m.chain))
	return nil
}

// ---- network ------------------------------------------------------------------

type c12Net struct {
	mu      sync.Mutex
	rng     *Rand
	drop    int // percent
	dup     int
	maxMS   int
	blocked map[[2]multiraft.NodeID]bool
	rts     map[multiraft.NodeID]*multiraft.Runtime
	closed  bool
	wg      sync.WaitGroup
}

type c12Transport struct {
	net  *c12Net
	from multiraft.NodeID
}

func (t *c12Transport) Send(ctx context.Context, batch []multiraft.Envelope) error {
	n := t.net
	for _, env := range batch {
		n.mu.Lock()
		if n.closed {
			n.mu.Unlock()
			return nil
		}
		copies := 1
		if n.rng.Chance(n.drop) {
			copies = 0
		} else if n.rng.Chance(n.dup) {
			copies = 2
		}
		delays := make([]time.Duration, copies)
		for i := range delays {
			delays[i] = time.Duration(n.rng.Intn(n.maxMS*1000+1)) * time.Microsecond
		}
		n.mu.Unlock()
		data, err := env.Message.Marshal()
		if err != nil {
			continue
		}
		for _, d := range delays {
			var msg raftpb.Message
			if err := msg.Unmarshal(data); err != nil {
				continue
			}
			n.wg.Add(1)
			go func(d time.Duration, slot multiraft.SlotID, msg raftpb.Message) {
				defer n.wg.Done()
				time.Sleep(d)
				n.mu.Lock()
				to := multiraft.NodeID(msg.To)
				blocked := n.closed || n.blocked[[2]multiraft.NodeID{t.from, to}]
				rt := n.rts[to]
				n.mu.Unlock()
				if blocked || rt == nil {
					return
				}
				_ = rt.Step(context.Background(), multiraft.Envelope{SlotID: slot, Message: msg})
			}(d, env.SlotID, msg)
		}
	}
	return nil
}

// ---- cluster ------------------------------------------------------------------

type c12Cluster struct {
	net    *c12Net
	nodes  map[multiraft.NodeID]*c12Node
	stores map[string]*c12Store
	sms    map[string]*c12SM
	trace  *c12Trace
	tick   time.Duration
}

var c12NodeIDs = []multiraft.NodeID{1, 2, 3}
var c12Slots = []multiraft.SlotID{1, 2}

func c12Key(n multiraft.NodeID, s multiraft.SlotID) string { return fmt.Sprintf("%d.%d", n, s) }

func (c *c12Cluster) newRuntime(id multiraft.NodeID) *multiraft.Runtime {
	rt, err := multiraft.New(multiraft.Options{
		NodeID:       id,
		TickInterval: c.tick,
		Workers:      2,
		Transport:    &c12Transport{net: c.net, from: id},
		Raft: multiraft.RaftOptions{
			ElectionTick:  10,
			HeartbeatTick: 1,
			PreVote:       true,
			CheckQuorum:   true,
			LogCompaction: multiraft.LogCompactionConfig{Enabled: true, EnabledSet: true, TriggerEntries: 6, CheckInterval: time.Millisecond},
		},
	})
	if err != nil {
		panic("multiraft.New: " + err.Error())
	}
	return rt
}

func (c *c12Cluster) slotOptions(id multiraft.NodeID, s multiraft.SlotID) multiraft.SlotOptions {
	k := c12Key(id, s)
	return multiraft.SlotOptions{ID: s, Storage: c.stores[k], StateMachine: c.sms[k]}
}

func (c *c12Cluster) leader(s multiraft.SlotID) (multiraft.NodeID, *multiraft.Runtime) {
	c.net.mu.Lock()
	rts := make(map[multiraft.NodeID]*multiraft.Runtime, len(c.net.rts))
	for k, v := range c.net.rts {
		rts[k] = v
	}
	c.net.mu.Unlock()
	for _, id := range c12NodeIDs {
		rt := rts[id]
		if rt == nil || c.nodes[id].dead.Load() {
			continue
		}
		st, err := rt.Status(s)
		if err == nil && st.Role == multiraft.RoleLeader {
			return id, rt
		}
	}
	return 0, nil
}

// restart: the node's process is gone (dead flag already set or set now), a new runtime opens the same durable state
func (c *c12Cluster) restart(id multiraft.NodeID) {
	node := c.nodes[id]
	node.die()
	c.net.mu.Lock()
	old := c.net.rts[id]
	delete(c.net.rts, id)
	c.net.mu.Unlock()
	if old != nil {
		done := make(chan struct{})
		go func() { _ = old.Close(); close(done) }()
		select {
		case <-done:
		case <-time.After(10 * time.Second):
			// a wedged Close is not this property's business; leave the zombie, it can do nothing (dead flag)
		}
	}
	// new incarnation
	for _, s := range c12Slots {
		c.trace.add(fmt.Sprintf("T%s:X", c12Key(id, s)))
	}
	node.armReset()
	node.dead.Store(false)
	rt := c.newRuntime(id)
	for _, s := range c12Slots {
		if err := rt.OpenSlot(context.Background(), c.slotOptions(id, s)); err != nil {
			c.trace.add(fmt.Sprintf("T%s:Eopen", c12Key(id, s)))
		}
	}
	c.net.mu.Lock()
	c.net.rts[id] = rt
	c.net.mu.Unlock()
}

func c12Run(seed uint64, proposals int, profile string) string {
	r := NewRand(seed)
	c := &c12Cluster{
		net: &c12Net{rng: NewRand(seed ^ 0x5bd1e995), blocked: map[[2]multiraft.NodeID]bool{}, rts: map[multiraft.NodeID]*multiraft.Runtime{},
			maxMS: 3},
		nodes:  map[multiraft.NodeID]*c12Node{},
		stores: map[string]*c12Store{},
		sms:    map[string]*c12SM{},
		trace:  &c12Trace{},
		tick:   4 * time.Millisecond,
	}
	switch profile {
	case "lossy":
		c.net.drop, c.net.dup, c.net.maxMS = 8, 6, 6
	case "calm":
		c.net.drop, c.net.dup, c.net.maxMS = 0, 0, 1
	default: // "faulty"
		c.net.drop, c.net.dup, c.net.maxMS = 4, 4, 4
	}
	for _, id := range c12NodeIDs {
		n := &c12Node{id: id}
		n.armReset()
		c.nodes[id] = n
		for _, s := range c12Slots {
			k := c12Key(id, s)
			c.stores[k] = &c12Store{node: n, inner: raftlog.NewMemory()}
			c.sms[k] = &c12SM{node: n, key: k, trace: c.trace}
		}
	}
	for _, id := range c12NodeIDs {
		rt := c.newRuntime(id)
		c.net.rts[id] = rt
	}
	for _, id := range c12NodeIDs {
		for _, s := range c12Slots {
			err := c.net.rts[id].BootstrapSlot(context.Background(), multiraft.BootstrapSlotRequest{
				Slot: c.slotOptions(id, s), Voters: c12NodeIDs, Campaign: id == multiraft.NodeID(1+int(s)%3)})
			if err != nil {
				panic("bootstrap: " + err.Error())
			}
		}
	}
	var futs []string
	var fmu sync.Mutex
	var fwg sync.WaitGroup
	nextID := uint64(seed%1000)*100000 + 1
	deadline := time.Now().Add(40 * time.Second)
	for p := 0; p < proposals && time.Now().Before(deadline); p++ {
		// fault injection between proposals (never more than one node down: a minority)
		if profile != "calm" {
			switch r.Pick(70, 6, 5, 5, 5, 4, 5) {
			case 1: // crash at a driver point, then restart
				id := c12NodeIDs[r.Intn(3)]
				n := c.nodes[id]
				cnt := int64(r.Intn(3))
				switch r.Intn(4) {
				case 0:
					n.killBeforeSave.Store(cnt)
				case 1:
					n.killAfterSave.Store(cnt)
				case 2:
					n.killBeforeApply.Store(cnt)
				default:
					n.killAfterApply.Store(cnt)
				}
				// keep the workload going so the crash point is reached, then restart
				go func(died chan struct{}) {
					select {
					case <-died:
					case <-time.After(300 * time.Millisecond):
					}
				}(n.died)
				c12Propose(c, r, &nextID, &futs, &fmu, &fwg)
				select {
				case <-n.died:
				case <-time.After(400 * time.Millisecond):
				}
				c.restart(id)
			case 2: // plain kill -9 and restart
				c.restart(c12NodeIDs[r.Intn(3)])
			case 3: // partition one node for a while
				id := c12NodeIDs[r.Intn(3)]
				c.net.mu.Lock()
				for _, o := range c12NodeIDs {
					if o != id {
						c.net.blocked[[2]multiraft.NodeID{id, o}] = true
						c.net.blocked[[2]multiraft.NodeID{o, id}] = true
					}
				}
				c.net.mu.Unlock()
			case 4: // heal
				c.net.mu.Lock()
				c.net.blocked = map[[2]multiraft.NodeID]bool{}
				c.net.mu.Unlock()
			case 5: // leader transfer
				s := c12Slots[r.Intn(len(c12Slots))]
				if _, rt := c.leader(s); rt != nil {
					_ = rt.TransferLeadership(context.Background(), s, c12NodeIDs[r.Intn(3)])
				}
			case 6: // one-way link loss
				a, b := c12NodeIDs[r.Intn(3)], c12NodeIDs[r.Intn(3)]
				if a != b {
					c.net.mu.Lock()
					c.net.blocked[[2]multiraft.NodeID{a, b}] = true
					c.net.mu.Unlock()
				}
			}
		}
		c12Propose(c, r, &nextID, &futs, &fmu, &fwg)
		if r.Chance(30) {
			time.Sleep(time.Duration(r.Intn(8)) * time.Millisecond)
		}
	}
	// settle: heal, give replicas a moment to catch up (no assertion on it)
	c.net.mu.Lock()
	c.net.blocked = map[[2]multiraft.NodeID]bool{}
	c.net.drop, c.net.dup = 0, 0
	c.net.mu.Unlock()
	waitDone := make(chan struct{})
	go func() { fwg.Wait(); close(waitDone) }()
	select {
	case <-waitDone:
	case <-time.After(6 * time.Second):
	}
	settle := time.Now().Add(1500 * time.Millisecond)
	for time.Now().Before(settle) {
		same := true
		for _, s := range c12Slots {
			var ref uint64
			for i, id := range c12NodeIDs {
				a, _ := c.sms[c12Key(id, s)].DurableAppliedIndex(context.Background())
				if i == 0 {
					ref = a
				} else if a != ref {
					same = false
				}
			}
		}
		if same {
			break
		}
		time.Sleep(20 * time.Millisecond)
	}
	// stop
	c.net.mu.Lock()
	c.net.closed = true
	rts := c.net.rts
	c.net.rts = map[multiraft.NodeID]*multiraft.Runtime{}
	c.net.mu.Unlock()
	for _, rt := range rts {
		done := make(chan struct{})
		go func(rt *multiraft.Runtime) { _ = rt.Close(); close(done) }(rt)
		select {
		case <-done:
		case <-time.After(10 * time.Second):
		}
	}
	c.trace.mu.Lock()
	ev := append([]string(nil), c.trace.events...)
	c.trace.mu.Unlock()
	fmu.Lock()
	ev = append(ev, futs...)
	fmu.Unlock()
	if len(ev) == 0 {
		return "-"
	}
	return strings.Join(ev, " ")
}

func c12Propose(c *c12Cluster, r *Rand, nextID *uint64, futs *[]string, fmu *sync.Mutex, fwg *sync.WaitGroup) {
	s := c12Slots[r.Intn(len(c12Slots))]
	id := *nextID
	*nextID++
	data := make([]byte, 18)
	binary.BigEndian.PutUint64(data[10:], id)
	var rt *multiraft.Runtime
	for try := 0; try < 40 && rt == nil; try++ {
		_, rt = c.leader(s)
		if rt == nil {
			time.Sleep(5 * time.Millisecond)
		}
	}
	if rt == nil {
		fmu.Lock()
		*futs = append(*futs, fmt.Sprintf("F%d.%d:noleader", s, id))
		fmu.Unlock()
		return
	}
	fut, err := rt.Propose(context.Background(), s, data)
	if err != nil {
		fmu.Lock()
		*futs = append(*futs, fmt.Sprintf("F%d.%d:rejected", s, id))
		fmu.Unlock()
		return
	}
	fwg.Add(1)
	go func() {
		defer fwg.Done()
		ctx, cancel := context.WithTimeout(context.Background(), 3*time.Second)
		defer cancel()
		res, err := fut.Wait(ctx)
		fmu.Lock()
		defer fmu.Unlock()
		switch {
		case err == nil:
			*futs = append(*futs, fmt.Sprintf("F%d.%d:ok@%d.%d=%s", s, id, res.Index, res.Term, string(res.Data)))
		case errors.Is(err, context.DeadlineExceeded):
			*futs = append(*futs, fmt.Sprintf("F%d.%d:timeout", s, id))
		default:
			*futs = append(*futs, fmt.Sprintf("F%d.%d:err", s, id))
		}
	}()
}

// ---- runner / generator ---------------------------------------------------------

type c12Runner struct{}

func (c12Runner) Close() {}

func (c12Runner) Step(op string) string {
	f := strings.Fields(op)
	if len(f) != 4 || f[0] != "sched" {
		return "bad-op"
	}
	seed, e1 := strconv.ParseUint(f[1], 10, 64)
	n, e2 := strconv.Atoi(f[2])
	if e1 != nil || e2 != nil || n < 1 || n > 2000 {
		return "bad-op"
	}
	return c12Run(seed, n, f[3])
}

func genC12(g *Gen) {
	for i := 0; i < g.N; i++ {
		g.Case()
		profile := []string{"faulty", "faulty", "lossy", "calm"}[g.R.Pick(5, 3, 3, 1)]
		g.Count("profile:" + profile)
		n := g.R.Range(40, 90)
		if g.Tier == "thorough" {
			n = g.R.Range(80, 200)
		}
		g.Op("sched", "%d %d %s", g.R.U64()%1000000, n, profile)
	}
}

//go:build verif

package main

// C14 — the durable Raft log behaves as a correct Raft storage.
//
// The same history is run on (i) the Pebble store (three scopes on one DB),
// (ii) the repo's in-memory store raftlog.NewMemory(), and the Lean driver runs
// (iii) the spec; after every mutation the full read API of the touched scope is
// dumped from both Go stores.  `reopen` closes and reopens the Pebble DB and
// dumps all scopes.  `par` issues mutations on distinct scopes concurrently
// (group commit of several scopes in one Pebble batch).

import (
	"context"
	"errors"
	"fmt"
	"math"
	"os"
	"path/filepath"
	"sort"
	"strconv"
	"strings"
	"sync"
	"time"

	"github.com/WuKongIM/WuKongIM/pkg/raftlog"
	"github.com/WuKongIM/WuKongIM/pkg/slot/multiraft"
	raft "go.etcd.io/raft/v3"
	"go.etcd.io/raft/v3/raftpb"
)

func init() {
	Register(&Prop{Gen: genC14, NewRunner: func() Runner { return newC14Runner() }})
}

// ---------------------------------------------------------------- runner ---

type c14Runner struct {
	dir      string
	db       *raftlog.DB
	mem      [3]multiraft.Storage
	mApplied [3]uint64
}

var c14Seq int

func c14Scope(s int) raftlog.Scope {
	switch s {
	case 0:
		return raftlog.SlotScope(1)
	case 1:
		return raftlog.SlotScope(2)
	default:
		return raftlog.ControllerScope()
	}
}

func newC14Runner() *c14Runner {
	base := os.Getenv("VERIF_SCRATCH")
	if base == "" {
		base = os.TempDir()
	}
	c14Seq++
	dir := filepath.Join(base, fmt.Sprintf("c14-%d-%d", os.Getpid(), c14Seq))
	_ = os.RemoveAll(dir)
	if err := os.MkdirAll(dir, 0o755); err != nil {
		panic(err)
	}
	r := &c14Runner{dir: dir}
	for i := range r.mem {
		r.mem[i] = raftlog.NewMemory()
	}
	r.open()
	return r
}

func (r *c14Runner) open() {
	db, err := raftlog.Open(filepath.Join(r.dir, "raft"), raftlog.Options{
		WriteBatchMaxWait: 300 * time.Microsecond,
		// a small chunk size so that external snapshot payloads of 0, 1, k*16-1, k*16, k*16+1 bytes
		// exercise zero / one / several / exactly-full chunk layouts
		SnapshotChunkSize: 16,
	})
	if err != nil {
		panic("open: " + err.Error())
	}
	r.db = db
}

func (r *c14Runner) Close() {
	if r.db != nil {
		_ = r.db.Close()
		r.db = nil
	}
	_ = os.RemoveAll(r.dir)
}

func c14Err(err error) string {
	switch {
	case err == nil:
		return "ok"
	case errors.Is(err, raft.ErrSnapOutOfDate):
		return "outofdate"
	default:
		return "err"
	}
}

func c14Dots(xs []uint64) string {
	if len(xs) == 0 {
		return "_"
	}
	p := make([]string, len(xs))
	for i, x := range xs {
		p[i] = strconv.FormatUint(x, 10)
	}
	return strings.Join(p, ".")
}

func c14Conf(c raftpb.ConfState) string {
	s := c14Dots(c.Voters) + "/" + c14Dots(c.Learners)
	if len(c.VotersOutgoing) > 0 || len(c.LearnersNext) > 0 || c.AutoLeave {
		s += "!joint"
	}
	return s
}

func c14Entry(e raftpb.Entry) string {
	var p string
	switch e.Type {
	case raftpb.EntryNormal:
		p = "n" + Hex(e.Data)
	case raftpb.EntryConfChange:
		var cc raftpb.ConfChange
		if err := cc.Unmarshal(e.Data); err != nil {
			p = "x" + Hex(e.Data)
		} else {
			p = fmt.Sprintf("c%d.%d", cc.Type, cc.NodeID)
		}
	default:
		p = fmt.Sprintf("t%d.%s", e.Type, Hex(e.Data))
	}
	return fmt.Sprintf("%d:%d:%s", e.Index, e.Term, p)
}

func c14Entries(es []raftpb.Entry) string {
	if len(es) == 0 {
		return "-"
	}
	p := make([]string, len(es))
	for i, e := range es {
		p[i] = c14Entry(e)
	}
	return strings.Join(p, ";")
}

// c14Dump calls the whole read API in a fixed order.
func c14Dump(st multiraft.Storage) string {
	ctx := context.Background()
	var b strings.Builder
	bs, err := st.InitialState(ctx)
	if err != nil {
		b.WriteString("in=err")
	} else {
		ca := bs.ConfigAppliedIndex
		fmt.Fprintf(&b, "in=%d,%d,%d,%s,%d,%d", bs.HardState.Term, bs.HardState.Vote, bs.HardState.Commit,
			c14Conf(bs.ConfState), bs.AppliedIndex, ca)
	}
	first, ferr := st.FirstIndex(ctx)
	last, lerr := st.LastIndex(ctx)
	if ferr != nil {
		b.WriteString(" fi=err")
	} else {
		fmt.Fprintf(&b, " fi=%d", first)
	}
	if lerr != nil {
		b.WriteString(" la=err")
	} else {
		fmt.Fprintf(&b, " la=%d", last)
	}
	snap, err := st.Snapshot(ctx)
	if err != nil {
		b.WriteString(" sn=err")
	} else {
		fmt.Fprintf(&b, " sn=%d,%d,%s,%s", snap.Metadata.Index, snap.Metadata.Term, c14Conf(snap.Metadata.ConfState), Hex(snap.Data))
	}
	es, err := st.Entries(ctx, 0, math.MaxUint64, 0)
	if err != nil {
		b.WriteString(" en=err")
	} else {
		b.WriteString(" en=" + c14Entries(es))
	}
	if ferr != nil || lerr != nil {
		b.WriteString(" tm=-")
		return b.String()
	}
	lo := uint64(0)
	if first >= 2 {
		lo = first - 2
	}
	hi := last
	if hi <= math.MaxUint64-2 {
		hi += 2
	} else {
		hi = math.MaxUint64
	}
	if lo <= math.MaxUint64-24 && hi > lo+24 {
		hi = lo + 24
	}
	var ts []string
	bad := false
	if hi >= lo {
		for i := lo; ; i++ {
			t, err := st.Term(ctx, i)
			if err != nil {
				bad = true
				break
			}
			ts = append(ts, strconv.FormatUint(t, 10))
			if i == hi {
				break
			}
		}
	}
	if bad {
		b.WriteString(" tm=err")
	} else {
		fmt.Fprintf(&b, " tm=%d:%s", lo, strings.Join(ts, "."))
	}
	return b.String()
}

func c14ParseDots(s string) []uint64 {
	if s == "_" {
		return nil
	}
	var out []uint64
	for _, p := range strings.Split(s, ".") {
		v, err := strconv.ParseUint(p, 10, 64)
		if err != nil {
			panic("bad list " + s)
		}
		out = append(out, v)
	}
	return out
}

func c14ParseSnap(s string) *raftpb.Snapshot {
	if s == "-" {
		return nil
	}
	f := strings.Split(s, ",")
	if len(f) != 4 {
		panic("bad snap " + s)
	}
	idx, e1 := strconv.ParseUint(f[0], 10, 64)
	term, e2 := strconv.ParseUint(f[1], 10, 64)
	if e1 != nil || e2 != nil {
		panic("bad snap " + s)
	}
	cf := strings.Split(f[2], "/")
	if len(cf) != 2 {
		panic("bad conf " + s)
	}
	return &raftpb.Snapshot{
		Data: UnHex(f[3]),
		Metadata: raftpb.SnapshotMetadata{Index: idx, Term: term,
			ConfState: raftpb.ConfState{Voters: c14ParseDots(cf[0]), Learners: c14ParseDots(cf[1])}},
	}
}

func c14ParseEnts(first uint64, s string) []raftpb.Entry {
	if s == "-" {
		return nil
	}
	var out []raftpb.Entry
	for k, p := range strings.Split(s, ";") {
		f := strings.SplitN(p, ":", 2)
		if len(f) != 2 {
			panic("bad entry " + p)
		}
		term, err := strconv.ParseUint(f[0], 10, 64)
		if err != nil {
			panic("bad entry " + p)
		}
		e := raftpb.Entry{Index: first + uint64(k), Term: term}
		switch {
		case strings.HasPrefix(f[1], "n"):
			e.Type = raftpb.EntryNormal
			e.Data = UnHex(f[1][1:])
		case strings.HasPrefix(f[1], "c"):
			tn := strings.Split(f[1][1:], ".")
			if len(tn) != 2 {
				panic("bad cc " + p)
			}
			ty, e1 := strconv.ParseUint(tn[0], 10, 31)
			node, e2 := strconv.ParseUint(tn[1], 10, 64)
			if e1 != nil || e2 != nil {
				panic("bad cc " + p)
			}
			cc := raftpb.ConfChange{Type: raftpb.ConfChangeType(ty), NodeID: node}
			data, err := cc.Marshal()
			if err != nil {
				panic(err)
			}
			e.Type = raftpb.EntryConfChange
			e.Data = data
		default:
			panic("bad payload " + p)
		}
		out = append(out, e)
	}
	return out
}

func c14CloneSnap(s *raftpb.Snapshot) *raftpb.Snapshot {
	if s == nil {
		return nil
	}
	c := *s
	c.Data = append([]byte(nil), s.Data...)
	c.Metadata.ConfState.Voters = append([]uint64(nil), s.Metadata.ConfState.Voters...)
	c.Metadata.ConfState.Learners = append([]uint64(nil), s.Metadata.ConfState.Learners...)
	return &c
}

// mutation runs one mutation on scope s of both stores; returns "P=.. dump M=.. dump".
func (r *c14Runner) mutation(f []string) (string, bool) {
	ctx := context.Background()
	if len(f) < 2 {
		return "", false
	}
	s, err := strconv.Atoi(f[1])
	if err != nil || s < 0 || s > 2 {
		return "", false
	}
	p := r.db.For(c14Scope(s))
	m := r.mem[s]
	var pe, me error
	switch {
	case f[0] == "save" && len(f) == 6:
		var hs, hs2 *raftpb.HardState
		if f[2] != "-" {
			h := strings.Split(f[2], ",")
			if len(h) != 3 {
				return "", false
			}
			t, e1 := strconv.ParseUint(h[0], 10, 64)
			v, e2 := strconv.ParseUint(h[1], 10, 64)
			c, e3 := strconv.ParseUint(h[2], 10, 64)
			if e1 != nil || e2 != nil || e3 != nil {
				return "", false
			}
			hs = &raftpb.HardState{Term: t, Vote: v, Commit: c}
			hs2 = &raftpb.HardState{Term: t, Vote: v, Commit: c}
		}
		first, err := strconv.ParseUint(f[4], 10, 64)
		if err != nil || first < 1 {
			return "", false
		}
		snap := c14ParseSnap(f[3])
		pe = p.Save(ctx, multiraft.PersistentState{HardState: hs, Snapshot: snap, Entries: c14ParseEnts(first, f[5])})
		me = m.Save(ctx, multiraft.PersistentState{HardState: hs2, Snapshot: c14CloneSnap(snap), Entries: c14ParseEnts(first, f[5])})
	case f[0] == "repl" && len(f) == 3:
		snap := c14ParseSnap(f[2])
		if snap == nil {
			return "", false
		}
		ext, ok := p.(multiraft.ExternalSnapshotStorage)
		if !ok {
			panic("pebble store lost ExternalSnapshotStorage")
		}
		pe = ext.ReplaceSnapshot(ctx, *snap)
		// reference meaning: the guard, then an ordinary snapshot install
		cur, _ := m.Snapshot(ctx)
		if snap.Metadata.Index == 0 || snap.Metadata.Index != r.mApplied[s] || snap.Metadata.Term == 0 ||
			snap.Metadata.Index < cur.Metadata.Index {
			me = errors.New("refused")
		} else {
			me = m.Save(ctx, multiraft.PersistentState{Snapshot: c14CloneSnap(snap)})
		}
	case (f[0] == "mark" || f[0] == "cmark") && len(f) == 3:
		i, err := strconv.ParseUint(f[2], 10, 64)
		if err != nil {
			return "", false
		}
		if f[0] == "mark" {
			pe = p.MarkApplied(ctx, i)
			me = m.MarkApplied(ctx, i)
			if me == nil {
				r.mApplied[s] = i
			}
		} else {
			pe = p.(multiraft.ConfigAppliedIndexStorage).MarkConfigApplied(ctx, i)
			me = m.(multiraft.ConfigAppliedIndexStorage).MarkConfigApplied(ctx, i)
		}
	default:
		return "", false
	}
	return fmt.Sprintf("P=%s %s M=%s %s", c14Err(pe), c14Dump(p), c14Err(me), c14Dump(m)), true
}

func (r *c14Runner) Step(op string) string {
	f := strings.Fields(op)
	if len(f) == 0 {
		return "bad-op"
	}
	ctx := context.Background()
	switch f[0] {
	case "reopen":
		if len(f) != 1 {
			return "bad-op"
		}
		if err := r.db.Close(); err != nil {
			return "close-err"
		}
		r.open()
		var parts []string
		for s := 0; s < 3; s++ {
			parts = append(parts, fmt.Sprintf("R%d %s", s, c14Dump(r.db.For(c14Scope(s)))))
		}
		return strings.Join(parts, " ")
	case "ents":
		if len(f) != 5 {
			return "bad-op"
		}
		s, e0 := strconv.Atoi(f[1])
		lo, e1 := strconv.ParseUint(f[2], 10, 64)
		hi, e2 := strconv.ParseUint(f[3], 10, 64)
		mx, e3 := strconv.ParseUint(f[4], 10, 64)
		if e0 != nil || e1 != nil || e2 != nil || e3 != nil || s < 0 || s > 2 {
			return "bad-op"
		}
		pes, perr := r.db.For(c14Scope(s)).Entries(ctx, lo, hi, mx)
		mes, merr := r.mem[s].Entries(ctx, lo, hi, mx)
		ps, ms := c14Entries(pes), c14Entries(mes)
		if perr != nil {
			ps = "err"
		}
		if merr != nil {
			ms = "err"
		}
		return "P=" + ps + " M=" + ms
	case "firstrace":
		// firstrace <s> <first> <ents>: a reader's first FirstIndex() on the scope is paused right
		// after it found no persisted log meta; a Save of <ents> completes meanwhile; the reader resumes
		if len(f) != 4 {
			return "bad-op"
		}
		s, e0 := strconv.Atoi(f[1])
		first, e1 := strconv.ParseUint(f[2], 10, 64)
		if e0 != nil || e1 != nil || s < 0 || s > 2 || first < 1 {
			return "bad-op"
		}
		scope := c14Scope(s)
		st := r.db.For(scope)
		fired := false
		var pe error
		raftlog.VerifSetCurrentMetaAfterMetaLoadHook(r.db, func(sc raftlog.Scope) {
			if fired || sc != scope {
				return
			}
			fired = true
			raftlog.VerifSetCurrentMetaAfterMetaLoadHook(r.db, nil)
			pe = st.Save(ctx, multiraft.PersistentState{Entries: c14ParseEnts(first, f[3])})
		})
		_, _ = st.FirstIndex(ctx)
		raftlog.VerifSetCurrentMetaAfterMetaLoadHook(r.db, nil)
		if !fired {
			pe = st.Save(ctx, multiraft.PersistentState{Entries: c14ParseEnts(first, f[3])})
		}
		me := r.mem[s].Save(ctx, multiraft.PersistentState{Entries: c14ParseEnts(first, f[3])})
		return fmt.Sprintf("P=%s %s M=%s %s", c14Err(pe), c14Dump(st), c14Err(me), c14Dump(r.mem[s]))
	case "term":
		if len(f) != 3 {
			return "bad-op"
		}
		s, e0 := strconv.Atoi(f[1])
		i, e1 := strconv.ParseUint(f[2], 10, 64)
		if e0 != nil || e1 != nil || s < 0 || s > 2 {
			return "bad-op"
		}
		pt, perr := r.db.For(c14Scope(s)).Term(ctx, i)
		mt, _ := r.mem[s].Term(ctx, i)
		ps := strconv.FormatUint(pt, 10)
		if perr != nil {
			ps = "err"
		}
		return fmt.Sprintf("P=%s M=%d", ps, mt)
	case "par":
		subs := strings.Split(strings.TrimSpace(op[4:]), " | ")
		if len(subs) < 2 || len(subs) > 3 {
			return "bad-op"
		}
		seen := map[string]bool{}
		for _, sub := range subs {
			sf := strings.Fields(sub)
			if len(sf) < 2 || seen[sf[1]] {
				return "bad-op"
			}
			seen[sf[1]] = true
		}
		outs := make([]string, len(subs))
		oks := make([]bool, len(subs))
		var wg sync.WaitGroup
		for k, sub := range subs {
			wg.Add(1)
			go func(k int, sub string) {
				defer wg.Done()
				defer func() {
					if e := recover(); e != nil {
						outs[k] = fmt.Sprintf("PANIC %v", e)
						oks[k] = true
					}
				}()
				outs[k], oks[k] = r.mutation(strings.Fields(sub))
			}(k, sub)
		}
		wg.Wait()
		for k := range subs {
			if !oks[k] {
				return "bad-op"
			}
			if strings.HasPrefix(outs[k], "PANIC") {
				return outs[k]
			}
		}
		return strings.Join(outs, " | ")
	default:
		out, ok := r.mutation(f)
		if !ok {
			return "bad-op"
		}
		return out
	}
}

// ------------------------------------------------------------- generator ---

type c14Ent struct {
	term   uint64
	cc     bool
	ty     int
	node   uint64
	data   []byte
}

type c14Shadow struct {
	snapIdx, snapTerm uint64
	snapV, snapL      []uint64
	snapData          []byte
	ents              []c14Ent // indices snapIdx+1 ..
	term              uint64
	vote              uint64
	commit, applied   uint64
	dead              bool // an invalid op was issued on this scope
}

// c14SnapData: payload sizes around the chunk boundaries (chunk size 16)
func c14SnapData(g *Gen) []byte {
	n := []int{0, 1, 2, 3, 4, 15, 16, 17, 31, 32, 33, 48}[g.R.Pick(3, 3, 2, 2, 2, 2, 4, 2, 1, 3, 1, 2)]
	g.Count(fmt.Sprintf("snapshot-payload:%dB", n))
	return g.R.Bytes(n)
}

func (s *c14Shadow) last() uint64 { return s.snapIdx + uint64(len(s.ents)) }

func c14Has(xs []uint64, x uint64) bool {
	for _, y := range xs {
		if y == x {
			return true
		}
	}
	return false
}

func c14Del(xs []uint64, x uint64) []uint64 {
	var out []uint64
	for _, y := range xs {
		if y != x {
			out = append(out, y)
		}
	}
	return out
}

func c14Add(xs []uint64, x uint64) []uint64 {
	if c14Has(xs, x) {
		return xs
	}
	out := append(append([]uint64(nil), xs...), x)
	sort.Slice(out, func(i, j int) bool { return out[i] < out[j] })
	return out
}

// confAt derives (voters, learners) after applying every cc entry with index <= upto.
func (s *c14Shadow) confAt(upto uint64) ([]uint64, []uint64) {
	v := append([]uint64(nil), s.snapV...)
	l := append([]uint64(nil), s.snapL...)
	for k, e := range s.ents {
		if s.snapIdx+uint64(k)+1 > upto {
			break
		}
		if !e.cc || e.node == 0 {
			continue
		}
		switch e.ty {
		case 0:
			v = c14Add(v, e.node)
			l = c14Del(l, e.node)
		case 1:
			v = c14Del(v, e.node)
			l = c14Del(l, e.node)
		case 3:
			if !c14Has(l, e.node) {
				v = c14Del(v, e.node)
				l = c14Add(l, e.node)
			}
		}
	}
	return v, l
}

func c14EntStr(e c14Ent) string {
	if e.cc {
		return fmt.Sprintf("%d:c%d.%d", e.term, e.ty, e.node)
	}
	return fmt.Sprintf("%d:n%s", e.term, Hex(e.data))
}

func c14EntsStr(es []c14Ent) string {
	if len(es) == 0 {
		return "-"
	}
	p := make([]string, len(es))
	for i, e := range es {
		p[i] = c14EntStr(e)
	}
	return strings.Join(p, ";")
}

func c14SnapStr(idx, term uint64, v, l []uint64, data []byte) string {
	return fmt.Sprintf("%d,%d,%s/%s,%s", idx, term, c14Dots(v), c14Dots(l), Hex(data))
}

// newEnts makes n entries valid on top of the shadow's tail configuration (v,l after ALL entries).
func (s *c14Shadow) newEnts(g *Gen, n int, v, l []uint64) []c14Ent {
	var out []c14Ent
	for i := 0; i < n; i++ {
		e := c14Ent{term: s.term}
		if g.R.Chance(22) {
			e.cc = true
			node := uint64(g.R.Range(1, 4))
			switch {
			case len(v) == 0:
				e.ty = 0
			default:
				e.ty = []int{0, 0, 1, 3, 2}[g.R.Intn(5)]
				if (e.ty == 1 || e.ty == 3) && len(v) == 1 && v[0] == node {
					e.ty = 0
					node = uint64(g.R.Range(1, 4))
				}
				if g.R.Chance(5) && len(v) > 0 {
					node = 0 // ignored change
				}
			}
			e.node = node
			if node != 0 {
				switch e.ty {
				case 0:
					v, l = c14Add(v, node), c14Del(l, node)
				case 1:
					v, l = c14Del(v, node), c14Del(l, node)
				case 3:
					if !c14Has(l, node) {
						v, l = c14Del(v, node), c14Add(l, node)
					}
				}
			}
			g.Count(fmt.Sprintf("entry:cc-type%d", e.ty))
		} else {
			e.data = g.R.Bytes(g.R.Pick(2, 3, 3, 1, 1)) // 0..4 bytes
			if len(e.data) == 4 && g.R.Chance(30) {
				e.data = g.R.Bytes(g.R.Range(100, 200))
			}
			g.Count("entry:normal")
		}
		out = append(out, e)
	}
	return out
}

func (s *c14Shadow) hsStr() string { return fmt.Sprintf("%d,%d,%d", s.term, s.vote, s.commit) }

// genMutation produces one mutation op (without the leading "par") for scope sc; safe = never erroring, no snapshot.
func c14GenMutation(g *Gen, sh *c14Shadow, sc int, allowInvalid, safe bool) string {
	for {
		k := g.R.Pick(30, 9, 8, 14, 16, 5, 7, 10)
		if safe && k != 0 && k != 2 && k != 3 {
			k = 0
		}
		if k == 7 && (!allowInvalid) {
			k = 0
		}
		switch k {
		case 0: // append at the tail
			if g.R.Chance(15) {
				sh.term += uint64(g.R.Range(1, 2))
				sh.vote = uint64(g.R.Range(0, 3))
			}
			if sh.term == 0 {
				sh.term = 1
			}
			v, l := sh.confAt(math.MaxUint64)
			n := g.R.Range(1, 3)
			if safe {
				// concurrent writers: normal entries only (never an apply-time error)
				es := make([]c14Ent, n)
				for i := range es {
					es[i] = c14Ent{term: sh.term, data: g.R.Bytes(g.R.Range(0, 3))}
				}
				first := sh.last() + 1
				sh.ents = append(sh.ents, es...)
				g.Count("save:append")
				return fmt.Sprintf("save %d %s - %d %s", sc, "-", first, c14EntsStr(es))
			}
			es := sh.newEnts(g, n, v, l)
			first := sh.last() + 1
			sh.ents = append(sh.ents, es...)
			hs := "-"
			if g.R.Chance(60) {
				if g.R.Chance(70) {
					sh.commit += uint64(g.R.Intn(int(sh.last()-sh.commit) + 1))
				}
				hs = sh.hsStr()
			}
			g.Count("save:append")
			return fmt.Sprintf("save %d %s - %d %s", sc, hs, first, c14EntsStr(es))
		case 1: // overwrite an uncommitted suffix
			lo := sh.commit
			if lo < sh.snapIdx {
				lo = sh.snapIdx
			}
			if sh.last() <= lo {
				continue
			}
			first := lo + 1 + uint64(g.R.Intn(int(sh.last()-lo)))
			sh.term++
			sh.ents = sh.ents[:first-sh.snapIdx-1]
			v, l := sh.confAt(math.MaxUint64)
			es := sh.newEnts(g, g.R.Range(1, 3), v, l)
			sh.ents = append(sh.ents, es...)
			g.Count("save:overwrite-suffix")
			return fmt.Sprintf("save %d %s - %d %s", sc, sh.hsStr(), first, c14EntsStr(es))
		case 2: // hard state only
			if sh.last() > sh.commit {
				sh.commit += uint64(g.R.Intn(int(sh.last()-sh.commit) + 1))
			}
			if g.R.Chance(30) {
				sh.term++
				sh.vote = uint64(g.R.Range(0, 3))
			}
			g.Count("save:hardstate-only")
			return fmt.Sprintf("save %d %s - 1 -", sc, sh.hsStr())
		case 3: // mark applied / config applied
			if g.R.Chance(25) {
				g.Count("cmark")
				return fmt.Sprintf("cmark %d %d", sc, sh.commit)
			}
			if sh.commit > sh.applied {
				sh.applied += 1 + uint64(g.R.Intn(int(sh.commit-sh.applied)))
			}
			g.Count("mark")
			return fmt.Sprintf("mark %d %d", sc, sh.applied)
		case 4: // compaction: snapshot at an applied index inside the log
			if sh.snapIdx > 0 && g.R.Chance(12) {
				g.Count("save:snapshot-identical-reinstall")
				return fmt.Sprintf("save %d - %s 1 -", sc, c14SnapStr(sh.snapIdx, sh.snapTerm, sh.snapV, sh.snapL, sh.snapData))
			}
			if sh.applied <= sh.snapIdx || sh.applied > sh.last() {
				continue
			}
			idx := sh.snapIdx + 1 + uint64(g.R.Intn(int(sh.applied-sh.snapIdx)))
			v, l := sh.confAt(idx)
			term := sh.ents[idx-sh.snapIdx-1].term
			data := c14SnapData(g)
			sh.ents = append([]c14Ent(nil), sh.ents[idx-sh.snapIdx:]...)
			sh.snapIdx, sh.snapTerm, sh.snapV, sh.snapL, sh.snapData = idx, term, v, l, data
			hs := "-"
			if g.R.Chance(40) {
				hs = sh.hsStr()
			}
			if idx == sh.last() {
				g.Count("save:snapshot-compact-whole-log")
			} else {
				g.Count("save:snapshot-compact-prefix")
			}
			return fmt.Sprintf("save %d %s %s 1 -", sc, hs, c14SnapStr(idx, term, v, l, data))
		case 5: // snapshot ahead of the log (follower catch-up), optionally with entries after it
			idx := sh.last() + uint64(g.R.Range(1, 4))
			if g.R.Chance(30) && sh.last() > sh.snapIdx {
				idx = sh.last() // exactly at the last index
			}
			if sh.term == 0 {
				sh.term = 1
			}
			term := sh.term
			v := []uint64{1}
			var l []uint64
			for n := uint64(2); n <= 4; n++ {
				switch g.R.Intn(3) {
				case 0:
					v = append(v, n)
				case 1:
					l = append(l, n)
				}
			}
			if g.R.Chance(10) {
				v, l = nil, nil
			}
			data := c14SnapData(g)
			sh.ents = nil
			sh.snapIdx, sh.snapTerm, sh.snapV, sh.snapL, sh.snapData = idx, term, v, l, data
			if sh.commit < idx {
				sh.commit = idx
			}
			es := "-"
			first := uint64(1)
			if g.R.Chance(35) {
				ne := sh.newEnts(g, g.R.Range(1, 2), v, l)
				first = idx + 1
				sh.ents = ne
				es = c14EntsStr(ne)
				g.Count("save:snapshot-ahead+entries")
			} else {
				g.Count("save:snapshot-ahead")
			}
			return fmt.Sprintf("save %d %s %s %d %s", sc, sh.hsStr(), c14SnapStr(idx, term, v, l, data), first, es)
		case 6: // external snapshot replacement at the applied index
			if sh.applied == 0 || sh.applied < sh.snapIdx || sh.applied > sh.last() {
				continue
			}
			idx := sh.applied
			var term uint64
			if idx == sh.snapIdx {
				term = sh.snapTerm
				if g.R.Chance(30) {
					term++
				}
			} else {
				term = sh.ents[idx-sh.snapIdx-1].term
			}
			v, l := sh.confAt(idx)
			if idx == sh.snapIdx {
				v, l = sh.snapV, sh.snapL
			}
			data := c14SnapData(g)
			sh.ents = append([]c14Ent(nil), sh.ents[idx-sh.snapIdx:]...)
			sh.snapIdx, sh.snapTerm, sh.snapV, sh.snapL, sh.snapData = idx, term, v, l, data
			if sh.commit < idx {
				sh.commit = idx
			}
			g.Count("repl:at-applied")
			return fmt.Sprintf("repl %d %s", sc, c14SnapStr(idx, term, v, l, data))
		default: // not Raft-valid: both stores must still answer, the model predicts Pebble
			sh.dead = true
			switch g.R.Intn(12) {
			case 0:
				g.Count("invalid:gap-append")
				return fmt.Sprintf("save %d - - %d %d:n01", sc, sh.last()+uint64(g.R.Range(2, 4)), sh.term+1)
			case 1:
				g.Count("invalid:stale-snapshot")
				idx := uint64(0)
				if sh.snapIdx > 0 {
					idx = uint64(g.R.Intn(int(sh.snapIdx)))
				}
				return fmt.Sprintf("save %d - %s 1 -", sc, c14SnapStr(idx, 1, []uint64{1}, nil, []byte{1}))
			case 2:
				g.Count("invalid:same-index-snapshot-different")
				return fmt.Sprintf("save %d - %s 1 -", sc, c14SnapStr(sh.snapIdx, sh.snapTerm+uint64(g.R.Intn(2)), sh.snapV, sh.snapL, g.R.Bytes(2)))
			case 3:
				g.Count("invalid:zero-term-snapshot")
				return fmt.Sprintf("save %d - %s 1 -", sc, c14SnapStr(sh.last()+1, 0, []uint64{1}, nil, nil))
			case 4:
				g.Count("invalid:repl-wrong-index")
				return fmt.Sprintf("repl %d %s", sc, c14SnapStr(sh.applied+uint64(g.R.Range(1, 2)), sh.term+1, []uint64{1}, nil, nil))
			case 5:
				g.Count("invalid:noncanonical-conf-snapshot")
				return fmt.Sprintf("save %d - %s 1 -", sc, c14SnapStr(sh.last()+1, sh.term+1, []uint64{2, 1}, []uint64{2}, nil))
			case 6:
				g.Count("invalid:cc-removes-last-voter")
				v, _ := sh.confAt(math.MaxUint64)
				node := uint64(1)
				if len(v) > 0 {
					node = v[0]
				}
				return fmt.Sprintf("save %d %d,0,%d - %d %d:c1.%d;%d:c1.2;%d:c1.3;%d:c1.4", sc, sh.term+1, sh.last()+4, sh.last()+1,
					sh.term+1, node, sh.term+1, sh.term+1, sh.term+1)
			case 7:
				g.Count("invalid:cc-bad-type")
				return fmt.Sprintf("save %d %d,0,%d - %d %d:c7.2", sc, sh.term+1, sh.last()+1, sh.last()+1, sh.term+1)
			case 8:
				g.Count("invalid:entries-below-snapshot")
				lo := sh.snapIdx
				if lo == 0 {
					lo = 1
				}
				return fmt.Sprintf("save %d - - %d %d:n02;%d:n03", sc, lo, sh.term+1, sh.term+1)
			case 9:
				g.Count("invalid:zero-term-entry")
				return fmt.Sprintf("save %d - - %d 0:n04", sc, sh.last()+1)
			case 10:
				g.Count("invalid:snapshot+entries-below-it")
				return fmt.Sprintf("save %d - %s %d %d:n05;%d:n06;%d:n07", sc, c14SnapStr(sh.last()+2, sh.term+1, []uint64{1, 2}, nil, []byte{9}),
					sh.last()+1, sh.term+1, sh.term+1, sh.term+1)
			default:
				g.Count("invalid:huge-index-snapshot")
				return fmt.Sprintf("save %d - %s 1 -", sc, c14SnapStr(math.MaxUint64-uint64(g.R.Intn(2)), sh.term+1, []uint64{1}, nil, []byte{7}))
			}
		}
	}
}

func c14Op(g *Gen, line string) {
	if i := strings.IndexByte(line, ' '); i >= 0 {
		g.Op(line[:i], "%s", line[i+1:])
	} else {
		g.Op(line, "")
	}
}

func genC14(g *Gen) {
	for c := 0; c < g.N; c++ {
		g.Case()
		var sh [3]c14Shadow
		allowInvalid := g.R.Chance(30)
		nops := g.R.Range(25, 70)
		for i := 0; i < nops; i++ {
			sc := g.R.Pick(5, 3, 2)
			s := &sh[sc]
			switch g.R.Pick(78, 6, 5, 5, 6) {
			case 0:
				if s.dead {
					// after an invalid op the shadow no longer tracks the store; keep poking it
					g.Count("op-after-invalid")
				}
				c14Op(g, c14GenMutation(g, s, sc, allowInvalid && i > nops/2, false))
			case 1:
				g.Count("reopen")
				c14Op(g, "reopen")
			case 2:
				lo := s.snapIdx + uint64(g.R.Intn(4))
				if g.R.Chance(25) && lo > 2 {
					lo -= 2
				}
				hi := s.last() + 1
				if g.R.Chance(40) && hi > lo {
					hi = lo + uint64(g.R.Intn(int(hi-lo)+2))
				}
				if g.R.Chance(5) {
					hi = 0
					g.Count("ents:hi-zero")
				}
				mx := uint64(0)
				if g.R.Chance(60) {
					mx = uint64(g.R.Pick(1, 3, 3, 1))
					mx = []uint64{1, uint64(g.R.Range(6, 30)), uint64(g.R.Range(30, 400)), math.MaxUint64}[mx]
					g.Count("ents:max-size")
				}
				c14Op(g, fmt.Sprintf("ents %d %d %d %d", sc, lo, hi, mx))
			case 3:
				var i uint64
				switch g.R.Intn(4) {
				case 0:
					i = s.snapIdx
				case 1:
					i = s.last() + uint64(g.R.Intn(3))
				case 2:
					i = g.R.BoundaryU64()
				default:
					i = uint64(g.R.Intn(int(s.last()) + 2))
				}
				c14Op(g, fmt.Sprintf("term %d %d", sc, i))
			default:
				// concurrent writers on distinct live scopes
				n := g.R.Range(2, 3)
				perm := []int{0, 1, 2}
				for k := 2; k > 0; k-- {
					j := g.R.Intn(k + 1)
					perm[k], perm[j] = perm[j], perm[k]
				}
				var live []int
				for _, k := range perm {
					if !sh[k].dead {
						live = append(live, k)
					}
				}
				if len(live) < 2 {
					continue
				}
				if n > len(live) {
					n = len(live)
				}
				var subs []string
				for k := 0; k < n; k++ {
					subs = append(subs, c14GenMutation(g, &sh[live[k]], live[k], false, true))
				}
				g.Count(fmt.Sprintf("par:%d-scopes", n))
				c14Op(g, "par " + strings.Join(subs, " | "))
			}
		}
		valid := 0
		for k := range sh {
			if !sh[k].dead {
				valid++
			}
		}
		g.Count(fmt.Sprintf("case:valid-scopes-at-end=%d", valid))
	}
}

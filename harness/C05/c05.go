//go:build verif

package main

// C05 — an entry identity binds every field of its message.
//
// ops (one history = one sealed proposal and perturbations of it):
//   seal <q|c> <ver> <epoch> <term> <fence> <cmd> <base> <last> <pterm> <pidx> <pdig> <n> {<id> <idx> <epoch> <setting> <from> <cmn> <ts> <sync> <payload>}*n
//        q = quorumlog.SealProposalManifest, c = channel.SealProposalManifest (the field-mapping wrapper),
//        d = pkg/db/message deriveDurableProposalEntries over stored rows (ver also asks verifyBackupRowIdentity)
//        -> `rej` | `ok <manifestDigest> <entry>,<entry>…`  entry = ver/epoch/term/fence/index/pterm/pidx/cmd/pdig/dig
//   ver <i>                       VerifyEntry(sealed entry i, its record)            -> 0|1|none
//   pert <i> <field>=<op>…        VerifyEntry on a perturbed (identity, record) pair  -> `<0|1> <digest of the perturbed pair>` | none
//        field ∈ ever eepoch eterm efence eidx epterm epidx ecmd epdig edig rid ridx repoch rset rfrom rcmn rts rsync rpay
//        op = set:<value> | flip:<bit>
//   golden <10 entry fields> <9 record fields>   an identity sealed by the pinned v1 format  -> `<0|1> <digest>`
//   sha <hex>                     crypto/sha256 (ties the driver's SHA-256 to Go's)   -> digest

import (
	"crypto/sha256"
	"encoding/hex"
	"fmt"
	"strconv"
	"strings"

	"github.com/WuKongIM/WuKongIM/pkg/channel"
	dbmessage "github.com/WuKongIM/WuKongIM/pkg/db/message"
	"github.com/WuKongIM/WuKongIM/pkg/quorumlog"
)

func init() {
	Register(&Prop{Gen: genC05, NewRunner: func() Runner { return &c05Runner{} }})
}

// ---------------------------------------------------------------- generator ---

type c05Man struct {
	ver                             uint16
	epoch, term, fence              uint64
	cmd                             [32]byte
	base, last, pterm, pidx         uint64
	pdig                            [32]byte
}

func c05nz(r *Rand) uint64 {
	switch r.Pick(6, 1, 1, 1, 1) {
	case 0:
		return uint64(r.Range(1, 1000))
	case 1:
		return ^uint64(0)
	case 2:
		return 1 << 63
	case 3:
		return 1<<32 + uint64(r.Intn(3))
	default:
		v := r.U64()
		if v == 0 {
			v = 1
		}
		return v
	}
}

func c05arr(r *Rand) (a [32]byte) {
	copy(a[:], r.Bytes(32))
	if r.Chance(10) { // mostly-zero arrays: one non-zero byte
		a = [32]byte{}
		a[r.Intn(32)] = byte(1 + r.Intn(255))
	}
	return
}

func c05str(g *Gen, what string) []byte {
	r := g.R
	switch r.Pick(2, 5, 2, 1) {
	case 0:
		g.Count(what + ":empty")
		return nil
	case 1:
		n := r.Range(1, 20)
		b := make([]byte, n)
		for i := range b {
			b[i] = "abcdefghijklmnopqrstuvwxyz0123456789_@-"[r.Intn(39)]
		}
		g.Count(what + ":ascii")
		return b
	case 2:
		g.Count(what + ":binary") // non-UTF-8, NULs
		return r.Bytes(r.Range(1, 12))
	default:
		g.Count(what + ":long")
		return r.Bytes(r.Range(50, 130))
	}
}

func c05payload(g *Gen) []byte {
	r := g.R
	switch r.Pick(2, 5, 2, 1) {
	case 0:
		g.Count("payload:empty")
		return nil
	case 1:
		g.Count("payload:1-64")
		return r.Bytes(r.Range(1, 64))
	case 2:
		// lengths around the SHA-256 block/padding boundaries of the whole preimage
		g.Count("payload:65-200")
		return r.Bytes(r.Range(65, 200))
	default:
		g.Count("payload:201-600")
		return r.Bytes(r.Range(201, 600))
	}
}

func c05ts(r *Rand) int64 {
	switch r.Pick(6, 1, 1, 2) {
	case 0:
		return 1700000000000 + int64(r.Intn(1<<30))
	case 1:
		return 1
	case 2:
		return 1<<63 - 1
	default:
		return int64(r.U64()>>1) | 1
	}
}

func c05recStr(rc quorumlog.Record) string {
	s := 0
	if rc.SyncOnce {
		s = 1
	}
	return fmt.Sprintf("%d %d %d %d %s %s %d %d %s", rc.ID, rc.Index, rc.Epoch, rc.Setting,
		Hex([]byte(rc.FromUID)), Hex([]byte(rc.ClientMsgNo)), rc.ServerTimestampMS, s, Hex(rc.Payload))
}

var c05Fields = []string{"ever", "eepoch", "eterm", "efence", "eidx", "epterm", "epidx", "ecmd", "epdig", "edig",
	"rid", "ridx", "repoch", "rset", "rfrom", "rcmn", "rts", "rsync", "rpay"}

// a different uint64 (never equal to old)
func c05otherU64(r *Rand, old uint64, mod uint64) uint64 {
	for {
		var v uint64
		switch r.Intn(5) {
		case 0:
			v = old + 1
		case 1: // one flipped bit, inside the field's width
			bits := 64
			if mod == 256 {
				bits = 8
			} else if mod == 65536 {
				bits = 16
			}
			v = old ^ (1 << uint(r.Intn(bits)))
		case 2:
			v = old - 1
		case 3:
			v = uint64(r.Intn(4))
		default:
			v = r.U64()
		}
		if mod != 0 {
			v %= mod
		}
		if v != old {
			return v
		}
	}
}

func c05otherBytes(r *Rand, old []byte) []byte {
	for {
		var v []byte
		switch r.Intn(6) {
		case 0: // flip one bit
			if len(old) == 0 {
				continue
			}
			v = append([]byte{}, old...)
			v[r.Intn(len(v))] ^= 1 << uint(r.Intn(8))
		case 1: // append a byte (often NUL)
			v = append(append([]byte{}, old...), byte(r.Intn(2)*r.Intn(256)))
		case 2: // drop the last byte
			if len(old) == 0 {
				continue
			}
			v = append([]byte{}, old[:len(old)-1]...)
		case 3: // prepend
			v = append([]byte{byte(r.Intn(256))}, old...)
		case 4:
			v = nil
		default:
			v = r.Bytes(r.Range(1, 10))
		}
		if string(v) != string(old) {
			return v
		}
	}
}

func genC05(g *Gen) {
	r := g.R
	for c := 0; c < g.N; c++ {
		g.Case()
		n := r.Pick(0, 5, 3, 2, 1) // 1..4 records
		var m c05Man
		m.ver = 1
		m.epoch, m.term, m.fence = c05nz(r), c05nz(r), c05nz(r)
		m.cmd = c05arr(r)
		switch r.Pick(3, 5, 1, 1) {
		case 0:
			m.base = 0
			g.Count("base:genesis")
		case 1:
			m.base = uint64(r.Range(1, 100000))
			g.Count("base:small")
		case 2:
			m.base = ^uint64(0) - uint64(n) - uint64(r.Intn(2)) // last = 2^64-1 or 2^64-2: largest legal range
			g.Count("base:near-max")
		default:
			m.base = r.U64() >> 1
			g.Count("base:random")
		}
		m.last = m.base + uint64(n)
		m.pidx = m.base
		if m.base != 0 {
			m.pterm = c05nz(r)
			m.pdig = c05arr(r)
		}
		recs := make([]quorumlog.Record, n)
		for i := range recs {
			rc := quorumlog.Record{ID: c05nz(r), Epoch: m.epoch, Setting: uint8(r.Intn(256)),
				FromUID: string(c05str(g, "from")), ClientMsgNo: string(c05str(g, "cmn")),
				ServerTimestampMS: c05ts(r), SyncOnce: r.Chance(30), Payload: c05payload(g)}
			if r.Chance(50) {
				rc.Index = m.base + uint64(i) + 1
				g.Count("record.index:explicit")
			} else {
				g.Count("record.index:zero")
			}
			recs[i] = rc
		}
		valid := true
		if r.Chance(25) {
			valid = false
			k := r.Intn(18)
			g.Count(fmt.Sprintf("seal:invalid-%02d", k))
			i := r.Intn(n)
			switch k {
			case 0:
				m.ver = uint16(c05otherU64(r, 1, 65536))
			case 1:
				m.epoch = 0
				for j := range recs {
					recs[j].Epoch = 0
				}
			case 2:
				m.term = 0
			case 3:
				m.fence = 0
			case 4:
				m.cmd = [32]byte{}
			case 5:
				m.last = c05otherU64(r, m.last, 0)
			case 6:
				m.pidx = c05otherU64(r, m.pidx, 0)
			case 7: // predecessor term inconsistent with base
				if m.base == 0 {
					m.pterm = c05nz(r)
				} else {
					m.pterm = 0
				}
			case 8: // predecessor digest inconsistent with base
				if m.base == 0 {
					m.pdig = c05arr(r)
				} else {
					m.pdig = [32]byte{}
				}
			case 9:
				recs[i].ID = 0
			case 10:
				recs[i].Index = c05otherU64(r, m.base+uint64(i)+1, 0)
				if recs[i].Index == 0 {
					recs[i].Index = m.base + uint64(i) + 2
				}
			case 11:
				recs[i].Epoch = c05otherU64(r, m.epoch, 0)
			case 12:
				recs[i].ServerTimestampMS = 0
			case 13:
				recs[i].ServerTimestampMS = -int64(r.U64()>>1) - 1
			case 14: // range runs over the top of uint64
				m.base = ^uint64(0) - uint64(n) + 1 + uint64(r.Intn(n))
				m.last = m.base + uint64(n)
				m.pidx = m.base
				m.pterm, m.pdig = c05nz(r), c05arr(r)
				for j := range recs {
					recs[j].Index = 0
				}
			case 15: // no records
				recs = nil
				n = 0
				m.last = m.base
			case 16: // a record of a neighbouring position
				if n >= 2 {
					recs[0].Index = m.base + 2
				} else {
					recs[0].Index = m.base
					if m.base == 0 {
						recs[0].Index = 2
					}
				}
			default: // last off by one
				m.last = m.base + uint64(n) + 1
			}
		} else {
			g.Count("seal:valid")
		}
		api := "q"
		switch r.Pick(45, 30, 25) {
		case 1:
			api = "c"
		case 2:
			api = "d"
		}
		g.Count("seal:api-" + api)
		var sb strings.Builder
		fmt.Fprintf(&sb, "%s %d %d %d %d %s %d %d %d %d %s %d", api, m.ver, m.epoch, m.term, m.fence, Hex(m.cmd[:]),
			m.base, m.last, m.pterm, m.pidx, Hex(m.pdig[:]), len(recs))
		for _, rc := range recs {
			sb.WriteString(" " + c05recStr(rc))
		}
		g.Op("seal", "%s", sb.String())
		if n == 0 {
			g.Op("ver", "0")
			continue
		}
		if !valid {
			// nothing sealed: both sides must answer `none`
			g.Op("ver", "%d", r.Intn(n))
			g.Op("pert", "%d rid=set:%d", r.Intn(n), c05nz(r))
			continue
		}
		for i := 0; i < n; i++ {
			g.Op("ver", "%d", i)
		}
		// known (non-digest) entry fields of entry i
		entryOf := func(i int) (idx, pterm, pidx uint64) {
			idx = m.base + uint64(i) + 1
			pidx = m.base + uint64(i)
			pterm = m.pterm
			if i > 0 {
				pterm = m.term
			}
			return
		}
		pert := func(i int, kind string, parts ...string) {
			g.Count("pert:" + kind)
			switch kind { // which check of VerifyEntry has to reject it
			case "ever", "eepoch", "eidx", "epidx", "repoch", "ridx":
				g.Count("pert-decided-by:structural-guard")
			case "noop:ridx-explicit", "noop:ridx-zero", "noop:same-values":
				g.Count("pert-decided-by:nothing(accept)")
			default:
				g.Count("pert-decided-by:digest-comparison")
			}
			g.Op("pert", "%d %s", i, strings.Join(parts, " "))
		}
		setU := func(f string, v uint64) string { return fmt.Sprintf("%s=set:%d", f, v) }
		setB := func(f string, v []byte) string { return fmt.Sprintf("%s=set:%s", f, Hex(v)) }
		single := func(i int, f string) {
			rc := recs[i]
			idx, pterm, pidx := entryOf(i)
			switch f {
			case "ever":
				pert(i, f, setU(f, c05otherU64(r, 1, 65536)))
			case "eepoch":
				pert(i, f, setU(f, c05otherU64(r, m.epoch, 0)))
			case "eterm":
				pert(i, f, setU(f, c05otherU64(r, m.term, 0)))
			case "efence":
				pert(i, f, setU(f, c05otherU64(r, m.fence, 0)))
			case "eidx":
				pert(i, f, setU(f, c05otherU64(r, idx, 0)))
			case "epterm":
				pert(i, f, setU(f, c05otherU64(r, pterm, 0)))
			case "epidx":
				pert(i, f, setU(f, c05otherU64(r, pidx, 0)))
			case "ecmd", "epdig", "edig":
				if f == "epdig" && i == 0 && r.Bool() {
					pert(i, f, setB(f, r.Bytes(32)))
				} else {
					pert(i, f, fmt.Sprintf("%s=flip:%d", f, r.Intn(256)))
				}
			case "rid":
				pert(i, f, setU(f, c05otherU64(r, rc.ID, 0)))
			case "ridx":
				v := c05otherU64(r, rc.Index, 0)
				pert(i, f, setU(f, v))
			case "repoch":
				pert(i, f, setU(f, c05otherU64(r, rc.Epoch, 0)))
			case "rset":
				pert(i, f, setU(f, c05otherU64(r, uint64(rc.Setting), 256)))
			case "rfrom":
				pert(i, f, setB(f, c05otherBytes(r, []byte(rc.FromUID))))
			case "rcmn":
				pert(i, f, setB(f, c05otherBytes(r, []byte(rc.ClientMsgNo))))
			case "rpay":
				pert(i, f, setB(f, c05otherBytes(r, rc.Payload)))
			case "rts":
				v := int64(c05otherU64(r, uint64(rc.ServerTimestampMS), 0))
				if r.Chance(60) && v < 0 {
					v = int64(uint64(v) >> 1) // keep most positive so the digest comparison decides
					if v == rc.ServerTimestampMS || v == 0 {
						v = rc.ServerTimestampMS + 1
					}
				}
				pert(i, f, fmt.Sprintf("%s=set:%d", f, v))
			case "rsync":
				v := 1
				if rc.SyncOnce {
					v = 0
				}
				pert(i, f, fmt.Sprintf("%s=set:%d", f, v))
			}
		}
		full := r.Intn(n)
		for i := 0; i < n; i++ {
			if i == full {
				for _, f := range c05Fields {
					single(i, f)
				}
			} else {
				for k := 0; k < 4; k++ {
					single(i, c05Fields[r.Intn(len(c05Fields))])
				}
			}
		}
		// guard-consistent multi-field perturbations: only the digest comparison can reject these
		for k := 0; k < 5; k++ {
			i := r.Intn(n)
			rc := recs[i]
			idx, _, pidx := entryOf(i)
			switch r.Intn(7) {
			case 0: // whole entry moved to another index
				d := uint64(r.Range(1, 3))
				if idx+d < idx || pidx == 0 {
					pert(i, "multi:index-shift", setU("eidx", idx+d), setU("epidx", pidx+d), setU("ridx", 0),
						setU("epterm", c05nz(r)), setB("epdig", r.Bytes(32)))
				} else {
					pert(i, "multi:index-shift", setU("eidx", idx+d), setU("epidx", pidx+d), setU("ridx", 0))
				}
			case 1: // another channel epoch, record follows
				v := c05otherU64(r, m.epoch, 0)
				if v == 0 {
					v = m.epoch + 1
					if v == 0 {
						v = 1
					}
				}
				pert(i, "multi:epoch", setU("eepoch", v), setU("repoch", v))
			case 2: // move one byte across the from|cmn boundary (caught only by the length prefixes)
				a, b := []byte(rc.FromUID), []byte(rc.ClientMsgNo)
				if len(a) > 0 {
					pert(i, "multi:shift-from>cmn", setB("rfrom", a[:len(a)-1]), setB("rcmn", append([]byte{a[len(a)-1]}, b...)))
				} else if len(b) > 0 {
					pert(i, "multi:shift-cmn>from", setB("rfrom", b[:1]), setB("rcmn", b[1:]))
				} else {
					pert(i, "multi:shift-empty", setB("rfrom", []byte{0}), setB("rcmn", nil))
				}
			case 3: // across cmn|payload
				a, b := []byte(rc.ClientMsgNo), rc.Payload
				if len(b) > 0 {
					pert(i, "multi:shift-pay>cmn", setB("rcmn", append(append([]byte{}, a...), b[0])), setB("rpay", b[1:]))
				} else if len(a) > 0 {
					pert(i, "multi:shift-cmn>pay", setB("rcmn", a[:len(a)-1]), setB("rpay", a[len(a)-1:]))
				} else {
					pert(i, "multi:shift-empty", setB("rcmn", []byte{0}), setB("rpay", nil))
				}
			case 4: // swap sender and client number
				if rc.FromUID != rc.ClientMsgNo {
					pert(i, "multi:swap-from-cmn", setB("rfrom", []byte(rc.ClientMsgNo)), setB("rcmn", []byte(rc.FromUID)))
				} else {
					pert(i, "multi:swap-cmn-pay", setB("rcmn", rc.Payload), setB("rpay", []byte(rc.ClientMsgNo)))
				}
			case 5: // setting <-> sync-once confusion (adjacent single bytes)
				v := 1
				if rc.SyncOnce {
					v = 0
				}
				pert(i, "multi:setting-sync", setU("rset", uint64(rc.Setting)^1), fmt.Sprintf("rsync=set:%d", v))
			default: // not a change at all: record index written explicitly / as zero, same values re-set
				if rc.Index == 0 {
					pert(i, "noop:ridx-explicit", setU("ridx", idx))
				} else {
					pert(i, "noop:ridx-zero", setU("ridx", 0))
				}
				pert(i, "noop:same-values", setU("rid", rc.ID), setB("rfrom", []byte(rc.FromUID)), setU("eterm", m.term))
			}
		}
		if r.Chance(30) {
			var b []byte
			switch r.Intn(3) {
			case 0:
				b = r.Bytes([]int{0, 1, 55, 56, 57, 63, 64, 65, 119, 120, 127, 128}[r.Intn(12)])
			default:
				b = r.Bytes(r.Range(0, 300))
			}
			g.Op("sha", "%s", Hex(b))
		}
	}
}

// ------------------------------------------------------------------- runner ---

type c05Runner struct {
	api     string
	sealed  bool
	entries []quorumlog.EntryIdentity
	recs    []quorumlog.Record
}

func (*c05Runner) Close() {}

func c05arr32(s string) (a [32]byte, ok bool) {
	if s == "-" {
		return a, false
	}
	b, err := hex.DecodeString(s)
	if err != nil || len(b) != 32 {
		return a, false
	}
	copy(a[:], b)
	return a, true
}

func c05bytes(s string) ([]byte, bool) {
	if s == "-" {
		return nil, true
	}
	b, err := hex.DecodeString(s)
	return b, err == nil
}

func c05u(s string, bits int) (uint64, bool) {
	v, err := strconv.ParseUint(s, 10, bits)
	return v, err == nil
}

func c05parseRec(f []string) (rc quorumlog.Record, ok bool) {
	if len(f) != 9 {
		return rc, false
	}
	var ok1, ok2, ok3, ok4 bool
	rc.ID, ok1 = c05u(f[0], 64)
	rc.Index, ok2 = c05u(f[1], 64)
	rc.Epoch, ok3 = c05u(f[2], 64)
	var s uint64
	s, ok4 = c05u(f[3], 8)
	rc.Setting = uint8(s)
	from, ok5 := c05bytes(f[4])
	cmn, ok6 := c05bytes(f[5])
	ts, err := strconv.ParseInt(f[6], 10, 64)
	pay, ok7 := c05bytes(f[8])
	if !(ok1 && ok2 && ok3 && ok4 && ok5 && ok6 && ok7) || err != nil || (f[7] != "0" && f[7] != "1") {
		return rc, false
	}
	rc.FromUID, rc.ClientMsgNo, rc.ServerTimestampMS, rc.SyncOnce, rc.Payload = string(from), string(cmn), ts, f[7] == "1", pay
	return rc, true
}

func c05parseEntry(f []string) (e quorumlog.EntryIdentity, ok bool) {
	if len(f) != 10 {
		return e, false
	}
	v, ok0 := c05u(f[0], 16)
	e.Version = uint16(v)
	var oks [9]bool
	e.ChannelEpoch, oks[0] = c05u(f[1], 64)
	e.LeaderTerm, oks[1] = c05u(f[2], 64)
	e.FenceVersion, oks[2] = c05u(f[3], 64)
	e.Index, oks[3] = c05u(f[4], 64)
	e.PreviousTerm, oks[4] = c05u(f[5], 64)
	e.PreviousIndex, oks[5] = c05u(f[6], 64)
	var a [32]byte
	a, oks[6] = c05arr32(f[7])
	e.CommandID = a
	a, oks[7] = c05arr32(f[8])
	e.PreviousDigest = a
	a, oks[8] = c05arr32(f[9])
	e.Digest = a
	for _, o := range oks {
		ok0 = ok0 && o
	}
	return e, ok0
}

func c05entryStr(e quorumlog.EntryIdentity) string {
	return fmt.Sprintf("%d/%d/%d/%d/%d/%d/%d/%s/%s/%s", e.Version, e.ChannelEpoch, e.LeaderTerm, e.FenceVersion, e.Index,
		e.PreviousTerm, e.PreviousIndex, hex.EncodeToString(e.CommandID[:]), hex.EncodeToString(e.PreviousDigest[:]), hex.EncodeToString(e.Digest[:]))
}

func c05bit(b bool) string {
	if b {
		return "1"
	}
	return "0"
}

func c05flip(a [32]byte, k uint64) [32]byte {
	k %= 256
	a[k/8] ^= 1 << (k % 8)
	return a
}

// applies one `<field>=<op>` to (e, rc); false = malformed
func c05apply(e *quorumlog.EntryIdentity, rc *quorumlog.Record, spec string) bool {
	name, op, found := strings.Cut(spec, "=")
	if !found {
		return false
	}
	kind, val, found := strings.Cut(op, ":")
	if !found {
		return false
	}
	setU := func(p *uint64) bool {
		if kind != "set" {
			return false
		}
		v, ok := c05u(val, 64)
		if ok {
			*p = v
		}
		return ok
	}
	setA := func(p *[32]byte) bool {
		switch kind {
		case "set":
			a, ok := c05arr32(val)
			if ok {
				*p = a
			}
			return ok
		case "flip":
			k, ok := c05u(val, 64)
			if ok {
				*p = c05flip(*p, k)
			}
			return ok
		}
		return false
	}
	setS := func(get func() []byte, put func([]byte)) bool {
		switch kind {
		case "set":
			b, ok := c05bytes(val)
			if ok {
				put(b)
			}
			return ok
		case "flip":
			k, ok := c05u(val, 64)
			old := append([]byte{}, get()...)
			if !ok || len(old) == 0 {
				return false
			}
			k %= uint64(8 * len(old))
			old[k/8] ^= 1 << (k % 8)
			put(old)
			return true
		}
		return false
	}
	switch name {
	case "ever":
		if kind != "set" {
			return false
		}
		v, ok := c05u(val, 16)
		if ok {
			e.Version = uint16(v)
		}
		return ok
	case "eepoch":
		return setU(&e.ChannelEpoch)
	case "eterm":
		return setU(&e.LeaderTerm)
	case "efence":
		return setU(&e.FenceVersion)
	case "eidx":
		return setU(&e.Index)
	case "epterm":
		return setU(&e.PreviousTerm)
	case "epidx":
		return setU(&e.PreviousIndex)
	case "ecmd":
		return setA((*[32]byte)(&e.CommandID))
	case "epdig":
		return setA((*[32]byte)(&e.PreviousDigest))
	case "edig":
		return setA((*[32]byte)(&e.Digest))
	case "rid":
		return setU(&rc.ID)
	case "ridx":
		return setU(&rc.Index)
	case "repoch":
		return setU(&rc.Epoch)
	case "rset":
		if kind != "set" {
			return false
		}
		v, ok := c05u(val, 8)
		if ok {
			rc.Setting = uint8(v)
		}
		return ok
	case "rfrom":
		return setS(func() []byte { return []byte(rc.FromUID) }, func(b []byte) { rc.FromUID = string(b) })
	case "rcmn":
		return setS(func() []byte { return []byte(rc.ClientMsgNo) }, func(b []byte) { rc.ClientMsgNo = string(b) })
	case "rpay":
		return setS(func() []byte { return rc.Payload }, func(b []byte) { rc.Payload = b })
	case "rts":
		if kind != "set" {
			return false
		}
		v, err := strconv.ParseInt(val, 10, 64)
		if err == nil {
			rc.ServerTimestampMS = v
		}
		return err == nil
	case "rsync":
		if kind != "set" || (val != "0" && val != "1") {
			return false
		}
		rc.SyncOnce = val == "1"
		return true
	}
	return false
}

func (x *c05Runner) Step(op string) string {
	f := strings.Fields(op)
	if len(f) == 0 {
		return "bad-op"
	}
	switch f[0] {
	case "sha":
		if len(f) != 2 {
			return "bad-op"
		}
		b, ok := c05bytes(f[1])
		if !ok {
			return "bad-op"
		}
		d := sha256.Sum256(b)
		return hex.EncodeToString(d[:])
	case "seal":
		x.sealed, x.entries, x.recs = false, nil, nil
		if len(f) < 13 {
			return "bad-op"
		}
		var m quorumlog.ProposalManifest
		ver, ok0 := c05u(f[2], 16)
		m.Version = uint16(ver)
		var oks [9]bool
		m.ChannelEpoch, oks[0] = c05u(f[3], 64)
		m.LeaderTerm, oks[1] = c05u(f[4], 64)
		m.FenceVersion, oks[2] = c05u(f[5], 64)
		var a [32]byte
		a, oks[3] = c05arr32(f[6])
		m.CommandID = a
		m.BaseOffset, oks[4] = c05u(f[7], 64)
		m.LastOffset, oks[5] = c05u(f[8], 64)
		m.PreviousTerm, oks[6] = c05u(f[9], 64)
		m.PreviousIndex, oks[7] = c05u(f[10], 64)
		a, oks[8] = c05arr32(f[11])
		m.PreviousDigest = a
		for _, o := range oks {
			ok0 = ok0 && o
		}
		n, err := strconv.Atoi(f[12])
		if !ok0 || err != nil || n < 0 || len(f) != 13+9*n || (f[1] != "q" && f[1] != "c" && f[1] != "d") {
			return "bad-op"
		}
		// the manifest's own Digest field must be ignored by Seal: hand it garbage
		m.Digest = quorumlog.EntryDigest{0xde, 0xad}
		recs := make([]quorumlog.Record, n)
		for i := 0; i < n; i++ {
			rc, ok := c05parseRec(f[13+9*i : 22+9*i])
			if !ok {
				return "bad-op"
			}
			recs[i] = rc
		}
		var sealed quorumlog.ProposalManifest
		var entries []quorumlog.EntryIdentity
		var ok bool
		x.api = f[1]
		if f[1] == "q" {
			sealed, entries, ok = quorumlog.SealProposalManifest(m, recs)
		} else if f[1] == "d" { // the message store's own construction of quorumlog.Record from rows
			entries, ok = dbmessage.VerifDeriveDurable(m, recs, uint8(len(f)))
			if ok && len(entries) > 0 {
				sealed = m
				sealed.Digest = entries[len(entries)-1].Digest
			} else {
				entries = nil
			}
		} else {
			crecs := make([]channel.Record, n)
			for i, rc := range recs {
				crecs[i] = channel.Record{ID: rc.ID, Index: rc.Index, Epoch: rc.Epoch, Setting: rc.Setting, FromUID: rc.FromUID,
					ClientMsgNo: rc.ClientMsgNo, ServerTimestampMS: rc.ServerTimestampMS, SyncOnce: rc.SyncOnce, Payload: rc.Payload,
					SizeBytes: 7 * (i + 1)}
			}
			sealed, entries, ok = channel.SealProposalManifest(m, crecs)
		}
		if !ok {
			if len(entries) != 0 || sealed != (quorumlog.ProposalManifest{}) {
				return "rej-with-output"
			}
			return "rej"
		}
		if len(entries) != n {
			return fmt.Sprintf("ok-wrong-count %d", len(entries))
		}
		// everything of the manifest except Digest must come back unchanged
		back := sealed
		back.Digest = m.Digest
		if back != m {
			return "ok-manifest-changed"
		}
		x.sealed, x.entries, x.recs = true, entries, recs
		parts := make([]string, n)
		for i, e := range entries {
			parts[i] = c05entryStr(e)
		}
		return "ok " + hex.EncodeToString(sealed.Digest[:]) + " " + strings.Join(parts, ",")
	case "ver":
		if len(f) != 2 {
			return "bad-op"
		}
		i, err := strconv.Atoi(f[1])
		if err != nil || i < 0 {
			return "bad-op"
		}
		if !x.sealed || i >= len(x.entries) {
			return "none"
		}
		v := quorumlog.VerifyEntry(x.entries[i], x.recs[i])
		if x.api == "d" { // the backup path rebuilds the record from the stored row
			v = v && dbmessage.VerifBackupRowIdentity(x.entries[i], x.recs[i], uint8(i)*37+1)
		}
		return c05bit(v)
	case "pert":
		if len(f) < 3 {
			return "bad-op"
		}
		i, err := strconv.Atoi(f[1])
		if err != nil || i < 0 {
			return "bad-op"
		}
		if !x.sealed || i >= len(x.entries) {
			return "none"
		}
		e, rc := x.entries[i], x.recs[i]
		for _, spec := range f[2:] {
			if !c05apply(&e, &rc, spec) {
				return "bad-op"
			}
		}
		d := quorumlog.VerifDigestProposalEntry(e, rc)
		return c05bit(quorumlog.VerifyEntry(e, rc)) + " " + hex.EncodeToString(d[:])
	case "golden":
		if len(f) != 20 {
			return "bad-op"
		}
		e, ok1 := c05parseEntry(f[1:11])
		rc, ok2 := c05parseRec(f[11:20])
		if !ok1 || !ok2 {
			return "bad-op"
		}
		d := quorumlog.VerifDigestProposalEntry(e, rc)
		return c05bit(quorumlog.VerifyEntry(e, rc)) + " " + hex.EncodeToString(d[:])
	}
	return "bad-op"
}

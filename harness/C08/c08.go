//go:build verif

// C08 — a sender's client message number maps to at most one message.
//
// One REAL store per case, two channels.  Ops (c = channel 0..1):
//
//	app   c mode base rec...   ChannelLog.Append      rec = id:from:cmn (hex strings; payload/ts derived)
//	fetch c base rec...        ChannelLog.ApplyFetch (AppendTrustedContiguous)
//	trunc c from | trim c through | close c | reopen
//	idem c from cmn | byid c id
//	scan                       every live row of every channel: seq:id:from:cmn
//
// app/fetch output: `<result> s=<filter skips> r=<point reads> h=<h1>:<h2>,...`
// (the counter deltas of MessageDB.MetricsSnapshot and the real maphash pair of
// every record's idempotency key, so the Lean bloom model runs on the same bits).
package main

import (
	"context"
	"errors"
	"fmt"
	"io"
	"log"
	"os"
	"path/filepath"
	"strconv"
	"strings"

	"github.com/WuKongIM/WuKongIM/pkg/db"
	"github.com/WuKongIM/WuKongIM/pkg/db/message"
)

func init() {
	log.SetOutput(io.Discard)
	Register(&Prop{Gen: genC08, NewRunner: func() Runner { return newC08Runner() }})
}

const c08NumChan = 2
const c08MaxNum = 1 << 32

var c08Keys = [c08NumChan]string{"g", "g1"}

type c08Runner struct {
	dir    string
	store  *db.NodeStore
	leases [c08NumChan]*message.ChannelLog
}

var c08RunnerSeq int

func newC08Runner() *c08Runner {
	c08RunnerSeq++
	base := os.Getenv("VERIF_SCRATCH")
	if base == "" {
		base = "."
	}
	r := &c08Runner{dir: filepath.Join(base, fmt.Sprintf("c08-%d-%d", os.Getpid(), c08RunnerSeq))}
	r.open()
	return r
}

func (r *c08Runner) open() {
	s, err := db.OpenNodeStore(db.DefaultNodeStoreOptions(r.dir))
	if err != nil {
		panic("open store: " + err.Error())
	}
	r.store = s
}

func (r *c08Runner) Close() {
	for i := range r.leases {
		if r.leases[i] != nil {
			_ = r.leases[i].Close()
			r.leases[i] = nil
		}
	}
	if r.store != nil {
		_ = r.store.Close()
		r.store = nil
	}
	_ = os.RemoveAll(r.dir)
}

func c08ID(c int) message.ChannelID { return message.ChannelID{ID: "grp" + strconv.Itoa(c), Type: 2} }

func (r *c08Runner) lease(c int) *message.ChannelLog {
	if r.leases[c] == nil {
		l, err := r.store.Messages().Channel(message.ChannelKey(c08Keys[c]), c08ID(c))
		if err != nil {
			panic("acquire lease: " + err.Error())
		}
		r.leases[c] = l
	}
	return r.leases[c]
}

// c08PollCtx reports cancellation from its k-th Err() poll on (the storage code polls ctx.Err()
// between iterations; nothing selects on Done()).
type c08PollCtx struct {
	context.Context
	polls int
	k     int
}

func (p *c08PollCtx) Err() error {
	p.polls++
	if p.polls >= p.k {
		return context.Canceled
	}
	return nil
}

func c08Err(err error) string {
	switch {
	case err == nil:
		return "ok"
	case errors.Is(err, context.Canceled):
		return "err:cancelled"
	case errors.Is(err, db.ErrInvalidArgument):
		return "err:invalid"
	case errors.Is(err, db.ErrConflict):
		return "err:conflict"
	case errors.Is(err, db.ErrCorruptState):
		return "err:corruptstate"
	case errors.Is(err, db.ErrCorruptValue):
		return "err:corruptvalue"
	case errors.Is(err, db.ErrClosed):
		return "err:closed"
	default:
		return "err:other"
	}
}

func c08Num(s string) (uint64, bool) {
	v, err := strconv.ParseUint(s, 10, 64)
	if err != nil || v >= c08MaxNum {
		return 0, false
	}
	return v, true
}

func c08Hex(s string) (string, bool) {
	if s == "-" {
		return "", true
	}
	if len(s)%2 != 0 {
		return "", false
	}
	for _, ch := range s {
		if !(ch >= '0' && ch <= '9' || ch >= 'a' && ch <= 'f') {
			return "", false
		}
	}
	return string(UnHex(s)), true
}

// rec = id:from:cmn ; payload = 1 byte derived from the id, ts = 1 + id%1000
func c08ParseRec(s string) (message.Record, bool) {
	p := strings.Split(s, ":")
	if len(p) != 3 {
		return message.Record{}, false
	}
	id, ok1 := c08Num(p[0])
	from, ok2 := c08Hex(p[1])
	cmn, ok3 := c08Hex(p[2])
	if !(ok1 && ok2 && ok3) {
		return message.Record{}, false
	}
	return message.Record{ID: id, FromUID: from, ClientMsgNo: cmn, Payload: []byte{byte(id % 251)}, ServerTimestampMS: int64(1 + id%1000)}, true
}

func (r *c08Runner) counters() (uint64, uint64) {
	m := r.store.Messages().MetricsSnapshot()
	return m.IdempotencyNegativeFilterSkips, m.IdempotencyPointReads
}

func (r *c08Runner) hashes(c int, recs []message.Record) string {
	parts := make([]string, 0, len(recs))
	for _, rec := range recs {
		if rec.FromUID == "" || rec.ClientMsgNo == "" {
			parts = append(parts, "-")
			continue
		}
		h1, h2 := message.VerifIdempotencyHashes(message.ChannelKey(c08Keys[c]), c08ID(c), rec.FromUID, rec.ClientMsgNo)
		parts = append(parts, fmt.Sprintf("%d:%d", h1, h2))
	}
	if len(parts) == 0 {
		return "-"
	}
	return strings.Join(parts, ",")
}

func (r *c08Runner) Step(op string) string {
	ctx := context.Background()
	f := strings.Fields(op)
	if len(f) == 0 {
		return "bad-op"
	}
	switch f[0] {
	case "reopen":
		if len(f) != 1 {
			return "bad-op"
		}
		for i := range r.leases {
			if r.leases[i] != nil {
				_ = r.leases[i].Close()
				r.leases[i] = nil
			}
		}
		if err := r.store.Close(); err != nil {
			return c08Err(err)
		}
		r.open()
		return "ok"
	case "scan":
		if len(f) != 1 {
			return "bad-op"
		}
		var parts []string
		for c := 0; c < c08NumChan; c++ {
			ms, err := r.lease(c).Read(ctx, 0, message.ReadOptions{})
			if err != nil {
				parts = append(parts, c08Err(err))
				continue
			}
			var b strings.Builder
			b.WriteString("ok")
			for _, m := range ms {
				fmt.Fprintf(&b, " %d:%d:%s:%s", m.MessageSeq, m.MessageID, Hex([]byte(m.FromUID)), Hex([]byte(m.ClientMsgNo)))
			}
			parts = append(parts, b.String())
		}
		return strings.Join(parts, " | ")
	}
	if len(f) < 2 {
		return "bad-op"
	}
	cv, okc := c08Num(f[1])
	if !okc || cv >= c08NumChan {
		return "bad-op"
	}
	c := int(cv)
	switch f[0] {
	case "app", "fetch", "appc":
		var mode, base uint64
		var rest []string
		actx := ctx
		if f[0] == "appc" { // appc c mode base k rec... : Append under a context cancelled from its k-th poll
			if len(f) < 5 {
				return "bad-op"
			}
			var ok1, ok2, ok3 bool
			var k uint64
			mode, ok1 = c08Num(f[2])
			base, ok2 = c08Num(f[3])
			k, ok3 = c08Num(f[4])
			if !ok1 || !ok2 || !ok3 || mode > 1 || k == 0 {
				return "bad-op"
			}
			actx = &c08PollCtx{Context: ctx, k: int(k)}
			rest = f[5:]
		} else if f[0] == "app" {
			if len(f) < 4 {
				return "bad-op"
			}
			var ok1, ok2 bool
			mode, ok1 = c08Num(f[2])
			base, ok2 = c08Num(f[3])
			if !ok1 || !ok2 || mode > 3 {
				return "bad-op"
			}
			rest = f[4:]
		} else {
			if len(f) < 3 {
				return "bad-op"
			}
			var ok bool
			base, ok = c08Num(f[2])
			if !ok {
				return "bad-op"
			}
			rest = f[3:]
		}
		recs := make([]message.Record, 0, len(rest))
		for _, s := range rest {
			rec, ok := c08ParseRec(s)
			if !ok {
				return "bad-op"
			}
			recs = append(recs, rec)
		}
		s0, r0 := r.counters()
		var res message.AppendResult
		var err error
		if f[0] != "fetch" {
			res, err = r.lease(c).Append(actx, recs, message.AppendOptions{Mode: message.AppendMode(mode), BaseSeq: base})
		} else {
			res, err = r.lease(c).ApplyFetch(ctx, message.ApplyFetchRequest{BaseSeq: base, Records: recs})
		}
		s1, r1 := r.counters()
		head := c08Err(err)
		if err == nil {
			head = fmt.Sprintf("ok %d %d %d", res.BaseSeq, res.LastSeq, res.Count)
		}
		return fmt.Sprintf("%s s=%d r=%d h=%s", head, s1-s0, r1-r0, r.hashes(c, recs))
	case "trunc":
		if len(f) != 3 {
			return "bad-op"
		}
		a, ok := c08Num(f[2])
		if !ok {
			return "bad-op"
		}
		return c08Err(r.lease(c).TruncateFrom(ctx, a))
	case "trim":
		if len(f) != 3 {
			return "bad-op"
		}
		a, ok := c08Num(f[2])
		if !ok {
			return "bad-op"
		}
		res, err := r.lease(c).TrimPrefixThrough(ctx, a)
		if err != nil {
			return c08Err(err)
		}
		more := "0"
		if res.More {
			more = "1"
		}
		return fmt.Sprintf("ok %d %d %s", res.DeletedThroughSeq, res.Deleted, more)
	case "close":
		if len(f) != 2 {
			return "bad-op"
		}
		if r.leases[c] != nil {
			_ = r.leases[c].Close()
			r.leases[c] = nil
		}
		return "ok"
	case "idem":
		if len(f) != 4 {
			return "bad-op"
		}
		from, ok1 := c08Hex(f[2])
		cmn, ok2 := c08Hex(f[3])
		if !(ok1 && ok2) {
			return "bad-op"
		}
		hit, ok, err := r.lease(c).LookupIdempotency(ctx, message.IdempotencyKey{FromUID: from, ClientMsgNo: cmn})
		if err != nil {
			return c08Err(err)
		}
		if !ok {
			return "none"
		}
		return fmt.Sprintf("ok %d %d %d %d", hit.MessageSeq, hit.MessageID, hit.Offset, hit.PayloadHash)
	case "byid":
		if len(f) != 3 {
			return "bad-op"
		}
		id, ok := c08Num(f[2])
		if !ok {
			return "bad-op"
		}
		m, found, err := r.lease(c).GetByMessageID(ctx, id)
		if err != nil {
			return c08Err(err)
		}
		if !found {
			return "none"
		}
		return fmt.Sprintf("ok %d:%d:%s:%s", m.MessageSeq, m.MessageID, Hex([]byte(m.FromUID)), Hex([]byte(m.ClientMsgNo)))
	}
	return "bad-op"
}

//go:build verif

package main

import (
	"fmt"
	"strings"
)

type c08Key struct{ from, cmn string }

type c08Gen struct {
	g      *Gen
	nextID uint64
	ids    []uint64
	keys   [c08NumChan][]c08Key // keys ever appended per channel (may be live or truncated)
	pairs  [c08NumChan][]c08Pair // (key, message id) of rows appended per channel: verbatim replays
	leo    [c08NumChan]uint64
	seqOf  [c08NumChan][]c08Key // shadow: key at seq i+1 (estimate)
	fresh  int
}

func (x *c08Gen) freshID() uint64 {
	x.nextID++
	x.ids = append(x.ids, x.nextID)
	return x.nextID
}

func (x *c08Gen) freshKey(sat bool) c08Key {
	x.fresh++
	if sat {
		return c08Key{fmt.Sprintf("u%d", x.fresh%7), fmt.Sprintf("n%d", x.fresh)}
	}
	return c08Key{[]string{"u1", "u2", "u3"}[x.g.R.Intn(3)], fmt.Sprintf("c%d", x.fresh)}
}

func c08Rec(id uint64, k c08Key) string {
	return fmt.Sprintf("%d:%s:%s", id, Hex([]byte(k.from)), Hex([]byte(k.cmn)))
}

// emit an append; `expectOK` is the generator's belief (only used to keep the shadow roughly right)
type c08Pair struct {
	k  c08Key
	id uint64
}

func (x *c08Gen) app(kind string, c int, mode int, base uint64, ks []c08Key, ids []uint64, expectOK bool) {
	parts := make([]string, len(ks))
	for i := range ks {
		parts[i] = c08Rec(ids[i], ks[i])
	}
	if kind == "app" {
		x.g.Op("app", "%d %d %d %s", c, mode, base, strings.Join(parts, " "))
		x.g.Count(fmt.Sprintf("app:mode%d", mode))
	} else {
		x.g.Op("fetch", "%d %d %s", c, base, strings.Join(parts, " "))
	}
	if expectOK {
		for i, k := range ks {
			if k.from != "" && k.cmn != "" {
				x.keys[c] = append(x.keys[c], k)
				x.pairs[c] = append(x.pairs[c], c08Pair{k, ids[i]})
			}
			x.seqOf[c] = append(x.seqOf[c], k)
		}
		x.leo[c] += uint64(len(ks))
	}
}

func (x *c08Gen) trunc(c int, from uint64) {
	x.g.Op("trunc", "%d %d", c, from)
	if from == 0 {
		from = 1
	}
	if from <= x.leo[c] {
		x.leo[c] = from - 1
		if int(from-1) <= len(x.seqOf[c]) {
			x.seqOf[c] = x.seqOf[c][:from-1]
		}
	}
}

func (x *c08Gen) oldKey(c int) (c08Key, bool) {
	if len(x.keys[c]) == 0 {
		return c08Key{}, false
	}
	return x.keys[c][x.g.R.Intn(len(x.keys[c]))], true
}

// after a whole-DB reopen the first validating append rebuilds the membership filter from the
// durable keys; cancel such appends at a swept poll count, then retry durable keys with a live context
func (x *c08Gen) cancelled(c int) {
	g := x.g
	nk := len(x.keys[c])
	if nk < 3 {
		return
	}
	rows := int(x.leo[c])
	for i := 0; i < g.R.Range(1, 3); i++ {
		k := g.R.Range(1, rows+nk+6)
		if g.R.Chance(60) { // aim inside the rebuild scan (after the LEO recovery scan)
			k = rows + 2 + g.R.Intn(nk+3)
		}
		key := x.freshKey(false)
		g.Op("appc", "%d %d %d %d %s", c, g.R.Intn(2), 0, k, c08Rec(x.freshID(), key))
		g.Count("appc:cancel-after-k-polls")
	}
	for i := 0; i < g.R.Range(2, 5); i++ {
		if old, ok := x.oldKey(c); ok {
			x.app("app", c, g.R.Intn(2), 0, []c08Key{old}, []uint64{x.freshID()}, false)
			g.Count("appc:retry-durable-key-after-cancel")
		}
	}
}

func (x *c08Gen) collisionOp() {
	g := x.g
	c := g.R.Intn(c08NumChan)
	switch g.R.Pick(40, 10, 6, 3, 4, 2, 14, 8, 6) {
	case 0: // leader append, strict or server-allocated
		mode := g.R.Pick(5, 4, 0, 0)
		if g.R.Chance(2) {
			mode = 3
		}
		n := g.R.Pick(0, 6, 4, 2)
		ks := make([]c08Key, n)
		ids := make([]uint64, n)
		ok := mode < 3
		for i := range ks {
			if k, have := x.oldKey(c); have && g.R.Chance(30) {
				ks[i] = k // retry of a key that was stored before (live => conflict, truncated => accepted)
				g.Count("app:old-key")
				ok = false
			} else if g.R.Chance(12) {
				ks[i] = c08Key{[]string{"", "u1"}[g.R.Intn(2)], []string{"", "c1"}[g.R.Intn(2)]}
				if ks[i].from != "" && ks[i].cmn != "" {
					ok = false
				}
				g.Count("app:partial-key")
			} else {
				ks[i] = x.freshKey(false)
			}
			if len(x.ids) > 0 && g.R.Chance(8) && mode == 0 {
				ids[i] = x.ids[g.R.Intn(len(x.ids))]
				g.Count("app:old-id")
				ok = false
			} else if g.R.Chance(1) {
				ids[i] = 0
				ok = false
			} else {
				ids[i] = x.freshID()
			}
		}
		if n >= 1 && len(x.pairs[c]) > 0 && g.R.Chance(10) {
			// verbatim replay of a row stored before: same sender, client number AND message id
			// (in server-allocated mode the message-id index is not consulted, only the pair is)
			p := x.pairs[c][g.R.Intn(len(x.pairs[c]))]
			i := g.R.Intn(n)
			ks[i], ids[i] = p.k, p.id
			g.Count(fmt.Sprintf("app:verbatim-replay-mode%d", mode))
			ok = false
		}
		if n >= 2 && g.R.Chance(8) {
			ks[n-1] = ks[0]
			g.Count("app:in-batch-dup-key")
			ok = false
		}
		base := uint64(0)
		if g.R.Chance(25) {
			base = x.leo[c] + 1
		} else if g.R.Chance(5) {
			base = x.leo[c] + 2
			ok = false
		}
		x.app("app", c, mode, base, ks, ids, ok)
	case 1: // follower apply (trusted): fresh keys and ids (the leader validated them)
		n := g.R.Range(1, 3)
		ks := make([]c08Key, n)
		ids := make([]uint64, n)
		for i := range ks {
			ks[i] = x.freshKey(false)
			ids[i] = x.freshID()
		}
		if g.R.Chance(50) {
			x.app("fetch", c, 2, x.leo[c]+1, ks, ids, true)
		} else {
			x.app("app", c, 2, 0, ks, ids, true)
		}
		g.Count("trusted:fresh")
		// ... then the node becomes leader and a client retries one of those keys
		if g.R.Chance(60) {
			x.app("app", c, g.R.Intn(2), 0, []c08Key{ks[g.R.Intn(n)]}, []uint64{x.freshID()}, false)
			g.Count("trusted-then-leader-retry")
		}
	case 2:
		var from uint64
		if x.leo[c] > 0 {
			from = x.leo[c] - uint64(g.R.Intn(int(min(x.leo[c], 3))))
		}
		if g.R.Chance(10) {
			from = x.leo[c] + 1
		}
		// remember the victims so that they are retried afterwards
		var victims []c08Key
		if from >= 1 && int(from-1) < len(x.seqOf[c]) {
			victims = append(victims, x.seqOf[c][from-1:]...)
		}
		x.trunc(c, from)
		for _, k := range victims {
			if k.from != "" && k.cmn != "" && g.R.Chance(60) {
				x.app("app", c, g.R.Intn(2), 0, []c08Key{k}, []uint64{x.freshID()}, true)
				g.Count("reappend-after-truncate")
			}
		}
	case 3:
		x.g.Op("trim", "%d %d", c, uint64(g.R.Intn(int(x.leo[c])+1)))
	case 4:
		x.g.Op("close", "%d", c)
	case 5:
		x.g.Op("reopen", "")
		x.cancelled(c)
	case 6:
		k, have := x.oldKey(c)
		if !have || g.R.Chance(20) {
			k = c08Key{"u1", fmt.Sprintf("c%d", g.R.Intn(x.fresh+2))}
		}
		x.g.Op("idem", "%d %s %s", c, Hex([]byte(k.from)), Hex([]byte(k.cmn)))
	case 7:
		id := uint64(g.R.Intn(int(x.nextID) + 2))
		x.g.Op("byid", "%d %d", c, id)
	default:
		x.g.Op("scan", "")
	}
}

func (x *c08Gen) saturationCase() {
	g := x.g
	c := 0
	bulk := func(n int, mode int) {
		ks := make([]c08Key, n)
		ids := make([]uint64, n)
		for i := range ks {
			ks[i] = x.freshKey(true)
			ids[i] = x.freshID()
		}
		x.app("app", c, mode, 0, ks, ids, true)
		g.Count("saturation:bulk")
	}
	probe := func(k int) {
		for i := 0; i < k; i++ {
			switch g.R.Pick(5, 3, 1) {
			case 0: // duplicate of a live key: must conflict whatever the filter says
				if old, ok := x.oldKey(c); ok {
					x.app("app", c, g.R.Intn(2), 0, []c08Key{old}, []uint64{x.freshID()}, false)
					g.Count("saturation:dup-probe")
				}
			case 1: // fresh key: skip or (false positive) point read, accepted either way
				x.app("app", c, g.R.Intn(2), 0, []c08Key{x.freshKey(true)}, []uint64{x.freshID()}, true)
				g.Count("saturation:fresh-probe")
			default:
				if old, ok := x.oldKey(c); ok {
					x.g.Op("idem", "%d %s %s", c, Hex([]byte(old.from)), Hex([]byte(old.cmn)))
				}
			}
		}
	}
	total := 0
	target := g.R.Range(400, 620)
	for total < target {
		n := g.R.Range(40, 110)
		mode := g.R.Pick(5, 4, 1)
		bulk(n, mode)
		total += n
		if g.R.Chance(40) {
			probe(g.R.Range(1, 3))
		}
		if g.R.Chance(10) {
			x.g.Op("close", "%d", c)
		}
	}
	g.Count(fmt.Sprintf("saturation:keys>=%d", (total/100)*100))
	probe(g.R.Range(4, 10))
	// cut the tail, retry the cut keys (the filter still remembers them => point reads that find nothing)
	cut := uint64(g.R.Range(3, 30))
	if cut < x.leo[c] {
		from := x.leo[c] - cut + 1
		victims := append([]c08Key(nil), x.seqOf[c][from-1:]...)
		x.trunc(c, from)
		for i, k := range victims {
			if i%2 == 0 {
				x.app("app", c, g.R.Intn(2), 0, []c08Key{k}, []uint64{x.freshID()}, true)
				g.Count("reappend-after-truncate")
			}
		}
	}
	if g.R.Chance(70) {
		x.g.Op("reopen", "") // the rebuild walks every durable key in key order: 384 to the primary layer, the rest overflow
		g.Count("saturation:reopen-rebuild")
		if g.R.Chance(50) {
			x.cancelled(c)
		}
	} else {
		x.g.Op("close", "%d", c)
	}
	probe(g.R.Range(5, 12))
	x.g.Op("scan", "")
}

func genC08(g *Gen) {
	for k := 0; k < g.N; k++ {
		g.Case()
		x := &c08Gen{g: g}
		if g.R.Chance(30) {
			g.Count("case:saturation")
			x.saturationCase()
			continue
		}
		g.Count("case:collision")
		n := g.R.Range(40, 90)
		for i := 0; i < n; i++ {
			x.collisionOp()
		}
		if g.R.Chance(50) {
			x.g.Op("reopen", "")
		}
		x.g.Op("scan", "")
	}
}

//go:build verif

// C41 — additional steered scenarios.
//
// op `longkey <mb> <seed>`: one SubmitLocal whose AuthorityTarget.ChannelKey is <mb> MiB long (the shard hash
//     of the channel key is computed INSIDE SubmitLocal's lifecycle read-lock region, so it takes tens of ms)
//     and whose context signals when SubmitLocal evaluates it right before that region; Stop is called at that
//     moment and runs to completion.  Either the send was refused, or it was admitted and then its future
//     reaches a terminal result — judged by the same clauses as `stop`.  (mb = 0: control.)
// op `gwstop <workers> <blocked> <budgetMs> <seed>`: the REAL gateway core.Server + sendExecutor with a fake
//     transport (as in harness/C28): <blocked> sessions have their SEND handler held (pinning every worker when
//     blocked >= workers), one more session's SEND is admitted behind them on its own shard, Server.Stop runs
//     with AsyncPoolReleaseTimeout = <budgetMs> (it expires), then the handlers are released.
//     out tokens: gf.<sid>.<seq> SEND fed before stop (admitted: the queue has room)   gh.<sid>.<seq> it reached
//     the message usecase   S.0 / T.0.r  Server.Stop begins / returned   gx never dispatched within 3 s of release
package main

import (
	"context"
	"encoding/binary"
	"errors"
	"fmt"
	"strconv"
	"strings"
	"sync"
	"sync/atomic"
	"time"

	accessgateway "github.com/WuKongIM/WuKongIM/internal/access/gateway"
	"github.com/WuKongIM/WuKongIM/internal/contracts/authority"
	channelappendcontract "github.com/WuKongIM/WuKongIM/internal/contracts/channelappend"
	"github.com/WuKongIM/WuKongIM/internal/contracts/onlinedelivery"
	"github.com/WuKongIM/WuKongIM/internal/runtime/delivery"
	"github.com/WuKongIM/WuKongIM/internal/runtime/channelappend"
	"github.com/WuKongIM/WuKongIM/internal/usecase/message"
	"github.com/WuKongIM/WuKongIM/pkg/gateway/core"
	"github.com/WuKongIM/WuKongIM/pkg/gateway/session"
	"github.com/WuKongIM/WuKongIM/pkg/gateway/transport"
	gatewaytypes "github.com/WuKongIM/WuKongIM/pkg/gateway/types"
	"github.com/WuKongIM/WuKongIM/pkg/protocol/frame"
)

// ------------------------------------------------------------- longkey ---

type c41SignalCtx struct {
	context.Context
	once sync.Once
	ch   chan struct{}
}

func (c *c41SignalCtx) Done() <-chan struct{} {
	c.once.Do(func() { close(c.ch) })
	return c.Context.Done()
}

func c41LongKey(f []string) string {
	if len(f) != 2 {
		return "bad-op"
	}
	mb, err := strconv.Atoi(f[0])
	if err != nil || mb < 0 || mb > 64 {
		return "bad-op"
	}
	seed, err := strconv.ParseUint(f[1], 10, 64)
	if err != nil {
		return "bad-op"
	}
	log := &c41Log{}
	port := &c41Port{log: log, seed: seed, latUs: 100}
	group := channelappend.New(channelappend.Options{LocalNodeID: 1, Appender: port, Idempotency: port, MessageID: &c41IDs{},
		AuthorityShardCount: 4, AdvancePoolSize: 2, EffectPoolSize: 2})
	if err := group.Start(context.Background()); err != nil {
		return "start-failed"
	}
	var waiters sync.WaitGroup
	submit := func(id int, ctx context.Context, key string) {
		log.add("b.%d", id)
		target := channelappend.AuthorityTarget{ChannelID: channelappend.ChannelID{ID: "c0", Type: 2}, ChannelKey: key, LeaderNodeID: 1, Epoch: 1, LeaderEpoch: 1}
		items := []channelappend.SendBatchItem{{Context: context.Background(), Command: channelappend.SendCommand{
			FromUID: "u1", ClientMsgNo: c41Msg(id), ChannelID: "c0", ChannelType: 2, Payload: c41Payload(id % 5)}}}
		fut, err := group.SubmitLocal(ctx, target, items)
		if err != nil {
			log.add("j.%d", id)
			return
		}
		log.add("a.%d", id)
		waiters.Add(1)
		go func() {
			defer waiters.Done()
			wctx, cancel := context.WithTimeout(context.Background(), 20*time.Second)
			res, werr := fut.Wait(wctx)
			cancel()
			switch {
			case werr != nil:
				log.add("l.%d", id)
			case len(res) != 1:
				log.add("f.%d.2", id)
			case errors.Is(res[0].Err, context.Canceled):
				log.add("f.%d.1", id)
			default:
				log.add("f.%d.0", id)
			}
		}()
	}
	submit(1, context.Background(), "")
	key := ""
	if mb > 0 {
		key = strings.Repeat("k", mb<<20)
	}
	sctx := &c41SignalCtx{Context: context.Background(), ch: make(chan struct{})}
	done := make(chan struct{})
	go func() { submit(2, sctx, key); close(done) }()
	select { // SubmitLocal is about to enter its lifecycle check
	case <-sctx.ch:
	case <-time.After(2 * time.Second):
	}
	time.Sleep(200 * time.Microsecond) // let it pass the check; only widens the window, never asserted on
	log.add("S.0")
	stopped := make(chan error, 1)
	go func() { stopped <- group.Stop(context.Background()) }()
	select {
	case err := <-stopped:
		if err == nil {
			log.add("T.0.0")
		} else {
			log.add("T.0.1")
		}
	case <-time.After(30 * time.Second):
		log.add("T.0.2")
	}
	<-done
	submit(3, context.Background(), "") // after stop: must be refused
	waiters.Wait()
	log.mu.Lock()
	defer log.mu.Unlock()
	return "ev=" + strings.Join(log.tok, ",")
}

// -------------------------------------------------------------- gwstop ---

type c41Conn struct {
	id     uint64
	mu     sync.Mutex
	closed bool
}

func (c *c41Conn) ID() uint64 { return c.id }
func (c *c41Conn) Write([]byte) error {
	c.mu.Lock()
	defer c.mu.Unlock()
	if c.closed {
		return errors.New("c41: write on closed conn")
	}
	return nil
}
func (c *c41Conn) Close() error {
	c.mu.Lock()
	c.closed = true
	c.mu.Unlock()
	return nil
}
func (c *c41Conn) LocalAddr() string  { return "local" }
func (c *c41Conn) RemoteAddr() string { return "r" + strconv.FormatUint(c.id, 10) }

type c41Listener struct{}

func (c41Listener) Start() error { return nil }
func (c41Listener) Stop() error  { return nil }
func (c41Listener) Addr() string { return "c41" }

type c41Factory struct{ handler transport.ConnHandler }

func (f *c41Factory) Name() string { return "c41t" }
func (f *c41Factory) Build(specs []transport.ListenerSpec) ([]transport.Listener, error) {
	out := make([]transport.Listener, 0, len(specs))
	for _, sp := range specs {
		f.handler = sp.Handler
		out = append(out, c41Listener{})
	}
	return out, nil
}

// inbound frame: 'S' seq(8, big endian) plen(1) payload
type c41Proto struct{}

func (c41Proto) Name() string                  { return "c41p" }
func (c41Proto) OwnsDecodedFrames() bool       { return true }
func (c41Proto) OnOpen(session.Session) error  { return nil }
func (c41Proto) OnClose(session.Session) error { return nil }
func (c41Proto) Decode(_ session.Session, in []byte) ([]frame.Frame, int, error) {
	var frames []frame.Frame
	used := 0
	for {
		rest := in[used:]
		if len(rest) < 10 || len(rest) < 10+int(rest[9]) {
			break
		}
		pl := int(rest[9])
		seq := binary.BigEndian.Uint64(rest[1:9])
		if rest[0] != 'S' {
			return nil, 0, errors.New("c41: bad frame kind")
		}
		frames = append(frames, &frame.SendPacket{ClientSeq: seq, ClientMsgNo: "m" + strconv.FormatUint(seq, 10),
			ChannelID: "ch", ChannelType: 2, Payload: append([]byte(nil), rest[10:10+pl]...)})
		used += 10 + pl
	}
	return frames, used, nil
}
func (c41Proto) Encode(session.Session, frame.Frame, session.OutboundMeta) ([]byte, error) {
	return []byte("x"), nil
}

func c41Frame(seq uint64) []byte {
	b := make([]byte, 12)
	b[0] = 'S'
	binary.BigEndian.PutUint64(b[1:9], seq)
	b[9] = 2
	b[10], b[11] = byte(seq), 1
	return b
}

type c41GW struct {
	log      *c41Log
	smu      sync.Mutex
	bySess   map[uint64]uint64 // session id -> conn id
	blocked  map[uint64]bool
	entered  chan uint64
	release  chan struct{}
	handled  sync.Map // "sid.seq" -> true
	nHandled atomic.Int64
}

type c41Handler struct {
	*accessgateway.Handler
	gw *c41GW
}

func (h *c41Handler) OnSessionOpen(ctx gatewaytypes.Context) error {
	if ctx.Session != nil {
		cid, _ := strconv.ParseUint(strings.TrimPrefix(ctx.Session.RemoteAddr(), "r"), 10, 64)
		ctx.Session.SetValue(gatewaytypes.SessionValueUID, "u"+strconv.FormatUint(cid, 10))
		h.gw.smu.Lock()
		h.gw.bySess[ctx.Session.ID()] = cid
		h.gw.smu.Unlock()
	}
	return h.Handler.OnSessionOpen(ctx)
}

type c41Usecase struct{ gw *c41GW }

func (u *c41Usecase) SendBatchEach(items []message.SendBatchItem, emit func(int, message.SendBatchItemResult) error) error {
	gw := u.gw
	hold := false
	for _, it := range items {
		gw.smu.Lock()
		cid := gw.bySess[it.Command.SenderSessionID]
		hold = hold || gw.blocked[cid]
		gw.smu.Unlock()
		gw.log.add("gh.%d.%d", cid, it.Command.ClientSeq)
		gw.handled.Store(fmt.Sprintf("%d.%d", cid, it.Command.ClientSeq), true)
		gw.nHandled.Add(1)
		if gw.blocked[cid] {
			select {
			case gw.entered <- cid:
			default:
			}
		}
	}
	if hold {
		select {
		case <-gw.release:
		case <-time.After(10 * time.Second):
		}
	}
	for i, it := range items {
		if err := emit(i, message.SendBatchItemResult{Result: message.SendResult{MessageID: it.Command.ClientSeq + 1, MessageSeq: it.Command.ClientSeq + 1}}); err != nil {
			return err
		}
	}
	return nil
}

func c41GwStop(f []string) string {
	if len(f) != 4 {
		return "bad-op"
	}
	v := make([]int, 3)
	for i := 0; i < 3; i++ {
		x, err := strconv.Atoi(f[i])
		if err != nil || x < 0 || x > 1000 {
			return "bad-op"
		}
		v[i] = x
	}
	if _, err := strconv.ParseUint(f[3], 10, 64); err != nil {
		return "bad-op"
	}
	workers, blocked, budget := v[0], v[1], v[2]
	if workers < 1 || workers > 4 || blocked > 6 || budget < 1 {
		return "bad-op"
	}
	gw := &c41GW{log: &c41Log{}, bySess: map[uint64]uint64{}, blocked: map[uint64]bool{}, entered: make(chan uint64, 16), release: make(chan struct{})}
	fac := &c41Factory{}
	reg := core.NewRegistry()
	if err := reg.RegisterTransport(fac); err != nil {
		return "start-failed"
	}
	if err := reg.RegisterProtocol(c41Proto{}); err != nil {
		return "start-failed"
	}
	h := &c41Handler{gw: gw}
	h.Handler = accessgateway.New(accessgateway.Options{Messages: &c41Usecase{gw: gw}, OwnerNodeID: 1, SendTimeout: time.Minute})
	srv, err := core.NewServer(reg, &gatewaytypes.Options{
		Handler:        h,
		DefaultSession: gatewaytypes.SessionOptions{AsyncSendBatchMaxRecords: 1, AsyncSendBatchMaxWait: -1, IdleTimeout: time.Hour},
		Runtime: gatewaytypes.RuntimeOptions{AsyncSendWorkers: workers, AsyncSendQueueCapacity: 64,
			AsyncAuthWorkers: 1, AsyncAuthQueueCapacity: 1, AsyncPoolReleaseTimeout: time.Duration(budget) * time.Millisecond},
		Listeners: []gatewaytypes.ListenerOptions{{Name: "l", Network: "tcp", Address: "c41", Transport: "c41t", Protocol: "c41p"}},
	})
	if err != nil {
		return "start-failed"
	}
	if err := srv.Start(); err != nil {
		return "start-failed"
	}
	th := fac.handler
	nsess := blocked + 1
	conns := make([]*c41Conn, nsess)
	for i := range conns {
		conns[i] = &c41Conn{id: uint64(i + 1)}
		if i < blocked {
			gw.blocked[uint64(i+1)] = true
		}
		_ = th.OnOpen(conns[i])
	}
	fed := [][2]uint64{}
	feed := func(c *c41Conn, seq uint64) {
		gw.log.add("gf.%d.%d", c.id, seq)
		fed = append(fed, [2]uint64{c.id, seq})
		_ = th.OnData(c, c41Frame(seq))
	}
	for i := 0; i < blocked; i++ {
		feed(conns[i], 1)
	}
	pinned := blocked
	if pinned > workers {
		pinned = workers
	}
	for i := 0; i < pinned; i++ { // the handlers that can run are running (and held)
		select {
		case <-gw.entered:
		case <-time.After(2 * time.Second):
		}
	}
	feed(conns[blocked], 1) // admitted behind the pinned workers, on its own shard
	feed(conns[blocked], 2)
	gw.log.add("S.0")
	stopped := make(chan struct{})
	go func() { _ = srv.Stop(); close(stopped) }()
	// wait until the release budget has certainly expired (Stop itself may return earlier or later)
	select {
	case <-stopped:
	case <-time.After(time.Duration(budget)*time.Millisecond + 50*time.Millisecond):
	}
	close(gw.release)
	select {
	case <-stopped:
		gw.log.add("T.0.0")
	case <-time.After(20 * time.Second):
		gw.log.add("T.0.2")
	}
	// every admitted SEND must reach the usecase; a background drain finishes in microseconds once released
	deadline := time.Now().Add(3 * time.Second)
	for time.Now().Before(deadline) && int(gw.nHandled.Load()) < len(fed) {
		time.Sleep(500 * time.Microsecond)
	}
	for _, x := range fed {
		if _, ok := gw.handled.Load(fmt.Sprintf("%d.%d", x[0], x[1])); !ok {
			gw.log.add("gx.%d.%d", x[0], x[1])
		}
	}
	gw.log.mu.Lock()
	defer gw.log.mu.Unlock()
	return "ev=" + strings.Join(gw.log.tok, ",")
}

// ------------------------------------------------------------- quiesce ---
// op `quiesce <ackDelayMs> <seed>`: the REAL delivery.Runtime with fake presence / session ports.  One durable plan
// is admitted; its presence lookup is held; Quiesce is called; the lookup is released; the plan writes to the local
// session (binding a pending RECVACK); the RECVACK arrives <ackDelayMs> later.  Quiesce may report completion
// only when no pending RECVACK is left.  tokens: qn plan admitted  qw session write accepted  qa RECVACK sent
// qb Quiesce begins  qe.<n> Quiesce returned nil with n pending RECVACKs in the tracker  qh Quiesce hung (20 s)

type c41Delivery struct {
	log     *c41Log
	entered chan struct{}
	gate    chan struct{}
	once    sync.Once
	wrote   chan struct{}
	wonce   sync.Once
}

func (d *c41Delivery) EndpointsByTargets(_ context.Context, targets []onlinedelivery.RecipientTargetBatch) []delivery.TargetPresenceResult {
	d.once.Do(func() { close(d.entered) })
	select {
	case <-d.gate:
	case <-time.After(10 * time.Second):
	}
	out := make([]delivery.TargetPresenceResult, len(targets))
	for i, t := range targets {
		for k, rc := range t.Recipients {
			out[i].Routes = append(out[i].Routes, onlinedelivery.Route{UID: rc.UID, OwnerNodeID: 1, OwnerBootID: 1, OwnerSeq: 1, SessionID: uint64(11 + k)})
		}
	}
	return out
}

func (d *c41Delivery) WriteSession(_ context.Context, w delivery.LocalSessionWrite) delivery.SessionWriteResult {
	d.log.add("qw")
	defer d.wonce.Do(func() { close(d.wrote) })
	return delivery.SessionWriteResult{Disposition: delivery.SessionWriteAccepted}
}

func (d *c41Delivery) PushOwner(context.Context, onlinedelivery.OwnerPush) (onlinedelivery.OwnerPushResult, error) {
	return onlinedelivery.OwnerPushResult{}, nil
}

func (d *c41Delivery) ObserveOfflineRecipients(context.Context, delivery.OfflineRecipientsEvent) {}

func c41Quiesce(f []string) string {
	if len(f) != 2 {
		return "bad-op"
	}
	ackDelay, err := strconv.Atoi(f[0])
	if err != nil || ackDelay < 1 || ackDelay > 200 {
		return "bad-op"
	}
	if _, err := strconv.ParseUint(f[1], 10, 64); err != nil {
		return "bad-op"
	}
	d := &c41Delivery{log: &c41Log{}, entered: make(chan struct{}), gate: make(chan struct{}), wrote: make(chan struct{})}
	rt := delivery.NewRuntime(delivery.RuntimeOptions{
		LocalNodeID: 1, Presence: d, RemoteOwnerPusher: d, SessionWriter: d, OfflineRecipientsObserver: d,
		QueueSize: 8, Workers: 2, PlanTimeout: 10 * time.Minute, MaxPlanRecipients: 64,
		OwnerPushBatchSize: 8, OwnerConcurrency: 2, RetryMaxAttempts: 2,
		RetryInitialBackoff: 20 * time.Microsecond, RetryMaxBackoff: 200 * time.Microsecond,
	})
	if err := rt.Start(context.Background()); err != nil {
		return "start-failed"
	}
	plan := onlinedelivery.RecipientDeliveryPlan{
		Mode:  onlinedelivery.ModeDurable,
		Event: channelappendcontract.CommittedEnvelope{MessageID: 1001, MessageSeq: 1, ChannelID: "c1", ChannelType: 2, FromUID: "u9", Payload: []byte("x")},
		Targets: []onlinedelivery.RecipientTargetBatch{{
			Target:     authority.Target{HashSlot: 0, SlotID: 0, LeaderNodeID: 1, RouteRevision: 1},
			Recipients: []channelappendcontract.Recipient{{UID: "u1"}},
		}},
	}
	if err := rt.EnqueueRecipientDeliveryPlan(context.Background(), plan); err != nil {
		return "enqueue-failed"
	}
	d.log.add("qn")
	select { // the plan is inside its presence resolution
	case <-d.entered:
	case <-time.After(5 * time.Second):
	}
	d.log.add("qb")
	qdone := make(chan struct{})
	go func() {
		err := rt.Quiesce(context.Background())
		n := rt.PendingAckCount()
		if err == nil {
			d.log.add("qe.%d", n)
		} else {
			d.log.add("qe.999")
		}
		close(qdone)
	}()
	time.Sleep(5 * time.Millisecond) // the drain goroutine is running; only widens, never asserted on
	close(d.gate)
	select {
	case <-d.wrote:
	case <-time.After(5 * time.Second):
	}
	time.Sleep(time.Duration(ackDelay) * time.Millisecond)
	d.log.add("qa")
	_ = rt.Recvack(context.Background(), delivery.Recvack{UID: "u1", SessionID: 11, MessageID: 1001, MessageSeq: 1})
	select {
	case <-qdone:
	case <-time.After(20 * time.Second):
		d.log.add("qh")
	}
	sctx, cancel := context.WithTimeout(context.Background(), 10*time.Second)
	_ = rt.Stop(sctx)
	cancel()
	d.log.mu.Lock()
	defer d.log.mu.Unlock()
	return "ev=" + strings.Join(d.log.tok, ",")
}

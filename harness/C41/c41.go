//go:build verif

// C41 — stopping the send pipeline never drops accepted sends (channelappend.Group stop/drain).
//
// op:  stop <nch> <senders> <calls> <maxItems> <latUs> <postUs> <failPct> <stopAfter> <nStops> <dlUs> <seed>
//      concurrent SubmitLocal callers against a REAL Group with a slow fake Appender and a slow
//      PersistAfter post-commit port; after <stopAfter> calls began, <nStops> Stop calls with a caller
//      deadline of <dlUs> µs (they may expire while the drain goes on) and then a final Stop without deadline.
// out: ev=<tokens>:  b.t call t begins  a.t admitted  j.t refused  f.t.k future complete (k 0 fine, 1 an item
//      carries a cancellation, 2 wrong result count)  p.t not terminal right after Stop returned nil
//      l.t never terminal (20 s)  S.k Stop k begins  T.k.r Stop k returned (0 nil, 1 deadline, 2 hung)
package main

import (
	"context"
	"errors"
	"fmt"
	"strconv"
	"strings"
	"sync"
	"sync/atomic"
	"time"

	"github.com/WuKongIM/WuKongIM/internal/runtime/channelappend"
)

func init() {
	Register(&Prop{Gen: genC41, NewRunner: func() Runner { return &c41Runner{} }})
}

func genC41(g *Gen) {
	// steered: lifecycle-lock window widened by a long channel key (+ control), gateway stop with pinned workers
	g.Case()
	for i := 0; i < 2; i++ {
		g.Count("steer:longkey")
		g.Op("longkey", "%d %d", []int{48, 24}[i], g.R.U64()>>1)
	}
	g.Count("steer:longkey-control")
	g.Op("longkey", "0 %d", g.R.U64()>>1)
	for _, ms := range []int{10, 30} {
		g.Count("steer:delivery-quiesce")
		g.Op("quiesce", "%d %d", ms, g.R.U64()>>1)
	}
	for _, c := range [][3]int{{2, 2, 30}, {2, 3, 30}, {1, 1, 20}, {3, 3, 30}, {2, 1, 30}, {2, 0, 30}} {
		if c[1] >= c[0] {
			g.Count("steer:gwstop-workers-pinned")
		} else {
			g.Count("steer:gwstop-control")
		}
		g.Op("gwstop", "%d %d %d %d", c[0], c[1], c[2], g.R.U64()>>1)
	}
	for i := 0; i < g.N; i++ {
		if i%6 == 0 {
			g.Case()
		}
		nch := g.R.Range(1, 4)
		senders := g.R.Range(1, 6)
		calls := g.R.Range(1, 6)
		maxItems := g.R.Range(1, 4)
		lat := []int{0, 50, 500, 3000}[g.R.Intn(4)]
		post := []int{0, 0, 100, 1000}[g.R.Intn(4)]
		fail := []int{0, 20}[g.R.Intn(2)]
		total := senders * calls
		stopAfter := g.R.Intn(total + 1)
		nStops := g.R.Pick(3, 3, 2)
		dl := []int{1, 100, 2000}[g.R.Intn(3)]
		if stopAfter < total {
			g.Count("stop:races-traffic")
		} else {
			g.Count("stop:after-traffic")
		}
		if nStops > 0 {
			g.Count(fmt.Sprintf("stop:deadline-callers-%d", nStops))
		}
		if lat >= 500 {
			g.Count("append:slow")
		}
		if post > 0 {
			g.Count("postcommit:enabled")
		}
		if fail > 0 {
			g.Count("append:failures")
		}
		g.Op("stop", "%d %d %d %d %d %d %d %d %d %d %d", nch, senders, calls, maxItems, lat, post, fail, stopAfter, nStops, dl, g.R.U64()>>1)
	}
}

// ------------------------------------------------------------------ helpers ---

func c41Payload(p int) []byte { return []byte("pl" + strconv.Itoa(p)) }
func c41UID(u int) string {
	if u == 0 {
		return ""
	}
	return "u" + strconv.Itoa(u)
}
func c41Msg(m int) string {
	if m == 0 {
		return ""
	}
	return "m" + strconv.Itoa(m)
}
func c41Num(s string) int {
	if s == "" {
		return 0
	}
	n, _ := strconv.Atoi(s[1:])
	return n
}
func c41PayloadNum(b []byte) int {
	n, err := strconv.Atoi(strings.TrimPrefix(string(b), "pl"))
	if err != nil {
		return -1
	}
	return n
}

func c41mix(a, b uint64) uint64 {
	z := a + 0x9E3779B97F4A7C15*(b+1)
	z = (z ^ (z >> 30)) * 0xBF58476D1CE4E5B9
	z = (z ^ (z >> 27)) * 0x94D049BB133111EB
	return z ^ (z >> 31)
}

func c41Ints(xs []int) string {
	if len(xs) == 0 {
		return "-"
	}
	s := make([]string, len(xs))
	for i, x := range xs {
		s[i] = strconv.Itoa(x)
	}
	return strings.Join(s, ",")
}

// ---------------------------------------------------------------- event log ---

type c41Log struct {
	mu  sync.Mutex
	tok []string
}

func (l *c41Log) add(format string, a ...any) {
	s := fmt.Sprintf(format, a...)
	l.mu.Lock()
	l.tok = append(l.tok, s)
	l.mu.Unlock()
}

// addAll appends several tokens contiguously.
func (l *c41Log) addAll(ts []string) {
	l.mu.Lock()
	l.tok = append(l.tok, ts...)
	l.mu.Unlock()
}

// ------------------------------------------------- fake durable channel port ---

type c41Rec struct {
	id, seq uint64
	p       int
}

type c41Chan struct {
	mu      sync.Mutex
	nextSeq uint64
	recs    map[[2]int]c41Rec
}

type c41Port struct {
	log     *c41Log
	seed    uint64
	failPct int
	latUs   int
	req     atomic.Int64
	lk      atomic.Int64
	chans   sync.Map // int -> *c41Chan
}

func (p *c41Port) ch(c int) *c41Chan {
	v, _ := p.chans.LoadOrStore(c, &c41Chan{nextSeq: 1, recs: map[[2]int]c41Rec{}})
	return v.(*c41Chan)
}

var errC29Conflict = fmt.Errorf("conflicting client message number: %w", channelappend.ErrAppendFailed)

// commit persists one message under the channel lock; duplicates of a stored key return the
// original record (same payload) or a conflict (different payload) — the C08 store contract.
func (p *c41Port) commit(c int, st *c41Chan, m channelappend.Message) channelappend.AppendBatchItemResult {
	u, mm, pl := c41Num(m.FromUID), c41Num(m.ClientMsgNo), c41PayloadNum(m.Payload)
	if u != 0 && mm != 0 {
		if r, ok := st.recs[[2]int{u, mm}]; ok {
			if r.p == pl {
				return channelappend.AppendBatchItemResult{MessageID: r.id, MessageSeq: r.seq}
			}
			return channelappend.AppendBatchItemResult{Err: errC29Conflict}
		}
	}
	r := c41Rec{id: m.MessageID, seq: st.nextSeq, p: pl}
	st.nextSeq++
	if u != 0 && mm != 0 {
		st.recs[[2]int{u, mm}] = r
	}
	return channelappend.AppendBatchItemResult{MessageID: r.id, MessageSeq: r.seq}
}

func (p *c41Port) AppendBatch(_ context.Context, req channelappend.AppendBatchRequest) (channelappend.AppendBatchResult, error) {
	n := p.req.Add(1)
	c := c41Num(req.ChannelID.ID)
	h := c41mix(p.seed, uint64(n))
	if p.latUs > 0 {
		time.Sleep(time.Duration(h%uint64(p.latUs+1)) * time.Microsecond)
	}
	mode := 0
	if int(h>>8%100) < p.failPct {
		mode = 1 + int(h>>20%6)
	}
	switch mode {
	case 1: // fails before anything is durable
		return channelappend.AppendBatchResult{}, channelappend.ErrAppendFailed
	case 5:
		return channelappend.AppendBatchResult{}, channelappend.ErrNotLeader
	}
	st := p.ch(c)
	st.mu.Lock()
	defer st.mu.Unlock()
	res := channelappend.AppendBatchResult{}
	limit := len(req.Messages)
	if mode == 3 { // a prefix is durable, then the call fails
		limit = int(h>>30) % (len(req.Messages) + 1)
	}
	for i, m := range req.Messages {
		if i >= limit {
			break
		}
		if mode == 4 && i == int(h>>30)%len(req.Messages) {
			res.Items = append(res.Items, channelappend.AppendBatchItemResult{Err: channelappend.ErrChannelNotFound})
			continue
		}
		res.Items = append(res.Items, p.commit(c, st, m))
	}
	switch mode {
	case 2, 3: // durable (fully / partly) but the caller sees a generic failure
		return channelappend.AppendBatchResult{}, channelappend.ErrAppendFailed
	case 6: // short result vector
		if len(res.Items) > 0 {
			res.Items = res.Items[:len(res.Items)-1]
		}
	}
	return res, nil
}

func (p *c41Port) LookupSend(_ context.Context, q channelappend.IdempotencyQuery) (channelappend.SendResult, bool, error) {
	n := p.lk.Add(1)
	if p.failPct > 0 && c41mix(p.seed^0x1f, uint64(n))%37 == 0 {
		return channelappend.SendResult{}, false, channelappend.ErrRouteNotReady
	}
	if q.FromUID == "" || q.ClientMsgNo == "" {
		return channelappend.SendResult{}, false, nil
	}
	st := p.ch(c41Num(q.ChannelID))
	st.mu.Lock()
	defer st.mu.Unlock()
	r, ok := st.recs[[2]int{c41Num(q.FromUID), c41Num(q.ClientMsgNo)}]
	if !ok {
		return channelappend.SendResult{}, false, nil
	}
	if q.PayloadHash != 0 && q.PayloadHash != c41fnv(c41Payload(r.p)) {
		return channelappend.SendResult{}, false, nil
	}
	return channelappend.SendResult{MessageID: r.id, MessageSeq: r.seq, Reason: channelappend.ReasonSuccess}, true, nil
}

func c41fnv(b []byte) uint64 {
	h := uint64(14695981039346656037)
	for _, x := range b {
		h ^= uint64(x)
		h *= 1099511628211
	}
	return h
}


type c41IDs struct{ n atomic.Uint64 }

func (a *c41IDs) Next() uint64 { return a.n.Add(1) + 1000 }

// c41Post is the PersistAfter post-commit port (slow best-effort side effect).
type c41Post struct{ us int }

func (p c41Post) EnqueuePersistAfter(context.Context, channelappend.CommittedEnvelope) {
	if p.us > 0 {
		time.Sleep(time.Duration(p.us) * time.Microsecond)
	}
}

type c41Runner struct{}

func (*c41Runner) Close() {}

func (*c41Runner) Step(op string) string {
	f := strings.Fields(op)
	if len(f) > 0 && f[0] == "longkey" {
		return c41LongKey(f[1:])
	}
	if len(f) > 0 && f[0] == "quiesce" {
		return c41Quiesce(f[1:])
	}
	if len(f) > 0 && f[0] == "gwstop" {
		return c41GwStop(f[1:])
	}
	if len(f) != 12 || f[0] != "stop" {
		return "bad-op"
	}
	v := make([]int, 10)
	for i := 0; i < 10; i++ {
		x, err := strconv.Atoi(f[i+1])
		if err != nil || x < 0 || x > 100000 {
			return "bad-op"
		}
		v[i] = x
	}
	seed, err := strconv.ParseUint(f[11], 10, 64)
	if err != nil {
		return "bad-op"
	}
	nch, senders, calls, maxItems, lat, post, fail, stopAfter, nStops, dl := v[0], v[1], v[2], v[3], v[4], v[5], v[6], v[7], v[8], v[9]
	if nch < 1 || nch > 8 || senders < 1 || senders > 8 || calls < 1 || calls > 8 || maxItems < 1 || maxItems > 8 || nStops > 4 {
		return "bad-op"
	}
	log := &c41Log{}
	port := &c41Port{log: log, seed: seed, failPct: fail, latUs: lat}
	opts := channelappend.Options{LocalNodeID: 1, Appender: port, Idempotency: port, MessageID: &c41IDs{},
		AuthorityShardCount: 2, AdvancePoolSize: 2, EffectPoolSize: 2}
	if post > 0 {
		opts.PersistAfterEnqueuer = c41Post{us: post}
	}
	group := channelappend.New(opts)
	if err := group.Start(context.Background()); err != nil {
		return "start-failed"
	}

	type admitted struct {
		id  int
		n   int
		fut *channelappend.Future
	}
	var mu sync.Mutex
	var adm []admitted
	var began atomic.Int64
	var callNo atomic.Int64
	var waiters sync.WaitGroup
	var wg sync.WaitGroup
	for s := 0; s < senders; s++ {
		wg.Add(1)
		go func(s int) {
			defer wg.Done()
			next := 1
			for k := 0; k < calls; k++ {
				h := c41mix(seed^uint64(s+1)<<32, uint64(k))
				n := 1 + int(h%uint64(maxItems))
				ch := int(h>>8) % nch
				items := make([]channelappend.SendBatchItem, 0, n)
				for i := 0; i < n; i++ {
					items = append(items, channelappend.SendBatchItem{Context: context.Background(), Command: channelappend.SendCommand{
						FromUID: c41UID(s + 1), ClientMsgNo: c41Msg(next), ChannelID: "c" + strconv.Itoa(ch), ChannelType: 2, Payload: c41Payload(int(h>>16) % 5)}})
					next++
				}
				id := int(callNo.Add(1))
				log.add("b.%d", id)
				began.Add(1)
				target := channelappend.AuthorityTarget{ChannelID: channelappend.ChannelID{ID: "c" + strconv.Itoa(ch), Type: 2}, LeaderNodeID: 1, Epoch: 1, LeaderEpoch: 1}
				fut, err := group.SubmitLocal(context.Background(), target, items)
				if err != nil {
					log.add("j.%d", id)
					continue
				}
				log.add("a.%d", id)
				a := admitted{id: id, n: n, fut: fut}
				mu.Lock()
				adm = append(adm, a)
				mu.Unlock()
				waiters.Add(1)
				go func() {
					defer waiters.Done()
					ctx, cancel := context.WithTimeout(context.Background(), 20*time.Second)
					res, werr := a.fut.Wait(ctx)
					cancel()
					if werr != nil {
						log.add("l.%d", a.id)
						return
					}
					kind := 0
					if len(res) != a.n {
						kind = 2
					}
					for _, r := range res {
						if errors.Is(r.Err, context.Canceled) {
							kind = 1
						}
					}
					log.add("f.%d.%d", a.id, kind)
				}()
			}
		}(s)
	}
	stopCall := func(k int, ctx context.Context) int {
		log.add("S.%d", k)
		done := make(chan error, 1)
		go func() { done <- group.Stop(ctx) }()
		t := time.NewTimer(30 * time.Second)
		defer t.Stop()
		select {
		case err := <-done:
			if err == nil {
				log.add("T.%d.0", k)
				return 0
			}
			log.add("T.%d.1", k)
			return 1
		case <-t.C:
			log.add("T.%d.2", k)
			return 2
		}
	}
	checkPending := func() {
		mu.Lock()
		snapshot := append([]admitted(nil), adm...)
		mu.Unlock()
		for _, a := range snapshot {
			ctx, cancel := context.WithTimeout(context.Background(), 50*time.Millisecond)
			_, err := a.fut.Wait(ctx)
			cancel()
			if err != nil {
				// Wait selects between the future's done channel and ctx.Done(): when the
				// scheduler starved this goroutine past the 50 ms grace, BOTH are ready and Go
				// picks at random, so a completed future can still answer with the context
				// error. Poll with the (now cancelled) context: a completed future wins a poll
				// with probability 1/2 each time, an incomplete one never does.
				for try := 0; try < 24 && err != nil; try++ {
					_, err = a.fut.Wait(ctx)
				}
			}
			if err != nil {
				log.add("p.%d", a.id)
			}
		}
	}
	for int(began.Load()) < stopAfter && int(began.Load()) < senders*calls {
		time.Sleep(20 * time.Microsecond)
	}
	for k := 0; k < nStops; k++ {
		ctx, cancel := context.WithTimeout(context.Background(), time.Duration(dl)*time.Microsecond)
		if stopCall(k, ctx) == 0 {
			checkPending()
		}
		cancel()
	}
	if stopCall(nStops, context.Background()) == 0 {
		checkPending()
	}
	wg.Wait()
	waiters.Wait()
	log.mu.Lock()
	defer log.mu.Unlock()
	if len(log.tok) == 0 {
		return "ev=-"
	}
	return "ev=" + strings.Join(log.tok, ",")
}

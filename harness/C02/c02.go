//go:build verif

package main

// C02 — replica logs agree on every committed offset.  Generator biased towards
// long multi-record logs, many leader changes with partial responder sets,
// lost replies (replays of proposals to followers) and minority writes that
// recovery must replace.
func init() {
	Register(&Prop{Gen: replGen(replGenParams{
		name: "C02", pInstall: 30, pCommit: 50, pCrash: 10, pRestart: 10,
		pRetryExact: 12, pRetryConfl: 4, pStaleAuth: 4, pEqualAuth: 10, pFenced: 2,
		pScenario: 30, pSmallCap: 10, maxOps: 30, pWrongExpect: 4,
		pBareQuorum: 26, pLostAcks: 22, pMinorityResp: 30,
		pRepair: 9, pMdb: 15, pSameTerm: 12, pStaleBatch: 3,
	}), NewRunner: func() Runner { return newReplRunner() }})
}

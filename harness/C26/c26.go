//go:build verif

package main

// C26 — node transport: header codec (part 1, this file) and RPC correlation
// (part 2, c26_pending.go / c26_e2e.go).
//
// Part 1 ops (one case):
//   dec <hex> <max>                      wire.DecodeHeader(bytes, max)
//   enc <k> <p> <sid> <rid> <blen> <max> wire.EncodeHeader then DecodeHeader of the result
//   rf  <hexstream> <max>                wire.ReadFrame over a counting reader (+ allocation measured)
//   wf  <k> <p> <sid> <rid> <blen> <bodyhex> <max>   wire.WriteFrame then ReadFrame of what was written

import (
	"bytes"
	"encoding/binary"
	"encoding/hex"
	"errors"
	"fmt"
	"io"
	"math"
	"runtime"
	"strconv"
	"strings"

	"github.com/WuKongIM/WuKongIM/pkg/transport"
	"github.com/WuKongIM/WuKongIM/pkg/transport/wire"
)

func init() {
	Register(&Prop{Gen: genC26, NewRunner: func() Runner { return &c26Runner{} }})
}

// ---------------------------------------------------------------- generator

type c26Hdr struct {
	k, p     uint8
	sid      uint16
	rid      uint64
	blen     uint32
}

// c26Layout is the documented wire layout, written out by hand so that the
// generator does not depend on the code under test.
func c26Layout(h c26Hdr) []byte {
	b := make([]byte, 24)
	b[0], b[1] = 0x57, 0x4b
	b[2] = 1
	b[3] = 0
	b[4] = h.k
	b[5] = h.p
	binary.BigEndian.PutUint16(b[6:], h.sid)
	binary.BigEndian.PutUint64(b[8:], h.rid)
	binary.BigEndian.PutUint32(b[16:], h.blen)
	return b
}

var c26Maxes = []int64{0, 1, 2, 1024, 65536, 1 << 20, math.MaxInt32, math.MaxUint32, 1 << 32, 1 << 40, math.MaxInt64, -1, -2, math.MinInt64}

func c26ValidHdr(g *Gen) c26Hdr {
	h := c26Hdr{k: uint8(g.R.Range(1, 5)), p: uint8(g.R.Range(1, 4))}
	h.sid = uint16(g.R.BoundaryU64())
	h.rid = g.R.BoundaryU64()
	switch g.R.Intn(4) {
	case 0:
		h.blen = 0
	case 1:
		h.blen = uint32(g.R.Intn(4096))
	default:
		h.blen = uint32(g.R.BoundaryU64())
	}
	return h
}

// c26MaxFor picks a limit at, just above, just below or unrelated to blen.
func c26MaxFor(g *Gen, blen uint32) int64 {
	switch g.R.Pick(4, 3, 2, 2, 1) {
	case 0:
		g.Count("max:above")
		return int64(blen) + int64(g.R.Intn(1<<16)) + 1
	case 1:
		g.Count("max:equal")
		return int64(blen)
	case 2:
		g.Count("max:below")
		if blen == 0 {
			return -1
		}
		return int64(blen) - 1 - int64(g.R.Intn(int(blen)))
	case 3:
		g.Count("max:table")
		return c26Maxes[g.R.Intn(len(c26Maxes))]
	default:
		g.Count("max:negative")
		return -1 - int64(g.R.Intn(1000))
	}
}

func c26MutateHeader(g *Gen, b []byte) string {
	switch g.R.Pick(20, 6, 6, 6, 8, 8, 8, 5, 5, 8, 6) {
	case 0:
		return "none"
	case 1:
		if g.R.Bool() {
			b[g.R.Intn(2)] ^= 1 << uint(g.R.Intn(8))
		} else {
			b[0], b[1] = byte(g.R.U64()), byte(g.R.U64())
		}
		return "magic"
	case 2:
		b[2] = []byte{0, 2, 3, 255, byte(g.R.U64())}[g.R.Intn(5)]
		return "version"
	case 3:
		b[3] = []byte{1, 2, 128, 255, byte(g.R.U64())}[g.R.Intn(5)]
		return "flags"
	case 4:
		b[20+g.R.Intn(4)] = byte(1 + g.R.Intn(255))
		return "reserved"
	case 5:
		b[4] = []byte{0, 6, 7, 128, 255, byte(g.R.U64())}[g.R.Intn(6)]
		return "kind"
	case 6:
		b[5] = []byte{0, 5, 6, 128, 255, byte(g.R.U64())}[g.R.Intn(6)]
		return "priority"
	case 7:
		b[g.R.Intn(24)] ^= 1 << uint(g.R.Intn(8))
		return "bitflip"
	case 8:
		copy(b, g.R.Bytes(24))
		return "random"
	case 9:
		// two independent faults: which error wins is part of the observable
		c26MutateHeader(g, b)
		c26MutateHeader(g, b)
		return "double"
	default:
		b[4] = uint8(g.R.Range(1, 5))
		b[5] = uint8(g.R.Range(1, 4))
		return "kind-prio-sweep"
	}
}

func genC26(g *Gen) {
	g.Case()
	n := g.N
	// directed: every kind x priority byte pair in 0..7 and the extremes, exact-limit bodies
	for k := 0; k < 8; k++ {
		for p := 0; p < 8; p++ {
			g.Op("enc", "%d %d 7 9 5 5", k, p)
		}
	}
	for _, kp := range [][2]int{{255, 1}, {1, 255}, {128, 128}} {
		g.Op("enc", "%d %d 0 0 0 0", kp[0], kp[1])
	}
	for _, m := range c26Maxes {
		g.Op("enc", "3 3 65535 18446744073709551615 4294967295 %d", m)
		g.Op("enc", "1 1 0 0 0 %d", m)
	}
	for l := 0; l < 24; l++ {
		g.Op("dec", "%s 100", Hex(c26Layout(c26Hdr{k: 1, p: 1})[:l]))
	}
	for i := 0; i < n; i++ {
		switch g.R.Pick(5, 3, 3, 2) {
		case 0: // dec
			h := c26ValidHdr(g)
			b := c26Layout(h)
			m := c26MutateHeader(g, b)
			g.Count("dec:mut:" + m)
			max := c26MaxFor(g, binary.BigEndian.Uint32(b[16:]))
			switch g.R.Pick(8, 1, 1) {
			case 1:
				b = b[:g.R.Intn(24)]
				g.Count("dec:truncated")
			case 2:
				b = append(b, g.R.Bytes(g.R.Range(1, 40))...)
				g.Count("dec:extended")
			}
			g.Op("dec", "%s %d", Hex(b), max)
		case 1: // enc
			h := c26ValidHdr(g)
			if g.R.Chance(25) {
				h.k = uint8(g.R.U64())
				g.Count("enc:any-kind")
			}
			if g.R.Chance(25) {
				h.p = uint8(g.R.U64())
				g.Count("enc:any-priority")
			}
			g.Op("enc", "%d %d %d %d %d %d", h.k, h.p, h.sid, h.rid, h.blen, c26MaxFor(g, h.blen))
		case 2: // rf
			h := c26ValidHdr(g)
			var body []byte
			scen := g.R.Pick(8, 3, 3, 2, 3, 4)
			switch scen {
			case 0, 1, 2, 3: // a frame whose body fits
				h.blen = uint32([]int{0, 1, g.R.Intn(64), g.R.Intn(64), 511, 512, 513, g.R.Intn(3000), 4096, 4097}[g.R.Intn(10)])
				body = g.R.Bytes(int(h.blen))
			case 4: // oversize header: huge declared length, nothing behind it
				// (kept moderate: a reader that allocates before validating must still finish the run)
				h.blen = uint32(1<<20 + g.R.Intn(1<<26))
				if g.R.Chance(4) {
					h.blen = math.MaxUint32 - uint32(g.R.Intn(4))
				}
				body = g.R.Bytes(g.R.Intn(8))
			case 5:
				h.blen = uint32(g.R.Intn(200))
				body = g.R.Bytes(int(h.blen))
			}
			b := c26Layout(h)
			max := int64(h.blen) + int64(g.R.Intn(100))
			what := "ok"
			switch scen {
			case 1: // stream ends inside / before the body
				if len(body) > 0 {
					body = body[:g.R.Intn(len(body))]
				}
				what = "short-body"
			case 2: // trailing bytes after the frame must stay unread
				body = append(body, g.R.Bytes(g.R.Range(1, 30))...)
				what = "trailing"
			case 3: // stream ends inside the header
				b = b[:g.R.Intn(24)]
				body = nil
				what = "short-header"
			case 4:
				max = []int64{0, 1024, 65536, 1 << 20, int64(h.blen) - 1, -1}[g.R.Intn(6)]
				what = "oversize"
			case 5:
				what = "hdr:" + c26MutateHeader(g, b)
				if g.R.Chance(30) {
					max = c26MaxFor(g, binary.BigEndian.Uint32(b[16:]))
				}
				// keep accepted declared lengths small: a mutated length that is still
				// within max would make the real reader wait for that many bytes
				if bl := binary.BigEndian.Uint32(b[16:]); int64(bl) <= max && bl > 1<<16 {
					max = 1 << 16
				}
			}
			g.Count("rf:" + what)
			g.Op("rf", "%s %d", Hex(append(b, body...)), max)
		default: // wf
			h := c26ValidHdr(g)
			if g.R.Chance(15) {
				h.k = uint8(g.R.Intn(8))
			}
			if g.R.Chance(15) {
				h.p = uint8(g.R.Intn(8))
			}
			body := g.R.Bytes([]int{0, 1, g.R.Intn(64), 512, 513, g.R.Intn(2000)}[g.R.Intn(6)])
			var max int64
			switch g.R.Pick(5, 2, 2, 1) {
			case 0:
				max = int64(len(body) + g.R.Intn(1000))
			case 1:
				max = int64(len(body))
			case 2:
				max = int64(len(body)) - 1
				g.Count("wf:over-limit")
			default:
				max = c26Maxes[g.R.Intn(len(c26Maxes))]
			}
			g.Op("wf", "%d %d %d %d %d %s %d", h.k, h.p, h.sid, h.rid, h.blen, Hex(body), max)
		}
	}
	genC26Pending(g)
}

// ------------------------------------------------------------------- runner

type c26Runner struct {
	pend *c26PendRunner
}

func (r *c26Runner) Close() {
	if r.pend != nil {
		r.pend.close()
	}
}

func c26ErrClass(err error) string {
	switch {
	case err == nil:
		return "ok"
	case errors.Is(err, transport.ErrInvalidFrame):
		return "err:invalid-frame"
	case errors.Is(err, transport.ErrInvalidPriority):
		return "err:invalid-priority"
	case errors.Is(err, transport.ErrMsgTooLarge):
		return "err:too-large"
	case errors.Is(err, io.ErrUnexpectedEOF):
		return "err:short"
	case errors.Is(err, io.EOF):
		return "err:eof"
	}
	return "err:other"
}

func c26HdrStr(h wire.Header) string {
	return fmt.Sprintf("%d %d %d %d %d", uint8(h.Kind), uint8(h.Priority), h.ServiceID, h.RequestID, h.BodyLen)
}

func c26ToInt(s string) (int, bool) {
	v, err := strconv.ParseInt(s, 10, 64)
	return int(v), err == nil
}

type c26CountingReader struct {
	r *bytes.Reader
	n int
}

func (c *c26CountingReader) Read(p []byte) (int, error) {
	n, err := c.r.Read(p)
	c.n += n
	return n, err
}

func c26ParseHdr(f []string) (wire.Header, bool) {
	k, e1 := strconv.ParseUint(f[0], 10, 8)
	p, e2 := strconv.ParseUint(f[1], 10, 8)
	s, e3 := strconv.ParseUint(f[2], 10, 16)
	r, e4 := strconv.ParseUint(f[3], 10, 64)
	b, e5 := strconv.ParseUint(f[4], 10, 32)
	if e1 != nil || e2 != nil || e3 != nil || e4 != nil || e5 != nil {
		return wire.Header{}, false
	}
	return wire.Header{Kind: transport.FrameKind(k), Priority: transport.Priority(p), ServiceID: uint16(s), RequestID: r, BodyLen: uint32(b)}, true
}

func c26UnHex(s string) ([]byte, bool) {
	if s == "-" {
		return nil, true
	}
	b, err := hex.DecodeString(s)
	return b, err == nil
}

func (r *c26Runner) Step(op string) string {
	f := strings.Fields(op)
	if len(f) == 0 {
		return "bad-op"
	}
	switch f[0] {
	case "dec":
		if len(f) != 3 {
			return "bad-op"
		}
		b, ok1 := c26UnHex(f[1])
		max, ok2 := c26ToInt(f[2])
		if !ok1 || !ok2 {
			return "bad-op"
		}
		h, err := wire.DecodeHeader(b, max)
		if err != nil {
			return c26ErrClass(err)
		}
		return "ok " + c26HdrStr(h)
	case "enc":
		if len(f) != 7 {
			return "bad-op"
		}
		h, ok1 := c26ParseHdr(f[1:6])
		max, ok2 := c26ToInt(f[6])
		if !ok1 || !ok2 {
			return "bad-op"
		}
		enc := wire.EncodeHeader(h)
		d, err := wire.DecodeHeader(enc[:], max)
		if err != nil {
			return hex.EncodeToString(enc[:]) + " " + c26ErrClass(err)
		}
		return hex.EncodeToString(enc[:]) + " ok " + c26HdrStr(d)
	case "rf":
		if len(f) != 3 {
			return "bad-op"
		}
		b, ok1 := c26UnHex(f[1])
		max, ok2 := c26ToInt(f[2])
		if !ok1 || !ok2 {
			return "bad-op"
		}
		cr := &c26CountingReader{r: bytes.NewReader(b)}
		var ms runtime.MemStats
		runtime.ReadMemStats(&ms)
		before := ms.TotalAlloc
		fr, err := wire.ReadFrame(cr, max)
		runtime.ReadMemStats(&ms)
		delta := ms.TotalAlloc - before
		if err != nil {
			// allocation is only judged when the header itself was rejected
			cls := c26ErrClass(err)
			a := "-"
			if cls == "err:invalid-frame" || cls == "err:invalid-priority" || cls == "err:too-large" {
				a = "small"
				if delta > 64<<10 {
					a = "big"
				}
			}
			return fmt.Sprintf("%s c=%d a=%s", cls, cr.n, a)
		}
		body := append([]byte(nil), fr.Body.Bytes()...)
		fr.Body.Release()
		return fmt.Sprintf("ok %s %s c=%d", c26HdrStr(fr.Header), Hex(body), cr.n)
	case "wf":
		if len(f) != 8 {
			return "bad-op"
		}
		h, ok1 := c26ParseHdr(f[1:6])
		body, ok3 := c26UnHex(f[6])
		max, ok2 := c26ToInt(f[7])
		if !ok1 || !ok2 || !ok3 {
			return "bad-op"
		}
		var w bytes.Buffer
		err := wire.WriteFrame(&w, wire.Frame{Header: h, Body: transport.NewOwnedBuffer(body, nil)}, max)
		if err != nil {
			return c26ErrClass(err)
		}
		out := append([]byte(nil), w.Bytes()...)
		fr, err := wire.ReadFrame(bytes.NewReader(out), max)
		if err != nil {
			return "ok " + Hex(out) + " rb:" + c26ErrClass(err)
		}
		same := bytes.Equal(fr.Body.Bytes(), body)
		fr.Body.Release()
		return fmt.Sprintf("ok %s rb:ok %s same=%v", Hex(out), c26HdrStr(fr.Header), same)
	}
	if r.pend == nil {
		r.pend = newC26PendRunner()
	}
	return r.pend.step(f)
}

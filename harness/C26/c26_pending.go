//go:build verif

package main

// C26 part 2 — RPC correlation on the REAL rpc.PendingTable.
//
//   pend <shards> <callers> <failalls:0|1|2> <pComplete> <pCancel> <pDup> <seed>
//
// One op = one concurrent scenario.  Every caller i owns id base+i and a private
// buffered(1) channel, exactly like conn.Call.  Completer goroutines call
// Complete(id, Response{Payload: nonce}) for a random subset of ids (some twice,
// some for ids nobody stored), cancellers make callers give up (Delete), and up
// to two FailAll calls (errors E1, E2) run at random points.  Random yields and
// short sleeps shuffle the interleaving; NOTHING is asserted about timing: callers
// wait until every completer/failer goroutine has returned and then look into
// their channel without blocking, so each outcome is a fact, not a timeout.
//
// Output (canonical, one line):
//   len=<Len() at the end> fa=<n> c<i>=<outcome>/<true completes>/<nonces of true completes>/<phase> ...
//     outcome: r<tag>.<nonce> | e1 | e2 | e? | 0 (nothing arrived) | x (gave up, nothing in the channel)
//              | x+r<tag>.<nonce> | x+e1.. (gave up, late delivery found) ; suffix +dup = a second message was delivered
//     phase:   n (no FailAll) | b (Store returned before the first FailAll began) | a (Store began after a FailAll returned) | o (overlap)

import (
	"encoding/binary"
	"errors"
	"fmt"
	"runtime"
	"sort"
	"strconv"
	"strings"
	"sync"
	"sync/atomic"
	"time"

	"github.com/WuKongIM/WuKongIM/pkg/transport"
)

var (
	c26E1 = errors.New("verif: fail-all 1")
	c26E2 = errors.New("verif: fail-all 2")
)

func genC26Pending(g *Gen) {
	n := g.N / 20
	if n < 40 {
		n = 40
	}
	g.Case()
	for i := 0; i < n; i++ {
		shards := []int{1, 2, 16, 16, 64, 3}[g.R.Intn(6)]
		callers := []int{1, 2, 3, 8, 8, 32, 64}[g.R.Intn(7)]
		fa := g.R.Pick(4, 5, 2)
		pc := []int{0, 30, 60, 90, 100}[g.R.Intn(5)]
		px := []int{0, 0, 10, 40}[g.R.Intn(4)]
		pd := []int{0, 20, 50}[g.R.Intn(3)]
		g.Count(fmt.Sprintf("pend:failalls=%d", fa))
		g.Op("pend", "%d %d %d %d %d %d %d", shards, callers, fa, pc, px, pd, g.R.U64()>>1)
	}
	g.Case()
	genC26E2E(g)
}

type c26PendRunner struct{}

func newC26PendRunner() *c26PendRunner { return &c26PendRunner{} }
func (p *c26PendRunner) close()        {}

func c26Jitter(r *Rand) {
	switch r.Intn(6) {
	case 0:
	case 1, 2:
		runtime.Gosched()
	case 3:
		for i, n := 0, r.Intn(200); i < n; i++ {
			runtime.Gosched()
		}
	case 4:
		time.Sleep(time.Duration(r.Intn(50)) * time.Microsecond)
	default:
		time.Sleep(time.Duration(r.Intn(400)) * time.Microsecond)
	}
}

func c26RespStr(r transport.VerifResponse) string {
	if r.Err != nil {
		switch {
		case errors.Is(r.Err, c26E1):
			return "e1"
		case errors.Is(r.Err, c26E2):
			return "e2"
		}
		return "e?"
	}
	if len(r.Payload) != 16 {
		return "r?"
	}
	return fmt.Sprintf("r%d.%d", binary.BigEndian.Uint64(r.Payload), binary.BigEndian.Uint64(r.Payload[8:]))
}

func (p *c26PendRunner) step(f []string) string {
	if f[0] == "e2e" {
		return c26E2E(f)
	}
	if len(f) != 8 || f[0] != "pend" {
		return "bad-op"
	}
	var a [7]uint64
	for i := range a {
		v, err := strconv.ParseUint(f[i+1], 10, 64)
		if err != nil {
			return "bad-op"
		}
		a[i] = v
	}
	shards, callers, failAlls, pComplete, pCancel, pDup, seed := int(a[0]), int(a[1]), int(a[2]), int(a[3]), int(a[4]), int(a[5]), a[6]
	if callers < 1 || callers > 512 || failAlls > 2 || shards < 1 || shards > 1024 {
		return "bad-op"
	}
	root := NewRand(seed)
	table := transport.VerifNewPendingTable(shards)
	base := uint64(root.Intn(1000)) * 7

	type callerState struct {
		ch        chan transport.VerifResponse
		cancel    chan struct{}
		outcome   string
		phase     string
		trueNonce []uint64
		mu        sync.Mutex
	}
	cs := make([]*callerState, callers)
	for i := range cs {
		cs[i] = &callerState{ch: make(chan transport.VerifResponse, 1), cancel: make(chan struct{})}
	}
	var faBegun, faEnded atomic.Int64 // number of FailAll calls begun / returned
	othersDone := make(chan struct{})
	var callersWG, othersWG sync.WaitGroup
	var nonce atomic.Uint64

	// callers
	for i := range cs {
		i := i
		r := NewRand(root.U64())
		callersWG.Add(1)
		go func() {
			defer callersWG.Done()
			c := cs[i]
			id := base + uint64(i)
			c26Jitter(r)
			endedBefore := faEnded.Load()
			table.Store(id, c.ch)
			begunAfter := faBegun.Load()
			switch {
			case failAlls == 0:
				c.phase = "n"
			case endedBefore > 0:
				c.phase = "a"
			case begunAfter == 0:
				c.phase = "b"
			default:
				c.phase = "o"
			}
			out := ""
			select {
			case resp := <-c.ch:
				out = c26RespStr(resp)
			case <-c.cancel:
				table.Delete(id)
				out = "x"
			case <-othersDone:
				select {
				case resp := <-c.ch:
					out = c26RespStr(resp)
				default:
					out = "0"
				}
			}
			// everything that could still send has finished once othersDone is closed
			<-othersDone
			select {
			case resp := <-c.ch:
				if out == "x" {
					out = "x+" + c26RespStr(resp)
				} else {
					out += "+dup"
				}
			default:
			}
			select {
			case <-c.ch:
				out += "+dup"
			default:
			}
			c.outcome = out
		}()
	}
	// completers: one goroutine per planned Complete call
	for i := range cs {
		if !root.Chance(pComplete) {
			continue
		}
		times := 1
		if root.Chance(pDup) {
			times = 2 + root.Intn(2)
		}
		for k := 0; k < times; k++ {
			i := i
			r := NewRand(root.U64())
			othersWG.Add(1)
			go func() {
				defer othersWG.Done()
				id := base + uint64(i)
				c26Jitter(r)
				c26Jitter(r)
				n := nonce.Add(1)
				payload := make([]byte, 16)
				binary.BigEndian.PutUint64(payload, id)
				binary.BigEndian.PutUint64(payload[8:], n)
				if table.Complete(id, transport.VerifResponse{Payload: payload}) {
					cs[i].mu.Lock()
					cs[i].trueNonce = append(cs[i].trueNonce, n)
					cs[i].mu.Unlock()
				}
			}()
		}
	}
	// responses for ids nobody owns
	for k, n := 0, root.Intn(4); k < n; k++ {
		r := NewRand(root.U64())
		othersWG.Add(1)
		go func() {
			defer othersWG.Done()
			c26Jitter(r)
			table.Complete(base+uint64(callers)+uint64(r.Intn(1000)), transport.VerifResponse{Payload: make([]byte, 16)})
		}()
	}
	// cancellers
	for i := range cs {
		if !root.Chance(pCancel) {
			continue
		}
		i := i
		r := NewRand(root.U64())
		othersWG.Add(1)
		go func() {
			defer othersWG.Done()
			c26Jitter(r)
			close(cs[i].cancel)
		}()
	}
	// FailAll calls
	for k := 0; k < failAlls; k++ {
		k := k
		r := NewRand(root.U64())
		othersWG.Add(1)
		go func() {
			defer othersWG.Done()
			c26Jitter(r)
			if k == 1 {
				c26Jitter(r)
			}
			faBegun.Add(1)
			if k == 0 {
				table.FailAll(c26E1)
			} else {
				table.FailAll(c26E2)
			}
			faEnded.Add(1)
		}()
	}
	// late callers are covered by phase "a": some callers jitter longer than the FailAll goroutines.
	othersWG.Wait()
	close(othersDone)
	callersWG.Wait()

	var b strings.Builder
	fmt.Fprintf(&b, "len=%d fa=%d", table.Len(), failAlls)
	for i, c := range cs {
		sort.Slice(c.trueNonce, func(x, y int) bool { return c.trueNonce[x] < c.trueNonce[y] })
		var ns []string
		for _, n := range c.trueNonce {
			ns = append(ns, strconv.FormatUint(n, 10))
		}
		nl := "-"
		if len(ns) > 0 {
			nl = strings.Join(ns, ",")
		}
		fmt.Fprintf(&b, " c%d=%s/%d/%s/%s", base+uint64(i), c.outcome, len(c.trueNonce), nl, c.phase)
	}
	return b.String()
}

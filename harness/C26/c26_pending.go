//go:build verif

package main

func genC26Pending(g *Gen) {}

type c26PendRunner struct{}

func newC26PendRunner() *c26PendRunner { return &c26PendRunner{} }
func (p *c26PendRunner) close()        {}
func (p *c26PendRunner) step(f []string) string { return "bad-op" }

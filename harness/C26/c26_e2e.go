//go:build verif

package main

// C26 part 2, end to end: the REAL transport client and server over a loopback
// connection (PoolSize 1, so every concurrent call shares one connection and
// one pending table).
//
//   e2e <callers> <pErr> <pCancel> <reset:0|1|2> <seed>
//
// Every call carries a unique nonce; the handler echoes it (after a random
// delay) or fails with an error naming it.  reset=1 closes the peer's
// connections in the middle, reset=2 stops the server.  Output: how many calls
// ended in each class; `foreign` counts calls that got a payload / remote error
// that belongs to ANOTHER call (the property violation).  Nothing is asserted
// about which class a call ends in (that depends on the schedule).

import (
	"context"
	"encoding/binary"
	"errors"
	"fmt"
	"strconv"
	"strings"
	"sync"
	"sync/atomic"
	"time"

	"github.com/WuKongIM/WuKongIM/pkg/transport"
)

type c26Disc map[transport.NodeID]string

func (d c26Disc) Resolve(id transport.NodeID) (string, error) {
	if a, ok := d[id]; ok {
		return a, nil
	}
	return "", transport.ErrNodeNotFound
}

func genC26E2E(g *Gen) {
	n := g.N / 150
	if n < 12 {
		n = 12
	}
	for i := 0; i < n; i++ {
		reset := g.R.Pick(5, 3, 2)
		g.Count(fmt.Sprintf("e2e:reset=%d", reset))
		g.Op("e2e", "%d %d %d %d %d", []int{1, 4, 16, 48}[g.R.Intn(4)], []int{0, 20, 50}[g.R.Intn(3)], []int{0, 15, 40}[g.R.Intn(3)], reset, g.R.U64()>>1)
	}
}

func c26E2E(f []string) string {
	if len(f) != 6 {
		return "bad-op"
	}
	var a [5]uint64
	for i := range a {
		v, err := strconv.ParseUint(f[i+1], 10, 64)
		if err != nil {
			return "bad-op"
		}
		a[i] = v
	}
	callers, pErr, pCancel, reset, seed := int(a[0]), int(a[1]), int(a[2]), int(a[3]), a[4]
	if callers < 1 || callers > 256 || reset > 2 {
		return "bad-op"
	}
	root := NewRand(seed)
	limits := transport.DefaultLimits()
	server, err := transport.NewServer(transport.ServerConfig{NodeID: 2, Limits: limits})
	if err != nil {
		return "setup-failed"
	}
	defer server.Stop()
	var handled atomic.Int64
	handler := func(ctx context.Context, payload []byte) ([]byte, error) {
		handled.Add(1)
		if len(payload) != 17 {
			return nil, errors.New("bad payload")
		}
		d := time.Duration(binary.BigEndian.Uint32(payload[12:16])) * time.Microsecond
		if d > 0 {
			select {
			case <-time.After(d):
			case <-ctx.Done():
				return nil, ctx.Err()
			}
		}
		if payload[16] == 1 {
			return nil, fmt.Errorf("fail-%x", payload[:12])
		}
		return append([]byte("ok:"), payload[:12]...), nil
	}
	if err := server.Handle(7, handler, transport.ServiceOptions{Concurrency: 4, QueueSize: 512, MaxQueueBytes: 1 << 20}); err != nil {
		return "setup-failed"
	}
	if err := server.ListenAndServe("127.0.0.1:0"); err != nil {
		return "setup-failed"
	}
	client, err := transport.NewClient(transport.ClientConfig{NodeID: 1, Discovery: c26Disc{2: server.Addr()}, PoolSize: 1, Limits: limits})
	if err != nil {
		return "setup-failed"
	}
	defer client.Stop()

	var okN, remoteN, canceledN, stoppedN, deadlineN, otherN, foreign atomic.Int64
	var wg sync.WaitGroup
	for i := 0; i < callers; i++ {
		r := NewRand(root.U64())
		i := i
		wg.Add(1)
		go func() {
			defer wg.Done()
			payload := make([]byte, 17)
			binary.BigEndian.PutUint32(payload, uint32(i))
			binary.BigEndian.PutUint64(payload[4:], r.U64())
			binary.BigEndian.PutUint32(payload[12:], uint32(r.Intn(3000)))
			wantFail := r.Chance(pErr)
			if wantFail {
				payload[16] = 1
			}
			ctx, cancel := context.WithTimeout(context.Background(), 20*time.Second)
			defer cancel()
			if r.Chance(pCancel) {
				d := time.Duration(r.Intn(2500)) * time.Microsecond
				go func() {
					time.Sleep(d)
					cancel()
				}()
			}
			c26Jitter(r)
			resp, err := client.Call(ctx, 2, 1, transport.PriorityRPC, 7, payload)
			var remote transport.RemoteError
			switch {
			case err == nil:
				if string(resp) == "ok:"+string(payload[:12]) && !wantFail {
					okN.Add(1)
				} else {
					foreign.Add(1)
				}
			case errors.As(err, &remote):
				if wantFail && strings.Contains(remote.Message, fmt.Sprintf("fail-%x", payload[:12])) {
					remoteN.Add(1)
				} else if strings.Contains(remote.Message, "fail-") {
					foreign.Add(1) // another call's failure
				} else {
					remoteN.Add(1) // handler-side context error / queue full etc.
				}
			case errors.Is(err, transport.ErrCanceled) || errors.Is(err, context.Canceled):
				canceledN.Add(1)
			case errors.Is(err, context.DeadlineExceeded) || errors.Is(err, transport.ErrTimeout):
				deadlineN.Add(1)
			case errors.Is(err, transport.ErrStopped):
				stoppedN.Add(1)
			default:
				otherN.Add(1)
			}
		}()
	}
	if reset != 0 {
		wg.Add(1)
		go func() {
			defer wg.Done()
			time.Sleep(time.Duration(root.Intn(2500)) * time.Microsecond)
			if reset == 1 {
				client.ClosePeer(2)
			} else {
				server.Stop()
			}
		}()
	}
	wg.Wait()
	total := okN.Load() + remoteN.Load() + canceledN.Load() + stoppedN.Load() + deadlineN.Load() + otherN.Load() + foreign.Load()
	return fmt.Sprintf("calls=%d returned=%d ok=%d remote=%d canceled=%d stopped=%d deadline=%d other=%d foreign=%d",
		callers, total, okN.Load(), remoteN.Load(), canceledN.Load(), stoppedN.Load(), deadlineN.Load(), otherN.Load(), foreign.Load())
}

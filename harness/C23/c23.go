//go:build verif

package main

// C23 — Client stream decoding is robust to arbitrary bytes and splits.
//
// ops (model: lean/Driver/C23.lean):
//   seq <sv> cuts=<c,c,…|all|-> trunc=<k> <frame…> ;; <frame…> ;; …
//        every frame is encoded with the REAL EncodeFrame at the session's effective
//        version, the encodings are concatenated, the last `d = 1+((k-1) mod lastLen)`
//        bytes are dropped when k > 0, and the stream is decoded by Adapter.Decode
//        (a) in one piece and (b) through the gateway's inbound-buffer discipline
//        in the chunks given by `cuts` (offsets, reduced mod len+1); `all` = every
//        two-chunk split point plus byte-by-byte delivery.
//   raw <sv> cuts=<…> <bytes>   the same for arbitrary bytes.
// output:
//   len=<L> whole=<frames>,<consumed>,<err> wh=<hash> det=<0|1> pfx=<0|1>
//   feed=<frames>,<left>,<closed>,<hash> all=<agree>/<tried> gw=<frames>,<left>,<closed>,<hash>
//   gwall=<agree>/<tried> :: <frame…> ;; <frame…>
//   (or "encfail" when a frame of a seq op does not encode)
//   det: decoded SEND payloads survive overwriting the input buffer (detachSendPayload)
//   pfx: decoding exactly in[:consumed] yields the same frames and consumed (no over-read)
//   feed = Adapter.Decode driven by the harness' own copy of the buffer discipline;
//   gw   = the same chunks pushed through the REAL gateway (core.Server.onData via a fake
//          transport connection, the real wkproto adapter registered as the listener's
//          protocol): frames as the server dispatches them (Observer.OnFrameIn order,
//          contents from Handler.OnFrame / the async SEND path), bytes left in
//          sessionState.inbound (0 when closed), closed flag.  gwall: single chunk,
//          byte-by-byte and a few two-chunk splits all give the same gw signature.
// sv is the value stored under gateway.protocol_version (0 = not set).
// Every slice handed to the decoder has cap == len.

import (
	"fmt"
	"sort"
	"strconv"
	"strings"
	"sync"
	"time"

	"github.com/WuKongIM/WuKongIM/pkg/gateway/core"
	"github.com/WuKongIM/WuKongIM/pkg/gateway/transport"

	"github.com/WuKongIM/WuKongIM/pkg/gateway/protocol/wkproto"
	"github.com/WuKongIM/WuKongIM/pkg/gateway/session"
	gatewaytypes "github.com/WuKongIM/WuKongIM/pkg/gateway/types"
	codec "github.com/WuKongIM/WuKongIM/pkg/protocol/codec"
	"github.com/WuKongIM/WuKongIM/pkg/protocol/frame"
)

func init() {
	Register(&Prop{Gen: genC23, NewRunner: func() Runner { return &c23Runner{a: wkproto.New(), p: codec.New()} }})
}

func genCuts(g *Gen, allowAll bool) string {
	switch g.R.Pick(2, 5, 3) {
	case 0:
		return "-"
	case 1:
		n := g.R.Range(1, 6)
		s := make([]string, n)
		for i := range s {
			if g.R.Chance(30) {
				s[i] = strconv.Itoa(g.R.Intn(12))
			} else {
				s[i] = strconv.Itoa(g.R.Intn(1 << 16))
			}
		}
		g.Count("cuts:random")
		return strings.Join(s, ",")
	default:
		if allowAll {
			g.Count("cuts:all-split-points")
			return "all"
		}
		return strconv.Itoa(g.R.Intn(1 << 16))
	}
}

func genC23(g *Gen) {
	g.R = NewRand(g.R.U64() ^ 0xC23C23) // see harness/C22/c22.go: decorrelate the seeds
	g.Case()
	lite := &fgen{g: g, lite: true}
	valid := &fgen{g: g}
	// directed: empty input, single header bytes, every frame type alone with all split points, per version
	g.Op("raw", "0 cuts=- -")
	for b := 0; b < 256; b += 5 {
		g.Op("raw", "%d cuts=- %02x", b%8, b)
	}
	for v := 0; v <= 7; v++ {
		fs := make([]string, 0, len(c22Types))
		for _, ty := range c22Types {
			fs = append(fs, lite.frame(effv(v), ty))
		}
		g.Op("seq", "%d cuts=all trunc=0 %s", v, strings.Join(fs, " ;; "))
	}
	for i := 0; i < g.N; i++ {
		sv := genVersion(g)
		switch g.R.Pick(35, 25, 30, 10) {
		case 0: // small frames, every split point
			n := g.R.Range(1, 5)
			fs := make([]string, n)
			for j := range fs {
				fs[j] = lite.frame(effv(sv), "")
			}
			trunc := 0
			if g.R.Chance(30) {
				trunc = g.R.Range(1, 40)
				g.Count("seq:truncated-last-frame")
			}
			g.Count("seq:lite-all-splits")
			g.Op("seq", "%d cuts=all trunc=%d %s", sv, trunc, strings.Join(fs, " ;; "))
		case 1: // ordinary valid frames, random chunking
			n := g.R.Range(1, 4)
			fs := make([]string, n)
			for j := range fs {
				fs[j] = valid.frame(effv(sv), "")
			}
			trunc := 0
			if g.R.Chance(30) {
				trunc = g.R.Range(1, 1<<16)
				g.Count("seq:truncated-last-frame")
			}
			g.Count("seq:valid-random-cuts")
			g.Op("seq", "%d cuts=%s trunc=%d %s", sv, genCuts(g, false), trunc, strings.Join(fs, " ;; "))
		case 2: // mostly-well-formed / mutated wire bytes
			var b []byte
			for k := g.R.Range(1, 3); k > 0; k-- {
				b = append(b, genWire(g, effv(sv))...)
			}
			g.Count("raw:structured")
			g.Op("raw", "%d cuts=%s %s", sv, genCuts(g, len(b) <= 160), Hex(b))
		default:
			g.Count("raw:random-bytes")
			b := g.R.Bytes(g.R.Intn(40))
			if len(b) > 0 && g.R.Chance(60) { // a plausible type nibble up front
				b[0] = byte(g.R.Range(1, 12)<<4) | b[0]&15
			}
			g.Op("raw", "%d cuts=%s %s", sv, genCuts(g, true), Hex(b))
		}
	}
}

func effv(sv int) int {
	if sv == 0 {
		return frame.LatestVersion
	}
	return sv
}

type c23Runner struct {
	a  *wkproto.Adapter
	p  *codec.WKProto
	gw *c23Gateway
}

func (r *c23Runner) Close() {
	if r.gw != nil {
		srv := r.gw.srv
		r.gw = nil
		go func() { _ = srv.Stop() }()
	}
}

// ------------------------------------------------ the real gateway path ---

type c23Listener struct{}

func (c23Listener) Start() error { return nil }
func (c23Listener) Stop() error  { return nil }
func (c23Listener) Addr() string { return "c23" }

type c23Factory struct{ handler transport.ConnHandler }

func (f *c23Factory) Name() string { return "c23t" }
func (f *c23Factory) Build(specs []transport.ListenerSpec) ([]transport.Listener, error) {
	out := make([]transport.Listener, 0, len(specs))
	for _, sp := range specs {
		f.handler = sp.Handler
		out = append(out, c23Listener{})
	}
	return out, nil
}

type c23Conn struct {
	id     uint64
	mu     sync.Mutex
	closed bool
}

func (c *c23Conn) ID() uint64          { return c.id }
func (c *c23Conn) Write([]byte) error  { return nil }
func (c *c23Conn) LocalAddr() string   { return "l" }
func (c *c23Conn) RemoteAddr() string  { return "r" + strconv.FormatUint(c.id, 10) }
func (c *c23Conn) Close() error {
	c.mu.Lock()
	c.closed = true
	c.mu.Unlock()
	return nil
}

// c23Trace collects what the server dispatches for one connection.
type c23Trace struct {
	mu     sync.Mutex
	cond   *sync.Cond
	slots  []string // one per OnFrameIn event, in order; "" = SEND content still in flight
	sendIx []int    // slots waiting for the k-th SEND delivery
	sends  int      // SEND deliveries so far
	extra  int      // handler deliveries that match no OnFrameIn slot
}

type c23Gateway struct {
	srv *core.Server
	fac *c23Factory
	mu  sync.Mutex
	sv  int
	tr  map[uint64]*c23Trace // by session id
	cur *c23Trace            // trace of the connection being opened
	ids uint64
}

func (g *c23Gateway) trace(sess session.Session) *c23Trace {
	if sess == nil {
		return nil
	}
	g.mu.Lock()
	defer g.mu.Unlock()
	return g.tr[sess.ID()]
}

// gatewaytypes.Handler
func (g *c23Gateway) OnListenerError(string, error) {}
func (g *c23Gateway) OnSessionOpen(ctx gatewaytypes.Context) error {
	g.mu.Lock()
	if ctx.Session != nil {
		if g.sv != 0 {
			ctx.Session.SetValue(gatewaytypes.SessionValueProtocolVersion, uint8(g.sv))
		}
		g.tr[ctx.Session.ID()] = g.cur
	}
	g.mu.Unlock()
	return nil
}
func (g *c23Gateway) OnSessionClose(gatewaytypes.Context) error { return nil }
func (g *c23Gateway) OnSessionError(gatewaytypes.Context, error) {}
func (g *c23Gateway) OnFrame(ctx gatewaytypes.Context, f frame.Frame) error {
	t := g.trace(ctx.Session)
	if t == nil {
		return nil
	}
	text := showFrame(f)
	t.mu.Lock()
	defer t.mu.Unlock()
	if _, ok := f.(*frame.SendPacket); ok {
		if t.sends < len(t.sendIx) {
			t.slots[t.sendIx[t.sends]] = text
		} else {
			t.extra++
		}
		t.sends++
		t.cond.Broadcast()
		return nil
	}
	// non-SEND frames are dispatched synchronously right after their OnFrameIn event
	if n := len(t.slots); n > 0 && t.slots[n-1] == "?" {
		t.slots[n-1] = text
	} else {
		t.extra++
	}
	return nil
}

// gatewaytypes.Observer
func (g *c23Gateway) OnConnectionOpen(gatewaytypes.ConnectionEvent)  {}
func (g *c23Gateway) OnConnectionClose(gatewaytypes.ConnectionEvent) {}
func (g *c23Gateway) OnAuth(gatewaytypes.AuthEvent)                  {}
func (g *c23Gateway) OnFrameOut(gatewaytypes.FrameEvent)             {}
func (g *c23Gateway) OnFrameHandled(gatewaytypes.FrameHandleEvent)   {}
func (g *c23Gateway) OnFrameIn(ev gatewaytypes.FrameEvent) {
	// called synchronously from onData on the feeding goroutine: one connection is fed at a time
	g.mu.Lock()
	t := g.cur
	g.mu.Unlock()
	if t == nil {
		return
	}
	t.mu.Lock()
	if len(t.slots) > 200000 { // a server that re-dispatches the same bytes forever: fail fast, not OOM
		t.mu.Unlock()
		panic("c23: runaway dispatch loop in the gateway inbound path")
	}
	if ev.FrameType == "SEND" {
		t.sendIx = append(t.sendIx, len(t.slots))
		t.slots = append(t.slots, "")
	} else {
		t.slots = append(t.slots, "?")
	}
	t.mu.Unlock()
}

func newC23Gateway() (*c23Gateway, error) {
	g := &c23Gateway{fac: &c23Factory{}, tr: map[uint64]*c23Trace{}}
	reg := core.NewRegistry()
	if err := reg.RegisterTransport(g.fac); err != nil {
		return nil, err
	}
	if err := reg.RegisterProtocol(wkproto.New()); err != nil {
		return nil, err
	}
	srv, err := core.NewServer(reg, &gatewaytypes.Options{
		Handler:        g,
		Observer:       g,
		DefaultSession: gatewaytypes.SessionOptions{MaxInboundBytes: 64 << 20, IdleTimeout: time.Hour},
		Runtime: gatewaytypes.RuntimeOptions{AsyncSendWorkers: 2, AsyncSendQueueCapacity: 8192,
			AsyncAuthWorkers: 1, AsyncAuthQueueCapacity: 1, AsyncPoolReleaseTimeout: 50 * time.Millisecond},
		Listeners: []gatewaytypes.ListenerOptions{{Name: "l", Network: "tcp", Address: "c23", Transport: "c23t", Protocol: wkproto.Name}},
	})
	if err != nil {
		return nil, err
	}
	if err := srv.Start(); err != nil {
		return nil, err
	}
	g.srv = srv
	return g, nil
}

// feed pushes the chunks through the real server on a fresh connection.
func (g *c23Gateway) feed(sv int, chunks [][]byte) (frames []string, left int, closed bool) {
	t := &c23Trace{}
	t.cond = sync.NewCond(&t.mu)
	g.mu.Lock()
	g.ids++
	conn := &c23Conn{id: g.ids}
	g.sv = sv
	g.cur = t
	g.mu.Unlock()
	h := g.fac.handler
	if err := h.OnOpen(conn); err != nil {
		return []string{"open-error"}, 0, true
	}
	for _, ch := range chunks {
		in := c23Exact(ch)
		_ = h.OnData(conn, in)
		for i := range in { // the transport reuses its read buffer
			in[i] ^= 0xFF
		}
	}
	// wait for the asynchronously dispatched SEND frames (no assertion on timing:
	// the deadline only turns a lost frame into a visible "lost-send" marker)
	deadline := time.Now().Add(60 * time.Second)
	t.mu.Lock()
	for t.sends < len(t.sendIx) && time.Now().Before(deadline) {
		t.mu.Unlock()
		if _, cl := g.srv.VerifInboundState("l", conn.id); cl {
			// a closed session may drop its queued SENDs: give them a short grace period only
			if time.Until(deadline) > 200*time.Millisecond {
				deadline = time.Now().Add(200 * time.Millisecond)
			}
		}
		time.Sleep(50 * time.Microsecond)
		t.mu.Lock()
	}
	for _, s := range t.slots {
		switch s {
		case "":
			frames = append(frames, "lost-send")
		case "?":
			frames = append(frames, "undispatched")
		default:
			frames = append(frames, s)
		}
	}
	for i := 0; i < t.extra; i++ {
		frames = append(frames, "unexpected-delivery")
	}
	t.mu.Unlock()
	left, closed = g.srv.VerifInboundState("l", conn.id)
	conn.mu.Lock()
	closed = closed || conn.closed
	conn.mu.Unlock()
	if closed {
		left = 0
	}
	h.OnClose(conn, nil)
	return frames, left, closed
}

func c23Exact(b []byte) []byte {
	out := make([]byte, len(b))
	copy(out, b)
	return out[:len(b):len(b)]
}

func hashStr(s string) uint32 { return hash32([]byte(s)) }

type wholeRes struct {
	frames   []string
	consumed int
	err      bool
	det      bool
}

// decodeWhole = Adapter.Decode on an exact-capacity copy, plus the payload-detach probe.
func (r *c23Runner) decodeWhole(sess session.Session, data []byte) wholeRes {
	in := c23Exact(data)
	fs, consumed, err := r.a.Decode(sess, in)
	res := wholeRes{consumed: consumed, err: err != nil, det: true}
	for _, f := range fs {
		res.frames = append(res.frames, showFrame(f))
	}
	for i := range in { // overwrite the read buffer, as the transport does for the next read
		in[i] ^= 0xFF
	}
	for i, f := range fs {
		if _, ok := f.(*frame.SendPacket); ok && showFrame(f) != res.frames[i] {
			res.det = false
		}
	}
	return res
}

// feed = the gateway's inbound buffer discipline (core/server.go onData/decodeInboundFrames).
func (r *c23Runner) feed(sess session.Session, chunks [][]byte) (frames []string, left int, closed bool) {
	var buf []byte
	for _, ch := range chunks {
		buf = append(buf, ch...)
		for {
			in := c23Exact(buf)
			fs, consumed, err := r.a.Decode(sess, in)
			if err != nil || consumed < 0 || consumed > len(in) {
				return frames, len(buf), true
			}
			if consumed == 0 && len(fs) == 0 {
				break
			}
			if consumed == 0 {
				return frames, len(buf), true // ErrDecodeNoProgress
			}
			for _, f := range fs {
				frames = append(frames, showFrame(f))
			}
			buf = buf[consumed:]
		}
	}
	return frames, len(buf), false
}

func cutChunks(data []byte, cuts []int) [][]byte {
	var out [][]byte
	pos := 0
	for _, c := range cuts {
		out = append(out, data[pos:c])
		pos = c
	}
	return append(out, data[pos:])
}

// canonCuts: reduce mod len+1, keep 0 < c < len, sort, dedupe.
func canonCuts(raw []int, l int) []int {
	m := map[int]bool{}
	var out []int
	for _, c := range raw {
		c %= l + 1
		if c > 0 && c < l && !m[c] {
			m[c] = true
			out = append(out, c)
		}
	}
	sort.Ints(out)
	return out
}

func b01(b bool) int {
	if b {
		return 1
	}
	return 0
}

func (r *c23Runner) observe(sv int, cutsTok string, data []byte) string {
	var sess session.Session = session.New(session.Config{ID: 1, Listener: "verif"})
	if sv != 0 {
		sess.SetValue(gatewaytypes.SessionValueProtocolVersion, uint8(sv))
	}
	w := r.decodeWhole(sess, data)
	wj := strings.Join(w.frames, " ;; ")
	pfx := true
	if !w.err && w.consumed > 0 && w.consumed <= len(data) {
		w2 := r.decodeWhole(sess, data[:w.consumed])
		pfx = !w2.err && w2.consumed == w.consumed && strings.Join(w2.frames, " ;; ") == wj
	}
	sig := func(fr []string, left int, closed bool) string {
		return fmt.Sprintf("%d,%d,%d,%d", len(fr), left, b01(closed), hashStr(strings.Join(fr, " ;; ")))
	}
	if r.gw == nil {
		g, err := newC23Gateway()
		if err != nil {
			return "gateway-start-failed " + err.Error()
		}
		r.gw = g
	}
	gwsig := func(fr []string, left int, closed bool) string {
		if closed {
			// a closed session may or may not still deliver its queued SENDs (timing):
			// only the number of dispatched frames is compared then
			return fmt.Sprintf("%d,0,1,0", len(fr))
		}
		return sig(fr, left, closed)
	}
	agree, tried := 0, 0
	gwAgree, gwTried := 0, 0
	var feedSig, gwSig string
	if cutsTok == "all" {
		gwSig = gwsig(r.gw.feed(sv, [][]byte{data}))
		stride := len(data)/8 + 1
		for i := stride; i < len(data); i += stride {
			gwTried++
			if gwsig(r.gw.feed(sv, [][]byte{data[:i], data[i:]})) == gwSig {
				gwAgree++
			}
		}
		{
			one := make([][]byte, 0, len(data))
			for i := range data {
				one = append(one, data[i:i+1])
			}
			gwTried++
			if gwsig(r.gw.feed(sv, one)) == gwSig {
				gwAgree++
			}
		}
		feedSig = sig(r.feed(sess, [][]byte{data}))
		for i := 1; i < len(data); i++ {
			tried++
			if sig(r.feed(sess, [][]byte{data[:i], data[i:]})) == feedSig {
				agree++
			}
		}
		one := make([][]byte, 0, len(data))
		for i := range data {
			one = append(one, data[i:i+1])
		}
		tried++
		if sig(r.feed(sess, one)) == feedSig {
			agree++
		}
	} else {
		var raw []int
		if cutsTok != "-" {
			for _, s := range strings.Split(cutsTok, ",") {
				c, err := strconv.Atoi(s)
				if err != nil || c < 0 {
					return "bad-op"
				}
				raw = append(raw, c)
			}
		}
		chunks := cutChunks(data, canonCuts(raw, len(data)))
		feedSig = sig(r.feed(sess, chunks))
		gwSig = gwsig(r.gw.feed(sv, chunks))
	}
	return fmt.Sprintf("len=%d whole=%d,%d,%d wh=%d det=%d pfx=%d feed=%s all=%d/%d gw=%s gwall=%d/%d :: %s",
		len(data), len(w.frames), w.consumed, b01(w.err), hashStr(wj), b01(w.det), b01(pfx), feedSig, agree, tried,
		gwSig, gwAgree, gwTried, wj)
}

func (r *c23Runner) Step(op string) string {
	f := strings.Fields(op)
	if len(f) < 4 || !strings.HasPrefix(f[2], "cuts=") {
		return "bad-op"
	}
	svv, err := strconv.ParseUint(f[1], 10, 8)
	if err != nil {
		return "bad-op"
	}
	sv := int(svv)
	cuts := valOf(f[2])
	switch f[0] {
	case "raw":
		if len(f) != 4 {
			return "bad-op"
		}
		data, ok := parseBytes(f[3])
		if !ok {
			return "bad-op"
		}
		return r.observe(sv, cuts, data)
	case "seq":
		if len(f) < 6 || !strings.HasPrefix(f[3], "trunc=") {
			return "bad-op"
		}
		trunc, err := strconv.Atoi(valOf(f[3]))
		if err != nil || trunc < 0 {
			return "bad-op"
		}
		var stream []byte
		lastLen := 0
		var cur []string
		flush := func() (string, bool) {
			fr, ok := parseFrame(cur)
			if !ok {
				return "bad-op", false
			}
			bs, st := c23Encode(r.p, fr, uint8(effv(sv)))
			if st != "ok" {
				return "encfail", false
			}
			stream = append(stream, bs...)
			lastLen = len(bs)
			return "", true
		}
		for _, t := range f[4:] {
			if t == ";;" {
				if s, ok := flush(); !ok {
					return s
				}
				cur = nil
				continue
			}
			cur = append(cur, t)
		}
		if s, ok := flush(); !ok {
			return s
		}
		if trunc > 0 {
			d := 1 + (trunc-1)%lastLen
			stream = stream[:len(stream)-d]
		}
		return r.observe(sv, cuts, stream)
	}
	return "bad-op"
}

func c23Encode(p *codec.WKProto, f frame.Frame, v uint8) (out []byte, status string) {
	defer func() {
		if e := recover(); e != nil {
			out, status = nil, "encpanic"
		}
	}()
	b, err := p.EncodeFrame(f, v)
	if err != nil {
		return nil, "encerr"
	}
	return b, "ok"
}

//go:build verif

package main

// C23 — Client stream decoding is robust to arbitrary bytes and splits.
//
// ops (model: lean/Driver/C23.lean):
//   seq <sv> cuts=<c,c,…|all|-> trunc=<k> <frame…> ;; <frame…> ;; …
//        every frame is encoded with the REAL EncodeFrame at the session's effective
//        version, the encodings are concatenated, the last `d = 1+((k-1) mod lastLen)`
//        bytes are dropped when k > 0, and the stream is decoded by Adapter.Decode
//        (a) in one piece and (b) through the gateway's inbound-buffer discipline
//        in the chunks given by `cuts` (offsets, reduced mod len+1); `all` = every
//        two-chunk split point plus byte-by-byte delivery.
//   raw <sv> cuts=<…> <bytes>   the same for arbitrary bytes.
// output:
//   len=<L> whole=<frames>,<consumed>,<err> wh=<hash> det=<0|1> pfx=<0|1>
//   feed=<frames>,<left>,<closed>,<hash> all=<agree>/<tried> :: <frame…> ;; <frame…>
//   (or "encfail" when a frame of a seq op does not encode)
//   det: decoded SEND payloads survive overwriting the input buffer (detachSendPayload)
//   pfx: decoding exactly in[:consumed] yields the same frames and consumed (no over-read)
// sv is the value stored under gateway.protocol_version (0 = not set).
// Every slice handed to the decoder has cap == len.

import (
	"fmt"
	"sort"
	"strconv"
	"strings"

	"github.com/WuKongIM/WuKongIM/pkg/gateway/protocol/wkproto"
	"github.com/WuKongIM/WuKongIM/pkg/gateway/session"
	gatewaytypes "github.com/WuKongIM/WuKongIM/pkg/gateway/types"
	codec "github.com/WuKongIM/WuKongIM/pkg/protocol/codec"
	"github.com/WuKongIM/WuKongIM/pkg/protocol/frame"
)

func init() {
	Register(&Prop{Gen: genC23, NewRunner: func() Runner { return &c23Runner{a: wkproto.New(), p: codec.New()} }})
}

func genCuts(g *Gen, allowAll bool) string {
	switch g.R.Pick(2, 5, 3) {
	case 0:
		return "-"
	case 1:
		n := g.R.Range(1, 6)
		s := make([]string, n)
		for i := range s {
			if g.R.Chance(30) {
				s[i] = strconv.Itoa(g.R.Intn(12))
			} else {
				s[i] = strconv.Itoa(g.R.Intn(1 << 16))
			}
		}
		g.Count("cuts:random")
		return strings.Join(s, ",")
	default:
		if allowAll {
			g.Count("cuts:all-split-points")
			return "all"
		}
		return strconv.Itoa(g.R.Intn(1 << 16))
	}
}

func genC23(g *Gen) {
	g.R = NewRand(g.R.U64() ^ 0xC23C23) // see harness/C22/c22.go: decorrelate the seeds
	g.Case()
	lite := &fgen{g: g, lite: true}
	valid := &fgen{g: g}
	// directed: empty input, single header bytes, every frame type alone with all split points, per version
	g.Op("raw", "0 cuts=- -")
	for b := 0; b < 256; b += 5 {
		g.Op("raw", "%d cuts=- %02x", b%8, b)
	}
	for v := 0; v <= 7; v++ {
		fs := make([]string, 0, len(c22Types))
		for _, ty := range c22Types {
			fs = append(fs, lite.frame(effv(v), ty))
		}
		g.Op("seq", "%d cuts=all trunc=0 %s", v, strings.Join(fs, " ;; "))
	}
	for i := 0; i < g.N; i++ {
		sv := genVersion(g)
		switch g.R.Pick(35, 25, 30, 10) {
		case 0: // small frames, every split point
			n := g.R.Range(1, 5)
			fs := make([]string, n)
			for j := range fs {
				fs[j] = lite.frame(effv(sv), "")
			}
			trunc := 0
			if g.R.Chance(30) {
				trunc = g.R.Range(1, 40)
				g.Count("seq:truncated-last-frame")
			}
			g.Count("seq:lite-all-splits")
			g.Op("seq", "%d cuts=all trunc=%d %s", sv, trunc, strings.Join(fs, " ;; "))
		case 1: // ordinary valid frames, random chunking
			n := g.R.Range(1, 4)
			fs := make([]string, n)
			for j := range fs {
				fs[j] = valid.frame(effv(sv), "")
			}
			trunc := 0
			if g.R.Chance(30) {
				trunc = g.R.Range(1, 1<<16)
				g.Count("seq:truncated-last-frame")
			}
			g.Count("seq:valid-random-cuts")
			g.Op("seq", "%d cuts=%s trunc=%d %s", sv, genCuts(g, false), trunc, strings.Join(fs, " ;; "))
		case 2: // mostly-well-formed / mutated wire bytes
			var b []byte
			for k := g.R.Range(1, 3); k > 0; k-- {
				b = append(b, genWire(g, effv(sv))...)
			}
			g.Count("raw:structured")
			g.Op("raw", "%d cuts=%s %s", sv, genCuts(g, len(b) <= 160), Hex(b))
		default:
			g.Count("raw:random-bytes")
			b := g.R.Bytes(g.R.Intn(40))
			if len(b) > 0 && g.R.Chance(60) { // a plausible type nibble up front
				b[0] = byte(g.R.Range(1, 12)<<4) | b[0]&15
			}
			g.Op("raw", "%d cuts=%s %s", sv, genCuts(g, true), Hex(b))
		}
	}
}

func effv(sv int) int {
	if sv == 0 {
		return frame.LatestVersion
	}
	return sv
}

type c23Runner struct {
	a *wkproto.Adapter
	p *codec.WKProto
}

func (r *c23Runner) Close() {}

func c23Exact(b []byte) []byte {
	out := make([]byte, len(b))
	copy(out, b)
	return out[:len(b):len(b)]
}

func hashStr(s string) uint32 { return hash32([]byte(s)) }

type wholeRes struct {
	frames   []string
	consumed int
	err      bool
	det      bool
}

// decodeWhole = Adapter.Decode on an exact-capacity copy, plus the payload-detach probe.
func (r *c23Runner) decodeWhole(sess session.Session, data []byte) wholeRes {
	in := c23Exact(data)
	fs, consumed, err := r.a.Decode(sess, in)
	res := wholeRes{consumed: consumed, err: err != nil, det: true}
	for _, f := range fs {
		res.frames = append(res.frames, showFrame(f))
	}
	for i := range in { // overwrite the read buffer, as the transport does for the next read
		in[i] ^= 0xFF
	}
	for i, f := range fs {
		if _, ok := f.(*frame.SendPacket); ok && showFrame(f) != res.frames[i] {
			res.det = false
		}
	}
	return res
}

// feed = the gateway's inbound buffer discipline (core/server.go onData/decodeInboundFrames).
func (r *c23Runner) feed(sess session.Session, chunks [][]byte) (frames []string, left int, closed bool) {
	var buf []byte
	for _, ch := range chunks {
		buf = append(buf, ch...)
		for {
			in := c23Exact(buf)
			fs, consumed, err := r.a.Decode(sess, in)
			if err != nil || consumed < 0 || consumed > len(in) {
				return frames, len(buf), true
			}
			if consumed == 0 && len(fs) == 0 {
				break
			}
			if consumed == 0 {
				return frames, len(buf), true // ErrDecodeNoProgress
			}
			for _, f := range fs {
				frames = append(frames, showFrame(f))
			}
			buf = buf[consumed:]
		}
	}
	return frames, len(buf), false
}

func cutChunks(data []byte, cuts []int) [][]byte {
	var out [][]byte
	pos := 0
	for _, c := range cuts {
		out = append(out, data[pos:c])
		pos = c
	}
	return append(out, data[pos:])
}

// canonCuts: reduce mod len+1, keep 0 < c < len, sort, dedupe.
func canonCuts(raw []int, l int) []int {
	m := map[int]bool{}
	var out []int
	for _, c := range raw {
		c %= l + 1
		if c > 0 && c < l && !m[c] {
			m[c] = true
			out = append(out, c)
		}
	}
	sort.Ints(out)
	return out
}

func b01(b bool) int {
	if b {
		return 1
	}
	return 0
}

func (r *c23Runner) observe(sv int, cutsTok string, data []byte) string {
	var sess session.Session = session.New(session.Config{ID: 1, Listener: "verif"})
	if sv != 0 {
		sess.SetValue(gatewaytypes.SessionValueProtocolVersion, uint8(sv))
	}
	w := r.decodeWhole(sess, data)
	wj := strings.Join(w.frames, " ;; ")
	pfx := true
	if !w.err && w.consumed > 0 && w.consumed <= len(data) {
		w2 := r.decodeWhole(sess, data[:w.consumed])
		pfx = !w2.err && w2.consumed == w.consumed && strings.Join(w2.frames, " ;; ") == wj
	}
	sig := func(fr []string, left int, closed bool) string {
		return fmt.Sprintf("%d,%d,%d,%d", len(fr), left, b01(closed), hashStr(strings.Join(fr, " ;; ")))
	}
	agree, tried := 0, 0
	var feedSig string
	if cutsTok == "all" {
		feedSig = sig(r.feed(sess, [][]byte{data}))
		for i := 1; i < len(data); i++ {
			tried++
			if sig(r.feed(sess, [][]byte{data[:i], data[i:]})) == feedSig {
				agree++
			}
		}
		one := make([][]byte, 0, len(data))
		for i := range data {
			one = append(one, data[i:i+1])
		}
		tried++
		if sig(r.feed(sess, one)) == feedSig {
			agree++
		}
	} else {
		var raw []int
		if cutsTok != "-" {
			for _, s := range strings.Split(cutsTok, ",") {
				c, err := strconv.Atoi(s)
				if err != nil || c < 0 {
					return "bad-op"
				}
				raw = append(raw, c)
			}
		}
		feedSig = sig(r.feed(sess, cutChunks(data, canonCuts(raw, len(data)))))
	}
	return fmt.Sprintf("len=%d whole=%d,%d,%d wh=%d det=%d pfx=%d feed=%s all=%d/%d :: %s",
		len(data), len(w.frames), w.consumed, b01(w.err), hashStr(wj), b01(w.det), b01(pfx), feedSig, agree, tried, wj)
}

func (r *c23Runner) Step(op string) string {
	f := strings.Fields(op)
	if len(f) < 4 || !strings.HasPrefix(f[2], "cuts=") {
		return "bad-op"
	}
	svv, err := strconv.ParseUint(f[1], 10, 8)
	if err != nil {
		return "bad-op"
	}
	sv := int(svv)
	cuts := valOf(f[2])
	switch f[0] {
	case "raw":
		if len(f) != 4 {
			return "bad-op"
		}
		data, ok := parseBytes(f[3])
		if !ok {
			return "bad-op"
		}
		return r.observe(sv, cuts, data)
	case "seq":
		if len(f) < 6 || !strings.HasPrefix(f[3], "trunc=") {
			return "bad-op"
		}
		trunc, err := strconv.Atoi(valOf(f[3]))
		if err != nil || trunc < 0 {
			return "bad-op"
		}
		var stream []byte
		lastLen := 0
		var cur []string
		flush := func() (string, bool) {
			fr, ok := parseFrame(cur)
			if !ok {
				return "bad-op", false
			}
			bs, st := c23Encode(r.p, fr, uint8(effv(sv)))
			if st != "ok" {
				return "encfail", false
			}
			stream = append(stream, bs...)
			lastLen = len(bs)
			return "", true
		}
		for _, t := range f[4:] {
			if t == ";;" {
				if s, ok := flush(); !ok {
					return s
				}
				cur = nil
				continue
			}
			cur = append(cur, t)
		}
		if s, ok := flush(); !ok {
			return s
		}
		if trunc > 0 {
			d := 1 + (trunc-1)%lastLen
			stream = stream[:len(stream)-d]
		}
		return r.observe(sv, cuts, stream)
	}
	return "bad-op"
}

func c23Encode(p *codec.WKProto, f frame.Frame, v uint8) (out []byte, status string) {
	defer func() {
		if e := recover(); e != nil {
			out, status = nil, "encpanic"
		}
	}()
	b, err := p.EncodeFrame(f, v)
	if err != nil {
		return nil, "encerr"
	}
	return b, "ok"
}

//go:build verif

// C10 — reads respect the committed and retention boundaries.
//
// One REAL message store per case (pkg/channel/store.NewMessageDBFactory, the
// production adapter), three channels.  Ops (c = channel 0..2):
//
//	fapply c base idbase n leaderHW flags   adapter.ApplyFollower: n records at Index base.., ids idbase.., flags = SyncOnce bits (`-` if n=0)
//	ckpt c hw                               adapter.StoreCheckpoint (monotonic HW)
//	retain c through rts role local isr prog hwlead maxMsgs maxBytes
//	        the reactor's ApplyRetentionBoundary: ChannelState built from adapter.Load()/LoadRetentionState()
//	        and the op's replication view; REAL retentionTrimDecision; REAL worker runStoreRetention
//	read c rev from max min limit maxBytes rts minISR    channels.Service.readLocalCommitted
//	sync c mode start end min limit rts minISR           message_reader: readCommittedRequest → readLocalCommitted → channelMessagePageFromRead
//	gate role local isr prog hw ckhw leo phys rts through   retentionTrimDecision / minISRMatchOffset as pure functions
//	load c | lret c | close c | reopen
package main

import (
	"context"
	"errors"
	"fmt"
	"io"
	"log"
	"os"
	"path/filepath"
	"sort"
	"strconv"
	"strings"

	infracluster "github.com/WuKongIM/WuKongIM/internal/infra/cluster"
	"github.com/WuKongIM/WuKongIM/internal/usecase/message"
	ch "github.com/WuKongIM/WuKongIM/pkg/channel"
	"github.com/WuKongIM/WuKongIM/pkg/channel/machine"
	"github.com/WuKongIM/WuKongIM/pkg/channel/reactor"
	"github.com/WuKongIM/WuKongIM/pkg/channel/store"
		"github.com/WuKongIM/WuKongIM/pkg/cluster/channels"
	compat "github.com/WuKongIM/WuKongIM/pkg/db/message/channelcompat"
)

func init() {
	log.SetOutput(io.Discard)
	Register(&Prop{Gen: genC10, NewRunner: func() Runner { return newC10Runner() }})
}

const c10NumChan = 3
const c10MaxNum = 1 << 32

type c10Runner struct {
	dir     string
	factory *store.MessageDBFactory
	stores  [c10NumChan]store.ChannelStore
	rig     *reactor.VerifRetentionRig
	rts     [c10NumChan]uint64 // rc.state.RetentionThroughSeq of the loaded runtime channel (highest boundary seen)
	ckMem   [c10NumChan]uint64 // rc.state.CheckpointHW as left by the reactor's checkpoint result handler
	failCk  bool               // injected fault: checkpoint writes issued by the worker fail
}

// fault-injecting store factory handed to the reactor's worker pools
type c10FaultFactory struct {
	inner *store.MessageDBFactory
	fail  *bool
}

func (f c10FaultFactory) ChannelStore(key ch.ChannelKey, id ch.ChannelID) (store.ChannelStore, error) {
	cs, err := f.inner.ChannelStore(key, id)
	if err != nil {
		return nil, err
	}
	return &c10FaultStore{ChannelStore: cs, fail: f.fail}, nil
}

type c10FaultStore struct {
	store.ChannelStore
	fail *bool
}

func (s *c10FaultStore) StoreCheckpoint(ctx context.Context, ck ch.Checkpoint) error {
	if *s.fail {
		return errors.New("injected checkpoint write failure")
	}
	return s.ChannelStore.StoreCheckpoint(ctx, ck)
}

var c10RunnerSeq int

func c10ID(c int) ch.ChannelID { return ch.ChannelID{ID: "room" + strconv.Itoa(c), Type: 2} }

func newC10Runner() *c10Runner {
	c10RunnerSeq++
	base := os.Getenv("VERIF_SCRATCH")
	if base == "" {
		base = "."
	}
	r := &c10Runner{dir: filepath.Join(base, fmt.Sprintf("c10-%d-%d", os.Getpid(), c10RunnerSeq))}
	r.open()
	return r
}

func (r *c10Runner) open() {
	if err := os.MkdirAll(r.dir, 0o755); err != nil {
		panic(err)
	}
	r.factory = store.NewMessageDBFactory(filepath.Join(r.dir, "message"))
	s, err := r.factory.ChannelStore(ch.ChannelKeyForID(c10ID(0)), c10ID(0))
	if err != nil {
		panic("open message db: " + err.Error())
	}
	r.stores[0] = s
	rig, err := reactor.VerifNewRetentionRig(1, c10FaultFactory{inner: r.factory, fail: &r.failCk})
	if err != nil {
		panic("retention rig: " + err.Error())
	}
	r.rig = rig
	r.rts = [c10NumChan]uint64{}
	r.ckMem = [c10NumChan]uint64{}
}

func (r *c10Runner) closeAll() {
	if r.rig != nil {
		r.rig.Close()
		r.rig = nil
	}
	for i := range r.stores {
		if r.stores[i] != nil {
			_ = r.stores[i].Close()
			r.stores[i] = nil
		}
	}
	if r.factory != nil {
		_ = r.factory.Close()
		r.factory = nil
	}
}

func (r *c10Runner) Close() {
	r.closeAll()
	_ = os.RemoveAll(r.dir)
}

func (r *c10Runner) cs(c int) store.ChannelStore {
	if r.stores[c] == nil {
		s, err := r.factory.ChannelStore(ch.ChannelKeyForID(c10ID(c)), c10ID(c))
		if err != nil {
			panic("channel store: " + err.Error())
		}
		r.stores[c] = s
	}
	return r.stores[c]
}

func c10Err(err error) string {
	switch {
	case err == nil:
		return "ok"
	case errors.Is(err, ch.ErrLogConflict), errors.Is(err, compat.ErrCorruptState):
		return "err:corruptstate"
	case errors.Is(err, compat.ErrInvalidArgument), errors.Is(err, ch.ErrInvalidConfig):
		return "err:invalid"
	case errors.Is(err, ch.ErrChannelNotFound):
		return "err:notfound"
	case errors.Is(err, ch.ErrNotLeader):
		return "err:notleader"
	case errors.Is(err, ch.ErrStaleMeta):
		return "err:stalemeta"
	case errors.Is(err, ch.ErrNotReady):
		return "err:notready"
	case errors.Is(err, ch.ErrClosed):
		return "err:closed"
	default:
		return "err:other(" + strings.ReplaceAll(err.Error(), " ", "_") + ")"
	}
}

func c10Num(s string) (uint64, bool) {
	v, err := strconv.ParseUint(s, 10, 64)
	if err != nil || v >= c10MaxNum {
		return 0, false
	}
	return v, true
}

// big numbers (2^64-1 allowed) for read bounds
func c10Big(s string) (uint64, bool) {
	v, err := strconv.ParseUint(s, 10, 64)
	return v, err == nil
}

func c10Nodes(s string) ([]ch.NodeID, bool) {
	if s == "-" {
		return nil, true
	}
	var out []ch.NodeID
	for _, p := range strings.Split(s, ",") {
		v, ok := c10Num(p)
		if !ok || v == 0 {
			return nil, false
		}
		out = append(out, ch.NodeID(v))
	}
	return out, true
}

func c10Prog(s string) (map[ch.NodeID]machine.ReplicaProgress, bool) {
	out := map[ch.NodeID]machine.ReplicaProgress{}
	if s == "-" {
		return out, true
	}
	for _, p := range strings.Split(s, ",") {
		kv := strings.Split(p, ":")
		if len(kv) != 2 {
			return nil, false
		}
		k, ok1 := c10Num(kv[0])
		v, ok2 := c10Num(kv[1])
		if !ok1 || !ok2 || k == 0 {
			return nil, false
		}
		if _, dup := out[ch.NodeID(k)]; dup {
			return nil, false
		}
		out[ch.NodeID(k)] = machine.ReplicaProgress{Match: v}
	}
	return out, true
}

func c10Seqs(ms []ch.Message) string {
	var b strings.Builder
	for _, m := range ms {
		b.WriteByte(' ')
		b.WriteString(strconv.FormatUint(m.MessageSeq, 10))
		if m.SyncOnce {
			b.WriteByte('s')
		}
	}
	return b.String()
}

func (r *c10Runner) remaining(c int) string {
	res, err := r.cs(c).ReadCommitted(context.Background(), store.ReadCommittedRequest{FromSeq: 1})
	if err != nil {
		return c10Err(err)
	}
	// compress into ranges
	var parts []string
	i := 0
	ms := res.Messages
	for i < len(ms) {
		j := i
		for j+1 < len(ms) && ms[j+1].MessageSeq == ms[j].MessageSeq+1 {
			j++
		}
		parts = append(parts, fmt.Sprintf("%d-%d", ms[i].MessageSeq, ms[j].MessageSeq))
		i = j + 1
	}
	if len(parts) == 0 {
		return "-"
	}
	return strings.Join(parts, ",")
}

func (r *c10Runner) Step(op string) string {
	ctx := context.Background()
	f := strings.Fields(op)
	if len(f) == 0 {
		return "bad-op"
	}
	switch f[0] {
	case "reopen":
		if len(f) != 1 {
			return "bad-op"
		}
		r.closeAll()
		r.open()
		return "ok"
	case "gate":
		return r.gate(f)
	}
	if len(f) < 2 {
		return "bad-op"
	}
	cv, okc := c10Num(f[1])
	if !okc || cv >= c10NumChan {
		return "bad-op"
	}
	c := int(cv)
	switch f[0] {
	case "fapply":
		if len(f) != 7 {
			return "bad-op"
		}
		base, ok1 := c10Num(f[2])
		idbase, ok2 := c10Num(f[3])
		n, ok3 := c10Num(f[4])
		hw, ok4 := c10Num(f[5])
		if !(ok1 && ok2 && ok3 && ok4) || n > 64 || base == 0 || idbase == 0 {
			return "bad-op"
		}
		flags := f[6]
		if n == 0 {
			if flags != "-" {
				return "bad-op"
			}
			flags = ""
		}
		if uint64(len(flags)) != n || strings.Trim(flags, "01") != "" {
			return "bad-op"
		}
		recs := make([]ch.Record, n)
		for i := range recs {
			id := idbase + uint64(i)
			recs[i] = ch.Record{ID: id, Index: base + uint64(i), FromUID: "u", Payload: []byte{byte(id % 251), byte(i)},
				ServerTimestampMS: int64(1 + id), SyncOnce: flags[i] == '1'}
		}
		res, err := r.cs(c).ApplyFollower(ctx, store.ApplyFollowerRequest{Records: recs, LeaderHW: hw})
		if err != nil {
			return c10Err(err)
		}
		return fmt.Sprintf("ok %d %d", res.LEO, res.CheckpointHW)
	case "ckpt":
		if len(f) != 3 {
			return "bad-op"
		}
		hw, ok := c10Num(f[2])
		if !ok {
			return "bad-op"
		}
		return c10Err(r.cs(c).StoreCheckpoint(ctx, ch.Checkpoint{HW: hw}))
	case "load":
		if len(f) != 2 {
			return "bad-op"
		}
		st, err := r.cs(c).Load(ctx)
		if err != nil {
			return c10Err(err)
		}
		return fmt.Sprintf("ok %d %d %d", st.LEO, st.HW, st.CheckpointHW)
	case "lret":
		if len(f) != 2 {
			return "bad-op"
		}
		st, err := r.cs(c).LoadRetentionState(ctx)
		if err != nil {
			return c10Err(err)
		}
		return fmt.Sprintf("ok %d %d %d", st.LocalRetentionThroughSeq, st.PhysicalRetentionThroughSeq, st.RetainedMaxSeq)
	case "close":
		if len(f) != 2 {
			return "bad-op"
		}
		if r.stores[c] != nil {
			_ = r.stores[c].Close()
			r.stores[c] = nil
		}
		return "ok"
	case "retain":
		return r.retain(c, f)
	case "read":
		if len(f) != 10 {
			return "bad-op"
		}
		rev, ok0 := c10Num(f[2])
		from, ok1 := c10Big(f[3])
		max, ok2 := c10Big(f[4])
		min, ok3 := c10Big(f[5])
		limit, ok4 := c10Num(f[6])
		maxBytes, ok5 := c10Num(f[7])
		rts, ok6 := c10Num(f[8])
		minISR, ok7 := c10Num(f[9])
		if !(ok0 && ok1 && ok2 && ok3 && ok4 && ok5 && ok6 && ok7) || rev > 1 {
			return "bad-op"
		}
		res, err := channels.VerifReadLocalCommitted(ctx, r.factory, channels.CommittedRead{ChannelID: c10ID(c),
			Request: store.ReadCommittedRequest{FromSeq: from, MaxSeq: max, MinSeq: min, Limit: int(limit), MaxBytes: int(maxBytes), Reverse: rev == 1}}, rts, int(minISR))
		if err != nil {
			return c10Err(err)
		}
		return fmt.Sprintf("ok %d%s", res.NextSeq, c10Seqs(res.Messages))
	case "fread":
		return r.fread(c, f)
	case "fsync":
		return r.fsync(c, f)
	case "sync":
		if len(f) != 9 {
			return "bad-op"
		}
		mode, ok0 := c10Num(f[2])
		start, ok1 := c10Big(f[3])
		end, ok2 := c10Big(f[4])
		min, ok3 := c10Big(f[5])
		limit, ok4 := c10Num(f[6])
		rts, ok5 := c10Num(f[7])
		minISR, ok6 := c10Num(f[8])
		if !(ok0 && ok1 && ok2 && ok3 && ok4 && ok5 && ok6) || mode > 1 {
			return "bad-op"
		}
		q := message.ChannelMessageQuery{ChannelID: message.ChannelID{ID: c10ID(c).ID, Type: c10ID(c).Type}, StartSeq: start, EndSeq: end, MinSeq: min,
			Limit: int(limit), PullMode: message.PullMode(mode)}
		lim := q.Limit
		if lim <= 0 {
			lim = 1
		}
		req := infracluster.VerifReadCommittedRequest(q, lim)
		res, err := channels.VerifReadLocalCommitted(ctx, r.factory, channels.CommittedRead{ChannelID: c10ID(c), Request: req}, rts, int(minISR))
		if err != nil {
			return c10Err(err)
		}
		page := infracluster.VerifChannelMessagePageFromRead(q, lim, res)
		var b strings.Builder
		more := "0"
		if page.HasMore {
			more = "1"
		}
		b.WriteString("ok " + more)
		for _, m := range page.Messages {
			fmt.Fprintf(&b, " %d", m.MessageSeq)
		}
		return b.String()
	}
	return "bad-op"
}

func c10State(role uint64, local uint64, isr []ch.NodeID, prog map[ch.NodeID]machine.ReplicaProgress) *machine.ChannelState {
	st := &machine.ChannelState{LocalNode: ch.NodeID(local), ISR: isr, Progress: prog}
	if role == 2 {
		st.Role = ch.RoleLeader
	} else {
		st.Role = ch.RoleFollower
	}
	return st
}

// gate role local isr prog hw ckhw leo phys rts through
func (r *c10Runner) gate(f []string) string {
	if len(f) != 11 {
		return "bad-op"
	}
	role, ok1 := c10Num(f[1])
	local, ok2 := c10Num(f[2])
	isr, ok3 := c10Nodes(f[3])
	prog, ok4 := c10Prog(f[4])
	var v [6]uint64
	ok := ok1 && ok2 && ok3 && ok4 && (role == 1 || role == 2)
	for i := 0; i < 6; i++ {
		var o bool
		v[i], o = c10Num(f[5+i])
		ok = ok && o
	}
	if !ok {
		return "bad-op"
	}
	st := c10State(role, local, isr, prog)
	st.HW, st.CheckpointHW, st.LEO, st.PhysicalRetentionThroughSeq, st.RetentionThroughSeq = v[0], v[1], v[2], v[3], v[4]
	allowed, reason := reactor.VerifRetentionTrimDecision(st, v[5])
	if reason == "" {
		reason = "-"
	}
	a := "0"
	if allowed {
		a = "1"
	}
	return fmt.Sprintf("%s %s %d", a, reason, reactor.VerifMinISRMatchOffset(st))
}

// retain c through rts role local isr prog hwlead maxMsgs maxBytes
func (r *c10Runner) retain(c int, f []string) string {
	if len(f) != 12 || (f[11] != "0" && f[11] != "1") {
		return "bad-op"
	}
	failCk := f[11] == "1"
	ctx := context.Background()
	through, ok1 := c10Num(f[2])
	rts, ok2 := c10Num(f[3])
	role, ok3 := c10Num(f[4])
	local, ok4 := c10Num(f[5])
	isr, ok5 := c10Nodes(f[6])
	prog, ok6 := c10Prog(f[7])
	hwlead, ok7 := c10Num(f[8])
	maxMsgs, ok8 := c10Num(f[9])
	maxBytes, ok9 := c10Num(f[10])
	if !(ok1 && ok2 && ok3 && ok4 && ok5 && ok6 && ok7 && ok8 && ok9) || (role != 1 && role != 2) || through == 0 {
		return "bad-op"
	}
	init, err := r.cs(c).Load(ctx)
	if err != nil {
		return c10Err(err)
	}
	ret, err := r.cs(c).LoadRetentionState(ctx)
	if err != nil {
		return c10Err(err)
	}
	st := c10State(role, local, isr, prog)
	st.LEO = init.LEO
	st.CheckpointHW = init.CheckpointHW
	if r.ckMem[c] > st.CheckpointHW { // in-memory value left by an earlier checkpoint result
		st.CheckpointHW = r.ckMem[c]
	}
	st.HW = init.HW + hwlead
	if st.HW > st.LEO {
		st.HW = st.LEO
	}
	// applyLoadedRetentionState
	st.LocalRetentionThroughSeq = ret.LocalRetentionThroughSeq
	st.PhysicalRetentionThroughSeq = ret.PhysicalRetentionThroughSeq
	if ret.RetainedMaxSeq > st.LEO {
		st.LEO = ret.RetainedMaxSeq
	}
	st.RetentionThroughSeq = r.rts[c]
	if rts > st.RetentionThroughSeq { // ApplyMeta raised the authoritative boundary
		st.RetentionThroughSeq = rts
	}
	st.Key = ch.ChannelKeyForID(c10ID(c))
	st.ID = c10ID(c)
	st.LocalNode = ch.NodeID(local)
	probe := *st
	if through > probe.RetentionThroughSeq {
		probe.RetentionThroughSeq = through
	}
	allowed, reason := reactor.VerifRetentionTrimDecision(&probe, through)
	minISR := reactor.VerifMinISRMatchOffset(&probe)
	// the REAL path: handleApplyRetentionBoundary -> worker retention (+ checkpoint) task -> result handlers
	r.failCk = failCk
	res, err := r.rig.Apply(st, r.cs(c), ch.RetentionApplyRequest{ChannelID: c10ID(c), ThroughSeq: through,
		Options: ch.RetentionApplyOptions{MaxTrimMessages: int(maxMsgs), MaxTrimBytes: int(maxBytes)}})
	r.failCk = false
	r.rts[c] = st.RetentionThroughSeq
	r.ckMem[c] = st.CheckpointHW
	a := "0"
	if allowed {
		a = "1"
	}
	if reason == "" {
		reason = "-"
	}
	head := fmt.Sprintf("allowed=%s reason=%s gate=%d/%d/%d/%d", a, reason, probe.HW, probe.CheckpointHW, probe.LEO, minISR)
	after, lerr := r.cs(c).Load(ctx)
	ck := "?"
	if lerr == nil {
		ck = strconv.FormatUint(after.CheckpointHW, 10)
	}
	if err != nil {
		return head + " " + c10Err(err) + " ck=" + ck + " rows=" + r.remaining(c)
	}
	more := "0"
	if res.More {
		more = "1"
	}
	br := res.BlockedReason
	if br == "" {
		br = "-"
	}
	return fmt.Sprintf("%s ok %d %d %d %d %d %s %s ck=%s rows=%s", head, res.LocalRetentionThroughSeq, res.PhysicalRetentionThroughSeq, res.ThroughSeq,
		res.DeletedThroughSeq, res.Deleted, more, br, ck, r.remaining(c))
}

// metadata the leader resolves for a forwarded read, by mode
func c10Meta(mode uint64, id ch.ChannelID, mminisr, mrts uint64) (ch.Meta, error) {
	m := ch.Meta{ID: id, Epoch: 1, LeaderEpoch: 1, Leader: 1, MinISR: int(mminisr), RetentionThroughSeq: mrts, Status: ch.StatusActive}
	switch mode {
	case 1, 2:
		return ch.Meta{}, ch.ErrChannelNotFound
	case 3:
		m.Leader = 2
	case 4:
		m.Epoch = 0
	case 5:
		m.Status = ch.StatusDeleting
	case 6:
		m.Leader = 0
	}
	return m, nil
}

func (r *c10Runner) forward(c int, mode uint64, req store.ReadCommittedRequest, rts, eminisr, mminisr, mrts uint64, wire bool) (store.ReadCommittedResult, error) {
	item := channels.CommittedReadRequest{CommittedRead: channels.CommittedRead{ChannelID: c10ID(c), Request: req},
		RetentionThroughSeq: rts, ExpectedLeader: 1, ExpectedChannelEpoch: 1, ExpectedLeaderEpoch: 1, ExpectedMinISR: int(eminisr)}
	if mode == 2 {
		item.ExpectedLeader = 0
	}
	resp, err := channels.VerifForwardCommittedReads(context.Background(), r.factory, 1,
		func(id ch.ChannelID) (ch.Meta, error) { return c10Meta(mode, id, mminisr, mrts) }, channels.CommittedReadsRequest{Items: []channels.CommittedReadRequest{item}})
	if err != nil {
		return store.ReadCommittedResult{}, err
	}
	if len(resp.Items) != 1 {
		return store.ReadCommittedResult{}, errors.New("item count")
	}
	if resp.Items[0].Err != nil {
		return store.ReadCommittedResult{}, resp.Items[0].Err
	}
	if wire {
		back, err := channels.VerifRoundTripCommittedReadsResponse(resp)
		if err != nil {
			return store.ReadCommittedResult{}, err
		}
		if len(back.Items) != 1 || back.Items[0].Err != nil {
			return store.ReadCommittedResult{}, errors.New("round trip")
		}
		return back.Items[0].Read, nil
	}
	return resp.Items[0].Read, nil
}

// fread c metamode rev from max min limit rts eminisr mminisr mrts
func (r *c10Runner) fread(c int, f []string) string {
	if len(f) != 12 {
		return "bad-op"
	}
	mode, ok0 := c10Num(f[2])
	rev, ok1 := c10Num(f[3])
	from, ok2 := c10Big(f[4])
	max, ok3 := c10Big(f[5])
	min, ok4 := c10Big(f[6])
	var v [5]uint64
	ok := ok0 && ok1 && ok2 && ok3 && ok4 && mode <= 6 && rev <= 1
	for i := 0; i < 5; i++ {
		var o bool
		v[i], o = c10Num(f[7+i])
		ok = ok && o
	}
	if !ok {
		return "bad-op"
	}
	res, err := r.forward(c, mode, store.ReadCommittedRequest{FromSeq: from, MaxSeq: max, MinSeq: min, Limit: int(v[0]), Reverse: rev == 1},
		v[1], v[2], v[3], v[4], false)
	if err != nil {
		return c10Err(err)
	}
	return fmt.Sprintf("ok %d%s", res.NextSeq, c10Seqs(res.Messages))
}

// fsync c mode start end min limit rts minISR : a sync page served by a REMOTE leader
// (forwarded read, response through the RPC codec, page built on the origin)
func (r *c10Runner) fsync(c int, f []string) string {
	if len(f) != 9 {
		return "bad-op"
	}
	mode, ok0 := c10Num(f[2])
	start, ok1 := c10Big(f[3])
	end, ok2 := c10Big(f[4])
	min, ok3 := c10Big(f[5])
	limit, ok4 := c10Num(f[6])
	rts, ok5 := c10Num(f[7])
	minISR, ok6 := c10Num(f[8])
	if !(ok0 && ok1 && ok2 && ok3 && ok4 && ok5 && ok6) || mode > 1 {
		return "bad-op"
	}
	q := message.ChannelMessageQuery{ChannelID: message.ChannelID{ID: c10ID(c).ID, Type: c10ID(c).Type}, StartSeq: start, EndSeq: end, MinSeq: min,
		Limit: int(limit), PullMode: message.PullMode(mode)}
	lim := q.Limit
	if lim <= 0 {
		lim = 1
	}
	res, err := r.forward(c, 0, infracluster.VerifReadCommittedRequest(q, lim), rts, minISR, minISR, 0, true)
	if err != nil {
		return c10Err(err)
	}
	page := infracluster.VerifChannelMessagePageFromRead(q, lim, res)
	var b strings.Builder
	more := "0"
	if page.HasMore {
		more = "1"
	}
	b.WriteString("ok " + more)
	for _, m := range page.Messages {
		fmt.Fprintf(&b, " %d", m.MessageSeq)
	}
	return b.String()
}

var _ = sort.Ints

//go:build verif

package main

import (
	"fmt"
	"strings"
)

type c10Shadow struct {
	leo    uint64
	ckhw   uint64
	local  uint64
	nextID uint64
}

type c10Gen struct {
	g  *Gen
	sh [c10NumChan]c10Shadow
}

const c10MaxU64 = "18446744073709551615"

func (x *c10Gen) near(v uint64) uint64 {
	g := x.g
	switch g.R.Pick(4, 2, 2, 1, 1) {
	case 0:
		return v
	case 1:
		if v > 0 {
			return v - 1
		}
		return 0
	case 2:
		return v + 1
	case 3:
		return uint64(g.R.Intn(int(v) + 3))
	default:
		return v + uint64(g.R.Range(2, 6))
	}
}

func (x *c10Gen) bound(v uint64) string {
	g := x.g
	switch g.R.Pick(6, 2, 1) {
	case 0:
		return fmt.Sprint(x.near(v))
	case 1:
		return "0"
	default:
		return c10MaxU64
	}
}

// replication view: role, local node, ISR, progress
func (x *c10Gen) view(leo uint64) (int, int, string, string) {
	g := x.g
	role := g.R.Pick(0, 4, 6)
	local := 1
	nISR := g.R.Pick(1, 3, 5, 3)
	var isr []string
	var prog []string
	for n := 1; n <= nISR; n++ {
		isr = append(isr, fmt.Sprint(n))
	}
	if g.R.Chance(5) { // local node not in the ISR
		isr = isr[min(1, len(isr)):]
		g.Count("view:local-not-in-isr")
	}
	if len(isr) > 1 && g.R.Chance(50) { // the ISR list is a set: the leader need not come first
		for i := len(isr) - 1; i > 0; i-- {
			j := g.R.Intn(i + 1)
			isr[i], isr[j] = isr[j], isr[i]
		}
		if isr[0] != fmt.Sprint(local) {
			g.Count("view:isr-local-not-first")
		}
	}
	for n := 1; n <= 3; n++ {
		switch {
		case n == local:
			if g.R.Chance(80) {
				prog = append(prog, fmt.Sprintf("%d:%d", n, leo))
			}
		case n <= nISR && g.R.Chance(82):
			prog = append(prog, fmt.Sprintf("%d:%d", n, x.near(uint64(g.R.Intn(int(leo)+1)))))
		case n <= nISR:
			g.Count("view:isr-member-without-progress")
		case g.R.Chance(30):
			prog = append(prog, fmt.Sprintf("%d:%d", n, g.R.Intn(int(leo)+1)))
		}
	}
	is, ps := "-", "-"
	if len(isr) > 0 {
		is = strings.Join(isr, ",")
	}
	if len(prog) > 0 {
		ps = strings.Join(prog, ",")
	}
	g.Count(fmt.Sprintf("view:role=%d", role))
	return role, local, is, ps
}

func (x *c10Gen) op() {
	g := x.g
	c := g.R.Intn(c10NumChan)
	sh := &x.sh[c]
	switch g.R.Pick(20, 8, 14, 20, 14, 8, 3, 3, 2, 1, 10, 4) {
	case 0: // follower apply
		n := g.R.Pick(1, 3, 4, 3, 2)
		base := sh.leo + 1
		if g.R.Chance(6) {
			base = x.near(base)
		}
		hw := uint64(0)
		switch g.R.Pick(3, 4, 2, 1) {
		case 1:
			hw = sh.leo + uint64(n)
		case 2:
			hw = x.near(sh.leo)
		case 3:
			hw = sh.leo + uint64(n) + uint64(g.R.Range(1, 3))
		}
		flags := "-"
		if n > 0 {
			var b strings.Builder
			for i := 0; i < n; i++ {
				if g.R.Chance(22) {
					b.WriteByte('1')
					g.Count("apply:sync-once-record")
				} else {
					b.WriteByte('0')
				}
			}
			flags = b.String()
		}
		idbase := sh.nextID + 1 + uint64(c)*100000
		g.Op("fapply", "%d %d %d %d %d %s", c, base, idbase, n, hw, flags)
		if base == sh.leo+1 && hw <= sh.leo+uint64(n) {
			sh.leo += uint64(n)
			sh.nextID += uint64(n)
			if n > 0 && hw > sh.ckhw {
				sh.ckhw = min(hw, sh.leo)
			}
		}
	case 1:
		hw := x.near(sh.leo)
		if g.R.Chance(30) {
			hw = uint64(g.R.Intn(int(sh.leo) + 1))
		}
		g.Op("ckpt", "%d %d", c, hw)
		if hw > sh.ckhw {
			sh.ckhw = hw
		}
	case 2: // retention boundary, any order incl. regressions
		var through uint64
		switch g.R.Pick(4, 3, 2, 1, 3) {
		case 4: // strictly below the boundary adopted so far (regression), often committed and checkpointed
			if sh.local > 1 {
				through = 1 + uint64(g.R.Intn(int(sh.local-1)))
			} else {
				through = 1
			}
		case 0:
			through = 1 + uint64(g.R.Intn(int(min(sh.ckhw, sh.leo))+1))
		case 1:
			through = x.near(sh.local)
		case 2:
			through = x.near(sh.leo)
		case 3:
			through = sh.leo + uint64(g.R.Range(1, 4))
			g.Count("retain:beyond-leo")
		}
		if through == 0 {
			through = 1
		}
		if through < sh.local {
			g.Count("retain:regressing-boundary")
		}
		if through > min(sh.ckhw, sh.leo) {
			g.Count("retain:above-checkpoint")
		}
		rts := uint64(0)
		if g.R.Chance(40) {
			rts = x.near(through)
		}
		role, local, isr, prog := x.view(sh.leo)
		hwlead := g.R.Pick(5, 2, 1, 1)
		maxMsgs, maxBytes := 0, 0
		if g.R.Chance(35) {
			maxMsgs = g.R.Range(1, 3)
		}
		if g.R.Chance(20) {
			maxBytes = g.R.Range(1, 8)
		}
		failck := 0
		if g.R.Chance(30) {
			failck = 1 // the retention checkpoint write (if one is issued) fails
			g.Count("retain:checkpoint-write-fails")
		}
		g.Op("retain", "%d %d %d %d %d %s %s %d %d %d %d", c, through, rts, role, local, isr, prog, hwlead, maxMsgs, maxBytes, failck)
		if g.R.Chance(45) { // the GC pass retries the same boundary
			g.Op("retain", "%d %d %d %d %d %s %s %d %d %d %d", c, through, rts, role, local, isr, prog, hwlead, maxMsgs, maxBytes, 0)
			g.Count("retain:retry-same-boundary")
		}
		if through > sh.local {
			sh.local = through
		}
		if through > sh.leo {
			sh.leo = through
		}
	case 3: // raw committed read with arbitrary bounds
		rev := g.R.Intn(2)
		from := x.bound(uint64(g.R.Intn(int(sh.leo) + 1)))
		if rev == 0 && from == "0" {
			g.Count("read:forward-from-zero")
		}
		max := x.bound(sh.leo)
		mn := "0"
		if g.R.Chance(40) {
			mn = x.bound(sh.local)
		}
		limit := g.R.Pick(3, 2, 2, 2, 1)
		maxBytes := 0
		if g.R.Chance(20) {
			maxBytes = g.R.Range(1, 9)
		}
		rts := uint64(0)
		if g.R.Chance(40) {
			rts = x.near(sh.local)
		}
		minISR := g.R.Pick(1, 3, 5, 1)
		g.Count(fmt.Sprintf("read:minISR=%d", minISR))
		g.Op("read", "%d %d %s %s %s %d %d %d %d", c, rev, from, max, mn, limit, maxBytes, rts, minISR)
	case 4: // sync page
		mode := g.R.Intn(2)
		start := uint64(0)
		end := uint64(0)
		if g.R.Chance(65) {
			start = x.near(uint64(g.R.Intn(int(sh.leo) + 1)))
		}
		if g.R.Chance(40) {
			end = x.near(uint64(g.R.Intn(int(sh.leo) + 1)))
		}
		if start == 0 && end == 0 {
			g.Count("sync:latest")
		}
		mn := uint64(0)
		if g.R.Chance(30) {
			mn = x.near(sh.local)
		}
		rts := uint64(0)
		if g.R.Chance(40) {
			rts = x.near(sh.local)
		}
		g.Op("sync", "%d %d %d %d %d %d %d %d", c, mode, start, end, mn, g.R.Pick(1, 2, 3, 2, 2), rts, g.R.Pick(1, 3, 5))
	case 5: // the gate as a pure function, boundary values
		leo := uint64(g.R.Intn(12))
		role, local, isr, prog := x.view(leo)
		hw := x.near(leo)
		ck := x.near(hw)
		phys := uint64(g.R.Intn(int(leo) + 1))
		through := x.near(uint64(g.R.Intn(int(leo) + 2)))
		rts := uint64(0)
		if g.R.Chance(50) {
			rts = x.near(through)
		}
		g.Op("gate", "%d %d %s %s %d %d %d %d %d %d", role, local, isr, prog, hw, ck, leo, phys, rts, through)
	case 6:
		g.Op("load", "%d", c)
	case 7:
		g.Op("lret", "%d", c)
	case 8:
		g.Op("close", "%d", c)
	case 9:
		g.Op("reopen", "")
	case 10: // forwarded committed read on the leader: normal branch, missing-meta fallback, fenced-off branches
		mode := g.R.Pick(5, 6, 1, 1, 1, 1, 1)
		rev := g.R.Intn(2)
		from := x.bound(uint64(g.R.Intn(int(sh.leo) + 1)))
		max := x.bound(sh.leo)
		mn := "0"
		if g.R.Chance(30) {
			mn = x.bound(sh.local)
		}
		rts := uint64(0)
		if g.R.Chance(40) {
			rts = x.near(sh.local)
		}
		mrts := uint64(0)
		if g.R.Chance(30) {
			mrts = x.near(sh.local)
		}
		em := g.R.Pick(1, 2, 5, 2)
		mm := g.R.Pick(1, 2, 5, 2)
		g.Count(fmt.Sprintf("fread:mode=%d", mode))
		if mode == 1 && em >= 2 {
			g.Count("fread:fallback-with-quorum-minisr")
		}
		g.Op("fread", "%d %d %d %s %s %s %d %d %d %d %d", c, mode, rev, from, max, mn, g.R.Pick(3, 2, 2, 2, 1), rts, em, mm, mrts)
	default: // sync page served by a remote leader (forwarded read through the RPC codec)
		mode := g.R.Intn(2)
		start, end := uint64(0), uint64(0)
		if g.R.Chance(60) {
			start = x.near(uint64(g.R.Intn(int(sh.leo) + 1)))
		}
		if g.R.Chance(30) {
			end = x.near(uint64(g.R.Intn(int(sh.leo) + 1)))
		}
		g.Op("fsync", "%d %d %d %d %d %d %d %d", c, mode, start, end, 0, g.R.Pick(1, 2, 3, 2, 2), 0, g.R.Pick(1, 3, 5))
	}
}

func genC10(g *Gen) {
	for k := 0; k < g.N; k++ {
		g.Case()
		x := &c10Gen{g: g}
		n := g.R.Range(50, 110)
		for i := 0; i < n; i++ {
			x.op()
		}
		for c := 0; c < c10NumChan; c++ {
			g.Op("load", "%d", c)
			g.Op("lret", "%d", c)
			g.Op("read", "%d 0 1 0 0 0 0 0 1", c)
		}
	}
}

//go:build verif

package main

// C24 — JSON-RPC protocol is a faithful frame bridge.
//
// ops (strings / byte fields hex, "-" = empty; k=v fields):
//   out rid=<hex> t=<connack|sendack|recv|event|disconnect|pong> <frame fields>
//        real FromFrame -> Encode -> Decode (-> client json.Unmarshal of result) ; prints the decoded message,
//        what ToFrame makes of it (`back=`), and whether both gateway adapters emit the same bytes (`gw=`)
//   in  rid=<hex> t=<connect|send|ping|disconnect|recvack|subscribe|unsubscribe> <message params>
//        the message a client builds -> real Encode -> Decode -> ToFrame ; prints the frame and the request id,
//        and whether both gateway adapters decode to the same frame and queue the same reply token (`gw=`)
//   det jv=.. id=.. m=.. r=.. e=..            real determineMessageType on a hand-made Probe
//   doc jv=.. id=.. m=.. p=.. r=.. e=..       a JSON document rendered from the spec -> real Decode + both adapters
//   multi sep=.. trail=.. cut=.. m=kind:rid:len,…  2–5 messages coalesced in ONE inbound buffer -> both gateway adapters, called
//        the way the gateway does (decode, advance by `consumed`, decode again): every message must come out, in order
//   fuzz <hex>                                arbitrary bytes -> real Decode + both adapters (never PANIC)

import (
	"bytes"
	"encoding/json"
	"errors"
	"fmt"
	"io"
	"sort"
	"strconv"
	"strings"

	gwjson "github.com/WuKongIM/WuKongIM/pkg/gateway/protocol/jsonrpc"
	"github.com/WuKongIM/WuKongIM/pkg/gateway/protocol/wsmux"
	"github.com/WuKongIM/WuKongIM/pkg/gateway/session"
	gatewaytypes "github.com/WuKongIM/WuKongIM/pkg/gateway/types"
	"github.com/WuKongIM/WuKongIM/pkg/protocol/frame"
	"github.com/WuKongIM/WuKongIM/pkg/protocol/jsonrpc"
)

func init() {
	Register(&Prop{Gen: genC24, NewRunner: func() Runner { return c24Runner{} }})
}

// ------------------------------------------------------------------ generator

func c24Str(g *Gen) []byte {
	switch g.R.Pick(2, 8, 3, 2, 2, 1) {
	case 0:
		return nil
	case 1:
		n := g.R.Range(1, 16)
		b := make([]byte, n)
		for i := range b {
			b[i] = "abcdefghijklmnopqrstuvwxyzABCDEFGHIJKLMNOPQRSTUVWXYZ0123456789_@-"[g.R.Intn(65)]
		}
		return b
	case 2: // characters JSON has to escape
		n := g.R.Range(1, 8)
		var b []byte
		for i := 0; i < n; i++ {
			b = append(b, []string{"\"", "\\", "/", "<", ">", "&", "\n", "\t", "\x00", "\x1f", "\x7f", " ", " ", " ", "{", "}"}[g.R.Intn(16)]...)
		}
		return b
	case 3: // multi-byte UTF-8 incl. boundaries
		n := g.R.Range(1, 5)
		var b []byte
		for i := 0; i < n; i++ {
			b = append(b, string([]rune{[]rune{0x80, 0x7ff, 0x800, 0xfffd, 0xffff, 0x10000, 0x10ffff, 0x4e2d, 0x1f600, 0xd7ff, 0xe000}[g.R.Intn(11)]})...)
		}
		return b
	case 4: // invalid UTF-8: JSON cannot carry it (each offending byte becomes U+FFFD)
		g.Count("str:invalid-utf8")
		n := g.R.Range(1, 6)
		var b []byte
		for i := 0; i < n; i++ {
			b = append(b, []string{"\xff", "\xc0\x80", "\xed\xa0\x80", "\xf4\x90\x80\x80", "\xe2\x82", "\xc3", "a", "\x80", "\xf0\x9f\x98", "\xe0\x9f\xbf", "\xf5"}[g.R.Intn(11)]...)
		}
		return b
	default:
		return g.R.Bytes(g.R.Range(1, 24))
	}
}

func c24Flags(g *Gen) string {
	if g.R.Chance(40) {
		return "00000"
	}
	b := make([]byte, 5)
	for i := range b {
		b[i] = byte('0' + g.R.Intn(2))
	}
	return string(b)
}

func c24U(g *Gen, bits uint) uint64 {
	if bits == 64 && g.R.Chance(25) { // just beyond 32 bits, the float53 limit, the int64/uint64 limits
		g.Count("u64:beyond-32-bits")
		return []uint64{1 << 32, 1<<32 + 33, 1<<53 - 1, 1 << 53, 1<<63 - 1, 1 << 63, 1<<64 - 1, 1<<64 - 2, 0xFFFFFFFF}[g.R.Intn(9)]
	}
	v := g.R.BoundaryU64()
	if bits < 64 {
		v &= (1 << bits) - 1
	}
	return v
}

func c24I(g *Gen, bits uint) int64 {
	v := int64(g.R.BoundaryU64())
	switch bits {
	case 32:
		return int64(int32(v))
	}
	return v
}

func c24Setting(g *Gen) int {
	switch g.R.Pick(3, 3, 2, 2) {
	case 0:
		return 0
	case 1:
		return []int{128, 32, 8, 2}[g.R.Intn(4)]
	case 2: // bits the bridge does not carry (NoEncrypt 16, unnamed 64/4/1)
		return []int{16, 64, 4, 1, 16 | 8, 255}[g.R.Intn(6)]
	default:
		return g.R.Intn(256)
	}
}

func c24Payload(g *Gen) []byte {
	if g.R.Chance(10) {
		return nil
	}
	return g.R.Bytes(g.R.Range(1, 40))
}

func genC24Out(g *Gen) {
	rid := c24Str(g)
	fl := c24Flags(g)
	t := []string{"connack", "sendack", "recv", "event", "disconnect", "pong"}[g.R.Pick(3, 3, 5, 3, 2, 1)]
	g.Count("out:" + t)
	if fl == "00000" {
		g.Count("out:flags-none")
	}
	switch t {
	case "connack":
		g.Op("out", "rid=%s t=connack fl=%s hsv=%d sv=%d skey=%s salt=%s td=%d rc=%d node=%d", Hex(rid), fl, g.R.Intn(2), c24U(g, 8), Hex(c24Str(g)), Hex(c24Str(g)), c24I(g, 64), c24U(g, 8), c24U(g, 64))
	case "sendack":
		g.Op("out", "rid=%s t=sendack fl=%s mid=%d mseq=%d cseq=%d no=%s rc=%d", Hex(rid), fl, c24I(g, 64), c24U(g, 64), c24U(g, 64), Hex(c24Str(g)), c24U(g, 8))
	case "recv":
		g.Op("out", "rid=%s t=recv fl=%s set=%d mk=%s exp=%d mid=%d mseq=%d no=%s sno=%s sid=%d sflag=%d ts=%d ch=%s ct=%d top=%s from=%s pl=%s cseq=%d", Hex(rid), fl,
			c24Setting(g), Hex(c24Str(g)), c24U(g, 32), c24I(g, 64), c24U(g, 64), Hex(c24Str(g)), Hex(c24Str(g)), c24U(g, 64), c24U(g, 8), c24I(g, 32), Hex(c24Str(g)), c24U(g, 8), Hex(c24Str(g)), Hex(c24Str(g)), Hex(c24Payload(g)), c24U(g, 64))
	case "event":
		g.Op("out", "rid=%s t=event fl=%s id=%s type=%s ts=%d data=%s", Hex(rid), fl, Hex(c24Str(g)), Hex(c24Str(g)), c24I(g, 64), Hex(c24Str(g)))
	case "disconnect":
		g.Op("out", "rid=%s t=disconnect fl=%s rc=%d reason=%s", Hex(rid), fl, c24U(g, 8), Hex(c24Str(g)))
	default:
		g.Op("out", "rid=%s t=pong fl=%s", Hex(rid), fl)
	}
}

// message-level integers: in range, or outside the frame field's width (the bridge truncates)
func c24MsgInt(g *Gen, bits uint) int64 {
	switch g.R.Pick(6, 2, 1, 1) {
	case 0:
		return int64(c24U(g, bits))
	case 1:
		g.Count("in:int-out-of-range")
		return int64(1<<bits) + int64(g.R.Intn(300))
	case 2:
		g.Count("in:int-negative")
		return -int64(g.R.Range(1, 300))
	default:
		return int64(g.R.Intn(4))
	}
}

func genC24In(g *Gen) {
	rid := c24Str(g)
	if g.R.Chance(70) && len(rid) == 0 {
		rid = []byte("r" + strconv.Itoa(g.R.Intn(1000)))
	}
	fl := c24Flags(g)
	t := []string{"connect", "send", "ping", "disconnect", "recvack", "subscribe", "unsubscribe"}[g.R.Pick(4, 6, 2, 2, 4, 1, 1)]
	g.Count("in:" + t)
	if len(rid) == 0 {
		g.Count("in:empty-id")
	}
	switch t {
	case "connect":
		g.Op("in", "rid=%s t=connect fl=%s ver=%d ckey=%s dev=%s dflag=%d ts=%d uid=%s tok=%s", Hex(rid), fl, c24MsgInt(g, 8), Hex(c24Str(g)), Hex(c24Str(g)), c24MsgInt(g, 8), c24I(g, 64), Hex(c24Str(g)), Hex(c24Str(g)))
	case "send":
		g.Op("in", "rid=%s t=send fl=%s set=%04b mk=%s exp=%d no=%s sno=%s ch=%s ct=%d top=%s pl=%s", Hex(rid), fl, g.R.Intn(16), Hex(c24Str(g)), c24U(g, 32), Hex(c24Str(g)), Hex(c24Str(g)), Hex(c24Str(g)), c24MsgInt(g, 8), Hex(c24Str(g)), Hex(c24Payload(g)))
	case "ping":
		g.Op("in", "rid=%s t=ping pp=%d", Hex(rid), g.R.Intn(2))
	case "disconnect":
		g.Op("in", "rid=%s t=disconnect rc=%d reason=%s", Hex(rid), c24MsgInt(g, 8), Hex(c24Str(g)))
	case "recvack":
		var mid []byte
		switch g.R.Pick(6, 1, 1, 1, 1) {
		case 0:
			mid = []byte(strconv.FormatInt(c24I(g, 64), 10))
		case 1:
			g.Count("in:mid-out-of-range")
			mid = []byte([]string{"9223372036854775808", "-9223372036854775809", "99999999999999999999999"}[g.R.Intn(3)])
		case 2:
			g.Count("in:mid-not-a-number")
			mid = c24Str(g)
		case 3:
			mid = []byte([]string{"+5", "-0", "007", "1_000", " 1", "0x10", "1e3", ""}[g.R.Intn(8)])
			g.Count("in:mid-odd-syntax")
		default:
			mid = []byte(strconv.Itoa(g.R.Intn(100)))
		}
		g.Op("in", "rid=%s t=recvack fl=%s mid=%s mseq=%d", Hex(rid), fl, Hex(mid), c24U(g, 64))
	case "subscribe":
		g.Op("in", "rid=%s t=subscribe sub=%s ch=%s ct=%d param=%s", Hex(rid), Hex(c24Str(g)), Hex(c24Str(g)), c24MsgInt(g, 8), Hex(c24Str(g)))
	default:
		g.Op("in", "rid=%s t=unsubscribe sub=%s ch=%s ct=%d", Hex(rid), Hex(c24Str(g)), Hex(c24Str(g)), c24MsgInt(g, 8))
	}
}

var (
	c24JV      = []string{"absent", "v2", "v1", "num", "null"}
	c24ID      = []string{"absent", "null", "str", "num", "emptystr", "obj"}
	c24DetID   = []string{"absent", "empty", "null", "str", "num"}
	c24Methods = []string{"absent", "connect", "send", "recvack", "subscribe", "unsubscribe", "ping", "pong", "disconnect", "recv", "event", "foo", "num", "emptystr"}
	c24Params  = []string{"absent", "null", "good", "badtype", "arr", "str", "emptyobj"}
	c24Result  = []string{"absent", "null", "obj"}
	c24Error   = []string{"absent", "null", "obj", "str"}
)

func pick(g *Gen, xs []string) string { return xs[g.R.Intn(len(xs))] }

func genC24Doc(g *Gen) {
	jv := "v2"
	if g.R.Chance(25) {
		jv = pick(g, c24JV)
	}
	id := []string{"str", "str", "absent", "absent"}[g.R.Intn(4)]
	if g.R.Chance(30) {
		id = pick(g, c24ID)
	}
	m := pick(g, c24Methods)
	p := []string{"good", "good", "good", "absent", "null", "emptyobj"}[g.R.Intn(6)]
	if g.R.Chance(35) {
		p = pick(g, c24Params)
	}
	r, e := "absent", "absent"
	if m == "absent" || g.R.Chance(15) {
		r = pick(g, c24Result)
		e = []string{"absent", "absent", "absent", "null", "obj", "str"}[g.R.Intn(6)]
	}
	g.Count("doc:method-" + m)
	g.Op("doc", "jv=%s id=%s m=%s p=%s r=%s e=%s", jv, id, m, p, r, e)
}

// c24Mutate makes "arbitrary and mutated JSON": random bytes, deep nesting, huge numbers, wrong types, duplicate keys.
func c24Fuzz(g *Gen) []byte {
	base := []string{
		`{"jsonrpc":"2.0","method":"send","id":"1","params":{"channelId":"c","channelType":2,"payload":"aGk="}}`,
		`{"jsonrpc":"2.0","method":"connect","id":"1","params":{"uid":"u","token":"t","deviceFlag":1,"version":4}}`,
		`{"method":"recvack","params":{"messageId":"123","messageSeq":5,"header":{"noPersist":true}}}`,
		`{"method":"ping","id":"p1"}`,
		`{"jsonrpc":"2.0","id":"9","result":{"messageId":"1","messageSeq":2,"reasonCode":1}}`,
		`{"jsonrpc":"2.0","id":"9","error":{"code":1,"message":"x"}}`,
		`{"method":"event","params":{"id":"e","type":"t","timestamp":1,"data":"d"}}`,
		`{"method":"disconnect","id":"d","params":{"reasonCode":3,"reason":"bye"}}`,
	}[g.R.Intn(8)]
	switch g.R.Pick(10, 14, 8, 10, 10, 10, 8, 8, 8, 6, 8) {
	case 0:
		g.Count("fuzz:random-bytes")
		return g.R.Bytes(g.R.Range(0, 60))
	case 1: // byte-level mutation of a valid message
		g.Count("fuzz:mutated")
		b := []byte(base)
		for k := g.R.Range(1, 4); k > 0; k-- {
			j := g.R.Intn(len(b))
			switch g.R.Intn(4) {
			case 0:
				b[j] ^= byte(1 << uint(g.R.Intn(8)))
			case 1:
				b = append(b[:j], b[j+1:]...)
			case 2:
				b = append(b[:j], append([]byte{"{}[]\":,0-e.ntf\\u"[g.R.Intn(16)]}, b[j:]...)...)
			default:
				b[j] = byte(g.R.U64())
			}
			if len(b) == 0 {
				break
			}
		}
		return b
	case 2:
		g.Count("fuzz:truncated")
		return []byte(base[:g.R.Intn(len(base)+1)])
	case 3: // deep nesting in every position
		g.Count("fuzz:deep-nesting")
		d := []int{10, 100, 1000, 9999, 10001, 20000}[g.R.Intn(6)]
		open, close := "[", "]"
		if g.R.Bool() {
			open, close = `{"a":`, "}"
		}
		nest := strings.Repeat(open, d) + "1" + strings.Repeat(close, d)
		switch g.R.Intn(5) {
		case 0:
			return []byte(nest)
		case 1:
			return []byte(`{"method":"send","id":"1","params":` + nest + `}`)
		case 2:
			return []byte(`{"id":` + nest + `,"method":"ping"}`)
		case 3:
			return []byte(`{"id":"1","result":` + nest + `}`)
		default:
			return []byte(`{"id":"1","error":{"code":1,"message":"m","data":` + nest + `}}`)
		}
	case 4:
		g.Count("fuzz:huge-numbers")
		n := []string{"1e400", "-1e400", "123456789012345678901234567890", "-9223372036854775809", "18446744073709551616", "1.5", "-0", "0.0000000000000000000001", "1E+2", "4294967296", "256", "-1"}[g.R.Intn(12)]
		return []byte([]string{
			`{"method":"send","id":"1","params":{"channelId":"c","channelType":` + n + `,"expire":` + n + `,"payload":""}}`,
			`{"method":"connect","id":"1","params":{"uid":"u","token":"t","deviceFlag":` + n + `,"version":` + n + `,"clientTimestamp":` + n + `}}`,
			`{"method":"recvack","params":{"messageId":"` + n + `","messageSeq":` + n + `}}`,
			`{"id":` + n + `,"method":"ping"}`,
			`{"id":"1","error":{"code":` + n + `,"message":"m"}}`,
			`{"method":"disconnect","id":"1","params":{"reasonCode":` + n + `}}`,
		}[g.R.Intn(6)])
	case 5:
		g.Count("fuzz:wrong-types")
		v := []string{`null`, `true`, `"s"`, `1`, `[]`, `{}`, `[1,"a",null]`, `{"a":{"b":[]}}`, `""`}
		w := func() string { return v[g.R.Intn(len(v))] }
		return []byte([]string{
			`{"jsonrpc":` + w() + `,"method":` + w() + `,"id":` + w() + `,"params":` + w() + `}`,
			`{"method":"send","id":"1","params":{"header":` + w() + `,"setting":` + w() + `,"channelId":` + w() + `,"channelType":` + w() + `,"payload":` + w() + `}}`,
			`{"method":"connect","id":"1","params":{"header":{"noPersist":` + w() + `},"uid":` + w() + `,"token":` + w() + `,"deviceFlag":` + w() + `}}`,
			`{"id":"1","result":` + w() + `,"error":` + w() + `}`,
			`{"method":"recvack","params":{"messageId":` + w() + `,"messageSeq":` + w() + `}}`,
			`{"method":"ping","id":"1","params":` + w() + `}`,
			`{"method":"event","params":` + w() + `}`,
		}[g.R.Intn(7)])
	case 6:
		g.Count("fuzz:duplicate-keys")
		return []byte([]string{
			`{"method":"ping","method":"send","id":"1","id":"2"}`,
			`{"id":"1","id":null,"method":"ping"}`,
			`{"method":"send","id":"1","params":{"channelId":"a","channelId":"b","channelType":1,"channelType":2,"payload":"","payload":"aGk="},"params":null}`,
			`{"id":"1","result":1,"result":null,"error":null}`,
			`{"jsonrpc":"1.0","jsonrpc":"2.0","method":"ping","id":"x"}`,
			`{"method":"recvack","params":{"messageId":"1"},"params":{"messageId":"2","messageSeq":3}}`,
			`{"Method":"ping","ID":"1","METHOD":"send","Id":"2"}`,
		}[g.R.Intn(7)])
	case 7: // payload is base64 in JSON
		g.Count("fuzz:bad-base64-payload")
		return []byte(`{"method":"send","id":"1","params":{"channelId":"c","channelType":1,"payload":"` + []string{"!!!", "aGk", "aGk=\\n", "====", "a", "\\u0000"}[g.R.Intn(6)] + `"}}`)
	case 8: // several documents / trailing data / leading whitespace / BOM / arrays (batch)
		g.Count("fuzz:framing")
		return []byte([]string{
			base + base,
			" \n\t" + base + "  ",
			base + "garbage",
			"\xef\xbb\xbf" + base,
			"[" + base + "]",
			"[]", "{}", "null", "\"str\"", "0", "", " ", "{", "[", "{\"", "\x00",
		}[g.R.Intn(16)])
	case 9: // strings: escapes, surrogates, invalid UTF-8
		g.Count("fuzz:odd-strings")
		s := []string{`\ud800`, `\udc00\ud800`, `😀`, "\xff\xfe", `\u0000`, `\x41`, `\`, `\u12`, strings.Repeat("a", 70000), `\"\\\/\b\f\n\r\t`}[g.R.Intn(10)]
		return []byte(`{"method":"send","id":"` + s + `","params":{"channelId":"` + s + `","channelType":1,"clientMsgNo":"` + s + `","payload":""}}`)
	default:
		g.Count("fuzz:valid")
		return []byte(base)
	}
}

// messages a client may pipeline: (kind of frame, request id, text)
var c24Pool = []struct{ kind, rid, text string }{
	{"ping", "p1", `{"jsonrpc":"2.0","method":"ping","id":"p1"}`},
	{"send", "s1", `{"jsonrpc":"2.0","method":"send","id":"s1","params":{"channelId":"c","channelType":2,"payload":"aGk="}}`},
	{"connect", "c1", `{"jsonrpc":"2.0","method":"connect","id":"c1","params":{"uid":"u","token":"t","deviceFlag":1}}`},
	{"recvack", "", `{"method":"recvack","params":{"messageId":"12","messageSeq":3}}`},
	{"disconnect", "d1", `{"method":"disconnect","id":"d1","params":{"reasonCode":1,"reason":"bye"}}`},
	{"ping", "p\u00e9", "{ \"method\" : \"ping\" ,\n \"id\" : \"p\u00e9\" }"},
	{"send", "s2", `{"method":"send","id":"s2","params":{"channelId":"{}[]","channelType":1,"payload":"e30=","clientMsgNo":"}{"}}`},
}

func genC24Multi(g *Gen) {
	n := g.R.Range(2, 5)
	var ms []string
	last := 0
	for i := 0; i < n; i++ {
		k := g.R.Intn(len(c24Pool))
		last = k
		ms = append(ms, fmt.Sprintf("%s:%s:%d", c24Pool[k].kind, Hex([]byte(c24Pool[k].rid)), len(c24Pool[k].text)))
		ms[i] = strconv.Itoa(k) + ":" + ms[i]
	}
	sep := []string{"none", "sp", "nl", "crlf"}[g.R.Intn(4)]
	cut, trail := -1, 0
	switch g.R.Pick(5, 3, 2) {
	case 1:
		cut = g.R.Range(1, len(c24Pool[last].text)-1)
		g.Count("multi:last-partial")
	case 2:
		trail = 1
	}
	g.Count("multi:sep-" + sep)
	g.Op("multi", "sep=%s trail=%d cut=%d m=%s", sep, trail, cut, strings.Join(ms, ","))
}

func genC24(g *Gen) {
	g.Case()
	// exhaustive: determineMessageType over every presence/value combination
	for _, jv := range c24JV {
		for _, id := range c24DetID {
			for _, m := range []string{"none", "recv", "recvack", "disconnect", "event", "send", "foo"} {
				for r := 0; r < 2; r++ {
					for e := 0; e < 2; e++ {
						g.Op("det", "jv=%s id=%s m=%s r=%d e=%d", jv, id, m, r, e)
					}
				}
			}
		}
	}
	// every method x params shape x id shape once
	for _, m := range c24Methods {
		for _, p := range c24Params {
			for _, id := range c24ID {
				g.Op("doc", "jv=v2 id=%s m=%s p=%s r=absent e=absent", id, m, p)
			}
		}
	}
	for _, id := range c24ID {
		for _, r := range c24Result {
			for _, e := range c24Error {
				g.Op("doc", "jv=v2 id=%s m=absent p=absent r=%s e=%s", id, r, e)
			}
		}
	}
	for i := 0; i < g.N; i++ {
		if i%500 == 499 {
			g.Case()
		}
		switch g.R.Pick(25, 25, 15, 35, 8) {
		case 4:
			genC24Multi(g)
		case 0:
			genC24Out(g)
		case 1:
			genC24In(g)
		case 2:
			genC24Doc(g)
		default:
			g.Op("fuzz", "%s", Hex(c24Fuzz(g)))
		}
	}
}

// --------------------------------------------------------------------- runner

type c24Runner struct{}

func (c24Runner) Close() {}

type kvm map[string]string

func parseKV(f []string) kvm {
	m := kvm{}
	for _, x := range f {
		if i := strings.IndexByte(x, '='); i > 0 {
			m[x[:i]] = x[i+1:]
		}
	}
	return m
}

func (m kvm) s(k string) string { return string(UnHex(m[k])) }
func (m kvm) b(k string) []byte {
	if m[k] == "-" || m[k] == "" {
		return nil
	}
	return UnHex(m[k])
}
func (m kvm) u(k string) uint64 {
	v, err := strconv.ParseUint(m[k], 10, 64)
	if err != nil {
		panic("bad-op field " + k)
	}
	return v
}
func (m kvm) i(k string) int64 {
	v, err := strconv.ParseInt(m[k], 10, 64)
	if err != nil {
		panic("bad-op field " + k)
	}
	return v
}
func (m kvm) framer() frame.Framer {
	fl := m["fl"]
	if len(fl) != 5 {
		panic("bad-op field fl")
	}
	return frame.Framer{NoPersist: fl[0] == '1', RedDot: fl[1] == '1', SyncOnce: fl[2] == '1', DUP: fl[3] == '1', End: fl[4] == '1'}
}
func (m kvm) header() jsonrpc.Header {
	f := m.framer()
	return jsonrpc.Header{NoPersist: f.NoPersist, RedDot: f.RedDot, SyncOnce: f.SyncOnce, Dup: f.DUP, End: f.End}
}

func b01(b bool) byte {
	if b {
		return '1'
	}
	return '0'
}

func flagsOf(f frame.Framer) string {
	return string([]byte{b01(f.NoPersist), b01(f.RedDot), b01(f.SyncOnce), b01(f.DUP), b01(f.End)})
}

func hdrOf(h *jsonrpc.Header) string {
	if h == nil {
		return "nil"
	}
	return string([]byte{b01(h.NoPersist), b01(h.RedDot), b01(h.SyncOnce), b01(h.Dup), b01(h.End)})
}

func setOf(s *jsonrpc.SettingFlags) string {
	if s == nil {
		return "nil"
	}
	return string([]byte{b01(s.Receipt), b01(s.Signal), b01(s.Stream), b01(s.Topic)})
}

func hs(s string) string { return Hex([]byte(s)) }

func c24ErrClass(err error) string {
	var se *json.SyntaxError
	var te *json.UnmarshalTypeError
	switch {
	case err == nil:
		return "none"
	case errors.Is(err, jsonrpc.ErrInvalidVersion):
		return "version"
	case errors.Is(err, jsonrpc.ErrResponseFormat):
		return "responsefmt"
	case errors.Is(err, jsonrpc.ErrRequestFormat):
		return "requestfmt"
	case errors.Is(err, jsonrpc.ErrNotificationFormat):
		return "notiffmt"
	case errors.Is(err, jsonrpc.ErrUnknownMethod):
		return "unknownmethod"
	case errors.Is(err, jsonrpc.ErrMissingParams):
		return "missingparams"
	case errors.Is(err, jsonrpc.ErrUnmarshalFieldFailed):
		return "field"
	case errors.Is(err, jsonrpc.ErrInvalidStructure):
		return "structure"
	case errors.Is(err, io.EOF), errors.Is(err, io.ErrUnexpectedEOF):
		return "eof"
	case errors.As(err, &se):
		return "syntax"
	case errors.As(err, &te):
		return "jsontype"
	case strings.HasPrefix(err.Error(), "jsonrpc decode: unknown notification method"):
		return "unknownnotif"
	case strings.HasPrefix(err.Error(), "jsonrpc decode: unable to determine"):
		return "undetermined"
	case strings.HasPrefix(err.Error(), "unknown packet type"):
		return "unknownpacket"
	default:
		return "other"
	}
}

func frameStr(f frame.Frame) string {
	switch p := f.(type) {
	case *frame.ConnectPacket:
		return fmt.Sprintf("connect fl=%s ver=%d ckey=%s dev=%s dflag=%d ts=%d uid=%s tok=%s", flagsOf(p.Framer), p.Version, hs(p.ClientKey), hs(p.DeviceID), p.DeviceFlag, p.ClientTimestamp, hs(p.UID), hs(p.Token))
	case *frame.SendPacket:
		return fmt.Sprintf("send fl=%s set=%d mk=%s exp=%d seq=%d no=%s sno=%s ch=%s ct=%d top=%s pl=%s", flagsOf(p.Framer), uint8(p.Setting), hs(p.MsgKey), p.Expire, p.ClientSeq, hs(p.ClientMsgNo), hs(p.StreamNo), hs(p.ChannelID), p.ChannelType, hs(p.Topic), Hex(p.Payload))
	case *frame.RecvackPacket:
		return fmt.Sprintf("recvack fl=%s mid=%d mseq=%d", flagsOf(p.Framer), p.MessageID, p.MessageSeq)
	case *frame.DisconnectPacket:
		return fmt.Sprintf("disconnect fl=%s rc=%d reason=%s", flagsOf(p.Framer), uint8(p.ReasonCode), hs(p.Reason))
	case *frame.PingPacket:
		return fmt.Sprintf("ping fl=%s", flagsOf(p.Framer))
	case nil:
		return "nil-frame"
	}
	return fmt.Sprintf("other-frame:%T", f)
}

func msgKind(msg interface{}) string {
	switch msg.(type) {
	case jsonrpc.ConnectRequest:
		return "ConnectRequest"
	case jsonrpc.SendRequest:
		return "SendRequest"
	case jsonrpc.SubscribeRequest:
		return "SubscribeRequest"
	case jsonrpc.UnsubscribeRequest:
		return "UnsubscribeRequest"
	case jsonrpc.PingRequest:
		return "PingRequest"
	case jsonrpc.DisconnectRequest:
		return "DisconnectRequest"
	case jsonrpc.GenericResponse:
		return "GenericResponse"
	case jsonrpc.RecvNotification:
		return "RecvNotification"
	case jsonrpc.RecvAckNotification:
		return "RecvAckNotification"
	case jsonrpc.DisconnectNotification:
		return "DisconnectNotification"
	case jsonrpc.EventNotification:
		return "EventNotification"
	case nil:
		return "NIL"
	}
	return fmt.Sprintf("UNEXPECTED:%T", msg)
}

func newSess(proto string) session.Session {
	s := session.New(session.Config{ID: 1, Listener: "verif", RemoteAddr: "r", LocalAddr: "l"})
	if proto != "" {
		s.SetValue(gatewaytypes.SessionValueProtocolName, proto)
	}
	return s
}

// gwDecode runs both gateway adapters on the text; returns a canonical summary.
func gwDecode(text []byte) string {
	one := func(dec func(session.Session, []byte) ([]frame.Frame, int, error), take func(session.Session, int) []string, s session.Session) string {
		frames, n, err := dec(s, text)
		if err != nil {
			return "err"
		}
		if len(frames) == 0 {
			return fmt.Sprintf("none/%d", n)
		}
		toks := take(s, 10)
		return fmt.Sprintf("%s n=%d tok=%s", frameStr(frames[0]), n, hs(strings.Join(toks, ",")))
	}
	ja := gwjson.New()
	s1 := newSess("")
	_ = ja.OnOpen(s1)
	a := one(ja.Decode, ja.TakeReplyTokens, s1)
	wa := wsmux.New()
	s2 := newSess("")
	b := one(wa.Decode, wa.TakeReplyTokens, s2)
	return a + " || " + b
}

func (c24Runner) Step(op string) (out string) {
	defer func() {
		if e := recover(); e != nil {
			if s, ok := e.(string); ok && strings.HasPrefix(s, "bad-op") {
				out = "bad-op"
				return
			}
			panic(e)
		}
	}()
	f := strings.Fields(op)
	if len(f) == 0 {
		return "bad-op"
	}
	m := parseKV(f[1:])
	switch f[0] {
	case "out":
		return c24Out(m)
	case "in":
		return c24In(m)
	case "det":
		return c24Det(m)
	case "doc":
		text, ok := c24DocText(m)
		if !ok {
			return "bad-op"
		}
		return c24DecodeSummary(text, true)
	case "multi":
		return c24Multi(m)
	case "fuzz":
		if len(f) != 2 {
			return "bad-op"
		}
		return c24DecodeSummary(UnHex(f[1]), false)
	}
	return "bad-op"
}

func c24Out(m kvm) string {
	rid := m.s("rid")
	var fr frame.Frame
	switch m["t"] {
	case "connack":
		fm := m.framer()
		fm.HasServerVersion = m["hsv"] == "1"
		fr = &frame.ConnackPacket{Framer: fm, ServerVersion: uint8(m.u("sv")), ServerKey: m.s("skey"), Salt: m.s("salt"), TimeDiff: m.i("td"), ReasonCode: frame.ReasonCode(m.u("rc")), NodeId: m.u("node")}
	case "sendack":
		fr = &frame.SendackPacket{Framer: m.framer(), MessageID: m.i("mid"), MessageSeq: m.u("mseq"), ClientSeq: m.u("cseq"), ClientMsgNo: m.s("no"), ReasonCode: frame.ReasonCode(m.u("rc"))}
	case "recv":
		fr = &frame.RecvPacket{Framer: m.framer(), Setting: frame.Setting(m.u("set")), MsgKey: m.s("mk"), Expire: uint32(m.u("exp")), MessageID: m.i("mid"), MessageSeq: m.u("mseq"),
			ClientMsgNo: m.s("no"), StreamNo: m.s("sno"), StreamId: m.u("sid"), StreamFlag: frame.StreamFlag(m.u("sflag")), Timestamp: int32(m.i("ts")), ChannelID: m.s("ch"),
			ChannelType: uint8(m.u("ct")), Topic: m.s("top"), FromUID: m.s("from"), Payload: m.b("pl"), ClientSeq: m.u("cseq")}
	case "event":
		fr = &frame.EventPacket{Framer: m.framer(), Id: m.s("id"), Type: m.s("type"), Timestamp: m.i("ts"), Data: m.b("data")}
	case "disconnect":
		fr = &frame.DisconnectPacket{Framer: m.framer(), ReasonCode: frame.ReasonCode(m.u("rc")), Reason: m.s("reason")}
	case "pong":
		fr = &frame.PongPacket{Framer: m.framer()}
	default:
		return "bad-op"
	}
	msg, err := jsonrpc.FromFrame(rid, fr)
	if err != nil {
		return "err:fromframe"
	}
	text, err := jsonrpc.Encode(msg)
	if err != nil {
		return "err:encode"
	}
	// both gateway adapters must emit the same bytes
	gw := "1"
	if b, err := gwjson.New().Encode(newSess(""), fr, session.OutboundMeta{ReplyToken: rid}); err != nil || !bytes.Equal(b, text) {
		gw = "0"
	}
	if b, err := wsmux.New().Encode(newSess(gwjson.Name), fr, session.OutboundMeta{ReplyToken: rid}); err != nil || !bytes.Equal(b, text) {
		gw = "0"
	}
	dec, _, err := jsonrpc.Decode(json.NewDecoder(bytes.NewReader(text)))
	if err != nil {
		return fmt.Sprintf("undecodable:%s gw=%s", c24ErrClass(err), gw)
	}
	_, _, berr := jsonrpc.ToFrame(dec)
	back := "err:" + c24ErrClass(berr)
	if berr == nil {
		back = "frame"
	}
	var s string
	switch d := dec.(type) {
	case jsonrpc.GenericResponse:
		if d.Error != nil {
			return "err:response-has-error"
		}
		switch m["t"] {
		case "connack":
			var r jsonrpc.ConnectResult
			if err := json.Unmarshal(d.Result, &r); err != nil {
				return "err:result-undecodable"
			}
			s = fmt.Sprintf("connack-resp id=%s hdr=%s sv=%d skey=%s salt=%s td=%d rc=%d node=%d", hs(d.ID), hdrOf(r.Header), r.ServerVersion, hs(r.ServerKey), hs(r.Salt), r.TimeDiff, r.ReasonCode, r.NodeID)
		case "sendack":
			var r jsonrpc.SendResult
			if err := json.Unmarshal(d.Result, &r); err != nil {
				return "err:result-undecodable"
			}
			s = fmt.Sprintf("sendack-resp id=%s hdr=%s mid=%s mseq=%d rc=%d", hs(d.ID), hdrOf(r.Header), hs(r.MessageID), r.MessageSeq, r.ReasonCode)
		default:
			s = fmt.Sprintf("generic-resp id=%s result=%s", hs(d.ID), Hex(d.Result))
		}
	case jsonrpc.RecvNotification:
		p := d.Params
		s = fmt.Sprintf("recv-notif hdr=%s set=%s mk=%s exp=%d mid=%s mseq=%d no=%s sno=%s sid=%s sflag=%d ts=%d ch=%s ct=%d top=%s from=%s pl=%s", hdrOf(p.Header), setOf(p.Setting), hs(p.MsgKey), p.Expire,
			hs(p.MessageID), p.MessageSeq, hs(p.ClientMsgNo), hs(p.StreamNo), hs(p.StreamID), p.StreamFlag, p.Timestamp, hs(p.ChannelID), p.ChannelType, hs(p.Topic), hs(p.FromUID), Hex(p.Payload))
	case jsonrpc.EventNotification:
		p := d.Params
		s = fmt.Sprintf("event-notif hdr=%s id=%s type=%s ts=%d data=%s", hdrOf(p.Header), hs(p.ID), hs(p.Type), p.Timestamp, hs(p.Data))
	case jsonrpc.DisconnectNotification:
		s = fmt.Sprintf("disconnect-notif rc=%d reason=%s", d.Params.ReasonCode, hs(d.Params.Reason))
	default:
		s = "unexpected:" + msgKind(dec)
	}
	return fmt.Sprintf("%s back=%s gw=%s", s, back, gw)
}

// The client's own message types (what an SDK would declare from the protocol document): independent of the
// repository's structs, so that a changed field type there is observed as a behaviour, not as a build failure.
type cliHeader struct {
	NoPersist bool `json:"noPersist,omitempty"`
	RedDot    bool `json:"redDot,omitempty"`
	SyncOnce  bool `json:"syncOnce,omitempty"`
	Dup       bool `json:"dup,omitempty"`
	End       bool `json:"end,omitempty"`
}
type cliSetting struct {
	Receipt bool `json:"receipt,omitempty"`
	Signal  bool `json:"signal,omitempty"`
	Stream  bool `json:"stream,omitempty"`
	Topic   bool `json:"topic,omitempty"`
}
type cliMsg struct {
	Jsonrpc string      `json:"jsonrpc,omitempty"`
	Method  string      `json:"method"`
	ID      string      `json:"id,omitempty"`
	Params  interface{} `json:"params,omitempty"`
}
type cliConnect struct {
	Header          cliHeader `json:"header,omitempty"`
	Version         int64     `json:"version,omitempty"`
	ClientKey       string    `json:"clientKey,omitempty"`
	DeviceID        string    `json:"deviceId,omitempty"`
	DeviceFlag      int64     `json:"deviceFlag"`
	ClientTimestamp int64     `json:"clientTimestamp,omitempty"`
	UID             string    `json:"uid"`
	Token           string    `json:"token"`
}
type cliSend struct {
	Header      cliHeader  `json:"header,omitempty"`
	Setting     cliSetting `json:"setting,omitempty"`
	MsgKey      string     `json:"msgKey,omitempty"`
	Expire      uint32     `json:"expire,omitempty"`
	ClientMsgNo string     `json:"clientMsgNo,omitempty"`
	StreamNo    string     `json:"streamNo,omitempty"`
	ChannelID   string     `json:"channelId"`
	ChannelType int64      `json:"channelType"`
	Topic       string     `json:"topic,omitempty"`
	Payload     []byte     `json:"payload"`
}
type cliRecvAck struct {
	Header     cliHeader `json:"header,omitempty"`
	MessageID  string    `json:"messageId"`
	MessageSeq uint64    `json:"messageSeq"`
}
type cliDisconnect struct {
	ReasonCode int64  `json:"reasonCode"`
	Reason     string `json:"reason,omitempty"`
}
type cliSub struct {
	SubNo       string `json:"subNo"`
	ChannelID   string `json:"channelId"`
	ChannelType int64  `json:"channelType"`
	Param       string `json:"param,omitempty"`
}

func (m kvm) cliHeader() cliHeader {
	f := m.framer()
	return cliHeader{NoPersist: f.NoPersist, RedDot: f.RedDot, SyncOnce: f.SyncOnce, Dup: f.DUP, End: f.End}
}

func c24In(m kvm) string {
	rid := m.s("rid")
	msg := cliMsg{Jsonrpc: "2.0", ID: rid}
	switch m["t"] {
	case "connect":
		msg.Method = jsonrpc.MethodConnect
		msg.Params = cliConnect{Header: m.cliHeader(), Version: m.i("ver"), ClientKey: m.s("ckey"), DeviceID: m.s("dev"), DeviceFlag: m.i("dflag"), ClientTimestamp: m.i("ts"), UID: m.s("uid"), Token: m.s("tok")}
	case "send":
		st := m["set"]
		if len(st) != 4 {
			return "bad-op"
		}
		msg.Method = jsonrpc.MethodSend
		msg.Params = cliSend{Header: m.cliHeader(), Setting: cliSetting{Receipt: st[0] == '1', Signal: st[1] == '1', Stream: st[2] == '1', Topic: st[3] == '1'},
			MsgKey: m.s("mk"), Expire: uint32(m.u("exp")), ClientMsgNo: m.s("no"), StreamNo: m.s("sno"), ChannelID: m.s("ch"), ChannelType: m.i("ct"), Topic: m.s("top"), Payload: m.b("pl")}
	case "ping":
		msg.Method = jsonrpc.MethodPing
		if m["pp"] == "1" {
			msg.Params = struct{}{}
		}
	case "disconnect":
		msg.Method = jsonrpc.MethodDisconnect
		msg.Params = cliDisconnect{ReasonCode: m.i("rc"), Reason: m.s("reason")}
	case "recvack": // a notification: carries no id
		msg.ID = ""
		msg.Method = jsonrpc.MethodRecvAck
		msg.Params = cliRecvAck{Header: m.cliHeader(), MessageID: m.s("mid"), MessageSeq: m.u("mseq")}
	case "subscribe":
		msg.Method = jsonrpc.MethodSubscribe
		msg.Params = cliSub{SubNo: m.s("sub"), ChannelID: m.s("ch"), ChannelType: m.i("ct"), Param: m.s("param")}
	case "unsubscribe":
		msg.Method = jsonrpc.MethodUnsubscribe
		msg.Params = cliSub{SubNo: m.s("sub"), ChannelID: m.s("ch"), ChannelType: m.i("ct")}
	default:
		return "bad-op"
	}
	text, err := jsonrpc.Encode(msg)
	if err != nil {
		return "err:encode"
	}
	dec, _, err := jsonrpc.Decode(json.NewDecoder(bytes.NewReader(text)))
	if err != nil {
		return "undecodable:" + c24ErrClass(err) + " gw=" + hs(gwDecode(text))
	}
	fr, id, err := jsonrpc.ToFrame(dec)
	res := ""
	if err != nil {
		res = "err:" + c24ErrClass(err)
	} else {
		res = fmt.Sprintf("%s rid=%s", frameStr(fr), hs(id))
	}
	// gateway adapters: same frame, whole text consumed, reply token = request id
	want := "err || err"
	if err == nil {
		one := fmt.Sprintf("%s n=%d tok=%s", frameStr(fr), len(text), hs(id))
		want = one + " || " + one
	}
	gw := "1"
	if got := gwDecode(text); got != want {
		gw = "0:" + hs(got)
	}
	return res + " gw=" + gw
}

func c24Det(m kvm) string {
	p := &jsonrpc.Probe{}
	switch m["jv"] {
	case "absent":
	case "v2":
		p.Jsonrpc = json.RawMessage(`"2.0"`)
	case "v1":
		p.Jsonrpc = json.RawMessage(`"1.0"`)
	case "num":
		p.Jsonrpc = json.RawMessage(`2`)
	case "null":
		p.Jsonrpc = json.RawMessage(`null`)
	default:
		return "bad-op"
	}
	switch m["id"] {
	case "absent":
	case "empty":
		p.ID = json.RawMessage(``)
	case "null":
		p.ID = json.RawMessage(`null`)
	case "str":
		p.ID = json.RawMessage(`"abc"`)
	case "num":
		p.ID = json.RawMessage(`7`)
	default:
		return "bad-op"
	}
	if m["m"] != "none" {
		p.Method = m["m"]
	}
	if m["r"] == "1" {
		p.Result = json.RawMessage(`{}`)
	}
	if m["e"] == "1" {
		p.Error = json.RawMessage(`{"code":1,"message":"m"}`)
	}
	t, v, err := jsonrpc.VerifDetermine(p)
	return fmt.Sprintf("type=%d ver=%s err=%s", t, hs(v), c24ErrClass(err))
}

var c24GoodParams = map[string]string{
	"connect":     `{"uid":"u1","token":"t1","deviceFlag":1,"version":4,"header":{"noPersist":true}}`,
	"send":        `{"channelId":"c1","channelType":2,"payload":"aGVsbG8=","clientMsgNo":"n1","setting":{"topic":true},"topic":"tp"}`,
	"recvack":     `{"messageId":"123","messageSeq":9,"header":{"redDot":true}}`,
	"subscribe":   `{"subNo":"s","channelId":"c","channelType":1}`,
	"unsubscribe": `{"subNo":"s","channelId":"c","channelType":1}`,
	"ping":        `{}`,
	"disconnect":  `{"reasonCode":2,"reason":"bye"}`,
	"recv":        `{"messageId":"5","messageSeq":6,"timestamp":7,"channelId":"c","channelType":1,"fromUid":"f","payload":"aGk="}`,
	"event":       `{"id":"e1","type":"t","timestamp":3,"data":"d"}`,
}

var c24BadParams = map[string]string{
	"connect": `{"uid":5}`, "send": `{"channelType":"x"}`, "recvack": `{"messageSeq":"x"}`, "subscribe": `{"channelType":"x"}`, "unsubscribe": `{"subNo":1}`,
	"ping": `{"x":1}`, "disconnect": `{"reasonCode":"x"}`, "recv": `{"timestamp":"x"}`, "event": `{"timestamp":"x"}`,
}

func c24DocText(m kvm) ([]byte, bool) {
	var parts []string
	switch m["jv"] {
	case "absent":
	case "v2":
		parts = append(parts, `"jsonrpc":"2.0"`)
	case "v1":
		parts = append(parts, `"jsonrpc":"1.0"`)
	case "num":
		parts = append(parts, `"jsonrpc":2`)
	case "null":
		parts = append(parts, `"jsonrpc":null`)
	default:
		return nil, false
	}
	switch m["id"] {
	case "absent":
	case "null":
		parts = append(parts, `"id":null`)
	case "str":
		parts = append(parts, `"id":"req-1"`)
	case "num":
		parts = append(parts, `"id":7`)
	case "emptystr":
		parts = append(parts, `"id":""`)
	case "obj":
		parts = append(parts, `"id":{"a":1}`)
	default:
		return nil, false
	}
	method := m["m"]
	switch method {
	case "absent":
	case "num":
		parts = append(parts, `"method":5`)
	case "emptystr":
		parts = append(parts, `"method":""`)
	default:
		ok := false
		for _, k := range c24Methods {
			ok = ok || k == method
		}
		if !ok {
			return nil, false
		}
		parts = append(parts, `"method":"`+method+`"`)
	}
	switch m["p"] {
	case "absent":
	case "null":
		parts = append(parts, `"params":null`)
	case "good":
		g, ok := c24GoodParams[method]
		if !ok {
			g = `{"a":1}`
		}
		parts = append(parts, `"params":`+g)
	case "badtype":
		g, ok := c24BadParams[method]
		if !ok {
			g = `{"a":"x"}`
		}
		parts = append(parts, `"params":`+g)
	case "arr":
		parts = append(parts, `"params":[1,2]`)
	case "str":
		parts = append(parts, `"params":"p"`)
	case "emptyobj":
		parts = append(parts, `"params":{}`)
	default:
		return nil, false
	}
	switch m["r"] {
	case "absent":
	case "null":
		parts = append(parts, `"result":null`)
	case "obj":
		parts = append(parts, `"result":{"ok":true}`)
	default:
		return nil, false
	}
	switch m["e"] {
	case "absent":
	case "null":
		parts = append(parts, `"error":null`)
	case "obj":
		parts = append(parts, `"error":{"code":3,"message":"boom"}`)
	case "str":
		parts = append(parts, `"error":"boom"`)
	default:
		return nil, false
	}
	return []byte("{" + strings.Join(parts, ",") + "}"), true
}

// c24DecodeSummary: Decode + ToFrame + both adapters.  Every result must be a well-formed message or an error.
func c24DecodeSummary(text []byte, detailed bool) string {
	dec, _, err := jsonrpc.Decode(json.NewDecoder(bytes.NewReader(text)))
	var s string
	if err != nil {
		if dec != nil {
			return "MALFORMED message-and-error"
		}
		s = "err:" + c24ErrClass(err)
	} else {
		k := msgKind(dec)
		if strings.HasPrefix(k, "UNEXPECTED") || k == "NIL" {
			return "MALFORMED " + k
		}
		s = "ok:" + k
		fr, id, terr := jsonrpc.ToFrame(dec)
		if terr != nil {
			if fr != nil {
				return "MALFORMED frame-and-error"
			}
			s += " frame=err:" + c24ErrClass(terr)
		} else {
			if fr == nil {
				return "MALFORMED nil-frame"
			}
			if detailed {
				s += " frame=" + strings.Fields(frameStr(fr))[0] + " rid=" + hs(id)
			} else {
				s += " frame=" + strings.Fields(frameStr(fr))[0]
			}
		}
	}
	gw := gwDecode(text)
	// canonical, compact: outcome class of each adapter
	cls := func(x string) string {
		switch {
		case x == "err":
			return "err"
		case strings.HasPrefix(x, "none/"):
			return "none"
		default:
			return "frame:" + strings.Fields(x)[0]
		}
	}
	ab := strings.SplitN(gw, " || ", 2)
	sort.Strings(nil)
	return s + " gwj=" + cls(ab[0]) + " gww=" + cls(ab[1])
}

func c24Multi(m kvm) string {
	sep, ok := map[string]string{"none": "", "sp": " ", "nl": "\n", "crlf": "\r\n"}[m["sep"]]
	if !ok {
		return "bad-op"
	}
	cut, err := strconv.Atoi(m["cut"])
	if err != nil {
		return "bad-op"
	}
	parts := strings.Split(m["m"], ",")
	var buf []byte
	for i, p := range parts {
		q := strings.Split(p, ":")
		k, err := strconv.Atoi(q[0])
		if err != nil || len(q) != 4 || k < 0 || k >= len(c24Pool) || q[1] != c24Pool[k].kind || q[2] != Hex([]byte(c24Pool[k].rid)) || q[3] != strconv.Itoa(len(c24Pool[k].text)) {
			return "bad-op"
		}
		t := c24Pool[k].text
		if i == len(parts)-1 && cut >= 0 {
			if cut < 1 || cut >= len(t) || m["trail"] == "1" {
				return "bad-op"
			}
			t = t[:cut]
		}
		if i > 0 {
			buf = append(buf, sep...)
		}
		buf = append(buf, t...)
	}
	if m["trail"] == "1" {
		buf = append(buf, sep...)
	}
	run := func(dec func(session.Session, []byte) ([]frame.Frame, int, error), take func(session.Session, int) []string, s session.Session) string {
		rest := buf
		var out []string
		for call := 0; call < 12 && len(rest) > 0; call++ {
			frames, n, err := dec(s, rest)
			if err != nil {
				out = append(out, "err")
				break
			}
			if len(frames) == 0 || n <= 0 {
				break
			}
			if n > len(rest) {
				out = append(out, "overrun")
				break
			}
			for _, fr := range frames {
				out = append(out, fmt.Sprintf("%s:%s:%d", strings.Fields(frameStr(fr))[0], hs(strings.Join(take(s, 10), ",")), n))
			}
			rest = rest[n:]
		}
		return fmt.Sprintf("[%s] rest=%d", strings.Join(out, "|"), len(rest))
	}
	ja := gwjson.New()
	s1 := newSess("")
	_ = ja.OnOpen(s1)
	wa := wsmux.New()
	return "j=" + run(ja.Decode, ja.TakeReplyTokens, s1) + " w=" + run(wa.Decode, wa.TakeReplyTokens, newSess(""))
}

//go:build verif

package main

import (
	"context"
	"errors"
	"fmt"
	"sort"
	"strconv"
	"strings"
	"time"

	"github.com/WuKongIM/WuKongIM/internal/usecase/conversation"
	metadb "github.com/WuKongIM/WuKongIM/pkg/db/meta"
)

func init() {
	Register(&Prop{Gen: genC34, NewRunner: func() Runner { return newC34Runner() }})
}

const (
	c34UID  = "u1"
	c34Type = int64(2)
)

type c34Head struct {
	outcome                      string
	committed, retention, ownSnd uint64
	last                         *uint64
}

// c34World is the fake DirectoryStore + MembershipMutationStore + HeadHydrator.
// The store methods implement the monotone mutator contract of
// pkg/db/meta/table_user_channel_membership.go (AdvanceRead = max, Hide = max +
// clear activation, Activate = max; missing row = ErrNotFound; tombstone = no-op).
type c34World struct {
	rows  map[string]*metadb.UserChannelMembership
	heads map[string]*c34Head
	now   int64
}

func (w *c34World) head(c string) *c34Head {
	h, ok := w.heads[c]
	if !ok {
		h = &c34Head{outcome: "ok"}
		w.heads[c] = h
	}
	return h
}

func (w *c34World) ListUserChannelMembershipPage(_ context.Context, uid string, _ metadb.UserChannelMembershipCursor, _ int) ([]metadb.UserChannelMembership, metadb.UserChannelMembershipCursor, bool, error) {
	var names []string
	for c := range w.rows {
		names = append(names, c)
	}
	sort.Strings(names)
	out := make([]metadb.UserChannelMembership, 0, len(names))
	for _, c := range names {
		out = append(out, *w.rows[c])
	}
	return out, metadb.UserChannelMembershipCursor{}, true, nil
}

func (w *c34World) GetUserChannelMembership(_ context.Context, uid, channelID string, channelType int64) (metadb.UserChannelMembership, bool, error) {
	r, ok := w.rows[channelID]
	if !ok || uid != c34UID || channelType != c34Type {
		return metadb.UserChannelMembership{}, false, nil
	}
	return *r, true, nil
}

func (w *c34World) mutate(uid, channelID string, channelType int64, f func(*metadb.UserChannelMembership)) error {
	r, ok := w.rows[channelID]
	if !ok || uid != c34UID || channelType != c34Type {
		return metadb.ErrNotFound
	}
	if r.Tombstone {
		return nil
	}
	f(r)
	return nil
}

func (w *c34World) AdvanceUserChannelMembershipReadSeq(_ context.Context, uid, channelID string, channelType int64, readSeq uint64, updatedAt int64) error {
	if updatedAt < 0 {
		return metadb.ErrInvalidArgument
	}
	return w.mutate(uid, channelID, channelType, func(r *metadb.UserChannelMembership) {
		if readSeq > r.ReadSeq {
			r.ReadSeq = readSeq
		}
	})
}

func (w *c34World) HideUserChannelMembership(_ context.Context, uid, channelID string, channelType int64, deletedToSeq uint64, updatedAt int64) error {
	if updatedAt < 0 {
		return metadb.ErrInvalidArgument
	}
	return w.mutate(uid, channelID, channelType, func(r *metadb.UserChannelMembership) {
		if deletedToSeq > r.DeletedToSeq {
			r.DeletedToSeq = deletedToSeq
		}
		r.ActivatedAt = 0
	})
}

func (w *c34World) ActivateUserChannelMembership(_ context.Context, uid, channelID string, channelType int64, activatedAt, updatedAt int64) error {
	if activatedAt <= 0 || updatedAt < 0 {
		return metadb.ErrInvalidArgument
	}
	return w.mutate(uid, channelID, channelType, func(r *metadb.UserChannelMembership) {
		if activatedAt > r.ActivatedAt {
			r.ActivatedAt = activatedAt
		}
	})
}

func (w *c34World) HydrateConversationHeads(_ context.Context, uid string, ms []metadb.UserChannelMembership) ([]conversation.HydrationResult, error) {
	out := make([]conversation.HydrationResult, len(ms))
	for i, m := range ms {
		h := w.head(m.ChannelID)
		res := conversation.HydrationResult{
			Key:              conversation.ConversationKey{ChannelID: m.ChannelID, ChannelType: m.ChannelType},
			LastCommittedSeq: h.committed, RetentionThroughSeq: h.retention, CurrentUserLastSendSeq: h.ownSnd,
		}
		switch h.outcome {
		case "ok":
			res.Outcome = conversation.HydrationOK
		case "nvm":
			res.Outcome = conversation.HydrationNoVisibleMessage
		case "del":
			res.Outcome = conversation.HydrationDelete
		case "retry":
			res.Outcome = conversation.HydrationRetryable
		default:
			res.Outcome = 0
		}
		if h.last != nil {
			res.LastMessage = &conversation.LastMessage{MessageID: 1000 + *h.last, MessageSeq: *h.last, FromUID: "x", Payload: []byte("p")}
		}
		out[i] = res
	}
	return out, nil
}

type c34Runner struct {
	w   *c34World
	app *conversation.App
}

func newC34Runner() *c34Runner {
	w := &c34World{rows: map[string]*metadb.UserChannelMembership{}, heads: map[string]*c34Head{}, now: 1}
	app := conversation.New(conversation.Options{
		Directory: w, Hydrator: w, MembershipMutations: w,
		Now: func() time.Time { return time.Unix(0, w.now) },
	})
	return &c34Runner{w: w, app: app}
}

func (r *c34Runner) Close() {}

func (r *c34Runner) rowStr(c string) string {
	m, ok := r.w.rows[c]
	if !ok {
		return "none"
	}
	t := "0"
	if m.Tombstone {
		t = "1"
	}
	return fmt.Sprintf("%d:%d:%d:%d:%s", m.JoinSeq, m.ReadSeq, m.DeletedToSeq, m.ActivatedAt, t)
}

func c34Status(err error) string {
	switch {
	case err == nil:
		return "ok"
	case errors.Is(err, metadb.ErrNotFound):
		return "notfound"
	case errors.Is(err, conversation.ErrRouteNotReady):
		return "notready"
	}
	return "other"
}

func c34JoinOr(xs []string) string {
	if len(xs) == 0 {
		return "-"
	}
	sort.Strings(xs)
	return strings.Join(xs, ",")
}

func c34Listing(res conversation.ListResult, err error) string {
	if err != nil {
		return "err"
	}
	var items, dels, unres []string
	for _, it := range res.Items {
		last := "-"
		if it.LastMessage != nil {
			last = strconv.FormatUint(it.LastMessage.MessageSeq, 10)
		}
		items = append(items, fmt.Sprintf("%s:%d:%s:%d:%d:%d:%d", it.ChannelID, it.Unread, last, it.JoinSeq, it.ReadSeq, it.DeletedToSeq, it.ActiveAt))
	}
	for _, k := range res.Deletes {
		dels = append(dels, k.ChannelID)
	}
	for _, k := range res.Unresolved {
		unres = append(unres, k.ChannelID)
	}
	return "items=" + c34JoinOr(items) + " deletes=" + c34JoinOr(dels) + " unresolved=" + c34JoinOr(unres)
}

func (r *c34Runner) Step(op string) string {
	f := strings.Fields(op)
	if len(f) == 0 {
		return "bad-op"
	}
	u64 := func(s string) (uint64, bool) { v, err := strconv.ParseUint(s, 10, 64); return v, err == nil }
	i64 := func(s string) (int64, bool) { v, err := strconv.ParseInt(s, 10, 64); return v, err == nil }
	ctx := context.Background()
	switch {
	case f[0] == "row" && len(f) == 7:
		j, o1 := u64(f[2])
		rd, o2 := u64(f[3])
		d, o3 := u64(f[4])
		a, o4 := i64(f[5])
		if !(o1 && o2 && o3 && o4) || (f[6] != "0" && f[6] != "1") {
			return "bad-op"
		}
		r.w.rows[f[1]] = &metadb.UserChannelMembership{UID: c34UID, ChannelID: f[1], ChannelType: c34Type,
			JoinSeq: j, ReadSeq: rd, DeletedToSeq: d, ActivatedAt: a, Tombstone: f[6] == "1"}
		return "ok"
	case f[0] == "norow" && len(f) == 2:
		delete(r.w.rows, f[1])
		return "ok"
	case f[0] == "head" && len(f) == 7:
		l, o1 := u64(f[3])
		rt, o2 := u64(f[4])
		s, o3 := u64(f[5])
		if !(o1 && o2 && o3) {
			return "bad-op"
		}
		switch f[2] {
		case "ok", "nvm", "del", "retry", "bad":
		default:
			return "bad-op"
		}
		h := &c34Head{outcome: f[2], committed: l, retention: rt, ownSnd: s}
		if f[6] != "-" {
			v, ok := u64(f[6])
			if !ok {
				return "bad-op"
			}
			h.last = &v
		}
		r.w.heads[f[1]] = h
		return "ok"
	case f[0] == "send" && len(f) == 3:
		h := r.w.head(f[1])
		h.committed++
		v := h.committed
		h.last = &v
		if f[2] == "1" {
			h.ownSnd = v
		}
		return "ok"
	case f[0] == "retain" && len(f) == 3:
		x, ok := u64(f[2])
		if !ok {
			return "bad-op"
		}
		h := r.w.head(f[1])
		if x > h.retention {
			h.retention = x
		}
		return "ok"
	case f[0] == "clear" && len(f) == 2:
		err := r.app.ClearUnread(ctx, conversation.ClearUnreadCommand{UID: c34UID, ChannelID: f[1], ChannelType: uint8(c34Type)})
		return c34Status(err) + " " + r.rowStr(f[1])
	case f[0] == "set" && len(f) == 3:
		n, ok := i64(f[2])
		if !ok {
			return "bad-op"
		}
		err := r.app.SetUnread(ctx, conversation.SetUnreadCommand{UID: c34UID, ChannelID: f[1], ChannelType: uint8(c34Type), Unread: int(n)})
		return c34Status(err) + " " + r.rowStr(f[1])
	case f[0] == "del" && len(f) == 2:
		err := r.app.DeleteConversation(ctx, conversation.DeleteConversationCommand{UID: c34UID, ChannelID: f[1], ChannelType: uint8(c34Type)})
		return c34Status(err) + " " + r.rowStr(f[1])
	case f[0] == "act" && len(f) == 3:
		t, ok := i64(f[2])
		if !ok {
			return "bad-op"
		}
		r.w.now = t
		err := r.app.ActivateConversation(ctx, conversation.ActivateConversationCommand{UID: c34UID, ChannelID: f[1], ChannelType: uint8(c34Type)})
		r.w.now = 1
		return c34Status(err) + " " + r.rowStr(f[1])
	case f[0] == "list" && len(f) == 1:
		return c34Listing(r.app.List(ctx, conversation.ListRequest{UID: c34UID}))
	case f[0] == "retry" && len(f) == 2:
		var keys []conversation.ConversationKey
		for _, c := range strings.Split(f[1], ",") {
			if c != "" {
				keys = append(keys, conversation.ConversationKey{ChannelID: c, ChannelType: c34Type})
			}
		}
		if len(keys) == 0 {
			return "bad-op"
		}
		return c34Listing(r.app.Retry(ctx, conversation.RetryRequest{UID: c34UID, Keys: keys}))
	}
	return "bad-op"
}

// -------------------------------------------------------------- generator ---

var c34Chans = []string{"c1", "c2", "c3", "c4"}

// c34Seq draws a sequence number near the interesting boundaries of a head at `l`.
func c34Seq(g *Gen, l uint64) uint64 {
	switch g.R.Pick(20, 30, 20, 15, 15) {
	case 0:
		return 0
	case 1: // at or just around the committed tail
		d := uint64(g.R.Intn(3))
		if g.R.Bool() && l >= d {
			return l - d
		}
		return l + d
	case 2:
		if l == 0 {
			return 0
		}
		return uint64(g.R.Intn(int(min(l, 1<<30)))) + 1
	case 3:
		return uint64(g.R.Intn(8))
	default:
		return l + uint64(g.R.Range(1, 40))
	}
}

// c34Low is c34Seq biased below the tail (so that unread counts are mostly positive).
func c34Low(g *Gen, l uint64) uint64 {
	switch g.R.Pick(30, 40, 30) {
	case 0:
		return 0
	case 1:
		if l == 0 {
			return 0
		}
		return uint64(g.R.Intn(int(min(l, 1<<30)) + 1))
	default:
		return c34Seq(g, l)
	}
}

func genC34(g *Gen) {
	for n := 0; n < g.N; n++ {
		g.Case()
		committed := map[string]uint64{}
		steps := g.R.Range(8, 40)
		nch := g.R.Range(1, len(c34Chans))
		for i := 0; i < steps+2*nch; i++ {
			c := c34Chans[g.R.Intn(nch)]
			l := committed[c]
			kind := g.R.Pick(6, 2, 8, 18, 6, 11, 14, 7, 6, 15, 5)
			if i < 2*nch { // every channel in play starts with a head and (mostly) a row
				c = c34Chans[i/2]
				l = committed[c]
				kind = 2
				if i%2 == 1 {
					kind = 0
					if g.R.Chance(8) {
						continue
					}
				}
			}
			switch kind {
			case 0:
				tomb := 0
				if g.R.Chance(10) {
					tomb = 1
					g.Count("row:tombstone")
				}
				act := int64(0)
				if g.R.Chance(40) {
					act = int64(g.R.Range(1, 1000))
				} else if g.R.Chance(10) {
					act = -5
				}
				j := c34Low(g, l)
				if j > l {
					g.Count("row:join-after-tail")
				}
				g.Op("row", "%s %d %d %d %d %d", c, j, c34Low(g, l), c34Low(g, l), act, tomb)
			case 1:
				g.Op("norow", "%s", c)
			case 2:
				out := []string{"ok", "ok", "ok", "nvm", "del", "retry", "bad"}[g.R.Pick(50, 10, 10, 12, 7, 8, 3)]
				nl := c34Seq(g, l)
				if g.R.Chance(50) {
					nl = uint64(g.R.Range(1, 60))
				}
				if g.R.Chance(6) {
					nl = ^uint64(0) - uint64(g.R.Intn(3)) // top of the range
					g.Count("head:max-uint64")
				}
				last := "-"
				if g.R.Chance(80) {
					ls := nl
					if g.R.Chance(25) {
						ls = c34Seq(g, nl)
					}
					last = strconv.FormatUint(ls, 10)
				}
				committed[c] = nl
				g.Count("head:" + out)
				g.Op("head", "%s %s %d %d %d %s", c, out, nl, c34Low(g, nl), c34Low(g, nl), last)
			case 3:
				if l == ^uint64(0) {
					continue
				}
				own := 0
				if g.R.Chance(30) {
					own = 1
				}
				committed[c] = l + 1
				g.Op("send", "%s %d", c, own)
			case 4:
				g.Op("retain", "%s %d", c, c34Seq(g, l))
			case 5:
				g.Op("clear", "%s", c)
			case 6:
				nn := int64(g.R.Intn(6))
				switch g.R.Pick(60, 15, 15, 10) {
				case 1:
					nn = int64(l)
					if l > 1<<62 {
						nn = 1 << 62
					}
				case 2:
					nn = int64(min(l, 1<<62)) + int64(g.R.Range(-2, 2))
				case 3:
					nn = -1
				}
				g.Op("set", "%s %d", c, nn)
			case 7:
				g.Op("del", "%s", c)
			case 8:
				t := int64(g.R.Range(1, 2000))
				if g.R.Chance(8) {
					t = 0
				}
				g.Op("act", "%s %d", c, t)
			case 9:
				g.Op("list", "")
			default:
				k := g.R.Range(1, 3)
				var ks []string
				for j := 0; j < k; j++ {
					ks = append(ks, c34Chans[g.R.Intn(len(c34Chans))])
				}
				g.Op("retry", "%s", strings.Join(ks, ","))
			}
		}
		g.Op("list", "")
	}
}

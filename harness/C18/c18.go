//go:build verif

package main

// C18 — Controller state machine applies commands deterministically.
//
// ops (one command log per case):
//
//	e <idx> <term> <hex>   append one committed entry (hex = command.Encode bytes) to the case's log
//	                                                   -> e<k> <kind> | e<k> undecodable
//	run <tok> <tok> ...    fresh state machine on a fresh state file; tok = `a-b` (ApplyBatch of log
//	                       positions [a,b)) or `r` (restart: new StateMachine, Load from the file) or
//	                       `s<k>@<m>` (install, through the raft apply scheduler, a snapshot whose payload
//	                       is the state after k entries and whose metadata index is that of entry m-1)
//	                                                   -> I=<st> B[<res>;...]=<st> R=<st> ...
//	    <st>  = <logical digest>/<revision>/<applied index>/<F>/<V>
//	            logical digest = sha256 of the canonical JSON of Snapshot() with AppliedRaftIndex
//	            and Checksum cleared; F = 1 file decodes to exactly the published state, 0 it does
//	            not, - no file; V = 1 Snapshot().Validate() passes, 0 fails, - uninitialised
//	    <res> = <C|U|N|R|?>:<reason|->:<revision>:<applied>:<task transition digest|->
//	contract               per entry, on the candidate state the one-at-a-time run reaches: the handler's
//	                       outcome must not depend on the published state, and Noop/Rejected must leave
//	                       the candidate untouched   -> <kind>:<O>:<reason>:<kept|CHANGED|->:<indep|DEP> ...

import (
	"context"
	"crypto/sha256"
	"encoding/hex"
	"encoding/json"
	"errors"
	"fmt"
	"os"
	"path/filepath"
	"strconv"
	"strings"
	"time"

	"github.com/WuKongIM/WuKongIM/pkg/controller/command"
	"github.com/WuKongIM/WuKongIM/pkg/controller/fsm"
	craft "github.com/WuKongIM/WuKongIM/pkg/controller/raft"
	"github.com/WuKongIM/WuKongIM/pkg/controller/state"
	"github.com/WuKongIM/WuKongIM/pkg/controller/statefile"
)

func init() {
	Register(&Prop{Gen: genC18, NewRunner: func() Runner { return newC18Runner() }})
}

// --------------------------------------------------------------- runner ---

type c18Entry struct {
	idx, term uint64
	cmd       command.Command
	ok        bool
}

type c18Runner struct {
	root string
	log  []c18Entry
	runs int
}

func newC18Runner() *c18Runner {
	root := os.Getenv("VERIF_SCRATCH")
	if root == "" {
		root, _ = os.Getwd()
	}
	dir, err := os.MkdirTemp(root, "c18-")
	if err != nil {
		panic(err)
	}
	return &c18Runner{root: dir}
}

func (r *c18Runner) Close() { _ = os.RemoveAll(r.root) }

func c18Hash(b []byte, n int) string {
	h := sha256.Sum256(b)
	return hex.EncodeToString(h[:])[:n]
}

func c18Logical(st state.ClusterState) string {
	st = st.Clone()
	st.AppliedRaftIndex = 0
	st.Checksum = ""
	b, err := json.Marshal(st)
	if err != nil {
		return "unmarshalable"
	}
	return c18Hash(b, 12)
}

func c18Full(st state.ClusterState) string {
	b, err := json.Marshal(st)
	if err != nil {
		return "unmarshalable"
	}
	return c18Hash(b, 16)
}

func (r *c18Runner) stLine(sm *fsm.StateMachine, path string) string {
	snap := sm.Snapshot(context.Background())
	f := "-"
	if loaded, err := statefile.New(path).Load(context.Background()); err == nil {
		if c18Full(loaded) == c18Full(snap) {
			f = "1"
		} else {
			f = "0"
		}
	} else if !errors.Is(err, os.ErrNotExist) {
		f = "0"
	}
	v := "-"
	if snap.Revision != 0 {
		if snap.Validate() == nil {
			v = "1"
		} else {
			v = "0"
		}
	}
	return fmt.Sprintf("%s/%d/%d/%s/%s", c18Logical(snap), snap.Revision, snap.AppliedRaftIndex, f, v)
}

func c18Res(res fsm.ApplyResult) string {
	o := "?"
	n := 0
	if res.Changed {
		o, n = "C", n+1
	}
	if res.Updated {
		o, n = "U", n+1
	}
	if res.Noop {
		o, n = "N", n+1
	}
	if res.Rejected {
		o, n = "R", n+1
	}
	if n != 1 {
		o = "?"
	}
	reason := res.Reason
	if reason == "" {
		reason = "-"
	}
	tt := "-"
	if len(res.TaskTransitions) > 0 {
		b, _ := json.Marshal(res.TaskTransitions)
		tt = c18Hash(b, 8)
	}
	return fmt.Sprintf("%s:%s:%d:%d:%s", o, strings.ReplaceAll(reason, ":", "_"), res.Revision, res.AppliedRaftIndex, tt)
}

func (r *c18Runner) Step(op string) string {
	f := strings.Fields(op)
	if len(f) == 0 {
		return "bad-op"
	}
	switch f[0] {
	case "e":
		if len(f) != 4 {
			return "bad-op"
		}
		idx, e1 := strconv.ParseUint(f[1], 10, 64)
		term, e2 := strconv.ParseUint(f[2], 10, 64)
		if e1 != nil || e2 != nil {
			return "bad-op"
		}
		cmd, err := command.Decode(UnHex(f[3]))
		r.log = append(r.log, c18Entry{idx: idx, term: term, cmd: cmd, ok: err == nil})
		if err != nil {
			return fmt.Sprintf("e%d undecodable", len(r.log)-1)
		}
		return fmt.Sprintf("e%d %s", len(r.log)-1, cmd.Kind)
	case "run":
		if len(f) < 2 {
			return "bad-op"
		}
		type tok struct{ a, b int }
		var toks []tok
		for _, t := range f[1:] {
			if t == "r" {
				toks = append(toks, tok{-1, -1})
				continue
			}
			if strings.HasPrefix(t, "s") {
				// s<k>@<m>: install a snapshot whose payload is the one-at-a-time state after k
				// entries and whose metadata index is the index of entry m-1 (0 if m = 0)
				p := strings.Split(t[1:], "@")
				if len(p) != 2 {
					return "bad-op"
				}
				k, e1 := strconv.Atoi(p[0])
				m, e2 := strconv.Atoi(p[1])
				if e1 != nil || e2 != nil || k < 0 || m < 0 || k > len(r.log) || m > len(r.log) {
					return "bad-op"
				}
				for _, e := range r.log[:k] {
					if !e.ok {
						return "bad-op"
					}
				}
				toks = append(toks, tok{-2 - k, m})
				continue
			}
			p := strings.Split(t, "-")
			if len(p) != 2 {
				return "bad-op"
			}
			a, e1 := strconv.Atoi(p[0])
			b, e2 := strconv.Atoi(p[1])
			if e1 != nil || e2 != nil || a < 0 || b < a || b > len(r.log) {
				return "bad-op"
			}
			for _, e := range r.log[a:b] {
				if !e.ok {
					return "bad-op"
				}
			}
			toks = append(toks, tok{a, b})
		}
		r.runs++
		dir := filepath.Join(r.root, fmt.Sprintf("run-%d", r.runs))
		if err := os.MkdirAll(dir, 0o700); err != nil {
			return "ERR:mkdir"
		}
		defer os.RemoveAll(dir)
		path := filepath.Join(dir, "cluster-state.json")
		ctx := context.Background()
		open := func() (*fsm.StateMachine, string) {
			sm, err := fsm.New(statefile.New(path))
			if err != nil {
				return nil, "ERR:new"
			}
			if err := sm.Load(ctx); err != nil {
				return nil, "ERR:load"
			}
			return sm, ""
		}
		sm, e := open()
		if sm == nil {
			return e
		}
		out := []string{"I=" + r.stLine(sm, path)}
		for _, t := range toks {
			if t.a <= -2 {
				out = append(out, r.snapshotTok(sm, path, -2-t.a, t.b))
				continue
			}
			if t.a < 0 {
				sm, e = open()
				if sm == nil {
					return strings.Join(append(out, e), " ")
				}
				out = append(out, "R="+r.stLine(sm, path))
				continue
			}
			var batch []fsm.AppliedCommand
			for _, en := range r.log[t.a:t.b] {
				batch = append(batch, fsm.AppliedCommand{Index: en.idx, Term: en.term, Command: en.cmd})
			}
			res, err := sm.ApplyBatch(ctx, batch)
			if err != nil {
				return strings.Join(append(out, "ERR:apply"), " ")
			}
			if len(res.Results) != len(batch) {
				return strings.Join(append(out, "ERR:result-count"), " ")
			}
			var rs []string
			for _, x := range res.Results {
				rs = append(rs, c18Res(x))
			}
			line := "B[" + strings.Join(rs, ";") + "]=" + r.stLine(sm, path)
			// BatchApplyResult.FinalState must be the published state
			if c18Full(res.FinalState) != c18Full(sm.Snapshot(ctx)) && res.FinalState.Revision != 0 {
				line += "!final"
			}
			out = append(out, line)
		}
		return strings.Join(out, " ")
	case "contract":
		if len(f) != 1 {
			return "bad-op"
		}
		return r.contractOp()
	}
	return "bad-op"
}

// snapshotTok installs, through the apply scheduler's snapshot path, a snapshot
// whose payload is Encode(state after the first k entries, applied one at a time on
// a scratch machine) and whose metadata index is the index of entry m-1.
func (r *c18Runner) snapshotTok(sm *fsm.StateMachine, path string, k, m int) string {
	ctx := context.Background()
	r.runs++
	dir := filepath.Join(r.root, fmt.Sprintf("snap-%d", r.runs))
	if err := os.MkdirAll(dir, 0o700); err != nil {
		return "ERR:mkdir"
	}
	defer os.RemoveAll(dir)
	src, err := fsm.New(statefile.New(filepath.Join(dir, "cluster-state.json")))
	if err != nil {
		return "ERR:new"
	}
	if err := src.Load(ctx); err != nil {
		return "ERR:load"
	}
	for _, en := range r.log[:k] {
		if _, err := src.ApplyBatch(ctx, []fsm.AppliedCommand{{Index: en.idx, Term: en.term, Command: en.cmd}}); err != nil {
			return "ERR:apply"
		}
	}
	snap := src.Snapshot(ctx)
	if snap.Revision == 0 {
		return "S=nosnap"
	}
	data, err := state.Encode(snap)
	if err != nil {
		return "ERR:encode"
	}
	var metaIdx, metaTerm uint64
	if m > 0 {
		metaIdx, metaTerm = r.log[m-1].idx, r.log[m-1].term
	}
	if err := craft.VerifInstallSnapshot(ctx, sm, data, metaIdx, metaTerm); err != nil {
		return "ERR:install"
	}
	return "S=" + r.stLine(sm, path)
}

// contractOp checks, for every entry of the log, the contract the batch theorems
// need from the command handlers (Lean: WK.C18.MutateContract): with the candidate
// state the one-at-a-time run reaches before the entry,
//   - the outcome and the resulting candidate do not depend on the PUBLISHED state
//     (the candidate itself / the empty state / the state after the first entry);
//   - a Noop or Rejected command leaves the candidate byte-for-byte unchanged.
//
// output per entry: <kind>:<C|U|N|R>:<reason>:<kept|CHANGED|->:<indep|DEP>
func (r *c18Runner) contractOp() string {
	r.runs++
	dir := filepath.Join(r.root, fmt.Sprintf("run-%d", r.runs))
	if err := os.MkdirAll(dir, 0o700); err != nil {
		return "ERR:mkdir"
	}
	defer os.RemoveAll(dir)
	ctx := context.Background()
	sm, err := fsm.New(statefile.New(filepath.Join(dir, "cluster-state.json")))
	if err != nil {
		return "ERR:new"
	}
	if err := sm.Load(ctx); err != nil {
		return "ERR:load"
	}
	var out []string
	var afterFirst *state.ClusterState
	for k, en := range r.log {
		if !en.ok {
			out = append(out, "undecodable")
			continue
		}
		cand := sm.Snapshot(ctx)
		pubs := []state.ClusterState{cand, {}}
		if afterFirst != nil {
			pubs = append(pubs, *afterFirst)
		}
		var first string
		var firstRes fsm.ApplyResult
		indep := "indep"
		kept := "-"
		for i, pub := range pubs {
			next, res := fsm.VerifApplyMutation(pub, cand, en.idx, en.term, en.cmd)
			res.Revision, res.AppliedRaftIndex = 0, 0
			sig := c18Res(res) + "|" + c18Full(next)
			if i == 0 {
				first, firstRes = sig, res
				if res.Noop || res.Rejected {
					kept = "kept"
				}
			} else if sig != first {
				indep = "DEP"
			}
			if (res.Noop || res.Rejected) && c18Full(next) != c18Full(cand) {
				kept = "CHANGED"
			}
		}
		parts := strings.Split(c18Res(firstRes), ":")
		out = append(out, fmt.Sprintf("%s:%s:%s:%s:%s", en.cmd.Kind, parts[0], parts[1], kept, indep))
		if _, err := sm.ApplyBatch(ctx, []fsm.AppliedCommand{{Index: en.idx, Term: en.term, Command: en.cmd}}); err != nil {
			return strings.Join(append(out, "ERR:apply"), " ")
		}
		if k == 0 {
			s := sm.Snapshot(ctx)
			afterFirst = &s
		}
	}
	if len(out) == 0 {
		return "empty"
	}
	return strings.Join(out, " ")
}

// ------------------------------------------------------------ generator ---

// The generator keeps its own rough picture of the cluster state (assuming its
// "valid" commands succeed) so that it can aim commands at existing nodes, slots
// and tasks with current or stale fences.  It never looks at the implementation.
type c18Task struct {
	id       string
	kind     state.TaskKind
	slot     uint32
	epoch    uint64
	attempt  uint32
	step     state.TaskStep
	phase    uint32
	src, tgt uint64
	peers    []uint64 // target peers
	partAtt  map[uint64]uint32
}

type c18Slot struct {
	peers  []uint64
	epoch  uint64
	leader uint64
}

type c18Shadow struct {
	inited   bool
	rev      uint64
	nodes    map[uint64]state.Node
	voters   []uint64
	slots    map[uint32]*c18Slot
	tasks    map[uint32]*c18Task
	slotCnt  uint32
	seq      int
	mcpOn    bool
	mcpOwner uint64
	clock    int64
	script   bool
	health   map[uint64]state.NodeHealthReport
}

func c18Node(id uint64, voter bool) state.Node {
	roles := []state.NodeRole{state.NodeRoleData}
	if voter {
		roles = []state.NodeRole{state.NodeRoleControllerVoter, state.NodeRoleData}
	}
	return state.Node{NodeID: id, Name: fmt.Sprintf("n%d", id), Addr: fmt.Sprintf("n%d:7000", id), Roles: roles,
		JoinState: state.NodeJoinStateActive, Status: state.NodeStatusAlive, CapacityWeight: 10}
}

func c18U64(v uint64) *uint64 { return &v }

func (s *c18Shadow) nodeIDs() []uint64 {
	var ids []uint64
	for id := uint64(1); id <= 12; id++ {
		if _, ok := s.nodes[id]; ok {
			ids = append(ids, id)
		}
	}
	return ids
}

func (s *c18Shadow) expRev(g *Gen, mode int) *uint64 {
	switch {
	case mode == 1: // stale
		g.Count("fence:stale-revision")
		if s.rev > 1 && g.R.Bool() {
			return c18U64(s.rev - 1)
		}
		return c18U64(s.rev + uint64(g.R.Range(1, 3)))
	case g.R.Chance(50):
		return c18U64(s.rev)
	}
	return nil
}

func c18Progress(peers []uint64) []state.TaskParticipantProgress {
	var out []state.TaskParticipantProgress
	for _, p := range peers {
		out = append(out, state.TaskParticipantProgress{NodeID: p, Status: state.TaskParticipantStatusPending})
	}
	return out
}

func c18Replace(peers []uint64, src, tgt uint64) []uint64 {
	out := append([]uint64(nil), peers...)
	for i, p := range out {
		if p == src {
			out[i] = tgt
		}
	}
	for i := range out {
		for j := i + 1; j < len(out); j++ {
			if out[j] < out[i] {
				out[i], out[j] = out[j], out[i]
			}
		}
	}
	return out
}

func c18Backup(rev uint64, variant int) *state.ScheduledBackupState {
	sb := &state.ScheduledBackupState{Revision: rev, ManagerSessionEpoch: 1,
		Plan: &state.BackupPlan{Revision: 1, Enabled: true, Store: state.BackupStoreConfig{Kind: state.BackupStoreKindFile},
			Cron: "0 3 * * *", TimeZone: "UTC", RetentionCount: 3, RateBytesPerSec: 1 << 20, WorkersPerNode: 1, MaxDurationMillis: 3600000,
			ScheduleCursorUnixMillis: 1750000000000, CreatedUnixMillis: 1750000000000, UpdatedUnixMillis: 1750000000000}}
	switch variant {
	case 1:
		sb.Plan.Store.CredentialCiphertext = []byte{} // empty but non-nil: omitted from the state file
	case 2:
		sb.History = []state.BackupTaskRecord{{ID: "h", Kind: "backup", Status: "succeeded", StartedUnixMillis: 1, CompletedUnixMillis: 2}}
	case 3:
		sb.Plan.RetentionCount = 0 // invalid
	case 4:
		sb.History = []state.BackupTaskRecord{}
	}
	return sb
}

// next returns one command and updates the shadow as if it succeeded (for the
// valid variants).  mode: 0 valid, 1 stale fence, 2 invalid payload.
func (s *c18Shadow) next(g *Gen) command.Command {
	s.seq++
	s.clock += int64(g.R.Range(0, 90))
	issued := time.Unix(1750000000+s.clock, 0).UTC()
	if g.R.Chance(12) {
		issued = time.Time{}
	}
	if g.R.Chance(6) {
		issued = time.Unix(1750000000+s.clock, 123456789).In(time.FixedZone("x", 8*3600))
	}
	mode := g.R.Pick(70, 15, 15)
	g.Count([]string{"mode:valid", "mode:stale", "mode:invalid"}[mode])
	cmd := command.Command{IssuedAt: issued}
	if !s.inited {
		if g.R.Chance(80) {
			return s.genInit(g, cmd, mode)
		}
	}
	if len(s.health) > 0 && g.R.Chance(9) {
		// an exact duplicate of a stored health report: Noop, and the stored report must stay untouched
		for _, hid := range s.nodeIDs() {
			if last, ok := s.health[hid]; ok {
				cp := last
				cmd.Kind, cmd.NodeHealth = command.KindReportNodeHealth, &cp
				if g.R.Bool() {
					break
				}
			}
		}
		g.Count("shape:duplicate-health-report")
		return cmd
	}
	// steer towards commands that can take effect in the state the shadow expects
	w := []int{3, 10, 4, 5, 12, 3, 1, 1, 1, 1, 1, 12, 4, 5, 5}
	freeSlot, moveTask, bootTask, anyTask := false, false, false, false
	for sl := uint32(1); sl <= s.slotCnt; sl++ {
		t := s.tasks[sl]
		if s.slots[sl] != nil && t == nil {
			freeSlot = true
		}
		if t != nil {
			anyTask = true
			if t.kind == state.TaskKindSlotReplicaMove {
				moveTask = true
			}
			if t.kind == state.TaskKindBootstrap {
				bootTask = true
			}
		}
	}
	if len(s.slots) == 0 {
		w[4] = 30
	}
	if freeSlot && len(s.nodes) > 3 {
		w[5] = 14
	}
	if moveTask {
		w[6], w[7] = 22, 10
	}
	if anyTask {
		w[8], w[9] = 9, 7
	}
	if bootTask {
		w[10] = 14
	}
	kind := g.R.Pick(w...)
	if s.script && g.R.Chance(75) {
		// follow the life cycle: bootstrap -> progress -> complete -> replica move -> phases -> commit
		switch {
		case len(s.slots) == 0:
			kind = 4
		case bootTask && g.R.Chance(60):
			kind = 10
		case bootTask:
			kind = 8
		case moveTask:
			kind = 6 + g.R.Pick(3, 1)
		case freeSlot && len(s.nodes) > 3:
			kind = 5
		case anyTask:
			kind = 8
		}
		g.Count("gen:scripted-step")
	}
	switch kind {
	case 0:
		return s.genInit(g, cmd, mode)
	case 1: // upsert node
		cmd.Kind = command.KindUpsertNode
		ids := s.nodeIDs()
		var n state.Node
		switch {
		case len(ids) > 0 && g.R.Chance(55):
			n = s.nodes[ids[g.R.Intn(len(ids))]]
			n.Roles = append([]state.NodeRole(nil), n.Roles...)
			switch g.R.Intn(4) {
			case 0:
				n.Status = []state.NodeStatus{state.NodeStatusAlive, state.NodeStatusSuspect, state.NodeStatusDown}[g.R.Intn(3)]
			case 1:
				n.CapacityWeight = uint32(g.R.Intn(4)) // 0 normalises to 1
			case 2:
				n.Name = fmt.Sprintf("n%d-%d", n.NodeID, g.R.Intn(3))
			case 3: // identical -> noop
				g.Count("shape:identical-upsert")
			}
		default:
			id := uint64(g.R.Range(1, 9))
			n = c18Node(id, false)
			if g.R.Chance(30) {
				n.JoinState = state.NodeJoinStateJoining
			}
		}
		if mode == 2 {
			switch g.R.Intn(3) {
			case 0:
				n.Addr = ""
			case 1:
				n.Roles = nil
			case 2:
				cmd.ExpectedRevision = s.expRev(g, 0)
				return cmd // nil node
			}
		}
		cmd.Node = &n
		cmd.ExpectedRevision = s.expRev(g, mode)
		if mode == 0 {
			s.nodes[n.NodeID] = n
			s.rev++
		}
		return cmd
	case 2: // update controller voters
		cmd.Kind = command.KindUpdateControllerVoters
		var vs []state.ControllerVoter
		for _, id := range s.nodeIDs() {
			n := s.nodes[id]
			if n.HasRole(state.NodeRoleControllerVoter) && (g.R.Chance(75) || len(vs) == 0) {
				vs = append(vs, state.ControllerVoter{NodeID: id, Addr: n.Addr, Role: state.ControllerRoleVoter})
			}
		}
		if mode == 2 {
			vs = append(vs, state.ControllerVoter{NodeID: 99, Addr: "x", Role: state.ControllerRoleVoter})
		}
		if g.R.Bool() { // unsorted: Normalize sorts
			for i, j := 0, len(vs)-1; i < j; i, j = i+1, j-1 {
				vs[i], vs[j] = vs[j], vs[i]
			}
		}
		cmd.Controllers = vs
		cmd.ExpectedRevision = s.expRev(g, mode)
		if mode == 0 {
			s.voters = nil
			for _, v := range vs {
				s.voters = append(s.voters, v.NodeID)
			}
			s.rev++
		}
		return cmd
	case 3: // promote controller voter
		cmd.Kind = command.KindPromoteControllerVoter
		ids := s.nodeIDs()
		if len(ids) == 0 {
			ids = []uint64{3}
		}
		tgt := ids[g.R.Intn(len(ids))]
		obs := append([]uint64(nil), s.voters...)
		has := false
		for _, v := range s.voters {
			if v == tgt {
				has = true
			}
		}
		if !has {
			obs = append(obs, tgt)
		}
		p := &command.ControllerVoterPromotion{TargetNodeID: tgt, TargetAddr: fmt.Sprintf("n%d:7000", tgt), ObservedConfigIndex: uint64(g.R.Range(1, 99)), ObservedVoters: obs}
		switch g.R.Intn(3) {
		case 0:
			p.ExpectedPreviousVoters = append([]uint64(nil), s.voters...)
		case 1:
			p.ExpectedPreviousVoters = nil
		case 2:
			p.ExpectedPreviousVoters = []uint64{}
		}
		if mode == 1 {
			p.ExpectedPreviousVoters = []uint64{77}
		}
		if mode == 2 {
			if g.R.Bool() {
				p.ObservedConfigIndex = 0
			} else {
				p.TargetAddr = "wrong"
			}
		}
		cmd.ControllerVoterPromotion = p
		if mode == 0 && !has {
			s.voters = append(s.voters, tgt)
			if n, ok := s.nodes[tgt]; ok && !n.HasRole(state.NodeRoleControllerVoter) {
				n.Roles = append([]state.NodeRole{state.NodeRoleControllerVoter}, n.Roles...)
				s.nodes[tgt] = n
			}
			s.rev++
		}
		return cmd
	case 4: // bootstrap or leader transfer
		cmd.Kind = command.KindUpsertSlotAssignmentAndTask
		slot := uint32(g.R.Range(1, int(s.slotCnt)+1))
		if sl, ok := s.slots[slot]; ok && s.tasks[slot] == nil && g.R.Chance(70) {
			// leader transfer
			tgt := sl.peers[g.R.Intn(len(sl.peers))]
			src := sl.leader
			if src == tgt {
				src = sl.peers[(g.R.Intn(len(sl.peers)-1)+1)%len(sl.peers)]
				if src == tgt {
					src = sl.peers[0]
				}
			}
			a := state.SlotAssignment{SlotID: slot, DesiredPeers: append([]uint64(nil), sl.peers...), ConfigEpoch: sl.epoch, PreferredLeader: tgt}
			t := state.ReconcileTask{TaskID: fmt.Sprintf("slot-%d-lt-%d", slot, s.seq), SlotID: slot, Kind: state.TaskKindLeaderTransfer, Step: state.TaskStepTransferLeader,
				SourceNode: src, TargetNode: tgt, TargetPeers: append([]uint64(nil), sl.peers...), CompletionPolicy: state.TaskCompletionPolicySingleObserver, ConfigEpoch: sl.epoch, Status: state.TaskStatusPending}
			if mode == 2 {
				t.SourceNode = tgt
			}
			cmd.Assignment, cmd.Task = &a, &t
			cmd.ExpectedRevision = s.expRev(g, mode)
			if mode == 0 && src != tgt {
				sl.leader = tgt
				s.tasks[slot] = &c18Task{id: t.TaskID, kind: t.Kind, slot: slot, epoch: sl.epoch, step: t.Step, src: src, tgt: tgt, peers: t.TargetPeers}
				s.rev++
			}
			return cmd
		}
		ids := s.nodeIDs()
		if len(ids) < 3 {
			ids = []uint64{1, 2, 3}
		}
		off := g.R.Intn(len(ids))
		peers := c18Replace([]uint64{ids[off], ids[(off+1)%len(ids)], ids[(off+2)%len(ids)]}, 0, 0)
		epoch := uint64(g.R.Range(1, 3))
		a := state.SlotAssignment{SlotID: slot, DesiredPeers: peers, ConfigEpoch: epoch, PreferredLeader: peers[0]}
		t := state.ReconcileTask{TaskID: fmt.Sprintf("slot-%d-bootstrap-%d", slot, s.seq), SlotID: slot, Kind: state.TaskKindBootstrap, Step: state.TaskStepCreateSlot,
			TargetNode: peers[0], TargetPeers: append([]uint64(nil), peers...), CompletionPolicy: state.TaskCompletionPolicyAllTargetPeers, ConfigEpoch: epoch, Status: state.TaskStatusPending}
		if g.R.Bool() {
			t.ParticipantProgress = c18Progress(peers) // else Normalize fills it in
		}
		if mode == 2 {
			switch g.R.Intn(3) {
			case 0:
				t.SlotID = slot + 1
			case 1:
				a.DesiredPeers = []uint64{peers[0], peers[0], peers[1]}
			case 2:
				a.PreferredLeader = 88
			}
		}
		cmd.Assignment, cmd.Task = &a, &t
		cmd.ExpectedRevision = s.expRev(g, mode)
		if mode == 0 && s.tasks[slot] == nil && slot <= s.slotCnt {
			s.slots[slot] = &c18Slot{peers: peers, epoch: epoch, leader: peers[0]}
			pa := map[uint64]uint32{}
			for _, p := range peers {
				pa[p] = 0
			}
			s.tasks[slot] = &c18Task{id: t.TaskID, kind: t.Kind, slot: slot, epoch: epoch, step: t.Step, tgt: peers[0], peers: peers, partAtt: pa}
			s.rev++
		}
		return cmd
	case 5: // replica move task
		cmd.Kind = command.KindUpsertSlotReplicaMoveTask
		var slot uint32
		for sl := uint32(1); sl <= s.slotCnt; sl++ {
			if s.slots[sl] != nil && s.tasks[sl] == nil {
				slot = sl
				break
			}
		}
		if slot == 0 {
			slot = uint32(g.R.Range(1, int(s.slotCnt)+1))
		}
		sl := s.slots[slot]
		if sl == nil {
			sl = &c18Slot{peers: []uint64{1, 2, 3}, epoch: 1, leader: 1}
		}
		var tgt uint64
		for _, id := range s.nodeIDs() {
			in := false
			for _, p := range sl.peers {
				if p == id {
					in = true
				}
			}
			if !in && s.nodes[id].JoinState == state.NodeJoinStateActive {
				tgt = id
			}
		}
		if tgt == 0 {
			tgt = 9
		}
		src := sl.peers[g.R.Intn(len(sl.peers))]
		step := state.TaskStepOpenLearner
		if g.R.Chance(30) {
			step = state.TaskStepAddLearner
		}
		t := state.ReconcileTask{TaskID: fmt.Sprintf("slot-%d-move-%d", slot, s.seq), SlotID: slot, Kind: state.TaskKindSlotReplicaMove, Step: step,
			SourceNode: src, TargetNode: tgt, TargetPeers: c18Replace(sl.peers, src, tgt), CompletionPolicy: state.TaskCompletionPolicySingleObserver, ConfigEpoch: sl.epoch, Status: state.TaskStatusPending}
		if mode == 2 {
			if g.R.Bool() {
				t.Kind = state.TaskKindBootstrap
			} else {
				t.TargetNode = src
			}
		}
		cmd.Task = &t
		cmd.ExpectedRevision = s.expRev(g, mode)
		if mode == 0 && s.slots[slot] != nil && s.tasks[slot] == nil && tgt != 9 {
			s.tasks[slot] = &c18Task{id: t.TaskID, kind: t.Kind, slot: slot, epoch: sl.epoch, step: step, src: src, tgt: tgt, peers: t.TargetPeers}
			s.rev++
		}
		return cmd
	case 6, 7: // advance phase / commit move
		var tk *c18Task
		for sl := uint32(1); sl <= s.slotCnt; sl++ {
			if t := s.tasks[sl]; t != nil && t.kind == state.TaskKindSlotReplicaMove {
				tk = t
			}
		}
		if tk == nil {
			tk = &c18Task{id: "missing-task", kind: state.TaskKindSlotReplicaMove, slot: 1, epoch: 1, step: state.TaskStepOpenLearner, src: 1, tgt: 4, peers: []uint64{2, 3, 4}}
			g.Count("shape:task-missing")
		}
		srcPeers := c18Replace(tk.peers, tk.tgt, tk.src)
		if kind == 7 && (tk.step == state.TaskStepCommitAssignment || g.R.Chance(15)) {
			cmd.Kind = command.KindCommitSlotReplicaMove
			c := &command.SlotReplicaMoveCommit{TaskID: tk.id, SlotID: tk.slot, ConfigEpoch: tk.epoch, Attempt: tk.attempt, ObservedConfigIndex: uint64(g.R.Range(1, 500)), ObservedVoters: append([]uint64(nil), tk.peers...)}
			if mode == 1 {
				if g.R.Bool() {
					c.ConfigEpoch++
				} else {
					c.Attempt++
				}
			}
			if mode == 2 {
				if g.R.Bool() {
					c.ObservedVoters = srcPeers
				} else {
					c.ObservedConfigIndex = 0
				}
			}
			cmd.SlotReplicaMoveCommit = c
			if mode == 0 && tk.step == state.TaskStepCommitAssignment && tk.id != "missing-task" {
				if sl := s.slots[tk.slot]; sl != nil {
					sl.peers = append([]uint64(nil), tk.peers...)
					sl.epoch++
					if sl.leader == tk.src {
						sl.leader = tk.tgt
					}
				}
				delete(s.tasks, tk.slot)
				s.rev++
			}
			return cmd
		}
		cmd.Kind = command.KindAdvanceSlotReplicaMovePhase
		ph := &command.SlotReplicaMovePhaseAdvance{TaskID: tk.id, SlotID: tk.slot, ConfigEpoch: tk.epoch, Attempt: tk.attempt, ExpectedPhaseIndex: tk.phase, ObservedConfigIndex: uint64(g.R.Range(1, 500))}
		var nextStep state.TaskStep
		switch tk.step {
		case state.TaskStepOpenLearner:
			nextStep = state.TaskStepAddLearner
		case state.TaskStepAddLearner:
			nextStep = state.TaskStepPromoteLearner
			ph.ObservedVoters, ph.ObservedLearners = srcPeers, []uint64{tk.tgt}
		case state.TaskStepPromoteLearner:
			nextStep = state.TaskStepRemoveVoter
			ph.ObservedVoters = append(append([]uint64(nil), srcPeers...), tk.tgt)
		default:
			nextStep = state.TaskStepCommitAssignment
			ph.ObservedVoters = append([]uint64(nil), tk.peers...)
		}
		ph.NextStep = nextStep
		if mode == 1 {
			switch g.R.Intn(3) {
			case 0:
				ph.ExpectedPhaseIndex++
			case 1:
				ph.Attempt++
			case 2:
				ph.ConfigEpoch++
			}
		}
		if mode == 2 {
			switch g.R.Intn(3) {
			case 0:
				ph.NextStep = state.TaskStepCommitAssignment
				if nextStep == state.TaskStepCommitAssignment {
					ph.NextStep = state.TaskStepOpenLearner
				}
			case 1:
				ph.ObservedVoters = nil
			case 2:
				ph.SlotID = tk.slot + 1
			}
		}
		cmd.SlotReplicaMovePhase = ph
		if mode == 0 && tk.id != "missing-task" && tk.step != state.TaskStepCommitAssignment {
			tk.step = nextStep
			tk.phase++
			s.rev++
		}
		return cmd
	case 8, 9: // complete / fail task
		var tk *c18Task
		for sl := uint32(1); sl <= s.slotCnt; sl++ {
			if t := s.tasks[sl]; t != nil && (tk == nil || g.R.Bool()) {
				tk = t
			}
		}
		if tk == nil {
			tk = &c18Task{id: "missing-task", kind: state.TaskKindBootstrap, slot: 1, epoch: 1}
			g.Count("shape:task-missing")
		}
		cmd.Kind = command.KindCompleteTask
		if kind == 9 {
			cmd.Kind = command.KindFailTask
		}
		tr := &command.TaskResult{TaskID: tk.id, SlotID: tk.slot, TaskKind: tk.kind, ConfigEpoch: tk.epoch, Attempt: tk.attempt}
		if kind == 9 {
			tr.Err = []string{"boom", strings.Repeat("é", 600), ""}[g.R.Intn(3)]
			cmd.ExpectedRevision = s.expRev(g, mode)
		}
		if mode == 1 {
			switch g.R.Intn(3) {
			case 0:
				tr.Attempt++
			case 1:
				tr.ConfigEpoch++
			case 2:
				tr.TaskKind = state.TaskKindLeaderTransfer
				if tk.kind == state.TaskKindLeaderTransfer {
					tr.TaskKind = state.TaskKindBootstrap
				}
			}
		}
		if mode == 2 {
			switch g.R.Intn(3) {
			case 0:
				tr.SlotID = tk.slot + 1
			case 1:
				tr.TaskID = ""
			case 2:
				tr.ConfigEpoch = 0
			}
		}
		cmd.TaskResult = tr
		if mode == 0 && tk.id != "missing-task" {
			if kind == 8 {
				delete(s.tasks, tk.slot)
			} else {
				tk.attempt++
				for p := range tk.partAtt {
					tk.partAtt[p] = 0
				}
			}
			s.rev++
		}
		return cmd
	case 10: // task progress
		cmd.Kind = command.KindReportTaskProgress
		var tk *c18Task
		for sl := uint32(1); sl <= s.slotCnt; sl++ {
			if t := s.tasks[sl]; t != nil && t.kind == state.TaskKindBootstrap {
				tk = t
			}
		}
		if tk == nil {
			tk = &c18Task{id: "missing-task", kind: state.TaskKindBootstrap, slot: 1, epoch: 1, peers: []uint64{1, 2, 3}, partAtt: map[uint64]uint32{1: 0}}
		}
		node := tk.peers[g.R.Intn(len(tk.peers))]
		st := []state.TaskParticipantStatus{state.TaskParticipantStatusDone, state.TaskParticipantStatusFailed, state.TaskParticipantStatusPending}[g.R.Pick(5, 3, 2)]
		tp := &command.TaskProgress{TaskID: tk.id, SlotID: tk.slot, TaskKind: tk.kind, ConfigEpoch: tk.epoch, TaskAttempt: tk.attempt, ParticipantNodeID: node,
			ParticipantAttempt: tk.partAtt[node], Status: st, Err: "part failed"}
		if mode == 1 {
			switch g.R.Intn(3) {
			case 0:
				tp.TaskAttempt++
			case 1:
				if tp.ParticipantAttempt > 0 {
					tp.ParticipantAttempt--
				} else {
					tp.ConfigEpoch++
				}
			case 2:
				cmd.ExpectedRevision = s.expRev(g, 1)
			}
		}
		if mode == 2 {
			switch g.R.Intn(3) {
			case 0:
				tp.ParticipantNodeID = 55
			case 1:
				tp.Status = "weird"
			case 2:
				tp.SlotID = tk.slot + 1
			}
		}
		cmd.TaskProgress = tp
		if mode == 0 && tk.id != "missing-task" {
			if st == state.TaskParticipantStatusFailed {
				tk.partAtt[node]++
			}
			s.rev++
		}
		return cmd
	case 11: // node health
		cmd.Kind = command.KindReportNodeHealth
		ids := s.nodeIDs()
		id := uint64(g.R.Range(1, 6))
		if len(ids) > 0 && g.R.Chance(85) {
			id = ids[g.R.Intn(len(ids))]
		}
		h := &state.NodeHealthReport{NodeID: id, Status: []state.NodeStatus{state.NodeStatusAlive, state.NodeStatusSuspect}[g.R.Intn(2)], RuntimeReady: g.R.Bool(),
			ObservedControlRevision: s.rev, ReportSeq: uint64(g.R.Intn(3)), ReportedAtUnixMilli: 1750000000000 + int64(g.R.Intn(3))}
		dup := false
		if len(s.health) > 0 && mode == 0 && g.R.Chance(50) {
			for _, hid := range s.nodeIDs() {
				if last, ok := s.health[hid]; ok && (!dup || g.R.Bool()) {
					cp := last
					h, id, dup = &cp, hid, true // an exact duplicate: Noop, and the stored report must stay untouched
				}
			}
			g.Count("shape:duplicate-health-report")
		}
		if mode == 2 {
			if g.R.Bool() {
				h.NodeID = 66
			} else {
				h.Status = "bad"
			}
		}
		if mode == 0 {
			s.health[id] = *h
		}
		cmd.NodeHealth = h
		if !dup {
			cmd.ExpectedRevision = s.expRev(g, mode)
		}
		return cmd
	case 12: // hash slot table
		cmd.Kind = command.KindReplaceHashSlotTable
		cut := uint16(g.R.Range(1, 14))
		t := &state.HashSlotTable{Version: state.CurrentHashSlotTableVersion, SlotCount: 16, Ranges: []state.HashSlotRange{{From: 0, To: cut, SlotID: 1}, {From: cut + 1, To: 15, SlotID: uint32(g.R.Range(1, int(s.slotCnt)))}}}
		if mode == 2 {
			t.Ranges[1].From++
		}
		cmd.HashSlots = t
		cmd.ExpectedRevision = s.expRev(g, mode)
		if mode == 0 {
			s.rev++
		}
		return cmd
	case 13: // scheduled backup
		cmd.Kind = command.KindReplaceScheduledBackupState
		v := g.R.Intn(5)
		if mode == 2 {
			v = 3
		} else if v == 3 {
			v = 0
		}
		g.Count(fmt.Sprintf("backup:variant-%d", v))
		cmd.ScheduledBackup = c18Backup(uint64(g.R.Range(1, 2)), v)
		cmd.ExpectedRevision = s.expRev(g, mode)
		if mode == 0 {
			s.rev++
		}
		return cmd
	default: // ops mcp
		cmd.Kind = command.KindReplaceOpsMCPState
		ids := s.nodeIDs()
		owner := uint64(1)
		if len(ids) > 0 {
			owner = ids[g.R.Intn(len(ids))]
			if s.nodes[owner].JoinState != state.NodeJoinStateActive {
				owner = 1
			}
		}
		if s.mcpOn && g.R.Chance(70) {
			owner = s.mcpOwner
		}
		m := &state.OpsMCPState{Enabled: g.R.Chance(60), OwnerNodeID: owner}
		switch g.R.Intn(3) {
		case 0:
			m.Credentials = []state.OpsMCPCredential{{ID: "c1", DigestSHA256: strings.Repeat("0a", 32), CreatedAtUnixMillis: 1}}
		case 1:
			m.Credentials = []state.OpsMCPCredential{{ID: "c2", DigestSHA256: strings.Repeat("0b", 32), CreatedAtUnixMillis: 2}, {ID: "c1", DigestSHA256: strings.Repeat("0a", 32), CreatedAtUnixMillis: 1}}
		case 2:
			m.Credentials = nil
			if !m.Enabled && g.R.Bool() {
				m.Credentials = []state.OpsMCPCredential{}
			}
		}
		if mode == 2 {
			m.Credentials = []state.OpsMCPCredential{{ID: "BAD ID", DigestSHA256: "x", CreatedAtUnixMillis: 0}}
		}
		cmd.OpsMCP = m
		cmd.ExpectedRevision = s.expRev(g, mode)
		if mode == 0 && (m.Enabled == false || len(m.Credentials) > 0) {
			s.mcpOn, s.mcpOwner = m.Enabled, owner
			s.rev++
		}
		return cmd
	}
}

func (s *c18Shadow) genInit(g *Gen, cmd command.Command, mode int) command.Command {
	cmd.Kind = command.KindInitClusterState
	n := g.R.Range(3, 5)
	if s.script {
		n = 5
	}
	slots := uint32(g.R.Range(2, 4))
	in := &command.InitClusterState{ClusterID: "wk-c18", Config: state.ClusterConfig{SlotCount: slots, HashSlotCount: 16, ReplicaCount: 3, DefaultCapacityWeight: 10}}
	if s.inited {
		// same again (noop), or conflicting
		n, slots = len(s.nodes), s.slotCnt
		in.Config.SlotCount = slots
		if g.R.Chance(40) {
			in.ClusterID = "wk-other"
			g.Count("shape:init-conflict")
		} else {
			g.Count("shape:init-repeat")
		}
	}
	for i := 1; i <= n; i++ {
		nd := c18Node(uint64(i), i <= 2)
		in.Nodes = append(in.Nodes, nd)
		if i <= 2 {
			in.Controllers = append(in.Controllers, state.ControllerVoter{NodeID: uint64(i), Addr: nd.Addr, Role: state.ControllerRoleVoter})
		}
	}
	if mode == 2 {
		switch g.R.Intn(3) {
		case 0:
			in.Config.HashSlotCount = 1 // slot_count > hash_slot_count
		case 1:
			in.Controllers = nil
		case 2:
			cmd.Init = nil
			return cmd
		}
	}
	cmd.Init = in
	if !s.inited && mode != 2 {
		s.inited = true
		s.rev = 1
		s.slotCnt = slots
		for _, nd := range in.Nodes {
			s.nodes[nd.NodeID] = nd
		}
		s.voters = []uint64{1, 2}
	}
	return cmd
}

// c18Partitions enumerates every composition of n as batch boundaries.
func c18Partitions(n int) [][]int {
	var out [][]int
	for mask := 0; mask < 1<<(n-1); mask++ {
		var cuts []int
		for i := 0; i < n-1; i++ {
			if mask&(1<<i) != 0 {
				cuts = append(cuts, i+1)
			}
		}
		out = append(out, append(cuts, n))
	}
	return out
}

func c18RunLine(g *Gen, cuts []int, restartPct, replayPct int) string {
	var toks []string
	a := 0
	for i, b := range cuts {
		toks = append(toks, fmt.Sprintf("%d-%d", a, b))
		a = b
		if i < len(cuts)-1 && g.R.Chance(restartPct) {
			toks = append(toks, "r")
			g.Count("run:restart")
			if g.R.Chance(replayPct) {
				a = g.R.Intn(b + 1) // re-apply already applied entries after the restart
				g.Count("run:replay-after-restart")
			}
		}
	}
	if g.R.Chance(replayPct) {
		toks = append(toks, "r", fmt.Sprintf("%d-%d", g.R.Intn(a+1), a))
		g.Count("run:replay-tail")
	}
	return strings.Join(toks, " ")
}

func genC18(g *Gen) {
	for c := 0; c < g.N; c++ {
		g.Case()
		short := c%2 == 0
		n := g.R.Range(8, 22)
		if short {
			n = g.R.Range(3, 6)
		}
		sh := &c18Shadow{nodes: map[uint64]state.Node{}, slots: map[uint32]*c18Slot{}, tasks: map[uint32]*c18Task{}, slotCnt: 3, script: g.R.Chance(45), health: map[uint64]state.NodeHealthReport{}}
		idx := uint64(g.R.Range(1, 5))
		term := uint64(1)
		for i := 0; i < n; i++ {
			cmd := sh.next(g)
			g.Count("kind:" + string(cmd.Kind))
			b, err := command.Encode(cmd)
			if err != nil {
				panic(err)
			}
			if g.R.Chance(2) {
				b = b[:len(b)/2] // an undecodable entry: both sides refuse runs that contain it
				g.Count("shape:undecodable")
			}
			g.Op("e", "%d %d %s", idx, term, Hex(b))
			idx += uint64(g.R.Pick(70, 20, 10)*g.R.Range(1, 3) + 1)
			if g.R.Chance(15) {
				term++
			}
		}
		// baseline: one entry at a time
		var single []int
		for i := 1; i <= n; i++ {
			single = append(single, i)
		}
		g.Op("run", "%s", c18RunLine(g, single, 0, 0))
		g.Op("contract", "")
		// snapshot installs: payload ahead of / equal to / behind its metadata index, then replay of the gap
		for q := 0; q < 3; q++ {
			k := g.R.Range(1, n)
			var m int
			switch q {
			case 0: // payload AHEAD of the metadata index (compaction raced with apply)
				m = g.R.Intn(k)
				g.Count("snapshot:payload-ahead")
			case 1:
				m = k
				g.Count("snapshot:payload-equal")
			default:
				m = g.R.Range(k, n)
				g.Count("snapshot:payload-behind")
			}
			pre := ""
			if g.R.Bool() && m > 0 { // the follower already applied a prefix
				pre = fmt.Sprintf("0-%d ", g.R.Range(1, m))
			}
			from := m
			if q == 2 {
				from = g.R.Range(k, m) // entries between payload and metadata index are skipped
			}
			g.Op("run", "%ss%d@%d %d-%d", pre, k, m, from, n)
		}
		if short {
			g.Count("log:short-all-partitions")
			for _, cuts := range c18Partitions(n) {
				if len(cuts) == n {
					continue // the baseline itself
				}
				g.Op("run", "%s", c18RunLine(g, cuts, 25, 40))
			}
			g.Op("run", "%s", c18RunLine(g, single, 100, 50))
		} else {
			g.Count("log:long-random-partitions")
			for k := 0; k < 6; k++ {
				var cuts []int
				for i := 1; i < n; i++ {
					if g.R.Chance(35) {
						cuts = append(cuts, i)
					}
				}
				cuts = append(cuts, n)
				g.Op("run", "%s", c18RunLine(g, cuts, 30, 40))
			}
			g.Op("run", "%s", c18RunLine(g, single, 100, 30))
			g.Op("run", "%s", c18RunLine(g, []int{n}, 0, 100))
		}
	}
}

//go:build verif

package main

import (
	"encoding/binary"
	"fmt"
	"hash/crc32"
	"strings"

	"github.com/WuKongIM/WuKongIM/pkg/protocol/channelid"
)

func init() {
	Register(&Prop{Gen: genC35, NewRunner: func() Runner { return c35Runner{} }})
}

const c35Suffix = "____cmd"

// ---- CRC-32 forging: 4 bytes that take prefix p to the checksum of target ----

var c35Rev [256]byte // top byte of table entry -> index

func init() {
	for i, v := range crc32.IEEETable {
		c35Rev[v>>24] = byte(i)
	}
}

// c35Forge returns p+x (len(x)=4) with ChecksumIEEE(p+x) == want, verified.
func c35Forge(p []byte, want uint32) ([]byte, bool) {
	reg := ^crc32.ChecksumIEEE(p) // register after p
	t := ^want                    // register we need after 4 more bytes
	for i := 0; i < 4; i++ {
		idx := c35Rev[t>>24]
		t = ((t ^ crc32.IEEETable[idx]) << 8) | uint32(idx)
	}
	var x [4]byte
	binary.LittleEndian.PutUint32(x[:], t^reg)
	out := append(append([]byte{}, p...), x[:]...)
	return out, crc32.ChecksumIEEE(out) == want
}

// ascii-only colliding pairs found offline by a birthday search over [a-z0-9]{5,6}
// (first pair is the one the repository's own unit test uses).
var c35AsciiCollisions = [][2]string{
	{"l98cu", "pvdba"},
	{"64nkcxqz", "3d9ads"}, {"j7kz7u9", "gscwzk"}, {"7jkdl", "jv3dva"}, {"fxv1u", "dz10vs7"},
	{"wwjsr", "k86rf"}, {"6wqk", "v0vmoqlj"}, {"e9yg7c", "lbae"}, {"5ehxync5", "au6eds"},
	{"c1ryqbz", "uszuym"}, {"rjnbp3", "c77lsu"}, {"6u9bd053", "po38"}, {"003pd", "4mfkypng"},
}

const c35Alpha = "abcdefghijklmnopqrstuvwxyz0123456789_-."

func c35Ascii(g *Gen, lo, hi int) []byte {
	n := g.R.Range(lo, hi)
	b := make([]byte, n)
	for i := range b {
		b[i] = c35Alpha[g.R.Intn(len(c35Alpha))]
	}
	return b
}

// c35UID draws one UID and names its kind.
func c35UID(g *Gen) ([]byte, string) {
	switch g.R.Pick(40, 6, 10, 8, 8, 6, 6) {
	case 0:
		return c35Ascii(g, 1, 12), "ascii"
	case 1:
		return nil, "empty"
	case 2: // '@' somewhere (start, middle, end, several)
		b := c35Ascii(g, 0, 8)
		for k := g.R.Range(1, 2); k > 0; k-- {
			p := g.R.Intn(len(b) + 1)
			b = append(b[:p], append([]byte{'@'}, b[p:]...)...)
		}
		return b, "has-sep"
	case 3: // command suffix inside / at the end / partial
		b := c35Ascii(g, 0, 6)
		switch g.R.Intn(4) {
		case 0:
			b = append(b, c35Suffix...)
		case 1:
			b = append(append(b, c35Suffix...), c35Ascii(g, 1, 3)...)
		case 2:
			b = append(b, c35Suffix[:g.R.Range(1, 6)]...)
		default:
			b = append(append(b, c35Suffix...), c35Suffix...)
		}
		return b, "has-suffix"
	case 4:
		return g.R.Bytes(g.R.Range(1, 10)), "binary"
	case 5: // single bytes around the separator and extremes
		return []byte{[]byte{0, '@' - 1, '@', '@' + 1, 0x7f, 0x80, 0xff}[g.R.Intn(7)]}, "one-byte"
	default:
		return c35Ascii(g, 13, 60), "long"
	}
}

// c35Pair draws two UIDs with a controlled relationship.
func c35Pair(g *Gen) (a, b []byte) {
	a, ka := c35UID(g)
	switch g.R.Pick(50, 10, 22, 6, 6, 6) {
	case 0:
		var kb string
		b, kb = c35UID(g)
		g.Count("pair:independent")
		g.Count("uid:" + kb)
	case 1:
		b = append([]byte{}, a...)
		g.Count("pair:equal")
	case 2: // engineered CRC-32 collision: b = random prefix + 4 forged bytes
		p := c35Ascii(g, 0, 6)
		if g.R.Chance(30) {
			p = append(append([]byte{}, a...), p...) // a is a proper prefix of b
		}
		var ok bool
		b, ok = c35Forge(p, crc32.ChecksumIEEE(a))
		if !ok {
			panic("crc forge failed")
		}
		switch {
		case string(a) == string(b):
			g.Count("pair:collision-equal")
		case strings.ContainsRune(string(b), '@'):
			g.Count("pair:collision-with-sep")
		case string(a) > string(b):
			g.Count("pair:collision-a>b")
		default:
			g.Count("pair:collision-a<b")
		}
	case 3: // ascii collision from the offline table
		c := c35AsciiCollisions[g.R.Intn(len(c35AsciiCollisions))]
		a, b = []byte(c[0]), []byte(c[1])
		if g.R.Bool() {
			a, b = b, a
		}
		ka = "ascii"
		g.Count("pair:collision-ascii")
	case 4: // prefix relation
		b = append(append([]byte{}, a...), c35Ascii(g, 1, 3)...)
		g.Count("pair:prefix")
	default: // differ in the last byte only
		if len(a) == 0 {
			b = []byte{'x'}
		} else {
			b = append([]byte{}, a...)
			b[len(b)-1] ^= byte(1 << uint(g.R.Intn(8)))
		}
		g.Count("pair:near")
	}
	g.Count("uid:" + ka)
	return a, b
}

func genC35(g *Gen) {
	g.Case()
	for i := 0; i < g.N; i++ {
		switch g.R.Pick(30, 12, 34, 16, 8) {
		case 0:
			a, b := c35Pair(g)
			g.Op("enc", "%s %s", Hex(a), Hex(b))
		case 1: // decode of arbitrary ids: canonical, several separators, leading/trailing separator
			var c []byte
			switch g.R.Intn(5) {
			case 0:
				a, b := c35Pair(g)
				c = []byte(string(a) + "@" + string(b))
			case 1:
				c, _ = c35UID(g)
			case 2:
				c = append([]byte{'@'}, c35Ascii(g, 0, 5)...)
			case 3:
				c = append(c35Ascii(g, 0, 5), '@')
			default:
				c = []byte(string(c35Ascii(g, 0, 3)) + "@" + string(c35Ascii(g, 0, 3)) + "@" + string(c35Ascii(g, 0, 3)))
			}
			g.Count(fmt.Sprintf("dec:seps=%d", min(3, strings.Count(string(c), "@"))))
			g.Op("dec", "%s", Hex(c))
		case 2:
			a, b := c35Pair(g)
			var s, c []byte
			switch g.R.Pick(20, 25, 15, 15, 10, 8, 7) {
			case 0: // raw peer uid
				s, c = a, b
				g.Count("norm:peer")
			case 1: // canonical id, sender is a member
				s, c = a, []byte(channelidEncodeRef(a, b))
				g.Count("norm:canonical-member")
			case 2: // the non-canonical order, sender is a member
				s, c = b, []byte(string(a)+"@"+string(b))
				if g.R.Bool() {
					c = []byte(string(b) + "@" + string(a))
				}
				g.Count("norm:anyorder-member")
			case 3: // third party
				s, _ = c35UID(g)
				c = []byte(string(a) + "@" + string(b))
				g.Count("norm:third-party")
			case 4: // sender is a prefix / suffix / near miss of a member
				c = []byte(string(a) + "@" + string(b))
				switch g.R.Intn(4) {
				case 0:
					s = append(append([]byte{}, a...), '@')
				case 1:
					s = append([]byte{'@'}, b...)
				case 2:
					if len(a) > 0 {
						s = a[:len(a)-1]
					}
				default:
					s = []byte(string(a) + "@" + string(b))
				}
				g.Count("norm:near-member")
			case 5: // malformed channel
				s = a
				c = []byte(string(a) + "@" + string(b) + "@" + string(a))
				if g.R.Bool() {
					c = []byte(string(a) + "@")
				}
				g.Count("norm:malformed")
			default:
				s, c = nil, b
				if g.R.Bool() {
					s, c = a, nil
				}
				g.Count("norm:empty")
			}
			g.Op("norm", "%s %s", Hex(s), Hex(c))
		case 3:
			var x []byte
			switch g.R.Pick(30, 25, 15, 10, 10, 10) {
			case 0:
				x, _ = c35UID(g)
				g.Count("cmd:uid")
			case 1:
				b, _ := c35UID(g)
				x = append(b, c35Suffix...)
				g.Count("cmd:suffixed")
			case 2:
				b, _ := c35UID(g)
				x = append(append(b, c35Suffix...), c35Suffix...)
				g.Count("cmd:double-suffixed")
			case 3:
				x = []byte(c35Suffix[g.R.Intn(7):])
				g.Count("cmd:suffix-tail")
			case 4:
				x = []byte(c35Suffix[:g.R.Range(0, 7)])
				g.Count("cmd:suffix-head")
			default:
				b, _ := c35UID(g)
				x = append(append(b, c35Suffix...), c35Ascii(g, 1, 2)...)
				g.Count("cmd:suffix-inside")
			}
			g.Op("cmd", "%s", Hex(x))
		default:
			a, b := c35Pair(g)
			g.Op("agent", "%s %s", Hex(a), Hex(b))
		}
	}
}

// channelidEncodeRef is the generator's own reference of the canonical order
// (generator only: decides which *input* to feed; never used as an oracle).
func channelidEncodeRef(a, b []byte) string {
	ha, hb := crc32.ChecksumIEEE(a), crc32.ChecksumIEEE(b)
	if ha > hb || (ha == hb && string(a) > string(b)) {
		return string(a) + "@" + string(b)
	}
	return string(b) + "@" + string(a)
}

type c35Runner struct{}

func (c35Runner) Close() {}

func c35Dec(l, r string, err error) string {
	if err != nil {
		return "err"
	}
	return "ok:" + Hex([]byte(l)) + ":" + Hex([]byte(r))
}

func c35Norm(c string, err error) string {
	if err != nil {
		return "err"
	}
	return "ok:" + Hex([]byte(c))
}

func c35From(c string, ok bool) string {
	if ok {
		return Hex([]byte(c)) + ":1"
	}
	return Hex([]byte(c)) + ":0"
}

func (c35Runner) Step(op string) string {
	f := strings.Fields(op)
	arg := func(i int) string { return string(UnHex(f[i])) }
	switch {
	case len(f) == 3 && f[0] == "enc":
		a, b := arg(1), arg(2)
		e1 := channelid.EncodePersonChannel(a, b)
		e2 := channelid.EncodePersonChannel(b, a)
		return Hex([]byte(e1)) + " " + Hex([]byte(e2)) + " " + c35Dec(channelid.DecodePersonChannel(e1))
	case len(f) == 2 && f[0] == "dec":
		return c35Dec(channelid.DecodePersonChannel(arg(1)))
	case len(f) == 3 && f[0] == "norm":
		s, c := arg(1), arg(2)
		n1, err := channelid.NormalizePersonChannel(s, c)
		if err != nil {
			return "err -"
		}
		return c35Norm(n1, nil) + " " + c35Norm(channelid.NormalizePersonChannel(s, n1))
	case len(f) == 2 && f[0] == "cmd":
		x := arg(1)
		i := "0"
		if channelid.IsCommandChannel(x) {
			i = "1"
		}
		t := channelid.ToCommandChannel(x)
		return i + " " + Hex([]byte(t)) + " " + Hex([]byte(channelid.ToCommandChannel(t))) + " " +
			c35From(channelid.FromCommandChannel(t)) + " " + c35From(channelid.FromCommandChannel(x))
	case len(f) == 3 && f[0] == "agent":
		u, a := arg(1), arg(2)
		e := channelid.EncodeAgentChannel(u, a)
		return Hex([]byte(e)) + " " + c35Dec(channelid.DecodeAgentChannel(e))
	}
	return "bad-op"
}

//go:build verif

package main

import (
	"bytes"
	"context"
	"encoding/binary"
	"hash/crc32"
	"fmt"
	"io"
	"sort"
	"strings"

	"github.com/WuKongIM/WuKongIM/pkg/db/meta"
	"github.com/cockroachdb/pebble/v2/vfs"
)

func c11NewMeta() (*meta.MetaDB, func() error) {
	db, cl, err := meta.VerifOpenFS("meta", vfs.NewMem())
	if err != nil {
		panic("open meta: " + err.Error())
	}
	return db, cl
}

func (r *c11Runner) metaSrc() *meta.MetaDB {
	if r.msrc == nil {
		r.msrc, r.msrcCl = c11NewMeta()
	}
	return r.msrc
}

func (r *c11Runner) freshMetaDst() {
	if r.mdstCl != nil {
		_ = r.mdstCl()
	}
	r.mdst, r.mdstCl = c11NewMeta()
}

func c11MetaExport(db *meta.MetaDB, slots []uint16, backup bool) ([]byte, error) {
	var rd io.ReadCloser
	var err error
	if backup {
		rd, err = db.OpenBackupHashSlotSnapshot(context.Background(), slots)
	} else {
		rd, err = db.OpenHashSlotSnapshot(context.Background(), slots)
	}
	if err != nil {
		return nil, err
	}
	data, err := io.ReadAll(rd)
	_ = rd.Close()
	return data, err
}

func c11MetaImport(db *meta.MetaDB, mode string, slots []uint16, data []byte) error {
	if mode == "restore" {
		return db.ImportHashSlotSnapshotReaderForRestore(context.Background(), slots, bytes.NewReader(data), int64(len(data)), false)
	}
	return db.ImportHashSlotSnapshotReader(context.Background(), slots, bytes.NewReader(data), int64(len(data)))
}

func (r *c11Runner) metaStep(f []string) string {
	ctx := context.Background()
	slot := func(i int) (uint16, bool) {
		if i >= len(f) {
			return 0, false
		}
		n, ok := c11Num(f[i])
		if !ok || n > 15 {
			return 0, false
		}
		return uint16(n), true
	}
	res := func(err error) string {
		if err != nil {
			return "err"
		}
		return "ok"
	}
	switch f[0] {
	case "xuser":
		s, ok := slot(1)
		if !ok || len(f) != 4 {
			return "bad-op"
		}
		return res(r.metaSrc().HashSlot(meta.HashSlot(s)).UpsertUser(ctx, meta.User{UID: "u" + f[2], Token: "t" + f[3], DeviceFlag: 1, DeviceLevel: 1}))
	case "xdev":
		s, ok := slot(1)
		flag, ok2 := c11Num(f[len(f)-2])
		if !ok || !ok2 || len(f) != 5 {
			return "bad-op"
		}
		return res(r.metaSrc().HashSlot(meta.HashSlot(s)).UpsertDevice(ctx, meta.Device{UID: "u" + f[2], DeviceFlag: int64(flag % 4), Token: "t" + f[4], DeviceLevel: 1}))
	case "xchan":
		s, ok := slot(1)
		if !ok || len(f) != 5 {
			return "bad-op"
		}
		typ, ok1 := c11Num(f[3])
		ban, ok2 := c11Num(f[4])
		if !ok1 || !ok2 {
			return "bad-op"
		}
		return res(r.metaSrc().HashSlot(meta.HashSlot(s)).UpsertChannel(ctx, meta.Channel{ChannelID: "g" + f[2], ChannelType: int64(typ%3 + 1), Ban: int64(ban % 2)}))
	case "xsub":
		s, ok := slot(1)
		if !ok || len(f) < 5 {
			return "bad-op"
		}
		typ, ok1 := c11Num(f[3])
		if !ok1 {
			return "bad-op"
		}
		var uids []string
		for _, u := range f[4:] {
			uids = append(uids, "u"+u)
		}
		return res(r.metaSrc().HashSlot(meta.HashSlot(s)).AddSubscribers(ctx, "g"+f[2], int64(typ%3+1), uids, uint64(len(uids))))
	case "xbulk":
		// xbulk s n : n users in hash slot s (more than one 1024-entry import batch)
		s, ok := slot(1)
		if !ok || len(f) != 3 {
			return "bad-op"
		}
		n, ok := c11Num(f[2])
		if !ok || n > 5000 {
			return "bad-op"
		}
		sh := r.metaSrc().HashSlot(meta.HashSlot(s))
		for i := uint64(0); i < n; i++ {
			if err := sh.UpsertUser(ctx, meta.User{UID: fmt.Sprintf("b%05d", i), Token: "t", DeviceFlag: 1, DeviceLevel: 1}); err != nil {
				return "err"
			}
		}
		return "ok"
	case "xforeign":
		// xforeign restore|plain f pos : a mis-assembled backup — the kept stream (header = the requested
		// slots, valid checksum) with ONE entry of foreign hash slot f spliced in after `pos` of its entries —
		// imported into a target that already holds the restored data; must be rejected AND leave the
		// target byte-identical.
		if len(f) != 4 || (f[1] != "restore" && f[1] != "plain") {
			return "bad-op"
		}
		fs, ok := slot(2)
		pos, ok2 := c11Num(f[3])
		if !ok || !ok2 {
			return "bad-op"
		}
		if r.mstream == nil {
			return "no-stream"
		}
		for _, sl := range r.mslots {
			if sl == fs {
				return "guard:not-foreign"
			}
		}
		other, err := c11MetaExport(r.metaSrc(), []uint16{fs}, r.mbackup)
		if err != nil {
			return "err"
		}
		fk, fv, ok := c11FirstEntry(other, 1)
		if !ok {
			return "guard:foreign-empty"
		}
		crafted, ok := c11Splice(r.mstream, len(r.mslots), fk, fv, int(pos))
		if !ok {
			return "splice-failed"
		}
		r.freshMetaDst()
		if err := c11MetaImport(r.mdst, f[1], r.mslots, r.mstream); err != nil {
			return "setup-import-failed"
		}
		before, _ := meta.VerifDumpAll(r.mdst)
		err = c11MetaImport(r.mdst, f[1], r.mslots, crafted)
		after, _ := meta.VerifDumpAll(r.mdst)
		same := strings.Join(before, ";") == strings.Join(after, ";")
		if err != nil {
			return fmt.Sprintf("rejected same=%v entries=%d", same, len(before))
		}
		return fmt.Sprintf("accepted same=%v", same)
	case "xexport":
		if len(f) < 3 || (f[1] != "backup" && f[1] != "full") {
			return "bad-op"
		}
		var slots []uint16
		for i := 2; i < len(f); i++ {
			s, ok := slot(i)
			if !ok {
				return "bad-op"
			}
			slots = append(slots, s)
		}
		data, err := c11MetaExport(r.metaSrc(), slots, f[1] == "backup")
		if err != nil {
			r.mstream = nil
			return "err"
		}
		r.mstream, r.mslots, r.mbackup = data, slots, f[1] == "backup"
		d, _ := meta.VerifDumpSlots(r.metaSrc(), slots, r.mbackup)
		return fmt.Sprintf("ok entries=%d", len(d))
	case "ximport", "xretry":
		if len(f) != 2 || (f[1] != "restore" && f[1] != "plain") {
			return "bad-op"
		}
		if r.mstream == nil {
			return "no-stream"
		}
		if f[0] == "ximport" || r.mdst == nil {
			r.freshMetaDst()
		}
		if err := c11MetaImport(r.mdst, f[1], r.mslots, r.mstream); err != nil {
			n, _ := meta.VerifCountAll(r.mdst)
			return fmt.Sprintf("err left=%d", n)
		}
		src, _ := meta.VerifDumpSlots(r.metaSrc(), r.mslots, r.mbackup)
		dst, _ := meta.VerifDumpSlots(r.mdst, r.mslots, false)
		sort.Strings(src)
		sort.Strings(dst)
		total, _ := meta.VerifCountAll(r.mdst)
		again, err := c11MetaExport(r.mdst, r.mslots, r.mbackup)
		return fmt.Sprintf("ok entries=%d eq=%v same=%v extra=%d", len(dst), strings.Join(src, ";") == strings.Join(dst, ";"),
			err == nil && bytes.Equal(again, r.mstream), total-len(dst))
	case "xsweep", "xsweepfix":
		if len(f) < 2 || (f[1] != "restore" && f[1] != "plain") {
			return "bad-op"
		}
		if r.mstream == nil {
			return "no-stream"
		}
		stride := 1
		if f[0] == "xsweepfix" {
			st, ok := c11Num(f[len(f)-1])
			if !ok || st == 0 || len(f) != 3 {
				return "bad-op"
			}
			stride = int(st)
		} else if len(f) != 2 {
			return "bad-op"
		}
		r.freshMetaDst()
		n, rej, acc, partial := 0, 0, 0, 0
		try := func(b []byte) {
			n++
			if err := c11MetaImport(r.mdst, f[1], r.mslots, b); err == nil {
				acc++
				r.freshMetaDst()
				return
			}
			rej++
			if c, _ := meta.VerifCountAll(r.mdst); c != 0 {
				partial++
				r.freshMetaDst()
			}
		}
		if f[0] == "xsweep" {
			for i := range r.mstream {
				for _, x := range []byte{0x01, 0x80, 0xFF} {
					b := append([]byte(nil), r.mstream...)
					b[i] ^= x
					try(b)
				}
				try(r.mstream[:i])
			}
		} else {
			for i := 0; i < len(r.mstream)-4; i += stride {
				b := append([]byte(nil), r.mstream...)
				b[i] ^= byte(1 + (i*7)%255)
				c11FixCRC(b)
				try(b)
			}
		}
		return fmt.Sprintf("n=%d rejected=%d accepted=%d partial=%d", n, rej, acc, partial)
	}
	return "bad-op"
}

// slot snapshot stream: magic4 ver2 nslots2 slots(2 each) count8 { uvarint klen, uvarint vlen, key, value }* crc4

func c11MetaHeaderLen(nslots int) int { return 4 + 2 + 2 + 2*nslots + 8 }

func c11FirstEntry(stream []byte, nslots int) (k, v []byte, ok bool) {
	p := c11MetaHeaderLen(nslots)
	if len(stream) < p+4 || binary.BigEndian.Uint64(stream[p-8:p]) == 0 {
		return nil, nil, false
	}
	kl, n1 := binary.Uvarint(stream[p:])
	vl, n2 := binary.Uvarint(stream[p+n1:])
	st := p + n1 + n2
	if n1 <= 0 || n2 <= 0 || st+int(kl)+int(vl) > len(stream)-4 {
		return nil, nil, false
	}
	return stream[st : st+int(kl)], stream[st+int(kl) : st+int(kl)+int(vl)], true
}

// c11Splice inserts one entry after `pos` (mod count+1) entries, bumps the count, recomputes the trailer.
func c11Splice(stream []byte, nslots int, k, v []byte, pos int) ([]byte, bool) {
	h := c11MetaHeaderLen(nslots)
	if len(stream) < h+4 {
		return nil, false
	}
	count := binary.BigEndian.Uint64(stream[h-8 : h])
	at := h
	skip := pos % (int(count) + 1)
	for i := 0; i < skip; i++ {
		kl, n1 := binary.Uvarint(stream[at:])
		vl, n2 := binary.Uvarint(stream[at+n1:])
		if n1 <= 0 || n2 <= 0 {
			return nil, false
		}
		at += n1 + n2 + int(kl) + int(vl)
		if at > len(stream)-4 {
			return nil, false
		}
	}
	out := append([]byte(nil), stream[:at]...)
	out = binary.AppendUvarint(out, uint64(len(k)))
	out = binary.AppendUvarint(out, uint64(len(v)))
	out = append(out, k...)
	out = append(out, v...)
	out = append(out, stream[at:len(stream)-4]...)
	binary.BigEndian.PutUint64(out[h-8:h], count+1)
	out = binary.BigEndian.AppendUint32(out, crc32.ChecksumIEEE(out))
	return out, true
}

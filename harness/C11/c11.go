//go:build verif

// C11 — backup and restore reproduce committed data exactly.
//
// Message side (pkg/db/message): one SOURCE engine per case (Pebble on MemFS),
// built by the same mutations as C09 (prefix `m`), then
//
//	export c:hw ...          OpenBackupSnapshotWithStats for the cuts (channel c, committed hw; epoch/logStart of
//	                         the stored checkpoint) -> the portable byte stream is kept by the runner
//	import reader|bytes      import the kept stream into a FRESH target engine, re-export the target with
//	                         the same cuts (must be byte-identical), dump the target (typed KV dump, as C09)
//	retry  reader|bytes      import the same stream again into the SAME target (idempotent retry)
//	corrupt mode kind pos v  one corrupted stream into a fresh target: kind = flip|trunc|extend|fixflip
//	                         (fixflip = flip one byte and RECOMPUTE the CRC trailer, so the parser is reached)
//	sweep mode               every single-byte flip and every truncation of the kept stream (small streams)
//	sweepfix mode stride     CRC-fixed single-byte flips at every stride-th offset
//
// Metadata side (pkg/db/meta), prefix `x`:
//
//	xuser s uid tok | xdev s uid flag tok | xchan s id type ban | xsub s id type uid...     writes into hash slot s
//	xexport backup|full s...   OpenBackupHashSlotSnapshot / OpenHashSlotSnapshot
//	ximport restore|plain      ImportHashSlotSnapshotReaderForRestore / ImportHashSlotSnapshotReader into a fresh MetaDB,
//	                           re-export, raw dumps of source and target
//	xretry restore|plain       import again into the same target
//	xsweep restore|plain       every single-byte flip and truncation
//	xsweepfix restore|plain stride
package main

import (
	"bytes"
	"context"
	"encoding/binary"
	"errors"
	"fmt"
	"hash/crc32"
	"io"
	"log"
	"sort"
	"strconv"
	"strings"

	"github.com/WuKongIM/WuKongIM/pkg/db/message"
	channel "github.com/WuKongIM/WuKongIM/pkg/db/message/channelcompat"
	"github.com/WuKongIM/WuKongIM/pkg/db/meta"
	"github.com/WuKongIM/WuKongIM/pkg/quorumlog"
	"github.com/cockroachdb/pebble/v2/vfs"
)

func init() {
	log.SetOutput(io.Discard)
	Register(&Prop{Gen: genC11, NewRunner: func() Runner { return newC11Runner() }})
}

var c11Keys = []string{"c09/ch1", "c09/ch2", "c09/ch3"}

const c11MaxNum = 1 << 40

type c11Runner struct {
	src      *message.Engine
	stores   map[int]*message.ChannelStore
	seenID   map[uint64]bool
	seenIK   map[[2]uint64]bool
	seenCM   map[uint64]bool
	stream   []byte
	cuts     []message.BackupChannelCut
	dst      *message.Engine
	msrc     *meta.MetaDB
	msrcCl   func() error
	mstream  []byte
	mslots   []uint16
	mbackup  bool
	mdst     *meta.MetaDB
	mdstCl   func() error
}

func newC11Runner() *c11Runner {
	return &c11Runner{stores: map[int]*message.ChannelStore{}, seenID: map[uint64]bool{}, seenIK: map[[2]uint64]bool{}, seenCM: map[uint64]bool{}}
}

func c11NewEngine() *message.Engine { return c11OpenEngine(vfs.NewMem()) }

func c11OpenEngine(fs vfs.FS) *message.Engine {
	e, err := message.VerifOpenFS("db", fs)
	if err != nil {
		panic("open engine: " + err.Error())
	}
	return e
}

func (r *c11Runner) source() *message.Engine {
	if r.src == nil {
		r.src = c11NewEngine()
	}
	return r.src
}

func (r *c11Runner) Close() {
	for _, s := range r.stores {
		_ = s.Close()
	}
	if r.src != nil {
		_ = r.src.Close()
	}
	if r.dst != nil {
		_ = r.dst.Close()
	}
	if r.msrcCl != nil {
		_ = r.msrcCl()
	}
	if r.mdstCl != nil {
		_ = r.mdstCl()
	}
}

func c11Store(e *message.Engine, cache map[int]*message.ChannelStore, c int) *message.ChannelStore {
	if s, ok := cache[c]; ok {
		return s
	}
	s, err := e.ForChannel(channel.ChannelKey(c11Keys[c-1]), channel.ChannelID{ID: fmt.Sprintf("ch%d", c), Type: 2})
	if err != nil {
		panic("ForChannel: " + err.Error())
	}
	cache[c] = s
	return s
}

func c11Err(err error) string {
	switch {
	case err == nil:
		return "ok"
	case errors.Is(err, channel.ErrCorruptState):
		return "err:corrupt"
	case errors.Is(err, channel.ErrInvalidArgument):
		return "err:invalid"
	case errors.Is(err, channel.ErrCorruptValue):
		return "err:value"
	case errors.Is(err, channel.ErrClosed):
		return "err:closed"
	default:
		return "err:other"
	}
}

func c11Dump(e *message.Engine) string {
	ents, err := message.VerifDump(e, c11Keys)
	if err != nil {
		return "dump-error"
	}
	cache := map[int]*message.ChannelStore{}
	for c := 1; c <= 3; c++ {
		s := c11Store(e, cache, c)
		leo, err := s.LEOWithError()
		if err != nil {
			ents = append(ents, fmt.Sprintf("L.%d=%s", c, c11Err(err)))
		} else {
			ents = append(ents, fmt.Sprintf("L.%d=%d", c, leo))
		}
		if c == 3 {
			fr, err := s.LoadDurableFrontier(context.Background())
			if err != nil {
				ents = append(ents, fmt.Sprintf("F.%d=%s", c, c11Err(err)))
			} else {
				ents = append(ents, fmt.Sprintf("F.%d=%d.%d", c, fr.LEO, fr.Committed))
			}
		}
	}
	for _, s := range cache {
		_ = s.Close()
	}
	sort.Strings(ents)
	return strings.Join(ents, ";")
}

func c11Count(e *message.Engine) int {
	ents, err := message.VerifDump(e, c11Keys)
	if err != nil {
		return -1
	}
	return len(ents)
}

type c11Rec struct{ id, from, cno, flags, pay uint64 }

func c11Num(s string) (uint64, bool) {
	n, err := strconv.ParseUint(s, 10, 64)
	if err != nil || n >= c11MaxNum || strconv.FormatUint(n, 10) != s {
		return 0, false
	}
	return n, true
}

func c11ParseRecs(fs []string) ([]c11Rec, bool) {
	out := make([]c11Rec, 0, len(fs))
	for _, f := range fs {
		p := strings.Split(f, ":")
		if len(p) != 5 {
			return nil, false
		}
		var v [5]uint64
		for i := range p {
			n, ok := c11Num(p[i])
			if !ok {
				return nil, false
			}
			v[i] = n
		}
		if v[0] == 0 || v[3] > 255 {
			return nil, false
		}
		out = append(out, c11Rec{v[0], v[1], v[2], v[3], v[4]})
	}
	return out, true
}

func c11Tok(prefix string, n uint64) string {
	if n == 0 {
		return ""
	}
	return prefix + strconv.FormatUint(n, 10)
}

func c11Records(c int, recs []c11Rec, epoch uint64) []channel.Record {
	out := make([]channel.Record, 0, len(recs))
	for _, x := range recs {
		rec, err := message.VerifCompatRecord(x.id, c11Tok("u", x.from), c11Tok("c", x.cno), uint8(x.flags), []byte(c11Tok("p", x.pay)), 1000, fmt.Sprintf("ch%d", c), 2, epoch)
		if err != nil {
			panic("compat record: " + err.Error())
		}
		out = append(out, rec)
	}
	return out
}

func (r *c11Runner) noteSeen(recs []c11Rec, strict bool) (dup bool) {
	for _, x := range recs {
		if r.seenID[x.id] {
			dup = true
		}
		if x.from != 0 && x.cno != 0 && r.seenIK[[2]uint64{x.from, x.cno}] {
			dup = true
		}
	}
	for _, x := range recs {
		r.seenID[x.id] = true
		if x.from != 0 && x.cno != 0 {
			r.seenIK[[2]uint64{x.from, x.cno}] = true
		}
	}
	return dup && !strict
}

// mutate = C09's guard + call on the source engine (same op language, same answers).
func (r *c11Runner) mutate(f []string) string {
	e := r.source()
	num := func(i int) (uint64, bool) {
		if i >= len(f) {
			return 0, false
		}
		return c11Num(f[i])
	}
	ch := func(lo, hi uint64) (int, bool) {
		c, ok := num(1)
		if !ok || c < lo || c > hi {
			return 0, false
		}
		return int(c), true
	}
	n := func(i int) uint64 { v, _ := c11Num(f[i]); return v }
	ctx := context.Background()
	if len(f) == 0 {
		return "bad-op"
	}
	switch f[0] {
	case "app":
		c, ok := ch(1, 2)
		mode, ok2 := num(2)
		if !ok || !ok2 || mode > 2 {
			return "bad-op"
		}
		recs, ok := c11ParseRecs(f[3:])
		if !ok {
			return "bad-op"
		}
		if r.noteSeen(recs, mode == 0) {
			return "guard:dup"
		}
		s := c11Store(e, r.stores, c)
		var base uint64
		var err error
		switch mode {
		case 0:
			base, err = s.Append(c11Records(c, recs, 0))
		case 1:
			base, err = s.AppendServerAllocated(c11Records(c, recs, 0))
		default:
			base, err = s.AppendTrusted(c11Records(c, recs, 0))
		}
		if err != nil {
			return c11Err(err)
		}
		return fmt.Sprintf("ok %d", base)
	case "fetch":
		c, ok := ch(1, 2)
		if !ok || len(f) < 3 {
			return "bad-op"
		}
		if f[2] != "-" {
			if _, ok := num(2); !ok {
				return "bad-op"
			}
		}
		recs, ok := c11ParseRecs(f[3:])
		if !ok {
			return "bad-op"
		}
		if r.noteSeen(recs, false) {
			return "guard:dup"
		}
		req := channel.ApplyFetchStoreRequest{Records: c11Records(c, recs, 0)}
		if f[2] != "-" {
			hw := n(2)
			req.CheckpointHW = &hw
		}
		leo, err := c11Store(e, r.stores, c).StoreApplyFetchTrusted(req)
		if err != nil {
			return c11Err(err)
		}
		return fmt.Sprintf("ok %d", leo)
	case "xapp":
		c, ok := ch(3, 3)
		cmdTok, ok1 := num(2)
		term, ok2 := num(3)
		committed, ok3 := num(4)
		mode, ok4 := num(5)
		if !ok || !ok1 || !ok2 || !ok3 || !ok4 || cmdTok == 0 || term == 0 || mode > 1 {
			return "bad-op"
		}
		recs, ok := c11ParseRecs(f[6:])
		if !ok {
			return "bad-op"
		}
		dupCmd := r.seenCM[cmdTok]
		r.seenCM[cmdTok] = true
		dup := r.noteSeen(recs, mode == 0)
		if dupCmd || dup {
			return "guard:dup"
		}
		s := c11Store(e, r.stores, c)
		fr, err := s.LoadDurableFrontier(ctx)
		if err != nil {
			return "err:frontier"
		}
		var cmd quorumlog.CommandID
		for i := range cmd {
			cmd[i] = 0xC9
		}
		for i := 0; i < 8; i++ {
			cmd[i] = byte(cmdTok >> (56 - 8*uint(i)))
		}
		m := quorumlog.ProposalManifest{
			Version: quorumlog.ProposalManifestVersion, ChannelEpoch: 1, LeaderTerm: term, FenceVersion: 1, CommandID: cmd,
			BaseOffset: fr.LEO, LastOffset: fr.LEO + uint64(len(recs)), PreviousIndex: fr.LEO,
			PreviousTerm: fr.TailIdentity.LeaderTerm, PreviousDigest: fr.TailIdentity.Digest,
		}
		qrecs := make([]quorumlog.Record, 0, len(recs))
		for _, x := range recs {
			qrecs = append(qrecs, quorumlog.Record{ID: x.id, Epoch: 1, FromUID: c11Tok("u", x.from), ClientMsgNo: c11Tok("c", x.cno),
				ServerTimestampMS: 1000, SyncOnce: x.flags&4 != 0, Payload: []byte(c11Tok("p", x.pay))})
		}
		if sealed, _, ok := quorumlog.SealProposalManifest(m, qrecs); ok {
			m = sealed
		}
		res := message.StoreAppendBatch(ctx, []message.AppendBatchItem{{
			Store: s, Records: c11Records(c, recs, 1), Committed: committed, ServerAllocatedMessageIDs: mode == 1,
			ExactBaseOffset: true, ExpectedBaseOffset: fr.LEO, Proposal: m,
		}})
		if res[0].Err != nil {
			return c11Err(res[0].Err)
		}
		return fmt.Sprintf("ok %d %d %d", res[0].BaseOffset, res[0].LastOffset, res[0].Outcome)
	case "trunc":
		c, ok := ch(1, 3)
		to, ok2 := num(2)
		if !ok || !ok2 || len(f) != 3 {
			return "bad-op"
		}
		if cp, err := c11Store(e, r.stores, c).LoadCheckpoint(); err == nil && to < cp.HW {
			return "guard:below-hw"
		}
		return c11Err(c11Store(e, r.stores, c).Truncate(to))
	case "adopt":
		c, ok := ch(1, 3)
		th, ok2 := num(2)
		if !ok || !ok2 || len(f) != 3 {
			return "bad-op"
		}
		hw := uint64(0)
		if cp, err := c11Store(e, r.stores, c).LoadCheckpoint(); err == nil {
			hw = cp.HW
		}
		if c == 3 && th > hw {
			return "guard:above-hw"
		}
		return c11Err(c11Store(e, r.stores, c).AdoptRetentionBoundary(ctx, th, "c"))
	case "trim":
		c, ok := ch(1, 3)
		th, ok2 := num(2)
		mx, ok3 := num(3)
		if !ok || !ok2 || !ok3 || len(f) != 4 || mx > 1000 {
			return "bad-op"
		}
		res, err := c11Store(e, r.stores, c).TrimMessagesThroughLimit(ctx, th, message.RetentionTrimOptions{MaxMessages: int(mx)})
		if err != nil {
			return c11Err(err)
		}
		more := 0
		if res.More {
			more = 1
		}
		return fmt.Sprintf("ok %d %d %d", res.Deleted, res.DeletedThroughSeq, more)
	case "ckpt":
		c, ok := ch(1, 3)
		hw, ok2 := num(2)
		if !ok || !ok2 || len(f) != 3 {
			return "bad-op"
		}
		leo, err := c11Store(e, r.stores, c).LEOWithError()
		if err != nil || hw > leo {
			return "guard:above-leo"
		}
		return c11Err(c11Store(e, r.stores, c).StoreCheckpointHWMonotonic(ctx, hw))
	}
	return "bad-op"
}

func c11Export(e *message.Engine, cuts []message.BackupChannelCut) ([]byte, message.BackupSnapshotStats, error) {
	rd, stats, err := e.OpenBackupSnapshotWithStats(context.Background(), message.BackupSnapshotRequest{HashSlot: 7, Channels: cuts})
	if err != nil {
		return nil, stats, err
	}
	data, err := io.ReadAll(rd)
	_ = rd.Close()
	return data, stats, err
}

var errC11Panic = errors.New("panic")

// c11Import: a panic on the legacy []byte path is reported as its own result class (`panics=`),
// a panic on the reader path propagates to the framework (PANIC = violation).
func c11Import(e *message.Engine, mode string, data []byte) (st message.BackupSnapshotStats, err error) {
	if mode == "bytes" {
		defer func() {
			if p := recover(); p != nil {
				err = errC11Panic
			}
		}()
		return e.ImportBackupSnapshot(context.Background(), data)
	}
	return e.ImportBackupSnapshotReader(context.Background(), bytes.NewReader(data), int64(len(data)))
}

// c11FailingReader fails every read beyond `limit` bytes of the pass that starts with the
// `armPass`-th rewind to offset 0 (ImportBackupSnapshotReader: pass 1 = checksum, 2 = validation,
// 3 = installation) — a backup-media read error in the middle of the install pass.
type c11FailingReader struct {
	r       *bytes.Reader
	rewinds int
	armPass int
	limit   int64
	pos     int64
	failed  bool
}

func (f *c11FailingReader) Seek(off int64, whence int) (int64, error) {
	n, err := f.r.Seek(off, whence)
	if err == nil && whence == io.SeekStart && off == 0 {
		f.rewinds++
	}
	f.pos = n
	return n, err
}

func (f *c11FailingReader) Read(p []byte) (int, error) {
	if f.rewinds >= f.armPass {
		if f.pos >= f.limit {
			f.failed = true
			return 0, errors.New("backup media read error")
		}
		if int64(len(p)) > f.limit-f.pos {
			p = p[:f.limit-f.pos]
		}
	}
	n, err := f.r.Read(p)
	f.pos += int64(n)
	return n, err
}

// c11Interrupted: install the kept stream into a fresh target with a read error after `limit` bytes of
// the install pass, reopen the target store, retry with the intact stream; returns the outcome of the
// interrupted attempt, of the retry, and the dump after the retry.
func (r *c11Runner) interrupted(limit int64) (first string, retry string, stats message.BackupSnapshotStats, dump string) {
	fs := vfs.NewMem()
	e := c11OpenEngine(fs)
	fr := &c11FailingReader{r: bytes.NewReader(r.stream), armPass: 3, limit: limit}
	_, err := e.ImportBackupSnapshotReader(context.Background(), fr, int64(len(r.stream)))
	first = "ok"
	if err != nil {
		first = "err"
	}
	_ = e.Close()
	e = c11OpenEngine(fs)
	stats, err = e.ImportBackupSnapshotReader(context.Background(), bytes.NewReader(r.stream), int64(len(r.stream)))
	retry = c11Err(err)
	dump = c11Dump(e)
	_ = e.Close()
	return
}

func c11FixCRC(b []byte) {
	if len(b) >= 4 {
		binary.BigEndian.PutUint32(b[len(b)-4:], crc32.ChecksumIEEE(b[:len(b)-4]))
	}
}

func (r *c11Runner) freshDst() {
	if r.dst != nil {
		_ = r.dst.Close()
	}
	r.dst = c11NewEngine()
}

func (r *c11Runner) Step(op string) string {
	f := strings.Fields(op)
	if len(f) == 0 {
		return "bad-op"
	}
	switch f[0] {
	case "m":
		return r.mutate(f[1:])
	case "export":
		e := r.source()
		var cuts []message.BackupChannelCut
		for _, a := range f[1:] {
			p := strings.Split(a, ":")
			if len(p) != 2 {
				return "bad-op"
			}
			c, ok1 := c11Num(p[0])
			hw, ok2 := c11Num(p[1])
			if !ok1 || !ok2 || c < 1 || c > 3 {
				return "bad-op"
			}
			// caller contract: a backup cut is never below the channel's adopted retention boundary
			if rs, err := c11Store(e, r.stores, int(c)).LoadRetentionState(); err == nil && hw < rs.LocalRetentionThroughSeq {
				r.stream, r.cuts = nil, nil
				return "guard:cut-below-retention"
			}
			cp := message.Checkpoint{HW: hw}
			if cur, err := c11Store(e, r.stores, int(c)).LoadCheckpoint(); err == nil {
				cp.Epoch, cp.LogStartOffset = cur.Epoch, cur.LogStartOffset
			}
			cuts = append(cuts, message.BackupChannelCut{Key: message.ChannelKey(c11Keys[c-1]), ID: message.ChannelID{ID: fmt.Sprintf("ch%d", c), Type: 2}, Checkpoint: cp})
		}
		data, stats, err := c11Export(e, cuts)
		if err != nil {
			r.stream, r.cuts = nil, nil
			return c11Err(err)
		}
		r.stream, r.cuts = data, cuts
		return fmt.Sprintf("ok ch=%d msgs=%d maxid=%d crcok=%v", stats.ChannelCount, stats.MessageCount, stats.MaxMessageID,
			len(data) >= 16 && crc32.ChecksumIEEE(data[:len(data)-4]) == binary.BigEndian.Uint32(data[len(data)-4:]))
	case "import", "retry":
		if len(f) != 2 || (f[1] != "reader" && f[1] != "bytes") {
			return "bad-op"
		}
		if r.stream == nil {
			return "no-stream"
		}
		if f[0] == "import" || r.dst == nil {
			r.freshDst()
		}
		stats, err := c11Import(r.dst, f[1], r.stream)
		if err != nil {
			return c11Err(err) + " # " + c11Dump(r.dst)
		}
		again, _, err := c11Export(r.dst, r.cuts)
		same := err == nil && bytes.Equal(again, r.stream)
		return fmt.Sprintf("ok ch=%d msgs=%d maxid=%d same=%v # %s", stats.ChannelCount, stats.MessageCount, stats.MaxMessageID, same, c11Dump(r.dst))
	case "pimport":
		// pimport : on a fresh target PROBE every channel first (acquire the lease, read LEO, release it — the
		// released entry may stay cached), then restore, then — on the SAME MessageDB instance, no reopen — read
		// LEO of every cut channel and append one strict record to every plain cut channel.
		if len(f) != 1 {
			return "bad-op"
		}
		if r.stream == nil {
			return "no-stream"
		}
		r.freshDst()
		for c := 1; c <= 3; c++ {
			cache := map[int]*message.ChannelStore{}
			_, _ = c11Store(r.dst, cache, c).LEOWithError()
			_ = cache[c].Close()
		}
		if _, err := c11Import(r.dst, "reader", r.stream); err != nil {
			return c11Err(err) + " # " + c11Dump(r.dst)
		}
		var leos, apps []string
		for _, cut := range r.cuts {
			c := 0
			for i, k := range c11Keys {
				if string(cut.Key) == k {
					c = i + 1
				}
			}
			cache := map[int]*message.ChannelStore{}
			st := c11Store(r.dst, cache, c)
			leo, err := st.LEOWithError()
			if err != nil {
				leos = append(leos, fmt.Sprintf("%d:err", c))
			} else {
				leos = append(leos, fmt.Sprintf("%d:%d", c, leo))
			}
			if c != 3 {
				base, err := st.Append(c11Records(c, []c11Rec{{id: uint64(900000 + c), pay: 1}}, 0))
				if err != nil {
					apps = append(apps, fmt.Sprintf("%d:%s", c, c11Err(err)))
				} else {
					apps = append(apps, fmt.Sprintf("%d:%d", c, base))
				}
			}
			_ = st.Close()
		}
		return fmt.Sprintf("ok leo=%s app=%s # %s", strings.Join(leos, ","), strings.Join(apps, ","), c11Dump(r.dst))
	case "corrupt":
		if len(f) != 5 || (f[1] != "reader" && f[1] != "bytes") {
			return "bad-op"
		}
		pos, ok1 := c11Num(f[3])
		val, ok2 := c11Num(f[4])
		if !ok1 || !ok2 {
			return "bad-op"
		}
		if r.stream == nil {
			return "no-stream"
		}
		b := append([]byte(nil), r.stream...)
		switch f[2] {
		case "flip":
			b[int(pos)%len(b)] ^= byte(val%255) + 1
		case "trunc":
			b = b[:int(pos)%len(b)]
		case "extend":
			b = append(b, byte(val))
		case "fixflip":
			b[int(pos)%(len(b)-4)] ^= byte(val%255) + 1
			c11FixCRC(b)
		default:
			return "bad-op"
		}
		r.freshDst()
		_, err := c11Import(r.dst, f[1], b)
		if err == errC11Panic {
			r.freshDst()
			return "panic"
		}
		if err != nil {
			return fmt.Sprintf("rejected left=%d", c11Count(r.dst))
		}
		return "accepted # " + c11Dump(r.dst)
	case "sweep":
		if len(f) != 2 || (f[1] != "reader" && f[1] != "bytes") {
			return "bad-op"
		}
		if r.stream == nil {
			return "no-stream"
		}
		r.freshDst()
		flips, frej, truncs, trej, partial := 0, 0, 0, 0, 0
		try := func(b []byte) bool {
			_, err := c11Import(r.dst, f[1], b)
			if err == errC11Panic {
				partial += 1000000
				r.freshDst()
				return true
			}
			if err == nil {
				r.freshDst()
				return false
			}
			if c11Count(r.dst) != 0 {
				partial++
				r.freshDst()
			}
			return true
		}
		for i := range r.stream {
			for _, x := range []byte{0x01, 0x80, 0xFF} {
				b := append([]byte(nil), r.stream...)
				b[i] ^= x
				flips++
				if try(b) {
					frej++
				}
			}
			truncs++
			if try(r.stream[:i]) {
				trej++
			}
		}
		return fmt.Sprintf("flips=%d rejected=%d truncs=%d rejected=%d partial=%d", flips, frej, truncs, trej, partial)
	case "interrupt":
		// interrupt permille : read error after permille/1000 of the stream in the install pass, reopen, retry
		if len(f) != 2 {
			return "bad-op"
		}
		pm, ok := c11Num(f[1])
		if !ok || pm > 1000 {
			return "bad-op"
		}
		if r.stream == nil {
			return "no-stream"
		}
		first, retry, stats, dump := r.interrupted(int64(len(r.stream)) * int64(pm) / 1000)
		if retry != "ok" {
			return fmt.Sprintf("int=%s retry=%s # %s", first, retry, dump)
		}
		return fmt.Sprintf("int=%s retry=ok ch=%d msgs=%d maxid=%d # %s", first, stats.ChannelCount, stats.MessageCount, stats.MaxMessageID, dump)
	case "intsweep":
		// intsweep stride : the same at every stride-th byte offset; every retry must reproduce the clean restore
		if len(f) != 2 {
			return "bad-op"
		}
		stride, ok := c11Num(f[1])
		if !ok || stride == 0 {
			return "bad-op"
		}
		if r.stream == nil {
			return "no-stream"
		}
		clean := c11NewEngine()
		_, err := clean.ImportBackupSnapshotReader(context.Background(), bytes.NewReader(r.stream), int64(len(r.stream)))
		want := c11Dump(clean)
		_ = clean.Close()
		if err != nil {
			return "clean-import-failed"
		}
		n, failed, retryok, eq := 0, 0, 0, 0
		for off := int64(0); off < int64(len(r.stream)); off += int64(stride) {
			n++
			first, retry, _, dump := r.interrupted(off)
			if first == "err" {
				failed++
			}
			if retry == "ok" {
				retryok++
			}
			if dump == want {
				eq++
			}
		}
		return fmt.Sprintf("n=%d failed=%d retryok=%d eqclean=%d", n, failed, retryok, eq)
	case "sweepfix":
		if len(f) != 3 || (f[1] != "reader" && f[1] != "bytes") {
			return "bad-op"
		}
		stride, ok := c11Num(f[2])
		if !ok || stride == 0 {
			return "bad-op"
		}
		if r.stream == nil {
			return "no-stream"
		}
		r.freshDst()
		n, rej, acc, partial, panics := 0, 0, 0, 0, 0
		for i := 0; i < len(r.stream)-4; i += int(stride) {
			b := append([]byte(nil), r.stream...)
			b[i] ^= byte(1 + (i*7)%255)
			c11FixCRC(b)
			n++
			_, err := c11Import(r.dst, f[1], b)
			if err == errC11Panic {
				panics++
				r.freshDst()
				continue
			}
			if err == nil {
				acc++
				r.freshDst()
				continue
			}
			rej++
			if c11Count(r.dst) != 0 {
				partial++
				r.freshDst()
			}
		}
		return fmt.Sprintf("n=%d rejected=%d accepted=%d partial=%d panics=%d", n, rej, acc, partial, panics)
	}
	if strings.HasPrefix(f[0], "x") {
		return r.metaStep(f)
	}
	return "bad-op"
}

//go:build verif

package main

import (
	"fmt"
	"strings"
)

// genC11: g.N = number of cases; 70 % message-store cases, 30 % metadata cases.
func genC11(g *Gen) {
	for i := 0; i < g.N; i++ {
		g.Case()
		if i == 0 {
			genC11Bulk(g)
			continue
		}
		if i == 1 {
			genC11MetaBulk(g)
			continue
		}
		if g.R.Chance(70) {
			genC11Message(g)
		} else {
			genC11Meta(g)
		}
	}
}

func genC11Message(g *Gen) {
	g.Count("case:message")
	s := &c11Sim{nextID: 100, nextCno: 1, nextCmd: 1}
	rounds := g.R.Pick(7, 3)
	for rd := 0; rd <= rounds; rd++ {
		nops := g.R.Range(6, 24)
		for j := 0; j < nops; j++ {
			op := c11GenOp(g, s)
			if op == "reopen" {
				continue
			}
			emitC11(g, "m "+op)
		}
		// cuts
		var cuts []string
		for c := 1; c <= 3; c++ {
			if !g.R.Chance(85) {
				continue
			}
			hw := s.hw[c]
			switch g.R.Pick(6, 2, 1, 1) {
			case 1:
				hw = uint64(g.R.Intn(int(s.leo[c]) + 1))
				g.Count("cut:random<=leo")
			case 2:
				hw = s.leo[c]
				g.Count("cut:at-leo")
			case 3:
				hw = s.leo[c] + 1
				g.Count("cut:above-leo")
			default:
				g.Count("cut:at-hw")
			}
			if hw < s.leo[c] {
				g.Count("cut:uncommitted-suffix")
			}
			if s.local[c] > 0 {
				g.Count("cut:with-retention")
			}
			cuts = append(cuts, fmt.Sprintf("%d:%d", c, hw))
		}
		if len(cuts) == 0 {
			cuts = []string{"1:0"}
		}
		emitC11(g, "export "+strings.Join(cuts, " "))
		mode := []string{"reader", "reader", "reader", "bytes"}[g.R.Intn(4)]
		emitC11(g, "import "+mode)
		if g.R.Chance(60) {
			emitC11(g, "retry "+[]string{"reader", "bytes"}[g.R.Intn(2)])
		}
		if g.R.Chance(50) {
			emitC11(g, "pimport")
		}
		emitC11(g, fmt.Sprintf("interrupt %d", g.R.Range(1, 999)))
		if g.R.Chance(15) {
			emitC11(g, fmt.Sprintf("intsweep %d", []int{61, 101, 211}[g.R.Intn(3)]))
		}
		for k := 0; k < 3; k++ {
			kind := []string{"flip", "trunc", "extend", "fixflip", "fixflip"}[g.R.Intn(5)]
			emitC11(g, fmt.Sprintf("corrupt %s %s %d %d", []string{"reader", "bytes"}[g.R.Intn(2)], kind, g.R.Intn(1<<20), g.R.Intn(256)))
			g.Count("corrupt:" + kind)
		}
		switch g.R.Pick(4, 3, 2, 3) {
		case 0:
			emitC11(g, "sweep reader")
		case 1:
			emitC11(g, "sweepfix reader 1")
		case 2:
			emitC11(g, fmt.Sprintf("sweepfix bytes %d", g.R.Range(1, 5)))
		}
	}
}

func genC11Meta(g *Gen) {
	g.Count("case:meta")
	n := g.R.Range(4, 30)
	if g.R.Chance(30) {
		n = g.R.Range(1, 3) // tiny exports: 0-3 entries (last-batch / empty-stream boundaries)
		g.Count("meta:tiny")
	}
	for j := 0; j < n; j++ {
		slot := g.R.Range(1, 3)
		switch g.R.Pick(4, 2, 3, 3) {
		case 0:
			emitC11(g, fmt.Sprintf("xuser %d %d %d", slot, g.R.Range(1, 12), g.R.Intn(1000)))
		case 1:
			emitC11(g, fmt.Sprintf("xdev %d %d %d %d", slot, g.R.Range(1, 12), g.R.Intn(4), g.R.Intn(1000)))
		case 2:
			emitC11(g, fmt.Sprintf("xchan %d %d %d %d", slot, g.R.Range(1, 6), g.R.Intn(3), g.R.Intn(2)))
		default:
			var u []string
			for k := 0; k < g.R.Range(1, 4); k++ {
				u = append(u, fmt.Sprint(g.R.Range(1, 12)))
			}
			emitC11(g, fmt.Sprintf("xsub %d %d %d %s", slot, g.R.Range(1, 6), g.R.Intn(3), strings.Join(u, " ")))
		}
	}
	emitC11(g, fmt.Sprintf("xuser 4 %d %d", g.R.Range(1, 12), g.R.Intn(1000))) // slot 4 is never exported: the foreign slot
	backup := g.R.Chance(60)
	slots := [][]string{{"1"}, {"1", "2"}, {"2", "3"}, {"1", "2", "3"}, {"3", "1"}}[g.R.Intn(5)]
	if backup {
		emitC11(g, "xexport backup "+strings.Join(slots, " "))
		emitC11(g, "ximport restore")
		emitC11(g, fmt.Sprintf("xforeign restore 4 %d", g.R.Intn(64)))
		if g.R.Chance(50) {
			emitC11(g, "xretry restore")
		}
		if g.R.Chance(50) {
			emitC11(g, "xsweep restore")
		} else {
			emitC11(g, "xsweepfix restore 1")
		}
	} else {
		emitC11(g, "xexport full "+strings.Join(slots, " "))
		emitC11(g, "ximport plain")
		emitC11(g, fmt.Sprintf("xforeign plain 4 %d", g.R.Intn(64)))
		if g.R.Chance(50) {
			emitC11(g, "xretry plain")
		}
		if g.R.Chance(50) {
			emitC11(g, "xsweep plain")
		} else {
			emitC11(g, "xsweepfix plain 1")
		}
	}
}

// genC11Bulk: one channel with more rows than one 1024-row import batch (2500), one small channel;
// the restore is interrupted at several points of the install pass and retried.
func genC11Bulk(g *Gen) {
	g.Count("case:message-bulk-2500")
	var recs []string
	for i := 0; i < 2500; i++ {
		recs = append(recs, fmt.Sprintf("%d:0:0:0:%d", 1000+i, g.R.Intn(60)))
	}
	emitC11(g, "m app 1 1 "+strings.Join(recs, " "))
	emitC11(g, "m ckpt 1 2500")
	emitC11(g, "m fetch 2 2 5000:1:1:0:5 5001:2:2:0:6 5002:0:3:0:7")
	emitC11(g, "export 1:2500 2:2")
	emitC11(g, "import reader")
	for _, pm := range []int{g.R.Range(30, 200), g.R.Range(350, 450), g.R.Range(550, 700), g.R.Range(800, 990)} {
		emitC11(g, fmt.Sprintf("interrupt %d", pm))
	}
}

// genC11MetaBulk: more than 1024 entries in the exported slot, foreign key spliced in before and after
// the first full import batch.
func genC11MetaBulk(g *Gen) {
	g.Count("case:meta-bulk-1100")
	emitC11(g, fmt.Sprintf("xuser 4 %d %d", g.R.Range(1, 12), g.R.Intn(1000)))
	emitC11(g, fmt.Sprintf("xchan 1 %d 1 0", g.R.Range(1, 6)))
	emitC11(g, "xbulk 1 1100")
	mode := []string{"restore", "plain"}[g.R.Intn(2)]
	if mode == "restore" {
		emitC11(g, "xexport backup 1")
	} else {
		emitC11(g, "xexport full 1")
	}
	emitC11(g, "ximport "+mode)
	emitC11(g, fmt.Sprintf("xforeign %s 4 %d", mode, g.R.Range(1030, 1100)))
	emitC11(g, fmt.Sprintf("xforeign %s 4 %d", mode, g.R.Range(0, 900)))
	emitC11(g, "xretry "+mode)
}

//go:build verif

package main

// C06 — channel runtime state machine (pkg/channel/machine) + the reactor's
// guarded follower-ack entry points.  One case = one ChannelState driven by a
// random event sequence; after every event the Decision and the whole
// observable state are printed in a canonical form (see lean/Driver/C06.lean).

import (
	"errors"
	"fmt"
	"sort"
	"strconv"
	"strings"

	ch "github.com/WuKongIM/WuKongIM/pkg/channel"
	"github.com/WuKongIM/WuKongIM/pkg/channel/machine"
	"github.com/WuKongIM/WuKongIM/pkg/channel/reactor"
)

func init() {
	Register(&Prop{Gen: genC06, NewRunner: func() Runner { return newC06Runner() }})
}

// ---------------------------------------------------------------- generator --

type c06Shadow struct {
	local    int
	epoch    int
	lepoch   int
	leader   int
	leo      int // rough estimate, only used to pick plausible offsets
	nextOp   int
	recent   []int // recently proposed waiter ops
	batchOp  int   // last proposed batch op
	batchLen int
	isr      []int
	replicas []int
	status   int
	inflight bool // shadow guess: a batch is awaiting its store result
}

func csv(xs []int) string {
	if len(xs) == 0 {
		return "-"
	}
	s := make([]string, len(xs))
	for i, x := range xs {
		s[i] = strconv.Itoa(x)
	}
	return strings.Join(s, ",")
}

func (sh *c06Shadow) genMeta(g *Gen, first bool) {
	key := []int{1, 1, 1, 1, 0, 0, 0, 2}[g.R.Intn(8)]
	id := 1
	if !first && g.R.Chance(6) {
		id = g.R.Intn(3)
	}
	epoch, lepoch, leader := sh.epoch, sh.lepoch, sh.leader
	kind := "same"
	if first {
		epoch, lepoch = g.R.Range(1, 3), g.R.Range(1, 2)
		leader = sh.local
		if g.R.Chance(15) {
			leader = g.R.Range(1, 4)
		}
		kind = "first"
	} else {
		switch g.R.Pick(30, 14, 14, 8, 8, 8, 6) {
		case 0: // same fence (membership / status refresh)
		case 1:
			lepoch++
			leader = g.R.Range(1, 4)
			if g.R.Chance(75) {
				leader = sh.local
			}
			kind = "leader-epoch+"
		case 2:
			epoch++
			if g.R.Chance(50) {
				lepoch = g.R.Range(0, lepoch+1)
			}
			if g.R.Chance(25) {
				leader = g.R.Range(1, 4)
			}
			kind = "epoch+"
		case 3:
			if epoch > 0 {
				epoch--
			}
			kind = "epoch-"
		case 4:
			if lepoch > 0 {
				lepoch--
			}
			kind = "leader-epoch-"
		case 5:
			leader = g.R.Range(1, 4)
			kind = "same-fence-leader-switch?"
		default:
			epoch, lepoch, leader = g.R.Range(0, 4), g.R.Range(0, 4), g.R.Range(0, 4)
			kind = "random"
		}
	}
	// membership
	var replicas []int
	for n := 1; n <= 4; n++ {
		if n == leader || n == sh.local || g.R.Chance(60) {
			replicas = append(replicas, n)
		}
	}
	if g.R.Chance(5) {
		replicas = nil
	}
	var isr []int
	for _, n := range replicas {
		if n == leader || g.R.Chance(70) {
			isr = append(isr, n)
		}
	}
	if g.R.Chance(4) { // ISR member outside the replica set / duplicate
		isr = append(isr, g.R.Range(1, 5))
	}
	minisr := 1
	if len(isr) > 0 {
		minisr = g.R.Range(1, len(isr))
		if g.R.Chance(65) && len(isr) >= 2 {
			minisr = len(isr)/2 + 1
		}
	}
	switch g.R.Pick(90, 3, 3, 4) {
	case 1:
		minisr = 0
	case 2:
		minisr = -1
	case 3:
		minisr = len(isr) + 1
	}
	status := 2
	switch g.R.Pick(86, 6, 3, 2, 2, 1) {
	case 1:
		status = 1
	case 2:
		status = 3
	case 3:
		status = 4
	case 4:
		status = 0
	case 5:
		status = 5
	}
	g.Count("meta:" + kind)
	g.Op("meta", "%d %d %d %d %d %s %s %d %d", key, id, epoch, lepoch, leader, csv(replicas), csv(isr), minisr, status)
	// optimistic shadow: assume accepted when it does not regress
	if key != 2 && minisr >= 1 && minisr <= len(isr) &&
		(epoch > sh.epoch || (epoch == sh.epoch && (lepoch > sh.lepoch || (lepoch == sh.lepoch && (leader == sh.leader || first))))) {
		if epoch != sh.epoch || lepoch != sh.lepoch || leader != sh.leader || status != sh.status {
			sh.inflight = false
		}
		sh.epoch, sh.lepoch, sh.leader = epoch, lepoch, leader
		sh.isr, sh.replicas, sh.status = isr, replicas, status
	}
}

func (sh *c06Shadow) fenceTok(g *Gen, what string) string {
	switch g.R.Pick(80, 5, 5, 4, 3, 3) {
	case 1:
		g.Count(what + ":stale-epoch")
		return fmt.Sprintf("1,7,%d,%d", max(sh.epoch-1, 0), sh.lepoch)
	case 2:
		g.Count(what + ":stale-leader-epoch")
		return fmt.Sprintf("1,7,%d,%d", sh.epoch, max(sh.lepoch-1, 0))
	case 3:
		g.Count(what + ":stale-generation")
		return fmt.Sprintf("1,%d,%d,%d", 6+2*g.R.Intn(2), sh.epoch, sh.lepoch)
	case 4:
		g.Count(what + ":other-key")
		return fmt.Sprintf("2,7,%d,%d", sh.epoch, sh.lepoch)
	case 5:
		g.Count(what + ":explicit-current-fence")
		return fmt.Sprintf("1,7,%d,%d", sh.epoch, sh.lepoch)
	}
	return "cur"
}

func (sh *c06Shadow) opTok(g *Gen, what string) string {
	switch g.R.Pick(85, 6, 5, 4) {
	case 1:
		g.Count(what + ":explicit-batch-op")
		return strconv.Itoa(sh.batchOp)
	case 2:
		g.Count(what + ":old-op")
		return strconv.Itoa(max(sh.batchOp-1-g.R.Intn(3), 0))
	case 3:
		g.Count(what + ":zero-op")
		return "0"
	}
	return "cur"
}

func (sh *c06Shadow) errTok(g *Gen, what string) int {
	if g.R.Chance(88) {
		return 0
	}
	g.Count(what + ":error-result")
	return g.R.Range(1, 4)
}

func (sh *c06Shadow) genPropose(g *Gen) {
	if g.R.Chance(12) {
		op := sh.freshOrReused(g)
		mode := g.R.Intn(3)
		nrec := g.R.Pick(5, 40, 30, 17, 8)
		g.Count("prop1:nrec=" + strconv.Itoa(min(nrec, 2)))
		g.Op("prop1", "%d %d %d", op, mode, nrec)
		if sh.canPropose() && nrec > 0 {
			sh.batchOp, sh.batchLen, sh.inflight = op, nrec, true
		}
		sh.recent = append(sh.recent, op)
		return
	}
	nw := g.R.Pick(2, 45, 30, 15, 8)
	batch := sh.nextOp
	sh.nextOp++
	if g.R.Chance(10) && nw > 0 {
		batch = -1 // use the first waiter's op as the batch op
	}
	var ws []string
	total := 0
	var ops []int
	for i := 0; i < nw; i++ {
		op := sh.freshOrReused(g)
		if i > 0 && g.R.Chance(4) {
			op = ops[g.R.Intn(len(ops))]
			g.Count("prop:duplicate-op-in-batch")
		}
		mode := g.R.Pick(15, 55, 30)
		nrec := g.R.Pick(4, 34, 30, 22, 10)
		if nrec >= 2 && mode != 2 {
			g.Count("prop:multi-record-quorum-waiter")
		}
		if nrec == 0 {
			g.Count("prop:empty-waiter")
		}
		total += nrec
		ops = append(ops, op)
		ws = append(ws, fmt.Sprintf("%d:%d:%d", op, mode, nrec))
	}
	if batch == -1 {
		batch = ops[0]
	}
	g.Count("prop:waiters=" + strconv.Itoa(nw))
	w := "-"
	if len(ws) > 0 {
		w = strings.Join(ws, ";")
	}
	g.Op("prop", "%d %s", batch, w)
	if sh.canPropose() && total > 0 {
		sh.batchOp, sh.batchLen, sh.inflight = batch, total, true
	}
	sh.recent = append(sh.recent, ops...)
	if len(sh.recent) > 12 {
		sh.recent = sh.recent[len(sh.recent)-12:]
	}
}

func (sh *c06Shadow) canPropose() bool {
	return !sh.inflight && sh.leader == sh.local && (sh.status == 1 || sh.status == 2)
}

func (sh *c06Shadow) freshOrReused(g *Gen) int {
	if len(sh.recent) > 0 && g.R.Chance(7) {
		g.Count("prop:reused-op")
		return sh.recent[g.R.Intn(len(sh.recent))]
	}
	op := sh.nextOp
	sh.nextOp++
	return op
}

func (sh *c06Shadow) follower(g *Gen) int {
	if len(sh.isr) > 0 && g.R.Chance(70) {
		n := sh.isr[g.R.Intn(len(sh.isr))]
		if n == sh.local {
			n = sh.isr[g.R.Intn(len(sh.isr))]
		}
		return n
	}
	if len(sh.replicas) > 0 && g.R.Chance(80) {
		return sh.replicas[g.R.Intn(len(sh.replicas))]
	}
	return g.R.Range(0, 5)
}

func (sh *c06Shadow) offset(g *Gen, what string) int {
	switch g.R.Pick(20, 28, 7, 5, 5, 5, 30) {
	case 6: // strictly inside the range of the most recently stored batch / waiter
		g.Count(what + ":offset-inside-last-batch")
		return max(sh.leo-g.R.Range(1, 3), 0)
	case 1:
		g.Count(what + ":offset=leo-estimate")
		return sh.leo
	case 2:
		g.Count(what + ":offset=leo+1")
		return sh.leo + 1
	case 3:
		g.Count(what + ":offset=0")
		return 0
	case 4:
		g.Count(what + ":offset-far-ahead")
		return sh.leo + g.R.Range(2, 50)
	case 5:
		return g.R.Range(0, sh.leo+3)
	}
	return g.R.Range(0, sh.leo)
}

func genC06(g *Gen) {
	events := 60
	for c := 0; c < g.N; c++ {
		g.Case()
		sh := &c06Shadow{local: g.R.Range(1, 2), nextOp: 1}
		if g.R.Chance(30) {
			leo := g.R.Range(0, 20)
			hw := g.R.Range(0, leo)
			ck := g.R.Range(0, hw)
			if g.R.Chance(5) { // invalid loaded state: refused by both sides
				hw = leo + 1
				g.Count("init:invalid")
			}
			sh.leo = leo
			g.Op("init", "%d %d %d %d", sh.local, leo, hw, ck)
		} else {
			g.Op("init", "%d 0 0 0", sh.local)
		}
		if g.R.Chance(92) {
			sh.genMeta(g, true)
		}
		n := g.R.Range(events/2, events)
		for i := 0; i < n; i++ {
			wProp, wStored, wQC := 40, 3, 2
			if sh.inflight {
				wProp, wStored, wQC = 6, 40, 12
			}
			wMeta, wAck := 6, 26
			if sh.leader != sh.local || !(sh.status == 1 || sh.status == 2) {
				// not a serving leader: a few rejected calls, then metadata moves on
				wProp, wStored, wQC, wMeta, wAck = 5, 3, 2, 30, 6
				g.Count("step:while-not-serving-leader")
			} else {
				g.Count("step:while-serving-leader")
			}
			switch g.R.Pick(wProp, wStored, wQC, wAck, 8, 5, 5, 2, wMeta, 1, 3, 3) {
			case 10: // quorum install result (reactor.handleQuorumInstallResult)
				f := "cur"
				if g.R.Chance(12) {
					f = sh.fenceTok(g, "install")
				}
				o := "pend"
				if g.R.Chance(8) {
					o = strconv.Itoa(g.R.Range(0, 120))
					g.Count("install:other-op")
				}
				auth := 1
				if g.R.Chance(10) {
					auth = g.R.Pick(1, 0, 1) // 0 or 2
					g.Count("install:bad-authority-or-nil-result")
				}
				e := 0
				if g.R.Chance(8) {
					e = g.R.Range(1, 4)
					g.Count("install:error-result")
				}
				k := g.R.Pick(40, 30, 20, 10)
				leo, hw := "l", "h"
				if k > 0 {
					leo = fmt.Sprintf("l+%d", k)
				}
				switch g.R.Pick(30, 30, 25, 5, 5, 5) {
				case 1:
					hw = "h+1" // may exceed the LEO (rejected) when HW = LEO and k = 0
				case 2:
					hw = "l" // everything up to the old LEO is committed
				case 3:
					hw = fmt.Sprintf("l+%d", k+1+g.R.Intn(3))
					g.Count("install:hw-above-leo")
				case 4: // recovery returns less than the local state (see DESIGN §8.1)
					hw = fmt.Sprintf("h-%d", g.R.Range(1, 3))
					g.Count("install:regressing-hw")
				case 5:
					leo, hw = fmt.Sprintf("l-%d", g.R.Range(1, 3)), "0"
					g.Count("install:regressing-leo")
				}
				g.Op("install", "%s %s %d %s %s %d", f, o, auth, leo, hw, e)
				if f == "cur" && o == "pend" && auth == 1 && e == 0 && strings.HasPrefix(leo, "l+") {
					sh.leo += k
				}
				continue
			case 11: // store checkpoint result (reactor.handleStoreCheckpointResult)
				f := "cur"
				if g.R.Chance(15) {
					f = sh.fenceTok(g, "ckres")
				}
				wr, e := 1, 0
				if g.R.Chance(7) {
					wr = 0
				}
				if g.R.Chance(8) {
					e = g.R.Range(1, 4)
				}
				v := []string{"h", "h", "h", "m", "m", "c", "h-1", "h-3"}[g.R.Intn(8)]
				g.Count("ckres:value=" + v)
				g.Op("ckres", "%s %d %s %d", f, wr, v, e)
				continue
			case 0:
				sh.genPropose(g)
			case 1:
				f, o, e := sh.fenceTok(g, "stored"), sh.opTok(g, "stored"), sh.errTok(g, "stored")
				base, last := "n", "n"
				switch g.R.Pick(80, 6, 5, 5, 4) {
				case 1:
					base = strconv.Itoa(g.R.Range(0, sh.leo+3))
					g.Count("stored:arbitrary-base")
				case 2:
					last = strconv.Itoa(g.R.Range(0, sh.leo+5))
					g.Count("stored:arbitrary-last")
				case 3:
					base, last = "0", "0"
					g.Count("stored:base=0")
				case 4:
					base, last = strconv.Itoa(g.R.Range(0, sh.leo+3)), strconv.Itoa(g.R.Range(0, sh.leo+5))
					g.Count("stored:arbitrary-base-and-last")
				}
				g.Op("stored", "%s %s %s %s %d", f, o, base, last, e)
				if sh.inflight && (f == "cur" || f == fmt.Sprintf("1,7,%d,%d", sh.epoch, sh.lepoch)) && (o == "cur" || o == strconv.Itoa(sh.batchOp)) {
					if e == 0 && base == "n" && last == "n" {
						sh.leo += sh.batchLen
					} else if e == 0 && last != "n" {
						if v, _ := strconv.Atoi(last); v > sh.leo {
							sh.leo = v
						}
					}
					sh.inflight = false
				}
			case 2:
				f, o, e := sh.fenceTok(g, "qc"), sh.opTok(g, "qc"), sh.errTok(g, "qc")
				first, last, hw := "n", "n", "n"
				switch g.R.Pick(72, 6, 6, 6, 5, 5) {
				case 1:
					first = "0"
					g.Count("qc:first=0")
				case 2:
					first = strconv.Itoa(g.R.Range(1, sh.leo+3))
					g.Count("qc:arbitrary-first")
				case 3:
					last = strconv.Itoa(g.R.Range(0, sh.leo+5))
					g.Count("qc:arbitrary-last")
				case 4:
					hw = strconv.Itoa(g.R.Range(0, sh.leo+5))
					g.Count("qc:hw!=last")
				case 5:
					first = strconv.Itoa(g.R.Range(1, max(sh.leo, 1)))
					last = "f" // last = first+count-1 : consistent range below the LEO
					g.Count("qc:consistent-range-not-at-leo")
				}
				g.Op("qc", "%s %s %s %s %s %d", f, o, first, last, hw, e)
				if sh.inflight && (f == "cur" || f == fmt.Sprintf("1,7,%d,%d", sh.epoch, sh.lepoch)) && (o == "cur" || o == strconv.Itoa(sh.batchOp)) {
					if e == 0 && first == "n" && last == "n" && hw == "n" {
						sh.leo += sh.batchLen
					}
					sh.inflight = false
				}
			case 3:
				f := "cur"
				if g.R.Chance(12) {
					f = []string{
						fmt.Sprintf("1,%d,%d", max(sh.epoch-1, 0), sh.lepoch),
						fmt.Sprintf("1,%d,%d", sh.epoch, sh.lepoch+1),
						fmt.Sprintf("2,%d,%d", sh.epoch, sh.lepoch),
						fmt.Sprintf("1,%d,%d", sh.epoch, sh.lepoch)}[g.R.Intn(4)]
					g.Count("ack:explicit-fence")
				}
				g.Op("ack", "%s %d %d", f, sh.follower(g), sh.offset(g, "ack"))
			case 4:
				g.Op("pack", "%d %d", sh.follower(g), sh.offset(g, "pack"))
			case 5:
				m := "leo"
				if g.R.Chance(35) {
					m = strconv.Itoa(sh.offset(g, "sack"))
				}
				lv := g.R.Pick(50, 50) * g.R.Range(1, 9)
				av := lv
				if g.R.Chance(20) {
					av = g.R.Range(0, 9)
				}
				g.Op("sack", "cur %d %s %d %d", sh.follower(g), m, lv, av)
			case 6:
				op := g.R.Range(0, sh.nextOp)
				if len(sh.recent) > 0 && g.R.Chance(85) {
					op = sh.recent[g.R.Intn(len(sh.recent))]
				}
				g.Op("cancel", "%d", op)
			case 7:
				t := "cur"
				if g.R.Chance(40) {
					t = strconv.Itoa(max(sh.batchOp-g.R.Intn(2), 0))
				}
				g.Op("abort", "%s", t)
				if t == "cur" || t == strconv.Itoa(sh.batchOp) {
					sh.inflight = false
				}
			case 8:
				sh.genMeta(g, false)
			case 9:
				g.Op("init", "%d %d %d %d", sh.local, g.R.Intn(5), g.R.Intn(5), g.R.Intn(5)) // late init: refused
			}
		}
	}
}

// ------------------------------------------------------------------ runner --

type c06Runner struct {
	st     *machine.ChannelState
	rig    *reactor.VerifAckRig
	inited bool
	fresh  bool // no op executed yet
	// highest HW observed since the metadata fence (epoch, leaderEpoch) last changed:
	// the largest value a checkpoint submitted under this fence can carry
	maxHW          uint64
	fenceE, fenceL uint64
}

const c06Key = ch.ChannelKey("k1")
const c06Gen = 7

func newC06Runner() *c06Runner {
	r := &c06Runner{fresh: true}
	r.reset(1)
	return r
}

func (r *c06Runner) reset(local uint64) {
	r.st = machine.NewChannelState(c06Key, ch.NodeID(local), c06Gen)
	r.rig = reactor.VerifNewAckRig(r.st)
}

func (r *c06Runner) Close() {}

func c06KeyOf(n int) ch.ChannelKey {
	switch n {
	case 0:
		return ""
	case 1:
		return c06Key
	}
	return ch.ChannelKey("k" + strconv.Itoa(n))
}

func c06IDOf(n int) ch.ChannelID {
	switch n {
	case 0:
		return ch.ChannelID{}
	case 1:
		return ch.ChannelID{ID: "a", Type: 1}
	}
	return ch.ChannelID{ID: "b", Type: 2}
}

func c06IDNum(id ch.ChannelID) int {
	switch id {
	case ch.ChannelID{}:
		return 0
	case ch.ChannelID{ID: "a", Type: 1}:
		return 1
	case ch.ChannelID{ID: "b", Type: 2}:
		return 2
	}
	return 9
}

var errC06IO = errors.New("verif: injected io error")

func c06ErrOf(n int) error {
	switch n {
	case 0:
		return nil
	case 1:
		return ch.ErrStaleMeta
	case 2:
		return ch.ErrLogConflict
	case 3:
		return errC06IO
	}
	return ch.ErrNotLeader
}

func c06ErrName(err error) string {
	switch {
	case err == nil:
		return "ok"
	case errors.Is(err, ch.ErrStaleMeta):
		return "stale"
	case errors.Is(err, ch.ErrInvalidConfig):
		return "invalid"
	case errors.Is(err, ch.ErrChannelNotFound):
		return "notfound"
	case errors.Is(err, ch.ErrNotLeader):
		return "notleader"
	case errors.Is(err, ch.ErrNotReady):
		return "notready"
	case errors.Is(err, ch.ErrLogConflict):
		return "conflict"
	case errors.Is(err, ch.ErrNotReplica):
		return "notreplica"
	}
	return "other"
}

func c06Nodes(s string) ([]ch.NodeID, bool) {
	if s == "-" {
		return nil, true
	}
	var out []ch.NodeID
	for _, p := range strings.Split(s, ",") {
		n, err := strconv.ParseUint(p, 10, 32)
		if err != nil {
			return nil, false
		}
		out = append(out, ch.NodeID(n))
	}
	return out, true
}

func u64s(xs []uint64) string {
	if len(xs) == 0 {
		return "-"
	}
	s := make([]string, len(xs))
	for i, x := range xs {
		s[i] = strconv.FormatUint(x, 10)
	}
	return strings.Join(s, ",")
}

func (r *c06Runner) state() string {
	s := r.st
	cr := 0
	if s.CommitReady {
		cr = 1
	}
	var b strings.Builder
	fmt.Fprintf(&b, "w=%d,%d,%d m=%d,%d,%d,%d,%d,%d,%d,%d", s.LEO, s.HW, s.CheckpointHW,
		s.Epoch, s.LeaderEpoch, s.Leader, s.Role, s.Status, cr, s.MinISR, c06IDNum(s.ID))
	nodes := func(ns []ch.NodeID) string {
		x := make([]uint64, len(ns))
		for i, n := range ns {
			x[i] = uint64(n)
		}
		return u64s(x)
	}
	fmt.Fprintf(&b, " rp=%s isr=%s", nodes(s.Replicas), nodes(s.ISR))
	// progress, sorted by node
	pk := make([]uint64, 0, len(s.Progress))
	for n := range s.Progress {
		pk = append(pk, uint64(n))
	}
	sort.Slice(pk, func(i, j int) bool { return pk[i] < pk[j] })
	ps := make([]string, len(pk))
	for i, n := range pk {
		ps[i] = fmt.Sprintf("%d:%d", n, s.Progress[ch.NodeID(n)].Match)
	}
	if len(ps) == 0 {
		ps = []string{"-"}
	}
	fmt.Fprintf(&b, " pr=%s", strings.Join(ps, ","))
	// pending waiters, sorted by op
	ok := make([]uint64, 0, len(s.PendingAppends))
	for op := range s.PendingAppends {
		ok = append(ok, uint64(op))
	}
	sort.Slice(ok, func(i, j int) bool { return ok[i] < ok[j] })
	ws := make([]string, len(ok))
	for i, op := range ok {
		w := s.PendingAppends[ch.OpID(op)]
		if w == nil {
			ws[i] = fmt.Sprintf("%d:nil", op)
			continue
		}
		ws[i] = fmt.Sprintf("%d:%d:%d:%d", op, w.Target, w.CommitMode, len(w.Records))
	}
	if len(ws) == 0 {
		ws = []string{"-"}
	}
	fmt.Fprintf(&b, " p=%s", strings.Join(ws, ";"))
	ord := make([]uint64, len(s.PendingAppendOrder))
	for i, op := range s.PendingAppendOrder {
		ord[i] = uint64(op)
	}
	fmt.Fprintf(&b, " o=%s", u64s(ord))
	if s.InflightAppend == nil {
		b.WriteString(" i=-")
	} else {
		in := s.InflightAppend
		pairs := make([]string, len(in.WaiterOpIDs))
		for i, op := range in.WaiterOpIDs {
			c := -1
			if i < len(in.WaiterRecordCounts) {
				c = in.WaiterRecordCounts[i]
			}
			pairs[i] = fmt.Sprintf("%d/%d", op, c)
		}
		if len(pairs) == 0 {
			pairs = []string{"-"}
		}
		fmt.Fprintf(&b, " i=%d:%d:%s", in.OpID, len(in.Records), strings.Join(pairs, ","))
	}
	return b.String()
}

func c06Items(items []ch.AppendBatchItemResult) string {
	seqs := make([]uint64, len(items))
	for i, it := range items {
		seqs[i] = it.MessageSeq
	}
	return u64s(seqs)
}

func c06Replies(rs []machine.Reply) string {
	if len(rs) == 0 {
		return "-"
	}
	out := make([]string, len(rs))
	for i, rp := range rs {
		out[i] = fmt.Sprintf("%d:%s:%s", rp.OpID, c06ErrName(rp.Err), c06Items(rp.AppendItems))
	}
	return strings.Join(out, ";")
}

func c06RigReplies(rs []reactor.VerifReply) string {
	if len(rs) == 0 {
		return "-"
	}
	out := make([]string, len(rs))
	for i, rp := range rs {
		out[i] = fmt.Sprintf("%d:%s:%s", rp.OpID, c06ErrName(rp.Err), c06Items(rp.Items))
	}
	return strings.Join(out, ";")
}

func (r *c06Runner) decision(d machine.Decision) string {
	t := "-"
	if len(d.Tasks) > 0 {
		parts := make([]string, len(d.Tasks))
		for i, tk := range d.Tasks {
			n := -1
			if tk.StoreAppend != nil {
				n = len(tk.StoreAppend.Records)
			}
			k := 9
			switch tk.Fence.ChannelKey {
			case "":
				k = 0
			case c06Key:
				k = 1
			}
			parts[i] = fmt.Sprintf("%d:%d:%d:%d,%d,%d,%d", tk.Kind, tk.Fence.OpID, n, k, tk.Fence.Generation, tk.Fence.Epoch, tk.Fence.LeaderEpoch)
		}
		t = strings.Join(parts, ";")
	}
	return fmt.Sprintf("e=%s r=%s t=%s s=%d %s", c06ErrName(d.Err), c06Replies(d.Replies), t, len(d.Signals), r.state())
}

func (r *c06Runner) plain(e string, replies string) string {
	return fmt.Sprintf("e=%s r=%s t=- s=0 %s", e, replies, r.state())
}

func atoi(s string) (int, bool) {
	n, err := strconv.Atoi(s)
	return n, err == nil
}

// fence token: `cur` or `k,g,e,le`
func (r *c06Runner) fence(tok string, opTok string) (ch.Fence, bool) {
	f := ch.Fence{ChannelKey: r.st.Key, Generation: r.st.Generation, Epoch: r.st.Epoch, LeaderEpoch: r.st.LeaderEpoch}
	if tok != "cur" {
		p := strings.Split(tok, ",")
		if len(p) != 4 {
			return f, false
		}
		k, ok1 := atoi(p[0])
		gn, ok2 := atoi(p[1])
		e, ok3 := atoi(p[2])
		le, ok4 := atoi(p[3])
		if !(ok1 && ok2 && ok3 && ok4) || k < 0 || gn < 0 || e < 0 || le < 0 {
			return f, false
		}
		f = ch.Fence{ChannelKey: c06KeyOf(k), Generation: uint64(gn), Epoch: uint64(e), LeaderEpoch: uint64(le)}
	}
	if opTok == "cur" {
		if r.st.InflightAppend != nil {
			f.OpID = r.st.InflightAppend.OpID
		}
	} else {
		n, ok := atoi(opTok)
		if !ok || n < 0 {
			return f, false
		}
		f.OpID = ch.OpID(n)
	}
	return f, true
}

func (r *c06Runner) inflightCount() uint64 {
	if r.st.InflightAppend == nil {
		return 0
	}
	return uint64(len(r.st.InflightAppend.Records))
}

func c06Records(op, n int) []ch.Record {
	recs := make([]ch.Record, n)
	for i := range recs {
		recs[i] = ch.Record{ID: uint64(op*1000 + i + 1), Payload: []byte{byte(i)}, SizeBytes: 1}
	}
	return recs
}

func (r *c06Runner) Step(op string) string {
	out := r.step0(op)
	if r.st.Epoch != r.fenceE || r.st.LeaderEpoch != r.fenceL {
		r.fenceE, r.fenceL, r.maxHW = r.st.Epoch, r.st.LeaderEpoch, r.st.HW
	} else if r.st.HW > r.maxHW {
		r.maxHW = r.st.HW
	}
	return out
}

// c06Val resolves `l` (LEO) `h` (HW) `c` (CheckpointHW) `m` (max HW in this fence),
// each optionally followed by -K or +K, or an absolute number.
func (r *c06Runner) val(tok string) (uint64, bool) {
	if tok == "" {
		return 0, false
	}
	var base uint64
	rest := tok[1:]
	switch tok[0] {
	case 'l':
		base = r.st.LEO
	case 'h':
		base = r.st.HW
	case 'c':
		base = r.st.CheckpointHW
	case 'm':
		base = r.maxHW
	default:
		n, ok := atoi(tok)
		if !ok || n < 0 {
			return 0, false
		}
		return uint64(n), true
	}
	if rest == "" {
		return base, true
	}
	k, ok := atoi(rest[1:])
	if !ok || k < 0 || (rest[0] != '+' && rest[0] != '-') {
		return 0, false
	}
	if rest[0] == '+' {
		return base + uint64(k), true
	}
	if uint64(k) > base {
		return 0, true
	}
	return base - uint64(k), true
}

func (r *c06Runner) step0(op string) string {
	f := strings.Fields(op)
	if len(f) == 0 {
		return "bad-op"
	}
	fresh := r.fresh
	r.fresh = false
	switch f[0] {
	case "init":
		if len(f) != 5 {
			return "bad-op"
		}
		local, o1 := atoi(f[1])
		leo, o2 := atoi(f[2])
		hw, o3 := atoi(f[3])
		ck, o4 := atoi(f[4])
		if !(o1 && o2 && o3 && o4) || local < 0 || leo < 0 || hw < 0 || ck < 0 {
			return "bad-op"
		}
		if !fresh {
			return r.plain("late-init", "-")
		}
		if ck > hw || hw > leo {
			return r.plain("bad-init", "-")
		}
		// what the reactor's store-load path does before the first ApplyMeta
		r.reset(uint64(local))
		r.st.LEO, r.st.HW, r.st.CheckpointHW = uint64(leo), uint64(hw), uint64(ck)
		return r.plain("ok", "-")
	case "meta":
		if len(f) != 10 {
			return "bad-op"
		}
		var v [5]int
		for i := 0; i < 5; i++ {
			n, ok := atoi(f[1+i])
			if !ok || n < 0 {
				return "bad-op"
			}
			v[i] = n
		}
		reps, ok1 := c06Nodes(f[6])
		isr, ok2 := c06Nodes(f[7])
		minisr, ok3 := atoi(f[8])
		status, ok4 := atoi(f[9])
		if !(ok1 && ok2 && ok3 && ok4) || status < 0 || status > 255 {
			return "bad-op"
		}
		d := r.st.ApplyMeta(ch.Meta{Key: c06KeyOf(v[0]), ID: c06IDOf(v[1]), Epoch: uint64(v[2]), LeaderEpoch: uint64(v[3]),
			Leader: ch.NodeID(v[4]), Replicas: reps, ISR: isr, MinISR: minisr, Status: ch.Status(status)})
		return r.decision(d)
	case "prop1":
		if len(f) != 4 {
			return "bad-op"
		}
		o, ok1 := atoi(f[1])
		mode, ok2 := atoi(f[2])
		nrec, ok3 := atoi(f[3])
		if !(ok1 && ok2 && ok3) || o < 0 || mode < 0 || mode > 255 || nrec < 0 || nrec > 64 {
			return "bad-op"
		}
		d := r.st.ProposeAppend(machine.AppendCommand{OpID: ch.OpID(o), CommitMode: ch.CommitMode(mode), Records: c06Records(o, nrec)})
		return r.decision(d)
	case "prop":
		if len(f) != 3 {
			return "bad-op"
		}
		b, ok := atoi(f[1])
		if !ok || b < 0 {
			return "bad-op"
		}
		var ws []machine.AppendBatchWaiter
		if f[2] != "-" {
			for _, w := range strings.Split(f[2], ";") {
				p := strings.Split(w, ":")
				if len(p) != 3 {
					return "bad-op"
				}
				o, ok1 := atoi(p[0])
				mode, ok2 := atoi(p[1])
				nrec, ok3 := atoi(p[2])
				if !(ok1 && ok2 && ok3) || o < 0 || mode < 0 || mode > 255 || nrec < 0 || nrec > 64 {
					return "bad-op"
				}
				ws = append(ws, machine.AppendBatchWaiter{OpID: ch.OpID(o), CommitMode: ch.CommitMode(mode), Records: c06Records(o, nrec)})
			}
		}
		d := r.st.ProposeAppendBatch(machine.AppendBatchCommand{BatchOpID: ch.OpID(b), Waiters: ws})
		return r.decision(d)
	case "stored":
		if len(f) != 6 {
			return "bad-op"
		}
		fence, ok := r.fence(f[1], f[2])
		e, ok2 := atoi(f[5])
		if !ok || !ok2 || e < 0 {
			return "bad-op"
		}
		res := machine.AppendStoredResult{Fence: fence, Err: c06ErrOf(e)}
		if f[3] == "n" {
			res.BaseOffset = r.st.LEO + 1
		} else if n, ok := atoi(f[3]); ok && n >= 0 {
			res.BaseOffset = uint64(n)
		} else {
			return "bad-op"
		}
		if f[4] == "n" {
			res.LastOffset = r.st.LEO + r.inflightCount()
		} else if n, ok := atoi(f[4]); ok && n >= 0 {
			res.LastOffset = uint64(n)
		} else {
			return "bad-op"
		}
		return r.decision(r.st.ApplyAppendStored(res))
	case "qc":
		if len(f) != 7 {
			return "bad-op"
		}
		fence, ok := r.fence(f[1], f[2])
		e, ok2 := atoi(f[6])
		if !ok || !ok2 || e < 0 {
			return "bad-op"
		}
		res := machine.QuorumCommittedResult{Fence: fence, Err: c06ErrOf(e)}
		if f[3] == "n" {
			res.First = r.st.LEO + 1
		} else if n, ok := atoi(f[3]); ok && n >= 0 {
			res.First = uint64(n)
		} else {
			return "bad-op"
		}
		switch {
		case f[4] == "n":
			res.Last = r.st.LEO + r.inflightCount()
		case f[4] == "f":
			res.Last = res.First + r.inflightCount() - 1
			if res.First+r.inflightCount() == 0 {
				res.Last = 0
			}
		default:
			n, ok := atoi(f[4])
			if !ok || n < 0 {
				return "bad-op"
			}
			res.Last = uint64(n)
		}
		if f[5] == "n" {
			res.HW = res.Last
		} else if n, ok := atoi(f[5]); ok && n >= 0 {
			res.HW = uint64(n)
		} else {
			return "bad-op"
		}
		return r.decision(r.st.ApplyQuorumCommitted(res))
	case "ack", "sack":
		want := 4
		if f[0] == "sack" {
			want = 6
		}
		if len(f) != want {
			return "bad-op"
		}
		key, epoch, lepoch := r.st.Key, r.st.Epoch, r.st.LeaderEpoch
		if f[1] != "cur" {
			p := strings.Split(f[1], ",")
			if len(p) != 3 {
				return "bad-op"
			}
			k, ok1 := atoi(p[0])
			e, ok2 := atoi(p[1])
			le, ok3 := atoi(p[2])
			if !(ok1 && ok2 && ok3) || k < 0 || e < 0 || le < 0 {
				return "bad-op"
			}
			key, epoch, lepoch = c06KeyOf(k), uint64(e), uint64(le)
		}
		fo, ok := atoi(f[2])
		if !ok || fo < 0 {
			return "bad-op"
		}
		var match uint64
		if f[0] == "sack" && f[3] == "leo" {
			match = r.st.LEO
		} else if n, ok := atoi(f[3]); ok && n >= 0 {
			match = uint64(n)
		} else {
			return "bad-op"
		}
		if f[0] == "ack" {
			err, replies := r.rig.ProgressAck(key, epoch, lepoch, ch.NodeID(fo), match)
			return r.plain(c06ErrName(err), c06RigReplies(replies))
		}
		lv, ok1 := atoi(f[4])
		av, ok2 := atoi(f[5])
		if !(ok1 && ok2) || lv < 0 || av < 0 {
			return "bad-op"
		}
		err, replies := r.rig.StoppedAck(key, epoch, lepoch, ch.NodeID(fo), match, uint64(lv), uint64(av))
		return r.plain(c06ErrName(err), c06RigReplies(replies))
	case "pack":
		if len(f) != 3 {
			return "bad-op"
		}
		fo, ok1 := atoi(f[1])
		off, ok2 := atoi(f[2])
		if !(ok1 && ok2) || fo < 0 || off < 0 {
			return "bad-op"
		}
		err, replies := r.rig.PullAck(ch.NodeID(fo), uint64(off))
		return r.plain(c06ErrName(err), c06RigReplies(replies))
	case "install":
		// install <fence> <op|pend> <auth> <leo> <hw> <err>
		if len(f) != 7 {
			return "bad-op"
		}
		opTok := f[2]
		if opTok == "pend" {
			opTok = strconv.Itoa(int(reactor.VerifInstallOpID))
		}
		fence, ok := r.fence(f[1], opTok)
		auth, ok1 := atoi(f[3])
		leo, ok2 := r.val(f[4])
		hw, ok3 := r.val(f[5])
		e, ok4 := atoi(f[6])
		if !(ok && ok1 && ok2 && ok3 && ok4) || auth < 0 || auth > 2 || e < 0 || f[2] == "cur" {
			return "bad-op"
		}
		consumed, err := r.rig.QuorumInstallResult(fence, auth, leo, hw, c06ErrOf(e))
		if !consumed {
			return r.plain("ignored", "-")
		}
		return r.plain(c06ErrName(err), "-")
	case "ckres":
		// ckres <fence> <withResult 0|1> <value> <err>
		if len(f) != 5 {
			return "bad-op"
		}
		fence, ok := r.fence(f[1], "77")
		wr, ok1 := atoi(f[2])
		v, ok2 := r.val(f[3])
		e, ok3 := atoi(f[4])
		if !(ok && ok1 && ok2 && ok3) || wr < 0 || wr > 1 || e < 0 {
			return "bad-op"
		}
		r.rig.StoreCheckpointResult(fence, wr == 1, v, c06ErrOf(e))
		return r.plain("-", "-")
	case "cancel":
		if len(f) != 2 {
			return "bad-op"
		}
		o, ok := atoi(f[1])
		if !ok || o < 0 {
			return "bad-op"
		}
		if r.st.CancelAppendWaiter(ch.OpID(o)) {
			return r.plain("true", "-")
		}
		return r.plain("false", "-")
	case "abort":
		if len(f) != 2 {
			return "bad-op"
		}
		var o ch.OpID
		if f[1] == "cur" {
			if r.st.InflightAppend != nil {
				o = r.st.InflightAppend.OpID
			}
		} else if n, ok := atoi(f[1]); ok && n >= 0 {
			o = ch.OpID(n)
		} else {
			return "bad-op"
		}
		r.st.AbortAppendBatchProposal(o)
		return r.plain("ok", "-")
	}
	return "bad-op"
}

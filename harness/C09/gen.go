//go:build verif

package main

import (
	"fmt"
	"strings"
)

// genC09: g.N = number of cases.  Three case kinds: power-loss (mem, `pl`
// wrappers), process-kill (disk, `kill` wrappers), plain differential.
// The generator keeps its own rough prediction of LEO / HW / retention per
// channel to aim ops at the interesting boundaries; it never sees results.
type c09Sim struct {
	leo, hw, local [4]uint64
	nextID, nextCno, nextCmd uint64
	oldIDs  []uint64
	oldKeys [][2]uint64
	props   [][2]uint64 // proposals (base,last) on channel 3
	queue   []string    // follow-up ops (bounded trims after an adoption = one multi-batch trim)
}

func genC09(g *Gen) {
	for i := 0; i < g.N; i++ {
		g.Case()
		kind := g.R.Pick(60, 10, 30)
		s := &c09Sim{nextID: 100, nextCno: 1, nextCmd: 1}
		switch kind {
		case 0:
			g.Count("case:mem-powerloss")
			g.Op("open", "mem")
			if g.R.Chance(35) {
				c09RetentionTruncate(g, s, func(k int, op string) string {
					return fmt.Sprintf("pl %d %d %d | %s", k, []int{0, 0, 50, 100}[g.R.Intn(4)], g.R.Intn(1<<30), op)
				})
			}
			nops := g.R.Range(10, 22)
			for j := 0; j < nops; j++ {
				op := c09GenOp(g, s)
				if op != "reopen" && !strings.HasPrefix(op, "xdup") && g.R.Chance(45) {
					k := []int{1, 1, 2, 2, 3, 3, 4, 5, 6, 8, 12, 50}[g.R.Intn(12)]
					pct := []int{0, 0, 0, 50, 100, g.R.Intn(101)}[g.R.Intn(6)]
					g.Count(fmt.Sprintf("pl:k=%s", c09Bucket(k)))
					g.Count(fmt.Sprintf("pl:pct=%s", map[bool]string{true: "0", false: ">0"}[pct == 0]))
					emitC09(g, fmt.Sprintf("pl %d %d %d | %s", k, pct, g.R.Intn(1<<30), op))
				} else {
					emitC09(g, op)
				}
			}
		case 1:
			g.Count("case:disk-kill")
			g.Op("open", "disk")
			if g.R.Chance(35) {
				c09RetentionTruncate(g, s, func(k int, op string) string { return fmt.Sprintf("kill %d | %s", k, op) })
			}
			nops := g.R.Range(5, 9)
			for j := 0; j < nops; j++ {
				op := c09GenOp(g, s)
				if op != "reopen" && !strings.HasPrefix(op, "xdup") && g.R.Chance(40) {
					k := []int{1, 1, 1, 2, 2, 2, 3, 3, 4, 6, 50}[g.R.Intn(11)]
					g.Count(fmt.Sprintf("kill:k=%s", c09Bucket(k)))
					emitC09(g, fmt.Sprintf("kill %d | %s", k, op))
				} else {
					emitC09(g, op)
				}
			}
		default:
			g.Count("case:plain")
			g.Op("open", "mem")
			nops := g.R.Range(15, 35)
			for j := 0; j < nops; j++ {
				emitC09(g, c09GenOp(g, s))
			}
		}
	}
}

// c09RetentionTruncate: directed prelude — a log of 8-10 rows, a small HW, retention adopted and trimmed while
// the log is long (so RetainedMaxSeq = LEO > any later truncation target), then ONE crash-wrapped truncate
// below RetainedMaxSeq whose crash point k sweeps the file-system calls of the op (a truncate that needed two
// commits would be caught between them).
func c09RetentionTruncate(g *Gen, s *c09Sim, wrap func(k int, op string) string) {
	g.Count("directed:trim-then-truncate")
	c := g.R.Range(1, 3)
	n := g.R.Range(8, 10)
	hw := g.R.Range(2, 4)
	if c == 3 {
		for i := 0; i < n; i++ {
			rs, _ := s.recs(g, 1, false)
			committed := 0
			if i+1 == hw {
				committed = hw
			}
			emitC09(g, fmt.Sprintf("xapp 3 %d 1 %d 1 %s", s.nextCmd, committed, rs))
			s.nextCmd++
		}
	} else {
		rs, _ := s.recs(g, n, false)
		emitC09(g, fmt.Sprintf("fetch %d %d %s", c, hw, rs))
	}
	s.leo[c], s.hw[c] = uint64(n), uint64(hw)
	a := g.R.Range(1, hw)
	emitC09(g, fmt.Sprintf("adopt %d %d", c, a))
	emitC09(g, fmt.Sprintf("trim %d %d %d", c, a, g.R.Pick(3, 1)))
	s.local[c] = uint64(a)
	to := g.R.Range(hw, n-1)
	k := []int{1, 2, 3, 3, 4, 4, 5, 6}[g.R.Intn(8)]
	g.Count(fmt.Sprintf("directed:trunc-crash-k=%d", k))
	emitC09(g, wrap(k, fmt.Sprintf("trunc %d %d", c, to)))
	s.leo[c] = uint64(to)
}

func c09Bucket(k int) string {
	switch {
	case k <= 2:
		return "1-2"
	case k <= 4:
		return "3-4"
	case k <= 12:
		return "5-12"
	default:
		return "after-ack"
	}
}

func emitC09(g *Gen, line string) {
	f := strings.SplitN(line, " ", 2)
	if len(f) == 1 {
		g.Op(f[0], "")
	} else {
		g.Op(f[0], "%s", f[1])
	}
}

func (s *c09Sim) recs(g *Gen, n int, strict bool) (string, bool) {
	var parts []string
	expectFail := false
	for i := 0; i < n; i++ {
		id := s.nextID
		s.nextID++
		if len(s.oldIDs) > 0 && g.R.Chance(6) {
			id = s.oldIDs[g.R.Intn(len(s.oldIDs))]
			g.Count(map[bool]string{true: "rec:dup-id-strict", false: "rec:dup-id-guarded"}[strict])
			expectFail = true
		}
		var from, cno uint64
		if g.R.Chance(65) {
			from = uint64(g.R.Range(1, 3))
		}
		if g.R.Chance(65) {
			cno = s.nextCno
			s.nextCno++
			if from != 0 && len(s.oldKeys) > 0 && g.R.Chance(8) {
				k := s.oldKeys[g.R.Intn(len(s.oldKeys))]
				from, cno = k[0], k[1]
				g.Count(map[bool]string{true: "rec:dup-idem-strict", false: "rec:dup-idem-guarded"}[strict])
				expectFail = true
			}
		}
		flags := 0
		if g.R.Chance(12) {
			flags = 4
			g.Count("rec:synconce")
		}
		pay := g.R.Intn(60)
		switch {
		case from != 0 && cno != 0:
			g.Count("rec:idem-key")
		case from == 0 && cno != 0:
			g.Count("rec:senderless-cno")
		}
		s.oldIDs = append(s.oldIDs, id)
		if from != 0 && cno != 0 {
			s.oldKeys = append(s.oldKeys, [2]uint64{from, cno})
		}
		parts = append(parts, fmt.Sprintf("%d:%d:%d:%d:%d", id, from, cno, flags, pay))
	}
	return strings.Join(parts, " "), expectFail
}

func c09GenOp(g *Gen, s *c09Sim) string {
	if len(s.queue) > 0 && g.R.Chance(75) {
		op := s.queue[0]
		s.queue = s.queue[1:]
		g.Count("trim:multi-batch-step")
		return op
	}
	for {
		switch g.R.Pick(20, 13, 20, 9, 10, 8, 14, 3) {
		case 0: // app
			c := g.R.Range(1, 2)
			mode := g.R.Pick(5, 3, 2)
			n := g.R.Pick(1, 5, 4, 2, 1)
			rs, fail := s.recs(g, n, mode == 0)
			if !fail {
				s.leo[c] += uint64(n)
			}
			if n == 0 {
				g.Count("app:empty")
			}
			return strings.TrimSpace(fmt.Sprintf("app %d %d %s", c, mode, rs))
		case 1: // fetch
			c := g.R.Range(1, 2)
			n := g.R.Pick(2, 5, 4, 2)
			rs, fail := s.recs(g, n, false)
			next := s.leo[c]
			if !fail {
				next += uint64(n)
			}
			hw := "-"
			if g.R.Chance(60) {
				v := s.hw[c]
				if next > v {
					v += uint64(g.R.Intn(int(next-v) + 1))
				}
				if g.R.Chance(8) {
					v = next + 1 + uint64(g.R.Intn(3))
					g.Count("fetch:hw-above-leo")
				} else if !fail && v > s.hw[c] {
					s.hw[c] = v
				}
				hw = fmt.Sprint(v)
			}
			if !fail && !(hw != "-" && strings.HasPrefix(hw, "x")) {
				s.leo[c] = next
			}
			return strings.TrimSpace(fmt.Sprintf("fetch %d %s %s", c, hw, rs))
		case 2: // xapp
			n := g.R.Pick(1, 6, 5, 3)
			mode := g.R.Pick(1, 2)
			rs, fail := s.recs(g, n, mode == 0)
			cmd := s.nextCmd
			s.nextCmd++
			if cmd > 1 && g.R.Chance(4) {
				cmd = uint64(g.R.Range(1, int(cmd-1)))
				g.Count("xapp:dup-cmd")
				fail = true
			}
			term := 1 + uint64(len(s.props)/3)
			next := s.leo[3] + uint64(n)
			committed := uint64(0)
			if g.R.Chance(70) {
				committed = s.hw[3]
				if next > committed {
					committed += uint64(g.R.Intn(int(next-committed) + 1))
				}
				if g.R.Chance(6) {
					committed = next + 1
					g.Count("xapp:committed-above")
					fail = true
				}
			}
			if n == 0 {
				g.Count("xapp:empty")
				fail = true
			}
			if !fail {
				s.props = append(s.props, [2]uint64{s.leo[3], next})
				s.leo[3] = next
				if committed > s.hw[3] {
					s.hw[3] = committed
				}
			}
			if g.R.Chance(18) {
				// the same proposal twice in one batch; half of them with a failing physical commit
				if g.R.Chance(50) {
					g.Count("xdup:commit-fails")
					if !fail {
						// nothing becomes durable: undo the prediction
						s.props = s.props[:len(s.props)-1]
						s.leo[3] = s.leo[3] - uint64(n)
					}
					return strings.TrimSpace(fmt.Sprintf("xdup fail 3 %d %d %d %d %s", cmd, term, committed, mode, rs))
				}
				g.Count("xdup:ok")
				return strings.TrimSpace(fmt.Sprintf("xdup ok 3 %d %d %d %d %s", cmd, term, committed, mode, rs))
			}
			return strings.TrimSpace(fmt.Sprintf("xapp 3 %d %d %d %d %s", cmd, term, committed, mode, rs))
		case 3: // trunc
			c := g.R.Range(1, 3)
			if s.leo[c] == 0 && g.R.Chance(80) {
				continue
			}
			lo := s.hw[c]
			if s.local[c] > lo {
				lo = s.local[c]
			}
			to := lo
			if s.leo[c] > lo {
				to = lo + uint64(g.R.Intn(int(s.leo[c]-lo)+1))
			}
			switch g.R.Intn(12) {
			case 0:
				to = s.leo[c] + 1
				g.Count("trunc:above-leo")
			case 1:
				if s.hw[c] > 0 {
					to = s.hw[c] - 1
					g.Count("trunc:below-hw")
				}
			}
			if c == 3 {
				for _, p := range s.props {
					if p[0] < to && to < p[1] {
						g.Count("trunc:mid-proposal")
					}
				}
				var keep [][2]uint64
				for _, p := range s.props {
					if p[1] <= to {
						keep = append(keep, p)
					}
				}
				s.props = keep
			}
			if to < s.leo[c] && to >= s.hw[c] {
				s.leo[c] = to
				g.Count("trunc:effective")
			}
			return fmt.Sprintf("trunc %d %d", c, to)
		case 4: // adopt
			c := g.R.Range(1, 3)
			if s.hw[c] == 0 && (c == 3 || g.R.Chance(60)) && g.R.Chance(85) {
				continue
			}
			th := uint64(g.R.Intn(int(s.hw[c]) + 1))
			if th == 0 && g.R.Chance(90) {
				th = s.hw[c]
			}
			if c != 3 && g.R.Chance(30) {
				// a boundary beyond the local log end: RetainedMaxSeq becomes the LEO floor
				th = s.leo[c] + uint64(g.R.Range(1, 4))
				g.Count("adopt:beyond-leo")
				s.local[c], s.leo[c] = th, th
				mx := g.R.Range(1, 2)
				s.queue = append(s.queue, fmt.Sprintf("trim %d %d %d", c, th, mx))
				if g.R.Chance(50) {
					s.queue = append(s.queue, "reopen")
				}
				rs, _ := s.recs(g, 1, true)
				s.queue = append(s.queue, fmt.Sprintf("app %d 0 %s", c, rs), fmt.Sprintf("trim %d %d %d", c, th, mx))
				s.leo[c]++
				return fmt.Sprintf("adopt %d %d", c, th)
			}
			if g.R.Chance(8) {
				th = s.hw[c] + 1
				g.Count("adopt:above-hw")
			} else if th > s.local[c] {
				s.local[c] = th
				g.Count("adopt:advance")
				mx := g.R.Range(1, 2)
				for i := 0; i < g.R.Range(1, 4); i++ {
					s.queue = append(s.queue, fmt.Sprintf("trim %d %d %d", c, th, mx))
				}
			}
			return fmt.Sprintf("adopt %d %d", c, th)
		case 5: // trim
			c := g.R.Range(1, 3)
			if s.local[c] == 0 && g.R.Chance(85) {
				continue
			}
			th := uint64(g.R.Intn(int(s.local[c]) + 1))
			if g.R.Chance(50) {
				th = s.local[c]
			}
			if g.R.Chance(7) {
				th = s.local[c] + 1
				g.Count("trim:above-local")
			}
			mx := g.R.Pick(4, 3, 2, 1)
			if mx > 0 {
				g.Count("trim:bounded")
			} else {
				g.Count("trim:unbounded")
			}
			return fmt.Sprintf("trim %d %d %d", c, th, mx)
		case 6: // ckpt
			c := g.R.Range(1, 3)
			if s.leo[c] == 0 && g.R.Chance(80) {
				continue
			}
			hw := s.hw[c]
			if s.leo[c] > hw {
				hw += uint64(g.R.Intn(int(s.leo[c]-hw) + 1))
			}
			switch g.R.Intn(12) {
			case 0:
				hw = s.leo[c] + 1
				g.Count("ckpt:above-leo")
			case 1:
				hw = uint64(g.R.Intn(int(s.hw[c]) + 1))
				g.Count("ckpt:not-advancing")
			}
			if hw <= s.leo[c] && hw > s.hw[c] {
				s.hw[c] = hw
			}
			return fmt.Sprintf("ckpt %d %d", c, hw)
		default:
			return "reopen"
		}
	}
}

//go:build verif

// C09 — storage mutations are crash-atomic.
//
// One REAL message engine (pkg/db/message.Engine: Pebble + commit coordinator)
// per case, opened through the verif seam message.VerifOpenFS on an injected
// Pebble file system:
//
//	open mem            Pebble on vfs.NewCrashableMem()      (power-loss cases)
//	open disk           Pebble on the real disk under $VERIF_SCRATCH (process-kill cases)
//
// Mutations (c = channel 1..3; channels 1,2 are plain logs, channel 3 is an
// exact-proposal log), all through the production ChannelStore API:
//
//	app   c mode rec...            Append / AppendServerAllocated / AppendTrusted   (commit coordinator)
//	fetch c hw rec...              StoreApplyFetchTrusted{CheckpointHW}  hw = `-` | n
//	xapp  3 cmd term committed mode rec...   StoreAppendBatch exact append (rows+indexes+proposal pair+entry identities+HW in one batch)
//	trunc c to                     Truncate                (caller contract: to >= checkpoint HW)
//	adopt c through                AdoptRetentionBoundary  (caller contract: through <= checkpoint HW)
//	trim  c through max            TrimMessagesThroughLimit (one bounded batch; the caller loops)
//	ckpt  c hw                     StoreCheckpointHWMonotonic (caller contract: hw <= LEO)
//	reopen                         clean close + open
//	rec = id:from:cno:flags:pay    numeric tokens (from 7 -> "u7", cno 3 -> "c3", pay 9 -> "p9", 0 -> empty)
//
// Fault injection wraps one mutation:
//
//	pl k pct seed | <op>    (mem)  at the k-th mutating FS call of <op> take vfs CrashClone keeping pct% of
//	                               the unsynced data (k too large = clone right after the op returned), open
//	                               a second engine on the clone and dump it
//	kill k | <op>           (disk) run <op> in a CHILD process that SIGKILLs itself at its k-th mutating FS
//	                               call (k too large = the parent SIGKILLs it after the result arrived, never
//	                               a clean close), reopen and dump
//
// Output of every op: `<result> # <dump of the live store>` and for wrapped ops
// additionally ` | t=<0|1> D <dump after the crash>`; t=1 = the crash happened
// before the op returned (not acknowledged).  A dump is every key/value pair of
// the engine in typed canonical form (hook VerifDump) plus recovered LEO and,
// for channel 3, LoadDurableFrontier.
package main

import (
	"bufio"
	"context"
	"errors"
	"fmt"
	"io"
	"log"
	"math/rand/v2"
	"os"
	"os/exec"
	"path/filepath"
	"sort"
	"strconv"
	"strings"
	"sync"
	"syscall"
	"time"

	"github.com/WuKongIM/WuKongIM/pkg/db/message"
	channel "github.com/WuKongIM/WuKongIM/pkg/db/message/channelcompat"
	"github.com/WuKongIM/WuKongIM/pkg/quorumlog"
	"github.com/cockroachdb/pebble/v2/vfs"
)

func init() {
	log.SetOutput(io.Discard) // Pebble's default logger reports every WAL replay on stderr
	if os.Getenv("VERIF_C09_CHILD") == "1" {
		c09Child()
		os.Exit(0)
	}
	Register(&Prop{Gen: genC09, NewRunner: func() Runner { return newC09Runner() }})
}

var c09Keys = []string{"c09/ch1", "c09/ch2", "c09/ch3"}

const c09MaxNum = 1 << 40

// ------------------------------------------------------------ crash FS ------

type c09FSState struct {
	mu    sync.Mutex
	armed bool
	count int
	at    int
	fired bool
	fire  func()
}

func (s *c09FSState) tick() {
	s.mu.Lock()
	if s.armed && !s.fired {
		s.count++
		if s.count == s.at {
			s.fired = true
			f := s.fire
			s.mu.Unlock()
			f()
			return
		}
	}
	s.mu.Unlock()
}

func (s *c09FSState) arm(at int, fire func()) {
	s.mu.Lock()
	s.armed, s.count, s.at, s.fired, s.fire = true, 0, at, false, fire
	s.mu.Unlock()
}

func (s *c09FSState) disarm() (fired bool, count int) {
	s.mu.Lock()
	defer s.mu.Unlock()
	s.armed = false
	return s.fired, s.count
}

// c09FS counts mutating file-system calls and fires the crash hook BEFORE the k-th one.
type c09FS struct {
	vfs.FS
	st *c09FSState
}

func (f c09FS) wrap(file vfs.File, err error) (vfs.File, error) {
	if err != nil || file == nil {
		return file, err
	}
	return c09File{File: file, st: f.st}, nil
}

func (f c09FS) Create(name string, c vfs.DiskWriteCategory) (vfs.File, error) {
	f.st.tick()
	return f.wrap(f.FS.Create(name, c))
}
func (f c09FS) Link(a, b string) error { f.st.tick(); return f.FS.Link(a, b) }
func (f c09FS) OpenReadWrite(name string, c vfs.DiskWriteCategory, o ...vfs.OpenOption) (vfs.File, error) {
	f.st.tick()
	return f.wrap(f.FS.OpenReadWrite(name, c, o...))
}
func (f c09FS) OpenDir(name string) (vfs.File, error) { return f.wrap(f.FS.OpenDir(name)) }
func (f c09FS) Remove(name string) error              { f.st.tick(); return f.FS.Remove(name) }
func (f c09FS) RemoveAll(name string) error           { f.st.tick(); return f.FS.RemoveAll(name) }
func (f c09FS) Rename(a, b string) error              { f.st.tick(); return f.FS.Rename(a, b) }
func (f c09FS) ReuseForWrite(a, b string, c vfs.DiskWriteCategory) (vfs.File, error) {
	f.st.tick()
	return f.wrap(f.FS.ReuseForWrite(a, b, c))
}
func (f c09FS) MkdirAll(dir string, perm os.FileMode) error { f.st.tick(); return f.FS.MkdirAll(dir, perm) }

type c09File struct {
	vfs.File
	st *c09FSState
}

func (f c09File) Write(p []byte) (int, error)            { f.st.tick(); return f.File.Write(p) }
func (f c09File) WriteAt(p []byte, o int64) (int, error) { f.st.tick(); return f.File.WriteAt(p, o) }
func (f c09File) Sync() error                            { f.st.tick(); return f.File.Sync() }
func (f c09File) SyncData() error                        { f.st.tick(); return f.File.SyncData() }
func (f c09File) SyncTo(n int64) (bool, error)           { f.st.tick(); return f.File.SyncTo(n) }

// -------------------------------------------------------------- runner ------

type c09Runner struct {
	mode   string
	mem    *vfs.MemFS
	fst    *c09FSState
	fs     vfs.FS
	dir    string
	eng    *message.Engine
	stores map[int]*message.ChannelStore
	skip   bool // caller-contract guards already evaluated (child process / wrapped op)
	seenID map[uint64]bool
	seenIK map[[2]uint64]bool
	seenCM map[uint64]bool
}

var c09RunnerSeq int

func newC09Runner() *c09Runner {
	return &c09Runner{stores: map[int]*message.ChannelStore{}, seenID: map[uint64]bool{}, seenIK: map[[2]uint64]bool{}, seenCM: map[uint64]bool{}}
}

func (r *c09Runner) open(mode string) {
	r.closeEngine()
	r.mode = mode
	r.fst = &c09FSState{}
	if mode == "mem" {
		r.mem = vfs.NewCrashableMem()
		r.fs = c09FS{FS: r.mem, st: r.fst}
		r.dir = "db"
	} else {
		c09RunnerSeq++
		base := os.Getenv("VERIF_SCRATCH")
		if base == "" {
			base = "."
		}
		r.dir = filepath.Join(base, fmt.Sprintf("c09-%d-%d", os.Getpid(), c09RunnerSeq), "db")
		if err := os.MkdirAll(filepath.Dir(r.dir), 0o755); err != nil {
			panic(err)
		}
		r.fs = c09FS{FS: vfs.Default, st: r.fst}
	}
	r.openEngine()
}

func (r *c09Runner) openEngine() {
	e, err := message.VerifOpenFS(r.dir, r.fs)
	if err != nil {
		panic("open engine: " + err.Error())
	}
	r.eng = e
	r.stores = map[int]*message.ChannelStore{}
}

func (r *c09Runner) closeEngine() {
	if r.eng == nil {
		return
	}
	for _, s := range r.stores {
		_ = s.Close()
	}
	r.stores = map[int]*message.ChannelStore{}
	if err := r.eng.Close(); err != nil {
		panic("close engine: " + err.Error())
	}
	r.eng = nil
}

func (r *c09Runner) Close() {
	r.closeEngine()
	if r.mode == "disk" {
		_ = os.RemoveAll(filepath.Dir(r.dir))
	}
}

func c09Store(e *message.Engine, cache map[int]*message.ChannelStore, c int) *message.ChannelStore {
	if s, ok := cache[c]; ok {
		return s
	}
	s, err := e.ForChannel(channel.ChannelKey(c09Keys[c-1]), channel.ChannelID{ID: fmt.Sprintf("ch%d", c), Type: 2})
	if err != nil {
		panic("ForChannel: " + err.Error())
	}
	cache[c] = s
	return s
}

func (r *c09Runner) store(c int) *message.ChannelStore { return c09Store(r.eng, r.stores, c) }

func c09Err(err error) string {
	switch {
	case err == nil:
		return "ok"
	case errors.Is(err, channel.ErrCorruptState):
		return "err:corrupt"
	case errors.Is(err, channel.ErrInvalidArgument):
		return "err:invalid"
	case errors.Is(err, channel.ErrCorruptValue):
		return "err:value"
	case errors.Is(err, channel.ErrClosed):
		return "err:closed"
	case errors.Is(err, channel.ErrEmptyState):
		return "err:empty"
	default:
		return "err:other"
	}
}

// c09Dump = every KV pair in canonical typed form + recovered LEO per channel + frontier of channel 3.
func c09Dump(e *message.Engine) string {
	ents, err := message.VerifDump(e, c09Keys)
	if err != nil {
		return "dump-error"
	}
	cache := map[int]*message.ChannelStore{}
	for c := 1; c <= 3; c++ {
		s := c09Store(e, cache, c)
		leo, err := s.LEOWithError()
		if err != nil {
			ents = append(ents, fmt.Sprintf("L.%d=%s", c, c09Err(err)))
		} else {
			ents = append(ents, fmt.Sprintf("L.%d=%d", c, leo))
		}
		if c == 3 {
			fr, err := s.LoadDurableFrontier(context.Background())
			if err != nil {
				ents = append(ents, fmt.Sprintf("F.%d=%s", c, c09Err(err)))
			} else {
				ents = append(ents, fmt.Sprintf("F.%d=%d.%d", c, fr.LEO, fr.Committed))
			}
		}
	}
	for _, s := range cache {
		_ = s.Close()
	}
	sort.Strings(ents)
	return strings.Join(ents, ";")
}

type c09Rec struct {
	id, from, cno, flags, pay uint64
}

func c09ParseNum(s string) (uint64, bool) {
	n, err := strconv.ParseUint(s, 10, 64)
	if err != nil || n >= c09MaxNum || strconv.FormatUint(n, 10) != s {
		return 0, false
	}
	return n, true
}

func c09ParseRecs(fs []string) ([]c09Rec, bool) {
	out := make([]c09Rec, 0, len(fs))
	for _, f := range fs {
		p := strings.Split(f, ":")
		if len(p) != 5 {
			return nil, false
		}
		var v [5]uint64
		for i := range p {
			n, ok := c09ParseNum(p[i])
			if !ok {
				return nil, false
			}
			v[i] = n
		}
		if v[0] == 0 || v[3] > 255 {
			return nil, false
		}
		out = append(out, c09Rec{v[0], v[1], v[2], v[3], v[4]})
	}
	return out, true
}

func c09Tok(prefix string, n uint64) string {
	if n == 0 {
		return ""
	}
	return prefix + strconv.FormatUint(n, 10)
}

func c09Records(c int, recs []c09Rec, epoch uint64) []channel.Record {
	out := make([]channel.Record, 0, len(recs))
	for _, x := range recs {
		rec, err := message.VerifCompatRecord(x.id, c09Tok("u", x.from), c09Tok("c", x.cno), uint8(x.flags), []byte(c09Tok("p", x.pay)), 1000, fmt.Sprintf("ch%d", c), 2, epoch)
		if err != nil {
			panic("compat record: " + err.Error())
		}
		out = append(out, rec)
	}
	return out
}

// noteSeen implements the caller contract of the non-strict modes (allocator-
// issued ids, leader-validated idempotency keys): ids / idempotency keys /
// command ids that already appeared in an earlier op of the case are refused
// by the caller.  Pure function of the op history (the model does the same).
func (r *c09Runner) noteSeen(recs []c09Rec, strict bool) (dup bool) {
	for _, x := range recs {
		if r.seenID[x.id] {
			dup = true
		}
		if x.from != 0 && x.cno != 0 && r.seenIK[[2]uint64{x.from, x.cno}] {
			dup = true
		}
	}
	for _, x := range recs {
		r.seenID[x.id] = true
		if x.from != 0 && x.cno != 0 {
			r.seenIK[[2]uint64{x.from, x.cno}] = true
		}
	}
	return dup && !strict
}

// guard evaluates parse errors and caller-contract guards; "" = call the store.
func (r *c09Runner) guard(f []string) string {
	if len(f) == 0 {
		return "bad-op"
	}
	num := func(i int) (uint64, bool) {
		if i >= len(f) {
			return 0, false
		}
		return c09ParseNum(f[i])
	}
	ch := func(lo, hi uint64) (int, bool) {
		c, ok := num(1)
		if !ok || c < lo || c > hi {
			return 0, false
		}
		return int(c), true
	}
	if f[0] == "xdup" {
		if len(f) < 3 || (f[1] != "fail" && f[1] != "ok") {
			return "bad-op"
		}
		return r.guard(append([]string{"xapp"}, f[2:]...))
	}
	switch f[0] {
	case "app":
		if _, ok := ch(1, 2); !ok {
			return "bad-op"
		}
		mode, ok := num(2)
		if !ok || mode > 2 {
			return "bad-op"
		}
		recs, ok := c09ParseRecs(f[3:])
		if !ok {
			return "bad-op"
		}
		if r.noteSeen(recs, mode == 0) {
			return "guard:dup"
		}
	case "fetch":
		if _, ok := ch(1, 2); !ok {
			return "bad-op"
		}
		if len(f) < 3 {
			return "bad-op"
		}
		if f[2] != "-" {
			if _, ok := num(2); !ok {
				return "bad-op"
			}
		}
		recs, ok := c09ParseRecs(f[3:])
		if !ok {
			return "bad-op"
		}
		if r.noteSeen(recs, false) {
			return "guard:dup"
		}
	case "xapp":
		if _, ok := ch(3, 3); !ok {
			return "bad-op"
		}
		cmd, ok1 := num(2)
		term, ok2 := num(3)
		_, ok3 := num(4)
		mode, ok4 := num(5)
		if !ok1 || !ok2 || !ok3 || !ok4 || cmd == 0 || term == 0 || mode > 1 {
			return "bad-op"
		}
		recs, ok := c09ParseRecs(f[6:])
		if !ok {
			return "bad-op"
		}
		dupCmd := r.seenCM[cmd]
		r.seenCM[cmd] = true
		dup := r.noteSeen(recs, mode == 0)
		if dupCmd || dup {
			return "guard:dup"
		}
	case "trunc":
		c, ok := ch(1, 3)
		to, ok2 := num(2)
		if !ok || !ok2 || len(f) != 3 {
			return "bad-op"
		}
		if cp, err := r.store(c).LoadCheckpoint(); err == nil && to < cp.HW {
			return "guard:below-hw"
		}
	case "adopt":
		c, ok := ch(1, 3)
		th, ok2 := num(2)
		if !ok || !ok2 || len(f) != 3 {
			return "bad-op"
		}
		hw := uint64(0)
		if cp, err := r.store(c).LoadCheckpoint(); err == nil {
			hw = cp.HW
		}
		// exact-proposal channel: retention is adopted only through committed messages; plain channels may adopt
		// a boundary beyond the local log end (a follower that is behind the cluster-wide retention boundary)
		if c == 3 && th > hw {
			return "guard:above-hw"
		}
	case "trim":
		_, ok := ch(1, 3)
		_, ok2 := num(2)
		mx, ok3 := num(3)
		if !ok || !ok2 || !ok3 || len(f) != 4 || mx > 1000 {
			return "bad-op"
		}
	case "ckpt":
		c, ok := ch(1, 3)
		hw, ok2 := num(2)
		if !ok || !ok2 || len(f) != 3 {
			return "bad-op"
		}
		leo, err := r.store(c).LEOWithError()
		if err != nil || hw > leo {
			return "guard:above-leo"
		}
	case "reopen", "dump":
		if len(f) != 1 {
			return "bad-op"
		}
	default:
		return "bad-op"
	}
	return ""
}

// call runs one already-guarded op against the store.
func c09Call(e *message.Engine, cache map[int]*message.ChannelStore, f []string) string {
	n := func(i int) uint64 { v, _ := c09ParseNum(f[i]); return v }
	ctx := context.Background()
	switch f[0] {
	case "app":
		c := int(n(1))
		recs, _ := c09ParseRecs(f[3:])
		s := c09Store(e, cache, c)
		var base uint64
		var err error
		switch n(2) {
		case 0:
			base, err = s.Append(c09Records(c, recs, 0))
		case 1:
			base, err = s.AppendServerAllocated(c09Records(c, recs, 0))
		default:
			base, err = s.AppendTrusted(c09Records(c, recs, 0))
		}
		if err != nil {
			return c09Err(err)
		}
		return fmt.Sprintf("ok %d", base)
	case "fetch":
		c := int(n(1))
		recs, _ := c09ParseRecs(f[3:])
		req := channel.ApplyFetchStoreRequest{Records: c09Records(c, recs, 0)}
		if f[2] != "-" {
			hw := n(2)
			req.CheckpointHW = &hw
		}
		leo, err := c09Store(e, cache, c).StoreApplyFetchTrusted(req)
		if err != nil {
			return c09Err(err)
		}
		return fmt.Sprintf("ok %d", leo)
	case "xdup":
		// xdup fail|ok 3 cmd term committed mode rec... : the SAME exact proposal twice in one StoreAppendBatch
		// (the second item replays rows that are only staged by the first); `fail` makes the physical commit fail.
		g := append([]string{"xapp"}, f[2:]...)
		c := int(n(2))
		s := c09Store(e, cache, c)
		item, errs := c09ExactItem(s, c, g)
		if errs != "" {
			return errs
		}
		if f[1] == "fail" {
			message.VerifFailCommits(e, 1)
		}
		res := message.StoreAppendBatch(ctx, []message.AppendBatchItem{item, item})
		message.VerifFailCommits(e, 0)
		one := func(r message.AppendBatchResult) string {
			if r.Err != nil {
				return "err"
			}
			return fmt.Sprintf("ok.%d.%d.%d", r.BaseOffset, r.LastOffset, r.Outcome)
		}
		return one(res[0]) + " " + one(res[1])
	case "xapp":
		c := int(n(1))
		s := c09Store(e, cache, c)
		recs, _ := c09ParseRecs(f[6:])
		fr, err := s.LoadDurableFrontier(ctx)
		if err != nil {
			return "err:frontier"
		}
		var cmd quorumlog.CommandID
		for i := range cmd {
			cmd[i] = 0xC9
		}
		v := n(2)
		for i := 0; i < 8; i++ {
			cmd[i] = byte(v >> (56 - 8*uint(i)))
		}
		m := quorumlog.ProposalManifest{
			Version: quorumlog.ProposalManifestVersion, ChannelEpoch: 1, LeaderTerm: n(3), FenceVersion: 1, CommandID: cmd,
			BaseOffset: fr.LEO, LastOffset: fr.LEO + uint64(len(recs)), PreviousIndex: fr.LEO,
			PreviousTerm: fr.TailIdentity.LeaderTerm, PreviousDigest: fr.TailIdentity.Digest,
		}
		qrecs := make([]quorumlog.Record, 0, len(recs))
		for _, x := range recs {
			qrecs = append(qrecs, quorumlog.Record{ID: x.id, Epoch: 1, FromUID: c09Tok("u", x.from), ClientMsgNo: c09Tok("c", x.cno),
				ServerTimestampMS: 1000, SyncOnce: x.flags&4 != 0, Payload: []byte(c09Tok("p", x.pay))})
		}
		if sealed, _, ok := quorumlog.SealProposalManifest(m, qrecs); ok {
			m = sealed
		}
		res := message.StoreAppendBatch(ctx, []message.AppendBatchItem{{
			Store: s, Records: c09Records(c, recs, 1), Committed: n(4), ServerAllocatedMessageIDs: n(5) == 1,
			ExactBaseOffset: true, ExpectedBaseOffset: fr.LEO, Proposal: m,
		}})
		if res[0].Err != nil {
			return c09Err(res[0].Err)
		}
		return fmt.Sprintf("ok %d %d %d", res[0].BaseOffset, res[0].LastOffset, res[0].Outcome)
	case "trunc":
		return c09Err(c09Store(e, cache, int(n(1))).Truncate(n(2)))
	case "adopt":
		return c09Err(c09Store(e, cache, int(n(1))).AdoptRetentionBoundary(ctx, n(2), "c"))
	case "trim":
		res, err := c09Store(e, cache, int(n(1))).TrimMessagesThroughLimit(ctx, n(2), message.RetentionTrimOptions{MaxMessages: int(n(3))})
		if err != nil {
			return c09Err(err)
		}
		more := 0
		if res.More {
			more = 1
		}
		return fmt.Sprintf("ok %d %d %d", res.Deleted, res.DeletedThroughSeq, more)
	case "ckpt":
		return c09Err(c09Store(e, cache, int(n(1))).StoreCheckpointHWMonotonic(ctx, n(2)))
	}
	return "bad-op"
}

// c09ExactItem builds the exact-append item of an `xapp …` field list at the current frontier.
func c09ExactItem(s *message.ChannelStore, c int, f []string) (message.AppendBatchItem, string) {
	n := func(i int) uint64 { v, _ := c09ParseNum(f[i]); return v }
	recs, _ := c09ParseRecs(f[6:])
	fr, err := s.LoadDurableFrontier(context.Background())
	if err != nil {
		return message.AppendBatchItem{}, "err:frontier"
	}
	var cmd quorumlog.CommandID
	for i := range cmd {
		cmd[i] = 0xC9
	}
	v := n(2)
	for i := 0; i < 8; i++ {
		cmd[i] = byte(v >> (56 - 8*uint(i)))
	}
	m := quorumlog.ProposalManifest{
		Version: quorumlog.ProposalManifestVersion, ChannelEpoch: 1, LeaderTerm: n(3), FenceVersion: 1, CommandID: cmd,
		BaseOffset: fr.LEO, LastOffset: fr.LEO + uint64(len(recs)), PreviousIndex: fr.LEO,
		PreviousTerm: fr.TailIdentity.LeaderTerm, PreviousDigest: fr.TailIdentity.Digest,
	}
	qrecs := make([]quorumlog.Record, 0, len(recs))
	for _, x := range recs {
		qrecs = append(qrecs, quorumlog.Record{ID: x.id, Epoch: 1, FromUID: c09Tok("u", x.from), ClientMsgNo: c09Tok("c", x.cno),
			ServerTimestampMS: 1000, SyncOnce: x.flags&4 != 0, Payload: []byte(c09Tok("p", x.pay))})
	}
	if sealed, _, ok := quorumlog.SealProposalManifest(m, qrecs); ok {
		m = sealed
	}
	return message.AppendBatchItem{
		Store: s, Records: c09Records(c, recs, 1), Committed: n(4), ServerAllocatedMessageIDs: n(5) == 1,
		ExactBaseOffset: true, ExpectedBaseOffset: fr.LEO, Proposal: m,
	}, ""
}

func (r *c09Runner) Step(op string) string {
	if os.Getenv("VERIF_C09_TIMING") != "" {
		t0 := time.Now()
		defer func() { fmt.Fprintf(os.Stderr, "T %s %d\n", strings.Fields(op)[0], time.Since(t0).Microseconds()) }()
	}
	return r.step(op)
}

func (r *c09Runner) step(op string) string {
	f := strings.Fields(op)
	if len(f) == 0 {
		return "bad-op"
	}
	if f[0] == "open" {
		if len(f) != 2 || (f[1] != "mem" && f[1] != "disk") || r.mode != "" {
			return "bad-op"
		}
		r.open(f[1])
		return "ok # " + c09Dump(r.eng)
	}
	if r.mode == "" {
		r.open("mem")
	}
	switch f[0] {
	case "pl":
		if len(f) < 6 || f[4] != "|" {
			return "bad-op"
		}
		k, ok1 := c09ParseNum(f[1])
		pct, ok2 := c09ParseNum(f[2])
		seed, ok3 := c09ParseNum(f[3])
		if !ok1 || !ok2 || !ok3 || k == 0 || k > 1000 || pct > 100 || f[5] == "reopen" || f[5] == "dump" || f[5] == "pl" || f[5] == "kill" || f[5] == "open" {
			return "bad-op"
		}
		if r.mode != "mem" {
			return "bad-mode"
		}
		res := r.guard(f[5:])
		if res != "" {
			return res + " # " + c09Dump(r.eng)
		}
		cfg := vfs.CrashCloneCfg{UnsyncedDataPercent: int(pct), RNG: rand.New(rand.NewPCG(seed, seed^0x9e3779b97f4a7c15))}
		var clone *vfs.MemFS
		r.fst.arm(int(k), func() { clone = r.mem.CrashClone(cfg) })
		res = c09Call(r.eng, r.stores, f[5:])
		fired, _ := r.fst.disarm()
		t := 1
		if !fired {
			t = 0
			clone = r.mem.CrashClone(cfg)
		}
		e2, err := message.VerifOpenFS(r.dir, clone)
		if err != nil {
			return fmt.Sprintf("%s # %s | t=%d D open-error", res, c09Dump(r.eng), t)
		}
		d2 := c09Dump(e2)
		_ = e2.Close()
		return fmt.Sprintf("%s # %s | t=%d D %s", res, c09Dump(r.eng), t, d2)
	case "kill":
		if len(f) < 4 || f[2] != "|" {
			return "bad-op"
		}
		k, ok1 := c09ParseNum(f[1])
		if !ok1 || k == 0 || k > 1000 || f[3] == "reopen" || f[3] == "dump" || f[3] == "pl" || f[3] == "kill" || f[3] == "open" {
			return "bad-op"
		}
		if r.mode != "disk" {
			return "bad-mode"
		}
		res := r.guard(f[3:])
		if res != "" {
			return res + " # " + c09Dump(r.eng)
		}
		r.closeEngine()
		res, t := c09RunChild(r.dir, int(k), strings.Join(f[3:], " "))
		r.openEngine()
		d := c09Dump(r.eng)
		return fmt.Sprintf("%s # %s | t=%d D %s", res, d, t, d)
	}
	res := r.guard(f)
	if res == "" {
		switch f[0] {
		case "reopen":
			r.closeEngine()
			r.openEngine()
			res = "ok"
		case "dump":
			res = "ok"
		default:
			res = c09Call(r.eng, r.stores, f)
		}
	}
	return res + " # " + c09Dump(r.eng)
}

// ------------------------------------------------------- child process ------

// c09RunChild runs one op in a child that dies by SIGKILL: by its own hand at
// its k-th mutating FS call, or by the parent's after the result arrived.
func c09RunChild(dir string, k int, op string) (res string, t int) {
	cmd := exec.Command(os.Args[0])
	cmd.Env = append(os.Environ(), "VERIF_C09_CHILD=1", "VERIF_C09_DIR="+dir, "VERIF_C09_K="+strconv.Itoa(k), "VERIF_C09_OP="+op)
	cmd.Stdin = nil
	cmd.Stderr = io.Discard
	out, err := cmd.StdoutPipe()
	if err != nil {
		panic(err)
	}
	if err := cmd.Start(); err != nil {
		panic("start child: " + err.Error())
	}
	done := make(chan string, 1)
	go func() {
		line, _ := bufio.NewReader(out).ReadString('\n')
		done <- line
	}()
	var line string
	select {
	case line = <-done:
	case <-time.After(60 * time.Second):
		line = ""
	}
	_ = cmd.Process.Signal(syscall.SIGKILL)
	_ = cmd.Wait()
	line = strings.TrimRight(line, "\n")
	if strings.HasPrefix(line, "R ") {
		return line[2:], 0
	}
	return "dead", 1
}

func c09Child() {
	dir := os.Getenv("VERIF_C09_DIR")
	k, _ := strconv.Atoi(os.Getenv("VERIF_C09_K"))
	f := strings.Fields(os.Getenv("VERIF_C09_OP"))
	st := &c09FSState{}
	e, err := message.VerifOpenFS(dir, c09FS{FS: vfs.Default, st: st})
	if err != nil {
		fmt.Fprintln(os.Stderr, "child open:", err)
		os.Exit(3)
	}
	st.arm(k, func() {
		_ = syscall.Kill(os.Getpid(), syscall.SIGKILL)
		select {}
	})
	res := c09Call(e, map[int]*message.ChannelStore{}, f)
	st.disarm()
	w := bufio.NewWriter(os.Stdout)
	fmt.Fprintf(w, "R %s\n", res)
	w.Flush()
	select {} // never close cleanly: the parent SIGKILLs us
}

//go:build verif

// C28 — Every SEND gets exactly one SENDACK, in order.
//
// D tie: the REAL gateway core (pkg/gateway/core.Server: onData, sendExecutor,
// ShardedMailbox, session.WriteFrame, state.close, DrainSends, Stop) with the
// REAL access handler (internal/access/gateway.Handler.OnSendBatch: per-session
// head-gated sendack writes) on top of a fake transport, a trivial wire protocol
// and a fake message usecase (random latency, out-of-order emission, per-item
// and whole-batch failures).  Every linearisation-point event is appended to one
// mutex-protected log; the Lean driver runs the trace acceptor on it.
//
// ops of a case:
//   cfg <workers> <cap> <maxrec> <maxwait_us> <maxbytes>
//   phase <pseed> <nsess> <burst> <hlat_us> <failpct> <closepct> <pushes> <act>
//         act: 0 none | 1 DrainSends (long ctx) at a random point | 2 DrainSends with a
//              tiny ctx (usually expires) | 3 Stop at a random point
//   gate <drain 0|1> <wait_ms>
//         steered admission window: a new session whose ID() blocks (submit asks ID() for the shard,
//         after the admission fence, when there is more than one shard); one SEND is handed over,
//         then (drain=1) DrainSends runs while the submit is parked; after <wait_ms> or when the
//         drain returned the gate opens.  All waits are verdict-neutral.
//   redrain <wait_ms>
//         steered shard re-arm (must directly follow cfg): the executor's mailbox is re-created with an
//         observer; SEND 1 of a new session is handled, and in the window between its drain's last
//         empty check and finishShardDrain SEND 2 is admitted (re-arms the shard); SEND 2's handler is
//         held, SEND 3 is admitted meanwhile — a second concurrent drain of that shard would let
//         SENDACK 3 overtake SENDACK 2.  The hold ends when ack 3 shows up or after <wait_ms> (neutral).
//   fin   -> DrainSends (watchdog), Stop, snapshot of which sessions are still open
// output of phase/fin = the events logged since the previous op (see ev()).
package main

import (
	"context"
	"encoding/binary"
	"errors"
	"fmt"
	"os"
	"runtime"
	"strconv"
	"strings"
	"sync"
	"sync/atomic"
	"time"

	accessgateway "github.com/WuKongIM/WuKongIM/internal/access/gateway"
	"github.com/WuKongIM/WuKongIM/internal/usecase/message"
	"github.com/WuKongIM/WuKongIM/pkg/gateway/core"
	"github.com/WuKongIM/WuKongIM/pkg/gateway/session"
	"github.com/WuKongIM/WuKongIM/pkg/gateway/transport"
	gatewaytypes "github.com/WuKongIM/WuKongIM/pkg/gateway/types"
	"github.com/WuKongIM/WuKongIM/pkg/protocol/frame"
	"github.com/WuKongIM/WuKongIM/pkg/workqueue"
)

func init() {
	Register(&Prop{Gen: genC28, NewRunner: func() Runner { return &c28Runner{} }})
}

// ------------------------------------------------------------- generator ---

func genC28(g *Gen) {
	// steered cases (a parked submit inside the admission window), with and without a drain
	for k := 0; k < 6; k++ {
		g.Case()
		g.Count("case:steered-admission-window")
		g.Op("cfg", "%d %d %d %d %d", g.R.Range(2, 4), 4096, []int{1, 4, 16}[g.R.Intn(3)], []int{-1, 0, 200}[g.R.Intn(3)], 0)
		if g.R.Chance(50) {
			g.Op("phase", "%d %d %d %d %d %d %d %d", g.R.U64()>>1, g.R.Range(1, 3), g.R.Range(1, 10), 50, 0, 0, 0, 0)
		}
		if k%3 == 2 {
			g.Count("steered:control-no-drain")
			g.Op("gate", "0 %d", 100)
			g.Op("phase", "%d %d %d %d %d %d %d %d", g.R.U64()>>1, 2, 5, 0, 0, 0, 0, 0)
		} else {
			g.Count("steered:drain-while-parked")
			g.Op("gate", "1 %d", 300)
		}
		g.Op("fin", "")
	}
	for k := 0; k < 4; k++ { // steered: a shard re-armed in the drain window must not get a second drainer
		g.Case()
		g.Count("case:steered-shard-rearm")
		g.Op("cfg", "%d %d %d %d %d", g.R.Range(2, 4), 4096, 1, -1, 0)
		g.Op("redrain", "%d", 300)
		if g.R.Chance(50) {
			g.Op("phase", "%d %d %d %d %d %d %d %d", g.R.U64()>>1, 2, 5, 0, 0, 0, 0, 0)
		}
		g.Op("fin", "")
	}
	for c := 0; c < g.N; c++ {
		g.Case()
		// mood of the case: 0 calm (everything must be acked), 1 saturation, 2 faults, 3 fence (drain/stop mid-traffic)
		mood := g.R.Pick(3, 2, 3, 3)
		g.Count([]string{"case:calm", "case:saturation", "case:faults", "case:fence"}[mood])
		workers := []int{1, 1, 2, 2, 3, 4}[g.R.Intn(6)]
		var capa int
		switch {
		case mood == 1 || (mood != 0 && g.R.Chance(20)): // tight: saturation is the common case
			capa = g.R.Range(1, 8)
			g.Count("cfg:cap-tight")
		case g.R.Chance(50):
			capa = g.R.Range(64, 256)
			g.Count("cfg:cap-medium")
		default:
			capa = 4096
			g.Count("cfg:cap-large")
		}
		maxrec := []int{1, 2, 3, 4, 8, 16}[g.R.Intn(6)]
		if maxrec == 1 {
			g.Count("cfg:batch-of-one")
		}
		if workers == 1 {
			g.Count("cfg:single-shard")
		}
		maxwait := []int{-1, 0, 200, 1000}[g.R.Intn(4)] // -1 = explicit "no wait", 0 = default 1ms
		maxbytes := 0
		if g.R.Chance(30) {
			maxbytes = g.R.Range(4, 40)
			g.Count("cfg:byte-split")
		}
		g.Op("cfg", "%d %d %d %d %d", workers, capa, maxrec, maxwait, maxbytes)
		nph := g.R.Range(1, 3)
		fenced := false
		for p := 0; p < nph; p++ {
			nsess := g.R.Range(1, 6)
			burst := g.R.Range(1, 30)
			hlat := []int{0, 0, 50, 200, 800}[g.R.Intn(5)]
			if mood == 1 {
				hlat = []int{200, 800, 2000}[g.R.Intn(3)]
			}
			failpct, closepct, act := 0, 0, 0
			if mood == 2 {
				failpct = []int{0, 5, 10, 40}[g.R.Intn(4)]
				closepct = []int{0, 20, 60}[g.R.Intn(3)]
			}
			pushes := []int{0, 0, 5, 20}[g.R.Intn(4)]
			if mood == 3 && !fenced && (p == nph-1 || g.R.Chance(50)) {
				act = 1 + g.R.Pick(3, 2, 2)
			}
			if failpct > 0 {
				g.Count("phase:batch-failures")
			}
			if closepct > 0 {
				g.Count("phase:peer-close")
			}
			if pushes > 0 {
				g.Count("phase:concurrent-push")
			}
			if hlat > 0 {
				g.Count("phase:slow-handler")
			}
			if fenced {
				g.Count("phase:after-fence")
			}
			switch act {
			case 1:
				g.Count("phase:drain-mid")
				fenced = true
			case 2:
				g.Count("phase:drain-short-ctx")
				fenced = true
			case 3:
				g.Count("phase:stop-mid")
				fenced = true
			}
			g.Op("phase", "%d %d %d %d %d %d %d %d", g.R.U64()>>1, nsess, burst, hlat, failpct, closepct, pushes, act)
		}
		g.Op("fin", "")
	}
}

// ------------------------------------------------------------ event log ---

type c28Log struct {
	mu   sync.Mutex
	ev   []string
	n    atomic.Int64
	dead atomic.Bool
}

func (l *c28Log) add(format string, a ...any) {
	if l.dead.Load() {
		return
	}
	s := fmt.Sprintf(format, a...)
	l.mu.Lock()
	l.ev = append(l.ev, s)
	l.mu.Unlock()
	l.n.Add(1)
}

func (l *c28Log) has(prefix string) bool {
	l.mu.Lock()
	defer l.mu.Unlock()
	for _, e := range l.ev {
		if strings.HasPrefix(e, prefix) {
			return true
		}
	}
	return false
}

func (l *c28Log) take() string {
	l.mu.Lock()
	defer l.mu.Unlock()
	out := strings.Join(l.ev, " ")
	l.ev = nil
	if out == "" {
		return "-"
	}
	return out
}

// ------------------------------------------------------- fake transport ---

type c28Conn struct {
	id     uint64
	log    *c28Log
	mu     sync.Mutex
	closed bool
}

func (c *c28Conn) ID() uint64 { return c.id }
func (c *c28Conn) Write(b []byte) error {
	c.mu.Lock()
	defer c.mu.Unlock()
	// what reaches the transport is logged even after Close: the acceptor flags it
	c.log.add("%s", strings.Replace(string(b), "#", strconv.FormatUint(c.id, 10), 1))
	if c.closed {
		return errors.New("c28: write on closed conn")
	}
	return nil
}
func (c *c28Conn) Close() error {
	c.mu.Lock()
	defer c.mu.Unlock()
	if !c.closed {
		c.closed = true
		c.log.add("C%d", c.id)
	}
	return nil
}
func (c *c28Conn) isClosed() bool {
	c.mu.Lock()
	defer c.mu.Unlock()
	return c.closed
}
func (c *c28Conn) LocalAddr() string  { return "local" }
func (c *c28Conn) RemoteAddr() string { return "r" + strconv.FormatUint(c.id, 10) }

type c28Listener struct{}

func (c28Listener) Start() error { return nil }
func (c28Listener) Stop() error  { return nil }
func (c28Listener) Addr() string { return "c28" }

type c28Factory struct{ handler transport.ConnHandler }

func (f *c28Factory) Name() string { return "c28t" }
func (f *c28Factory) Build(specs []transport.ListenerSpec) ([]transport.Listener, error) {
	out := make([]transport.Listener, 0, len(specs))
	for _, sp := range specs {
		f.handler = sp.Handler
		out = append(out, c28Listener{})
	}
	return out, nil
}

// -------------------------------------------------------- wire protocol ---
// inbound frame: kind(1) seq(8, big endian) plen(1) payload ; kind 'S' = SEND, 'P' = PING

type c28Proto struct{}

func (c28Proto) Name() string             { return "c28p" }
func (c28Proto) OwnsDecodedFrames() bool  { return true }
func (c28Proto) OnOpen(session.Session) error  { return nil }
func (c28Proto) OnClose(session.Session) error { return nil }
func (c28Proto) Decode(_ session.Session, in []byte) ([]frame.Frame, int, error) {
	var frames []frame.Frame
	used := 0
	for {
		rest := in[used:]
		if len(rest) < 10 {
			break
		}
		pl := int(rest[9])
		if len(rest) < 10+pl {
			break
		}
		seq := binary.BigEndian.Uint64(rest[1:9])
		switch rest[0] {
		case 'S':
			frames = append(frames, &frame.SendPacket{ClientSeq: seq, ClientMsgNo: "m" + strconv.FormatUint(seq, 10),
				ChannelID: "ch", ChannelType: 2, Payload: append([]byte(nil), rest[10:10+pl]...)})
		case 'P':
			frames = append(frames, &frame.PingPacket{})
		default:
			return nil, 0, errors.New("c28: bad frame kind")
		}
		used += 10 + pl
	}
	return frames, used, nil
}

// outbound frames are rendered as the log token itself ('#' = conn id, filled in by the conn)
func (c28Proto) Encode(_ session.Session, f frame.Frame, _ session.OutboundMeta) ([]byte, error) {
	switch p := f.(type) {
	case *frame.SendackPacket:
		return []byte(fmt.Sprintf("A#:%d:%d:%d:%s", p.ClientSeq, uint8(p.ReasonCode), p.MessageID, p.ClientMsgNo)), nil
	case *frame.RecvPacket:
		return []byte(fmt.Sprintf("V#:%d", p.MessageSeq)), nil
	case *frame.PongPacket:
		return []byte("G#"), nil
	default:
		return []byte("U#"), nil
	}
}

func c28Frame(kind byte, seq uint64, plen int) []byte {
	b := make([]byte, 10+plen)
	b[0] = kind
	binary.BigEndian.PutUint64(b[1:9], seq)
	b[9] = byte(plen)
	for i := 0; i < plen; i++ {
		b[10+i] = byte(seq) + byte(i)
	}
	return b
}

// c28GatedSession parks the first ID() call made while it is armed.
type c28GatedSession struct {
	session.Session
	armed   atomic.Bool
	entered chan struct{}
	release chan struct{}
}

func (g *c28GatedSession) ID() uint64 {
	if g.armed.CompareAndSwap(true, false) {
		close(g.entered)
		<-g.release
	}
	return g.Session.ID()
}

// ---------------------------------------------------- handler + usecase ---

type c28Handler struct {
	*accessgateway.Handler
	r *c28Runner
}

func c28Sid(s session.Session) uint64 {
	if s == nil {
		return 0
	}
	n, _ := strconv.ParseUint(strings.TrimPrefix(s.RemoteAddr(), "r"), 10, 64)
	return n
}

func (h *c28Handler) OnSessionOpen(ctx gatewaytypes.Context) error {
	if ctx.Session != nil {
		sid := c28Sid(ctx.Session)
		ctx.Session.SetValue(gatewaytypes.SessionValueUID, "u"+strconv.FormatUint(sid, 10))
		h.r.smu.Lock()
		h.r.sessions[sid] = ctx.Session
		h.r.bySessionID[ctx.Session.ID()] = sid
		h.r.smu.Unlock()
	}
	return h.Handler.OnSessionOpen(ctx)
}

type c28Usecase struct{ r *c28Runner }

func c28Mix(a, b, c uint64) uint64 {
	z := a*0x9E3779B97F4A7C15 ^ b*0xBF58476D1CE4E5B9 ^ c*0x94D049BB133111EB
	z ^= z >> 29
	z *= 0xBF58476D1CE4E5B9
	z ^= z >> 32
	return z
}

var c28ErrOther = errors.New("c28: infrastructure error")

// outcome kinds (the Lean driver maps them to the expected SENDACK reason code)
func c28Outcome(kind int, sid, seq uint64) message.SendBatchItemResult {
	res := message.SendBatchItemResult{Result: message.SendResult{MessageID: sid*100000 + seq, MessageSeq: seq, Reason: message.ReasonSuccess}}
	switch kind {
	case 1:
		res.Err = message.ErrChannelNotFound
	case 2:
		res.Err = fmt.Errorf("wrapped: %w", message.ErrNotLeader)
	case 3:
		res.Err = context.DeadlineExceeded
	case 4:
		res.Err = c28ErrOther
	case 5:
		res.Result.Reason = message.ReasonNotAllowSend
	case 6:
		res.Result.Reason = message.ReasonInBlacklist
	case 7:
		res.Err = message.ErrInvalidCommand
	case 8:
		res.Err = context.Canceled
	}
	return res
}

func (u *c28Usecase) SendBatchEach(items []message.SendBatchItem, emit func(int, message.SendBatchItemResult) error) error {
	r := u.r
	ph := r.phase.Load()
	if len(items) == 0 {
		return nil
	}
	first := items[0].Command
	rnd := NewRand(c28Mix(ph.seed, first.SenderSessionID, first.ClientSeq))
	kinds := make([]int, len(items))
	sids := make([]uint64, len(items))
	// H events: what the handler was given, in batch order (one log entry => atomic)
	var sb strings.Builder
	r.smu.Lock()
	for i, it := range items {
		sids[i] = r.bySessionID[it.Command.SenderSessionID]
	}
	r.smu.Unlock()
	for i, it := range items {
		k := 0
		if x := int(c28Mix(ph.seed, sids[i], it.Command.ClientSeq) % 100); x >= 70 {
			k = 1 + (x-70)%8
		}
		kinds[i] = k
		if i > 0 {
			sb.WriteByte(' ')
		}
		fmt.Fprintf(&sb, "H%d:%d:%d", sids[i], it.Command.ClientSeq, k)
	}
	r.log.add("%s", sb.String())
	if hs := r.holdSend.Load(); hs != nil {
		for i, it := range items {
			if sids[i] == hs.sid && it.Command.ClientSeq == hs.seq {
				close(hs.entered)
				<-hs.release
			}
		}
	}
	r.stats.batches.Add(1)
	if len(items) > 1 {
		r.stats.multi.Add(1)
	}
	c28Pause(rnd, ph.hlat)
	order := make([]int, len(items))
	for i := range order {
		order[i] = i
	}
	if rnd.Chance(50) { // out-of-order completion: the gateway must still write acks in item order
		for i := len(order) - 1; i > 0; i-- {
			j := rnd.Intn(i + 1)
			order[i], order[j] = order[j], order[i]
		}
	}
	failAt := -1
	if rnd.Chance(ph.failpct) {
		failAt = rnd.Intn(len(items) + 1)
	}
	for n, i := range order {
		if n == failAt {
			r.stats.batchFail.Add(1)
			return c28ErrOther
		}
		if err := emit(i, c28Outcome(kinds[i], sids[i], items[i].Command.ClientSeq)); err != nil {
			r.stats.emitErr.Add(1)
			return err // like the real usecase: first emit error wins, later emissions are skipped
		}
		if rnd.Chance(30) {
			c28Pause(rnd, ph.hlat/4)
		}
	}
	if failAt == len(items) {
		r.stats.batchFail.Add(1)
		return c28ErrOther
	}
	return nil
}

func c28Pause(rnd *Rand, maxUs int) {
	if maxUs <= 0 {
		if rnd.Chance(30) {
			runtime.Gosched()
		}
		return
	}
	d := rnd.Intn(maxUs + 1)
	if d < 20 {
		runtime.Gosched()
		return
	}
	time.Sleep(time.Duration(d) * time.Microsecond)
}

// --------------------------------------------------------------- runner ---

type c28Phase struct {
	seed    uint64
	hlat    int
	failpct int
}

type c28Stats struct {
	batches, multi, batchFail, emitErr atomic.Int64
}

type c28HoldSend struct {
	sid, seq         uint64
	entered, release chan struct{}
}

// c28MailboxObs fires `fn` once, at the first "worker leaves" observation after it was armed
// (drainScheduledShard: after the drain loop saw its queue empty, before finishShardDrain).
type c28MailboxObs struct {
	mu    sync.Mutex
	phase map[int]int
	armed atomic.Bool
	fn    func()
}

func (o *c28MailboxObs) ObserveShardedMailbox(obs workqueue.ShardedMailboxObservation) {
	if obs.Kind != "worker" || obs.Shard < 0 {
		return
	}
	o.mu.Lock()
	o.phase[obs.Shard]++
	leaving := o.phase[obs.Shard]%2 == 0
	o.mu.Unlock()
	if leaving && o.armed.CompareAndSwap(true, false) {
		o.fn()
	}
}

type c28Runner struct {
	holdSend    atomic.Pointer[c28HoldSend]
	srv         *core.Server
	fac         *c28Factory
	log         *c28Log
	smu         sync.Mutex
	sessions    map[uint64]session.Session
	bySessionID map[uint64]uint64
	conns       []*c28Conn
	phase       atomic.Pointer[c28Phase]
	stats       c28Stats
	ops         []string
	stopped     bool
	replaying   bool
}

func (r *c28Runner) start(workers, capa, maxrec, maxwaitUs, maxbytes int) error {
	r.log = &c28Log{}
	r.sessions = map[uint64]session.Session{}
	r.bySessionID = map[uint64]uint64{}
	r.phase.Store(&c28Phase{})
	r.fac = &c28Factory{}
	reg := core.NewRegistry()
	if err := reg.RegisterTransport(r.fac); err != nil {
		return err
	}
	if err := reg.RegisterProtocol(c28Proto{}); err != nil {
		return err
	}
	h := &c28Handler{r: r}
	h.Handler = accessgateway.New(accessgateway.Options{Messages: &c28Usecase{r: r}, OwnerNodeID: 1, SendTimeout: time.Minute})
	so := gatewaytypes.SessionOptions{AsyncSendBatchMaxRecords: maxrec, AsyncSendBatchMaxBytes: maxbytes, IdleTimeout: time.Hour}
	switch {
	case maxwaitUs < 0:
		so.AsyncSendBatchMaxWait = -1
	case maxwaitUs > 0:
		so.AsyncSendBatchMaxWait = time.Duration(maxwaitUs) * time.Microsecond
	}
	srv, err := core.NewServer(reg, &gatewaytypes.Options{
		Handler:        h,
		DefaultSession: so,
		Runtime: gatewaytypes.RuntimeOptions{AsyncSendWorkers: workers, AsyncSendQueueCapacity: capa,
			AsyncAuthWorkers: 1, AsyncAuthQueueCapacity: 1, AsyncPoolReleaseTimeout: 50 * time.Millisecond},
		Listeners: []gatewaytypes.ListenerOptions{{Name: "l", Network: "tcp", Address: "c28", Transport: "c28t", Protocol: "c28p"}},
	})
	if err != nil {
		return err
	}
	if err := srv.Start(); err != nil {
		return err
	}
	r.srv = srv
	return nil
}

func (r *c28Runner) Close() {
	if r.srv != nil {
		if r.log != nil {
			r.log.dead.Store(true)
		}
		srv := r.srv
		r.srv = nil
		go func() { _ = srv.Stop() }()
	}
	if os.Getenv("C28_STATS") != "" {
		fmt.Fprintf(os.Stderr, "C28STATS batches=%d multi=%d batchFail=%d emitErr=%d\n",
			r.stats.batches.Load(), r.stats.multi.Load(), r.stats.batchFail.Load(), r.stats.emitErr.Load())
	}
}

func atoiAll(f []string) ([]int64, bool) {
	out := make([]int64, len(f))
	for i, s := range f {
		v, err := strconv.ParseInt(s, 10, 64)
		if err != nil {
			return nil, false
		}
		out[i] = v
	}
	return out, true
}

func (r *c28Runner) Step(op string) string {
	if !r.replaying {
		r.ops = append(r.ops, op)
	}
	f := strings.Fields(op)
	if len(f) == 0 {
		return "bad-op"
	}
	switch f[0] {
	case "cfg":
		a, ok := atoiAll(f[1:])
		if !ok || len(a) != 5 || r.srv != nil || a[0] < 1 || a[0] > 64 || a[1] < 1 || a[2] < 1 {
			return "bad-op"
		}
		if err := r.start(int(a[0]), int(a[1]), int(a[2]), int(a[3]), int(a[4])); err != nil {
			return "start-failed " + err.Error()
		}
		return "ok"
	case "phase":
		a, ok := atoiAll(f[1:])
		if !ok || len(a) != 8 || a[1] < 1 || a[1] > 64 || a[2] < 0 || a[2] > 1000 || a[7] < 0 || a[7] > 3 {
			return "bad-op"
		}
		if r.srv == nil {
			if r.log != nil { // cfg failed or fin already ran
				return "bad-op"
			}
			if err := r.start(2, 16, 4, 0, 0); err != nil {
				return "start-failed " + err.Error()
			}
		}
		r.runPhase(uint64(a[0]), int(a[1]), int(a[2]), int(a[3]), int(a[4]), int(a[5]), int(a[6]), int(a[7]))
		return r.log.take()
	case "redrain":
		a, ok := atoiAll(f[1:])
		if !ok || len(a) != 1 || a[0] < 0 || a[0] > 5000 || r.srv == nil || len(r.conns) != 0 {
			return "bad-op"
		}
		r.runRedrain(time.Duration(a[0]) * time.Millisecond)
		return r.log.take()
	case "gate":
		a, ok := atoiAll(f[1:])
		if !ok || len(a) != 2 || a[0] < 0 || a[0] > 1 || a[1] < 0 || a[1] > 5000 || r.srv == nil {
			return "bad-op"
		}
		r.runGate(a[0] == 1, time.Duration(a[1])*time.Millisecond)
		return r.log.take()
	case "fin":
		if len(f) != 1 || r.srv == nil {
			return "bad-op"
		}
		return r.fin()
	}
	return "bad-op"
}

func (r *c28Runner) runPhase(seed uint64, nsess, burst, hlat, failpct, closepct, pushes, act int) {
	r.phase.Store(&c28Phase{seed: seed, hlat: hlat, failpct: failpct})
	rnd := NewRand(seed)
	h := r.fac.handler
	base := len(r.conns)
	conns := make([]*c28Conn, nsess)
	for i := range conns {
		c := &c28Conn{id: uint64(base + i + 1), log: r.log}
		conns[i] = c
		r.conns = append(r.conns, c)
		r.log.add("O%d", c.id)
		_ = h.OnOpen(c)
	}
	var wg sync.WaitGroup
	for i := range conns {
		c := conns[i]
		pr := NewRand(c28Mix(seed, c.id, 1))
		wg.Add(1)
		go func() { // producer: the transport's read loop of this connection
			defer wg.Done()
			seq := uint64(1)
			for seq <= uint64(burst) && !c.isClosed() {
				n := 1 + pr.Intn(4)
				var buf []byte
				var toks []string
				for k := 0; k < n && seq <= uint64(burst); k++ {
					if pr.Chance(10) {
						buf = append(buf, c28Frame('P', 0, 0)...)
					}
					buf = append(buf, c28Frame('S', seq, pr.Intn(12))...)
					toks = append(toks, fmt.Sprintf("S%d:%d", c.id, seq))
					seq++
				}
				r.log.add("%s", strings.Join(toks, " "))
				if pr.Chance(15) && len(buf) > 2 { // a frame split across two reads
					cut := 1 + pr.Intn(len(buf)-1)
					_ = h.OnData(c, buf[:cut])
					c28Pause(pr, 50)
					_ = h.OnData(c, buf[cut:])
				} else {
					_ = h.OnData(c, buf)
				}
				c28Pause(pr, 100)
			}
		}()
		if pushes > 0 {
			r.smu.Lock()
			sess := r.sessions[c.id]
			r.smu.Unlock()
			if sess != nil {
				qr := NewRand(c28Mix(seed, c.id, 2))
				wg.Add(1)
				go func() { // another writer on the same session (delivery pushes)
					defer wg.Done()
					for k := 1; k <= pushes; k++ {
						err := sess.WriteFrame(&frame.RecvPacket{MessageSeq: uint64(k), ChannelID: "ch", ChannelType: 2})
						ok := 1
						if err != nil {
							ok = 0
						}
						r.log.add("J%d:%d:%d", c.id, k, ok)
						c28Pause(qr, 80)
					}
				}()
			}
		}
		if rnd.Chance(closepct) {
			cr := NewRand(c28Mix(seed, c.id, 3))
			wg.Add(1)
			go func() { // the peer goes away at some point
				defer wg.Done()
				for k := cr.Intn(40); k > 0; k-- {
					c28Pause(cr, hlat/2+30)
				}
				r.log.add("X%d", c.id) // the peer closes (informational)
				h.OnClose(c, nil)
			}()
		}
	}
	if act != 0 && !r.stopped {
		ar := NewRand(c28Mix(seed, 0, 4))
		wg.Add(1)
		go func() {
			defer wg.Done()
			for k := ar.Intn(30); k > 0; k-- {
				c28Pause(ar, hlat/2+30)
			}
			switch act {
			case 1:
				r.drain(2*time.Minute, false)
			case 2:
				r.drain(time.Duration(ar.Intn(200))*time.Microsecond, false)
			case 3:
				r.log.add("T0")
				_ = r.srv.Stop()
				r.log.add("T1")
			}
		}()
		if act == 3 {
			r.stopped = true
		}
	}
	wg.Wait()
}

func (r *c28Runner) runRedrain(wait time.Duration) {
	r.phase.Store(&c28Phase{seed: 9})
	h := r.fac.handler
	obs := &c28MailboxObs{phase: map[int]int{}}
	if !r.srv.VerifObserveSendMailbox(obs) {
		return
	}
	c := &c28Conn{id: uint64(len(r.conns) + 1), log: r.log}
	r.conns = append(r.conns, c)
	r.log.add("O%d", c.id)
	_ = h.OnOpen(c)
	hold := &c28HoldSend{sid: c.id, seq: 2, entered: make(chan struct{}), release: make(chan struct{})}
	r.holdSend.Store(hold)
	injected := make(chan struct{})
	obs.fn = func() { // on the worker goroutine, inside the drain window
		r.log.add("S%d:2", c.id)
		_ = h.OnData(c, c28Frame('S', 2, 2))
		close(injected)
	}
	obs.armed.Store(true)
	r.log.add("S%d:1", c.id)
	_ = h.OnData(c, c28Frame('S', 1, 2))
	ok := false
	select {
	case <-injected:
		select {
		case <-hold.entered: // SEND 2 is in its handler: the re-armed drain is running
			ok = true
		case <-time.After(20 * time.Second):
		}
	case <-time.After(20 * time.Second):
	}
	obs.armed.Store(false)
	if ok {
		r.log.add("S%d:3", c.id)
		_ = h.OnData(c, c28Frame('S', 3, 2))
		deadline := time.Now().Add(wait)
		for time.Now().Before(deadline) { // only a second drainer can acknowledge SEND 3 now
			if r.log.has(fmt.Sprintf("A%d:3:", c.id)) {
				break
			}
			time.Sleep(2 * time.Millisecond)
		}
	}
	close(hold.release)
	r.holdSend.Store(nil)
}

func (r *c28Runner) runGate(withDrain bool, wait time.Duration) {
	r.phase.Store(&c28Phase{seed: 7})
	h := r.fac.handler
	c := &c28Conn{id: uint64(len(r.conns) + 1), log: r.log}
	r.conns = append(r.conns, c)
	r.log.add("O%d", c.id)
	_ = h.OnOpen(c)
	gs := &c28GatedSession{entered: make(chan struct{}), release: make(chan struct{})}
	if !r.srv.VerifWrapSession("l", c.id, func(s session.Session) session.Session { gs.Session = s; return gs }) {
		return
	}
	gs.armed.Store(true)
	sent := make(chan struct{})
	go func() {
		defer close(sent)
		r.log.add("S%d:1", c.id)
		_ = h.OnData(c, c28Frame('S', 1, 3))
	}()
	parked := false
	select {
	case <-gs.entered:
		parked = true
	case <-sent: // nobody asked for ID() (single shard, rejected, ...): nothing to steer
	case <-time.After(20 * time.Second):
	}
	gs.armed.Store(false)
	if parked && withDrain && !r.stopped {
		drained := make(chan struct{})
		go func() { defer close(drained); r.drain(2*time.Minute, false) }()
		select {
		case <-drained: // only possible if the parked submit is invisible to the drain
		case <-time.After(wait):
		}
		close(gs.release)
		<-drained
	} else {
		if parked {
			time.Sleep(wait / 4)
		}
		close(gs.release)
	}
	<-sent
}

// drain logs D0, calls DrainSends, logs D1:<ok|to|gone>. With watchdog=true the wait is
// abandoned only after 30 s without any logged event (or 5 min in total).
func (r *c28Runner) drain(timeout time.Duration, watchdog bool) string {
	ctx, cancel := context.WithTimeout(context.Background(), timeout)
	defer cancel()
	r.log.add("D0")
	done := make(chan error, 1)
	go func() { done <- r.srv.DrainSends(ctx) }()
	var err error
	if !watchdog {
		err = <-done
	} else {
		last := r.log.n.Load()
		idle := 0
		tick := time.NewTicker(time.Second)
		defer tick.Stop()
	loop:
		for total := 0; ; total++ {
			select {
			case err = <-done:
				break loop
			case <-tick.C:
				if n := r.log.n.Load(); n != last {
					last, idle = n, 0
				} else {
					idle++
				}
				if idle >= 30 || total >= 300 {
					cancel()
					err = <-done
					break loop
				}
			}
		}
	}
	res := "ok"
	switch {
	case err == nil:
	case errors.Is(err, gatewaytypes.ErrGatewayClosed):
		res = "gone"
	default:
		res = "to"
	}
	r.log.add("D1:%s", res)
	return res
}

func (r *c28Runner) fin() string {
	res := r.drain(time.Hour, true)
	if res == "to" && !r.replaying {
		// harness-level timeout: inconclusive, rerun the whole case once on a fresh server
		r.log.dead.Store(true)
		again := &c28Runner{replaying: true}
		out := ""
		for _, op := range r.ops {
			out = again.Step(op)
		}
		again.Close()
		r.srv = nil
		if strings.Contains(out, "D1:to") {
			return "STUCK " + out
		}
		return "inconclusive"
	}
	var sb strings.Builder
	for _, c := range r.conns {
		o := 1
		if c.isClosed() {
			o = 0
		}
		fmt.Fprintf(&sb, " Z%d:%d", c.id, o)
	}
	out := r.log.take()
	r.log.dead.Store(true)
	srv := r.srv
	r.srv = nil
	_ = srv.Stop()
	if out == "-" {
		out = ""
	}
	return strings.TrimSpace(out + sb.String())
}

//go:build verif

// C07 — the message store behaves as a faithful sequential log.
//
// One REAL store (db.OpenNodeStore) per case, four channels on it, driven
// through Messages().Channel(key,id) leases.  Op vocabulary (c = channel 0..3):
//
//	app   c mode base rec...      ChannelLog.Append        rec = id:from:cmn:payload:ts (hex strings)
//	fetch c base ck rec...        ChannelLog.ApplyFetch    ck = `-` | epoch:lso:hw
//	trunc c from                  TruncateFrom
//	trim  c through maxMsgs maxBytes   TrimPrefixThroughLimit (0 0 = TrimPrefixThrough)
//	ckpt  c epoch lso hw          StoreCheckpoint
//	ckptm c epoch lso hw vis leo  StoreCheckpointMonotonic
//	close c                       close the lease (re-acquired lazily)
//	reopen                        close the whole NodeStore and open it again
//	leo c | lret c | lckpt c
//	read c from limit maxBytes | rread c from limit maxBytes
//	get c seq | byid c id | lastvis c after
//	bycmn c cmn before limit | idem c from cmn | lss c from through
//	dump c                        canonical dump (all of the above over the case's key universe)
package main

import (
	"context"
	"errors"
	"fmt"
	"io"
	"log"
	"os"
	"path/filepath"
	"sort"
	"strconv"
	"strings"

	"github.com/WuKongIM/WuKongIM/pkg/db"
	"github.com/WuKongIM/WuKongIM/pkg/db/message"
)

func init() {
	log.SetOutput(io.Discard) // Pebble's default logger writes WAL recovery notes to stderr
	Register(&Prop{Gen: genC07, NewRunner: func() Runner { return newC07Runner() }})
}

const c07NumChan = 4
const c07MaxNum = 1 << 32 // every numeric op argument must be below this (both sides answer bad-op otherwise)

var c07Keys = [c07NumChan]string{"k", "k1", "k10", "k\x00z"}

// ------------------------------------------------------------------ runner --

type c07Runner struct {
	dir    string
	store  *db.NodeStore
	leases [c07NumChan]*message.ChannelLog
	ids    map[uint64]bool
	froms  map[string]bool
	cmns   map[string]bool
	seqn   int
}

var c07RunnerSeq int

func newC07Runner() *c07Runner {
	c07RunnerSeq++
	base := os.Getenv("VERIF_SCRATCH")
	if base == "" {
		base = "."
	}
	r := &c07Runner{dir: filepath.Join(base, fmt.Sprintf("c07-%d-%d", os.Getpid(), c07RunnerSeq)),
		ids: map[uint64]bool{}, froms: map[string]bool{}, cmns: map[string]bool{}}
	r.open()
	return r
}

func (r *c07Runner) open() {
	s, err := db.OpenNodeStore(db.DefaultNodeStoreOptions(r.dir))
	if err != nil {
		panic("open store: " + err.Error())
	}
	r.store = s
}

func (r *c07Runner) Close() {
	for i := range r.leases {
		if r.leases[i] != nil {
			_ = r.leases[i].Close()
			r.leases[i] = nil
		}
	}
	if r.store != nil {
		_ = r.store.Close()
		r.store = nil
	}
	_ = os.RemoveAll(r.dir)
}

func (r *c07Runner) lease(c int) *message.ChannelLog {
	if r.leases[c] == nil {
		l, err := r.store.Messages().Channel(message.ChannelKey(c07Keys[c]), message.ChannelID{ID: "ch" + strconv.Itoa(c), Type: uint8(c + 1)})
		if err != nil {
			panic("acquire lease: " + err.Error())
		}
		r.leases[c] = l
	}
	return r.leases[c]
}

func c07Err(err error) string {
	switch {
	case err == nil:
		return "ok"
	case errors.Is(err, db.ErrInvalidArgument):
		return "err:invalid"
	case errors.Is(err, db.ErrConflict):
		return "err:conflict"
	case errors.Is(err, db.ErrCorruptState):
		return "err:corruptstate"
	case errors.Is(err, db.ErrCorruptValue):
		return "err:corruptvalue"
	case errors.Is(err, db.ErrChecksumMismatch):
		return "err:checksum"
	case errors.Is(err, db.ErrClosed):
		return "err:closed"
	case errors.Is(err, db.ErrNotFound):
		return "err:notfound"
	default:
		return "err:other"
	}
}

func c07Num(s string) (uint64, bool) {
	v, err := strconv.ParseUint(s, 10, 64)
	if err != nil || v >= c07MaxNum {
		return 0, false
	}
	return v, true
}

func c07Hex(s string) (string, bool) {
	if s == "-" {
		return "", true
	}
	if len(s)%2 != 0 {
		return "", false
	}
	for _, ch := range s {
		if !(ch >= '0' && ch <= '9' || ch >= 'a' && ch <= 'f') {
			return "", false
		}
	}
	return string(UnHex(s)), true
}

// parseRec parses id:from:cmn:payload:ts
func c07ParseRec(s string) (message.Record, bool) {
	p := strings.Split(s, ":")
	if len(p) != 5 {
		return message.Record{}, false
	}
	id, ok1 := c07Num(p[0])
	from, ok2 := c07Hex(p[1])
	cmn, ok3 := c07Hex(p[2])
	pay, ok4 := c07Hex(p[3])
	ts, ok5 := c07Num(p[4])
	if !(ok1 && ok2 && ok3 && ok4 && ok5) || ts == 0 {
		return message.Record{}, false
	}
	return message.Record{ID: id, FromUID: from, ClientMsgNo: cmn, Payload: []byte(pay), ServerTimestampMS: int64(ts)}, true
}

func (r *c07Runner) msg(c int, m message.Message) string {
	s := fmt.Sprintf("%d:%d:%s:%s:%s:%d:%d", m.MessageSeq, m.MessageID, Hex([]byte(m.FromUID)), Hex([]byte(m.ClientMsgNo)),
		Hex(m.Payload), m.ServerTimestampMS, m.PayloadHash)
	if m.ChannelID != "ch"+strconv.Itoa(c) || m.ChannelType != uint8(c+1) {
		s += "!badchan"
	}
	return s
}

func (r *c07Runner) msgs(c int, ms []message.Message, err error) string {
	if err != nil {
		return c07Err(err)
	}
	var b strings.Builder
	b.WriteString("ok")
	for _, m := range ms {
		b.WriteByte(' ')
		b.WriteString(r.msg(c, m))
	}
	return b.String()
}

func (r *c07Runner) one(c int, m message.Message, ok bool, err error) string {
	if err != nil {
		return c07Err(err)
	}
	if !ok {
		return "none"
	}
	return "ok " + r.msg(c, m)
}

func (r *c07Runner) remember(recs []message.Record) {
	for _, rec := range recs {
		r.ids[rec.ID] = true
		r.froms[rec.FromUID] = true
		r.cmns[rec.ClientMsgNo] = true
	}
}

func (r *c07Runner) Step(op string) string {
	ctx := context.Background()
	f := strings.Fields(op)
	if len(f) == 0 {
		return "bad-op"
	}
	if f[0] == "reopen" {
		if len(f) != 1 {
			return "bad-op"
		}
		for i := range r.leases {
			if r.leases[i] != nil {
				_ = r.leases[i].Close()
				r.leases[i] = nil
			}
		}
		if err := r.store.Close(); err != nil {
			return c07Err(err)
		}
		r.open()
		return "ok"
	}
	if len(f) < 2 {
		return "bad-op"
	}
	cv, okc := c07Num(f[1])
	if !okc || cv >= c07NumChan {
		return "bad-op"
	}
	c := int(cv)
	nums := func(from int, n int) ([]uint64, bool) {
		if len(f) != from+n {
			return nil, false
		}
		out := make([]uint64, n)
		for i := 0; i < n; i++ {
			v, ok := c07Num(f[from+i])
			if !ok {
				return nil, false
			}
			out[i] = v
		}
		return out, true
	}
	switch f[0] {
	case "app":
		if len(f) < 4 {
			return "bad-op"
		}
		mode, ok1 := c07Num(f[2])
		base, ok2 := c07Num(f[3])
		if !ok1 || !ok2 || mode > 3 {
			return "bad-op"
		}
		recs := make([]message.Record, 0, len(f)-4)
		for _, s := range f[4:] {
			rec, ok := c07ParseRec(s)
			if !ok {
				return "bad-op"
			}
			recs = append(recs, rec)
		}
		r.remember(recs)
		res, err := r.lease(c).Append(ctx, recs, message.AppendOptions{Mode: message.AppendMode(mode), BaseSeq: base})
		if err != nil {
			return c07Err(err)
		}
		return fmt.Sprintf("ok %d %d %d", res.BaseSeq, res.LastSeq, res.Count)
	case "fetch":
		if len(f) < 4 {
			return "bad-op"
		}
		base, ok := c07Num(f[2])
		if !ok {
			return "bad-op"
		}
		req := message.ApplyFetchRequest{BaseSeq: base}
		if f[3] != "-" {
			p := strings.Split(f[3], ":")
			if len(p) != 3 {
				return "bad-op"
			}
			e, ok1 := c07Num(p[0])
			l, ok2 := c07Num(p[1])
			h, ok3 := c07Num(p[2])
			if !(ok1 && ok2 && ok3) {
				return "bad-op"
			}
			req.Checkpoint = &message.Checkpoint{Epoch: e, LogStartOffset: l, HW: h}
		}
		for _, s := range f[4:] {
			rec, ok := c07ParseRec(s)
			if !ok {
				return "bad-op"
			}
			req.Records = append(req.Records, rec)
		}
		r.remember(req.Records)
		res, err := r.lease(c).ApplyFetch(ctx, req)
		if err != nil {
			return c07Err(err)
		}
		return fmt.Sprintf("ok %d %d %d", res.BaseSeq, res.LastSeq, res.Count)
	case "trunc":
		a, ok := nums(2, 1)
		if !ok {
			return "bad-op"
		}
		return c07Err(r.lease(c).TruncateFrom(ctx, a[0]))
	case "trim":
		a, ok := nums(2, 3)
		if !ok {
			return "bad-op"
		}
		var res message.RetentionTrimResult
		var err error
		if a[1] == 0 && a[2] == 0 {
			res, err = r.lease(c).TrimPrefixThrough(ctx, a[0])
		} else {
			res, err = r.lease(c).TrimPrefixThroughLimit(ctx, a[0], message.RetentionTrimOptions{MaxMessages: int(a[1]), MaxBytes: int(a[2])})
		}
		if err != nil {
			return c07Err(err)
		}
		return fmt.Sprintf("ok %d %d %s", res.DeletedThroughSeq, res.Deleted, c07Bool(res.More))
	case "ckpt":
		a, ok := nums(2, 3)
		if !ok {
			return "bad-op"
		}
		return c07Err(r.lease(c).StoreCheckpoint(ctx, message.Checkpoint{Epoch: a[0], LogStartOffset: a[1], HW: a[2]}))
	case "ckptm":
		a, ok := nums(2, 5)
		if !ok {
			return "bad-op"
		}
		return c07Err(r.lease(c).StoreCheckpointMonotonic(ctx, message.Checkpoint{Epoch: a[0], LogStartOffset: a[1], HW: a[2]}, a[3], a[4]))
	case "close":
		if len(f) != 2 {
			return "bad-op"
		}
		if r.leases[c] != nil {
			_ = r.leases[c].Close()
			r.leases[c] = nil
		}
		return "ok"
	case "leo":
		if len(f) != 2 {
			return "bad-op"
		}
		return r.leo(c)
	case "lret":
		if len(f) != 2 {
			return "bad-op"
		}
		return r.lret(c)
	case "lckpt":
		if len(f) != 2 {
			return "bad-op"
		}
		return r.lckpt(c)
	case "read", "rread":
		a, ok := nums(2, 3)
		if !ok {
			return "bad-op"
		}
		opts := message.ReadOptions{Limit: int(a[1]), MaxBytes: int(a[2])}
		if f[0] == "read" {
			ms, err := r.lease(c).Read(ctx, a[0], opts)
			return r.msgs(c, ms, err)
		}
		ms, err := r.lease(c).ReadReverse(ctx, a[0], opts)
		return r.msgs(c, ms, err)
	case "get":
		a, ok := nums(2, 1)
		if !ok {
			return "bad-op"
		}
		m, found, err := r.lease(c).GetBySeq(ctx, a[0])
		return r.one(c, m, found, err)
	case "byid":
		a, ok := nums(2, 1)
		if !ok {
			return "bad-op"
		}
		m, found, err := r.lease(c).GetByMessageID(ctx, a[0])
		return r.one(c, m, found, err)
	case "lastvis":
		a, ok := nums(2, 1)
		if !ok {
			return "bad-op"
		}
		m, found, err := r.lease(c).GetLastVisibleMessage(ctx, a[0])
		return r.one(c, m, found, err)
	case "bycmn":
		if len(f) != 5 {
			return "bad-op"
		}
		cmn, ok1 := c07Hex(f[2])
		before, ok2 := c07Num(f[3])
		limit, ok3 := c07Num(f[4])
		if !(ok1 && ok2 && ok3) {
			return "bad-op"
		}
		return r.bycmn(c, cmn, before, int(limit))
	case "idem":
		if len(f) != 4 {
			return "bad-op"
		}
		from, ok1 := c07Hex(f[2])
		cmn, ok2 := c07Hex(f[3])
		if !(ok1 && ok2) {
			return "bad-op"
		}
		return r.idem(c, from, cmn)
	case "lss":
		if len(f) != 4 {
			return "bad-op"
		}
		from, ok1 := c07Hex(f[2])
		through, ok2 := c07Num(f[3])
		if !(ok1 && ok2) {
			return "bad-op"
		}
		return r.lss(c, from, through)
	case "dump":
		if len(f) != 2 {
			return "bad-op"
		}
		return r.dump(c)
	}
	return "bad-op"
}

func c07Bool(b bool) string {
	if b {
		return "1"
	}
	return "0"
}

func (r *c07Runner) leo(c int) string {
	v, err := r.lease(c).LEO(context.Background())
	if err != nil {
		return c07Err(err)
	}
	return fmt.Sprintf("ok %d", v)
}

func (r *c07Runner) lret(c int) string {
	st, ok, err := r.lease(c).LoadRetentionState(context.Background())
	if err != nil {
		return c07Err(err)
	}
	if !ok {
		return "none"
	}
	return fmt.Sprintf("ok %d %d %d", st.LocalRetentionThroughSeq, st.PhysicalRetentionThroughSeq, st.RetainedMaxSeq)
}

func (r *c07Runner) lckpt(c int) string {
	ck, ok, err := r.lease(c).LoadCheckpoint(context.Background())
	if err != nil {
		return c07Err(err)
	}
	if !ok {
		return "none"
	}
	return fmt.Sprintf("ok %d %d %d", ck.Epoch, ck.LogStartOffset, ck.HW)
}

func (r *c07Runner) bycmn(c int, cmn string, before uint64, limit int) string {
	page, err := r.lease(c).ListByClientMsgNo(context.Background(), cmn, before, limit)
	if err != nil {
		return c07Err(err)
	}
	var b strings.Builder
	fmt.Fprintf(&b, "ok %s %d", c07Bool(page.HasMore), page.NextBeforeSeq)
	for _, m := range page.Messages {
		b.WriteByte(' ')
		b.WriteString(r.msg(c, m))
	}
	return b.String()
}

func (r *c07Runner) idem(c int, from, cmn string) string {
	hit, ok, err := r.lease(c).LookupIdempotency(context.Background(), message.IdempotencyKey{FromUID: from, ClientMsgNo: cmn})
	if err != nil {
		return c07Err(err)
	}
	if !ok {
		return "none"
	}
	return fmt.Sprintf("ok %d %d %d %d", hit.MessageSeq, hit.MessageID, hit.Offset, hit.PayloadHash)
}

func (r *c07Runner) lss(c int, from string, through uint64) string {
	seq, ok, err := r.lease(c).GetLastSenderMessageSeq(context.Background(), from, through)
	if err != nil {
		return c07Err(err)
	}
	if !ok {
		return "none"
	}
	return fmt.Sprintf("ok %d", seq)
}

// dump: every observation of the channel over the key universe of the case.
// Sections are separated by " | ".  The Lean side produces the same text.
func (r *c07Runner) dump(c int) string {
	ctx := context.Background()
	var parts []string
	leoS := r.leo(c)
	parts = append(parts, "leo "+leoS)
	fwd, err := r.lease(c).Read(ctx, 0, message.ReadOptions{})
	parts = append(parts, "fwd "+r.msgs(c, fwd, err))
	rev, err := r.lease(c).ReadReverse(ctx, 0, message.ReadOptions{})
	parts = append(parts, "rev "+r.msgs(c, rev, err))
	// GetBySeq over 1..leo+1
	var leo uint64
	if strings.HasPrefix(leoS, "ok ") {
		leo, _ = strconv.ParseUint(leoS[3:], 10, 64)
	}
	var g strings.Builder
	g.WriteString("get")
	upper := leo + 1
	if upper > 200 {
		upper = 200
	}
	for s := uint64(1); s <= upper; s++ {
		m, ok, err := r.lease(c).GetBySeq(ctx, s)
		switch {
		case err != nil:
			g.WriteString(" " + c07Err(err))
		case !ok:
			g.WriteString(" none")
		default:
			g.WriteString(" " + r.msg(c, m))
		}
	}
	parts = append(parts, g.String())
	parts = append(parts, "ret "+r.lret(c), "ck "+r.lckpt(c))
	lv, okv, errv := r.lease(c).GetLastVisibleMessage(ctx, 0)
	parts = append(parts, "lastvis "+r.one(c, lv, okv, errv))
	ids := make([]uint64, 0, len(r.ids))
	for id := range r.ids {
		ids = append(ids, id)
	}
	sort.Slice(ids, func(i, j int) bool { return ids[i] < ids[j] })
	froms := c07Sorted(r.froms)
	cmns := c07Sorted(r.cmns)
	var b strings.Builder
	b.WriteString("byid")
	for _, id := range ids {
		m, ok, err := r.lease(c).GetByMessageID(ctx, id)
		fmt.Fprintf(&b, " %d=%s", id, c07Short(m.MessageSeq, ok, err))
	}
	parts = append(parts, b.String())
	b.Reset()
	b.WriteString("idem")
	for _, fr := range froms {
		for _, cm := range cmns {
			fmt.Fprintf(&b, " %s/%s=%s", Hex([]byte(fr)), Hex([]byte(cm)), strings.ReplaceAll(r.idem(c, fr, cm), " ", ","))
		}
	}
	parts = append(parts, b.String())
	b.Reset()
	b.WriteString("bycmn")
	for _, cm := range cmns {
		page, err := r.lease(c).ListByClientMsgNo(ctx, cm, 0, 1000)
		if err != nil {
			fmt.Fprintf(&b, " %s=%s", Hex([]byte(cm)), c07Err(err))
			continue
		}
		fmt.Fprintf(&b, " %s=ok", Hex([]byte(cm)))
		for _, m := range page.Messages {
			fmt.Fprintf(&b, ",%d", m.MessageSeq)
		}
	}
	parts = append(parts, b.String())
	b.Reset()
	b.WriteString("lss")
	for _, fr := range froms {
		fmt.Fprintf(&b, " %s=%s", Hex([]byte(fr)), strings.ReplaceAll(r.lss(c, fr, c07MaxNum-1), " ", ","))
	}
	parts = append(parts, b.String())
	return strings.Join(parts, " | ")
}

func c07Short(seq uint64, ok bool, err error) string {
	if err != nil {
		return c07Err(err)
	}
	if !ok {
		return "none"
	}
	return strconv.FormatUint(seq, 10)
}

func c07Sorted(m map[string]bool) []string {
	out := make([]string, 0, len(m))
	for k := range m {
		out = append(out, k)
	}
	sort.Strings(out)
	return out
}

//go:build verif

package main

import (
	"fmt"
	"strings"
)

// generator-side shadow of one channel: only an ESTIMATE used to aim at
// interesting arguments (the generator never sees implementation results).
type c07Shadow struct {
	leo     uint64
	trimmed bool
	retMax  uint64
}

type c07Gen struct {
	g        *Gen
	sh       [c07NumChan]c07Shadow
	nextID   uint64
	usedIDs  []uint64
	nextCmn  int
	usedKeys [][2]string // (from, cmn) used
	allowEmptyPayload bool
	nchan    int
}

var c07Froms = []string{"", "u1", "u2", "u3", "\xff\x00"}

func (x *c07Gen) rec(fresh bool) (string, bool) {
	g := x.g
	var id uint64
	switch {
	case !fresh && g.R.Chance(3):
		id = 0
		g.Count("rec:id-zero")
	case !fresh && len(x.usedIDs) > 0 && g.R.Chance(12):
		id = x.usedIDs[g.R.Intn(len(x.usedIDs))]
		g.Count("rec:id-reused")
	default:
		x.nextID++
		id = x.nextID
	}
	if id != 0 {
		x.usedIDs = append(x.usedIDs, id)
	}
	from := c07Froms[g.R.Pick(3, 4, 3, 2, 1)]
	var cmn string
	switch {
	case g.R.Chance(15):
		cmn = ""
	case !fresh && len(x.usedKeys) > 0 && g.R.Chance(25):
		k := x.usedKeys[g.R.Intn(len(x.usedKeys))]
		cmn = k[1]
		if g.R.Chance(70) {
			from = k[0]
		}
		g.Count("rec:key-reused")
	default:
		x.nextCmn++
		cmn = fmt.Sprintf("m%d", x.nextCmn%40)
		if g.R.Chance(3) {
			cmn = "\x00"
		}
	}
	if from != "" && cmn != "" {
		x.usedKeys = append(x.usedKeys, [2]string{from, cmn})
	} else if cmn != "" {
		g.Count("rec:senderless-cmn")
	}
	var pay []byte
	if x.allowEmptyPayload && g.R.Chance(4) {
		g.Count("rec:empty-payload")
	} else {
		pay = g.R.Bytes(g.R.Range(1, 6))
	}
	ts := g.R.Range(1, 100000)
	return fmt.Sprintf("%d:%s:%s:%s:%d", id, Hex([]byte(from)), Hex([]byte(cmn)), Hex(pay), ts), id != 0
}

func (x *c07Gen) recs(n int, fresh bool) (string, bool) {
	parts := make([]string, 0, n)
	ok := true
	for i := 0; i < n; i++ {
		s, good := x.rec(fresh)
		ok = ok && good
		parts = append(parts, s)
	}
	if n >= 2 && !fresh && x.g.R.Chance(6) { // in-batch duplicate
		parts[n-1] = parts[0]
		x.g.Count("app:in-batch-dup")
	}
	return strings.Join(parts, " "), ok
}

func (x *c07Gen) near(v uint64) uint64 {
	g := x.g
	switch g.R.Pick(4, 2, 2, 1, 1) {
	case 0:
		return v
	case 1:
		if v > 0 {
			return v - 1
		}
		return 0
	case 2:
		return v + 1
	case 3:
		return uint64(g.R.Intn(int(v) + 3))
	default:
		return v + uint64(g.R.Range(2, 9))
	}
}

func (x *c07Gen) op() {
	g := x.g
	c := g.R.Intn(x.nchan)
	sh := &x.sh[c]
	switch g.R.Pick(34, 8, 6, 7, 4, 3, 5, 1, 32) {
	case 0: // append
		mode := g.R.Pick(45, 28, 12, 1)
		fresh := mode == 1 || mode == 2
		if fresh && g.R.Chance(8) {
			fresh = false // caller-contract breach (ids / keys not unique in a non-validating mode)
			g.Count("app:contract-breach-possible")
		}
		n := g.R.Pick(1, 6, 4, 3, 1, 1)
		var base uint64
		switch g.R.Pick(6, 3, 1) {
		case 1:
			base = sh.leo + 1
		case 2:
			base = x.near(sh.leo + 1)
		}
		rs, good := x.recs(n, fresh)
		g.Count(fmt.Sprintf("app:mode%d", mode))
		if n == 0 {
			g.Count("app:empty")
		}
		if good && mode < 3 && n > 0 && (base == 0 || base == sh.leo+1) {
			sh.leo += uint64(n)
		}
		g.Op("app", "%d %d %d %s", c, mode, base, rs)
	case 1: // follower apply
		n := g.R.Pick(2, 5, 4, 2)
		base := uint64(0)
		if g.R.Chance(70) {
			base = sh.leo + 1
		} else if g.R.Chance(30) {
			base = x.near(sh.leo + 1)
		}
		fresh := !g.R.Chance(8)
		rs, good := x.recs(n, fresh)
		ck := "-"
		if g.R.Chance(40) {
			hw := x.near(sh.leo + uint64(n))
			lso := uint64(0)
			if g.R.Chance(20) {
				lso = x.near(hw)
			}
			ck = fmt.Sprintf("%d:%d:%d", g.R.Intn(3), lso, hw)
			g.Count("fetch:with-checkpoint")
		}
		if good && n > 0 && (base == 0 || base == sh.leo+1) {
			sh.leo += uint64(n)
		}
		g.Op("fetch", "%d %d %s %s", c, base, ck, rs)
	case 2: // truncate
		if sh.trimmed && !g.R.Chance(35) {
			// keep most truncations away from trimmed channels (raw TruncateFrom after a trim
			// leaves RetainedMaxSeq above the new LEO; counted when it is generated)
			g.Op("leo", "%d", c)
			return
		}
		var from uint64
		switch g.R.Pick(5, 2, 1, 1) {
		case 0:
			if sh.leo > 0 {
				from = sh.leo - uint64(g.R.Intn(int(min(sh.leo, 4))))
			}
		case 1:
			from = x.near(sh.leo)
		case 2:
			from = 0
		default:
			from = sh.leo + uint64(g.R.Range(1, 3))
		}
		if sh.trimmed && from <= sh.leo && (from == 0 || from-1 < sh.retMax) {
			g.Count("trunc:below-retained-max")
		}
		if from == 0 {
			g.Count("trunc:from-zero")
		}
		if from > sh.leo {
			g.Count("trunc:beyond-leo")
		} else if from >= 1 {
			sh.leo = from - 1
		} else {
			sh.leo = 0
		}
		g.Op("trunc", "%d %d", c, from)
	case 3: // trim
		var through uint64
		switch g.R.Pick(5, 2, 1, 1) {
		case 0:
			through = uint64(g.R.Intn(int(sh.leo) + 1))
		case 1:
			through = x.near(sh.leo)
		case 2:
			through = 0
			g.Count("trim:zero")
		default:
			through = sh.leo + uint64(g.R.Range(1, 4))
		}
		maxMsgs, maxBytes := 0, 0
		if g.R.Chance(40) {
			maxMsgs = g.R.Range(1, 4)
			g.Count("trim:max-messages")
		}
		if g.R.Chance(25) {
			maxBytes = g.R.Range(1, 12)
			g.Count("trim:max-bytes")
		}
		if through > 0 {
			sh.trimmed = true
			if through > sh.leo {
				g.Count("trim:beyond-leo")
				sh.leo = through
			}
			sh.retMax = sh.leo
		}
		g.Op("trim", "%d %d %d %d", c, through, maxMsgs, maxBytes)
	case 4: // checkpoint
		hw := x.near(sh.leo)
		lso := uint64(0)
		if g.R.Chance(30) {
			lso = x.near(hw)
		}
		if g.R.Chance(50) {
			g.Op("ckpt", "%d %d %d %d", c, g.R.Intn(3), lso, hw)
		} else {
			g.Op("ckptm", "%d %d %d %d %d %d", c, g.R.Intn(3), lso, hw, x.near(hw), x.near(sh.leo))
		}
	case 5:
		g.Op("close", "%d", c)
	case 6:
		g.Op("dump", "%d", c)
	case 7:
		g.Op("reopen", "")
		for i := 0; i < x.nchan; i++ {
			if g.R.Chance(60) {
				g.Op("dump", "%d", i)
			}
		}
	default: // point observations
		x.obs(c)
	}
}

func (x *c07Gen) pickKey() (string, string) {
	g := x.g
	if len(x.usedKeys) > 0 && g.R.Chance(75) {
		k := x.usedKeys[g.R.Intn(len(x.usedKeys))]
		return k[0], k[1]
	}
	return c07Froms[g.R.Intn(len(c07Froms))], fmt.Sprintf("m%d", g.R.Intn(40))
}

func (x *c07Gen) obs(c int) {
	g := x.g
	sh := &x.sh[c]
	lim := func() (int, int) {
		l, b := 0, 0
		if g.R.Chance(50) {
			l = g.R.Range(1, 5)
		}
		if g.R.Chance(30) {
			b = g.R.Range(1, 15)
		}
		return l, b
	}
	switch g.R.Pick(4, 4, 3, 3, 2, 3, 3, 3, 1, 1, 1) {
	case 0:
		l, b := lim()
		g.Op("read", "%d %d %d %d", c, x.near(uint64(g.R.Intn(int(sh.leo)+1))), l, b)
	case 1:
		l, b := lim()
		from := uint64(0)
		if g.R.Chance(70) {
			from = x.near(uint64(g.R.Intn(int(sh.leo) + 1)))
		}
		g.Op("rread", "%d %d %d %d", c, from, l, b)
	case 2:
		g.Op("get", "%d %d", c, x.near(uint64(g.R.Intn(int(sh.leo)+1))))
	case 3:
		var id uint64
		if len(x.usedIDs) > 0 && g.R.Chance(85) {
			id = x.usedIDs[g.R.Intn(len(x.usedIDs))]
		} else {
			id = uint64(g.R.Intn(int(x.nextID) + 3))
		}
		g.Op("byid", "%d %d", c, id)
	case 4:
		g.Op("lastvis", "%d %d", c, x.near(uint64(g.R.Intn(int(sh.leo)+1))))
	case 5:
		_, cmn := x.pickKey()
		if g.R.Chance(5) {
			cmn = ""
		}
		before := uint64(0)
		if g.R.Chance(40) {
			before = x.near(sh.leo)
		}
		g.Op("bycmn", "%d %s %d %d", c, Hex([]byte(cmn)), before, g.R.Pick(1, 4, 3, 3, 8))
	case 6:
		from, cmn := x.pickKey()
		g.Op("idem", "%d %s %s", c, Hex([]byte(from)), Hex([]byte(cmn)))
	case 7:
		from := c07Froms[g.R.Intn(len(c07Froms))]
		through := x.near(uint64(g.R.Intn(int(sh.leo) + 1)))
		if g.R.Chance(20) {
			through = c07MaxNum - 1
		}
		g.Op("lss", "%d %s %d", c, Hex([]byte(from)), through)
	case 8:
		g.Op("leo", "%d", c)
	case 9:
		g.Op("lret", "%d", c)
	default:
		g.Op("lckpt", "%d", c)
	}
}

func genC07(g *Gen) {
	opsPerCase := 70
	if g.Tier == "thorough" {
		opsPerCase = 110
	}
	for k := 0; k < g.N; k++ {
		g.Case()
		x := &c07Gen{g: g, nchan: g.R.Range(1, c07NumChan), allowEmptyPayload: g.R.Chance(35)}
		if x.allowEmptyPayload {
			g.Count("case:empty-payloads-allowed")
		}
		g.Count(fmt.Sprintf("case:channels=%d", x.nchan))
		n := g.R.Range(opsPerCase/2, opsPerCase)
		for i := 0; i < n; i++ {
			x.op()
		}
		if g.R.Chance(50) {
			g.Op("reopen", "")
		}
		for i := 0; i < x.nchan; i++ {
			g.Op("dump", "%d", i)
		}
	}
}

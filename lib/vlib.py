#!/usr/bin/env python3
"""Orchestration for /verif checks (see DESIGN.md §4).

A check is: regenerate (extract + harness build) -> prove (lake build + axiom
audit) -> correspond (harness run on the real code | Lean driver) -> judge ->
decide -> evidence.
"""
import fcntl
import hashlib
import json
import os
import re
import shutil
import subprocess
import sys
import time

VERIF = os.path.dirname(os.path.dirname(os.path.abspath(__file__)))
REPO = os.environ.get("VERIF_REPO", "/repo")
LEAN = os.path.join(VERIF, "lean")
BUILD = os.path.join(VERIF, "build")
ALLOWED_AXIOMS = {"propext", "Classical.choice", "Quot.sound"}
FORBIDDEN = re.compile(r"\bsorry\b|\badmit\b|^axiom |native_decide|bv_decide|implemented_by|\bunsafe |maxHeartbeats 0")


def log(*a):
    print(*a, file=sys.stderr, flush=True)


def go_env():
    e = dict(os.environ)
    e["GOFLAGS"] = "-mod=mod"
    e["GOPROXY"] = "off"
    e.pop("GOTOOLCHAIN", None)  # /repo needs the auto switch to the cached go1.25
    e.pop("GOSUMDB", None)
    return e


def sh(cmd, cwd=None, env=None, timeout=None, inp=None):
    t0 = time.time()
    try:
        p = subprocess.run(cmd, cwd=cwd, env=env, timeout=timeout, input=inp,
                           stdout=subprocess.PIPE, stderr=subprocess.PIPE)
        return p.returncode, p.stdout.decode("utf-8", "replace"), p.stderr.decode("utf-8", "replace"), time.time() - t0
    except subprocess.TimeoutExpired as ex:
        out = (ex.stdout or b"").decode("utf-8", "replace")
        err = (ex.stderr or b"").decode("utf-8", "replace")
        return 124, out, err + "\nTIMEOUT", time.time() - t0


class Lock:
    def __init__(self, name):
        os.makedirs(BUILD, exist_ok=True)
        self.path = os.path.join(BUILD, name + ".lock")

    def __enter__(self):
        self.f = open(self.path, "w")
        fcntl.flock(self.f, fcntl.LOCK_EX)
        return self

    def __exit__(self, *a):
        fcntl.flock(self.f, fcntl.LOCK_UN)
        self.f.close()


def load_prop(pid):
    with open(os.path.join(VERIF, "props", pid + ".json")) as f:
        return json.load(f)


def all_props():
    d = os.path.join(VERIF, "props")
    return sorted(x[:-5] for x in os.listdir(d) if re.fullmatch(r"C\d+\.json", x))


# ---------------------------------------------------------------- lakefile ---

def gen_lakefile():
    """lakefile.toml is derived from the directory: one lean_exe per Driver/*.lean."""
    drivers = sorted(x[:-5] for x in os.listdir(os.path.join(LEAN, "Driver")) if x.endswith(".lean"))
    s = 'name = "WK"\nversion = "0.1.0"\ndefaultTargets = ["WK"]\n\n[[lean_lib]]\nname = "WK"\nglobs = ["WK.+"]\n'
    for d in drivers:
        s += '\n[[lean_exe]]\nname = "drv_%s"\nroot = "Driver.%s"\n' % (d, d)
    p = os.path.join(LEAN, "lakefile.toml")
    old = open(p).read() if os.path.exists(p) else ""
    if old != s:
        with open(p, "w") as f:
            f.write(s)


def lake(args, timeout=3000):
    with Lock("lake"):
        return sh(["lake"] + args, cwd=LEAN, timeout=timeout)


# ----------------------------------------------------------------- extract ---

def build_extract(pid):
    """One extractor binary per property: shared files (main.go, xlate.go, lib_*.go) + c<nn>*.go."""
    d = os.path.join(VERIF, "extract")
    low = pid.lower()
    files = sorted(f for f in os.listdir(d) if f.endswith(".go") and not f.endswith("_test.go") and
                   (f in ("main.go", "xlate.go") or f.startswith("lib_") or f == low + ".go" or f.startswith(low + "_")))
    out = os.path.join(BUILD, "extract_" + pid)
    os.makedirs(BUILD, exist_ok=True)
    try:
        os.remove(out)
    except FileNotFoundError:
        pass
    e = dict(os.environ)
    e["GOFLAGS"] = "-mod=mod"
    e["GOPROXY"] = "off"
    rc, o, er, _ = sh(["go", "build", "-o", out] + files, cwd=d, env=e, timeout=600)
    return rc == 0, o + er


def run_extract(pid):
    """Regenerate lean/WK/Gen/<pid>.lean from /repo. Returns (ok, log)."""
    gen = os.path.join(LEAN, "WK", "Gen")
    os.makedirs(gen, exist_ok=True)
    target = os.path.join(gen, pid + ".lean")
    ok, lg = build_extract(pid)
    if not ok:
        try:
            os.remove(target)
        except FileNotFoundError:
            pass
        return False, "extractor does not build: " + lg
    rc, out, err, _ = sh([os.path.join(BUILD, "extract_" + pid), pid, REPO, gen], timeout=300)
    if rc != 0:
        try:
            os.remove(target)
        except FileNotFoundError:
            pass
    return rc == 0, (out + err).strip()


# ----------------------------------------------------------------- harness ---

def overlay_for(pid):
    """Virtual files: /repo/cmd/zzverif_<pid>/*.go and /repo/<pkg>/zz_verif_<pid>_<f>.go."""
    rep = {}
    vdir = os.path.join(REPO, "cmd", "zzverif_" + pid.lower())
    for d in (os.path.join(VERIF, "harness", "common"), os.path.join(VERIF, "harness", pid)):
        if not os.path.isdir(d):
            continue
        for f in sorted(os.listdir(d)):
            if f.endswith(".go"):
                rep[os.path.join(vdir, os.path.basename(d) + "_" + f)] = os.path.join(d, f)
    hd = os.path.join(VERIF, "hooks", pid)
    if os.path.isdir(hd):
        for pkg in sorted(os.listdir(hd)):
            pd = os.path.join(hd, pkg)
            if not os.path.isdir(pd):
                continue
            for f in sorted(os.listdir(pd)):
                if not f.endswith(".go"):
                    continue
                if f.startswith("REPLACE__"):
                    # replacement copy of an existing file (yield points): REPLACE__<name>.go
                    tgt = os.path.join(REPO, pkg.replace("__", "/"), f[len("REPLACE__"):])
                else:
                    tgt = os.path.join(REPO, pkg.replace("__", "/"), "zz_verif_%s_%s" % (pid.lower(), f))
                rep[tgt] = os.path.join(pd, f)
    os.makedirs(BUILD, exist_ok=True)
    tag = "" if REPO == "/repo" else "_" + hashlib.sha256(REPO.encode()).hexdigest()[:8]
    path = os.path.join(BUILD, "overlay_%s%s.json" % (pid, tag))
    with open(path, "w") as f:
        json.dump({"Replace": rep}, f, indent=1)
    return path, vdir


def build_harness(pid, race=False):
    ov, vdir = overlay_for(pid)
    tag = "" if REPO == "/repo" else "_" + hashlib.sha256(REPO.encode()).hexdigest()[:8]
    out = os.path.join(BUILD, "harness_" + pid + tag + ("_race" if race else ""))
    try:
        os.remove(out)
    except FileNotFoundError:
        pass
    cmd = ["go", "build", "-tags", "verif", "-overlay", ov, "-o", out]
    if race:
        cmd.append("-race")
    cmd.append("./cmd/zzverif_" + pid.lower())
    rc, o, e, dt = sh(cmd, cwd=REPO, env=go_env(), timeout=1800)
    return rc == 0, (o + e).strip(), out, dt


# ------------------------------------------------------------------- prove ---

def lean_sources_for(prop):
    """Lean files whose text is scanned for forbidden constructs."""
    files = []
    pid = prop["id"]
    for root, _, fs in os.walk(LEAN):
        if ".lake" in root:
            continue
        for f in fs:
            if f.endswith(".lean") and (pid in f or any(x in os.path.join(root, f) for x in prop.get("extra_lean", []))):
                files.append(os.path.join(root, f))
    for f in os.listdir(os.path.join(LEAN, "WK", "Prelude")):
        files.append(os.path.join(LEAN, "WK", "Prelude", f))
    return sorted(set(files))


def strip_comments(src):
    src = re.sub(r"/-.*?-/", "", src, flags=re.S)
    return "\n".join(l.split("--")[0] for l in src.split("\n"))


def scan_forbidden(prop):
    hits = []
    for p in lean_sources_for(prop):
        body = strip_comments(open(p).read())
        for i, l in enumerate(body.split("\n")):
            if FORBIDDEN.search(l):
                hits.append("%s:%d: %s" % (os.path.relpath(p, VERIF), i + 1, l.strip()[:120]))
    return hits


def prove(prop, thorough=False):
    """lake build the property's modules, then #print axioms every registered theorem."""
    res = {"obligations": len(prop["theorems"]), "discharged": 0, "failed": [], "log": "", "axioms": {}}
    mods = prop["lean_modules"]
    rc, out, err, dt = lake(["build"] + mods + (["drv_" + prop["id"]] if prop.get("driver", True) else []))
    res["build_s"] = round(dt, 1)
    good = list(mods)
    if rc != 0:
        res["log"] = (out + err)[-6000:]
        # audit what still builds: a broken module must not mark the theorems of the others as failed
        good = []
        for m in mods:
            rcm, _, _, _ = lake(["build", m])
            if rcm == 0:
                good.append(m)
    pid = prop["id"]
    audit = os.path.join(BUILD, "Audit_%s.lean" % pid)
    with open(audit, "w") as f:
        for m in good:
            f.write("import %s\n" % m)
        for t in prop["theorems"]:
            f.write("#print axioms %s\n" % t)
    with Lock("lake"):
        rc2, out2, err2, _ = sh(["lake", "env", "lean", audit], cwd=LEAN, timeout=1200)
    text = out2 + err2
    for t in prop["theorems"]:
        m = re.search(r"'%s' depends on axioms: \[([^\]]*)\]" % re.escape(t), text, flags=re.S)
        if m:
            ax = [a.strip() for a in m.group(1).replace("\n", " ").split(",") if a.strip()]
        elif re.search(r"'%s' does not depend on any axioms" % re.escape(t), text):
            ax = []
        else:
            res["failed"].append({"theorem": t, "why": "does not check (missing or its module fails to build)"})
            continue
        res["axioms"][t] = ax
        bad = [a for a in ax if a not in ALLOWED_AXIOMS]
        if bad:
            res["failed"].append({"theorem": t, "why": "inadmissible axioms " + ",".join(bad)})
        else:
            res["discharged"] += 1
    if rc != 0 and not res["failed"]:
        res["failed"].append({"theorem": "<build>", "why": "lake build failed"})
    hits = scan_forbidden(prop)
    if hits:
        res["failed"].append({"theorem": "<source-scan>", "why": "forbidden construct: " + "; ".join(hits[:5])})
    if thorough and not res["failed"]:
        with Lock("lake"):
            rc3, o3, e3, dt3 = sh(["lake", "env", "leanchecker"] + mods, cwd=LEAN, timeout=3000)
        res["leanchecker"] = {"rc": rc3, "s": round(dt3, 1)}
        if rc3 != 0:
            res["failed"].append({"theorem": "<leanchecker>", "why": (o3 + e3)[-500:]})
    if res["failed"] and not res["log"]:
        res["log"] = text[-3000:]
    return res


# -------------------------------------------------------------- correspond ---

def parse_cases(joined_lines):
    """joined = list of `op\\timpl` lines and `#case` markers -> list of cases (list of (op, impl))."""
    cases = []
    cur = None
    for l in joined_lines:
        if l.startswith("#case"):
            cur = []
            cases.append(cur)
            continue
        if cur is None:
            cur = []
            cases.append(cur)
        op, _, impl = l.partition("\t")
        cur.append((op, impl))
    return cases


def run_pipeline(pid, ops_text, harness_bin, timeout=3000, tag=""):
    """ops -> impl (real code) -> model/judge (Lean driver). Returns dict."""
    env = dict(os.environ)
    env.setdefault("GOMEMLIMIT", "8GiB")
    scratch = os.path.join(BUILD, "scratch", "%s-%d-%s-%d" % (pid, os.getpid(), tag, int(time.time() * 1e6) % 10**9))
    os.makedirs(scratch, exist_ok=True)
    env["VERIF_SCRATCH"] = scratch
    try:
        rc, out, err, dt = sh([harness_bin, "run"], inp=ops_text.encode(), env=env, timeout=timeout, cwd=scratch)
    finally:
        shutil.rmtree(scratch, ignore_errors=True)
    r = {"impl_rc": rc, "impl_s": round(dt, 2), "impl_err": err[-2000:]}
    if rc != 0:
        r["error"] = "harness run failed rc=%d: %s" % (rc, err[-1500:])
        r["joined"] = out.split("\n")
        return r
    joined = [l for l in out.split("\n") if l != ""]
    drv = os.path.join(LEAN, ".lake", "build", "bin", "drv_" + pid)
    rc2, mout, merr, dt2 = sh([drv], inp=out.encode(), timeout=timeout)
    r["model_s"] = round(dt2, 2)
    if rc2 != 0:
        r["error"] = "lean driver failed rc=%d: %s" % (rc2, merr[-1500:])
        r["joined"] = joined
        return r
    mlines = [l for l in mout.split("\n") if l != ""]
    r["joined"] = joined
    r["mlines"] = mlines
    if len(mlines) != len(joined):
        r["error"] = "driver produced %d lines for %d inputs" % (len(mlines), len(joined))
    return r


def analyse(r):
    """-> (disagreements, verdict_violations, nsteps); each item = (case_idx, step_idx, op, impl, model, verdict)."""
    dis, viol = [], []
    ci = -1
    si = 0
    n = 0
    for j, m in zip(r["joined"], r.get("mlines", [])):
        if j.startswith("#case"):
            ci += 1
            si = 0
            continue
        if ci < 0:
            ci = 0
        op, _, impl = j.partition("\t")
        mo, _, verdict = m.partition("\t")
        n += 1
        if impl.startswith("PANIC"):
            viol.append((ci, si, op, impl, mo, "viol:panic"))
        elif verdict != "ok":
            viol.append((ci, si, op, impl, mo, verdict))
        if mo != "-" and mo != impl and not impl.startswith("PANIC"):
            dis.append((ci, si, op, impl, mo, verdict))
        si += 1
    return dis, viol, n


def case_ops(r, ci):
    ops = []
    k = -1
    for j in r["joined"]:
        if j.startswith("#case"):
            k += 1
            continue
        if k < 0:
            k = 0
        if k == ci:
            ops.append(j.partition("\t")[0])
        elif k > ci:
            break
    return ops


def shrink(pid, harness_bin, ops, pred, budget=60):
    """ddmin on the op list of one case; pred(result) says whether the failure persists."""
    def fails(cand):
        r = run_pipeline(pid, "#case 1\n" + "\n".join(cand) + "\n", harness_bin, timeout=300)
        if "error" in r:
            return False
        return pred(r)
    n = 2
    cur = list(ops)
    runs = 0
    while len(cur) >= 2 and runs < budget:
        chunk = max(1, len(cur) // n)
        reduced = False
        for i in range(0, len(cur), chunk):
            cand = cur[:i] + cur[i + chunk:]
            runs += 1
            if cand and fails(cand):
                cur = cand
                n = max(n - 1, 2)
                reduced = True
                break
            if runs >= budget:
                break
        if not reduced:
            if chunk == 1:
                break
            n = min(len(cur), n * 2)
    return cur


# ---------------------------------------------------------- known findings ---

def known_findings(pid):
    p = os.path.join(VERIF, "KNOWN_FINDINGS.json")
    if not os.path.exists(p):
        return []
    with open(p) as f:
        data = json.load(f)
    return [x for x in data.get("findings", []) if x["property"] == pid and x.get("status") == "open"]


def match_finding(findings, verdict):
    for f in findings:
        if re.fullmatch(f["verdict_regex"], verdict):
            return f
    return None


# ---------------------------------------------------------------- evidence ---

def validate_evidence(ev):
    try:
        import jsonschema
    except Exception:
        return None
    try:
        with open("/root/.vp/EVIDENCE.schema.json") as f:
            schema = json.load(f)
    except Exception:
        return None
    try:
        jsonschema.validate(ev, schema)
        return True
    except Exception as ex:  # noqa
        log("evidence does not validate:", str(ex)[:500])
        return False


def write_evidence(pid, ev):
    # evidence/ describes /repo only; runs against another tree (VERIF_REPO, mutation experiments) go to build/
    d = os.path.join(VERIF, "evidence") if REPO == "/repo" else os.path.join(BUILD, "evidence_other")
    os.makedirs(d, exist_ok=True)
    validate_evidence(ev)
    tmp = os.path.join(d, pid + ".json.tmp")
    with open(tmp, "w") as f:
        json.dump(ev, f, indent=1, sort_keys=True)
        f.write("\n")
    os.replace(tmp, os.path.join(d, pid + ".json"))


def sha(s):
    return hashlib.sha256(s.encode()).hexdigest()[:16]

#!/usr/bin/env python3
"""confirm_mutant.py <ID> <mutant_dir> <worktree> [--check]
Confirms a sub-agent's mutant myself: patch applies, tree builds, touched packages' tests pass,
demo FAILS with the patch and PASSES without; optionally runs ./check <ID> quick against the
patched worktree. Copies patch+demo+meta to /verif/seeded/<ID>-<name>/ with what was run."""
import json, os, re, shutil, subprocess, sys, time

pid, mdir, wt = sys.argv[1], sys.argv[2].rstrip("/"), sys.argv[3]
do_check = "--check" in sys.argv
env = dict(os.environ, GOFLAGS="-mod=mod", GOPROXY="off")
env.pop("GOTOOLCHAIN", None)


def run(cmd, cwd=wt, timeout=3600):
    p = subprocess.run(cmd, shell=True, cwd=cwd, env=env, stdout=subprocess.PIPE, stderr=subprocess.STDOUT, timeout=timeout)
    return p.returncode, p.stdout.decode("utf-8", "replace")


meta = json.load(open(os.path.join(mdir, "meta.json")))
demo_cmd = meta["demo_cmd"]
ran = []
rc, o = run("git status --porcelain")
assert o.strip() == "", "worktree not clean: " + o
# demo on clean tree must pass
rc0, o0 = run(demo_cmd)
ran.append({"cmd": demo_cmd + "   # unmodified tree", "rc": rc0})
run("git checkout -- . && git clean -fdq")
rc, o = run("git apply " + os.path.join(mdir, "patch.diff"))
assert rc == 0, "patch does not apply: " + o
files = [l.split()[-1] for l in run("git diff --name-only")[1].split()]
pkgs = sorted({"./" + os.path.dirname(f) + "/..." for f in files if f.endswith(".go")})
rcb, ob = run("go build ./...")
ran.append({"cmd": "go build ./...   # with patch", "rc": rcb})
rct, ot = run("go test -count=1 -p 4 " + " ".join(pkgs))
flaky_note = None
if rct != 0:  # loaded machine: retry serially once
    rct, ot = run("go test -count=1 -p 1 " + " ".join(pkgs))
if rct != 0:
    # tests that also fail on the UNMODIFIED tree (known load-sensitive flakes) do not count
    failing = sorted(set(re.findall(r"^--- FAIL: (\S+)", ot, flags=re.M)))
    top = sorted({t.split("/")[0] for t in failing})
    if top:
        pat = "^(" + "|".join(top) + ")$"
        still = []
        for _ in range(3):
            rcx, ox = run("go test -count=1 -p 1 -run '%s' %s" % (pat, " ".join(pkgs)))
            if rcx == 0:
                break
        if rcx != 0:
            run("git apply -R " + os.path.join(mdir, "patch.diff"))
            rcc = 0
            for _ in range(3):
                rcc, oc = run("go test -count=1 -p 1 -run '%s' %s" % (pat, " ".join(pkgs)))
                if rcc != 0:
                    break
            run("git apply " + os.path.join(mdir, "patch.diff"))
            if rcc != 0:
                flaky_note = "tests %s fail on the unmodified tree too (load-sensitive flake); not counted" % ",".join(top)
                rct = 0
        else:
            flaky_note = "tests %s failed once under load and passed when re-run alone" % ",".join(top)
            rct = 0
ran.append({"cmd": "go test -count=1 " + " ".join(pkgs) + "   # with patch, existing tests only", "rc": rct, "tail": ot[-400:], "note": flaky_note})
rc1, o1 = run(demo_cmd)
ran.append({"cmd": demo_cmd + "   # with patch", "rc": rc1, "tail": o1[-600:]})
chk = None
if do_check:
    run("git clean -fdq")  # remove the demo file, keep the patch
    p = subprocess.run("VERIF_REPO=%s ./check %s quick" % (wt, pid), shell=True, cwd="/verif", stdout=subprocess.PIPE, stderr=subprocess.PIPE)
    out = p.stdout.decode()
    chk = {"cmd": "VERIF_REPO=<worktree with patch> ./check %s quick" % pid, "rc": p.returncode,
           "lines": [l for l in out.split("\n") if l.startswith(("VIOLATION", "OK", "KNOWN"))]}
    rp = re.search(r"replay=(\S+)", out)
    if rp and os.path.exists(rp.group(1)):
        chk["replay"] = json.load(open(rp.group(1)))
run("git checkout -- . && git clean -fdq")
ok = rc0 == 0 and rcb == 0 and rct == 0 and rc1 != 0
name = os.path.basename(mdir)
print(json.dumps({"confirmed": ok, "demo_clean_rc": rc0, "build_rc": rcb, "tests_rc": rct, "demo_patched_rc": rc1, "check": chk and chk["lines"]}, indent=1))
if ok:
    dst = "/verif/seeded/%s-%s" % (pid, name)
    os.makedirs(dst, exist_ok=True)
    for f in os.listdir(mdir):
        if os.path.isfile(os.path.join(mdir, f)):
            shutil.copy(os.path.join(mdir, f), dst)
    old = None
    if os.path.exists(os.path.join(dst, "meta.json")):
        try:
            old = json.load(open(os.path.join(dst, "meta.json")))
        except Exception:
            old = None
    meta["confirmed_by_me"] = ran
    hist = (old or {}).get("history", [])
    if old and old.get("check_result"):
        hist.append(old["check_result"].get("lines"))
    if hist:
        meta["history"] = hist
    meta["breaks_property"] = pid
    if chk:
        if "replay" in chk:
            r = chk.pop("replay")
            chk["replay_summary"] = {k: r.get(k) for k in ("kind", "verdict", "op", "impl", "model", "broken") if k in r}
        meta["check_result"] = chk
    json.dump(meta, open(os.path.join(dst, "meta.json"), "w"), indent=1)

#!/bin/bash
# sweep_par.sh <tier> <seed> <jobs> : run every claimed check on /repo, <jobs> in parallel; one line per property
tier=${1:-quick}; seed=${2:-1}; jobs=${3:-3}
cd /verif
one() { id=$1; s=$(date +%s); out=$(VERIF_SEED=$SEED ./check $id $TIER 2>/dev/null | grep -E "^(OK|VIOLATION)" | head -2 | tr '\n' ' '); echo "$id $(( $(date +%s) - s ))s $out"; }
export -f one; export TIER=$tier SEED=$seed
ls props/C*.json | xargs -n1 basename | sed 's/.json//' | xargs -P $jobs -I{} bash -c 'one {}'

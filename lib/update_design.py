#!/usr/bin/env python3
"""Regenerate DESIGN.md §11–§12 from lib/design_tail.md.tmpl + props/*.json + seeded/*/meta.json."""
import subprocess, re
p = '/verif/DESIGN.md'
s = open(p).read()
i = s.find('\n## 11. As built')
if i >= 0:
    s = s[:i]
t = open('/verif/lib/design_tail.md.tmpl').read()
tab = subprocess.run(['python3', '/verif/lib/gen_design_table.py'], capture_output=True, text=True).stdout
sed = subprocess.run(['python3', '/verif/lib/gen_seeded_table.py'], capture_output=True, text=True).stdout
t = t.replace('@@TABLE@@', tab).replace('@@SEEDED@@', sed)
open(p, 'w').write(s.rstrip('\n') + '\n' + t)
print("DESIGN.md updated:", len(tab.splitlines()), "property rows,", len(sed.splitlines()) - 2, "seeded rows")

#!/usr/bin/env python3
import json, os
print("| id | class | theorems | tie (T = regenerated from source, D = differential/trace) | level note |\n|---|---|---|---|---|")
for f in sorted(os.listdir('/verif/props')):
    if not f.startswith('C'): continue
    p = json.load(open('/verif/props/' + f))
    tie = p.get('tie', '').replace('|', '/').replace('\n', ' ')
    note = p.get('level_note', '').replace('|', '/').replace('\n', ' ')
    print("| %s | %s | %d | %s | %s |" % (p['id'], p.get('class', '?').split(' ')[0], len(p['theorems']), tie[:260], note[:260]))

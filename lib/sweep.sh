#!/bin/bash
# sweep.sh [tier] [seed] : run every claimed check on /repo, one line per property
tier=${1:-quick}; seed=${2:-1}
for f in props/C*.json; do
  id=$(basename $f .json)
  claimed=$(python3 -c "import json;print(json.load(open('$f')).get('claimed',True))")
  [ "$claimed" = "True" ] || { echo "$id unclaimed"; continue; }
  s=$(date +%s)
  out=$(VERIF_SEED=$seed ./check $id $tier 2>/dev/null | grep -E "^(OK|VIOLATION)" | head -2 | tr '\n' ' ')
  echo "$id rc=$? $(( $(date +%s) - s ))s $out"
done

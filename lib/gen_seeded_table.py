#!/usr/bin/env python3
"""Markdown table of /verif/seeded/*: which check catches which independently written change."""
import json, os, re
d = "/verif/seeded"
rows = []
for n in sorted(os.listdir(d)):
    mp = os.path.join(d, n, "meta.json")
    if not os.path.exists(mp):
        continue
    m = json.load(open(mp))
    chk = m.get("check_result") or {}
    lines = chk.get("lines", [])
    res = "not run"
    if any(l.startswith("VIOLATION") for l in lines):
        res = "caught: VIOLATION"
        if any("no-failing-input-found" in l for l in lines):
            res += " (broken proof/tie, no-failing-input-found)"
        rs = chk.get("replay_summary") or {}
        if rs.get("verdict"):
            res += " `%s`" % rs["verdict"]
    elif any(l.startswith("OK") for l in lines):
        res = "MISSED at the time of the first run" + (" — " + m["later"] if m.get("later") else "")
    if m.get("history") and any(any(l.startswith("OK") for l in (h or [])) for h in m["history"]) and res.startswith("caught"):
        res += " (missed by the first version of the check; caught after strengthening)"
    summ = re.sub(r"\s+", " ", m.get("summary", ""))[:170]
    rows.append("| %s | %s | %s |" % (n, summ, res))
print("| seeded change | what it does | `./check <id> quick` on the patched tree |\n|---|---|---|")
print("\n".join(rows))

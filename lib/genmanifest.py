#!/usr/bin/env python3
"""MANIFEST.json is derived from props/*.json (claimed) and props/not_applicable.json."""
import json
import os
import sys

sys.path.insert(0, os.path.dirname(os.path.abspath(__file__)))
import vlib  # noqa: E402

V = vlib.VERIF
checks = []
claimed = []
for pid in vlib.all_props():
    p = vlib.load_prop(pid)
    if not p.get("claimed", True):
        continue
    claimed.append(pid)
    checks.append({
        "property_id": pid,
        "quick_cmd": "./check %s quick" % pid,
        "thorough_cmd": "./check %s thorough" % pid,
        "evidence_file": "evidence/%s.json" % pid,
        "replay_cmd_template": "./check %s --replay {path}" % pid,
        "engine": "lean4+go-differential",
        "level_claimed": {"category": "proof", "text": p["level_text"], "design_ref": p.get("design_ref", "DESIGN.md §7 " + pid)},
        "level_note": p["level_note"],
        "technique": p["technique"],
    })
na = []
nap = os.path.join(V, "props", "not_applicable.json")
na_reasons = json.load(open(nap)) if os.path.exists(nap) else {}
ids = [json.loads(l)["id"] for l in open(os.path.join(V, "properties.jsonl"))]
for pid in ids:
    if pid not in claimed:
        na.append({"property_id": pid, "reason": na_reasons.get(pid, "not yet covered: no machine-checked model with a checked tie exists for this property in this revision of /verif")})
m = {
    "version": 1,
    "setup_cmd": "./check --setup",
    "hooks": {
        "guard": "verif",
        "enable": "cd /repo && go build -tags verif -overlay /verif/build/overlay_<ID>.json ./cmd/zzverif_<id>   (hook files live in /verif/hooks and /verif/harness and are overlaid; nothing is written to /repo)",
        "baseline_off_cmd": json.load(open("/root/.vp/BASELINE.json"))["cmd"] if os.path.exists("/root/.vp/BASELINE.json") else "go test ./...",
        "source_commits": [],
        "add_only": True,
    },
    "engines": [
        {"name": "lean", "path": "lean/", "serves_properties": claimed, "kind_free_text": "Lean 4 models (core only), property theorems, axiom audit, line-protocol drivers compiled as lean_exe"},
        {"name": "extract", "path": "extract/", "serves_properties": [p for p in claimed if vlib.load_prop(p).get("extract")], "kind_free_text": "go/ast translator regenerating lean/WK/Gen/*.lean from /repo on every run"},
        {"name": "harness", "path": "harness/", "serves_properties": claimed, "kind_free_text": "Go correspondence harness built from /repo's working tree with -tags verif -overlay; drives the real code and the Lean model on the same ops"},
    ],
    "checks": checks,
    "not_applicable": na,
    "notes": "See DESIGN.md. Every check: regenerate Gen/*.lean + rebuild harness from /repo -> lake build + #print axioms audit -> differential correspondence + Lean judge -> evidence.",
}
with open(os.path.join(V, "MANIFEST.json"), "w") as f:
    json.dump(m, f, indent=1)
    f.write("\n")
try:
    import jsonschema
    jsonschema.validate(m, json.load(open("/root/.vp/MANIFEST.schema.json")))
    print("MANIFEST.json valid; claimed:", " ".join(claimed))
except ImportError:
    print("MANIFEST.json written (jsonschema not available); claimed:", " ".join(claimed))

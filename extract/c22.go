package main

// C22 (T tie for constants): regenerate lean/WK/Gen/C22.lean with the protocol
// constants the codec model depends on, read from the CURRENT source:
//   pkg/protocol/frame/common.go   frame-type numbers (iota block), LatestVersion,
//                                  LegacyMessageSeqVersion, the *ByteSize field widths
//   pkg/protocol/frame/setting.go  SettingTopic / SettingStream bits
//   pkg/protocol/codec/common.go   MaxRemaingLength, PayloadMaxSize
// The constants are evaluated by go/types (errors from unresolved imports are
// ignored: none of these constants depends on an import).  A missing constant
// is a broken tie (exit 2).  Theorem `c22_constants_tie` proves the generated
// values equal the ones the model uses.

import (
	"fmt"
	"go/ast"
	"go/constant"
	"go/parser"
	"go/token"
	"go/types"
	"path/filepath"
	"strings"
)

func init() { register("C22", extractC22) }

func c22Consts(repo string, rels []string, names []string) (map[string]uint64, error) {
	fset := token.NewFileSet()
	var files []*ast.File
	for _, rel := range rels {
		f, err := parser.ParseFile(fset, filepath.Join(repo, rel), nil, 0)
		if err != nil {
			return nil, err
		}
		files = append(files, f)
	}
	conf := types.Config{Error: func(error) {}, FakeImportC: true}
	pkg, _ := conf.Check("p", fset, files, nil) // errors (unresolved imports) are expected
	if pkg == nil {
		return nil, fmt.Errorf("type check of %v produced no package", rels)
	}
	out := map[string]uint64{}
	for _, n := range names {
		obj := pkg.Scope().Lookup(n)
		c, ok := obj.(*types.Const)
		if !ok {
			return nil, fmt.Errorf("constant %s not found in %v", n, rels)
		}
		v, exact := constant.Uint64Val(constant.ToInt(c.Val()))
		if !exact {
			return nil, fmt.Errorf("constant %s is not a uint64: %s", n, c.Val())
		}
		out[n] = v
	}
	return out, nil
}

func extractC22(repo string) (string, error) {
	frameTypes := []string{"UNKNOWN", "CONNECT", "CONNACK", "SEND", "SENDACK", "RECV", "RECVACK", "PING", "PONG", "DISCONNECT", "SUB", "SUBACK", "EVENT"}
	sizes := []string{"SettingByteSize", "StringFixLenByteSize", "ClientSeqByteSize", "ChannelTypeByteSize", "VersionByteSize",
		"DeviceFlagByteSize", "ClientTimestampByteSize", "TimeDiffByteSize", "ReasonCodeByteSize", "MessageIDByteSize",
		"MessageSeqLegacyByteSize", "MessageSeqU64ByteSize", "TimestampByteSize", "BigTimestampByteSize", "ActionByteSize",
		"StreamIdByteSize", "StreamFlagByteSize", "ExpireByteSize", "NodeIdByteSize"}
	names := append(append([]string{"LatestVersion", "LegacyMessageSeqVersion", "SettingTopic", "SettingStream"}, frameTypes...), sizes...)
	fr, err := c22Consts(repo, []string{"pkg/protocol/frame/common.go", "pkg/protocol/frame/setting.go"}, names)
	if err != nil {
		return "", err
	}
	cd, err := c22Consts(repo, []string{"pkg/protocol/codec/common.go"}, []string{"MaxRemaingLength", "PayloadMaxSize"})
	if err != nil {
		return "", err
	}
	widths := map[string]uint64{}
	for _, n := range sizes {
		widths[n] = fr[n]
	}
	layouts, err := c22Layouts(repo, widths)
	if err != nil {
		return "", err
	}
	shape, err := c22VarintShape(repo)
	if err != nil {
		return "", err
	}
	var b strings.Builder
	b.WriteString("import WK.Model.C22_Layout\nnamespace WK.Gen.C22\nopen WK.C22\n\n")
	fmt.Fprintf(&b, "def latestVersion : Nat := %d\n", fr["LatestVersion"])
	fmt.Fprintf(&b, "def legacyMessageSeqVersion : Nat := %d\n", fr["LegacyMessageSeqVersion"])
	fmt.Fprintf(&b, "def settingTopic : Nat := %d\n", fr["SettingTopic"])
	fmt.Fprintf(&b, "def settingStream : Nat := %d\n", fr["SettingStream"])
	fmt.Fprintf(&b, "def maxRemainingLength : Nat := %d\n", cd["MaxRemaingLength"])
	fmt.Fprintf(&b, "def payloadMaxSize : Nat := %d\n\n", cd["PayloadMaxSize"])
	b.WriteString("/-- frame.FrameType numbers -/\ndef frameTypes : List (String × Nat) := [")
	for i, n := range frameTypes {
		if i > 0 {
			b.WriteString(", ")
		}
		fmt.Fprintf(&b, "(%q, %d)", n, fr[n])
	}
	b.WriteString("]\n\n/-- field widths used by the encodeXSize functions -/\ndef byteSizes : List (String × Nat) := [")
	for i, n := range sizes {
		if i > 0 {
			b.WriteString(", ")
		}
		fmt.Fprintf(&b, "(%q, %d)", n, fr[n])
	}
	b.WriteString("]\n\n")
	b.WriteString(shape)
	b.WriteString("\n")
	b.WriteString(layouts)
	b.WriteString("end WK.Gen.C22\n")
	return b.String(), nil
}

package main

import (
	"bytes"
	"fmt"
	"go/ast"
	"go/printer"
	"go/token"
	"strings"
)

// c04Text prints any expression with go/printer (exprText only knows a small subset)
func c04Text(e ast.Expr) string {
	var buf bytes.Buffer
	if err := printer.Fprint(&buf, token.NewFileSet(), e); err != nil {
		return "<unprintable>"
	}
	return strings.Join(strings.Fields(buf.String()), " ")
}

func init() { register("C04", extractC04) }

// extractC04 regenerates lean/WK/Gen/C04.lean from
//   pkg/channel/replication/quorum_log.go  compareAuthorityID  (the ordered field pairs of the
//                                          lexicographic loop; the loop body shape is checked)
//   pkg/channel/machine/meta.go            ChannelState.ValidateMeta (the guard chain, translated
//                                          statement by statement over a whitelisted expression subset)
// Anything outside the subset makes the extraction fail (= broken tie).
func extractC04(repo string) (string, error) {
	var b strings.Builder
	b.WriteString("namespace WK.Gen.C04\n\n")

	// ---- compareAuthorityID ------------------------------------------------
	_, f, err := parseFile(repo, "pkg/channel/replication/quorum_log.go")
	if err != nil {
		return "", err
	}
	fd := findFunc(f, "compareAuthorityID")
	if fd == nil || len(fd.Body.List) != 2 || len(fd.Type.Params.List) != 1 || len(fd.Type.Params.List[0].Names) != 2 {
		return "", fmt.Errorf("compareAuthorityID: unexpected shape")
	}
	pl, pr := fd.Type.Params.List[0].Names[0].Name, fd.Type.Params.List[0].Names[1].Name
	rng, ok := fd.Body.List[0].(*ast.RangeStmt)
	if !ok {
		return "", fmt.Errorf("compareAuthorityID: first statement is not a range loop")
	}
	lit, ok := rng.X.(*ast.CompositeLit)
	if !ok || c04Text(lit.Type) != "[][2]uint64" {
		return "", fmt.Errorf("compareAuthorityID: range over %s", c04Text(rng.X))
	}
	var fields []string
	for _, el := range lit.Elts {
		pair, ok := el.(*ast.CompositeLit)
		if !ok || len(pair.Elts) != 2 {
			return "", fmt.Errorf("compareAuthorityID: pair %s", c04Text(el))
		}
		l, r := c04Text(pair.Elts[0]), c04Text(pair.Elts[1])
		if !strings.HasPrefix(l, pl+".") || !strings.HasPrefix(r, pr+".") || l[len(pl):] != r[len(pr):] {
			return "", fmt.Errorf("compareAuthorityID: pair %s does not compare one field of both sides", c04Text(el))
		}
		fields = append(fields, l[len(pl)+1:])
	}
	pv := c04Text(rng.Value)
	wantBody := fmt.Sprintf("if %s[0] < %s[1] { return -1 } ; if %s[0] > %s[1] { return 1 }", pv, pv, pv, pv)
	var got []string
	for _, st := range rng.Body.List {
		is, ok := st.(*ast.IfStmt)
		if !ok || is.Else != nil || is.Init != nil || len(is.Body.List) != 1 {
			return "", fmt.Errorf("compareAuthorityID: loop body statement is not a plain if")
		}
		ret, ok := is.Body.List[0].(*ast.ReturnStmt)
		if !ok || len(ret.Results) != 1 {
			return "", fmt.Errorf("compareAuthorityID: loop body if without return")
		}
		got = append(got, fmt.Sprintf("if %s { return %s }", c04Text(is.Cond), c04Text(ret.Results[0])))
	}
	if strings.Join(got, " ; ") != wantBody {
		return "", fmt.Errorf("compareAuthorityID: loop body is %q, want %q", strings.Join(got, " ; "), wantBody)
	}
	if ret, ok := fd.Body.List[1].(*ast.ReturnStmt); !ok || len(ret.Results) != 1 || c04Text(ret.Results[0]) != "0" {
		return "", fmt.Errorf("compareAuthorityID: does not end with return 0")
	}
	q := make([]string, len(fields))
	for i, s := range fields {
		q[i] = leanStr(s)
	}
	fmt.Fprintf(&b, "/-- fields compareAuthorityID compares, most significant first -/\ndef cmpFields : List String := [%s]\n\n", strings.Join(q, ", "))
	b.WriteString("/-- the loop of compareAuthorityID over the (left, right) pairs: first differing pair decides -/\n")
	b.WriteString("def lexCmp : List (Nat × Nat) → Ordering\n  | [] => .eq\n  | (l, r) :: rest => if l < r then .lt else if l > r then .gt else lexCmp rest\n\n")

	// ---- ValidateMeta ------------------------------------------------------
	_, mf, err := parseFile(repo, "pkg/channel/machine/meta.go")
	if err != nil {
		return "", err
	}
	vm := findMethod(mf, "ChannelState", "ValidateMeta")
	if vm == nil || len(vm.Recv.List[0].Names) != 1 || len(vm.Type.Params.List) != 1 {
		return "", fmt.Errorf("ValidateMeta: not found")
	}
	sv, mv := vm.Recv.List[0].Names[0].Name, vm.Type.Params.List[0].Names[0].Name
	atoms := map[string]string{
		mv + ".Key != \"\" && " + mv + ".Key != " + sv + ".Key":               "m.keyMismatch",
		sv + ".ID != (ch.ChannelID{}) && " + mv + ".ID != " + sv + ".ID": "m.idMismatch",
	}
	vars := map[string]string{
		mv + ".Epoch": "(m.epoch : Int)", mv + ".LeaderEpoch": "(m.leaderEpoch : Int)", mv + ".Leader": "(m.leader : Int)",
		mv + ".MinISR": "m.minISR", "len(" + mv + ".ISR)": "(m.isrLen : Int)",
		sv + ".Epoch": "(s.epoch : Int)", sv + ".LeaderEpoch": "(s.leaderEpoch : Int)", sv + ".Leader": "(s.leader : Int)",
	}
	var xl func(e ast.Expr) (string, error)
	xl = func(e ast.Expr) (string, error) {
		txt := c04Text(e)
		if a, ok := atoms[txt]; ok {
			return a + " = true", nil
		}
		if v, ok := vars[txt]; ok {
			return v, nil
		}
		switch x := e.(type) {
		case *ast.ParenExpr:
			s, err := xl(x.X)
			return "(" + s + ")", err
		case *ast.BasicLit:
			if x.Kind == token.INT {
				return "(" + x.Value + " : Int)", nil
			}
		case *ast.BinaryExpr:
			ops := map[token.Token]string{token.LSS: "<", token.GTR: ">", token.LEQ: "≤", token.GEQ: "≥", token.EQL: "=", token.NEQ: "≠", token.LAND: "∧", token.LOR: "∨"}
			if op, ok := ops[x.Op]; ok {
				l, err := xl(x.X)
				if err != nil {
					return "", err
				}
				r, err := xl(x.Y)
				if err != nil {
					return "", err
				}
				return "(" + l + " " + op + " " + r + ")", nil
			}
		}
		return "", fmt.Errorf("ValidateMeta: unsupported expression %s", txt)
	}
	results := map[string]string{"ch.ErrStaleMeta": "stale", "ch.ErrInvalidConfig": "invalid", "nil": "ok"}
	b.WriteString("structure St where\n  epoch : Nat\n  leaderEpoch : Nat\n  leader : Nat\nderiving DecidableEq, Repr\n\n")
	b.WriteString("/-- the fields of ch.Meta that ValidateMeta reads (key / id comparisons as booleans) -/\n")
	b.WriteString("structure Meta where\n  keyMismatch : Bool\n  idMismatch : Bool\n  epoch : Nat\n  leaderEpoch : Nat\n  leader : Nat\n  minISR : Int\n  isrLen : Nat\nderiving DecidableEq, Repr\n\n")
	b.WriteString("/-- ChannelState.ValidateMeta, statement by statement -/\ndef validateMeta (s : St) (m : Meta) : String :=\n")
	n := len(vm.Body.List)
	for i, st := range vm.Body.List {
		if i == n-1 {
			ret, ok := st.(*ast.ReturnStmt)
			if !ok || len(ret.Results) != 1 || results[c04Text(ret.Results[0])] == "" {
				return "", fmt.Errorf("ValidateMeta: last statement is not a plain return")
			}
			fmt.Fprintf(&b, "  %s\n\n", leanStr(results[c04Text(ret.Results[0])]))
			break
		}
		is, ok := st.(*ast.IfStmt)
		if !ok || is.Else != nil || is.Init != nil || len(is.Body.List) != 1 {
			return "", fmt.Errorf("ValidateMeta: statement %d is not a plain guard", i)
		}
		ret, ok := is.Body.List[0].(*ast.ReturnStmt)
		if !ok || len(ret.Results) != 1 || results[c04Text(ret.Results[0])] == "" {
			return "", fmt.Errorf("ValidateMeta: guard %d does not return a known error", i)
		}
		c, err := xl(is.Cond)
		if err != nil {
			return "", err
		}
		fmt.Fprintf(&b, "  if %s then %s else\n", c, leanStr(results[c04Text(ret.Results[0])]))
	}
	gs, err := c04Guards(f)
	if err != nil {
		return "", err
	}
	b.WriteString(gs)
	b.WriteString("end WK.Gen.C04\n")
	return b.String(), nil
}

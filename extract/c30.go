package main

// C30 — T tie.  Compiles the two CAS loops of internal/app/app.go
// (nodeMessageIDs.Next / SetFloor) into a tiny instruction list
// (lean/WK/Gen/C30.lean) that the Lean LTS interpreter executes with an
// adversarial generator.  Only the statement forms below are understood;
// anything else is refused (exit 2).
//
//   x := uint64(g.node.Generate())          gen x
//   x := g.floor.Load()  /  x = g.floor.Load()   load x
//   if a OP b { … }                         brUnless OP a b L ; … ; L:
//   if g.floor.CompareAndSwap(a, b) { … }   cas a b L ; … ; L:
//   for { … }                               L: … ; jmp L
//   continue                                jmp <loop start>
//   return x | return nil | return fmt.Errorf(…)   retReg x | retOk | retErr
//   if g == nil || g.node == nil { return <error> }   erased (receiver guard; the model has an allocator)

import (
	"bytes"
	"fmt"
	"go/ast"
	"go/printer"
	"go/token"
	"strings"
)

func init() { register("C30", extractC30) }

func c30src(fset *token.FileSet, n ast.Node) string {
	var b bytes.Buffer
	_ = printer.Fprint(&b, fset, n)
	return strings.Join(strings.Fields(b.String()), " ")
}

type c30comp struct {
	fset *token.FileSet
	recv string
	regs []string
	code []string // Lean Instr terms; targets patched in place via placeholders
}

func (c *c30comp) reg(name string, define bool) (int, error) {
	for i, r := range c.regs {
		if r == name {
			return i, nil
		}
	}
	if !define {
		return 0, fmt.Errorf("unknown variable %s", name)
	}
	c.regs = append(c.regs, name)
	return len(c.regs) - 1, nil
}

func (c *c30comp) operand(e ast.Expr) (int, error) {
	id, ok := e.(*ast.Ident)
	if !ok {
		return 0, fmt.Errorf("operand %s is not a plain variable", c30src(c.fset, e))
	}
	return c.reg(id.Name, false)
}

var c30cmp = map[token.Token]string{token.LEQ: "le", token.LSS: "lt", token.GEQ: "ge", token.GTR: "gt", token.EQL: "eq", token.NEQ: "ne"}

func (c *c30comp) block(stmts []ast.Stmt, loopStart int) error {
	for _, s := range stmts {
		txt := c30src(c.fset, s)
		switch st := s.(type) {
		case *ast.ForStmt:
			if st.Init != nil || st.Cond != nil || st.Post != nil {
				return fmt.Errorf("`%s`: only `for { … }` is understood", txt)
			}
			start := len(c.code)
			if err := c.block(st.Body.List, start); err != nil {
				return err
			}
			c.code = append(c.code, fmt.Sprintf(".jmp %d", start))
		case *ast.AssignStmt:
			if len(st.Lhs) != 1 || len(st.Rhs) != 1 || (st.Tok != token.DEFINE && st.Tok != token.ASSIGN) {
				return fmt.Errorf("`%s`: assignment form not understood", txt)
			}
			id, ok := st.Lhs[0].(*ast.Ident)
			if !ok {
				return fmt.Errorf("`%s`: left side is not a variable", txt)
			}
			rhs := c30src(c.fset, st.Rhs[0])
			d, err := c.reg(id.Name, st.Tok == token.DEFINE)
			if err != nil {
				return fmt.Errorf("`%s`: %v", txt, err)
			}
			switch rhs {
			case "uint64(" + c.recv + ".node.Generate())":
				c.code = append(c.code, fmt.Sprintf(".gen %d", d))
			case c.recv + ".floor.Load()":
				c.code = append(c.code, fmt.Sprintf(".load %d", d))
			default:
				return fmt.Errorf("`%s`: right side is neither the generator nor floor.Load()", txt)
			}
		case *ast.IfStmt:
			if st.Init != nil || st.Else != nil {
				return fmt.Errorf("`%s`: if with init/else not understood", txt)
			}
			cond := c30src(c.fset, st.Cond)
			if cond == c.recv+" == nil || "+c.recv+".node == nil" {
				if len(st.Body.List) == 1 {
					if r, ok := st.Body.List[0].(*ast.ReturnStmt); ok && len(r.Results) == 1 && strings.HasPrefix(c30src(c.fset, r.Results[0]), "fmt.Errorf(") {
						continue // receiver guard, erased
					}
				}
				return fmt.Errorf("`%s`: receiver guard does not return an error", txt)
			}
			at := len(c.code)
			if call, ok := st.Cond.(*ast.CallExpr); ok && c30src(c.fset, call.Fun) == c.recv+".floor.CompareAndSwap" && len(call.Args) == 2 {
				o, err1 := c.operand(call.Args[0])
				n, err2 := c.operand(call.Args[1])
				if err1 != nil || err2 != nil {
					return fmt.Errorf("`%s`: CAS operands: %v %v", cond, err1, err2)
				}
				c.code = append(c.code, fmt.Sprintf(".cas %d %d @", o, n))
			} else if be, ok := st.Cond.(*ast.BinaryExpr); ok && c30cmp[be.Op] != "" {
				a, err1 := c.operand(be.X)
				b, err2 := c.operand(be.Y)
				if err1 != nil || err2 != nil {
					return fmt.Errorf("`%s`: comparison operands: %v %v", cond, err1, err2)
				}
				c.code = append(c.code, fmt.Sprintf(".brUnless .%s %d %d @", c30cmp[be.Op], a, b))
			} else {
				return fmt.Errorf("`%s`: condition not understood", cond)
			}
			if err := c.block(st.Body.List, loopStart); err != nil {
				return err
			}
			c.code[at] = strings.Replace(c.code[at], "@", fmt.Sprint(len(c.code)), 1)
		case *ast.BranchStmt:
			if st.Tok != token.CONTINUE || st.Label != nil || loopStart < 0 {
				return fmt.Errorf("`%s`: only a plain continue inside for is understood", txt)
			}
			c.code = append(c.code, fmt.Sprintf(".jmp %d", loopStart))
		case *ast.ReturnStmt:
			if len(st.Results) != 1 {
				return fmt.Errorf("`%s`: return arity", txt)
			}
			r := c30src(c.fset, st.Results[0])
			switch {
			case r == "nil":
				c.code = append(c.code, ".retOk")
			case strings.HasPrefix(r, "fmt.Errorf("):
				c.code = append(c.code, ".retErr")
			default:
				x, err := c.operand(st.Results[0])
				if err != nil {
					return fmt.Errorf("`%s`: %v", txt, err)
				}
				c.code = append(c.code, fmt.Sprintf(".retReg %d", x))
			}
		default:
			return fmt.Errorf("`%s`: statement kind not understood", txt)
		}
	}
	return nil
}

func c30compile(fset *token.FileSet, fd *ast.FuncDecl) (*c30comp, error) {
	c := &c30comp{fset: fset}
	if fd.Recv == nil || len(fd.Recv.List) != 1 || len(fd.Recv.List[0].Names) != 1 {
		return nil, fmt.Errorf("%s: no named receiver", fd.Name.Name)
	}
	c.recv = fd.Recv.List[0].Names[0].Name
	for _, p := range fd.Type.Params.List {
		if c30src(fset, p.Type) != "uint64" {
			return nil, fmt.Errorf("%s: parameter type %s", fd.Name.Name, c30src(fset, p.Type))
		}
		for _, n := range p.Names {
			c.regs = append(c.regs, n.Name)
		}
	}
	if err := c.block(fd.Body.List, -1); err != nil {
		return nil, fmt.Errorf("%s: %v", fd.Name.Name, err)
	}
	if len(c.regs) > 3 {
		return nil, fmt.Errorf("%s: more than three variables", fd.Name.Name)
	}
	return c, nil
}

func extractC30(repo string) (string, error) {
	fset, f, err := parseFile(repo, "internal/app/app.go")
	if err != nil {
		return "", err
	}
	// the allocator's state: floor atomic.Uint64, node *snowflake.Node
	okStruct := false
	for _, d := range f.Decls {
		gd, ok := d.(*ast.GenDecl)
		if !ok || gd.Tok != token.TYPE {
			continue
		}
		for _, s := range gd.Specs {
			ts := s.(*ast.TypeSpec)
			if st, ok := ts.Type.(*ast.StructType); ok && ts.Name.Name == "nodeMessageIDs" {
				var fl []string
				for _, x := range st.Fields.List {
					for _, n := range x.Names {
						fl = append(fl, n.Name+" "+c30src(fset, x.Type))
					}
				}
				okStruct = strings.Join(fl, ";") == "node *snowflake.Node;floor atomic.Uint64"
			}
		}
	}
	if !okStruct {
		return "", fmt.Errorf("nodeMessageIDs is not {node *snowflake.Node; floor atomic.Uint64}")
	}
	next := findMethod(f, "nodeMessageIDs", "Next")
	setf := findMethod(f, "nodeMessageIDs", "SetFloor")
	if next == nil || setf == nil {
		return "", fmt.Errorf("nodeMessageIDs.Next / SetFloor not found")
	}
	if next.Type.Params.NumFields() != 0 || setf.Type.Params.NumFields() != 1 {
		return "", fmt.Errorf("unexpected parameter lists")
	}
	cn, err := c30compile(fset, next)
	if err != nil {
		return "", err
	}
	cs, err := c30compile(fset, setf)
	if err != nil {
		return "", err
	}
	// other writers of the floor would be additional transitions the model does not have
	writers := 0
	ast.Inspect(f, func(n ast.Node) bool {
		if c, ok := n.(*ast.CallExpr); ok {
			t := c30src(fset, c.Fun)
			if strings.HasSuffix(t, ".floor.Store") || strings.HasSuffix(t, ".floor.CompareAndSwap") || strings.HasSuffix(t, ".floor.Swap") || strings.HasSuffix(t, ".floor.Add") {
				writers++
			}
		}
		return true
	})
	var b strings.Builder
	b.WriteString("namespace WK.Gen.C30\n\n")
	b.WriteString("inductive Cmp | le | lt | ge | gt | eq | ne\n  deriving DecidableEq, Repr\n\n")
	b.WriteString("/-- registers are numbered in order of first appearance (parameters first) -/\ninductive Instr\n")
	b.WriteString("  | gen (d : Nat)                              -- d := uint64(g.node.Generate())\n")
	b.WriteString("  | load (d : Nat)                             -- d := g.floor.Load()\n")
	b.WriteString("  | brUnless (c : Cmp) (a b : Nat) (t : Nat)   -- if !(a c b) goto t\n")
	b.WriteString("  | cas (old new : Nat) (t : Nat)              -- if !g.floor.CompareAndSwap(old, new) goto t\n")
	b.WriteString("  | jmp (t : Nat)\n  | retReg (r : Nat)\n  | retOk\n  | retErr\n  deriving DecidableEq, Repr\n\n")
	emit := func(name string, c *c30comp, src string) {
		fmt.Fprintf(&b, "/-- %s ; registers %s -/\ndef %s : List Instr := [\n", src, strings.Join(c.regs, ", "), name)
		for i, ins := range c.code {
			sep := ","
			if i == len(c.code)-1 {
				sep = ""
			}
			fmt.Fprintf(&b, "  %s%s  -- %d\n", ins, sep, i)
		}
		b.WriteString("]\n\n")
	}
	emit("nextProg", cn, "internal/app/app.go nodeMessageIDs.Next")
	emit("setFloorProg", cs, "internal/app/app.go nodeMessageIDs.SetFloor")
	fmt.Fprintf(&b, "/-- CompareAndSwap/Store/Swap/Add call sites on the floor in app.go (the two loops have one CAS each) -/\ndef floorWriters : Nat := %d\n\n", writers)
	b.WriteString("end WK.Gen.C30\n")
	return b.String(), nil
}

package main

// Mini translator: a whitelisted subset of Go integer expressions -> Lean BitVec
// expressions.  Anything outside the subset is refused (error), never guessed.

import (
	"fmt"
	"go/ast"
	"go/token"
	"strings"
)

type ty struct {
	bits int  // 8,16,32,64 ; 0 = untyped constant ; -1 = bool
}

var (
	tU8   = ty{8}
	tU16  = ty{16}
	tU32  = ty{32}
	tU64  = ty{64}
	tBool = ty{-1}
	tUnty = ty{0}
)

func tyOfName(n string) (ty, bool) {
	switch n {
	case "uint8", "byte":
		return tU8, true
	case "uint16":
		return tU16, true
	case "uint32":
		return tU32, true
	case "uint64":
		return tU64, true
	}
	return ty{}, false
}

type xenv struct {
	vars   map[string]ty                  // variable -> type ; Lean name = Go name
	tables map[string]ty                  // selector text (e.g. "crc32.IEEETable") -> element type ; Lean name in tblName
	tblNm  map[string]string              // selector text -> Lean array name
	funcs  map[string]struct{ lean string; ret ty } // callable pure functions (selector text or ident)
	index  map[string]string              // "value[i]" style byte reads: Go text -> Lean variable (type u8)
}

func exprText(e ast.Expr) string {
	switch x := e.(type) {
	case *ast.Ident:
		return x.Name
	case *ast.SelectorExpr:
		return exprText(x.X) + "." + x.Sel.Name
	case *ast.IndexExpr:
		return exprText(x.X) + "[" + exprText(x.Index) + "]"
	case *ast.BasicLit:
		return x.Value
	case *ast.ParenExpr:
		return "(" + exprText(x.X) + ")"
	case *ast.CallExpr:
		var as []string
		for _, a := range x.Args {
			as = append(as, exprText(a))
		}
		return exprText(x.Fun) + "(" + strings.Join(as, ",") + ")"
	case *ast.UnaryExpr:
		return x.Op.String() + exprText(x.X)
	case *ast.BinaryExpr:
		return exprText(x.X) + x.Op.String() + exprText(x.Y)
	case *ast.ArrayType:
		return "[]" + exprText(x.Elt)
	case *ast.StarExpr:
		return "*" + exprText(x.X)
	}
	return fmt.Sprintf("<%T>", e)
}

// xlate translates e; want is the type an untyped constant should take (may be tUnty).
func (env *xenv) xlate(e ast.Expr, want ty) (string, ty, error) {
	switch x := e.(type) {
	case *ast.ParenExpr:
		s, t, err := env.xlate(x.X, want)
		return "(" + s + ")", t, err
	case *ast.BasicLit:
		if x.Kind != token.INT {
			return "", ty{}, fmt.Errorf("unsupported literal %s", x.Value)
		}
		if want.bits <= 0 {
			return "", ty{}, fmt.Errorf("untyped constant %s without context", x.Value)
		}
		return fmt.Sprintf("(%s#%d)", x.Value, want.bits), want, nil
	case *ast.Ident:
		if t, ok := env.vars[x.Name]; ok {
			return x.Name, t, nil
		}
		return "", ty{}, fmt.Errorf("unknown identifier %s", x.Name)
	case *ast.IndexExpr:
		txt := exprText(x)
		if v, ok := env.index[txt]; ok {
			return v, tU8, nil
		}
		tb := exprText(x.X)
		if et, ok := env.tables[tb]; ok {
			is, it, err := env.xlate(x.Index, tUnty)
			if err != nil {
				return "", ty{}, err
			}
			if it.bits <= 0 {
				return "", ty{}, fmt.Errorf("table index of non-integer type in %s", txt)
			}
			return fmt.Sprintf("(%s.getD (%s).toNat (0#%d))", env.tblNm[tb], is, et.bits), et, nil
		}
		return "", ty{}, fmt.Errorf("unsupported index expression %s", txt)
	case *ast.CallExpr:
		fn := exprText(x.Fun)
		if t, ok := tyOfName(fn); ok && len(x.Args) == 1 {
			s, st, err := env.xlate(x.Args[0], t)
			if err != nil {
				return "", ty{}, err
			}
			if st == t {
				return s, t, nil
			}
			return fmt.Sprintf("(BitVec.setWidth %d %s)", t.bits, s), t, nil
		}
		if f, ok := env.funcs[fn]; ok {
			var as []string
			for _, a := range x.Args {
				as = append(as, exprText(a))
			}
			return fmt.Sprintf("(%s)", f.lean), f.ret, nil
		}
		return "", ty{}, fmt.Errorf("unsupported call %s", exprText(x))
	case *ast.UnaryExpr:
		if x.Op == token.XOR {
			s, t, err := env.xlate(x.X, want)
			if err != nil {
				return "", ty{}, err
			}
			return fmt.Sprintf("(~~~%s)", s), t, nil
		}
		return "", ty{}, fmt.Errorf("unsupported unary %s", x.Op)
	case *ast.BinaryExpr:
		// shifts: the count has its own type
		if x.Op == token.SHR || x.Op == token.SHL {
			l, lt, err := env.xlate(x.X, want)
			if err != nil {
				return "", ty{}, err
			}
			lit, ok := x.Y.(*ast.BasicLit)
			if !ok || lit.Kind != token.INT {
				return "", ty{}, fmt.Errorf("only constant shift counts are supported: %s", exprText(x))
			}
			op := ">>>"
			if x.Op == token.SHL {
				op = "<<<"
			}
			return fmt.Sprintf("(%s %s %s)", l, op, lit.Value), lt, nil
		}
		// determine operand type: try left without hint, then right
		l, lt, lerr := env.xlate(x.X, tUnty)
		var r string
		var rt ty
		var rerr error
		if lerr == nil {
			r, rt, rerr = env.xlate(x.Y, lt)
		} else {
			r, rt, rerr = env.xlate(x.Y, want)
			if rerr == nil {
				l, lt, lerr = env.xlate(x.X, rt)
			}
		}
		if lerr != nil {
			return "", ty{}, lerr
		}
		if rerr != nil {
			return "", ty{}, rerr
		}
		if lt != rt {
			return "", ty{}, fmt.Errorf("operand types differ in %s", exprText(x))
		}
		var op string
		res := lt
		switch x.Op {
		case token.XOR:
			op = "^^^"
		case token.AND:
			op = "&&&"
		case token.OR:
			op = "|||"
		case token.ADD:
			op = "+"
		case token.SUB:
			op = "-"
		case token.MUL:
			op = "*"
		case token.REM:
			op = "%"
		case token.QUO:
			op = "/"
		default:
			return "", ty{}, fmt.Errorf("unsupported operator %s", x.Op)
		}
		return fmt.Sprintf("(%s %s %s)", l, op, r), res, nil
	}
	return "", ty{}, fmt.Errorf("unsupported expression %T %s", e, exprText(e))
}

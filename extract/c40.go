package main

// C40 — T tie (fact table): the guards of reduceMessageEventAppend, the applied-event
// short-circuit of both append entry points, the finish cache-miss guard and the
// lost-authority test of the leader stream cache, re-read from source on every run.

import (
	"fmt"
	"go/ast"
	"go/token"
	"strings"
)

func init() { register("C40", extractC40) }

type c40Fact struct {
	name, doc, text string
	ok              bool
}

func returnsText(body *ast.BlockStmt) []string {
	var out []string
	for _, st := range body.List {
		if r, ok := st.(*ast.ReturnStmt); ok {
			for _, e := range r.Results {
				out = append(out, exprText(e))
			}
		}
	}
	return out
}

func findIfs(n ast.Node) []*ast.IfStmt {
	var out []*ast.IfStmt
	ast.Inspect(n, func(x ast.Node) bool {
		if i, ok := x.(*ast.IfStmt); ok {
			out = append(out, i)
		}
		return true
	})
	return out
}

func callPos(n ast.Node, name string) token.Pos {
	pos := token.NoPos
	ast.Inspect(n, func(x ast.Node) bool {
		if c, ok := x.(*ast.CallExpr); ok && pos == token.NoPos {
			t := exprText(c.Fun)
			if t == name || strings.HasSuffix(t, "."+name) {
				pos = c.Pos()
			}
		}
		return true
	})
	return pos
}

func assignTexts(n ast.Node) map[string]string {
	out := map[string]string{}
	ast.Inspect(n, func(x ast.Node) bool {
		if a, ok := x.(*ast.AssignStmt); ok && len(a.Lhs) == 1 && len(a.Rhs) == 1 {
			out[exprText(a.Lhs[0])] = exprText(a.Rhs[0])
		}
		return true
	})
	return out
}

func extractC40(repo string) (string, error) {
	_, tf, err := parseFile(repo, "pkg/db/meta/table_message_event.go")
	if err != nil {
		return "", err
	}
	_, cf, err := parseFile(repo, "pkg/cluster/node_message_event_stream_cache.go")
	if err != nil {
		return "", err
	}
	var facts []c40Fact
	red := findFunc(tf, "reduceMessageEventAppend")
	if red == nil {
		return "", fmt.Errorf("reduceMessageEventAppend not found")
	}
	// 1. the refusal guard
	guard := ""
	guardReturnsFalse := false
	for _, i := range findIfs(red.Body) {
		if exprText(i.Cond) == "stateExists" {
			for _, j := range findIfs(i.Body) {
				guard = exprText(j.Cond)
				rs := returnsText(j.Body)
				guardReturnsFalse = len(rs) == 4 && rs[2] == "false" && rs[0] == "state" && rs[1] == "cursor"
				break
			}
			break
		}
	}
	facts = append(facts, c40Fact{"guardReplayOrTerminal", "an existing lane refuses the event iff it already carries the event id or is terminal; state and cursor are returned unchanged with didApply = false",
		guard, guard == "state.LastEventID==event.EventID||isMessageEventTerminal(state.Status)" && guardReturnsFalse})
	as := assignTexts(red.Body)
	facts = append(facts, c40Fact{"seqIncrement", "the next sequence number is the message cursor plus one and is given to the lane and to the cursor",
		fmt.Sprintf("nextSeq := %s; state.LastMsgEventSeq = %s; cursor.LastMsgEventSeq = %s", as["nextSeq"], as["state.LastMsgEventSeq"], as["cursor.LastMsgEventSeq"]),
		as["nextSeq"] == "cursor.LastMsgEventSeq+1" && as["state.LastMsgEventSeq"] == "nextSeq" && as["cursor.LastMsgEventSeq"] == "nextSeq" && as["state.LastEventID"] == "event.EventID"})
	term := findFunc(tf, "isMessageEventTerminal")
	tt := ""
	if term != nil {
		tt = strings.Join(returnsText(term.Body), ";")
	}
	facts = append(facts, c40Fact{"terminalStatuses", "terminal = closed, error or cancelled", tt,
		tt == "status==EventStatusClosed||status==EventStatusError||status==EventStatusCancelled"})
	// 2. applied-event short circuit precedes the reducer in both entry points
	for _, recv := range []string{"Shard", "Batch"} {
		fd := findMethod(tf, recv, "AppendMessageEvent")
		ok := false
		txt := ""
		if fd != nil {
			rp := callPos(fd.Body, "reduceMessageEventAppend")
			for _, i := range findIfs(fd.Body) {
				if exprText(i.Cond) == "appliedExists" && i.Pos() < rp {
					rs := returnsText(i.Body)
					txt = strings.Join(rs, ",")
					ok = len(rs) == 1 && strings.Contains(rs[0], "messageEventAppendResultFromApplied(")
				}
			}
		}
		facts = append(facts, c40Fact{"appliedShortCircuit" + recv, recv + ".AppendMessageEvent answers from the applied-event row before the reducer runs", txt, ok})
	}
	// 3. finish guard
	fin := findMethod(cf, "Node", "appendMessageEventFinishLocal")
	fok, ftxt := false, ""
	if fin != nil {
		pp := callPos(fin.Body, "appendMessageEventFinishPrepared")
		for _, i := range findIfs(fin.Body) {
			c := exprText(i.Cond)
			if strings.Contains(c, "openStates") && i.Pos() < pp {
				ftxt = c
				rs := returnsText(i.Body)
				fok = c == "len(openStates)==0&&!messageEventPayloadHasSnapshot(event.Payload)" && len(rs) == 2 && rs[1] == "ErrMessageEventStreamCacheMiss"
			}
		}
	}
	facts = append(facts, c40Fact{"finishCacheMissGuard", "a finish with no open cached lane and no snapshot returns ErrMessageEventStreamCacheMiss before anything is proposed", ftxt, fok})
	// 4. lost local authority is decided on the NEW table for the hash slot
	lost := findMethod(cf, "Node", "messageEventLostLocalAuthorityHashSlots")
	lok, ltxt := false, ""
	if lost != nil {
		as := assignTexts(lost.Body)
		for _, i := range findIfs(lost.Body) {
			c := exprText(i.Cond)
			if strings.Contains(c, "current.leaderNodeID") {
				ltxt = c
			}
		}
		hasCall := callPos(lost.Body, "routeAuthorityFromTable") != token.NoPos
		_ = as
		lok = hasCall && ltxt == "!ok||current.leaderNodeID!=n.cfg.NodeID" && strings.Contains(nodeText(lost.Body), "routeAuthorityFromTable(after,uint16(hashSlot))")
	}
	facts = append(facts, c40Fact{"lostAuthorityUsesNewTable", "a hash slot is lost when the NEW table no longer routes it to a Slot led by this node", ltxt, lok})

	var sb strings.Builder
	sb.WriteString("namespace WK.Gen.C40\n\n")
	for _, f := range facts {
		fmt.Fprintf(&sb, "/-- %s.\n    source: `%s` -/\ndef %s : Bool := %s\n\n", f.doc, strings.ReplaceAll(f.text, "-/", "- /"), f.name, c40Bool(f.ok))
	}
	sb.WriteString("end WK.Gen.C40\n")
	return sb.String(), nil
}

// nodeText concatenates the expression texts of all call expressions under n.
func nodeText(n ast.Node) string {
	var sb strings.Builder
	ast.Inspect(n, func(x ast.Node) bool {
		if c, ok := x.(*ast.CallExpr); ok {
			sb.WriteString(exprText(c))
			sb.WriteString(";")
		}
		return true
	})
	return sb.String()
}

func c40Bool(b bool) string {
	if b {
		return "true"
	}
	return "false"
}

package main

import (
	"fmt"
	"go/ast"
	"go/token"
	"strconv"
	"strings"
)

func init() { register("C35", extractC35) }

// extractC35 TRANSLATES the functions of pkg/protocol/channelid (person.go,
// command.go, agent.go) into Lean definitions over `List UInt8` with the
// checksum `crc : List UInt8 → Nat` abstract.  Only the whitelisted subset below
// is understood; anything else is refused (exit 2 = broken tie).
//
//   statements : x := e | a, b, err := F(x); if err != nil { return …, err } | if c { return … } | return …
//   expressions: string/int literals, identifiers, + (concat), > == != && || !,
//                crc32.ChecksumIEEE([]byte(x)), strings.Contains/Split (one-byte separator),
//                strings.HasSuffix/TrimSuffix, len(x), x[i], calls of translated functions
//   results    : string | bool | (string,bool) | (string,error) → Option | (string,string,error) → Option pair

type c35Ty int

const (
	c35Str c35Ty = iota
	c35Nat
	c35Bool
	c35List
	c35OptPair // (string,string,error)
	c35OptStr  // (string,error)
	c35Pair    // (string,bool)
)

type c35Sig struct {
	lean   string
	params []string
	ret    c35Ty
}

type c35Env struct {
	sigs   map[string]c35Sig
	consts map[string]string // Go const name -> Lean name (string constants)
	vars   map[string]c35Ty
	ret    c35Ty
}

func c35Bytes(s string) string {
	if s == "" {
		return "([] : List UInt8)"
	}
	var p []string
	for _, c := range []byte(s) {
		p = append(p, fmt.Sprintf("0x%02x", c))
	}
	return "([" + strings.Join(p, ", ") + "] : List UInt8)"
}

func c35Var(n string) string { return "g_" + n }

func (env *c35Env) expr(e ast.Expr) (string, c35Ty, error) {
	switch x := e.(type) {
	case *ast.ParenExpr:
		return env.expr(x.X)
	case *ast.BasicLit:
		switch x.Kind {
		case token.STRING:
			s, err := strconv.Unquote(x.Value)
			if err != nil {
				return "", 0, err
			}
			return c35Bytes(s), c35Str, nil
		case token.INT:
			return x.Value, c35Nat, nil
		}
	case *ast.Ident:
		if t, ok := env.vars[x.Name]; ok {
			return c35Var(x.Name), t, nil
		}
		if l, ok := env.consts[x.Name]; ok {
			return l, c35Str, nil
		}
		switch x.Name {
		case "true", "false":
			return x.Name, c35Bool, nil
		}
	case *ast.UnaryExpr:
		if x.Op == token.NOT {
			s, t, err := env.expr(x.X)
			if err != nil || t != c35Bool {
				return "", 0, fmt.Errorf("! of non-bool %s", exprText(x.X))
			}
			return "(!" + s + ")", c35Bool, nil
		}
	case *ast.IndexExpr:
		s, t, err := env.expr(x.X)
		if err != nil || t != c35List {
			return "", 0, fmt.Errorf("index of non-list %s", exprText(x))
		}
		i, it, err := env.expr(x.Index)
		if err != nil || it != c35Nat {
			return "", 0, fmt.Errorf("non-integer index in %s", exprText(x))
		}
		return fmt.Sprintf("(%s.getD %s [])", s, i), c35Str, nil
	case *ast.BinaryExpr:
		a, ta, err := env.expr(x.X)
		if err != nil {
			return "", 0, err
		}
		b, tb, err := env.expr(x.Y)
		if err != nil {
			return "", 0, err
		}
		if ta != tb {
			return "", 0, fmt.Errorf("operands of different types in %s", exprText(x))
		}
		switch x.Op {
		case token.ADD:
			if ta == c35Str {
				return fmt.Sprintf("(%s ++ %s)", a, b), c35Str, nil
			}
		case token.GTR:
			if ta == c35Str {
				return fmt.Sprintf("(WK.C35.bytesGt %s %s)", a, b), c35Bool, nil
			}
			if ta == c35Nat {
				return fmt.Sprintf("(decide (%s > %s))", a, b), c35Bool, nil
			}
		case token.EQL:
			if ta == c35Str || ta == c35Nat {
				return fmt.Sprintf("(%s == %s)", a, b), c35Bool, nil
			}
		case token.NEQ:
			if ta == c35Str || ta == c35Nat {
				return fmt.Sprintf("(%s != %s)", a, b), c35Bool, nil
			}
		case token.LAND:
			if ta == c35Bool {
				return fmt.Sprintf("(%s && %s)", a, b), c35Bool, nil
			}
		case token.LOR:
			if ta == c35Bool {
				return fmt.Sprintf("(%s || %s)", a, b), c35Bool, nil
			}
		}
		return "", 0, fmt.Errorf("unsupported operator in %s", exprText(x))
	case *ast.CallExpr:
		fn := exprText(x.Fun)
		oneByte := func(a ast.Expr) (string, error) {
			lit, ok := a.(*ast.BasicLit)
			if !ok || lit.Kind != token.STRING {
				return "", fmt.Errorf("%s: separator is not a string literal", exprText(x))
			}
			s, err := strconv.Unquote(lit.Value)
			if err != nil || len(s) != 1 {
				return "", fmt.Errorf("%s: separator is not one byte", exprText(x))
			}
			return fmt.Sprintf("(0x%02x : UInt8)", s[0]), nil
		}
		strArg := func(i int) (string, error) {
			s, t, err := env.expr(x.Args[i])
			if err != nil {
				return "", err
			}
			if t != c35Str {
				return "", fmt.Errorf("%s: argument %d is not a string", exprText(x), i)
			}
			return s, nil
		}
		switch {
		case fn == "crc32.ChecksumIEEE" && len(x.Args) == 1:
			conv, ok := x.Args[0].(*ast.CallExpr)
			if !ok || exprText(conv.Fun) != "[]byte" || len(conv.Args) != 1 {
				return "", 0, fmt.Errorf("checksum argument is not []byte(x): %s", exprText(x))
			}
			s, t, err := env.expr(conv.Args[0])
			if err != nil || t != c35Str {
				return "", 0, fmt.Errorf("checksum of non-string %s", exprText(x))
			}
			return "(crc " + s + ")", c35Nat, nil
		case fn == "strings.Contains" && len(x.Args) == 2:
			s, err := strArg(0)
			if err != nil {
				return "", 0, err
			}
			c, err := oneByte(x.Args[1])
			if err != nil {
				return "", 0, err
			}
			return fmt.Sprintf("(List.contains %s %s)", s, c), c35Bool, nil
		case fn == "strings.Split" && len(x.Args) == 2:
			s, err := strArg(0)
			if err != nil {
				return "", 0, err
			}
			c, err := oneByte(x.Args[1])
			if err != nil {
				return "", 0, err
			}
			return fmt.Sprintf("(WK.C35.splitBy %s %s)", c, s), c35List, nil
		case fn == "strings.HasSuffix" && len(x.Args) == 2:
			s, err := strArg(0)
			if err != nil {
				return "", 0, err
			}
			suf, err := strArg(1)
			if err != nil {
				return "", 0, err
			}
			return fmt.Sprintf("(List.isSuffixOf %s %s)", suf, s), c35Bool, nil
		case fn == "strings.TrimSuffix" && len(x.Args) == 2:
			s, err := strArg(0)
			if err != nil {
				return "", 0, err
			}
			suf, err := strArg(1)
			if err != nil {
				return "", 0, err
			}
			return fmt.Sprintf("(WK.C35.goTrimSuffix %s %s)", s, suf), c35Str, nil
		case fn == "len" && len(x.Args) == 1:
			s, t, err := env.expr(x.Args[0])
			if err != nil || t != c35List {
				return "", 0, fmt.Errorf("len of non-list %s", exprText(x))
			}
			return "(List.length " + s + ")", c35Nat, nil
		}
		if sig, ok := env.sigs[fn]; ok && len(x.Args) == len(sig.params) {
			parts := []string{sig.lean, "crc"}
			for i := range x.Args {
				s, err := strArg(i)
				if err != nil {
					return "", 0, err
				}
				parts = append(parts, s)
			}
			return "(" + strings.Join(parts, " ") + ")", sig.ret, nil
		}
	}
	return "", 0, fmt.Errorf("unsupported expression %s", exprText(e))
}

func (env *c35Env) returns(r *ast.ReturnStmt) (string, error) {
	want := map[c35Ty]int{c35Str: 1, c35Bool: 1, c35Pair: 2, c35OptStr: 2, c35OptPair: 3}[env.ret]
	if len(r.Results) == 1 && want > 1 { // `return F(x)` forwarding a multi-value call is not used here
		return "", fmt.Errorf("unsupported forwarding return %s", exprText(r.Results[0]))
	}
	if len(r.Results) != want {
		return "", fmt.Errorf("return with %d values, want %d", len(r.Results), want)
	}
	val := func(i int, t c35Ty) (string, error) {
		s, st, err := env.expr(r.Results[i])
		if err != nil {
			return "", err
		}
		if st != t {
			return "", fmt.Errorf("return value %s has the wrong type", exprText(r.Results[i]))
		}
		return s, nil
	}
	switch env.ret {
	case c35Str, c35Bool:
		return val(0, env.ret)
	case c35Pair:
		a, err := val(0, c35Str)
		if err != nil {
			return "", err
		}
		b, err := val(1, c35Bool)
		if err != nil {
			return "", err
		}
		return "(" + a + ", " + b + ")", nil
	case c35OptStr, c35OptPair:
		last := r.Results[len(r.Results)-1]
		if id, ok := last.(*ast.Ident); ok && id.Name == "nil" {
			a, err := val(0, c35Str)
			if err != nil {
				return "", err
			}
			if env.ret == c35OptStr {
				return "(some " + a + ")", nil
			}
			b, err := val(1, c35Str)
			if err != nil {
				return "", err
			}
			return "(some (" + a + ", " + b + "))", nil
		}
		// an error return: the value slots must be empty strings
		for i := 0; i < len(r.Results)-1; i++ {
			if exprText(r.Results[i]) != `""` {
				return "", fmt.Errorf("error return carries a non-empty value: %s", exprText(r.Results[i]))
			}
		}
		t := exprText(last)
		if t != "err" && !strings.HasPrefix(t, "Err") {
			return "", fmt.Errorf("unrecognised error value %s", t)
		}
		return "none", nil
	}
	return "", fmt.Errorf("unsupported result kind")
}

func (env *c35Env) stmts(list []ast.Stmt, ind string) (string, error) {
	if len(list) == 0 {
		return "", fmt.Errorf("control reaches the end of the function without a return")
	}
	switch s := list[0].(type) {
	case *ast.ReturnStmt:
		if len(list) != 1 {
			return "", fmt.Errorf("statements after return")
		}
		return env.returns(s)
	case *ast.IfStmt:
		if s.Init != nil || s.Else != nil {
			return "", fmt.Errorf("if with init/else is not supported")
		}
		c, t, err := env.expr(s.Cond)
		if err != nil {
			return "", err
		}
		if t != c35Bool {
			return "", fmt.Errorf("non-bool condition %s", exprText(s.Cond))
		}
		th, err := env.stmts(s.Body.List, ind+"  ")
		if err != nil {
			return "", err
		}
		rest, err := env.stmts(list[1:], ind)
		if err != nil {
			return "", err
		}
		return fmt.Sprintf("if %s then %s\n%selse %s", c, th, ind, rest), nil
	case *ast.AssignStmt:
		if s.Tok != token.DEFINE || len(s.Rhs) != 1 {
			return "", fmt.Errorf("unsupported assignment %s", exprText(s.Lhs[0]))
		}
		if len(s.Lhs) == 1 {
			v, t, err := env.expr(s.Rhs[0])
			if err != nil {
				return "", err
			}
			name := exprText(s.Lhs[0])
			env.vars[name] = t
			rest, err := env.stmts(list[1:], ind)
			if err != nil {
				return "", err
			}
			return fmt.Sprintf("let %s := %s\n%s%s", c35Var(name), v, ind, rest), nil
		}
		// a, b, err := F(x); if err != nil { return "", [""], err }
		call, ok := s.Rhs[0].(*ast.CallExpr)
		if !ok || len(s.Lhs) != 3 || exprText(s.Lhs[2]) != "err" || len(list) < 2 {
			return "", fmt.Errorf("unsupported multi-assignment")
		}
		v, t, err := env.expr(call)
		if err != nil {
			return "", err
		}
		if t != c35OptPair {
			return "", fmt.Errorf("%s does not return (string,string,error)", exprText(call.Fun))
		}
		chk, ok := list[1].(*ast.IfStmt)
		if !ok || exprText(chk.Cond) != "err!=nil" || chk.Else != nil || chk.Init != nil || len(chk.Body.List) != 1 {
			return "", fmt.Errorf("multi-assignment is not followed by `if err != nil { return … }`")
		}
		er, ok := chk.Body.List[0].(*ast.ReturnStmt)
		if !ok {
			return "", fmt.Errorf("error branch is not a return")
		}
		onErr, err := env.returns(er)
		if err != nil {
			return "", err
		}
		a, b := exprText(s.Lhs[0]), exprText(s.Lhs[1])
		env.vars[a], env.vars[b] = c35Str, c35Str
		rest, err := env.stmts(list[2:], ind+"  ")
		if err != nil {
			return "", err
		}
		return fmt.Sprintf("match %s with\n%s| none => %s\n%s| some (%s, %s) =>\n%s  %s", v, ind, onErr, ind, c35Var(a), c35Var(b), ind, rest), nil
	}
	return "", fmt.Errorf("unsupported statement")
}

func c35RetTy(fd *ast.FuncDecl) (c35Ty, string, error) {
	var ts []string
	if fd.Type.Results != nil {
		for _, r := range fd.Type.Results.List {
			n := len(r.Names)
			if n == 0 {
				n = 1
			}
			for i := 0; i < n; i++ {
				ts = append(ts, exprText(r.Type))
			}
		}
	}
	switch strings.Join(ts, ",") {
	case "string":
		return c35Str, "List UInt8", nil
	case "bool":
		return c35Bool, "Bool", nil
	case "string,bool":
		return c35Pair, "List UInt8 × Bool", nil
	case "string,error":
		return c35OptStr, "Option (List UInt8)", nil
	case "string,string,error":
		return c35OptPair, "Option (List UInt8 × List UInt8)", nil
	}
	return 0, "", fmt.Errorf("%s: unsupported result list (%s)", fd.Name.Name, strings.Join(ts, ","))
}

func extractC35(repo string) (string, error) {
	var b strings.Builder
	b.WriteString("import WK.Model.C35\nnamespace WK.Gen.C35\n\n")
	env := &c35Env{sigs: map[string]c35Sig{}, consts: map[string]string{}}
	lower := func(n string) string { return strings.ToLower(n[:1]) + n[1:] }
	type unit struct {
		file string
		fns  []string
	}
	units := []unit{
		{"pkg/protocol/channelid/person.go", []string{"EncodePersonChannel", "DecodePersonChannel", "NormalizePersonChannel"}},
		{"pkg/protocol/channelid/command.go", []string{"IsCommandChannel", "ToCommandChannel", "FromCommandChannel"}},
		{"pkg/protocol/channelid/agent.go", []string{"EncodeAgentChannel", "DecodeAgentChannel"}},
	}
	for _, u := range units {
		_, f, err := parseFile(repo, u.file)
		if err != nil {
			return "", err
		}
		// string constants of the file
		for _, d := range f.Decls {
			gd, ok := d.(*ast.GenDecl)
			if !ok || gd.Tok != token.CONST {
				continue
			}
			for _, sp := range gd.Specs {
				vs := sp.(*ast.ValueSpec)
				for i, n := range vs.Names {
					if i >= len(vs.Values) {
						continue
					}
					lit, ok := vs.Values[i].(*ast.BasicLit)
					if !ok || lit.Kind != token.STRING {
						continue
					}
					s, err := strconv.Unquote(lit.Value)
					if err != nil {
						return "", err
					}
					env.consts[n.Name] = lower(n.Name)
					fmt.Fprintf(&b, "/-- `const %s = %s` -/\ndef %s : List UInt8 := %s\n\n", n.Name, lit.Value, lower(n.Name), c35Bytes(s))
				}
			}
		}
		for _, name := range u.fns {
			fd := findFunc(f, name)
			if fd == nil {
				return "", fmt.Errorf("%s: %s not found", u.file, name)
			}
			rt, leanRt, err := c35RetTy(fd)
			if err != nil {
				return "", err
			}
			env.vars = map[string]c35Ty{}
			env.ret = rt
			var params, binders []string
			for _, p := range fd.Type.Params.List {
				if exprText(p.Type) != "string" {
					return "", fmt.Errorf("%s: non-string parameter", name)
				}
				for _, n := range p.Names {
					params = append(params, n.Name)
					binders = append(binders, c35Var(n.Name))
					env.vars[n.Name] = c35Str
				}
			}
			body, err := env.stmts(fd.Body.List, "  ")
			if err != nil {
				return "", fmt.Errorf("%s: %v", name, err)
			}
			fmt.Fprintf(&b, "/-- %s %s -/\ndef %s (crc : List UInt8 → Nat) (%s : List UInt8) : %s :=\n  %s\n\n",
				u.file, name, lower(name), strings.Join(binders, " "), leanRt, body)
			env.sigs[name] = c35Sig{lean: lower(name), params: params, ret: rt}
		}
	}
	b.WriteString("end WK.Gen.C35\n")
	return b.String(), nil
}

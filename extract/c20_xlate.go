package main

// C20: mechanical translation of the bodies of selectLargestSurplusSlot,
// selectSmallestDeficitSlot and popOwnedHashSlot (pkg/hashslot/rebalancer.go) into Lean
// definitions.  Whitelisted shapes only; anything else is refused (exit 2 = broken tie).

import (
	"fmt"
	"go/ast"
	"go/token"
	"strings"
)

// c20Expr translates a Go int/bool expression over the given names into Lean (Int / Nat / Prop).
func c20Expr(e ast.Expr, names map[string]string) (string, error) {
	switch x := e.(type) {
	case *ast.ParenExpr:
		s, err := c20Expr(x.X, names)
		return "(" + s + ")", err
	case *ast.BasicLit:
		if x.Kind == token.INT {
			return x.Value, nil
		}
	case *ast.Ident:
		if n, ok := names[x.Name]; ok {
			return n, nil
		}
	case *ast.IndexExpr:
		if n, ok := names[exprText(x)]; ok {
			return n, nil
		}
	case *ast.BinaryExpr:
		l, err := c20Expr(x.X, names)
		if err != nil {
			return "", err
		}
		r, err := c20Expr(x.Y, names)
		if err != nil {
			return "", err
		}
		op := map[token.Token]string{token.LOR: "∨", token.LAND: "∧", token.EQL: "=", token.NEQ: "≠", token.LSS: "<",
			token.GTR: ">", token.LEQ: "≤", token.GEQ: "≥", token.SUB: "-", token.ADD: "+"}[x.Op]
		if op == "" {
			return "", fmt.Errorf("unsupported operator %s", x.Op)
		}
		return fmt.Sprintf("(%s %s %s)", l, op, r), nil
	}
	return "", fmt.Errorf("unsupported expression %s", exprText(e))
}

// c20Select translates one of the two selection functions.
func c20Select(f *ast.File, fn, prefix string) (string, error) {
	fd := findFunc(f, fn)
	if fd == nil {
		return "", fmt.Errorf("%s not found", fn)
	}
	var pn []string
	for _, p := range fd.Type.Params.List {
		for _, n := range p.Names {
			pn = append(pn, n.Name)
		}
	}
	if len(pn) != 3 {
		return "", fmt.Errorf("%s: want (current, target, candidates)", fn)
	}
	cur, tgt, cands := pn[0], pn[1], pn[2]
	st := fd.Body.List
	if len(st) != 5 {
		return "", fmt.Errorf("%s: body has %d statements, want 5 (var; :=0; :=0; for; return)", fn, len(st))
	}
	ds, ok := st[0].(*ast.DeclStmt)
	if !ok {
		return "", fmt.Errorf("%s: first statement is not `var chosen`", fn)
	}
	chosen := ds.Decl.(*ast.GenDecl).Specs[0].(*ast.ValueSpec).Names[0].Name
	zero := func(s ast.Stmt) (string, error) {
		as, ok := s.(*ast.AssignStmt)
		if !ok || as.Tok != token.DEFINE || len(as.Lhs) != 1 || exprText(as.Rhs[0]) != "0" {
			return "", fmt.Errorf("%s: expected `x := 0`", fn)
		}
		return exprText(as.Lhs[0]), nil
	}
	best, err := zero(st[1])
	if err != nil {
		return "", err
	}
	bestCount, err := zero(st[2])
	if err != nil {
		return "", err
	}
	loop, ok := st[3].(*ast.RangeStmt)
	if !ok || exprText(loop.X) != cands || loop.Value == nil {
		return "", fmt.Errorf("%s: fourth statement is not `for _, s := range %s`", fn, cands)
	}
	slot := exprText(loop.Value)
	ret, ok := st[4].(*ast.ReturnStmt)
	if !ok || len(ret.Results) != 1 || exprText(ret.Results[0]) != chosen {
		return "", fmt.Errorf("%s: does not end in `return %s`", fn, chosen)
	}
	lb := loop.Body.List
	if len(lb) != 3 {
		return "", fmt.Errorf("%s: loop body has %d statements, want 3", fn, len(lb))
	}
	da, ok := lb[0].(*ast.AssignStmt)
	if !ok || da.Tok != token.DEFINE || len(da.Lhs) != 1 {
		return "", fmt.Errorf("%s: loop does not start with `x := a - b`", fn)
	}
	diff := exprText(da.Lhs[0])
	curS, tgtS := cur+"["+slot+"]", tgt+"["+slot+"]"
	diffE, err := c20Expr(da.Rhs[0], map[string]string{curS: "(cur : Int)", tgtS: "(tgt : Int)"})
	if err != nil {
		return "", fmt.Errorf("%s: %v", fn, err)
	}
	skip, ok := lb[1].(*ast.IfStmt)
	if !ok || skip.Else != nil || len(skip.Body.List) != 1 {
		return "", fmt.Errorf("%s: second loop statement is not `if c { continue }`", fn)
	}
	if br, ok := skip.Body.List[0].(*ast.BranchStmt); !ok || br.Tok != token.CONTINUE {
		return "", fmt.Errorf("%s: skip branch is not `continue`", fn)
	}
	skipE, err := c20Expr(skip.Cond, map[string]string{diff: "d"})
	if err != nil {
		return "", fmt.Errorf("%s: %v", fn, err)
	}
	take, ok := lb[2].(*ast.IfStmt)
	if !ok || take.Else != nil {
		return "", fmt.Errorf("%s: third loop statement is not a plain if", fn)
	}
	takeE, err := c20Expr(take.Cond, map[string]string{chosen: "chosen", slot: "slot", diff: "d", best: "best",
		curS: "cur", bestCount: "bestCount"})
	if err != nil {
		return "", fmt.Errorf("%s: %v", fn, err)
	}
	want := map[string]string{chosen: slot, best: diff, bestCount: curS}
	if len(take.Body.List) != 3 {
		return "", fmt.Errorf("%s: take branch has %d statements, want 3 assignments", fn, len(take.Body.List))
	}
	for _, s := range take.Body.List {
		as, ok := s.(*ast.AssignStmt)
		if !ok || as.Tok != token.ASSIGN || len(as.Lhs) != 1 {
			return "", fmt.Errorf("%s: take branch is not three plain assignments", fn)
		}
		l, r := exprText(as.Lhs[0]), exprText(as.Rhs[0])
		if want[l] != r {
			return "", fmt.Errorf("%s: unexpected assignment %s = %s", fn, l, r)
		}
		delete(want, l)
	}
	var b strings.Builder
	fmt.Fprintf(&b, "/-- `%s := …` of %s -/\ndef %sDiff (cur tgt : Nat) : Int := %s\n\n", diff, fn, prefix, diffE)
	fmt.Fprintf(&b, "/-- the `continue` guard of %s -/\ndef %sSkip (d : Int) : Prop := %s\ninstance (d : Int) : Decidable (%sSkip d) := by unfold %sSkip; infer_instance\n\n", fn, prefix, skipE, prefix, prefix)
	fmt.Fprintf(&b, "/-- the replacement condition of %s (then: %s = %s; %s = %s; %s = %s) -/\ndef %sTake (chosen slot : Nat) (d best : Int) (cur bestCount : Nat) : Prop := %s\ninstance (chosen slot : Nat) (d best : Int) (cur bestCount : Nat) : Decidable (%sTake chosen slot d best cur bestCount) := by unfold %sTake; infer_instance\n\n",
		fn, chosen, slot, best, diff, bestCount, curS, prefix, takeE, prefix, prefix)
	return b.String(), nil
}

// c20Pop translates popOwnedHashSlot.
func c20Pop(f *ast.File) (string, error) {
	fd := findFunc(f, "popOwnedHashSlot")
	if fd == nil {
		return "", fmt.Errorf("popOwnedHashSlot not found")
	}
	st := fd.Body.List
	if len(st) != 5 {
		return "", fmt.Errorf("popOwnedHashSlot: body has %d statements, want 5", len(st))
	}
	as0, ok := st[0].(*ast.AssignStmt)
	if !ok || as0.Tok != token.DEFINE || exprText(as0.Rhs[0]) != "owned[slotID]" {
		return "", fmt.Errorf("popOwnedHashSlot: first statement is not `l := owned[slotID]`")
	}
	l := exprText(as0.Lhs[0])
	ifs, ok := st[1].(*ast.IfStmt)
	if !ok || exprText(ifs.Cond) != "len("+l+")==0" || len(ifs.Body.List) != 1 {
		return "", fmt.Errorf("popOwnedHashSlot: second statement is not `if len(l) == 0 { return 0, false }`")
	}
	if r, ok := ifs.Body.List[0].(*ast.ReturnStmt); !ok || len(r.Results) != 2 || exprText(r.Results[1]) != "false" {
		return "", fmt.Errorf("popOwnedHashSlot: empty branch does not return false")
	}
	as2, ok := st[2].(*ast.AssignStmt)
	if !ok || as2.Tok != token.DEFINE {
		return "", fmt.Errorf("popOwnedHashSlot: third statement is not `last := l[i]`")
	}
	last := exprText(as2.Lhs[0])
	ix, ok := as2.Rhs[0].(*ast.IndexExpr)
	if !ok || exprText(ix.X) != l {
		return "", fmt.Errorf("popOwnedHashSlot: `last` is not an element of l")
	}
	idx, err := c20Expr(ix.Index, map[string]string{"len(" + l + ")": "l.length"})
	if err != nil {
		if c, ok2 := ix.Index.(*ast.BinaryExpr); ok2 && exprText(c.X) == "len("+l+")" && c.Op == token.SUB {
			idx = "(l.length - " + exprText(c.Y) + ")"
		} else {
			return "", err
		}
	}
	as3, ok := st[3].(*ast.AssignStmt)
	if !ok || as3.Tok != token.ASSIGN || exprText(as3.Lhs[0]) != "owned[slotID]" {
		return "", fmt.Errorf("popOwnedHashSlot: fourth statement does not store the shortened slice")
	}
	sl, ok := as3.Rhs[0].(*ast.SliceExpr)
	if !ok || exprText(sl.X) != l || sl.Low != nil || sl.High == nil {
		return "", fmt.Errorf("popOwnedHashSlot: stored value is not l[:n]")
	}
	hi := ""
	if c, ok2 := sl.High.(*ast.BinaryExpr); ok2 && exprText(c.X) == "len("+l+")" && c.Op == token.SUB {
		hi = "(l.length - " + exprText(c.Y) + ")"
	} else {
		return "", fmt.Errorf("popOwnedHashSlot: slice bound %s not understood", exprText(sl.High))
	}
	r, ok := st[4].(*ast.ReturnStmt)
	if !ok || len(r.Results) != 2 || exprText(r.Results[0]) != last || exprText(r.Results[1]) != "true" {
		return "", fmt.Errorf("popOwnedHashSlot: does not end in `return last, true`")
	}
	return fmt.Sprintf("/-- popOwnedHashSlot on the slice `owned[slotID]`: the popped hash slot and the slice that is stored back -/\ndef pop (l : List Nat) : Option (Nat × List Nat) :=\n  if l.length = 0 then none else some (l.getD %s 0, l.take %s)\n\n", idx, hi), nil
}

package main

import (
	"fmt"
	"go/ast"
	"go/token"
	"strings"
)

func init() { register("C38", extractC38) }

// extractC38 regenerates lean/WK/Gen/C38.lean from pkg/backup/archive_verify.go
// and archive_v1.go: for each of the four functions that make up
// VerifyPublishedArchive the ORDERED list of exits — (path condition, action) in
// source order: every return, every assignment, every branch statement
// (continue/break/goto), loops as "range <expr>" path conditions — the list of
// "does this return succeed" flags in the same order, and the Hash Slot count.
// Dropping / reordering / weakening a verification guard, adding an early
// success return or a `continue` that skips a check changes a list and breaks a
// `c38_gen_*` theorem (lean/WK/Theorems/C38_Tie.lean).

type c38Ev struct{ cond, act string }

func c38Join(prefix, c string) string {
	if prefix == "" {
		return c
	}
	if c == "" {
		return prefix
	}
	return prefix + " && " + c
}

// c38Expr renders composite literals (the SlotReference a load returns) field by
// field; everything else through the shared exprText.
func c38Expr(e ast.Expr) string {
	if cl, ok := e.(*ast.CompositeLit); ok {
		var fs []string
		for _, el := range cl.Elts {
			if kv, ok := el.(*ast.KeyValueExpr); ok {
				fs = append(fs, exprText(kv.Key)+":"+c38Expr(kv.Value))
			} else {
				fs = append(fs, c38Expr(el))
			}
		}
		t := ""
		if cl.Type != nil {
			t = exprText(cl.Type)
		}
		return t + "{" + strings.Join(fs, ",") + "}"
	}
	switch x := e.(type) {
	case *ast.SliceExpr:
		lo, hi := "", ""
		if x.Low != nil {
			lo = c38Expr(x.Low)
		}
		if x.High != nil {
			hi = c38Expr(x.High)
		}
		return c38Expr(x.X) + "[" + lo + ":" + hi + "]"
	case *ast.CallExpr:
		var as []string
		for _, a := range x.Args {
			as = append(as, c38Expr(a))
		}
		return exprText(x.Fun) + "(" + strings.Join(as, ",") + ")"
	}
	return exprText(e)
}

func c38Simple(st ast.Stmt) (string, error) {
	switch x := st.(type) {
	case *ast.AssignStmt:
		var l, r []string
		for _, e := range x.Lhs {
			l = append(l, exprText(e))
		}
		for _, e := range x.Rhs {
			r = append(r, exprText(e))
		}
		return strings.Join(l, ",") + x.Tok.String() + strings.Join(r, ","), nil
	case *ast.ExprStmt:
		return exprText(x.X), nil
	}
	return "", fmt.Errorf("unsupported simple statement %T", st)
}

func c38Walk(list []ast.Stmt, prefix string, out *[]c38Ev) error {
	for _, st := range list {
		switch x := st.(type) {
		case *ast.ReturnStmt:
			var rs []string
			for _, e := range x.Results {
				rs = append(rs, c38Expr(e))
			}
			*out = append(*out, c38Ev{prefix, "return " + strings.Join(rs, ",")})
		case *ast.IfStmt:
			c := exprText(x.Cond)
			if x.Init != nil {
				t, err := c38Simple(x.Init)
				if err != nil {
					return err
				}
				c = t + ";" + c
			}
			if err := c38Walk(x.Body.List, c38Join(prefix, c), out); err != nil {
				return err
			}
			if x.Else != nil {
				eb, ok := x.Else.(*ast.BlockStmt)
				if !ok {
					return fmt.Errorf("else-if chains are not supported")
				}
				if err := c38Walk(eb.List, c38Join(prefix, "!("+c+")"), out); err != nil {
					return err
				}
			}
		case *ast.RangeStmt:
			if err := c38Walk(x.Body.List, c38Join(prefix, "range "+exprText(x.X)), out); err != nil {
				return err
			}
		case *ast.AssignStmt, *ast.ExprStmt:
			t, err := c38Simple(x)
			if err != nil {
				return err
			}
			*out = append(*out, c38Ev{prefix, t})
		case *ast.BranchStmt:
			*out = append(*out, c38Ev{prefix, x.Tok.String()})
		default:
			// for / switch / select / defer / go / labelled statements: refuse, the
			// model was not written against such a shape
			return fmt.Errorf("unsupported statement %T", st)
		}
	}
	return nil
}

func extractC38(repo string) (string, error) {
	var b strings.Builder
	b.WriteString("namespace WK.Gen.C38\n\n")
	_, f, err := parseFile(repo, "pkg/backup/archive_verify.go")
	if err != nil {
		return "", err
	}
	for _, fn := range []string{"VerifyPublishedArchive", "LoadPublishedArchiveMetadata", "LoadStoredSlotReference", "loadStoredSlotAtKey", "ReadStoredObject"} {
		fd := findFunc(f, fn)
		if fd == nil || fd.Body == nil {
			return "", fmt.Errorf("function %s not found in archive_verify.go", fn)
		}
		var evs []c38Ev
		if err := c38Walk(fd.Body.List, "", &evs); err != nil {
			return "", fmt.Errorf("%s: %v", fn, err)
		}
		var q, flags []string
		for _, e := range evs {
			q = append(q, "("+leanStr(e.cond)+", "+leanStr(e.act)+")")
			if strings.HasPrefix(e.act, "return ") {
				// a return succeeds iff its last result (the error) is the literal nil
				if strings.HasSuffix(e.act, ",nil") {
					flags = append(flags, "true")
				} else {
					flags = append(flags, "false")
				}
			}
		}
		name := strings.ToLower(fn[:1]) + fn[1:]
		fmt.Fprintf(&b, "/-- exits of %s in source order -/\ndef %s : List (String × String) := [\n  %s]\n\n", fn, name, strings.Join(q, ",\n  "))
		fmt.Fprintf(&b, "/-- per return of %s in source order: does it return a nil error -/\ndef %sReturns : List Bool := [%s]\n\n", fn, name, strings.Join(flags, ", "))
	}
	// ---- DefaultHashSlotCount
	_, f2, err := parseFile(repo, "pkg/backup/archive_v1.go")
	if err != nil {
		return "", err
	}
	found := false
	for _, d := range f2.Decls {
		gd, ok := d.(*ast.GenDecl)
		if !ok || gd.Tok != token.CONST {
			continue
		}
		for _, sp := range gd.Specs {
			vs := sp.(*ast.ValueSpec)
			for i, n := range vs.Names {
				if n.Name == "DefaultHashSlotCount" && i < len(vs.Values) {
					lit, ok := vs.Values[i].(*ast.BasicLit)
					if !ok || lit.Kind != token.INT {
						return "", fmt.Errorf("DefaultHashSlotCount is not an integer literal")
					}
					fmt.Fprintf(&b, "/-- DefaultHashSlotCount of archive_v1.go -/\ndef hashSlotCount : Nat := %s\n\n", lit.Value)
					found = true
				}
			}
		}
	}
	if !found {
		return "", fmt.Errorf("DefaultHashSlotCount not found")
	}
	b.WriteString("end WK.Gen.C38\n")
	return b.String(), nil
}

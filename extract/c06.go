package main

// C06 — T tie: every call of (*machine.ChannelState).ApplyFollowerAck outside the
// machine package, with the guard that dominates it.  The Lean model's three ack
// entry points (reactorAck / reactorStoppedAck / reactorPullAck) are exactly
// these call sites; a new unguarded call site, a removed guard or a changed
// comparison operator changes the generated list and breaks
// WK.C06.c06_ack_call_sites_guarded.

import (
	"bytes"
	"fmt"
	"go/ast"
	"go/parser"
	"go/printer"
	"go/token"
	"os"
	"path/filepath"
	"sort"
	"strings"
)

// c06Skeleton renders every top-level statement of a function body as normalised
// source text (go/printer, comments dropped, white space collapsed): guards, their
// order, what they return, and the assignments between them.
func c06Skeleton(fset *token.FileSet, fd *ast.FuncDecl) []string {
	var out []string
	for _, st := range fd.Body.List {
		var buf bytes.Buffer
		_ = printer.Fprint(&buf, fset, st)
		out = append(out, strings.Join(strings.Fields(buf.String()), " "))
	}
	return out
}

type c06Fn struct{ file, recv, name string }

// the transition functions whose branch structure the Lean model mirrors
var c06Pinned = []c06Fn{
	{"pkg/channel/machine/append.go", "ChannelState", "ApplyAppendStored"},
	{"pkg/channel/machine/append.go", "ChannelState", "ApplyQuorumCommitted"},
	{"pkg/channel/machine/append.go", "ChannelState", "ApplyFollowerAck"},
	{"pkg/channel/machine/append.go", "ChannelState", "matchesInflightFence"},
	{"pkg/channel/machine/append.go", "ChannelState", "failInflightAppend"},
	{"pkg/channel/machine/append.go", "ChannelState", "assignInflightRecordsToWaiters"},
	{"pkg/channel/machine/append.go", "ChannelState", "completeAppendWaiters"},
	{"pkg/channel/machine/meta.go", "ChannelState", "ValidateMeta"},
	{"pkg/channel/machine/meta.go", "ChannelState", "shouldClearAppendStateForMeta"},
	{"pkg/channel/machine/progress.go", "ChannelState", "AdvanceHW"},
	{"pkg/channel/reactor/quorum_runtime.go", "Reactor", "handleQuorumInstallResult"},
}

func init() { register("C06", extractC06) }

type c06Site struct {
	file, fn, arg, guard string
}

// c06Guard looks, among the statements of body that end before pos, for
//   if <... || > ARG > rc.state.LEO <|| ...> { ...; return ... }      -> "gt"
//   if <... || > ARG != rc.state.LEO <|| ...> { ...; return ... }     -> "ne"
// where the if statement is a direct child of the function body.
func c06Guard(body *ast.BlockStmt, pos token.Pos, arg string) string {
	guard := "none"
	for _, st := range body.List {
		if st.End() > pos {
			break
		}
		ifs, ok := st.(*ast.IfStmt)
		if !ok || ifs.Init != nil || len(ifs.Body.List) == 0 {
			continue
		}
		if _, ok := ifs.Body.List[len(ifs.Body.List)-1].(*ast.ReturnStmt); !ok {
			continue
		}
		var disj func(e ast.Expr)
		disj = func(e ast.Expr) {
			switch x := e.(type) {
			case *ast.ParenExpr:
				disj(x.X)
			case *ast.BinaryExpr:
				if x.Op == token.LOR {
					disj(x.X)
					disj(x.Y)
					return
				}
				if exprText(x.X) == arg && exprText(x.Y) == "rc.state.LEO" {
					switch x.Op {
					case token.GTR:
						guard = "gt"
					case token.NEQ:
						if guard != "gt" {
							guard = "ne"
						}
					}
				}
			}
		}
		disj(ifs.Cond)
	}
	return guard
}

func extractC06(repo string) (string, error) {
	root := filepath.Join(repo, "pkg", "channel")
	var sites []c06Site
	err := filepath.Walk(root, func(path string, info os.FileInfo, err error) error {
		if err != nil {
			return err
		}
		if info.IsDir() || !strings.HasSuffix(path, ".go") || strings.HasSuffix(path, "_test.go") {
			return nil
		}
		fset := token.NewFileSet()
		f, err := parser.ParseFile(fset, path, nil, 0)
		if err != nil {
			return err
		}
		rel, _ := filepath.Rel(repo, path)
		for _, d := range f.Decls {
			fd, ok := d.(*ast.FuncDecl)
			if !ok || fd.Body == nil {
				continue
			}
			ast.Inspect(fd.Body, func(n ast.Node) bool {
				c, ok := n.(*ast.CallExpr)
				if !ok {
					return true
				}
				sel, ok := c.Fun.(*ast.SelectorExpr)
				if !ok || sel.Sel.Name != "ApplyFollowerAck" {
					return true
				}
				arg := "?"
				if len(c.Args) == 1 {
					if cl, ok := c.Args[0].(*ast.CompositeLit); ok {
						for _, el := range cl.Elts {
							if kv, ok := el.(*ast.KeyValueExpr); ok && exprText(kv.Key) == "MatchOffset" {
								arg = exprText(kv.Value)
							}
						}
					}
				}
				sites = append(sites, c06Site{file: filepath.ToSlash(rel), fn: fd.Name.Name, arg: arg,
					guard: c06Guard(fd.Body, c.Pos(), arg)})
				return true
			})
		}
		return nil
	})
	if err != nil {
		return "", err
	}
	if len(sites) == 0 {
		return "", fmt.Errorf("no call of ApplyFollowerAck found under pkg/channel")
	}
	sort.Slice(sites, func(i, j int) bool {
		if sites[i].file != sites[j].file {
			return sites[i].file < sites[j].file
		}
		if sites[i].fn != sites[j].fn {
			return sites[i].fn < sites[j].fn
		}
		return sites[i].arg < sites[j].arg
	})
	var b strings.Builder
	b.WriteString("namespace WK.Gen.C06\n\n")
	b.WriteString("/-- one non-test call of `ApplyFollowerAck` under pkg/channel: file, enclosing function, the Go text of the\n    MatchOffset argument, and the dominating rejection on that same value (`gt`: `arg > rc.state.LEO`,\n    `ne`: `arg != rc.state.LEO`, `none`) -/\n")
	b.WriteString("structure AckSite where\n  file : String\n  fn : String\n  arg : String\n  guard : String\n  deriving DecidableEq, Repr\n\n")
	b.WriteString("def ackSites : List AckSite := [\n")
	for i, s := range sites {
		sep := ","
		if i == len(sites)-1 {
			sep = ""
		}
		fmt.Fprintf(&b, "  ⟨%s, %s, %s, %s⟩%s\n", leanStr(s.file), leanStr(s.fn), leanStr(s.arg), leanStr(s.guard), sep)
	}
	b.WriteString("]\n\n")
	b.WriteString("/-- (function, its top-level statements as normalised Go source) for the transition functions the model mirrors -/\n")
	b.WriteString("def skeleton : List (String × List String) := [\n")
	for i, fn := range c06Pinned {
		fset := token.NewFileSet()
		f, err := parser.ParseFile(fset, filepath.Join(repo, fn.file), nil, 0)
		if err != nil {
			return "", err
		}
		fd := findMethod(f, fn.recv, fn.name)
		if fd == nil || fd.Body == nil {
			return "", fmt.Errorf("%s: method %s.%s not found", fn.file, fn.recv, fn.name)
		}
		fmt.Fprintf(&b, "  (%s, [\n", leanStr(fn.name))
		sk := c06Skeleton(fset, fd)
		for j, line := range sk {
			sep := ","
			if j == len(sk)-1 {
				sep = ""
			}
			fmt.Fprintf(&b, "    %s%s\n", leanStr(line), sep)
		}
		sep := ","
		if i == len(c06Pinned)-1 {
			sep = ""
		}
		fmt.Fprintf(&b, "  ])%s\n", sep)
	}
	b.WriteString("]\n\n")
	// the only statement of handleStoreCheckpointResult that writes ChannelState
	{
		fset := token.NewFileSet()
		f, err := parser.ParseFile(fset, filepath.Join(repo, "pkg/channel/reactor/lifecycle_runtime.go"), nil, 0)
		if err != nil {
			return "", err
		}
		fd := findMethod(f, "Reactor", "handleStoreCheckpointResult")
		if fd == nil {
			return "", fmt.Errorf("handleStoreCheckpointResult not found")
		}
		var writes []string
		for _, line := range c06Skeleton(fset, fd) {
			if strings.Contains(line, "rc.state.CheckpointHW =") || strings.Contains(line, "rc.state.HW =") || strings.Contains(line, "rc.state.LEO =") {
				writes = append(writes, line)
			}
		}
		b.WriteString("/-- the top-level statements of handleStoreCheckpointResult that assign LEO / HW / CheckpointHW -/\ndef checkpointResultWrites : List String := [\n")
		for j, line := range writes {
			sep := ","
			if j == len(writes)-1 {
				sep = ""
			}
			fmt.Fprintf(&b, "  %s%s\n", leanStr(line), sep)
		}
		b.WriteString("]\n\n")
	}
	b.WriteString("end WK.Gen.C06\n")
	return b.String(), nil
}

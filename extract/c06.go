package main

// C06 — T tie: every call of (*machine.ChannelState).ApplyFollowerAck outside the
// machine package, with the guard that dominates it.  The Lean model's three ack
// entry points (reactorAck / reactorStoppedAck / reactorPullAck) are exactly
// these call sites; a new unguarded call site, a removed guard or a changed
// comparison operator changes the generated list and breaks
// WK.C06.c06_ack_call_sites_guarded.

import (
	"fmt"
	"go/ast"
	"go/parser"
	"go/token"
	"os"
	"path/filepath"
	"sort"
	"strings"
)

func init() { register("C06", extractC06) }

type c06Site struct {
	file, fn, arg, guard string
}

// c06Guard looks, among the statements of body that end before pos, for
//   if <... || > ARG > rc.state.LEO <|| ...> { ...; return ... }      -> "gt"
//   if <... || > ARG != rc.state.LEO <|| ...> { ...; return ... }     -> "ne"
// where the if statement is a direct child of the function body.
func c06Guard(body *ast.BlockStmt, pos token.Pos, arg string) string {
	guard := "none"
	for _, st := range body.List {
		if st.End() > pos {
			break
		}
		ifs, ok := st.(*ast.IfStmt)
		if !ok || ifs.Init != nil || len(ifs.Body.List) == 0 {
			continue
		}
		if _, ok := ifs.Body.List[len(ifs.Body.List)-1].(*ast.ReturnStmt); !ok {
			continue
		}
		var disj func(e ast.Expr)
		disj = func(e ast.Expr) {
			switch x := e.(type) {
			case *ast.ParenExpr:
				disj(x.X)
			case *ast.BinaryExpr:
				if x.Op == token.LOR {
					disj(x.X)
					disj(x.Y)
					return
				}
				if exprText(x.X) == arg && exprText(x.Y) == "rc.state.LEO" {
					switch x.Op {
					case token.GTR:
						guard = "gt"
					case token.NEQ:
						if guard != "gt" {
							guard = "ne"
						}
					}
				}
			}
		}
		disj(ifs.Cond)
	}
	return guard
}

func extractC06(repo string) (string, error) {
	root := filepath.Join(repo, "pkg", "channel")
	var sites []c06Site
	err := filepath.Walk(root, func(path string, info os.FileInfo, err error) error {
		if err != nil {
			return err
		}
		if info.IsDir() || !strings.HasSuffix(path, ".go") || strings.HasSuffix(path, "_test.go") {
			return nil
		}
		fset := token.NewFileSet()
		f, err := parser.ParseFile(fset, path, nil, 0)
		if err != nil {
			return err
		}
		rel, _ := filepath.Rel(repo, path)
		for _, d := range f.Decls {
			fd, ok := d.(*ast.FuncDecl)
			if !ok || fd.Body == nil {
				continue
			}
			ast.Inspect(fd.Body, func(n ast.Node) bool {
				c, ok := n.(*ast.CallExpr)
				if !ok {
					return true
				}
				sel, ok := c.Fun.(*ast.SelectorExpr)
				if !ok || sel.Sel.Name != "ApplyFollowerAck" {
					return true
				}
				arg := "?"
				if len(c.Args) == 1 {
					if cl, ok := c.Args[0].(*ast.CompositeLit); ok {
						for _, el := range cl.Elts {
							if kv, ok := el.(*ast.KeyValueExpr); ok && exprText(kv.Key) == "MatchOffset" {
								arg = exprText(kv.Value)
							}
						}
					}
				}
				sites = append(sites, c06Site{file: filepath.ToSlash(rel), fn: fd.Name.Name, arg: arg,
					guard: c06Guard(fd.Body, c.Pos(), arg)})
				return true
			})
		}
		return nil
	})
	if err != nil {
		return "", err
	}
	if len(sites) == 0 {
		return "", fmt.Errorf("no call of ApplyFollowerAck found under pkg/channel")
	}
	sort.Slice(sites, func(i, j int) bool {
		if sites[i].file != sites[j].file {
			return sites[i].file < sites[j].file
		}
		if sites[i].fn != sites[j].fn {
			return sites[i].fn < sites[j].fn
		}
		return sites[i].arg < sites[j].arg
	})
	var b strings.Builder
	b.WriteString("namespace WK.Gen.C06\n\n")
	b.WriteString("/-- one non-test call of `ApplyFollowerAck` under pkg/channel: file, enclosing function, the Go text of the\n    MatchOffset argument, and the dominating rejection on that same value (`gt`: `arg > rc.state.LEO`,\n    `ne`: `arg != rc.state.LEO`, `none`) -/\n")
	b.WriteString("structure AckSite where\n  file : String\n  fn : String\n  arg : String\n  guard : String\n  deriving DecidableEq, Repr\n\n")
	b.WriteString("def ackSites : List AckSite := [\n")
	for i, s := range sites {
		sep := ","
		if i == len(sites)-1 {
			sep = ""
		}
		fmt.Fprintf(&b, "  ⟨%s, %s, %s, %s⟩%s\n", leanStr(s.file), leanStr(s.fn), leanStr(s.arg), leanStr(s.guard), sep)
	}
	b.WriteString("]\n\nend WK.Gen.C06\n")
	return b.String(), nil
}

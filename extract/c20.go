package main

import (
	"fmt"
	"go/ast"
	"go/token"
	"strings"
)

func init() { register("C20", extractC20) }

// extractC20 regenerates lean/WK/Gen/C20.lean: the guards, loop conditions, selection
// predicates and wire-format constants of pkg/hashslot as text facts.  The theorems
// in WK/Theorems/C20.lean state that they are the ones the hand model mirrors, so an
// edited guard / comparison / constant breaks a proof before the differential run.
func extractC20(repo string) (string, error) {
	var b strings.Builder
	b.WriteString("namespace WK.Gen.C20\n\n")
	writeList := func(doc, name string, l []string) {
		q := make([]string, len(l))
		for i, s := range l {
			q[i] = leanStr(s)
		}
		fmt.Fprintf(&b, "/-- %s -/\ndef %s : List String := [%s]\n\n", doc, name, strings.Join(q, ",\n  "))
	}
	// every `if` condition (in source order, nested included) and every `for` condition of a function
	conds := func(fd *ast.FuncDecl) []string {
		var out []string
		ast.Inspect(fd.Body, func(n ast.Node) bool {
			switch x := n.(type) {
			case *ast.IfStmt:
				out = append(out, "if "+exprText(x.Cond))
			case *ast.ForStmt:
				if x.Cond != nil && x.Init == nil {
					out = append(out, "for "+exprText(x.Cond))
				} else if x.Cond == nil && x.Init == nil {
					out = append(out, "for")
				}
			case *ast.IncDecStmt:
				out = append(out, exprText(x.X)+x.Tok.String())
			case *ast.FuncLit:
				return false
			}
			return true
		})
		return out
	}

	_, tf, err := parseFile(repo, "pkg/hashslot/hashslottable.go")
	if err != nil {
		return "", err
	}
	for _, m := range []string{"Lookup", "Reassign", "StartMigration", "AdvanceMigration", "FinalizeMigration", "AbortMigration"} {
		fd := findMethod(tf, "HashSlotTable", m)
		if fd == nil {
			return "", fmt.Errorf("HashSlotTable.%s not found", m)
		}
		writeList("guards and counters of HashSlotTable."+m, "table"+m, conds(fd))
	}
	// constants
	consts := map[string]string{}
	for _, d := range tf.Decls {
		gd, ok := d.(*ast.GenDecl)
		if !ok || gd.Tok != token.CONST {
			continue
		}
		for i, sp := range gd.Specs {
			vs := sp.(*ast.ValueSpec)
			for _, n := range vs.Names {
				if len(vs.Values) == 1 {
					consts[n.Name] = exprText(vs.Values[0])
				} else {
					consts[n.Name] = fmt.Sprintf("iota+%d", i)
				}
			}
		}
	}
	ast.Inspect(tf, func(n ast.Node) bool {
		if ds, ok := n.(*ast.DeclStmt); ok {
			if gd, ok := ds.Decl.(*ast.GenDecl); ok && gd.Tok == token.CONST {
				for _, sp := range gd.Specs {
					vs := sp.(*ast.ValueSpec)
					if len(vs.Values) == 1 {
						consts[vs.Names[0].Name] = exprText(vs.Values[0])
					}
				}
			}
		}
		return true
	})
	var cl []string
	for _, k := range []string{"hashSlotTableEncodingVersion", "PhaseSnapshot", "PhaseDelta", "PhaseSwitching", "PhaseDone", "headerSize", "migrationRecordSize"} {
		v, ok := consts[k]
		if !ok {
			return "", fmt.Errorf("constant %s not found", k)
		}
		cl = append(cl, k+"="+v)
	}
	writeList("wire-format and phase constants", "constants", cl)
	fd := findFunc(tf, "DecodeHashSlotTable")
	if fd == nil {
		return "", fmt.Errorf("DecodeHashSlotTable not found")
	}
	writeList("length and version checks of DecodeHashSlotTable", "decodeGuards", conds(fd))

	_, rf, err := parseFile(repo, "pkg/hashslot/rebalancer.go")
	if err != nil {
		return "", err
	}
	for _, fn := range []string{"ComputeAddSlotPlan", "ComputeRemoveSlotPlan", "ComputeRebalancePlan",
		"selectLargestSurplusSlot", "selectSmallestDeficitSlot", "popOwnedHashSlot", "idealSlotCounts"} {
		fd := findFunc(rf, fn)
		if fd == nil {
			return "", fmt.Errorf("%s not found", fn)
		}
		writeList("conditions and counters of "+fn, "plan"+strings.ToUpper(fn[:1])+fn[1:], conds(fd))
	}
	for _, x := range [][2]string{{"selectLargestSurplusSlot", "selL"}, {"selectSmallestDeficitSlot", "selS"}} {
		t, err := c20Select(rf, x[0], x[1])
		if err != nil {
			return "", err
		}
		b.WriteString(t)
	}
	pt, err := c20Pop(rf)
	if err != nil {
		return "", err
	}
	b.WriteString(pt)
	b.WriteString("end WK.Gen.C20\n")
	return b.String(), nil
}

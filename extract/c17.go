package main

import (
	"fmt"
	"go/ast"
	"go/token"
	"os"
	"path/filepath"
	"regexp"
	"strings"
)

// C17 — guard facts read from pkg/db/meta/compat_channel_migration_helpers.go:
// do the two request validators compare the task guard's channel (ChannelID AND
// ChannelType) with the runtime guard's channel?  (The executable model takes the answer as a
// parameter, so the same model follows the code before and after that check
// is added; the theorems say what holds in either case.)
func init() { register("C17", extractC17) }

var c17TypeCmp = regexp.MustCompile(`(?i)guard\.ChannelType\s*!=\s*(req\.)?runtimeGuard\.ChannelType|runtimeGuard\.ChannelType\s*!=\s*(req\.)?guard\.ChannelType`)

var c17ChanCmp = regexp.MustCompile(`(?i)guard\.ChannelID\s*!=\s*(req\.)?runtimeGuard\.ChannelID|runtimeGuard\.ChannelID\s*!=\s*(req\.)?guard\.ChannelID`)

func c17FuncText(repo, rel, name string) (string, error) {
	fset, f, err := parseFile(repo, rel)
	if err != nil {
		return "", err
	}
	fd := findFunc(f, name)
	if fd == nil || fd.Body == nil {
		return "", fmt.Errorf("%s: function %s not found", rel, name)
	}
	src, err := os.ReadFile(filepath.Join(repo, rel))
	if err != nil {
		return "", err
	}
	// the check must be an `if … { return …ErrInvalidArgument }` directly in the function body
	var hit bool
	for _, st := range fd.Body.List {
		ifs, ok := st.(*ast.IfStmt)
		if !ok || ifs.Init != nil {
			continue
		}
		cond := string(src[fset.Position(ifs.Cond.Pos()).Offset:fset.Position(ifs.Cond.End()).Offset])
		// a channel is (ChannelID, ChannelType): BOTH comparisons must be in the condition
		if !c17ChanCmp.MatchString(cond) || !c17TypeCmp.MatchString(cond) || !strings.Contains(cond, "||") {
			continue
		}
		if len(ifs.Body.List) == 1 {
			if r, ok := ifs.Body.List[0].(*ast.ReturnStmt); ok && len(r.Results) == 1 && strings.HasSuffix(exprText(r.Results[0]), "ErrInvalidArgument") {
				hit = true
			}
		}
		if !hit {
			return "", fmt.Errorf("%s: %s compares the guard channels but does not `return …ErrInvalidArgument`", rel, name)
		}
	}
	_ = token.NoPos
	if hit {
		return "true", nil
	}
	return "false", nil
}

func extractC17(repo string) (string, error) {
	const rel = "pkg/db/meta/compat_channel_migration_helpers.go"
	a, err := c17FuncText(repo, rel, "validateChannelMigrationTaskRuntimeTransition")
	if err != nil {
		return "", err
	}
	b, err := c17FuncText(repo, rel, "validateChannelMigrationFenceRequest")
	if err != nil {
		return "", err
	}
	var sb strings.Builder
	sb.WriteString("namespace WK.Gen.C17\n\n")
	sb.WriteString("/-- validateChannelMigrationTaskRuntimeTransition returns ErrInvalidArgument when the task guard and the\n    runtime guard name different channels (ChannelID or ChannelType differ) -/\n")
	fmt.Fprintf(&sb, "def transitionChecksGuardChannel : Bool := %s\n\n", a)
	sb.WriteString("/-- validateChannelMigrationFenceRequest does the same -/\n")
	fmt.Fprintf(&sb, "def fenceRequestChecksGuardChannel : Bool := %s\n\n", b)
	sb.WriteString("end WK.Gen.C17\n")
	return sb.String(), nil
}

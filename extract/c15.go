package main

import (
	"fmt"
	"go/ast"
	"go/token"
	"strings"
)

func init() { register("C15", extractC15) }

// extractC15 regenerates lean/WK/Gen/C15.lean from pkg/db/meta/table_runtime_meta.go:
//   * routeChangedFields: the fields runtimeRouteChanged compares (a.F != b.F / !slices.Equal(a.F, b.F)),
//   * preservedFields:    the candidate fields preserveRuntimeMetaState may overwrite from `existing`,
//   * nextRG:             nextChannelRouteGeneration translated to BitVec 64,
//   * resolveCases:       the case conditions of resolveMonotonicChannelRuntimeMeta's switch, in order.
func extractC15(repo string) (string, error) {
	_, f, err := parseFile(repo, "pkg/db/meta/table_runtime_meta.go")
	if err != nil {
		return "", err
	}
	var b strings.Builder
	b.WriteString("namespace WK.Gen.C15\n\n")

	// 1. runtimeRouteChanged: a single `return x || y || ...`
	fd := findFunc(f, "runtimeRouteChanged")
	if fd == nil || len(fd.Body.List) != 1 {
		return "", fmt.Errorf("runtimeRouteChanged: not a single return statement")
	}
	ret, ok := fd.Body.List[0].(*ast.ReturnStmt)
	if !ok || len(ret.Results) != 1 {
		return "", fmt.Errorf("runtimeRouteChanged: not a single return statement")
	}
	pa, pb := fd.Type.Params.List[0].Names[0].Name, fd.Type.Params.List[0].Names[1].Name
	var fields []string
	var walk func(e ast.Expr) error
	walk = func(e ast.Expr) error {
		switch x := e.(type) {
		case *ast.ParenExpr:
			return walk(x.X)
		case *ast.BinaryExpr:
			if x.Op == token.LOR {
				if err := walk(x.X); err != nil {
					return err
				}
				return walk(x.Y)
			}
			if x.Op == token.NEQ {
				l, r := exprText(x.X), exprText(x.Y)
				if strings.HasPrefix(l, pa+".") && strings.HasPrefix(r, pb+".") && l[len(pa):] == r[len(pb):] {
					fields = append(fields, l[len(pa)+1:])
					return nil
				}
			}
		case *ast.UnaryExpr:
			if x.Op == token.NOT {
				if c, ok := x.X.(*ast.CallExpr); ok && exprText(c.Fun) == "slices.Equal" && len(c.Args) == 2 {
					l, r := exprText(c.Args[0]), exprText(c.Args[1])
					if strings.HasPrefix(l, pa+".") && strings.HasPrefix(r, pb+".") && l[len(pa):] == r[len(pb):] {
						fields = append(fields, l[len(pa)+1:])
						return nil
					}
				}
			}
		}
		return fmt.Errorf("runtimeRouteChanged: unsupported disjunct %s", exprText(e))
	}
	if err := walk(ret.Results[0]); err != nil {
		return "", err
	}
	writeList := func(name string, l []string) {
		q := make([]string, len(l))
		for i, s := range l {
			q[i] = leanStr(s)
		}
		fmt.Fprintf(&b, "def %s : List String := [%s]\n\n", name, strings.Join(q, ", "))
	}
	b.WriteString("/-- fields compared by runtimeRouteChanged -/\n")
	writeList("routeChangedFields", fields)

	// 2. preserveRuntimeMetaState: every `candidate.F = existing.F` assignment, with its guard text
	fd = findFunc(f, "preserveRuntimeMetaState")
	if fd == nil {
		return "", fmt.Errorf("preserveRuntimeMetaState not found")
	}
	var preserved, guards []string
	for _, st := range fd.Body.List {
		ifs, ok := st.(*ast.IfStmt)
		if !ok || ifs.Else != nil || ifs.Init != nil {
			return "", fmt.Errorf("preserveRuntimeMetaState: statement is not a plain if")
		}
		guards = append(guards, exprText(ifs.Cond))
		for _, s := range ifs.Body.List {
			as, ok := s.(*ast.AssignStmt)
			if !ok || as.Tok != token.ASSIGN || len(as.Lhs) != 1 {
				return "", fmt.Errorf("preserveRuntimeMetaState: body is not a list of assignments")
			}
			l, r := exprText(as.Lhs[0]), exprText(as.Rhs[0])
			if !strings.HasPrefix(l, "candidate.") || r != "existing."+l[len("candidate."):] {
				return "", fmt.Errorf("preserveRuntimeMetaState: unexpected assignment %s = %s", l, r)
			}
			preserved = append(preserved, l[len("candidate."):])
		}
	}
	b.WriteString("/-- candidate fields preserveRuntimeMetaState may take from the stored row -/\n")
	writeList("preservedFields", preserved)
	b.WriteString("/-- the guards of preserveRuntimeMetaState, in order -/\n")
	writeList("preserveGuards", guards)

	// 3. nextChannelRouteGeneration
	fd = findFunc(f, "nextChannelRouteGeneration")
	if fd == nil || len(fd.Body.List) != 2 {
		return "", fmt.Errorf("nextChannelRouteGeneration: want `if c { return x }; return y`")
	}
	cur := fd.Type.Params.List[0].Names[0].Name
	ifs, ok := fd.Body.List[0].(*ast.IfStmt)
	if !ok || ifs.Else != nil || len(ifs.Body.List) != 1 {
		return "", fmt.Errorf("nextChannelRouteGeneration: first statement is not a plain if")
	}
	cond, ok := ifs.Cond.(*ast.BinaryExpr)
	if !ok || cond.Op != token.EQL {
		return "", fmt.Errorf("nextChannelRouteGeneration: condition is not an equality")
	}
	env := &xenv{vars: map[string]ty{cur: tU64}}
	cl, _, err := env.xlate(cond.X, tU64)
	if err != nil {
		return "", err
	}
	cr, _, err := env.xlate(cond.Y, tU64)
	if err != nil {
		return "", err
	}
	r1, ok1 := ifs.Body.List[0].(*ast.ReturnStmt)
	r2, ok2 := fd.Body.List[1].(*ast.ReturnStmt)
	if !ok1 || !ok2 || len(r1.Results) != 1 || len(r2.Results) != 1 {
		return "", fmt.Errorf("nextChannelRouteGeneration: returns not found")
	}
	e1, _, err := env.xlate(r1.Results[0], tU64)
	if err != nil {
		return "", err
	}
	e2, _, err := env.xlate(r2.Results[0], tU64)
	if err != nil {
		return "", err
	}
	fmt.Fprintf(&b, "/-- nextChannelRouteGeneration -/\ndef nextRG (%s : BitVec 64) : BitVec 64 :=\n  if %s = %s then %s else %s\n\n", cur, cl, cr, e1, e2)

	// 3b. bumpRuntimeRoute: translated as a function of (hadRG flag, runtimeRouteChanged(existing,candidate),
	// candidate.RouteGeneration, existing.RouteGeneration): a list of `if COND { candidate.RouteGeneration = E }`
	// followed by `return candidate`; nothing else may be assigned.
	fd = findFunc(f, "bumpRuntimeRoute")
	if fd == nil || fd.Type.Params == nil || len(fd.Type.Params.List) != 2 || len(fd.Type.Params.List[0].Names) != 2 || len(fd.Type.Params.List[1].Names) != 1 {
		return "", fmt.Errorf("bumpRuntimeRoute: want (existing, candidate ChannelRuntimeMeta, had bool)")
	}
	bex, bca, bhad := fd.Type.Params.List[0].Names[0].Name, fd.Type.Params.List[0].Names[1].Name, fd.Type.Params.List[1].Names[0].Name
	if exprText(fd.Type.Params.List[1].Type) != "bool" {
		return "", fmt.Errorf("bumpRuntimeRoute: third parameter is not a bool")
	}
	var rgExpr func(e ast.Expr) (string, error)
	rgExpr = func(e ast.Expr) (string, error) {
		switch t := exprText(e); {
		case t == bca+".RouteGeneration":
			return "cRG", nil
		case t == bex+".RouteGeneration":
			return "eRG", nil
		}
		if c, ok := e.(*ast.CallExpr); ok && exprText(c.Fun) == "nextChannelRouteGeneration" && len(c.Args) == 1 {
			a, err := rgExpr(c.Args[0])
			if err != nil {
				return "", err
			}
			return "(nextRG " + a + ")", nil
		}
		if p, ok := e.(*ast.ParenExpr); ok {
			return rgExpr(p.X)
		}
		return "", fmt.Errorf("bumpRuntimeRoute: unsupported route-generation expression %s", exprText(e))
	}
	var boolExpr func(e ast.Expr) (string, error)
	boolExpr = func(e ast.Expr) (string, error) {
		switch x := e.(type) {
		case *ast.ParenExpr:
			return boolExpr(x.X)
		case *ast.Ident:
			if x.Name == bhad {
				return "hadRG", nil
			}
		case *ast.UnaryExpr:
			if x.Op == token.NOT {
				a, err := boolExpr(x.X)
				if err != nil {
					return "", err
				}
				return "(!" + a + ")", nil
			}
		case *ast.CallExpr:
			if exprText(x.Fun) == "runtimeRouteChanged" && len(x.Args) == 2 && exprText(x.Args[0]) == bex && exprText(x.Args[1]) == bca {
				return "changed", nil
			}
		case *ast.BinaryExpr:
			if x.Op == token.LAND || x.Op == token.LOR {
				l, err := boolExpr(x.X)
				if err != nil {
					return "", err
				}
				r, err := boolExpr(x.Y)
				if err != nil {
					return "", err
				}
				op := " && "
				if x.Op == token.LOR {
					op = " || "
				}
				return "(" + l + op + r + ")", nil
			}
			ops := map[token.Token]string{token.LSS: "<", token.LEQ: "≤", token.GTR: ">", token.GEQ: "≥", token.EQL: "=", token.NEQ: "≠"}
			if o, ok := ops[x.Op]; ok {
				l, err := rgExpr(x.X)
				if err != nil {
					return "", err
				}
				r, err := rgExpr(x.Y)
				if err != nil {
					return "", err
				}
				return "decide (" + l + " " + o + " " + r + ")", nil
			}
		}
		return "", fmt.Errorf("bumpRuntimeRoute: unsupported condition %s", exprText(e))
	}
	if n := len(fd.Body.List); n < 1 {
		return "", fmt.Errorf("bumpRuntimeRoute: empty body")
	}
	var bumpLets []string
	for i, st := range fd.Body.List {
		if i == len(fd.Body.List)-1 {
			r, ok := st.(*ast.ReturnStmt)
			if !ok || len(r.Results) != 1 || exprText(r.Results[0]) != bca {
				return "", fmt.Errorf("bumpRuntimeRoute: does not end in `return %s`", bca)
			}
			break
		}
		ifs, ok := st.(*ast.IfStmt)
		if !ok || ifs.Else != nil || ifs.Init != nil || len(ifs.Body.List) != 1 {
			return "", fmt.Errorf("bumpRuntimeRoute: statement %d is not a plain one-assignment if", i)
		}
		as, ok := ifs.Body.List[0].(*ast.AssignStmt)
		if !ok || as.Tok != token.ASSIGN || len(as.Lhs) != 1 || len(as.Rhs) != 1 || exprText(as.Lhs[0]) != bca+".RouteGeneration" {
			return "", fmt.Errorf("bumpRuntimeRoute: statement %d assigns something other than %s.RouteGeneration", i, bca)
		}
		c, err := boolExpr(ifs.Cond)
		if err != nil {
			return "", err
		}
		v, err := rgExpr(as.Rhs[0])
		if err != nil {
			return "", err
		}
		bumpLets = append(bumpLets, fmt.Sprintf("  let cRG := if %s then %s else cRG\n", c, v))
	}
	b.WriteString("/-- bumpRuntimeRoute as a function of the `candidateHadRouteGeneration` flag, the value of\n    `runtimeRouteChanged(existing, candidate)` and the two route generations; the result is the returned\n    candidate's RouteGeneration (no other field is assigned) -/\n")
	b.WriteString("def bumpRG (hadRG changed : Bool) (cRG eRG : BitVec 64) : BitVec 64 :=\n" + strings.Join(bumpLets, "") + "  cRG\n\n")

	// 4. resolveMonotonicChannelRuntimeMeta: the switch's case conditions and what each returns
	fd = findFunc(f, "resolveMonotonicChannelRuntimeMeta")
	if fd == nil {
		return "", fmt.Errorf("resolveMonotonicChannelRuntimeMeta not found")
	}
	var cases []string
	for _, st := range fd.Body.List {
		sw, ok := st.(*ast.SwitchStmt)
		if !ok || sw.Tag != nil {
			continue
		}
		for _, c := range sw.Body.List {
			cc := c.(*ast.CaseClause)
			if len(cc.List) != 1 || len(cc.Body) == 0 {
				return "", fmt.Errorf("resolve: unexpected case clause")
			}
			last, ok := cc.Body[len(cc.Body)-1].(*ast.ReturnStmt)
			if !ok || len(last.Results) != 2 {
				return "", fmt.Errorf("resolve: case does not end in a two-value return")
			}
			cases = append(cases, exprText(cc.List[0])+" => "+exprText(last.Results[1]))
		}
	}
	if len(cases) == 0 {
		return "", fmt.Errorf("resolve: tag-less switch not found")
	}
	b.WriteString("/-- case conditions of resolveMonotonicChannelRuntimeMeta's switch, in order, with the result each returns -/\n")
	writeList("resolveCases", cases)
	// 5. lock discipline: per mutating Shard method the source-order sequence of lock / row-read / write events
	var order []string
	for _, m := range []string{"UpsertChannelRuntimeMeta", "DeleteChannelRuntimeMeta", "AdvanceChannelRetentionThroughSeq"} {
		fd := findMethod(f, "Shard", m)
		if fd == nil {
			return "", fmt.Errorf("Shard.%s not found", m)
		}
		var ev []string
		ast.Inspect(fd.Body, func(n ast.Node) bool {
			if d, ok := n.(*ast.DeferStmt); ok {
				if exprText(d.Call.Fun) == "unlock" {
					ev = append(ev, "defer-unlock")
				}
				return false
			}
			c, ok := n.(*ast.CallExpr)
			if !ok {
				return true
			}
			switch exprText(c.Fun) {
			case "s.lock":
				ev = append(ev, "lock")
			case "s.getChannelRuntimeMetaByKey", "s.db.get", "s.db.engine.Get", "channelRuntimeMetaTable.Get":
				ev = append(ev, "read")
			case "batch.Commit":
				ev = append(ev, "commit")
			case "unlock":
				ev = append(ev, "unlock")
			}
			return true
		})
		q := make([]string, len(ev))
		for i, e := range ev {
			q[i] = leanStr(e)
		}
		order = append(order, "("+leanStr(m)+", ["+strings.Join(q, ", ")+"])")
	}
	b.WriteString("/-- per mutating Shard method: lock / row read / commit / unlock calls in source order -/\n")
	fmt.Fprintf(&b, "def lockOrder : List (String × List String) := [%s]\n\n", strings.Join(order, ",\n  "))
	b.WriteString("end WK.Gen.C15\n")
	return b.String(), nil
}

package main

// C22 (T tie, part 2): per frame type, the ordered list of field writes / reads /
// size terms with their guards, read from the bodies of encodeX / decodeX /
// encodeXSize in pkg/protocol/codec/*.go, and the loop shape of decodeLength /
// encodeVariable2.  Emitted as `List Item` values (types in
// lean/WK/Model/C22_Layout.lean).  Only a whitelisted statement/expression subset
// is understood; anything else is an error (= broken tie), never a guess.

import (
	"fmt"
	"go/ast"
	"go/token"
	"strconv"
	"strings"
	"unicode"
)

type c22Item struct {
	kind, field string
	guard       []string
}

func (it c22Item) lean() string {
	return fmt.Sprintf("⟨.%s, %q, [%s]⟩", it.kind, it.field, strings.Join(it.guard, ", "))
}

func c22Cap(s string) string {
	r := []rune(s)
	r[0] = unicode.ToUpper(r[0])
	return string(r)
}

// c22Field: the packet field an expression denotes: pkt.F, pkt.F.Method(), T(pkt.F), local ident.
func c22Field(e ast.Expr) (string, error) {
	switch x := e.(type) {
	case *ast.ParenExpr:
		return c22Field(x.X)
	case *ast.SelectorExpr:
		if _, ok := x.X.(*ast.Ident); ok {
			return x.Sel.Name, nil
		}
		return "", fmt.Errorf("unsupported selector %s", exprText(e))
	case *ast.Ident:
		return c22Cap(x.Name), nil
	case *ast.CallExpr:
		if sel, ok := x.Fun.(*ast.SelectorExpr); ok && len(x.Args) == 0 {
			switch sel.Sel.Name {
			case "ToUint8", "Uint8", "Byte":
				return c22Field(sel.X)
			}
		}
		if id, ok := x.Fun.(*ast.Ident); ok && len(x.Args) == 1 {
			switch id.Name {
			case "uint8", "uint32", "uint64", "int64", "int32", "byte":
				return c22Field(x.Args[0])
			}
		}
	}
	return "", fmt.Errorf("unsupported field expression %s", exprText(e))
}

// c22Guard: a condition as a conjunction of atoms.
func c22Guard(e ast.Expr) ([]string, error) {
	switch x := e.(type) {
	case *ast.ParenExpr:
		return c22Guard(x.X)
	case *ast.BinaryExpr:
		if x.Op == token.LAND {
			a, err := c22Guard(x.X)
			if err != nil {
				return nil, err
			}
			b, err := c22Guard(x.Y)
			if err != nil {
				return nil, err
			}
			return append(a, b...), nil
		}
		if id, ok := x.X.(*ast.Ident); ok && id.Name == "version" {
			lit, ok := x.Y.(*ast.BasicLit)
			if !ok {
				return nil, fmt.Errorf("version compared with non-literal: %s", exprText(e))
			}
			n, err := strconv.Atoi(lit.Value)
			if err != nil {
				return nil, err
			}
			switch x.Op {
			case token.LSS:
				return []string{fmt.Sprintf(".vLt %d", n)}, nil
			case token.LEQ:
				return []string{fmt.Sprintf(".vLt %d", n+1)}, nil
			case token.GEQ:
				return []string{fmt.Sprintf(".vGe %d", n)}, nil
			case token.GTR:
				return []string{fmt.Sprintf(".vGe %d", n+1)}, nil
			}
		}
		// pkt.F != ""
		if x.Op == token.NEQ {
			if lit, ok := x.Y.(*ast.BasicLit); ok && lit.Value == `""` {
				f, err := c22Field(x.X)
				if err != nil {
					return nil, err
				}
				return []string{fmt.Sprintf(".nonEmpty %q", f)}, nil
			}
		}
		// dec.Len() > 0
		if x.Op == token.GTR && exprText(x.X) == "dec.Len()" && exprText(x.Y) == "0" {
			return []string{".lenPos"}, nil
		}
	case *ast.CallExpr:
		if sel, ok := x.Fun.(*ast.SelectorExpr); ok {
			if sel.Sel.Name == "GetHasServerVersion" && len(x.Args) == 0 {
				return []string{".hsv"}, nil
			}
			if sel.Sel.Name == "IsSet" && len(x.Args) == 1 {
				if inner, ok := sel.X.(*ast.SelectorExpr); !ok || inner.Sel.Name != "Setting" {
					return nil, fmt.Errorf("IsSet on something that is not .Setting: %s", exprText(e))
				}
				switch exprText(x.Args[0]) {
				case "frame.SettingStream":
					return []string{".stream"}, nil
				case "frame.SettingTopic":
					return []string{".topic"}, nil
				}
			}
		}
	}
	return nil, fmt.Errorf("unsupported guard %s", exprText(e))
}

var c22WriteKinds = map[string]string{"WriteUint8": "u8", "WriteByte": "u8", "WriteUint32": "u32", "WriteInt32": "u32",
	"WriteUint64": "u64", "WriteInt64": "u64", "WriteString": "str", "WriteBinary": "str", "WriteBytes": "bytes"}

var c22ReadKinds = map[string]string{"Uint8": "u8", "Uint32": "u32", "Int32": "u32", "Uint64": "u64", "Int64": "u64",
	"String": "str", "Binary": "str", "BinaryAll": "bytes"}

// enc.WriteX(arg) -> item
func c22WriteCall(e ast.Expr, guard []string) (*c22Item, error) {
	call, ok := e.(*ast.CallExpr)
	if !ok {
		return nil, fmt.Errorf("not a call: %s", exprText(e))
	}
	sel, ok := call.Fun.(*ast.SelectorExpr)
	if !ok || exprText(sel.X) != "enc" || len(call.Args) != 1 {
		return nil, fmt.Errorf("unsupported call %s", exprText(e))
	}
	k, ok := c22WriteKinds[sel.Sel.Name]
	if !ok {
		return nil, fmt.Errorf("unknown encoder method %s", sel.Sel.Name)
	}
	f, err := c22Field(call.Args[0])
	if err != nil {
		return nil, err
	}
	return &c22Item{k, f, append([]string(nil), guard...)}, nil
}

func c22IsSeqCall(e ast.Expr, fn string) (ast.Expr, bool) {
	call, ok := e.(*ast.CallExpr)
	if !ok {
		return nil, false
	}
	id, ok := call.Fun.(*ast.Ident)
	if !ok || id.Name != fn {
		return nil, false
	}
	if fn == "encodeMessageSeq" && len(call.Args) == 3 && exprText(call.Args[0]) == "enc" && exprText(call.Args[1]) == "version" {
		return call.Args[2], true
	}
	if fn == "decodeMessageSeq" && len(call.Args) == 2 && exprText(call.Args[0]) == "dec" && exprText(call.Args[1]) == "version" {
		return nil, true
	}
	return nil, false
}

func c22EncodeStmts(stmts []ast.Stmt, guard []string, out *[]c22Item) error {
	for _, st := range stmts {
		switch s := st.(type) {
		case *ast.ExprStmt:
			it, err := c22WriteCall(s.X, guard)
			if err != nil {
				return err
			}
			*out = append(*out, *it)
		case *ast.AssignStmt: // _ = enc.WriteByte(x)
			if len(s.Lhs) == 1 && exprText(s.Lhs[0]) == "_" && len(s.Rhs) == 1 {
				it, err := c22WriteCall(s.Rhs[0], guard)
				if err != nil {
					return err
				}
				*out = append(*out, *it)
				continue
			}
			return fmt.Errorf("unsupported assignment in encoder")
		case *ast.IfStmt:
			if s.Else != nil {
				return fmt.Errorf("else branch in encoder")
			}
			if s.Init != nil { // if err := encodeMessageSeq(enc, version, X); err != nil { return err }
				as, ok := s.Init.(*ast.AssignStmt)
				if !ok || len(as.Rhs) != 1 {
					return fmt.Errorf("unsupported if-init in encoder")
				}
				arg, ok := c22IsSeqCall(as.Rhs[0], "encodeMessageSeq")
				if !ok || exprText(s.Cond) != "err!=nil" {
					return fmt.Errorf("unsupported if-init in encoder: %s", exprText(as.Rhs[0]))
				}
				f, err := c22Field(arg)
				if err != nil {
					return err
				}
				*out = append(*out, c22Item{"seq", f, append([]string(nil), guard...)})
				continue
			}
			g, err := c22Guard(s.Cond)
			if err != nil {
				return err
			}
			if err := c22EncodeStmts(s.Body.List, append(append([]string(nil), guard...), g...), out); err != nil {
				return err
			}
		case *ast.ReturnStmt:
			if len(s.Results) == 1 {
				if exprText(s.Results[0]) == "nil" {
					continue
				}
				if arg, ok := c22IsSeqCall(s.Results[0], "encodeMessageSeq"); ok {
					f, err := c22Field(arg)
					if err != nil {
						return err
					}
					*out = append(*out, c22Item{"seq", f, append([]string(nil), guard...)})
					continue
				}
			}
			return fmt.Errorf("unsupported return in encoder")
		default:
			return fmt.Errorf("unsupported statement %T in encoder", st)
		}
	}
	return nil
}

// dec.M() or decodeMessageSeq(dec, version) -> kind
func c22ReadKind(e ast.Expr) (string, bool) {
	if _, ok := c22IsSeqCall(e, "decodeMessageSeq"); ok {
		return "seq", true
	}
	call, ok := e.(*ast.CallExpr)
	if !ok || len(call.Args) != 0 {
		return "", false
	}
	sel, ok := call.Fun.(*ast.SelectorExpr)
	if !ok || exprText(sel.X) != "dec" {
		return "", false
	}
	k, ok := c22ReadKinds[sel.Sel.Name]
	return k, ok
}

func c22DecodeStmts(stmts []ast.Stmt, guard []string, out *[]c22Item) error {
	for _, st := range stmts {
		switch s := st.(type) {
		case *ast.DeclStmt:
			continue
		case *ast.AssignStmt:
			// X, err := dec.M()   |   X, err = dec.M()
			if len(s.Lhs) == 2 && len(s.Rhs) == 1 && exprText(s.Lhs[1]) == "err" {
				if k, ok := c22ReadKind(s.Rhs[0]); ok {
					f, err := c22Field(s.Lhs[0])
					if err != nil {
						return err
					}
					*out = append(*out, c22Item{k, f, append([]string(nil), guard...)})
					continue
				}
			}
			// decodeSendackBody(body, version): the rest of the body is handed to the two-layout decoder
			if len(s.Rhs) == 1 && strings.HasPrefix(exprText(s.Rhs[0]), "decodeSendackBody(") {
				*out = append(*out, c22Item{"bytes", "SendackBody", append([]string(nil), guard...)})
				continue
			}
			// plumbing: dec := NewDecoder(data); pkt := &frame.X{}; pkt.Framer = …; pkt.F = conv(local); local := ""
			if len(s.Rhs) == 1 {
				if u, ok := s.Rhs[0].(*ast.UnaryExpr); ok && u.Op == token.AND {
					if _, ok := u.X.(*ast.CompositeLit); ok {
						continue // pkt := &frame.XPacket{}
					}
				}
				if _, ok := s.Rhs[0].(*ast.TypeAssertExpr); ok {
					continue // pkt.Framer = f.(frame.Framer)
				}
				r := exprText(s.Rhs[0])
				if strings.HasPrefix(r, "NewDecoder(") || strings.HasPrefix(r, "&frame.") || strings.HasPrefix(r, "f.(frame.Framer)") || r == `""` {
					continue
				}
				if _, err := c22Field(s.Rhs[0]); err == nil { // copy of an already-read local into the packet
					if _, ok := s.Rhs[0].(*ast.CallExpr); ok || isIdent(s.Rhs[0]) {
						continue
					}
				}
				if call, ok := s.Rhs[0].(*ast.CallExpr); ok { // frame.Setting(setting), frame.ReasonCode(reasonCode) …
					if len(call.Args) == 1 && isIdent(call.Args[0]) && strings.HasPrefix(exprText(call.Fun), "frame.") {
						continue
					}
				}
			}
			return fmt.Errorf("unsupported assignment in decoder: %s", exprText(s.Rhs[0]))
		case *ast.IfStmt:
			if s.Else != nil {
				return fmt.Errorf("else branch in decoder")
			}
			cond := exprText(s.Cond)
			if s.Init != nil { // if X, err = dec.M(); err != nil { return … }
				as, ok := s.Init.(*ast.AssignStmt)
				if !ok || len(as.Lhs) != 2 || len(as.Rhs) != 1 || cond != "err!=nil" {
					return fmt.Errorf("unsupported if-init in decoder")
				}
				k, ok := c22ReadKind(as.Rhs[0])
				if !ok {
					return fmt.Errorf("unsupported read %s", exprText(as.Rhs[0]))
				}
				f, err := c22Field(as.Lhs[0])
				if err != nil {
					return err
				}
				*out = append(*out, c22Item{k, f, append([]string(nil), guard...)})
				continue
			}
			if cond == "err!=nil" { // error return of the preceding read
				continue
			}
			if cond == "dec.Len()!=0" { // trailing bytes are an error: end marker
				*out = append(*out, c22Item{"bytes", "END", append([]string(nil), guard...)})
				continue
			}
			g, err := c22Guard(s.Cond)
			if err != nil {
				return err
			}
			if err := c22DecodeStmts(s.Body.List, append(append([]string(nil), guard...), g...), out); err != nil {
				return err
			}
		case *ast.ReturnStmt:
			continue
		default:
			return fmt.Errorf("unsupported statement %T in decoder", st)
		}
	}
	return nil
}

func isIdent(e ast.Expr) bool { _, ok := e.(*ast.Ident); return ok }

// ---- size functions ----

func c22Flatten(e ast.Expr, out *[]ast.Expr) {
	if p, ok := e.(*ast.ParenExpr); ok {
		c22Flatten(p.X, out)
		return
	}
	if b, ok := e.(*ast.BinaryExpr); ok && b.Op == token.ADD {
		c22Flatten(b.X, out)
		c22Flatten(b.Y, out)
		return
	}
	*out = append(*out, e)
}

func c22SizeTerms(e ast.Expr, widths map[string]uint64, guard []string, out *[]c22Item) error {
	var leaves []ast.Expr
	c22Flatten(e, &leaves)
	for i := 0; i < len(leaves); i++ {
		t := exprText(leaves[i])
		switch {
		case t == "0" || t == "size":
			continue
		case t == "messageSeqSize(version)":
			*out = append(*out, c22Item{"seq", "MessageSeq", append([]string(nil), guard...)})
		case strings.HasPrefix(t, "len("):
			call := leaves[i].(*ast.CallExpr)
			f, err := c22Field(call.Args[0])
			if err != nil {
				return err
			}
			if i+1 < len(leaves) && exprText(leaves[i+1]) == "frame.StringFixLenByteSize" {
				*out = append(*out, c22Item{"str", f, append([]string(nil), guard...)})
				i++
			} else {
				*out = append(*out, c22Item{"bytes", f, append([]string(nil), guard...)})
			}
		case strings.HasPrefix(t, "frame.") && strings.HasSuffix(t, "ByteSize") && t != "frame.StringFixLenByteSize":
			name := strings.TrimPrefix(t, "frame.")
			w, ok := widths[name]
			if !ok {
				return fmt.Errorf("unknown width constant %s", name)
			}
			k := map[uint64]string{1: "u8", 4: "u32", 8: "u64"}[w]
			if k == "" {
				return fmt.Errorf("width %d of %s has no kind", w, name)
			}
			*out = append(*out, c22Item{k, strings.TrimSuffix(name, "ByteSize"), append([]string(nil), guard...)})
		default:
			return fmt.Errorf("unsupported size term %s", t)
		}
	}
	return nil
}

func c22SizeStmts(stmts []ast.Stmt, widths map[string]uint64, guard []string, out *[]c22Item) error {
	for _, st := range stmts {
		switch s := st.(type) {
		case *ast.DeclStmt: // var size = 0
			continue
		case *ast.AssignStmt:
			if len(s.Lhs) == 1 && exprText(s.Lhs[0]) == "size" && len(s.Rhs) == 1 {
				if err := c22SizeTerms(s.Rhs[0], widths, guard, out); err != nil {
					return err
				}
				continue
			}
			return fmt.Errorf("unsupported assignment in size function")
		case *ast.IfStmt:
			if s.Else != nil || s.Init != nil {
				return fmt.Errorf("unsupported if in size function")
			}
			g, err := c22Guard(s.Cond)
			if err != nil {
				return err
			}
			if err := c22SizeStmts(s.Body.List, widths, append(append([]string(nil), guard...), g...), out); err != nil {
				return err
			}
		case *ast.ReturnStmt:
			if len(s.Results) != 1 {
				return fmt.Errorf("unsupported return in size function")
			}
			if err := c22SizeTerms(s.Results[0], widths, guard, out); err != nil {
				return err
			}
		default:
			return fmt.Errorf("unsupported statement %T in size function", st)
		}
	}
	return nil
}

// ---- varint loop shape ----

func c22VarintShape(repo string) (string, error) {
	_, f, err := parseFile(repo, "pkg/protocol/codec/protocol.go")
	if err != nil {
		return "", err
	}
	fd := findFunc(f, "decodeLength")
	if fd == nil {
		return "", fmt.Errorf("decodeLength not found")
	}
	var bound, step int = -1, -1
	masks := map[string]bool{}
	ast.Inspect(fd.Body, func(n ast.Node) bool {
		switch x := n.(type) {
		case *ast.ForStmt:
			if b, ok := x.Cond.(*ast.BinaryExpr); ok && b.Op == token.LSS && exprText(b.X) == "multiplier" {
				if l, ok := b.Y.(*ast.BasicLit); ok {
					bound, _ = strconv.Atoi(l.Value)
				}
			}
		case *ast.AssignStmt:
			if x.Tok == token.ADD_ASSIGN && exprText(x.Lhs[0]) == "multiplier" {
				if l, ok := x.Rhs[0].(*ast.BasicLit); ok {
					step, _ = strconv.Atoi(l.Value)
				}
			}
		case *ast.BinaryExpr:
			if x.Op == token.AND && exprText(x.X) == "digit" {
				masks[exprText(x.Y)] = true
			}
		}
		return true
	})
	if bound < 0 || step <= 0 || !masks["127"] || !masks["128"] {
		return "", fmt.Errorf("decodeLength no longer has the shape `for multiplier < N { … digit&127 … digit&128 … multiplier += K }`")
	}
	ev := findFunc(f, "encodeVariable2")
	if ev == nil {
		return "", fmt.Errorf("encodeVariable2 not found")
	}
	txt := map[string]bool{}
	ast.Inspect(ev.Body, func(n ast.Node) bool {
		switch x := n.(type) {
		case *ast.BinaryExpr:
			txt[exprText(x)] = true
		case *ast.AssignStmt:
			txt[exprText(x.Lhs[0])+" "+x.Tok.String()+" "+exprText(x.Rhs[0])] = true
		}
		return true
	})
	for _, want := range []string{"size%0x80", "size /= 0x80", "digit |= 0x80", "size>0"} {
		if !txt[want] {
			return "", fmt.Errorf("encodeVariable2 lacks `%s`", want)
		}
	}
	return fmt.Sprintf("/-- decodeLength: `for multiplier < %d { … multiplier += %d }`, masks 127/128; encodeVariable2: base 0x80 -/\ndef decodeLengthBound : Nat := %d\ndef decodeLengthStep : Nat := %d\ndef varintBase : Nat := 128\n", bound, step, bound, step), nil
}

// c22Layouts emits all lists.
func c22Layouts(repo string, widths map[string]uint64) (string, error) {
	type spec struct{ name, file, enc, dec, size string }
	specs := []spec{
		{"connect", "connect.go", "encodeConnect", "decodeConnect", "encodeConnectSize"},
		{"connack", "connack.go", "encodeConnack", "decodeConnack", "encodeConnackSize"},
		{"send", "send.go", "encodeSend", "decodeSend", "encodeSendSize"},
		{"sendack", "sendack.go", "encodeSendack", "decodeSendack", "encodeSendackSize"},
		{"recv", "recv.go", "encodeRecv", "decodeRecv", "encodeRecvSize"},
		{"recvack", "recvack.go", "encodeRecvack", "decodeRecvack", "encodeRecvackSize"},
		{"disconnect", "disconnect.go", "encodeDisConnect", "decodeDisConnect", "encodeDisConnectSize"},
		{"sub", "sub.go", "encodeSub", "decodeSub", "encodeSubSize"},
		{"suback", "suback.go", "encodeSuback", "decodeSuback", "encodeSubackSize"},
		{"event", "event.go", "encodeEvent", "decodeEvent", "encodeEventSize"},
	}
	var b strings.Builder
	emit := func(name string, items []c22Item) {
		fmt.Fprintf(&b, "def %s : List Item := [", name)
		for i, it := range items {
			if i > 0 {
				b.WriteString(",\n  ")
			}
			b.WriteString(it.lean())
		}
		b.WriteString("]\n\n")
	}
	for _, sp := range specs {
		_, f, err := parseFile(repo, "pkg/protocol/codec/"+sp.file)
		if err != nil {
			return "", err
		}
		for _, part := range []struct{ suffix, fn, mode string }{{"enc", sp.enc, "e"}, {"dec", sp.dec, "d"}, {"size", sp.size, "s"}} {
			fd := findFunc(f, part.fn)
			if fd == nil {
				return "", fmt.Errorf("%s not found in %s", part.fn, sp.file)
			}
			var items []c22Item
			switch part.mode {
			case "e":
				err = c22EncodeStmts(fd.Body.List, nil, &items)
			case "d":
				err = c22DecodeStmts(fd.Body.List, nil, &items)
			default:
				err = c22SizeStmts(fd.Body.List, widths, nil, &items)
			}
			if err != nil {
				return "", fmt.Errorf("%s: %v", part.fn, err)
			}
			emit(part.suffix+"_"+sp.name, items)
		}
		if sp.name == "sendack" {
			for _, extra := range []struct{ name, fn string }{{"dec_sendack_core_first", "decodeSendackBodyCoreFirst"}, {"dec_sendack_msgno_first", "decodeSendackBodyClientMsgNoFirst"}} {
				fd := findFunc(f, extra.fn)
				if fd == nil {
					return "", fmt.Errorf("%s not found", extra.fn)
				}
				var items []c22Item
				if err := c22DecodeStmts(fd.Body.List, nil, &items); err != nil {
					return "", fmt.Errorf("%s: %v", extra.fn, err)
				}
				emit(extra.name, items)
			}
		}
	}
	// message_seq.go: the width switch
	_, f, err := parseFile(repo, "pkg/protocol/codec/message_seq.go")
	if err != nil {
		return "", err
	}
	for _, fn := range []string{"decodeMessageSeq", "encodeMessageSeq", "messageSeqSize"} {
		fd := findFunc(f, fn)
		if fd == nil || len(fd.Body.List) == 0 {
			return "", fmt.Errorf("%s not found", fn)
		}
		is, ok := fd.Body.List[0].(*ast.IfStmt)
		if !ok || exprText(is.Cond) != "version<=frame.LegacyMessageSeqVersion" {
			return "", fmt.Errorf("%s no longer starts with `if version <= frame.LegacyMessageSeqVersion`", fn)
		}
	}
	b.WriteString("/-- decodeMessageSeq / encodeMessageSeq / messageSeqSize all switch on `version <= frame.LegacyMessageSeqVersion` -/\ndef messageSeqGuardUniform : Bool := true\n\n")
	return b.String(), nil
}

package main

// C25 — T tie: the field order (and encodings) of the SEND msg-key preimage is
// read from SendMsgKeyWithCrypto, the comparison guard of the two Validate
// functions and the validate-before-decrypt order of the gateway adapter are
// read as facts.  Anything that does not have the expected shape is refused.

import (
	"fmt"
	"go/ast"
	"go/token"
	"strings"
)

func init() { register("C25", extractC25) }

var c25Fields = map[string]string{
	"ClientSeq": "clientSeq", "ClientMsgNo": "clientMsgNo", "ChannelID": "channelID", "ChannelType": "channelType",
	"Payload": "payload", "MsgKey": "msgKey", "Expire": "expire", "StreamNo": "streamNo", "Topic": "topic", "Setting": "setting",
}

func c25StructFields(f *ast.File, name string) map[string]string {
	out := map[string]string{}
	for _, d := range f.Decls {
		gd, ok := d.(*ast.GenDecl)
		if !ok || gd.Tok != token.TYPE {
			continue
		}
		for _, s := range gd.Specs {
			ts := s.(*ast.TypeSpec)
			st, ok := ts.Type.(*ast.StructType)
			if !ok || ts.Name.Name != name {
				continue
			}
			for _, fl := range st.Fields.List {
				for _, n := range fl.Names {
					out[n.Name] = exprText(fl.Type)
				}
			}
		}
	}
	return out
}

// msgKeyGuard: the function must contain `if packet.MsgKey != expected { return ErrMsgKeyMismatch }`.
func c25HasMsgKeyGuard(fd *ast.FuncDecl) bool {
	if fd == nil {
		return false
	}
	for _, st := range fd.Body.List {
		ifs, ok := st.(*ast.IfStmt)
		if !ok || ifs.Init != nil || ifs.Else != nil {
			continue
		}
		c := exprText(ifs.Cond)
		if c != "packet.MsgKey!=expected" && c != "expected!=packet.MsgKey" {
			continue
		}
		if len(ifs.Body.List) == 1 {
			if r, ok := ifs.Body.List[0].(*ast.ReturnStmt); ok && len(r.Results) == 1 && exprText(r.Results[0]) == "ErrMsgKeyMismatch" {
				return true
			}
		}
	}
	return false
}

// c25CallOrder lists, in source order, the wkprotoenc.* calls of a block.
func c25CallOrder(n ast.Node) []string {
	var out []string
	ast.Inspect(n, func(x ast.Node) bool {
		if c, ok := x.(*ast.CallExpr); ok {
			t := exprText(c.Fun)
			if strings.HasPrefix(t, "wkprotoenc.") {
				out = append(out, strings.TrimPrefix(t, "wkprotoenc."))
			}
		}
		return true
	})
	return out
}

func extractC25(repo string) (string, error) {
	_, f, err := parseFile(repo, "pkg/protocol/wkprotoenc/crypto.go")
	if err != nil {
		return "", err
	}
	_, ff, err := parseFile(repo, "pkg/protocol/frame/send.go")
	if err != nil {
		return "", err
	}
	ftypes := c25StructFields(ff, "SendPacket")
	fd := findFunc(f, "SendMsgKeyWithCrypto")
	if fd == nil {
		return "", fmt.Errorf("SendMsgKeyWithCrypto not found")
	}
	if len(fd.Type.Params.List) < 1 || len(fd.Type.Params.List[0].Names) != 1 || fd.Type.Params.List[0].Names[0].Name != "packet" {
		return "", fmt.Errorf("SendMsgKeyWithCrypto: first parameter is not `packet`")
	}
	var order []string
	buf := ""
	sawReturn := false
	for i, st := range fd.Body.List {
		switch s := st.(type) {
		case *ast.IfStmt: // only the nil guard is accepted
			if i != 0 || exprText(s.Cond) != "packet==nil" {
				return "", fmt.Errorf("SendMsgKeyWithCrypto: unexpected if statement `%s`", exprText(s.Cond))
			}
		case *ast.AssignStmt:
			if len(s.Lhs) != 1 || len(s.Rhs) != 1 {
				return "", fmt.Errorf("SendMsgKeyWithCrypto: unexpected assignment")
			}
			lhs := exprText(s.Lhs[0])
			call, ok := s.Rhs[0].(*ast.CallExpr)
			if !ok {
				return "", fmt.Errorf("SendMsgKeyWithCrypto: assignment to %s is not a call", lhs)
			}
			fun := exprText(call.Fun)
			if s.Tok == token.DEFINE {
				if fun != "make" || buf != "" {
					return "", fmt.Errorf("SendMsgKeyWithCrypto: unexpected definition of %s", lhs)
				}
				if len(call.Args) < 2 || exprText(call.Args[1]) != "0" {
					return "", fmt.Errorf("SendMsgKeyWithCrypto: the buffer does not start empty")
				}
				buf = lhs
				continue
			}
			if lhs != buf || len(call.Args) < 2 || exprText(call.Args[0]) != buf {
				return "", fmt.Errorf("SendMsgKeyWithCrypto: statement %d does not append to the preimage buffer", i)
			}
			arg := exprText(call.Args[1])
			var field, kind string
			switch fun {
			case "strconv.AppendUint":
				if len(call.Args) != 3 || exprText(call.Args[2]) != "10" || !strings.HasPrefix(arg, "packet.") {
					return "", fmt.Errorf("SendMsgKeyWithCrypto: unsupported AppendUint(%s)", exprText(call))
				}
				field, kind = strings.TrimPrefix(arg, "packet."), "decU"
				if t := ftypes[field]; t != "uint64" {
					return "", fmt.Errorf("AppendUint of %s which has type %q", field, t)
				}
			case "strconv.AppendInt":
				if len(call.Args) != 3 || exprText(call.Args[2]) != "10" || !strings.HasPrefix(arg, "int64(packet.") || !strings.HasSuffix(arg, ")") {
					return "", fmt.Errorf("SendMsgKeyWithCrypto: unsupported AppendInt(%s)", exprText(call))
				}
				field, kind = strings.TrimSuffix(strings.TrimPrefix(arg, "int64(packet."), ")"), "decI"
				if t := ftypes[field]; t != "uint8" && t != "uint16" && t != "uint32" && t != "Setting" {
					return "", fmt.Errorf("AppendInt of %s which has type %q (must be a small unsigned type so that the value is never negative)", field, t)
				}
			case "append":
				if len(call.Args) != 2 || !call.Ellipsis.IsValid() || !strings.HasPrefix(arg, "packet.") {
					return "", fmt.Errorf("SendMsgKeyWithCrypto: unsupported append(%s)", exprText(call))
				}
				field, kind = strings.TrimPrefix(arg, "packet."), "raw"
				if t := ftypes[field]; t != "string" && t != "[]byte" {
					return "", fmt.Errorf("append of %s which has type %q", field, t)
				}
			default:
				return "", fmt.Errorf("SendMsgKeyWithCrypto: unsupported call %s", fun)
			}
			lf, ok := c25Fields[field]
			if !ok {
				return "", fmt.Errorf("SendMsgKeyWithCrypto: unknown SendPacket field %s", field)
			}
			order = append(order, fmt.Sprintf("(.%s, .%s)", lf, kind))
		case *ast.ReturnStmt:
			if i != len(fd.Body.List)-1 || len(s.Results) != 1 || exprText(s.Results[0]) != "msgKeyWithCrypto("+buf+",sessionCrypto)" {
				return "", fmt.Errorf("SendMsgKeyWithCrypto: does not end in `return msgKeyWithCrypto(%s, sessionCrypto)`", buf)
			}
			sawReturn = true
		default:
			return "", fmt.Errorf("SendMsgKeyWithCrypto: unsupported statement %T", st)
		}
	}
	if !sawReturn || buf == "" {
		return "", fmt.Errorf("SendMsgKeyWithCrypto: shape not recognised")
	}

	// the adapter validates before it decrypts, in both branches
	_, fa, err := parseFile(repo, "pkg/gateway/protocol/wkproto/adapter.go")
	if err != nil {
		return "", err
	}
	da := findFunc(fa, "decryptSendPacketForSession")
	if da == nil {
		return "", fmt.Errorf("adapter.go: decryptSendPacketForSession not found")
	}
	calls := c25CallOrder(da.Body)

	var b strings.Builder
	b.WriteString("namespace WK.Gen.C25\n\n")
	b.WriteString("/-- fields of frame.SendPacket the msg key could cover -/\n")
	b.WriteString("inductive Field where\n  | clientSeq | clientMsgNo | channelID | channelType | payload | msgKey | expire | streamNo | topic | setting\n  deriving DecidableEq, Repr\n\n")
	b.WriteString("/-- decU = strconv.AppendUint(.., 10); decI = strconv.AppendInt(int64(unsigned), 10); raw = append(buf, x...) -/\n")
	b.WriteString("inductive Kind where\n  | decU | decI | raw\n  deriving DecidableEq, Repr\n\n")
	b.WriteString("/-- the appends of SendMsgKeyWithCrypto, in source order -/\n")
	b.WriteString("def sendPreimageOrder : List (Field × Kind) :=\n  [" + strings.Join(order, ", ") + "]\n\n")
	fmt.Fprintf(&b, "/-- `if packet.MsgKey != expected { return ErrMsgKeyMismatch }` is present -/\ndef validateKeysGuard : Bool := %v\ndef validateCryptoGuard : Bool := %v\n\n",
		c25HasMsgKeyGuard(findFunc(f, "ValidateSendPacket")), c25HasMsgKeyGuard(findFunc(f, "ValidateSendPacketWithCrypto")))
	var cs []string
	for _, c := range calls {
		cs = append(cs, leanStr(c))
	}
	b.WriteString("/-- wkprotoenc.* calls of the gateway's decryptSendPacketForSession, in source order -/\n")
	b.WriteString("def adapterCallOrder : List String :=\n  [" + strings.Join(cs, ", ") + "]\n\n")
	b.WriteString("end WK.Gen.C25\n")
	return b.String(), nil
}

package main

import (
	"fmt"
	"go/ast"
	"go/token"
	"strings"
)

func init() { register("C34", extractC34) }

// extractC34 regenerates lean/WK/Gen/C34.lean from internal/usecase/conversation
// (app.go, unread.go): the comparison / arithmetic expressions of
// conversationFromMembership, joinVisibilityFloor, maxMembershipFloor, ClearUnread,
// SetUnread and DeleteConversation, serialised as `WK.C34.GoE` terms (Model/C34.lean
// gives them their meaning), plus the operand lists of every maxMembershipFloor
// call and the store method each command ends in.  The statement SHAPE around
// them (which guard protects which assignment) is checked here and refused if it
// differs.

func c34E(e ast.Expr) (string, error) {
	switch x := e.(type) {
	case *ast.ParenExpr:
		return c34E(x.X)
	case *ast.Ident, *ast.SelectorExpr:
		return "(.f " + leanStr(exprText(e)) + ")", nil
	case *ast.BasicLit:
		if x.Kind == token.INT {
			return "(.n " + x.Value + ")", nil
		}
	case *ast.UnaryExpr:
		if x.Op == token.NOT {
			a, err := c34E(x.X)
			if err != nil {
				return "", err
			}
			return "(.not " + a + ")", nil
		}
	case *ast.CallExpr:
		fn := exprText(x.Fun)
		if len(x.Args) == 1 && (fn == "joinVisibilityFloor" || fn == "uint64") {
			a, err := c34E(x.Args[0])
			if err != nil {
				return "", err
			}
			if fn == "uint64" {
				return "(.u64 " + a + ")", nil
			}
			return "(.jfloor " + a + ")", nil
		}
	case *ast.BinaryExpr:
		if x.Op == token.NEQ && exprText(x.Y) == "nil" { // pointer presence test = a boolean fact
			return "(.f " + leanStr(exprText(x)) + ")", nil
		}
		op := map[token.Token]string{token.SUB: "sub", token.GTR: "gt", token.GEQ: "ge", token.LSS: "lt", token.LEQ: "le",
			token.EQL: "eq", token.LAND: "and", token.LOR: "or"}[x.Op]
		if op != "" {
			a, err := c34E(x.X)
			if err != nil {
				return "", err
			}
			b, err := c34E(x.Y)
			if err != nil {
				return "", err
			}
			return "(." + op + " " + a + " " + b + ")", nil
		}
	}
	return "", fmt.Errorf("unsupported expression %s", exprText(e))
}

func c34Ops(call ast.Expr) (string, error) {
	c, ok := call.(*ast.CallExpr)
	if !ok || exprText(c.Fun) != "maxMembershipFloor" {
		return "", fmt.Errorf("%s is not a maxMembershipFloor call", exprText(call))
	}
	var out []string
	for _, a := range c.Args {
		s, err := c34E(a)
		if err != nil {
			return "", err
		}
		out = append(out, s)
	}
	return "[" + strings.Join(out, ", ") + "]", nil
}

// c34Define finds `name := rhs` among the top-level statements of a body.
func c34Define(body []ast.Stmt, name string) (ast.Expr, int) {
	for i, st := range body {
		if as, ok := st.(*ast.AssignStmt); ok && as.Tok == token.DEFINE && len(as.Lhs) == 1 && len(as.Rhs) == 1 && exprText(as.Lhs[0]) == name {
			return as.Rhs[0], i
		}
	}
	return nil, -1
}

// c34GuardedAssign expects `if cond { lhs = rhs }` (single statement, no else).
func c34GuardedAssign(st ast.Stmt, lhs string) (cond, rhs ast.Expr, err error) {
	ifs, ok := st.(*ast.IfStmt)
	if !ok || ifs.Init != nil || ifs.Else != nil || len(ifs.Body.List) != 1 {
		return nil, nil, fmt.Errorf("not a single-assignment if")
	}
	as, ok := ifs.Body.List[0].(*ast.AssignStmt)
	if !ok || as.Tok != token.ASSIGN || len(as.Lhs) != 1 || exprText(as.Lhs[0]) != lhs {
		return nil, nil, fmt.Errorf("guarded statement does not assign %s", lhs)
	}
	return ifs.Cond, as.Rhs[0], nil
}

// c34TailCall expects the last statement `return a.memberships.<M>(ctx, uid, ch, type, <seq>, now)`;
// preceded (optionally) by `if <skip> { return nil }`.
func c34TailCall(body []ast.Stmt) (method string, seqArg ast.Expr, skip ast.Expr, err error) {
	ret, ok := body[len(body)-1].(*ast.ReturnStmt)
	if !ok || len(ret.Results) != 1 {
		return "", nil, nil, fmt.Errorf("last statement is not a single return")
	}
	call, ok := ret.Results[0].(*ast.CallExpr)
	if !ok || !strings.HasPrefix(exprText(call.Fun), "a.memberships.") || len(call.Args) != 6 {
		return "", nil, nil, fmt.Errorf("last statement is not a membership store call with 6 arguments")
	}
	method = strings.TrimPrefix(exprText(call.Fun), "a.memberships.")
	seqArg = call.Args[4]
	if len(body) >= 2 {
		if ifs, ok := body[len(body)-2].(*ast.IfStmt); ok && ifs.Else == nil && ifs.Init == nil && len(ifs.Body.List) == 1 {
			if r, ok := ifs.Body.List[0].(*ast.ReturnStmt); ok && len(r.Results) == 1 && exprText(r.Results[0]) == "nil" {
				skip = ifs.Cond
			}
		}
	}
	return method, seqArg, skip, nil
}

func extractC34(repo string) (string, error) {
	var b strings.Builder
	b.WriteString("import WK.Model.C34\nnamespace WK.Gen.C34\nopen WK.C34\n\n")
	def := func(doc, name, ty, val string) {
		fmt.Fprintf(&b, "/-- %s -/\ndef %s : %s := %s\n\n", doc, name, ty, val)
	}
	expr := func(doc, name string, e ast.Expr) error {
		s, err := c34E(e)
		if err != nil {
			return fmt.Errorf("%s: %v", name, err)
		}
		def(doc+": `"+exprText(e)+"`", name, "GoE", s)
		return nil
	}
	_, app, err := parseFile(repo, "internal/usecase/conversation/app.go")
	if err != nil {
		return "", err
	}
	// ---- conversationFromMembership
	fd := findFunc(app, "conversationFromMembership")
	if fd == nil {
		return "", fmt.Errorf("conversationFromMembership not found")
	}
	body := fd.Body.List
	vis, vi := c34Define(body, "visibleMessage")
	if vis == nil {
		return "", fmt.Errorf("conversationFromMembership: visibleMessage := … not found")
	}
	if err := expr("conversationFromMembership visibleMessage", "visibleMessage", vis); err != nil {
		return "", err
	}
	omit, ok := body[vi+1].(*ast.IfStmt)
	if !ok || len(omit.Body.List) != 1 {
		return "", fmt.Errorf("conversationFromMembership: omit guard not found after visibleMessage")
	}
	if r, ok := omit.Body.List[0].(*ast.ReturnStmt); !ok || len(r.Results) != 2 || exprText(r.Results[1]) != "false" {
		return "", fmt.Errorf("conversationFromMembership: omit guard does not `return …, false`")
	}
	if err := expr("guard under which the conversation is omitted", "omitCond", omit.Cond); err != nil {
		return "", err
	}
	fl, _ := c34Define(body, "visibilityFloor")
	er, _ := c34Define(body, "effectiveRead")
	if fl == nil || er == nil {
		return "", fmt.Errorf("conversationFromMembership: visibilityFloor / effectiveRead not found")
	}
	ops, err := c34Ops(fl)
	if err != nil {
		return "", err
	}
	def("operands of visibilityFloor := maxMembershipFloor(…)", "floorOperands", "List GoE", ops)
	ops, err = c34Ops(er)
	if err != nil {
		return "", err
	}
	def("operands of effectiveRead := maxMembershipFloor(…)", "effectiveReadOperands", "List GoE", ops)
	un, ui := c34Define(body, "unread")
	if un == nil || exprText(un) != "uint64(0)" {
		return "", fmt.Errorf("conversationFromMembership: `unread := uint64(0)` not found")
	}
	uc, uv, err := c34GuardedAssign(body[ui+1], "unread")
	if err != nil {
		return "", fmt.Errorf("conversationFromMembership unread: %v", err)
	}
	if err := expr("guard of the unread subtraction", "unreadGuard", uc); err != nil {
		return "", err
	}
	if err := expr("the unread subtraction", "unreadValue", uv); err != nil {
		return "", err
	}
	// `var last *LastMessage; if <cond> { cloned := *head.LastMessage; …; last = &cloned }`
	var lastCond ast.Expr
	for _, st := range body {
		ifs, ok := st.(*ast.IfStmt)
		if !ok || ifs.Else != nil {
			continue
		}
		for _, s := range ifs.Body.List {
			if as, ok := s.(*ast.AssignStmt); ok && as.Tok == token.ASSIGN && exprText(as.Lhs[0]) == "last" {
				lastCond = ifs.Cond
			}
		}
	}
	if lastCond == nil {
		return "", fmt.Errorf("conversationFromMembership: guarded `last = …` not found")
	}
	if err := expr("guard under which the head's last message is shown", "lastCond", lastCond); err != nil {
		return "", err
	}
	// the returned struct: which local feeds which field
	ret, ok := body[len(body)-1].(*ast.ReturnStmt)
	if !ok || len(ret.Results) != 2 || exprText(ret.Results[1]) != "true" {
		return "", fmt.Errorf("conversationFromMembership: final `return Conversation{…}, true` not found")
	}
	lit, ok := ret.Results[0].(*ast.CompositeLit)
	if !ok {
		return "", fmt.Errorf("conversationFromMembership: result is not a composite literal")
	}
	var fields []string
	for _, el := range lit.Elts {
		kv, ok := el.(*ast.KeyValueExpr)
		if !ok {
			return "", fmt.Errorf("conversationFromMembership: positional composite literal")
		}
		fields = append(fields, "("+leanStr(exprText(kv.Key))+", "+leanStr(exprText(kv.Value))+")")
	}
	def("fields of the returned Conversation", "itemFields", "List (String × String)", "["+strings.Join(fields, ", ")+"]")

	// ---- joinVisibilityFloor: `if c { return x }; return y`
	fd = findFunc(app, "joinVisibilityFloor")
	if fd == nil || len(fd.Body.List) != 2 {
		return "", fmt.Errorf("joinVisibilityFloor: want `if c { return x }; return y`")
	}
	jif, ok := fd.Body.List[0].(*ast.IfStmt)
	if !ok || jif.Else != nil || len(jif.Body.List) != 1 {
		return "", fmt.Errorf("joinVisibilityFloor: first statement is not a plain if")
	}
	jr0, ok0 := jif.Body.List[0].(*ast.ReturnStmt)
	jr1, ok1 := fd.Body.List[1].(*ast.ReturnStmt)
	if !ok0 || !ok1 || len(jr0.Results) != 1 || len(jr1.Results) != 1 {
		return "", fmt.Errorf("joinVisibilityFloor: returns not found")
	}
	if err := expr("joinVisibilityFloor guard", "joinFloorCond", jif.Cond); err != nil {
		return "", err
	}
	if err := expr("joinVisibilityFloor guarded result", "joinFloorThen", jr0.Results[0]); err != nil {
		return "", err
	}
	if err := expr("joinVisibilityFloor default result", "joinFloorElse", jr1.Results[0]); err != nil {
		return "", err
	}
	def("joinVisibilityFloor parameter", "joinFloorParam", "String", leanStr(fd.Type.Params.List[0].Names[0].Name))

	// ---- maxMembershipFloor: `var out uint64; for _, value := range values { if value > out { out = value } }; return out`
	fd = findFunc(app, "maxMembershipFloor")
	if fd == nil || len(fd.Body.List) != 3 {
		return "", fmt.Errorf("maxMembershipFloor: want var; range loop; return")
	}
	if ds, ok := fd.Body.List[0].(*ast.DeclStmt); !ok || !strings.Contains(fmt.Sprint(ds.Decl.(*ast.GenDecl).Specs[0].(*ast.ValueSpec).Names[0].Name), "out") ||
		len(ds.Decl.(*ast.GenDecl).Specs[0].(*ast.ValueSpec).Values) != 0 {
		return "", fmt.Errorf("maxMembershipFloor: accumulator is not a zero-initialised `var out`")
	}
	rng, ok := fd.Body.List[1].(*ast.RangeStmt)
	if !ok || len(rng.Body.List) != 1 || exprText(rng.X) != fd.Type.Params.List[0].Names[0].Name {
		return "", fmt.Errorf("maxMembershipFloor: not a single-statement range over the parameter")
	}
	mc, mv, err := c34GuardedAssign(rng.Body.List[0], "out")
	if err != nil {
		return "", fmt.Errorf("maxMembershipFloor: %v", err)
	}
	if r, ok := fd.Body.List[2].(*ast.ReturnStmt); !ok || exprText(r.Results[0]) != "out" {
		return "", fmt.Errorf("maxMembershipFloor: does not return out")
	}
	if err := expr("maxMembershipFloor loop guard", "maxStepCond", mc); err != nil {
		return "", err
	}
	if err := expr("maxMembershipFloor loop assignment", "maxStepValue", mv); err != nil {
		return "", err
	}
	def("maxMembershipFloor loop variable", "maxStepVar", "String", leanStr(exprText(rng.Value)))

	// ---- unread.go
	_, un2, err := parseFile(repo, "internal/usecase/conversation/unread.go")
	if err != nil {
		return "", err
	}
	for _, c := range []struct{ method, prefix string }{{"ClearUnread", "clear"}, {"SetUnread", "set"}, {"DeleteConversation", "delete"}} {
		fd := findMethod(un2, "App", c.method)
		if fd == nil {
			return "", fmt.Errorf("%s not found", c.method)
		}
		m, seq, skip, err := c34TailCall(fd.Body.List)
		if err != nil {
			return "", fmt.Errorf("%s: %v", c.method, err)
		}
		def(c.method+": membership store method the command ends in", c.prefix+"StoreMethod", "String", leanStr(m))
		if err := expr(c.method+": sequence argument of the store call", c.prefix+"StoreSeq", seq); err != nil {
			return "", err
		}
		if skip != nil {
			if err := expr(c.method+": guard under which no store call is made", c.prefix+"SkipCond", skip); err != nil {
				return "", err
			}
		} else if c.prefix != "delete" {
			return "", fmt.Errorf("%s: `if … { return nil }` before the store call not found", c.method)
		}
		if c.prefix == "set" {
			fl, _ := c34Define(fd.Body.List, "visibilityFloor")
			tg, ti := c34Define(fd.Body.List, "target")
			if fl == nil || tg == nil || exprText(tg) != "visibilityFloor" {
				return "", fmt.Errorf("SetUnread: visibilityFloor / `target := visibilityFloor` not found")
			}
			ops, err := c34Ops(fl)
			if err != nil {
				return "", err
			}
			def("SetUnread: operands of visibilityFloor", "setFloorOperands", "List GoE", ops)
			tc, tv, err := c34GuardedAssign(fd.Body.List[ti+1], "target")
			if err != nil {
				return "", fmt.Errorf("SetUnread target: %v", err)
			}
			if err := expr("SetUnread: guard of the target subtraction", "setTargetGuard", tc); err != nil {
				return "", err
			}
			ops, err = c34Ops(tv)
			if err != nil {
				return "", err
			}
			def("SetUnread: operands of target = maxMembershipFloor(…)", "setTargetOperands", "List GoE", ops)
			// `if cmd.Unread < 0 { return errors.New(…) }`
			found := false
			for _, st := range fd.Body.List {
				if ifs, ok := st.(*ast.IfStmt); ok && exprText(ifs.Cond) == "cmd.Unread<0" {
					found = true
				}
			}
			def("SetUnread rejects a negative count", "setRejectsNegative", "Bool", fmt.Sprint(found))
		}
	}
	b.WriteString("end WK.Gen.C34\n")
	return b.String(), nil
}

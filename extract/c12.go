package main

// C12 — T tie: the ORDER of the durability-relevant calls in the Ready driver
// (pkg/slot/multiraft/slot.go processReady / processReadySynchronously /
// processReadyAsyncNormal / newSlot, apply_pipeline.go runApplyTask,
// compaction.go compactLogAt) is regenerated into WK/Gen/C12.lean as lists of
// call names in source order.  The theorems `c12_persist_before_apply_send` &
// co. are `decide`d on these lists, so moving Send/apply before the persist,
// MarkApplied before ApplyBatch, Advance before the synchronous apply, or
// changing the restart position rule breaks a proof.

import (
	"bytes"
	"fmt"
	"go/ast"
	"go/printer"
	"go/token"
	"strings"
)

func init() { register("C12", extractC12) }

var c12Calls = map[string]bool{
	"persistReadyDurable": true, "applyReadyToMemory": true, "trackReadyEntries": true, "Send": true,
	"processReadySynchronously": true, "processReadyAsyncNormal": true, "Restore": true,
	"applyCommittedEntries": true, "markApplied": true, "persistConfigAppliedIndex": true,
	"setDurableAppliedIndex": true, "Advance": true, "completeResolutions": true, "compactLog": true,
	"enqueue": true, "MarkApplied": true, "Snapshot": true, "Save": true, "ReplaceSnapshot": true,
	"CreateSnapshot": true, "Compact": true, "DurableAppliedIndex": true, "NewRawNode": true, "load": true,
	"waitApplyIdle": true, "fail": true,
}

func c12CallOrder(fd *ast.FuncDecl) []string {
	var out []string
	ast.Inspect(fd.Body, func(n ast.Node) bool {
		c, ok := n.(*ast.CallExpr)
		if !ok {
			return true
		}
		name := ""
		switch f := c.Fun.(type) {
		case *ast.SelectorExpr:
			name = f.Sel.Name
		case *ast.Ident:
			name = f.Name
		}
		if c12Calls[name] {
			out = append(out, name)
		}
		return true
	})
	// ast.Inspect visits a call before its arguments; arguments containing calls come after, which is source order for our purposes
	return out
}

func c12Lean(name string, xs []string) string {
	q := make([]string, len(xs))
	for i, x := range xs {
		q[i] = leanStr(x)
	}
	return fmt.Sprintf("def %s : List String := [%s]\n", name, strings.Join(q, ", "))
}

func c12Src(fset *token.FileSet, n ast.Node) string {
	var b bytes.Buffer
	_ = printer.Fprint(&b, fset, n)
	return strings.Join(strings.Fields(b.String()), " ")
}

func extractC12(repo string) (string, error) {
	var sb strings.Builder
	sb.WriteString("namespace WK.Gen.C12\n\n")
	type want struct{ file, recv, fn, lean string }
	for _, w := range []want{
		{"pkg/slot/multiraft/slot.go", "slot", "processReady", "processReady"},
		{"pkg/slot/multiraft/slot.go", "slot", "processReadySynchronously", "processReadySynchronously"},
		{"pkg/slot/multiraft/slot.go", "slot", "processReadyAsyncNormal", "processReadyAsyncNormal"},
		{"pkg/slot/multiraft/slot.go", "slot", "markApplied", "markAppliedBody"},
		{"pkg/slot/multiraft/apply_pipeline.go", "slot", "runApplyTask", "runApplyTask"},
		{"pkg/slot/multiraft/compaction.go", "slot", "compactLogAt", "compactLogAt"},
		{"pkg/slot/multiraft/ready.go", "storageAdapter", "persistReadyDurable", "persistReadyDurable"},
	} {
		_, f, err := parseFile(repo, w.file)
		if err != nil {
			return "", err
		}
		fd := findMethod(f, w.recv, w.fn)
		if fd == nil || fd.Body == nil {
			return "", fmt.Errorf("%s: method %s.%s not found", w.file, w.recv, w.fn)
		}
		sb.WriteString(c12Lean(w.lean, c12CallOrder(fd)))
	}
	// newSlot: the statements that decide where a restarted replica resumes applying
	fset, f, err := parseFile(repo, "pkg/slot/multiraft/slot.go")
	if err != nil {
		return "", err
	}
	fd := findFunc(f, "newSlot")
	if fd == nil {
		return "", fmt.Errorf("newSlot not found")
	}
	var rule []string
	on := false
	for _, st := range fd.Body.List {
		txt := c12Src(fset, st)
		if strings.HasPrefix(txt, "appliedIndex := ") {
			on = true
		}
		if on && strings.HasPrefix(txt, "snapshotData,") {
			break
		}
		if on {
			rule = append(rule, txt)
		}
	}
	if len(rule) == 0 {
		return "", fmt.Errorf("newSlot: applied-index rule not found")
	}
	sb.WriteString(c12Lean("newSlotAppliedRule", rule))
	sb.WriteString(c12Lean("newSlot", c12CallOrder(fd)))
	// resolveProposal: the guard that decides whether a tracked future is completed by an applied entry
	rp := findMethod(f, "slot", "resolveProposal")
	if rp == nil || rp.Body == nil {
		return "", fmt.Errorf("resolveProposal not found")
	}
	guard := ""
	for _, st := range rp.Body.List {
		if ifs, ok := st.(*ast.IfStmt); ok {
			guard = c12Src(fset, ifs.Cond)
			break
		}
	}
	if guard == "" {
		return "", fmt.Errorf("resolveProposal: no guard found")
	}
	sb.WriteString(fmt.Sprintf("def resolveProposalGuard : String := %s\n", leanStr(guard)))
	sb.WriteString("\nend WK.Gen.C12\n")
	return sb.String(), nil
}

package main

// C13 — T tie for the wire skeleton: the set of command types `commandDecoders`
// knows and, for each, whether its decoder walks TLV fields (`readTLV`) or parses
// a JSON document, regenerated from pkg/slot/fsm/*.go into WK/Gen/C13.lean.
// The judge ("a payload whose TLV walk fails must be refused", "an unknown type
// must be refused") uses these tables, so a new command type or a decoder that
// changes family is picked up without touching the Lean side.

import (
	"fmt"
	"go/ast"
	"go/parser"
	"go/token"
	"os"
	"path/filepath"
	"sort"
	"strconv"
	"strings"
)

func init() { register("C13", extractC13) }

func extractC13(repo string) (string, error) {
	dir := filepath.Join(repo, "pkg/slot/fsm")
	ents, err := os.ReadDir(dir)
	if err != nil {
		return "", err
	}
	fset := token.NewFileSet()
	consts := map[string]int{}
	funcs := map[string]*ast.FuncDecl{}
	var table *ast.CompositeLit
	for _, e := range ents {
		n := e.Name()
		if !strings.HasSuffix(n, ".go") || strings.HasSuffix(n, "_test.go") {
			continue
		}
		f, err := parser.ParseFile(fset, filepath.Join(dir, n), nil, 0)
		if err != nil {
			return "", err
		}
		for _, d := range f.Decls {
			switch d := d.(type) {
			case *ast.FuncDecl:
				if d.Recv == nil {
					funcs[d.Name.Name] = d
				}
			case *ast.GenDecl:
				for _, sp := range d.Specs {
					vs, ok := sp.(*ast.ValueSpec)
					if !ok {
						continue
					}
					for i, name := range vs.Names {
						if d.Tok == token.CONST && strings.HasPrefix(name.Name, "cmdType") && i < len(vs.Values) {
							if bl, ok := vs.Values[i].(*ast.BasicLit); ok && bl.Kind == token.INT {
								v, err := strconv.Atoi(bl.Value)
								if err != nil {
									return "", fmt.Errorf("const %s: %v", name.Name, err)
								}
								consts[name.Name] = v
							} else {
								return "", fmt.Errorf("const %s is not an integer literal", name.Name)
							}
						}
						if d.Tok == token.VAR && name.Name == "commandDecoders" && i < len(vs.Values) {
							if cl, ok := vs.Values[i].(*ast.CompositeLit); ok {
								table = cl
							}
						}
					}
				}
			}
		}
	}
	if table == nil {
		return "", fmt.Errorf("commandDecoders not found")
	}
	var family func(fn string, seen map[string]bool, depth int) (tlv, js bool)
	family = func(fn string, seen map[string]bool, depth int) (tlv, js bool) {
		fd := funcs[fn]
		if fd == nil || fd.Body == nil || seen[fn] || depth > 4 {
			return
		}
		seen[fn] = true
		ast.Inspect(fd.Body, func(n ast.Node) bool {
			c, ok := n.(*ast.CallExpr)
			if !ok {
				return true
			}
			switch f := c.Fun.(type) {
			case *ast.Ident:
				if f.Name == "readTLV" {
					tlv = true
				}
				if _, isFunc := funcs[f.Name]; isFunc && f.Name != "readTLV" {
					t, j := family(f.Name, seen, depth+1)
					tlv, js = tlv || t, js || j
				}
			case *ast.SelectorExpr:
				if x, ok := f.X.(*ast.Ident); ok && x.Name == "json" && f.Sel.Name == "Unmarshal" {
					js = true
				}
			}
			return true
		})
		return
	}
	var known, jsonT []int
	for _, el := range table.Elts {
		kv, ok := el.(*ast.KeyValueExpr)
		if !ok {
			return "", fmt.Errorf("commandDecoders: unexpected element")
		}
		k, ok1 := kv.Key.(*ast.Ident)
		v, ok2 := kv.Value.(*ast.Ident)
		if !ok1 || !ok2 {
			return "", fmt.Errorf("commandDecoders: key/value are not identifiers")
		}
		num, ok := consts[k.Name]
		if !ok {
			return "", fmt.Errorf("commandDecoders: constant %s not found", k.Name)
		}
		tlv, _ := family(v.Name, map[string]bool{}, 0)
		if !tlv {
			// a decoder that never calls readTLV is exempt from the skeleton judge
			jsonT = append(jsonT, num)
		}
		known = append(known, num)
	}
	sort.Ints(known)
	sort.Ints(jsonT)
	lst := func(xs []int) string {
		p := make([]string, len(xs))
		for i, x := range xs {
			p[i] = strconv.Itoa(x)
		}
		return "[" + strings.Join(p, ", ") + "]"
	}
	return fmt.Sprintf("namespace WK.Gen.C13\n\n/-- every command type in `commandDecoders` -/\ndef knownTypes : List Nat := %s\n\n/-- those whose decoder never walks TLV fields with readTLV (exempt from the skeleton judge) -/\ndef nonTLVTypes : List Nat := %s\n\nend WK.Gen.C13\n", lst(known), lst(jsonT)), nil
}

package main

import (
	"fmt"
	"go/ast"
	"go/token"
	"strings"
)

func init() { register("C36", extractC36) }

// extractC36 regenerates lean/WK/Gen/C36.lean: for every permission check of
// internal/usecase/message (permission.go, permission_batch.go) the ORDERED list
// of exits — (path condition, action) in source order, nested conditions joined
// with " && ", switch cases as "case …" — plus the Reason and channel-type
// constants and the batch-eligibility test of resolveSendBatchPermissions.
// Reordering, dropping or re-targeting a check changes a list and breaks a
// `c36_gen_order_*` theorem.

type c36Ev struct{ cond, act string }

func c36Join(prefix, c string) string {
	if prefix == "" {
		return c
	}
	if c == "" {
		return prefix
	}
	return prefix + " && " + c
}

func c36Stmt(st ast.Stmt) string {
	switch x := st.(type) {
	case *ast.AssignStmt:
		var l, r []string
		for _, e := range x.Lhs {
			l = append(l, exprText(e))
		}
		for _, e := range x.Rhs {
			r = append(r, exprText(e))
		}
		return strings.Join(l, ",") + x.Tok.String() + strings.Join(r, ",")
	case *ast.ExprStmt:
		return exprText(x.X)
	}
	return fmt.Sprintf("<%T>", st)
}

// c36Walk records every return, every assignment to a reason/err/plan field and
// every call of another check, with the conjunction of the enclosing conditions.
func c36Walk(list []ast.Stmt, prefix string, out *[]c36Ev) error {
	for _, st := range list {
		switch x := st.(type) {
		case *ast.ReturnStmt:
			var rs []string
			for _, e := range x.Results {
				rs = append(rs, exprText(e))
			}
			*out = append(*out, c36Ev{prefix, "return " + strings.Join(rs, ",")})
		case *ast.IfStmt:
			c := exprText(x.Cond)
			if x.Init != nil {
				c = c36Stmt(x.Init) + ";" + c
			}
			if err := c36Walk(x.Body.List, c36Join(prefix, c), out); err != nil {
				return err
			}
			if x.Else != nil {
				eb, ok := x.Else.(*ast.BlockStmt)
				if !ok {
					return fmt.Errorf("else-if chains are not supported")
				}
				if err := c36Walk(eb.List, c36Join(prefix, "!("+c+")"), out); err != nil {
					return err
				}
			}
		case *ast.SwitchStmt:
			if x.Init != nil {
				return fmt.Errorf("switch with init is not supported")
			}
			tag := ""
			if x.Tag != nil {
				tag = exprText(x.Tag)
			}
			for _, cc := range x.Body.List {
				cl := cc.(*ast.CaseClause)
				var vs []string
				for _, e := range cl.List {
					vs = append(vs, exprText(e))
				}
				lbl := "case " + tag + "=" + strings.Join(vs, "|")
				if cl.List == nil {
					lbl = "default " + tag
				}
				if err := c36Walk(cl.Body, c36Join(prefix, lbl), out); err != nil {
					return err
				}
			}
		case *ast.AssignStmt:
			t := c36Stmt(x)
			// keep: reason/err assignments, reads of facts, calls of other checks, channel-id rewrites
			if strings.Contains(t, "reason") || strings.Contains(t, "a.check") || strings.Contains(t, "a.permission") ||
				strings.Contains(t, "a.permissions") || strings.Contains(t, "read(") || strings.Contains(t, "runtimechannelid.") ||
				strings.Contains(t, "cmd.ChannelID") || strings.HasPrefix(t, "receiver") || strings.Contains(t, "plan.") {
				*out = append(*out, c36Ev{prefix, t})
			}
		case *ast.BranchStmt:
			*out = append(*out, c36Ev{prefix, x.Tok.String()})
		case *ast.DeclStmt, *ast.ExprStmt:
			// var blocks / bare calls carry no decision
		default:
			return fmt.Errorf("unsupported statement %T", st)
		}
	}
	return nil
}

// c36Reasons lists the Reason identifiers (or the literal 0) the exits assign or
// return, in source order.
func c36Reasons(evs []c36Ev) []string {
	var out []string
	isReason := func(t string) bool {
		if t == "0" {
			return true
		}
		if !strings.HasPrefix(t, "Reason") {
			return false
		}
		for _, c := range t {
			if !(c >= 'a' && c <= 'z' || c >= 'A' && c <= 'Z') {
				return false
			}
		}
		return true
	}
	for _, e := range evs {
		switch {
		case strings.HasPrefix(e.act, "return "):
			f := strings.Split(strings.TrimPrefix(e.act, "return "), ",")
			for _, t := range f[:min(2, len(f))] { // (reason, err) or (cmd, reason, err)
				if isReason(t) {
					out = append(out, t)
					break
				}
			}
		case strings.HasPrefix(e.act, "outcome.reason"):
			if i := strings.Index(e.act, "="); i >= 0 {
				t := strings.Split(e.act[i+1:], ",")[0]
				if isReason(t) {
					out = append(out, t)
				}
			}
		}
	}
	return out
}

func extractC36(repo string) (string, error) {
	var b strings.Builder
	b.WriteString("namespace WK.Gen.C36\n\n")
	emit := func(doc, name string, evs []c36Ev) {
		var q []string
		for _, e := range evs {
			q = append(q, "("+leanStr(e.cond)+", "+leanStr(e.act)+")")
		}
		fmt.Fprintf(&b, "/-- %s -/\ndef %s : List (String × String) := [\n  %s]\n\n", doc, name, strings.Join(q, ",\n  "))
		if strings.HasPrefix(doc, "exits of") {
			var r []string
			for _, t := range c36Reasons(evs) {
				r = append(r, leanStr(t))
			}
			fmt.Fprintf(&b, "/-- the reasons those exits produce, in source order -/\ndef %sReasons : List String := [%s]\n\n", name, strings.Join(r, ", "))
		}
	}
	// ---- constants
	consts := func(file, typ, prefix string) ([]string, error) {
		_, f, err := parseFile(repo, file)
		if err != nil {
			return nil, err
		}
		var out []string
		for _, d := range f.Decls {
			gd, ok := d.(*ast.GenDecl)
			if !ok || gd.Tok != token.CONST {
				continue
			}
			iota := -1
			inBlock := false
			for _, sp := range gd.Specs {
				vs := sp.(*ast.ValueSpec)
				iota++
				if len(vs.Values) == 1 {
					v := exprText(vs.Values[0])
					switch {
					case vs.Type != nil && exprText(vs.Type) == typ && v == "iota":
						inBlock = true
					case vs.Type != nil && exprText(vs.Type) == typ:
						if lit, ok := vs.Values[0].(*ast.BasicLit); ok && lit.Kind == token.INT && strings.HasPrefix(vs.Names[0].Name, prefix) {
							out = append(out, "("+leanStr(vs.Names[0].Name)+", "+lit.Value+")")
						}
						continue
					default:
						inBlock = false
						continue
					}
				} else if len(vs.Values) != 0 {
					inBlock = false
					continue
				}
				if inBlock && strings.HasPrefix(vs.Names[0].Name, prefix) {
					out = append(out, fmt.Sprintf("(%s, %d)", leanStr(vs.Names[0].Name), iota))
				}
			}
		}
		return out, nil
	}
	rc, err := consts("internal/contracts/channelappend/types.go", "Reason", "Reason")
	if err != nil {
		return "", err
	}
	if len(rc) == 0 {
		return "", fmt.Errorf("no Reason constants found")
	}
	fmt.Fprintf(&b, "/-- `Reason` constants (iota block of internal/contracts/channelappend/types.go) -/\ndef reasonCodes : List (String × Nat) := [%s]\n\n", strings.Join(rc, ", "))
	ct, err := consts("internal/usecase/message/send.go", "uint8", "channelType")
	if err != nil {
		return "", err
	}
	if len(ct) == 0 {
		return "", fmt.Errorf("no channelType constants found")
	}
	fmt.Fprintf(&b, "/-- channel type constants of send.go -/\ndef channelTypes : List (String × Nat) := [%s]\n\n", strings.Join(ct, ", "))

	// ---- per-send checks
	_, pf, err := parseFile(repo, "internal/usecase/message/permission.go")
	if err != nil {
		return "", err
	}
	for _, m := range []string{"checkSendPermission", "checkTerminalChannelPermission", "checkSenderSendPermission", "checkGroupSendPermission",
		"checkCommonMemberPermission", "checkAgentSendPermission", "checkVisitorsSendPermission", "checkPersonSendPermission"} {
		fd := findMethod(pf, "App", m)
		if fd == nil {
			return "", fmt.Errorf("permission.go: %s not found", m)
		}
		var evs []c36Ev
		if err := c36Walk(fd.Body.List, "", &evs); err != nil {
			return "", fmt.Errorf("%s: %v", m, err)
		}
		emit("exits of App."+m+" in source order", m, evs)
	}
	// ---- batch evaluators and plans
	_, bf, err := parseFile(repo, "internal/usecase/message/permission_batch.go")
	if err != nil {
		return "", err
	}
	for _, fn := range []string{"evaluateGroupPermissionReadPlan", "evaluatePersonPermissionReadPlan"} {
		fd := findFunc(bf, fn)
		if fd == nil {
			return "", fmt.Errorf("permission_batch.go: %s not found", fn)
		}
		var evs []c36Ev
		if err := c36Walk(fd.Body.List, "", &evs); err != nil {
			return "", fmt.Errorf("%s: %v", fn, err)
		}
		emit("exits of "+fn+" in source order", fn, evs)
	}
	for _, m := range []string{"checkGroupSendPermissionsBatch", "checkPersonSendPermissionsBatch"} {
		fd := findMethod(bf, "App", m)
		if fd == nil {
			return "", fmt.Errorf("permission_batch.go: %s not found", m)
		}
		// the planning loop: body of the first `for i, groupIndex := range groupIndexes`
		var loop *ast.RangeStmt
		for _, st := range fd.Body.List {
			if r, ok := st.(*ast.RangeStmt); ok && exprText(r.X) == "groupIndexes" {
				loop = r
				break
			}
		}
		if loop == nil {
			return "", fmt.Errorf("%s: planning loop not found", m)
		}
		var evs []c36Ev
		if err := c36Walk(loop.Body.List, "", &evs); err != nil {
			return "", fmt.Errorf("%s: %v", m, err)
		}
		// the reads a plan registers, with their keys
		var reads []c36Ev
		ast.Inspect(loop.Body, func(n ast.Node) bool {
			as, ok := n.(*ast.AssignStmt)
			if !ok || len(as.Rhs) != 1 {
				return true
			}
			call, ok := as.Rhs[0].(*ast.CallExpr)
			if !ok || exprText(call.Fun) != "addRead" || len(call.Args) != 1 {
				return true
			}
			lit, ok := call.Args[0].(*ast.CompositeLit)
			if !ok {
				return true
			}
			var kv []string
			for _, el := range lit.Elts {
				if p, ok := el.(*ast.KeyValueExpr); ok {
					kv = append(kv, exprText(p.Key)+":"+exprText(p.Value))
				}
			}
			reads = append(reads, c36Ev{exprText(as.Lhs[0]), strings.Join(kv, ",")})
			return true
		})
		emit("planning steps of App."+m+" in source order", m, evs)
		emit("fact reads registered by App."+m+": (plan slot, read key)", m+"Reads", reads)
	}
	// ---- resolveSendBatchPermissions: eligibility of the batched path
	_, sf, err := parseFile(repo, "internal/usecase/message/send.go")
	if err != nil {
		return "", err
	}
	fd := findMethod(sf, "App", "resolveSendBatchPermissions")
	if fd == nil {
		return "", fmt.Errorf("send.go: resolveSendBatchPermissions not found")
	}
	var elig []c36Ev
	ast.Inspect(fd.Body, func(n ast.Node) bool {
		r, ok := n.(*ast.RangeStmt)
		if !ok || exprText(r.X) != "groups" {
			return true
		}
		for _, st := range r.Body.List {
			ifs, ok := st.(*ast.IfStmt)
			if !ok {
				continue
			}
			for _, s := range ifs.Body.List {
				sw, ok := s.(*ast.SwitchStmt)
				if !ok {
					continue
				}
				for _, cc := range sw.Body.List {
					cl := cc.(*ast.CaseClause)
					var vs []string
					for _, e := range cl.List {
						vs = append(vs, exprText(e))
					}
					act := ""
					for _, bs := range cl.Body {
						if as, ok := bs.(*ast.AssignStmt); ok {
							act = exprText(as.Lhs[0])
						}
					}
					elig = append(elig, c36Ev{exprText(ifs.Cond) + " && case " + exprText(sw.Tag) + "=" + strings.Join(vs, "|"), act})
				}
			}
		}
		return false
	})
	if len(elig) == 0 {
		return "", fmt.Errorf("resolveSendBatchPermissions: batch eligibility switch not found")
	}
	emit("which permission scopes take the batched path (condition, target list)", "batchEligibility", elig)
	// message.New: the batch store is dropped when the permission cache is on
	_, af, err := parseFile(repo, "internal/usecase/message/app.go")
	if err != nil {
		return "", err
	}
	nf := findFunc(af, "New")
	if nf == nil {
		return "", fmt.Errorf("app.go: New not found")
	}
	var nevs []c36Ev
	for _, st := range nf.Body.List {
		if ifs, ok := st.(*ast.IfStmt); ok && strings.Contains(exprText(ifs.Cond), "PermissionCacheTTL") {
			for _, s := range ifs.Body.List {
				nevs = append(nevs, c36Ev{exprText(ifs.Cond), c36Stmt(s)})
			}
		}
	}
	emit("message.New: when the batch store is installed", "newBatchStore", nevs)
	b.WriteString("end WK.Gen.C36\n")
	return b.String(), nil
}

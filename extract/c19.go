package main

// C19 — T tie.  Reads the ordered list of file-system relevant calls out of
// `(*Store).Save` (pkg/controller/statefile/store.go), following the straight
// line success path (every `if err != nil { ... return ... }` is an abort
// point), and the read/decode pair out of `(*Store).Load`.  The result is
// lean/WK/Gen/C19.lean; the crash-atomicity theorems are stated about
// `WK.Gen.C19.saveOps`.

import (
	"fmt"
	"go/ast"
	"go/parser"
	"go/token"
	"os"
	"path/filepath"
	"sort"
	"strings"
)

func init() { register("C19", extractC19) }

type c19walk struct {
	recv    string            // receiver variable of Save
	env     map[string]string // local variable -> symbol (ENC, DIR, BASE, TMPFD, TMPNAME)
	ops     []string          // Lean terms
	src     []string          // Go text of each op (comment)
	defRm   bool              // the deferred `if !keepTemp { os.Remove(tmpPath) }` is present
	keepVar string
	file    *ast.File
	done    bool
	errEff  []string // effectful calls inside the `if err != nil { ... }` abort branches other than <temp fd>.Close()
}

// errBranch records every call inside an abort branch that is neither pure
// nor a Close of the temp file descriptor (closures included).
func (w *c19walk) errBranch(b *ast.BlockStmt) {
	ast.Inspect(b, func(n ast.Node) bool {
		c, ok := n.(*ast.CallExpr)
		if !ok {
			return true
		}
		f := exprText(c.Fun)
		if c19Pure[f] || f == "ctx.Err" {
			return true
		}
		if sel, ok := c.Fun.(*ast.SelectorExpr); ok && sel.Sel.Name == "Close" && len(c.Args) == 0 && w.sym(sel.X) == "TMPFD" {
			return true
		}
		w.errEff = append(w.errEff, exprText(c))
		return true
	})
}

func (w *c19walk) sym(e ast.Expr) string {
	t := exprText(e)
	if s, ok := w.env[t]; ok {
		return s
	}
	if t == w.recv+".path" {
		return "PATH"
	}
	if b, ok := e.(*ast.BinaryExpr); ok && b.Op == token.ADD {
		// a deterministic temp name: s.path + ".tmp"
		if _, lit := b.Y.(*ast.BasicLit); lit && w.sym(b.X) == "PATH" {
			return "TMPNAME"
		}
	}
	if c, ok := e.(*ast.CallExpr); ok {
		f := exprText(c.Fun)
		if f == "filepath.Dir" && len(c.Args) == 1 && w.sym(c.Args[0]) == "PATH" {
			return "DIR"
		}
		if f == "filepath.Base" && len(c.Args) == 1 && w.sym(c.Args[0]) == "PATH" {
			return "BASE"
		}
		if sel, ok := c.Fun.(*ast.SelectorExpr); ok && sel.Sel.Name == "Name" && len(c.Args) == 0 && w.sym(sel.X) == "TMPFD" {
			return "TMPNAME"
		}
	}
	return "?" + t
}

func (w *c19walk) emit(lean string, e ast.Expr) {
	w.ops = append(w.ops, lean)
	w.src = append(w.src, exprText(e))
}

var c19Pure = map[string]bool{"fmt.Errorf": true, "filepath.Dir": true, "filepath.Base": true, "filepath.Join": true, "errors.Is": true, "len": true, "string": true}

// call handles one call expression on the success path; lhs are the variables
// the call's results are bound to (may be nil).
func (w *c19walk) call(c *ast.CallExpr, lhs []ast.Expr) error {
	f := exprText(c.Fun)
	bind := func(i int, s string) {
		if i < len(lhs) {
			if n := exprText(lhs[i]); n != "_" {
				w.env[n] = s
			}
		}
	}
	// nested calls in arguments first (source order of evaluation)
	for _, a := range c.Args {
		if ac, ok := a.(*ast.CallExpr); ok {
			if s := w.sym(ac); strings.HasPrefix(s, "?") && !c19Pure[exprText(ac.Fun)] {
				if err := w.call(ac, nil); err != nil {
					return err
				}
			}
		}
	}
	switch {
	case f == "ctx.Err":
		return nil
	case f == "state.Encode":
		bind(0, "ENC")
		return nil
	case f == "filepath.Dir" || f == "filepath.Base":
		bind(0, w.sym(c))
		return nil
	case f == "os.CreateTemp":
		if len(c.Args) != 2 || w.sym(c.Args[0]) != "DIR" {
			return fmt.Errorf("os.CreateTemp: the temp file is not created in filepath.Dir(%s.path) (got %s)", w.recv, exprText(c))
		}
		w.emit(".createTemp", c)
		bind(0, "TMPFD")
		return nil
	case f == "os.OpenFile":
		// a temp file under a DETERMINISTIC name (no os.CreateTemp)
		if len(c.Args) == 3 && w.sym(c.Args[0]) == "TMPNAME" {
			flags := exprText(c.Args[1])
			if strings.Contains(flags, "O_EXCL") || !strings.Contains(flags, "O_CREATE") {
				return fmt.Errorf("os.OpenFile(%s): unsupported flags for the temp file", flags)
			}
			w.emit(fmt.Sprintf(".openFixed %v", strings.Contains(flags, "O_TRUNC")), c)
			bind(0, "TMPFD")
			return nil
		}
		w.emit(".other "+leanStr(exprText(c)), c)
		return nil
	case f == "os.Rename":
		if len(c.Args) != 2 {
			return fmt.Errorf("os.Rename: %s", exprText(c))
		}
		ref := func(e ast.Expr) (string, error) {
			switch w.sym(e) {
			case "TMPNAME":
				return ".tmp", nil
			case "PATH":
				return ".path", nil
			}
			return "", fmt.Errorf("os.Rename: argument %s is neither the temp name nor %s.path", exprText(e), w.recv)
		}
		a, err := ref(c.Args[0])
		if err != nil {
			return err
		}
		b, err := ref(c.Args[1])
		if err != nil {
			return err
		}
		w.emit(fmt.Sprintf(".rename %s %s", a, b), c)
		return nil
	case f == "os.Remove":
		if len(c.Args) == 1 && w.sym(c.Args[0]) == "TMPNAME" {
			w.emit(".removeTmp", c)
			return nil
		}
		w.emit(".other "+leanStr(exprText(c)), c)
		return nil
	case f == "syncDir":
		if len(c.Args) != 1 || w.sym(c.Args[0]) != "DIR" {
			return fmt.Errorf("syncDir: argument is not filepath.Dir(%s.path): %s", w.recv, exprText(c))
		}
		if err := c19CheckSyncDir(w.file); err != nil {
			return err
		}
		w.emit(".fsyncDir", c)
		return nil
	case f == w.recv+".afterTempWrite":
		w.emit(".hook", c)
		return nil
	}
	if sel, ok := c.Fun.(*ast.SelectorExpr); ok {
		switch w.sym(sel.X) {
		case "TMPFD":
			switch sel.Sel.Name {
			case "Name":
				bind(0, "TMPNAME")
				return nil
			case "Write":
				if len(c.Args) == 1 {
					w.emit(fmt.Sprintf(".write %v", w.sym(c.Args[0]) == "ENC"), c)
					return nil
				}
			case "Sync":
				w.emit(".fsync", c)
				return nil
			case "Close":
				w.emit(".close", c)
				return nil
			}
			w.emit(".other "+leanStr(exprText(c)), c)
			return nil
		}
	}
	if c19Pure[f] {
		return nil
	}
	// an unknown call: keep it visible in the list (the proofs treat it as a no-op,
	// the list no longer matches the shape the proofs expect only if it matters)
	w.emit(".other "+leanStr(exprText(c)), c)
	return nil
}

func c19EndsInReturn(b *ast.BlockStmt) bool {
	if b == nil || len(b.List) == 0 {
		return false
	}
	_, ok := b.List[len(b.List)-1].(*ast.ReturnStmt)
	return ok
}

func (w *c19walk) stmt(s ast.Stmt) error {
	if w.done {
		return fmt.Errorf("statement after the final return")
	}
	switch x := s.(type) {
	case *ast.AssignStmt:
		if len(x.Rhs) == 1 {
			if c, ok := x.Rhs[0].(*ast.CallExpr); ok {
				return w.call(c, x.Lhs)
			}
			t := exprText(x.Rhs[0])
			if len(x.Lhs) == 1 && (t == "false" || t == "true") {
				name := exprText(x.Lhs[0])
				if x.Tok == token.DEFINE && t == "false" {
					w.keepVar = name
					return nil
				}
				if x.Tok == token.ASSIGN && name == w.keepVar && t == "true" {
					w.ops = append(w.ops, ".setKeep")
					w.src = append(w.src, name+" = true")
					return nil
				}
			}
			if len(x.Lhs) == 1 {
				// plain alias
				if sy := w.sym(x.Rhs[0]); !strings.HasPrefix(sy, "?") {
					w.env[exprText(x.Lhs[0])] = sy
					return nil
				}
			}
		}
		return fmt.Errorf("unsupported assignment %s", c19StmtText(s))
	case *ast.ExprStmt:
		if c, ok := x.X.(*ast.CallExpr); ok {
			return w.call(c, nil)
		}
		return fmt.Errorf("unsupported expression statement")
	case *ast.IfStmt:
		if x.Else != nil {
			return fmt.Errorf("unsupported if/else in Save")
		}
		if x.Init != nil {
			if err := w.stmt(x.Init); err != nil {
				return err
			}
		}
		cond := exprText(x.Cond)
		switch {
		case cond == "err!=nil":
			if !c19EndsInReturn(x.Body) {
				return fmt.Errorf("error branch does not return")
			}
			w.errBranch(x.Body)
			return nil
		case cond == w.recv+".afterTempWrite!=nil":
			for _, b := range x.Body.List {
				if err := w.stmt(b); err != nil {
					return err
				}
			}
			return nil
		}
		return fmt.Errorf("unsupported condition `%s` on the save path", cond)
	case *ast.DeferStmt:
		// defer func() { if !keepTemp { _ = os.Remove(tmpPath) } }()
		fl, ok := x.Call.Fun.(*ast.FuncLit)
		if ok && len(fl.Body.List) == 1 {
			if ifs, ok := fl.Body.List[0].(*ast.IfStmt); ok && ifs.Else == nil && exprText(ifs.Cond) == "!"+w.keepVar && len(ifs.Body.List) == 1 {
				if as, ok := ifs.Body.List[0].(*ast.AssignStmt); ok && len(as.Rhs) == 1 {
					if c, ok := as.Rhs[0].(*ast.CallExpr); ok && exprText(c.Fun) == "os.Remove" && len(c.Args) == 1 && w.sym(c.Args[0]) == "TMPNAME" {
						w.defRm = true
						return nil
					}
				}
			}
		}
		return fmt.Errorf("unsupported defer in Save")
	case *ast.ReturnStmt:
		if len(x.Results) == 1 && exprText(x.Results[0]) == "nil" {
			w.done = true
			return nil
		}
		if len(x.Results) == 1 {
			if c, ok := x.Results[0].(*ast.CallExpr); ok {
				// `return syncDir(dir)` style tail call
				if err := w.call(c, nil); err != nil {
					return err
				}
				w.done = true
				return nil
			}
		}
		return fmt.Errorf("unsupported return on the save path")
	case *ast.DeclStmt:
		return nil
	}
	return fmt.Errorf("unsupported statement %T in Save", s)
}

func c19StmtText(s ast.Stmt) string {
	if a, ok := s.(*ast.AssignStmt); ok && len(a.Lhs) > 0 && len(a.Rhs) > 0 {
		return exprText(a.Lhs[0]) + " " + a.Tok.String() + " " + exprText(a.Rhs[0])
	}
	return fmt.Sprintf("%T", s)
}

// syncDir(dir) must open its parameter and fsync that handle.
func c19CheckSyncDir(f *ast.File) error {
	fd := findFunc(f, "syncDir")
	if fd == nil || len(fd.Type.Params.List) != 1 || len(fd.Type.Params.List[0].Names) != 1 {
		return fmt.Errorf("syncDir(dir) not found")
	}
	p := fd.Type.Params.List[0].Names[0].Name
	handle := ""
	synced := false
	for _, s := range fd.Body.List {
		ast.Inspect(s, func(n ast.Node) bool {
			switch x := n.(type) {
			case *ast.AssignStmt:
				if len(x.Rhs) == 1 {
					if c, ok := x.Rhs[0].(*ast.CallExpr); ok && exprText(c.Fun) == "os.Open" && len(c.Args) == 1 && exprText(c.Args[0]) == p && len(x.Lhs) >= 1 {
						handle = exprText(x.Lhs[0])
					}
				}
			case *ast.CallExpr:
				if handle != "" && exprText(x.Fun) == handle+".Sync" {
					synced = true
				}
			}
			return true
		})
	}
	if handle == "" || !synced {
		return fmt.Errorf("syncDir no longer opens its argument and calls Sync on it")
	}
	// the Sync error must be propagated
	for _, s := range fd.Body.List {
		if ifs, ok := s.(*ast.IfStmt); ok && ifs.Init != nil {
			if as, ok := ifs.Init.(*ast.AssignStmt); ok && len(as.Rhs) == 1 && exprText(as.Rhs[0]) == handle+".Sync()" {
				if exprText(ifs.Cond) == "err!=nil" && c19EndsInReturn(ifs.Body) {
					return nil
				}
			}
		}
	}
	return fmt.Errorf("syncDir does not return the Sync error")
}

// c19Mutating says whether a call can change the file system: every os.* function
// outside a read-only allow-list, every call into ioutil/syscall/unix/exec, the
// writer helpers of fmt/io, and every method named like a writer.
func c19Mutating(c *ast.CallExpr) bool {
	f := exprText(c.Fun)
	ro := map[string]bool{"os.ReadFile": true, "os.Open": true, "os.Stat": true, "os.Lstat": true, "os.ReadDir": true,
		"os.Getenv": true, "os.LookupEnv": true, "os.IsNotExist": true, "os.IsExist": true, "os.IsPermission": true,
		"os.Getwd": true, "os.Getpid": true, "os.Hostname": true, "os.Readlink": true, "os.FileMode": true, "os.DirFS": true}
	if strings.HasPrefix(f, "os.") {
		return !ro[f]
	}
	for _, p := range []string{"ioutil.", "syscall.", "unix.", "exec.", "fmt.Fprint", "io.Copy", "io.WriteString"} {
		if strings.HasPrefix(f, p) {
			return true
		}
	}
	if sel, ok := c.Fun.(*ast.SelectorExpr); ok {
		switch sel.Sel.Name {
		case "Write", "WriteString", "WriteAt", "WriteTo", "ReadFrom", "Truncate", "Chmod", "Chown", "Remove", "RemoveAll", "Rename":
			return true
		}
	}
	return false
}

// c19Mutators lists (function, call) for every file-system mutating call in
// every non-test Go file of the statefile package (any build tag).
func c19Mutators(repo string) ([][2]string, error) {
	dir := filepath.Join(repo, "pkg/controller/statefile")
	ents, err := os.ReadDir(dir)
	if err != nil {
		return nil, err
	}
	var names []string
	for _, e := range ents {
		if !e.IsDir() && strings.HasSuffix(e.Name(), ".go") && !strings.HasSuffix(e.Name(), "_test.go") {
			names = append(names, e.Name())
		}
	}
	sort.Strings(names)
	var out [][2]string
	for _, n := range names {
		f, err := parser.ParseFile(token.NewFileSet(), filepath.Join(dir, n), nil, 0)
		if err != nil {
			return nil, err
		}
		for _, d := range f.Decls {
			owner := "<package-level " + n + ">"
			if fd, ok := d.(*ast.FuncDecl); ok {
				owner = fd.Name.Name
				if fd.Recv != nil && len(fd.Recv.List) == 1 {
					t := fd.Recv.List[0].Type
					if st, ok := t.(*ast.StarExpr); ok {
						t = st.X
					}
					owner = exprText(t) + "." + owner
				}
			}
			ast.Inspect(d, func(x ast.Node) bool {
				if c, ok := x.(*ast.CallExpr); ok && c19Mutating(c) {
					out = append(out, [2]string{owner, exprText(c.Fun)})
				}
				return true
			})
		}
	}
	return out, nil
}

func extractC19(repo string) (string, error) {
	_, f, err := parseFile(repo, "pkg/controller/statefile/store.go")
	if err != nil {
		return "", err
	}
	save := findMethod(f, "Store", "Save")
	if save == nil || save.Recv == nil || len(save.Recv.List[0].Names) != 1 {
		return "", fmt.Errorf("store.go: (*Store).Save not found")
	}
	w := &c19walk{recv: save.Recv.List[0].Names[0].Name, env: map[string]string{}, file: f}
	for _, s := range save.Body.List {
		if err := w.stmt(s); err != nil {
			return "", fmt.Errorf("Save: %v", err)
		}
	}
	if !w.done {
		return "", fmt.Errorf("Save: no final `return nil`")
	}

	// Load: data, err := os.ReadFile(s.path) ... st, err := state.Decode(data) ... return st, nil
	load := findMethod(f, "Store", "Load")
	if load == nil || load.Recv == nil || len(load.Recv.List[0].Names) != 1 {
		return "", fmt.Errorf("store.go: (*Store).Load not found")
	}
	lr := load.Recv.List[0].Names[0].Name
	dataVar, stVar := "", ""
	decodeChecked := false
	returnsDecoded := false
	for i, s := range load.Body.List {
		switch x := s.(type) {
		case *ast.AssignStmt:
			if len(x.Rhs) == 1 && len(x.Lhs) == 2 {
				t := exprText(x.Rhs[0])
				if t == "os.ReadFile("+lr+".path)" {
					dataVar = exprText(x.Lhs[0])
				}
				if dataVar != "" && t == "state.Decode("+dataVar+")" {
					stVar = exprText(x.Lhs[0])
					// the next statement must return on error
					if i+1 < len(load.Body.List) {
						if ifs, ok := load.Body.List[i+1].(*ast.IfStmt); ok && exprText(ifs.Cond) == "err!=nil" && c19EndsInReturn(ifs.Body) {
							decodeChecked = true
						}
					}
				}
			}
		case *ast.ReturnStmt:
			if stVar != "" && len(x.Results) == 2 && exprText(x.Results[0]) == stVar && exprText(x.Results[1]) == "nil" && i == len(load.Body.List)-1 {
				returnsDecoded = true
			}
		}
	}
	if dataVar == "" {
		return "", fmt.Errorf("Load: os.ReadFile(%s.path) not found", lr)
	}

	var b strings.Builder
	b.WriteString("import WK.Model.C19\nnamespace WK.Gen.C19\nopen WK.C19\n\n")
	b.WriteString("/-- the file-system relevant calls of `(*Store).Save`, success path, source order -/\ndef saveOps : List Op := [\n")
	for i, o := range w.ops {
		sep := ","
		if i == len(w.ops)-1 {
			sep = ""
		}
		fmt.Fprintf(&b, "  %s%s  -- %s\n", o, sep, w.src[i])
	}
	b.WriteString("]\n\n")
	fmt.Fprintf(&b, "/-- `defer func() { if !keepTemp { _ = os.Remove(tmpPath) } }()` is present -/\ndef deferredRemove : Bool := %v\n\n", w.defRm)
	fmt.Fprintf(&b, "/-- `Load` reads `s.path`, passes exactly those bytes to `state.Decode`, returns on its error, and returns the decoded state -/\ndef loadDecodesPath : Bool := %v\n\n", stVar != "" && decodeChecked && returnsDecoded)
	muts, err := c19Mutators(repo)
	if err != nil {
		return "", err
	}
	b.WriteString("/-- (function, callee) of EVERY call that can change the file system in the non-test files of pkg/controller/statefile -/\ndef fsMutators : List (String × String) := [")
	for i, m := range muts {
		if i > 0 {
			b.WriteString(", ")
		}
		fmt.Fprintf(&b, "(%s, %s)", leanStr(m[0]), leanStr(m[1]))
	}
	b.WriteString("]\n\n")
	b.WriteString("/-- effectful calls inside the `if err != nil { … return … }` abort branches of `Save`, other than `<temp fd>.Close()` -/\ndef errBranchEffects : List String := [")
	for i, m := range w.errEff {
		if i > 0 {
			b.WriteString(", ")
		}
		b.WriteString(leanStr(m))
	}
	b.WriteString("]\n\n")
	b.WriteString("end WK.Gen.C19\n")
	return b.String(), nil
}

package main

// C26 (part 1): regenerate the node-transport header codec from
// pkg/transport/wire/frame.go, pkg/transport/internal/core/types.go and the
// call order of pkg/transport/wire/reader.go into lean/WK/Gen/C26.lean.
//
// The translator understands a small whitelisted statement/expression subset
// (fixed-offset big-endian stores and loads, comparisons against constants,
// early error returns) and refuses anything else.

import (
	"bytes"
	"fmt"
	"go/ast"
	"go/printer"
	"go/token"
	"strconv"
	"strings"
)

func init() { register("C26", extractC26) }

type c26Const struct {
	name string
	val  uint64
}

// c26ConstBlocks evaluates every numeric constant of the file's const blocks
// (literals, `T(lit)`, `iota`, `iota + k`, implicit repetition).
func c26ConstBlocks(f *ast.File) ([]c26Const, error) {
	var out []c26Const
	for _, d := range f.Decls {
		gd, ok := d.(*ast.GenDecl)
		if !ok || gd.Tok != token.CONST {
			continue
		}
		var last ast.Expr
		for i, sp := range gd.Specs {
			vs := sp.(*ast.ValueSpec)
			var e ast.Expr
			if len(vs.Values) == 1 && len(vs.Names) == 1 {
				e = vs.Values[0]
				last = e
			} else if len(vs.Values) == 0 && len(vs.Names) == 1 && last != nil {
				e = last
			} else {
				continue
			}
			v, ok := c26EvalConst(e, uint64(i))
			if !ok {
				continue // strings etc.
			}
			out = append(out, c26Const{vs.Names[0].Name, v})
		}
	}
	return out, nil
}

func c26EvalConst(e ast.Expr, iota uint64) (uint64, bool) {
	switch x := e.(type) {
	case *ast.BasicLit:
		if x.Kind != token.INT {
			return 0, false
		}
		v, err := strconv.ParseUint(strings.ReplaceAll(x.Value, "_", ""), 0, 64)
		return v, err == nil
	case *ast.Ident:
		if x.Name == "iota" {
			return iota, true
		}
		return 0, false
	case *ast.ParenExpr:
		return c26EvalConst(x.X, iota)
	case *ast.CallExpr:
		if _, ok := tyOfName(exprText(x.Fun)); ok && len(x.Args) == 1 {
			return c26EvalConst(x.Args[0], iota)
		}
		return 0, false
	case *ast.BinaryExpr:
		a, ok1 := c26EvalConst(x.X, iota)
		b, ok2 := c26EvalConst(x.Y, iota)
		if !ok1 || !ok2 {
			return 0, false
		}
		switch x.Op {
		case token.ADD:
			return a + b, true
		case token.SUB:
			return a - b, true
		case token.SHL:
			return a << b, true
		case token.MUL:
			return a * b, true
		}
	}
	return 0, false
}

// c26x translates Go expressions over naturals/ints/bools to Lean.
type c26x struct {
	consts map[string]bool   // Go constant names (also as `core.Name`) -> defined in Lean under the same name
	vars   map[string]string // variable -> "nat" | "int"
	subst  map[string]string // variable -> already translated Lean expression (nat)
	hdr    string            // name of the Header variable (fields become `.kind` ...)
	buf    string            // name of the byte buffer
}

var c26Fields = map[string]string{"Kind": "kind", "Priority": "priority", "ServiceID": "serviceID", "RequestID": "requestID", "BodyLen": "bodyLen"}
var c26FieldBits = map[string]int{"Kind": 8, "Priority": 8, "ServiceID": 16, "RequestID": 64, "BodyLen": 32}

func (x *c26x) constName(e ast.Expr) (string, bool) {
	t := exprText(e)
	t = strings.TrimPrefix(t, "core.")
	if x.consts[t] {
		return t, true
	}
	return "", false
}

// offsetOf recognises `buf[OFF:]` and `buf[OFF]`.
func (x *c26x) offsetOf(e ast.Expr) (string, bool) {
	switch s := e.(type) {
	case *ast.SliceExpr:
		if exprText(s.X) != x.buf || s.High != nil || s.Max != nil || s.Low == nil {
			return "", false
		}
		return x.offExpr(s.Low)
	case *ast.IndexExpr:
		if exprText(s.X) != x.buf {
			return "", false
		}
		return x.offExpr(s.Index)
	}
	return "", false
}

func (x *c26x) offExpr(e ast.Expr) (string, bool) {
	if n, ok := x.constName(e); ok {
		return n, true
	}
	if l, ok := e.(*ast.BasicLit); ok && l.Kind == token.INT {
		return l.Value, true
	}
	return "", false
}

func c26BEWidth(fun string, put bool) (int, bool) {
	p := "binary.BigEndian.Uint"
	if put {
		p = "binary.BigEndian.PutUint"
	}
	if !strings.HasPrefix(fun, p) {
		return 0, false
	}
	switch fun[len(p):] {
	case "16":
		return 2, true
	case "32":
		return 4, true
	case "64":
		return 8, true
	}
	return 0, false
}

// expr returns (lean, type) with type in nat|int|bool|lit.
func (x *c26x) expr(e ast.Expr) (string, string, error) {
	switch v := e.(type) {
	case *ast.ParenExpr:
		s, t, err := x.expr(v.X)
		return "(" + s + ")", t, err
	case *ast.BasicLit:
		if v.Kind != token.INT {
			return "", "", fmt.Errorf("unsupported literal %s", v.Value)
		}
		n, err := strconv.ParseUint(strings.ReplaceAll(v.Value, "_", ""), 0, 64)
		if err != nil {
			return "", "", err
		}
		return fmt.Sprint(n), "lit", nil
	case *ast.Ident:
		if s, ok := x.subst[v.Name]; ok {
			return s, "nat", nil
		}
		if t, ok := x.vars[v.Name]; ok {
			return v.Name, t, nil
		}
		if n, ok := x.constName(v); ok {
			return n, "nat", nil
		}
		return "", "", fmt.Errorf("unknown identifier %s", v.Name)
	case *ast.SelectorExpr:
		if n, ok := x.constName(v); ok {
			return n, "nat", nil
		}
		if exprText(v.X) == x.hdr && x.hdr != "" {
			if f, ok := c26Fields[v.Sel.Name]; ok {
				return x.hdr + "." + f, "nat", nil
			}
		}
		return "", "", fmt.Errorf("unsupported selector %s", exprText(v))
	case *ast.IndexExpr:
		if off, ok := x.offsetOf(v); ok {
			return fmt.Sprintf("(rd %s %s 1)", x.buf, off), "nat", nil
		}
		return "", "", fmt.Errorf("unsupported index %s", exprText(v))
	case *ast.UnaryExpr:
		if v.Op == token.NOT {
			s, t, err := x.expr(v.X)
			if err != nil {
				return "", "", err
			}
			if t != "bool" {
				return "", "", fmt.Errorf("! on non-bool %s", exprText(v))
			}
			return "(!" + s + ")", "bool", nil
		}
		return "", "", fmt.Errorf("unsupported unary %s", exprText(v))
	case *ast.CallExpr:
		fn := exprText(v.Fun)
		if fn == "len" && len(v.Args) == 1 && exprText(v.Args[0]) == x.buf {
			return x.buf + ".length", "nat", nil
		}
		if w, ok := c26BEWidth(fn, false); ok && len(v.Args) == 1 {
			off, ok := x.offsetOf(v.Args[0])
			if !ok {
				return "", "", fmt.Errorf("unsupported load %s", exprText(v))
			}
			return fmt.Sprintf("(rd %s %s %d)", x.buf, off, w), "nat", nil
		}
		bits := 0
		if t, ok := tyOfName(fn); ok {
			bits = t.bits
		} else if fn == "core.FrameKind" || fn == "core.Priority" {
			bits = 8
		}
		if bits > 0 && len(v.Args) == 1 {
			s, t, err := x.expr(v.Args[0])
			if err != nil {
				return "", "", err
			}
			switch t {
			case "nat", "lit":
				return fmt.Sprintf("(%s %% 2 ^ %d)", s, bits), "nat", nil
			case "int":
				return fmt.Sprintf("(Int.toNat (%s %% (2 : Int) ^ %d))", s, bits), "nat", nil
			}
			return "", "", fmt.Errorf("conversion of %s value %s", t, exprText(v))
		}
		if fn == "bodyExceedsMax" && len(v.Args) == 2 {
			a, ta, err := x.expr(v.Args[0])
			if err != nil {
				return "", "", err
			}
			b, tb, err := x.expr(v.Args[1])
			if err != nil {
				return "", "", err
			}
			if ta != "nat" || tb != "int" {
				return "", "", fmt.Errorf("bodyExceedsMax argument types %s,%s", ta, tb)
			}
			return fmt.Sprintf("(bodyExceedsMax %s %s)", a, b), "bool", nil
		}
		if sel, ok := v.Fun.(*ast.SelectorExpr); ok && len(v.Args) == 0 && sel.Sel.Name == "Valid" {
			recv := exprText(sel.X)
			switch {
			case recv == x.hdr+".Kind":
				return fmt.Sprintf("(kindValid %s.kind)", x.hdr), "bool", nil
			case recv == x.hdr+".Priority":
				return fmt.Sprintf("(priorityValid %s.priority)", x.hdr), "bool", nil
			case x.vars[recv] == "nat" && x.subst["@validFn"] != "":
				return fmt.Sprintf("(%s %s)", x.subst["@validFn"], recv), "bool", nil
			}
		}
		return "", "", fmt.Errorf("unsupported call %s", exprText(v))
	case *ast.BinaryExpr:
		if v.Op == token.LAND || v.Op == token.LOR {
			a, ta, err := x.expr(v.X)
			if err != nil {
				return "", "", err
			}
			b, tb, err := x.expr(v.Y)
			if err != nil {
				return "", "", err
			}
			if ta != "bool" || tb != "bool" {
				return "", "", fmt.Errorf("logical operator on non-bool in %s", exprText(v))
			}
			op := "&&"
			if v.Op == token.LOR {
				op = "||"
			}
			return fmt.Sprintf("(%s %s %s)", a, op, b), "bool", nil
		}
		var op string
		switch v.Op {
		case token.EQL:
			op = "="
		case token.NEQ:
			op = "≠"
		case token.LSS:
			op = "<"
		case token.GTR:
			op = ">"
		case token.LEQ:
			op = "≤"
		case token.GEQ:
			op = "≥"
		default:
			return "", "", fmt.Errorf("unsupported operator %s in %s", v.Op, exprText(v))
		}
		a, ta, err := x.expr(v.X)
		if err != nil {
			return "", "", err
		}
		b, tb, err := x.expr(v.Y)
		if err != nil {
			return "", "", err
		}
		if ta == "lit" {
			ta = tb
		}
		if tb == "lit" {
			tb = ta
		}
		if ta != tb || (ta != "nat" && ta != "int") {
			return "", "", fmt.Errorf("comparison of %s with %s in %s", ta, tb, exprText(v))
		}
		if ta == "int" {
			return fmt.Sprintf("(decide ((%s : Int) %s (%s : Int)))", a, op, b), "bool", nil
		}
		return fmt.Sprintf("(decide ((%s : Nat) %s (%s : Nat)))", a, op, b), "bool", nil
	}
	return "", "", fmt.Errorf("unsupported expression %s", exprText(e))
}

// errClassOfReturn recognises `return Header{}, fmt.Errorf("%w...", core.ErrX, ...)`.
func c26ErrClass(r *ast.ReturnStmt, errVars map[string]string) (string, error) {
	if len(r.Results) != 2 || c26Text(r.Results[0]) != "Header{}" {
		return "", fmt.Errorf("unexpected return %s", exprTextList(r.Results))
	}
	return c26ErrExpr(r.Results[1], errVars)
}

// c26Text is exprText plus empty composite literals (`Header{}`).
func c26Text(e ast.Expr) string {
	if cl, ok := e.(*ast.CompositeLit); ok && len(cl.Elts) == 0 {
		return exprText(cl.Type) + "{}"
	}
	return exprText(e)
}

func exprTextList(es []ast.Expr) string {
	var s []string
	for _, e := range es {
		s = append(s, exprText(e))
	}
	return strings.Join(s, ", ")
}

func c26ErrExpr(e ast.Expr, errVars map[string]string) (string, error) {
	if id, ok := e.(*ast.Ident); ok {
		if c, ok := errVars[id.Name]; ok {
			return c, nil
		}
	}
	c, ok := e.(*ast.CallExpr)
	if !ok || exprText(c.Fun) != "fmt.Errorf" || len(c.Args) < 2 {
		return "", fmt.Errorf("unexpected error value %s", exprText(e))
	}
	lit, ok := c.Args[0].(*ast.BasicLit)
	if !ok || !strings.HasPrefix(lit.Value, "\"%w") {
		return "", fmt.Errorf("error format does not start with %%w: %s", exprText(e))
	}
	switch strings.TrimPrefix(exprText(c.Args[1]), "core.") {
	case "ErrInvalidFrame":
		return ".invalidFrame", nil
	case "ErrInvalidPriority":
		return ".invalidPriority", nil
	case "ErrMsgTooLarge":
		return ".msgTooLarge", nil
	}
	return "", fmt.Errorf("unknown error sentinel %s", exprText(c.Args[1]))
}

// c26ValidRange translates `func (k T) Valid() bool { return <bool expr over k and consts> }`.
func c26ValidFunc(f *ast.File, recv string, x *c26x) (string, error) {
	m := findMethod(f, recv, "Valid")
	if m == nil || len(m.Body.List) != 1 {
		return "", fmt.Errorf("%s.Valid: not a single return", recv)
	}
	r, ok := m.Body.List[0].(*ast.ReturnStmt)
	if !ok || len(r.Results) != 1 {
		return "", fmt.Errorf("%s.Valid: not a single return", recv)
	}
	v := m.Recv.List[0].Names[0].Name
	y := &c26x{consts: x.consts, vars: map[string]string{v: "nat"}, subst: map[string]string{}}
	s, t, err := y.expr(r.Results[0])
	if err != nil || t != "bool" {
		return "", fmt.Errorf("%s.Valid: %v", recv, err)
	}
	return fmt.Sprintf("fun (%s : Nat) => %s", v, s), nil
}

func extractC26(repo string) (string, error) {
	var b strings.Builder
	b.WriteString("import WK.Model.C26\nnamespace WK.Gen.C26\nopen WK WK.C26\n\n")

	_, ff, err := parseFile(repo, "pkg/transport/wire/frame.go")
	if err != nil {
		return "", err
	}
	_, cf, err := parseFile(repo, "pkg/transport/internal/core/types.go")
	if err != nil {
		return "", err
	}
	x := &c26x{consts: map[string]bool{}, vars: map[string]string{}, subst: map[string]string{}}
	for _, f := range []*ast.File{cf, ff} {
		cs, err := c26ConstBlocks(f)
		if err != nil {
			return "", err
		}
		for _, c := range cs {
			if x.consts[c.name] {
				return "", fmt.Errorf("duplicate constant %s", c.name)
			}
			x.consts[c.name] = true
			fmt.Fprintf(&b, "def %s : Nat := %d\n", c.name, c.val)
		}
	}
	for _, need := range []string{"HeaderSize", "Magic", "Version"} {
		if !x.consts[need] {
			return "", fmt.Errorf("constant %s not found", need)
		}
	}
	b.WriteString("\n")

	// FrameKind.Valid / Priority.Valid / Priority.Validate
	kv, err := c26ValidFunc(cf, "FrameKind", x)
	if err != nil {
		return "", err
	}
	pv, err := c26ValidFunc(cf, "Priority", x)
	if err != nil {
		return "", err
	}
	fmt.Fprintf(&b, "/-- core.FrameKind.Valid -/\ndef kindValid : Nat → Bool := %s\n", kv)
	fmt.Fprintf(&b, "/-- core.Priority.Valid -/\ndef priorityValid : Nat → Bool := %s\n\n", pv)
	// Priority.Validate: `if p.Valid() { return nil }; return fmt.Errorf("%w...", ErrInvalidPriority, p)`
	vm := findMethod(cf, "Priority", "Validate")
	if vm == nil || len(vm.Body.List) != 2 {
		return "", fmt.Errorf("Priority.Validate: unexpected shape")
	}
	pvRecv := vm.Recv.List[0].Names[0].Name
	ifs, ok := vm.Body.List[0].(*ast.IfStmt)
	if !ok || ifs.Init != nil || ifs.Else != nil || exprText(ifs.Cond) != pvRecv+".Valid()" || len(ifs.Body.List) != 1 || exprTextStmtReturn(ifs.Body.List[0]) != "nil" {
		return "", fmt.Errorf("Priority.Validate: first statement is not `if p.Valid() { return nil }`")
	}
	vr, ok := vm.Body.List[1].(*ast.ReturnStmt)
	if !ok || len(vr.Results) != 1 {
		return "", fmt.Errorf("Priority.Validate: no final return")
	}
	validateErr, err := c26ErrExpr(vr.Results[0], nil)
	if err != nil {
		return "", fmt.Errorf("Priority.Validate: %v", err)
	}

	// bodyExceedsMax
	bf := findFunc(ff, "bodyExceedsMax")
	if bf == nil || len(bf.Body.List) != 2 {
		return "", fmt.Errorf("bodyExceedsMax: unexpected shape")
	}
	var pn, pt []string
	for _, p := range bf.Type.Params.List {
		for _, n := range p.Names {
			pn = append(pn, n.Name)
			pt = append(pt, exprText(p.Type))
		}
	}
	if len(pn) != 2 || pt[0] != "uint32" || pt[1] != "int" {
		return "", fmt.Errorf("bodyExceedsMax: parameters are not (uint32, int)")
	}
	y := &c26x{consts: x.consts, vars: map[string]string{pn[0]: "nat", pn[1]: "int"}, subst: map[string]string{}}
	bi, ok := bf.Body.List[0].(*ast.IfStmt)
	if !ok || bi.Init != nil || bi.Else != nil || len(bi.Body.List) != 1 {
		return "", fmt.Errorf("bodyExceedsMax: first statement is not a guard")
	}
	gc, gt, err := y.expr(bi.Cond)
	if err != nil || gt != "bool" {
		return "", fmt.Errorf("bodyExceedsMax guard: %v", err)
	}
	gv := exprTextStmtReturn(bi.Body.List[0])
	if gv != "true" && gv != "false" {
		return "", fmt.Errorf("bodyExceedsMax: guard returns %q", gv)
	}
	br, ok := bf.Body.List[1].(*ast.ReturnStmt)
	if !ok || len(br.Results) != 1 {
		return "", fmt.Errorf("bodyExceedsMax: no final return")
	}
	rc, rt, err := y.expr(br.Results[0])
	if err != nil || rt != "bool" {
		return "", fmt.Errorf("bodyExceedsMax result: %v", err)
	}
	fmt.Fprintf(&b, "/-- frame.go bodyExceedsMax -/\ndef bodyExceedsMax (%s : Nat) (%s : Int) : Bool :=\n  if %s then %s else %s\n\n", pn[0], pn[1], gc, gv, rc)

	// EncodeHeader
	ef := findFunc(ff, "EncodeHeader")
	if ef == nil || len(ef.Type.Params.List) != 1 || len(ef.Type.Params.List[0].Names) != 1 || exprText(ef.Type.Params.List[0].Type) != "Header" {
		return "", fmt.Errorf("EncodeHeader: not func(Header)")
	}
	hv := ef.Type.Params.List[0].Names[0].Name
	st := ef.Body.List
	if len(st) < 3 {
		return "", fmt.Errorf("EncodeHeader: too short")
	}
	ds, ok := st[0].(*ast.DeclStmt)
	if !ok {
		return "", fmt.Errorf("EncodeHeader: first statement is not `var encoded [HeaderSize]byte`")
	}
	gd := ds.Decl.(*ast.GenDecl)
	vs0, ok := gd.Specs[0].(*ast.ValueSpec)
	if !ok || gd.Tok != token.VAR || len(vs0.Names) != 1 || len(vs0.Values) != 0 || exprTextArray(vs0.Type) != "[HeaderSize]byte" {
		return "", fmt.Errorf("EncodeHeader: first statement is not `var encoded [HeaderSize]byte`")
	}
	ev := vs0.Names[0].Name
	ex := &c26x{consts: x.consts, vars: map[string]string{}, subst: map[string]string{}, hdr: hv, buf: ev}
	var writes []string
	for _, s := range st[1 : len(st)-1] {
		switch v := s.(type) {
		case *ast.ExprStmt:
			c, ok := v.X.(*ast.CallExpr)
			if !ok {
				return "", fmt.Errorf("EncodeHeader: unsupported statement %s", exprText(v.X))
			}
			w, ok := c26BEWidth(exprText(c.Fun), true)
			if !ok || len(c.Args) != 2 {
				return "", fmt.Errorf("EncodeHeader: unsupported call %s", exprText(c))
			}
			off, ok := ex.offsetOf(c.Args[0])
			if !ok {
				return "", fmt.Errorf("EncodeHeader: unsupported store target %s", exprText(c.Args[0]))
			}
			val, t, err := ex.expr(c.Args[1])
			if err != nil || (t != "nat" && t != "lit") {
				return "", fmt.Errorf("EncodeHeader: store value %s: %v", exprText(c.Args[1]), err)
			}
			writes = append(writes, fmt.Sprintf("(%s, %d, %s)", off, w, val))
		case *ast.AssignStmt:
			if v.Tok != token.ASSIGN || len(v.Lhs) != 1 || len(v.Rhs) != 1 {
				return "", fmt.Errorf("EncodeHeader: unsupported assignment")
			}
			ie, ok := v.Lhs[0].(*ast.IndexExpr)
			if !ok {
				return "", fmt.Errorf("EncodeHeader: unsupported assignment target %s", exprText(v.Lhs[0]))
			}
			off, ok := ex.offsetOf(ie)
			if !ok {
				return "", fmt.Errorf("EncodeHeader: unsupported store target %s", exprText(ie))
			}
			val, t, err := ex.expr(v.Rhs[0])
			if err != nil || (t != "nat" && t != "lit") {
				return "", fmt.Errorf("EncodeHeader: store value %s: %v", exprText(v.Rhs[0]), err)
			}
			writes = append(writes, fmt.Sprintf("(%s, 1, %s)", off, val))
		default:
			return "", fmt.Errorf("EncodeHeader: unsupported statement %T", s)
		}
	}
	if exprTextStmtReturn(st[len(st)-1]) != ev {
		return "", fmt.Errorf("EncodeHeader: does not return the buffer")
	}
	fmt.Fprintf(&b, "/-- frame.go EncodeHeader: the stores in source order (offset, width, value) -/\ndef encodeWrites (%s : Header) : List (Nat × Nat × Nat) := [\n  %s]\n\n", hv, strings.Join(writes, ",\n  "))
	fmt.Fprintf(&b, "def encodeHeader (%s : Header) : Bytes :=\n  applyWrites (List.replicate HeaderSize 0) (encodeWrites %s)\n\n", hv, hv)

	// DecodeHeader
	df := findFunc(ff, "DecodeHeader")
	if df == nil {
		return "", fmt.Errorf("DecodeHeader not found")
	}
	pn, pt = nil, nil
	for _, p := range df.Type.Params.List {
		for _, n := range p.Names {
			pn = append(pn, n.Name)
			pt = append(pt, exprTextArray(p.Type))
		}
	}
	if len(pn) != 2 || pt[0] != "[]byte" || pt[1] != "int" {
		return "", fmt.Errorf("DecodeHeader: parameters are not ([]byte, int): %v", pt)
	}
	dx := &c26x{consts: x.consts, vars: map[string]string{pn[1]: "int"}, subst: map[string]string{}, buf: pn[0]}
	errVars := map[string]string{}
	var body strings.Builder
	done := false
	for _, s := range df.Body.List {
		if done {
			return "", fmt.Errorf("DecodeHeader: statements after the final return")
		}
		switch v := s.(type) {
		case *ast.IfStmt:
			if v.Else != nil || len(v.Body.List) != 1 {
				return "", fmt.Errorf("DecodeHeader: unsupported if shape")
			}
			ret, ok := v.Body.List[0].(*ast.ReturnStmt)
			if !ok {
				return "", fmt.Errorf("DecodeHeader: if body is not a return")
			}
			cond := v.Cond
			local := map[string]string{}
			if v.Init != nil {
				as, ok := v.Init.(*ast.AssignStmt)
				if !ok || as.Tok != token.DEFINE || len(as.Lhs) != 1 || len(as.Rhs) != 1 {
					return "", fmt.Errorf("DecodeHeader: unsupported if-init")
				}
				name := exprText(as.Lhs[0])
				// `err := header.Priority.Validate(); err != nil`
				if c, ok := as.Rhs[0].(*ast.CallExpr); ok && exprText(c.Fun) == dx.hdr+".Priority.Validate" && dx.hdr != "" {
					if exprText(cond) != name+"!=nil" {
						return "", fmt.Errorf("DecodeHeader: Validate() result is not checked with != nil")
					}
					errVars[name] = validateErr
					cls, err := c26ErrClass(ret, errVars)
					if err != nil {
						return "", fmt.Errorf("DecodeHeader: %v", err)
					}
					fmt.Fprintf(&body, "  if (!(priorityValid %s.priority)) then .error %s else\n", dx.hdr, cls)
					delete(errVars, name)
					continue
				}
				val, t, err := dx.expr(as.Rhs[0])
				if err != nil || t != "nat" {
					return "", fmt.Errorf("DecodeHeader: if-init %s: %v", exprText(as.Rhs[0]), err)
				}
				local[name] = val
			}
			for k, vv := range local {
				dx.subst[k] = vv
			}
			c, t, err := dx.expr(cond)
			for k := range local {
				delete(dx.subst, k)
			}
			if err != nil || t != "bool" {
				return "", fmt.Errorf("DecodeHeader: condition %s: %v", exprText(cond), err)
			}
			cls, err := c26ErrClass(ret, errVars)
			if err != nil {
				return "", fmt.Errorf("DecodeHeader: %v", err)
			}
			fmt.Fprintf(&body, "  if %s then .error %s else\n", c, cls)
		case *ast.AssignStmt:
			// header := Header{...}
			cl, ok := v.Rhs[0].(*ast.CompositeLit)
			if v.Tok != token.DEFINE || len(v.Lhs) != 1 || !ok || exprText(cl.Type) != "Header" || dx.hdr != "" {
				return "", fmt.Errorf("DecodeHeader: unsupported assignment %s", exprText(v.Lhs[0]))
			}
			name := exprText(v.Lhs[0])
			seen := map[string]bool{}
			var fs []string
			for _, el := range cl.Elts {
				kv, ok := el.(*ast.KeyValueExpr)
				if !ok {
					return "", fmt.Errorf("DecodeHeader: positional composite literal")
				}
				fn := exprText(kv.Key)
				lf, ok := c26Fields[fn]
				if !ok || seen[fn] {
					return "", fmt.Errorf("DecodeHeader: unknown header field %s", fn)
				}
				seen[fn] = true
				val, t, err := dx.expr(kv.Value)
				if err != nil || t != "nat" {
					return "", fmt.Errorf("DecodeHeader: field %s: %v", fn, err)
				}
				fs = append(fs, fmt.Sprintf("%s := %s", lf, val))
			}
			for _, fn := range []string{"Kind", "Priority", "ServiceID", "RequestID", "BodyLen"} {
				if !seen[fn] {
					fs = append(fs, fmt.Sprintf("%s := 0", c26Fields[fn])) // Go zero value
				}
			}
			dx.hdr = name
			fmt.Fprintf(&body, "  let %s : Header := { %s }\n", name, strings.Join(fs, ", "))
		case *ast.ReturnStmt:
			if len(v.Results) != 2 || exprText(v.Results[0]) != dx.hdr || exprText(v.Results[1]) != "nil" || dx.hdr == "" {
				return "", fmt.Errorf("DecodeHeader: final return is not `return header, nil`")
			}
			fmt.Fprintf(&body, "  .ok %s\n", dx.hdr)
			done = true
		default:
			return "", fmt.Errorf("DecodeHeader: unsupported statement %T", s)
		}
	}
	if !done {
		return "", fmt.Errorf("DecodeHeader: no final return")
	}
	fmt.Fprintf(&b, "/-- frame.go DecodeHeader, branch for branch -/\ndef decodeHeader (%s : Bytes) (%s : Int) : Except Err Header :=\n%s\n", pn[0], pn[1], body.String())

	// reader.go: ReadFrame's statement order
	facts, err := c26ReaderFacts(repo)
	if err != nil {
		return "", err
	}
	b.WriteString(facts)
	cf2, err := c26ConnFacts(repo)
	if err != nil {
		return "", err
	}
	b.WriteString(cf2)
	pf, err := c26PendingFacts(repo)
	if err != nil {
		return "", err
	}
	b.WriteString(pf)
	b.WriteString("end WK.Gen.C26\n")
	return b.String(), nil
}

func exprTextStmtReturn(s ast.Stmt) string {
	r, ok := s.(*ast.ReturnStmt)
	if !ok || len(r.Results) != 1 {
		return "<not-a-single-return>"
	}
	return exprText(r.Results[0])
}

func exprTextArray(e ast.Expr) string {
	if a, ok := e.(*ast.ArrayType); ok {
		if a.Len == nil {
			return "[]" + exprText(a.Elt)
		}
		return "[" + exprText(a.Len) + "]" + exprText(a.Elt)
	}
	return exprText(e)
}

// c26ReaderFacts records the order of the interesting steps of wire.ReadFrame
// and whether every buffer acquisition is dominated by a successful DecodeHeader.
func c26ReaderFacts(repo string) (string, error) {
	_, rf, err := parseFile(repo, "pkg/transport/wire/reader.go")
	if err != nil {
		return "", err
	}
	fd := findFunc(rf, "ReadFrame")
	if fd == nil {
		return "", fmt.Errorf("reader.go: ReadFrame not found")
	}
	var steps []string
	hdrVar, errVar, lenVar := "", "", ""
	allocBeforeCheck := false
	decodeChecked := false
	lenFromHeader := false
	getUsesLen := false
	// top-level statements only: anything nested other than `if err != nil { return }` is refused
	for i, s := range fd.Body.List {
		txt := ""
		switch v := s.(type) {
		case *ast.DeclStmt:
			txt = "decl"
			gd := v.Decl.(*ast.GenDecl)
			for _, sp := range gd.Specs {
				vs := sp.(*ast.ValueSpec)
				if len(vs.Values) != 0 {
					return "", fmt.Errorf("ReadFrame: initialised declaration")
				}
				if a, ok := vs.Type.(*ast.ArrayType); !ok || a.Len == nil || exprText(a.Len) != "HeaderSize" {
					return "", fmt.Errorf("ReadFrame: declaration other than the fixed header array")
				}
			}
			steps = append(steps, "header-array")
			continue
		case *ast.AssignStmt:
			if len(v.Rhs) == 1 {
				txt = exprText(v.Rhs[0])
			}
			switch {
			case strings.HasPrefix(txt, "DecodeHeader("):
				if len(v.Lhs) != 2 {
					return "", fmt.Errorf("ReadFrame: DecodeHeader result shape")
				}
				hdrVar, errVar = exprText(v.Lhs[0]), exprText(v.Lhs[1])
				steps = append(steps, "DecodeHeader")
				// next statement must be the error check
				if i+1 < len(fd.Body.List) && c26IsErrReturn(fd.Body.List[i+1], errVar) {
					decodeChecked = true
				}
			case strings.HasPrefix(txt, "bodyLenToInt("):
				if !decodeChecked {
					allocBeforeCheck = true
				}
				lenVar = exprText(v.Lhs[0])
				lenFromHeader = txt == "bodyLenToInt("+hdrVar+".BodyLen)"
				steps = append(steps, "bodyLenToInt")
			case strings.Contains(txt, ".Get(") || strings.HasPrefix(txt, "make("):
				if !decodeChecked {
					allocBeforeCheck = true
				}
				getUsesLen = strings.HasSuffix(txt, "("+lenVar+")") && lenVar != ""
				steps = append(steps, "alloc-body")
			default:
				return "", fmt.Errorf("ReadFrame: unsupported assignment %s", txt)
			}
			continue
		case *ast.IfStmt:
			c := exprText(v.Cond)
			switch {
			case v.Init != nil && strings.HasPrefix(exprTextInit(v.Init), "io.ReadFull(") && len(steps) > 0 && steps[len(steps)-1] == "header-array":
				steps = append(steps, "read-header")
			case c26IsErrReturn(v, errVar) || c26IsErrReturn(v, "err"):
				steps = append(steps, "check-err")
			case strings.HasPrefix(c, "body.Len()") || strings.Contains(c, "Len()>0"):
				if !decodeChecked {
					allocBeforeCheck = true
				}
				steps = append(steps, "read-body")
			default:
				return "", fmt.Errorf("ReadFrame: unsupported if %s", c)
			}
			continue
		case *ast.ReturnStmt:
			steps = append(steps, "return")
			continue
		}
		return "", fmt.Errorf("ReadFrame: unsupported statement %T", s)
	}
	var b strings.Builder
	var q []string
	for _, s := range steps {
		q = append(q, leanStr(s))
	}
	fmt.Fprintf(&b, "/-- reader.go ReadFrame: top-level steps in source order -/\ndef readFrameSteps : List String := [%s]\n", strings.Join(q, ", "))
	fmt.Fprintf(&b, "/-- DecodeHeader's error is checked immediately, nothing is allocated before that check, and the body buffer's size is bodyLenToInt(header.BodyLen) of the validated header -/\ndef readFrameAllocAfterValidate : Bool := %v\n\n",
		decodeChecked && !allocBeforeCheck && lenFromHeader && getUsesLen)
	return b.String(), nil
}

func exprTextInit(s ast.Stmt) string {
	if as, ok := s.(*ast.AssignStmt); ok && len(as.Rhs) == 1 {
		return exprText(as.Rhs[0])
	}
	return ""
}

// c26IsErrReturn recognises `if <err> != nil { return Frame{}, <err> }`.
func c26IsErrReturn(s ast.Stmt, errVar string) bool {
	ifs, ok := s.(*ast.IfStmt)
	if !ok || ifs.Init != nil || ifs.Else != nil || errVar == "" || exprText(ifs.Cond) != errVar+"!=nil" || len(ifs.Body.List) != 1 {
		return false
	}
	r, ok := ifs.Body.List[0].(*ast.ReturnStmt)
	return ok && len(r.Results) == 2 && exprText(r.Results[1]) == errVar
}

// c26ConnFacts: how conn.Call and the read loop use the pending table (facts the
// correlation model assumes: unique ids, private buffered(1) channel, Store before
// the request can leave, Complete keyed by the frame's own request id).
func c26ConnFacts(repo string) (string, error) {
	_, cf, err := parseFile(repo, "pkg/transport/internal/conn/conn.go")
	if err != nil {
		return "", err
	}
	call := findMethod(cf, "Conn", "Call")
	if call == nil {
		return "", fmt.Errorf("conn.go: Conn.Call not found")
	}
	recv := call.Recv.List[0].Names[0].Name
	idx := map[string]int{}
	idVar, chVar := "", ""
	for i, st := range call.Body.List {
		switch v := st.(type) {
		case *ast.AssignStmt:
			if len(v.Lhs) == 1 && len(v.Rhs) == 1 {
				rhs := exprText(v.Rhs[0])
				switch {
				case rhs == recv+".nextRequestID.Add(1)" && v.Tok == token.DEFINE:
					idVar = exprText(v.Lhs[0])
					idx["id"] = i
				case c26IsMakeChan1(v.Rhs[0]) && v.Tok == token.DEFINE:
					chVar = exprText(v.Lhs[0])
					idx["chan"] = i
				}
			}
		case *ast.ExprStmt:
			if exprText(v.X) == recv+".pending.Store("+idVar+","+chVar+")" && idVar != "" && chVar != "" {
				idx["store"] = i
			}
		case *ast.IfStmt:
			if v.Init != nil && strings.HasPrefix(exprTextInit(v.Init), recv+".Send(") {
				idx["send"] = i
			}
		}
	}
	_, okID := idx["id"]
	_, okCh := idx["chan"]
	st, okSt := idx["store"]
	sd, okSd := idx["send"]
	// the outbound frame carries the same id
	carries := false
	ast.Inspect(call.Body, func(n ast.Node) bool {
		if as, ok := n.(*ast.AssignStmt); ok && len(as.Lhs) == 1 && len(as.Rhs) == 1 &&
			strings.HasSuffix(exprText(as.Lhs[0]), ".RequestID") && exprText(as.Rhs[0]) == idVar && idVar != "" {
			carries = true
		}
		return true
	})
	h := findMethod(cf, "Conn", "handleRPCResponse")
	if h == nil {
		return "", fmt.Errorf("conn.go: Conn.handleRPCResponse not found")
	}
	completes, good := 0, 0
	ast.Inspect(h.Body, func(n ast.Node) bool {
		if c, ok := n.(*ast.CallExpr); ok && strings.HasSuffix(exprText(c.Fun), ".pending.Complete") {
			completes++
			if len(c.Args) == 2 && exprText(c.Args[0]) == "frame.Header.RequestID" {
				good++
			}
		}
		return true
	})
	var b strings.Builder
	fmt.Fprintf(&b, "/-- conn.Call: the request id comes from the connection's atomic counter (unique per connection) and is the id put on the wire -/\ndef callIdFromAtomicCounter : Bool := %v\n", okID && carries)
	fmt.Fprintf(&b, "/-- conn.Call: the response channel is private to the call and buffered(1) -/\ndef callChannelBuffered1 : Bool := %v\n", okCh)
	fmt.Fprintf(&b, "/-- conn.Call: pending.Store(id, ch) precedes Send -/\ndef callStoreBeforeSend : Bool := %v\n", okSt && okSd && st < sd && idx["id"] < st && idx["chan"] < st)
	fmt.Fprintf(&b, "/-- handleRPCResponse: every pending.Complete is keyed by the frame's own request id -/\ndef completeKeyedByFrameRequestID : Bool := %v\n\n", completes > 0 && completes == good)
	return b.String(), nil
}

// c26IsMakeChan1 recognises `make(chan rpc.Response, 1)`.
func c26IsMakeChan1(e ast.Expr) bool {
	c, ok := e.(*ast.CallExpr)
	if !ok || exprText(c.Fun) != "make" || len(c.Args) != 2 || exprText(c.Args[1]) != "1" {
		return false
	}
	ct, ok := c.Args[0].(*ast.ChanType)
	return ok && ct.Dir == ast.SEND|ast.RECV && exprText(ct.Value) == "rpc.Response"
}

// c26PendingFacts (round 6): the bodies of rpc.PendingTable's Store / Delete / Complete /
// FailAll and of trySend, linearised statement by statement in source order (nested
// blocks bracketed by "if c {" / "for … {" / "select {" / "case … :" / "}").  The LTS of
// WK/Model/C26.lean takes its atomic regions from exactly these lock/unlock positions;
// c26_pending_regions_src pins the lists, so moving a send into a lock region, releasing
// closeMu before the insert, dropping the `default:` of trySend … breaks the theorem.
func c26PendingFacts(repo string) (string, error) {
	_, pf, err := parseFile(repo, "pkg/transport/internal/rpc/pending.go")
	if err != nil {
		return "", err
	}
	var b strings.Builder
	emit := func(name, doc string, fd *ast.FuncDecl) error {
		if fd == nil || fd.Body == nil {
			return fmt.Errorf("pending.go: %s not found", name)
		}
		var out []string
		if err := c26Linear(fd.Body.List, &out); err != nil {
			return fmt.Errorf("pending.go %s: %v", name, err)
		}
		var q []string
		for _, s := range out {
			q = append(q, leanStr(s))
		}
		fmt.Fprintf(&b, "/-- %s -/\ndef %s : List String := [\n  %s]\n", doc, name, strings.Join(q, ",\n  "))
		return nil
	}
	for _, m := range []struct{ lean, recv, name string }{
		{"pendingStoreProg", "PendingTable", "Store"},
		{"pendingDeleteProg", "PendingTable", "Delete"},
		{"pendingCompleteProg", "PendingTable", "Complete"},
		{"pendingFailAllProg", "PendingTable", "FailAll"},
		{"pendingShardForProg", "PendingTable", "shardFor"},
	} {
		if err := emit(m.lean, "pending.go PendingTable."+m.name+": statements in source order", findMethod(pf, m.recv, m.name)); err != nil {
			return "", err
		}
	}
	if err := emit("pendingTrySendProg", "pending.go trySend: statements in source order", findFunc(pf, "trySend")); err != nil {
		return "", err
	}
	b.WriteString("\n")
	return b.String(), nil
}

func c26Linear(list []ast.Stmt, out *[]string) error {
	for _, s := range list {
		switch v := s.(type) {
		case *ast.ExprStmt:
			*out = append(*out, c26Src(v.X))
		case *ast.AssignStmt:
			*out = append(*out, c26SrcList(v.Lhs)+v.Tok.String()+c26SrcList(v.Rhs))
		case *ast.SendStmt:
			*out = append(*out, c26Src(v.Chan)+"<-"+c26Src(v.Value))
		case *ast.ReturnStmt:
			*out = append(*out, strings.TrimSpace("return "+c26SrcList(v.Results)))
		case *ast.IfStmt:
			if v.Init != nil || v.Else != nil {
				return fmt.Errorf("if with init/else")
			}
			*out = append(*out, "if "+c26Src(v.Cond)+" {")
			if err := c26Linear(v.Body.List, out); err != nil {
				return err
			}
			*out = append(*out, "}")
		case *ast.RangeStmt:
			k, val := "_", "_"
			if v.Key != nil {
				k = c26Src(v.Key)
			}
			if v.Value != nil {
				val = c26Src(v.Value)
			}
			*out = append(*out, "for "+k+","+val+" range "+c26Src(v.X)+" {")
			if err := c26Linear(v.Body.List, out); err != nil {
				return err
			}
			*out = append(*out, "}")
		case *ast.SelectStmt:
			*out = append(*out, "select {")
			for _, c := range v.Body.List {
				cc := c.(*ast.CommClause)
				if cc.Comm == nil {
					*out = append(*out, "default:")
				} else {
					var one []string
					if err := c26Linear([]ast.Stmt{cc.Comm}, &one); err != nil {
						return err
					}
					*out = append(*out, "case "+strings.Join(one, ";")+":")
				}
				if err := c26Linear(cc.Body, out); err != nil {
					return err
				}
			}
			*out = append(*out, "}")
		default:
			return fmt.Errorf("unsupported statement %T", s)
		}
	}
	return nil
}

// c26Src prints any expression with go/printer, white space removed.
func c26Src(e ast.Expr) string {
	var buf bytes.Buffer
	if err := printer.Fprint(&buf, token.NewFileSet(), e); err != nil {
		return "<unprintable>"
	}
	return strings.Join(strings.Fields(buf.String()), "")
}

func c26SrcList(es []ast.Expr) string {
	var s []string
	for _, e := range es {
		s = append(s, c26Src(e))
	}
	return strings.Join(s, ",")
}

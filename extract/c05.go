package main

// C05 — T tie.  Reads pkg/quorumlog/proposal.go and pkg/channel/proposal.go and
// regenerates lean/WK/Gen/C05.lean:
//   * digestItems : the ordered list of everything digestProposalEntry feeds to
//     the hash (domain tag, fixed-width integers, fixed arrays, flag bytes,
//     length-prefixed byte strings).  The Lean model's preimage is DEFINED from
//     this list, so a dropped / retyped / reordered write changes the definition
//     the theorems are about.
//   * facts about the helper closures (8-byte big-endian, length prefix = u64 of
//     len, Sum(nil) copied into the digest), about VerifyEntry / Derive using
//     that function, and the field map of channel.DeriveProposalEntries.
// Anything that does not have the expected shape is refused (exit 2).

import (
	"bytes"
	"fmt"
	"go/ast"
	"go/parser"
	"go/printer"
	"go/token"
	"os"
	"path/filepath"
	"sort"
	"strconv"
	"strings"
)

func init() { register("C05", extractC05) }

func c05src(fset *token.FileSet, n ast.Node) string {
	var b bytes.Buffer
	_ = printer.Fprint(&b, fset, n)
	return strings.Join(strings.Fields(b.String()), " ")
}

// Go struct field -> Lean constructor of WK.Gen.C05.Fld
var c05EntryFld = map[string]string{
	"Version": "eVersion", "ChannelEpoch": "eEpoch", "LeaderTerm": "eTerm", "FenceVersion": "eFence",
	"Index": "eIndex", "PreviousTerm": "ePrevTerm", "PreviousIndex": "ePrevIndex",
	"CommandID": "eCommand", "PreviousDigest": "ePrevDigest", "Digest": "eDigest",
}
var c05RecFld = map[string]string{
	"ID": "rID", "Index": "rIndex", "Epoch": "rEpoch", "Setting": "rSetting", "FromUID": "rFromUID",
	"ClientMsgNo": "rClientMsgNo", "ServerTimestampMS": "rTimestamp", "SyncOnce": "rSyncOnce", "Payload": "rPayload",
}

// kind of a struct field as the digest function may consume it
func c05Kinds(f *ast.File, fset *token.FileSet, structName string) (map[string]string, error) {
	arr := map[string]bool{} // named [sha256.Size]byte types
	var st *ast.StructType
	for _, d := range f.Decls {
		gd, ok := d.(*ast.GenDecl)
		if !ok || gd.Tok != token.TYPE {
			continue
		}
		for _, s := range gd.Specs {
			ts := s.(*ast.TypeSpec)
			if at, ok := ts.Type.(*ast.ArrayType); ok && at.Len != nil {
				if c05src(fset, at.Len) == "sha256.Size" && c05src(fset, at.Elt) == "byte" {
					arr[ts.Name.Name] = true
				}
			}
			if ts.Name.Name == structName {
				st, _ = ts.Type.(*ast.StructType)
			}
		}
	}
	if st == nil {
		return nil, fmt.Errorf("struct %s not found", structName)
	}
	out := map[string]string{}
	for _, fl := range st.Fields.List {
		t := c05src(fset, fl.Type)
		k := ""
		switch {
		case t == "uint64":
			k = "u64"
		case t == "int64":
			k = "i64"
		case t == "uint16":
			k = "u16"
		case t == "uint8" || t == "byte":
			k = "u8"
		case t == "bool":
			k = "bool"
		case t == "string":
			k = "string"
		case t == "[]byte":
			k = "bytes"
		case arr[t]:
			k = "arr32"
		default:
			return nil, fmt.Errorf("%s: field type %s not understood", structName, t)
		}
		for _, n := range fl.Names {
			out[n.Name] = k
		}
	}
	return out, nil
}

func c05bytesLit(s string) string {
	var parts []string
	for i := 0; i < len(s); i++ {
		parts = append(parts, strconv.Itoa(int(s[i])))
	}
	return "[" + strings.Join(parts, ", ") + "]"
}


// c05Sites finds every composite literal of quorumlog.Record (and non-empty
// literals of quorumlog.EntryIdentity outside pkg/quorumlog) in the non-test Go
// files of the repository: each is a place where message fields enter the digest.
func c05Sites(repo string) (sites []string, entryLits int, err error) {
	var files []string
	werr := filepath.Walk(repo, func(path string, info os.FileInfo, e error) error {
		if e != nil {
			return nil
		}
		if info.IsDir() {
			n := info.Name()
			if n == ".git" || n == "node_modules" || n == "vendor" || n == "web" || n == "docs" {
				return filepath.SkipDir
			}
			return nil
		}
		if !strings.HasSuffix(path, ".go") || strings.HasSuffix(path, "_test.go") {
			return nil
		}
		b, e2 := os.ReadFile(path)
		if e2 != nil {
			return nil
		}
		src := string(b)
		inPkg := filepath.Dir(path) == filepath.Join(repo, "pkg", "quorumlog")
		if strings.Contains(src, "quorumlog.Record{") || strings.Contains(src, "quorumlog.EntryIdentity{") ||
			(inPkg && (strings.Contains(src, "Record{") || strings.Contains(src, "EntryIdentity{"))) {
			files = append(files, path)
		}
		return nil
	})
	if werr != nil {
		return nil, 0, werr
	}
	sort.Strings(files)
	for _, path := range files {
		fset := token.NewFileSet()
		f, perr := parser.ParseFile(fset, path, nil, 0)
		if perr != nil {
			return nil, 0, perr
		}
		rel, _ := filepath.Rel(repo, path)
		inPkg := filepath.Dir(path) == filepath.Join(repo, "pkg", "quorumlog")
		recName, entName := "quorumlog.Record", "quorumlog.EntryIdentity"
		if inPkg {
			recName, entName = "Record", "EntryIdentity"
		}
		for _, d := range f.Decls {
			fd, ok := d.(*ast.FuncDecl)
			if !ok || fd.Body == nil {
				continue
			}
			var ierr error
			ast.Inspect(fd.Body, func(n ast.Node) bool {
				cl, ok := n.(*ast.CompositeLit)
				if !ok || cl.Type == nil {
					return true
				}
				switch c05src(fset, cl.Type) {
				case entName:
					if len(cl.Elts) > 0 && !inPkg {
						entryLits++
					}
				case recName:
					var kv []string
					for _, e := range cl.Elts {
						x, ok := e.(*ast.KeyValueExpr)
						if !ok {
							ierr = fmt.Errorf("%s %s: positional quorumlog.Record literal", rel, fd.Name.Name)
							return false
						}
						k := c05src(fset, x.Key)
						if _, ok := c05RecFld[k]; !ok {
							ierr = fmt.Errorf("%s %s: unknown Record field %s", rel, fd.Name.Name, k)
							return false
						}
						kv = append(kv, fmt.Sprintf("(.%s, %s)", c05RecFld[k], leanStr(c05src(fset, x.Value))))
					}
					sites = append(sites, fmt.Sprintf("(%s, %s, [%s])", leanStr(rel), leanStr(fd.Name.Name), strings.Join(kv, ", ")))
				}
				return true
			})
			if ierr != nil {
				return nil, 0, ierr
			}
		}
	}
	return sites, entryLits, nil
}

func extractC05(repo string) (string, error) {
	fset, f, err := parseFile(repo, "pkg/quorumlog/proposal.go")
	if err != nil {
		return "", err
	}
	fd := findFunc(f, "digestProposalEntry")
	if fd == nil {
		return "", fmt.Errorf("proposal.go: digestProposalEntry not found")
	}
	// signature: (entry EntryIdentity, record Record) EntryDigest
	var pEntry, pRec string
	for _, p := range fd.Type.Params.List {
		for _, n := range p.Names {
			switch c05src(fset, p.Type) {
			case "EntryIdentity":
				pEntry = n.Name
			case "Record":
				pRec = n.Name
			default:
				return "", fmt.Errorf("digestProposalEntry: unexpected parameter %s %s", n.Name, c05src(fset, p.Type))
			}
		}
	}
	if pEntry == "" || pRec == "" || fd.Type.Results == nil || len(fd.Type.Results.List) != 1 || c05src(fset, fd.Type.Results.List[0].Type) != "EntryDigest" {
		return "", fmt.Errorf("digestProposalEntry: signature is not (EntryIdentity, Record) EntryDigest")
	}
	ek, err := c05Kinds(f, fset, "EntryIdentity")
	if err != nil {
		return "", err
	}
	rk, err := c05Kinds(f, fset, "Record")
	if err != nil {
		return "", err
	}
	// every struct field must be in the fixed vocabulary (a new field = refuse: the model must be extended)
	for n := range ek {
		if _, ok := c05EntryFld[n]; !ok {
			return "", fmt.Errorf("EntryIdentity has a field %s the model does not know", n)
		}
	}
	for n := range rk {
		if _, ok := c05RecFld[n]; !ok {
			return "", fmt.Errorf("Record has a field %s the model does not know", n)
		}
	}
	// resolve `entry.X` / `record.X` -> (Fld, kind)
	field := func(e ast.Expr) (string, string, bool) {
		se, ok := e.(*ast.SelectorExpr)
		if !ok {
			return "", "", false
		}
		id, ok := se.X.(*ast.Ident)
		if !ok {
			return "", "", false
		}
		switch id.Name {
		case pEntry:
			if k, ok := ek[se.Sel.Name]; ok {
				return c05EntryFld[se.Sel.Name], k, true
			}
		case pRec:
			if k, ok := rk[se.Sel.Name]; ok {
				return c05RecFld[se.Sel.Name], k, true
			}
		}
		return "", "", false
	}

	var items []string
	hashVar, encVar, encLen := "", "", ""
	w64, wBytes := "", "" // closure names
	u64BE, lenPrefix, sumOK := false, false, false
	digestVar := ""
	hashCtor := ""
	// hash.Write(<arg>) as an expression statement `_, _ = hash.Write(arg)`
	writeArg := func(s ast.Stmt) (ast.Expr, bool) {
		as, ok := s.(*ast.AssignStmt)
		if !ok || as.Tok != token.ASSIGN || len(as.Lhs) != 2 || len(as.Rhs) != 1 ||
			c05src(fset, as.Lhs[0]) != "_" || c05src(fset, as.Lhs[1]) != "_" {
			return nil, false
		}
		c, ok := as.Rhs[0].(*ast.CallExpr)
		if !ok || len(c.Args) != 1 || hashVar == "" || c05src(fset, c.Fun) != hashVar+".Write" {
			return nil, false
		}
		return c.Args[0], true
	}
	// []byte{X} with exactly one element
	oneByte := func(e ast.Expr) (ast.Expr, bool) {
		cl, ok := e.(*ast.CompositeLit)
		if !ok || c05src(fset, cl.Type) != "[]byte" || len(cl.Elts) != 1 {
			return nil, false
		}
		return cl.Elts[0], true
	}
	constByte := func(s ast.Stmt) (int, bool) {
		a, ok := writeArg(s)
		if !ok {
			return 0, false
		}
		x, ok := oneByte(a)
		if !ok {
			return 0, false
		}
		bl, ok := x.(*ast.BasicLit)
		if !ok || bl.Kind != token.INT {
			return 0, false
		}
		v, err := strconv.ParseInt(bl.Value, 0, 64)
		if err != nil || v < 0 || v > 255 {
			return 0, false
		}
		return int(v), true
	}
	body := fd.Body.List
	for i, s := range body {
		txt := c05src(fset, s)
		refuse := func(why string) (string, error) {
			return "", fmt.Errorf("digestProposalEntry statement %d (%s): %s", i+1, txt, why)
		}
		switch st := s.(type) {
		case *ast.AssignStmt:
			// hash := sha256.New()
			if st.Tok == token.DEFINE && len(st.Lhs) == 1 && len(st.Rhs) == 1 {
				name := c05src(fset, st.Lhs[0])
				if c, ok := st.Rhs[0].(*ast.CallExpr); ok && len(c.Args) == 0 && hashVar == "" {
					if c05src(fset, c.Fun) != "sha256.New" {
						return refuse("hash constructor is not sha256.New")
					}
					hashVar, hashCtor = name, c05src(fset, c.Fun)
					continue
				}
				if fl, ok := st.Rhs[0].(*ast.FuncLit); ok {
					ps := fl.Type.Params.List
					if len(ps) != 1 || len(ps[0].Names) != 1 || fl.Type.Results != nil {
						return refuse("closure is not func(one parameter)")
					}
					pn, pt := ps[0].Names[0].Name, c05src(fset, ps[0].Type)
					bl := fl.Body.List
					if len(bl) != 2 {
						return refuse("closure body is not two statements")
					}
					switch pt {
					case "uint64":
						// binary.BigEndian.PutUint64(encoded[:], value); _, _ = hash.Write(encoded[:])
						want0 := fmt.Sprintf("binary.BigEndian.PutUint64(%s[:], %s)", encVar, pn)
						a, ok := writeArg(bl[1])
						if encVar == "" || encLen != "8" || c05src(fset, bl[0]) != want0 || !ok || c05src(fset, a) != encVar+"[:]" {
							return refuse("uint64 writer is not `binary.BigEndian.PutUint64(buf[:], v); hash.Write(buf[:])` over an [8]byte")
						}
						w64, u64BE = name, true
						continue
					case "[]byte":
						want0 := fmt.Sprintf("%s(uint64(len(%s)))", w64, pn)
						a, ok := writeArg(bl[1])
						if w64 == "" || c05src(fset, bl[0]) != want0 || !ok || c05src(fset, a) != pn {
							return refuse("bytes writer is not `writeUint64(uint64(len(v))); hash.Write(v)`")
						}
						wBytes, lenPrefix = name, true
						continue
					}
					return refuse("closure parameter type " + pt + " not understood")
				}
				return refuse("definition not understood")
			}
			// _, _ = hash.Write(X)
			a, ok := writeArg(s)
			if !ok {
				return refuse("assignment not understood")
			}
			// []byte("literal")
			if c, ok := a.(*ast.CallExpr); ok && c05src(fset, c.Fun) == "[]byte" && len(c.Args) == 1 {
				if bl, ok := c.Args[0].(*ast.BasicLit); ok && bl.Kind == token.STRING {
					v, err := strconv.Unquote(bl.Value)
					if err != nil {
						return refuse("bad string literal")
					}
					items = append(items, ".tag "+c05bytesLit(v))
					continue
				}
				return refuse("Write of a converted non-literal")
			}
			// entry.CommandID[:]
			if se, ok := a.(*ast.SliceExpr); ok && se.Low == nil && se.High == nil && se.Max == nil {
				if fl, k, ok := field(se.X); ok && k == "arr32" {
					items = append(items, ".arr32 ."+fl)
					continue
				}
				return refuse("sliced value is not a [32]byte field")
			}
			// []byte{record.Setting}
			if x, ok := oneByte(a); ok {
				if fl, k, ok := field(x); ok && k == "u8" {
					items = append(items, ".u8 ."+fl)
					continue
				}
				return refuse("single byte is not a uint8 field")
			}
			return refuse("Write argument not understood")
		case *ast.DeclStmt:
			// var encoded [8]byte   /   var digest EntryDigest
			gd, ok := st.Decl.(*ast.GenDecl)
			if !ok || gd.Tok != token.VAR || len(gd.Specs) != 1 {
				return refuse("declaration not understood")
			}
			vs := gd.Specs[0].(*ast.ValueSpec)
			if len(vs.Names) != 1 || len(vs.Values) != 0 {
				return refuse("declaration not understood")
			}
			if at, ok := vs.Type.(*ast.ArrayType); ok && at.Len != nil && c05src(fset, at.Elt) == "byte" {
				encVar, encLen = vs.Names[0].Name, c05src(fset, at.Len)
				continue
			}
			if c05src(fset, vs.Type) == "EntryDigest" {
				digestVar = vs.Names[0].Name
				continue
			}
			return refuse("declaration not understood")
		case *ast.ExprStmt:
			c, ok := st.X.(*ast.CallExpr)
			if !ok || len(c.Args) < 1 {
				return refuse("call not understood")
			}
			fn := c05src(fset, c.Fun)
			switch {
			case fn == w64 && w64 != "" && len(c.Args) == 1:
				arg := c.Args[0]
				if fl, k, ok := field(arg); ok && k == "u64" {
					items = append(items, ".u64 ."+fl)
					continue
				}
				// uint64(record.ServerTimestampMS)
				if cc, ok := arg.(*ast.CallExpr); ok && c05src(fset, cc.Fun) == "uint64" && len(cc.Args) == 1 {
					if fl, k, ok := field(cc.Args[0]); ok && (k == "i64" || k == "u64") {
						items = append(items, ".u64 ."+fl)
						continue
					}
				}
				return refuse("writeUint64 argument is not a uint64 field or uint64(int64 field)")
			case fn == wBytes && wBytes != "" && len(c.Args) == 1:
				arg := c.Args[0]
				if fl, k, ok := field(arg); ok && k == "bytes" {
					items = append(items, ".lenBytes ."+fl)
					continue
				}
				if cc, ok := arg.(*ast.CallExpr); ok && c05src(fset, cc.Fun) == "[]byte" && len(cc.Args) == 1 {
					if fl, k, ok := field(cc.Args[0]); ok && k == "string" {
						items = append(items, ".lenBytes ."+fl)
						continue
					}
				}
				return refuse("writeBytes argument is not a []byte/string field")
			case fn == "copy" && len(c.Args) == 2:
				if digestVar != "" && c05src(fset, c.Args[0]) == digestVar+"[:]" && c05src(fset, c.Args[1]) == hashVar+".Sum(nil)" {
					sumOK = true
					continue
				}
				return refuse("copy is not copy(digest[:], hash.Sum(nil))")
			}
			return refuse("call not understood")
		case *ast.IfStmt:
			// if record.SyncOnce { Write([]byte{1}) } else { Write([]byte{0}) }
			fl, k, ok := field(st.Cond)
			els, ok2 := st.Else.(*ast.BlockStmt)
			if !ok || k != "bool" || st.Init != nil || !ok2 || len(st.Body.List) != 1 || len(els.List) != 1 {
				return refuse("if is not `if <bool field> { Write([]byte{c}) } else { Write([]byte{c'}) }`")
			}
			t, ok1 := constByte(st.Body.List[0])
			e, ok3 := constByte(els.List[0])
			if !ok1 || !ok3 {
				return refuse("flag branches do not write one constant byte each")
			}
			items = append(items, fmt.Sprintf(".flag .%s %d %d", fl, t, e))
			continue
		case *ast.ReturnStmt:
			if i != len(body)-1 || len(st.Results) != 1 || c05src(fset, st.Results[0]) != digestVar || !sumOK {
				return refuse("return is not the final `return digest` after copy(digest[:], hash.Sum(nil))")
			}
			continue
		}
		return "", fmt.Errorf("digestProposalEntry statement %d (%s): statement kind not understood", i+1, txt)
	}
	if !sumOK || hashVar == "" {
		return "", fmt.Errorf("digestProposalEntry: no hash / no Sum")
	}

	// VerifyEntry: last statement compares the recomputed digest with entry.Digest
	verifyOK := false
	if v := findFunc(f, "VerifyEntry"); v != nil && len(v.Body.List) > 0 && len(v.Type.Params.List) == 2 {
		a, b := v.Type.Params.List[0].Names[0].Name, v.Type.Params.List[1].Names[0].Name
		last := c05src(fset, v.Body.List[len(v.Body.List)-1])
		verifyOK = last == fmt.Sprintf("return digestProposalEntry(%s, %s) == %s.Digest", a, b, a)
	}
	// DeriveProposalEntries: entry.Digest = digestProposalEntry(entry, record)
	deriveOK := false
	if d := findFunc(f, "DeriveProposalEntries"); d != nil {
		ast.Inspect(d.Body, func(n ast.Node) bool {
			if as, ok := n.(*ast.AssignStmt); ok && c05src(fset, as) == "entry.Digest = digestProposalEntry(entry, record)" {
				deriveOK = true
			}
			return true
		})
	}
	// other callers of digestProposalEntry in the package would be additional entry points
	calls := 0
	ast.Inspect(f, func(n ast.Node) bool {
		if c, ok := n.(*ast.CallExpr); ok && c05src(fset, c.Fun) == "digestProposalEntry" {
			calls++
		}
		return true
	})

	// channel.DeriveProposalEntries: the quorumlog.Record literal
	fset2, f2, err := parseFile(repo, "pkg/channel/proposal.go")
	if err != nil {
		return "", err
	}
	cd := findFunc(f2, "DeriveProposalEntries")
	if cd == nil {
		return "", fmt.Errorf("pkg/channel/proposal.go: DeriveProposalEntries not found")
	}
	var cmap []string
	nlits := 0
	var lerr error
	ast.Inspect(cd.Body, func(n ast.Node) bool {
		cl, ok := n.(*ast.CompositeLit)
		if !ok || c05src(fset2, cl.Type) != "quorumlog.Record" {
			return true
		}
		nlits++
		for _, e := range cl.Elts {
			kv, ok := e.(*ast.KeyValueExpr)
			if !ok {
				lerr = fmt.Errorf("channel.DeriveProposalEntries: positional quorumlog.Record literal")
				return false
			}
			k := c05src(fset2, kv.Key)
			v := c05src(fset2, kv.Value)
			if _, ok := c05RecFld[k]; !ok {
				lerr = fmt.Errorf("channel.DeriveProposalEntries: unknown quorumlog.Record field %s", k)
				return false
			}
			if !strings.HasPrefix(v, "record.") {
				lerr = fmt.Errorf("channel.DeriveProposalEntries: field %s is not copied from record.<field> (%s)", k, v)
				return false
			}
			cmap = append(cmap, fmt.Sprintf("(.%s, %s)", c05RecFld[k], leanStr(strings.TrimPrefix(v, "record."))))
		}
		return false
	})
	if lerr != nil {
		return "", lerr
	}
	if nlits != 1 {
		return "", fmt.Errorf("channel.DeriveProposalEntries: %d quorumlog.Record literals, want 1", nlits)
	}
	// channel.SealProposalManifest must go through channel.DeriveProposalEntries and take the last digest
	sealOK := false
	if sd := findFunc(f2, "SealProposalManifest"); sd != nil {
		t := c05src(fset2, sd.Body)
		sealOK = strings.Contains(t, "DeriveProposalEntries(manifest, len(records), func(index int) Record { return records[index] })") &&
			strings.Contains(t, "manifest.Digest = entries[len(entries)-1].Digest")
	}
	qsealOK := false
	if sd := findFunc(f, "SealProposalManifest"); sd != nil {
		t := c05src(fset, sd.Body)
		qsealOK = strings.Contains(t, "DeriveProposalEntries(manifest, len(records), func(index int) Record { return records[index] })") &&
			strings.Contains(t, "manifest.Digest = entries[len(entries)-1].Digest")
	}

	var b strings.Builder
	b.WriteString("namespace WK.Gen.C05\n\n")
	b.WriteString("/-- fields of quorumlog.EntryIdentity (e…) and quorumlog.Record (r…); fixed vocabulary, the extractor refuses a struct field outside it -/\n")
	b.WriteString("inductive Fld\n  | eVersion | eEpoch | eTerm | eFence | eIndex | ePrevTerm | ePrevIndex | eCommand | ePrevDigest | eDigest\n")
	b.WriteString("  | rID | rIndex | rEpoch | rSetting | rFromUID | rClientMsgNo | rTimestamp | rSyncOnce | rPayload\n  deriving DecidableEq, Repr\n\n")
	b.WriteString("/-- one write into the hash, in source order -/\ninductive Item\n")
	b.WriteString("  | tag (bs : List Nat)            -- hash.Write([]byte(\"literal\"))\n")
	b.WriteString("  | u64 (f : Fld)                  -- writeUint64(x) / writeUint64(uint64(x))\n")
	b.WriteString("  | arr32 (f : Fld)                -- hash.Write(x[:]) of a [sha256.Size]byte field\n")
	b.WriteString("  | u8 (f : Fld)                   -- hash.Write([]byte{x})\n")
	b.WriteString("  | flag (f : Fld) (t e : Nat)     -- if x { Write([]byte{t}) } else { Write([]byte{e}) }\n")
	b.WriteString("  | lenBytes (f : Fld)             -- writeBytes(x)\n  deriving DecidableEq, Repr\n\n")
	fmt.Fprintf(&b, "/-- pkg/quorumlog/proposal.go digestProposalEntry, %d writes -/\ndef digestItems : List Item := [\n  %s\n]\n\n", len(items), strings.Join(items, ",\n  "))
	fmt.Fprintf(&b, "/-- writeUint64 = binary.BigEndian.PutUint64 into an [8]byte, all 8 bytes written -/\ndef u64BigEndian8 : Bool := %v\n", u64BE)
	fmt.Fprintf(&b, "/-- writeBytes = writeUint64(uint64(len(v))) then hash.Write(v) -/\ndef lenPrefixU64 : Bool := %v\n", lenPrefix)
	fmt.Fprintf(&b, "/-- the result is hash.Sum(nil) of a fresh %s() -/\ndef digestIsSum : Bool := %v\n", hashCtor, sumOK)
	fmt.Fprintf(&b, "/-- VerifyEntry ends with `return digestProposalEntry(entry, record) == entry.Digest` -/\ndef verifyComparesDigest : Bool := %v\n", verifyOK)
	fmt.Fprintf(&b, "/-- DeriveProposalEntries assigns `entry.Digest = digestProposalEntry(entry, record)` -/\ndef deriveAssignsDigest : Bool := %v\n", deriveOK)
	fmt.Fprintf(&b, "/-- number of call sites of digestProposalEntry in proposal.go (Derive + Verify) -/\ndef digestCallSites : Nat := %d\n", calls)
	fmt.Fprintf(&b, "/-- both SealProposalManifest functions derive over records[index] and take the last entry digest -/\ndef sealUsesDerive : Bool := %v\n\n", sealOK && qsealOK)
	fmt.Fprintf(&b, "/-- pkg/channel/proposal.go: quorumlog.Record field ← channel.Record field of the wrapper -/\ndef channelRecordMap : List (Fld × String) := [\n  %s\n]\n\n", strings.Join(cmap, ", "))
	sites, entryLits, err := c05Sites(repo)
	if err != nil {
		return "", err
	}
	fmt.Fprintf(&b, "/-- EVERY composite literal of quorumlog.Record in the repository's non-test Go files:\n    (file, enclosing function, field ← source expression) -/\ndef recordSites : List (String × String × List (Fld × String)) := [\n  %s\n]\n\n", strings.Join(sites, ",\n  "))
	fmt.Fprintf(&b, "/-- non-empty composite literals of quorumlog.EntryIdentity outside pkg/quorumlog (identities are only built by Derive or decoded field by field) -/\ndef entryLiteralsOutside : Nat := %d\n\n", entryLits)
	b.WriteString("end WK.Gen.C05\n")
	return b.String(), nil
}

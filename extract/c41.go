package main

import (
	"fmt"
	"go/ast"
	"go/token"
	"strings"
)

// C41 — T tie: the order of the synchronisation events inside the three stop paths the C41 LTSs model:
// channelappend.Group SubmitLocal / Stop / finishStop (Model/C41.lean GStep), gateway sendExecutor
// stop / drain / closeMailboxAfterDrain (Proofs/C41_paths.lean GwStep) and delivery Runtime.Quiesce (QStep).
// The Lean theorems c41_src_* (Proofs/C41_src.lean) pin each LTS atomic step's shape to this order.

func init() { register("C41", extractC41) }

// c41Walker records synchronisation events of one function body in source order as
// (nesting depth, event): whitelisted calls ("x.mu.Lock", "defer x.mu.Unlock"), "close <chan>",
// "recv <chan>", "send <chan>", "set <lvalue> = <rhs>", "inc/dec <lvalue>", "read <selector>".
// depth grows with every block nested in an if/for/switch/select/func literal.
type c41Walker struct {
	want func(ev string) bool
	out  []string
}

func (w *c41Walker) emit(depth int, ev string) {
	if w.want(ev) {
		w.out = append(w.out, fmt.Sprintf("(%d, %s)", depth, leanStr(ev)))
	}
}

func (w *c41Walker) stmt(n ast.Stmt, depth int) {
	switch x := n.(type) {
	case nil:
		return
	case *ast.BlockStmt:
		if x == nil {
			return
		}
		for _, s := range x.List {
			w.stmt(s, depth)
		}
	case *ast.IfStmt:
		w.stmt(x.Init, depth)
		w.expr(x.Cond, depth, "")
		w.stmt(x.Body, depth+1)
		if x.Else != nil {
			w.stmt(x.Else, depth+1)
		}
	case *ast.ForStmt:
		w.stmt(x.Init, depth)
		w.expr(x.Cond, depth+1, "")
		w.stmt(x.Body, depth+1)
		w.stmt(x.Post, depth+1)
	case *ast.RangeStmt:
		w.expr(x.X, depth, "")
		w.stmt(x.Body, depth+1)
	case *ast.SwitchStmt:
		w.stmt(x.Init, depth)
		w.expr(x.Tag, depth, "")
		w.stmt(x.Body, depth)
	case *ast.TypeSwitchStmt:
		w.stmt(x.Body, depth)
	case *ast.CaseClause:
		for _, e := range x.List {
			w.expr(e, depth, "")
		}
		for _, s := range x.Body {
			w.stmt(s, depth+1)
		}
	case *ast.SelectStmt:
		w.stmt(x.Body, depth)
	case *ast.CommClause:
		w.stmt(x.Comm, depth+1)
		for _, s := range x.Body {
			w.stmt(s, depth+1)
		}
	case *ast.LabeledStmt:
		w.stmt(x.Stmt, depth)
	case *ast.DeferStmt:
		w.expr(x.Call, depth, "defer ")
	case *ast.GoStmt:
		w.expr(x.Call, depth, "go ")
	case *ast.ExprStmt:
		w.expr(x.X, depth, "")
	case *ast.SendStmt:
		w.expr(x.Value, depth, "")
		w.emit(depth, "send "+exprText(x.Chan))
	case *ast.IncDecStmt:
		if x.Tok == token.INC {
			w.emit(depth, "inc "+exprText(x.X))
		} else {
			w.emit(depth, "dec "+exprText(x.X))
		}
	case *ast.AssignStmt:
		for _, r := range x.Rhs {
			w.expr(r, depth, "")
		}
		for i, l := range x.Lhs {
			rhs := "_"
			if len(x.Rhs) == len(x.Lhs) {
				rhs = exprText(x.Rhs[i])
			}
			w.emit(depth, "set "+exprText(l)+" "+x.Tok.String()+" "+rhs)
		}
	case *ast.DeclStmt:
		if gd, ok := x.Decl.(*ast.GenDecl); ok {
			for _, sp := range gd.Specs {
				if vs, ok := sp.(*ast.ValueSpec); ok {
					for _, v := range vs.Values {
						w.expr(v, depth, "")
					}
				}
			}
		}
	case *ast.ReturnStmt:
		for _, r := range x.Results {
			w.expr(r, depth, "")
		}
	}
}

func (w *c41Walker) expr(e ast.Expr, depth int, prefix string) {
	switch x := e.(type) {
	case nil:
		return
	case *ast.CallExpr:
		if fl, ok := x.Fun.(*ast.FuncLit); ok {
			for _, a := range x.Args {
				w.expr(a, depth, "")
			}
			w.stmt(fl.Body, depth+1)
			return
		}
		if sel, ok := x.Fun.(*ast.SelectorExpr); ok {
			w.expr(sel.X, depth, "")
		}
		name := exprText(x.Fun)
		if name == "close" && len(x.Args) == 1 {
			w.emit(depth, prefix+"close "+exprText(x.Args[0]))
			return
		}
		// the call event precedes its function-literal arguments' bodies (they run inside the callee)
		w.emit(depth, prefix+name)
		for _, a := range x.Args {
			w.expr(a, depth, "")
		}
	case *ast.FuncLit:
		w.stmt(x.Body, depth+1)
	case *ast.UnaryExpr:
		if x.Op == token.ARROW {
			w.emit(depth, "recv "+exprText(x.X))
			return
		}
		w.expr(x.X, depth, "")
	case *ast.BinaryExpr:
		w.expr(x.X, depth, "")
		w.expr(x.Y, depth, "")
	case *ast.ParenExpr:
		w.expr(x.X, depth, "")
	case *ast.SelectorExpr:
		w.emit(depth, "read "+exprText(x))
	case *ast.IndexExpr:
		w.expr(x.X, depth, "")
		w.expr(x.Index, depth, "")
	case *ast.StarExpr:
		w.expr(x.X, depth, "")
	case *ast.CompositeLit:
		for _, el := range x.Elts {
			if kv, ok := el.(*ast.KeyValueExpr); ok {
				w.expr(kv.Value, depth, "")
			} else {
				w.expr(el, depth, "")
			}
		}
	}
}

func c41Events(fd *ast.FuncDecl, want map[string]bool) []string {
	w := &c41Walker{want: func(ev string) bool { t := strings.TrimPrefix(strings.TrimPrefix(ev, "defer "), "go ")
		if i := strings.Index(t, " = "); i > 0 && strings.HasPrefix(t, "set ") {
			t = t[:i]
		}
		return want[ev] || want[t]
	}}
	w.stmt(fd.Body, 0)
	return w.out
}

func c41Def(b *strings.Builder, name, doc string, evs []string) {
	fmt.Fprintf(b, "/-- (nesting depth, event) in source order of %s -/\ndef %s : List (Nat × String) := [\n  %s]\n\n", doc, name, strings.Join(evs, ",\n  "))
}

func c41Set(xs ...string) map[string]bool {
	m := map[string]bool{}
	for _, x := range xs {
		m[x] = true
	}
	return m
}

func extractC41(repo string) (string, error) {
	var b strings.Builder
	b.WriteString("namespace WK.Gen.C41\n\n")
	type fn struct{ file, recv, name, lean string; want map[string]bool }
	group := c41Set("g.mu.RLock", "g.mu.RUnlock", "g.mu.Lock", "g.mu.Unlock", "read g.started", "read g.paused", "read g.stopping", "read g.stopped",
		"shard.tryAcquireAdmission", "future.setOnDone", "writer.enqueue", "g.schedule", "set g.stopping", "set g.stopped", "g.stopOnce.Do",
		"recv g.stopDone", "close g.stopDone", "g.drainWriters", "g.runtimeCancel", "g.advancePool.stop", "g.appendPool.stop", "g.postCommitPool.stop",
		"g.postCommitRetries.stopAndWait", "read g.finishStop", "g.writersIdle")
	gw := c41Set("e.drain", "e.closeMailboxAfterDrain", "e.mailbox.Close", "e.closeOnce.Do", "recv e.drained", "close e.drained",
		"e.admissionMu.Lock", "e.admissionMu.Unlock", "e.closed.Store", "e.drainOnce.Do", "e.admitted.Wait", "e.resetDepths", "cancel")
	q := c41Set("r.mu.Lock", "r.mu.Unlock", "set r.state", "set r.quiescing", "close acceptDone", "r.quiesceOnce.Do", "r.admissionSenders.Wait",
		"r.ownerPushes.Wait", "close stopReady", "recv done", "r.waitPendingAcks", "close quiesceDone", "r.PendingAckCount")
	for _, f := range []fn{
		{"internal/runtime/channelappend/group.go", "Group", "SubmitLocal", "submitLocalEvents", group},
		{"internal/runtime/channelappend/group.go", "Group", "Stop", "groupStopEvents", group},
		{"internal/runtime/channelappend/group.go", "Group", "finishStop", "finishStopEvents", group},
		{"internal/runtime/channelappend/group.go", "Group", "drainWriters", "drainWritersEvents", group},
		{"pkg/gateway/core/async_send.go", "sendExecutor", "stop", "gwStopEvents", gw},
		{"pkg/gateway/core/async_send.go", "sendExecutor", "drain", "gwDrainEvents", gw},
		{"pkg/gateway/core/async_send.go", "sendExecutor", "closeMailboxAfterDrain", "gwCloseMailboxEvents", gw},
		{"internal/runtime/delivery/runtime.go", "Runtime", "Quiesce", "quiesceEvents", q},
		{"internal/runtime/delivery/runtime.go", "Runtime", "waitPendingAcks", "waitPendingAcksEvents", q},
	} {
		_, af, err := parseFile(repo, f.file)
		if err != nil {
			return "", err
		}
		fd := findMethod(af, f.recv, f.name)
		if fd == nil || fd.Body == nil {
			return "", fmt.Errorf("%s.%s not found in %s", f.recv, f.name, f.file)
		}
		c41Def(&b, f.lean, f.recv+"."+f.name+" ("+f.file+")", c41Events(fd, f.want))
	}
	b.WriteString("end WK.Gen.C41\n")
	return b.String(), nil
}

var _ = token.ARROW
var _ ast.Node

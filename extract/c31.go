package main

import (
	"fmt"
	"go/ast"
	"sort"
	"strings"
)

// C31 — T tie: (1) orderedPlanQueue.shardIndex reads nothing of a plan but its
// channel key; (2) every assignment to push.Routes inside Runtime.pushWithRetry,
// with the chain of enclosing if-conditions, and the calls that receive `push`.

func init() { register("C31", extractC31) }

func c31Selectors(n ast.Node, root string, out map[string]bool) {
	ast.Inspect(n, func(x ast.Node) bool {
		if se, ok := x.(*ast.SelectorExpr); ok {
			t := exprText(se)
			if strings.HasPrefix(t, root+".") {
				out[t] = true
				return false
			}
		}
		return true
	})
}

func c31Assigns(n ast.Node, conds []string, out *[]string, calls *[]string) {
	switch x := n.(type) {
	case nil:
		return
	case *ast.BlockStmt:
		for _, s := range x.List {
			c31Assigns(s, conds, out, calls)
		}
	case *ast.IfStmt:
		c31Assigns(x.Init, conds, out, calls)
		c := append(append([]string{}, conds...), exprText(x.Cond))
		c31Assigns(x.Body, c, out, calls)
		if x.Else != nil {
			c31Assigns(x.Else, append(append([]string{}, conds...), "!("+exprText(x.Cond)+")"), out, calls)
		}
	case *ast.ForStmt:
		c31Assigns(x.Body, conds, out, calls)
	case *ast.AssignStmt:
		for i, l := range x.Lhs {
			if exprText(l) == "push.Routes" && i < len(x.Rhs) {
				var cs []string
				for _, c := range conds {
					cs = append(cs, leanStr(c))
				}
				*out = append(*out, fmt.Sprintf("(%s, [%s])", leanStr(exprText(x.Rhs[i])), strings.Join(cs, ", ")))
			}
		}
		for _, r := range x.Rhs {
			if ce, ok := r.(*ast.CallExpr); ok {
				for _, a := range ce.Args {
					if exprText(a) == "push" {
						*calls = append(*calls, leanStr(exprText(ce.Fun)))
					}
				}
			}
		}
	}
}

func extractC31(repo string) (string, error) {
	_, fq, err := parseFile(repo, "internal/runtime/delivery/plan_queue.go")
	if err != nil {
		return "", err
	}
	si := findMethod(fq, "orderedPlanQueue", "shardIndex")
	if si == nil || si.Body == nil || si.Type.Params == nil || len(si.Type.Params.List) != 1 || len(si.Type.Params.List[0].Names) != 1 {
		return "", fmt.Errorf("orderedPlanQueue.shardIndex(plan) not found")
	}
	root := si.Type.Params.List[0].Names[0].Name
	sel := map[string]bool{}
	c31Selectors(si.Body, root, sel)
	var fields []string
	for k := range sel {
		fields = append(fields, leanStr(strings.Replace(k, root+".", "plan.", 1)))
	}
	sort.Strings(fields)
	_, fr, err := parseFile(repo, "internal/runtime/delivery/runtime.go")
	if err != nil {
		return "", err
	}
	pw := findMethod(fr, "Runtime", "pushWithRetry")
	if pw == nil || pw.Body == nil {
		return "", fmt.Errorf("Runtime.pushWithRetry not found")
	}
	var assigns, calls []string
	c31Assigns(pw.Body, nil, &assigns, &calls)
	var b strings.Builder
	b.WriteString("namespace WK.Gen.C31\n\n")
	fmt.Fprintf(&b, "/-- every field of the plan that orderedPlanQueue.shardIndex reads -/\ndef shardKeyFields : List String := [%s]\n\n", strings.Join(fields, ", "))
	fmt.Fprintf(&b, "/-- every assignment to push.Routes in Runtime.pushWithRetry: (right-hand side, enclosing if-conditions) -/\ndef routesAssigns : List (String × List String) := [%s]\n\n", strings.Join(assigns, ", "))
	fmt.Fprintf(&b, "/-- the calls inside pushWithRetry that receive `push` -/\ndef pushConsumers : List String := [%s]\n\n", strings.Join(calls, ", "))
	b.WriteString("end WK.Gen.C31\n")
	return b.String(), nil
}

package main

import (
	"fmt"
	"go/ast"
	"regexp"
	"strings"
)

// C33 — owner-sequence / tombstone guard facts read from
// internal/runtime/presence/directory.go (and the SessionID != 0 admission guard of
// internal/runtime/online/registry.go).  For each guard the comparison operator actually
// written in the source is emitted; WK.Theorems.C33 proves that the guards so described are, for
// all inputs, the ones the executable model uses (`Slot.staleFor`, `tombAfter`, `unreg*`).  A
// changed operator, a dropped `ok &&` / `!ok ||`, or a reshaped guard breaks a proof or the
// extraction (tie broken).
func init() { register("C33", extractC33) }

var c33Ops = map[string]string{"<": "lt", "<=": "le", ">": "gt", ">=": "ge", "==": "eq", "!=": "ne"}

type c33Guard struct {
	ok string // "and" (ok && …), "ornot" (!ok || …), "none"
	op string
}

var c33CmpRe = regexp.MustCompile(`^(ok&&|!ok\|\||)([A-Za-z_.]+?)(<=|>=|==|!=|<|>)([A-Za-z_.\[\]]+)$`)

// c33Cond parses `[ok && | !ok ||] <lhs> OP <rhs>` and checks the operand names.
func c33Cond(e ast.Expr, lhsSuffix, rhs string) (c33Guard, error) {
	txt := exprText(e)
	m := c33CmpRe.FindStringSubmatch(txt)
	if m == nil {
		return c33Guard{}, fmt.Errorf("guard %q has an unexpected shape", txt)
	}
	if !strings.HasSuffix(m[2], lhsSuffix) || m[4] != rhs {
		return c33Guard{}, fmt.Errorf("guard %q: expected `…%s OP %s`", txt, lhsSuffix, rhs)
	}
	g := c33Guard{ok: "none", op: c33Ops[m[3]]}
	switch m[1] {
	case "ok&&":
		g.ok = "and"
	case "!ok||":
		g.ok = "ornot"
	}
	return g, nil
}

func c33IsTombInit(s ast.Stmt, recv string) bool {
	as, ok := s.(*ast.AssignStmt)
	return ok && len(as.Lhs) == 2 && len(as.Rhs) == 1 && exprText(as.Lhs[0]) == "tombstone" && exprText(as.Lhs[1]) == "ok" &&
		exprText(as.Rhs[0]) == recv+".tombstoneSeq[key]"
}

func c33ReturnsStale(b *ast.BlockStmt, wantStale bool) bool {
	if len(b.List) == 0 {
		return false
	}
	r, ok := b.List[len(b.List)-1].(*ast.ReturnStmt)
	if !ok {
		return false
	}
	if !wantStale {
		return len(r.Results) == 0
	}
	return len(r.Results) > 0 && strings.HasSuffix(exprText(r.Results[len(r.Results)-1]), "ErrStaleRoute")
}

// c33StaleGuards finds, in method `name` of authoritySlot, the pair
//   if tombstone, ok := s.tombstoneSeq[key]; ok && X.OwnerSeq <= tombstone { … return [ErrStaleRoute] }
//   if X.OwnerSeq < s.ownerSeq[key] { … return [ErrStaleRoute] }
func c33StaleGuards(f *ast.File, name string, wantStale bool) (c33Guard, c33Guard, error) {
	fd := findMethod(f, "authoritySlot", name)
	if fd == nil || fd.Body == nil {
		return c33Guard{}, c33Guard{}, fmt.Errorf("method authoritySlot.%s not found", name)
	}
	var tomb, seq *c33Guard
	for _, st := range fd.Body.List {
		ifs, ok := st.(*ast.IfStmt)
		if !ok {
			continue
		}
		txt := exprText(ifs.Cond)
		switch {
		case ifs.Init != nil && c33IsTombInit(ifs.Init, "s"):
			g, err := c33Cond(ifs.Cond, ".OwnerSeq", "tombstone")
			if err != nil {
				return c33Guard{}, c33Guard{}, fmt.Errorf("%s: %v", name, err)
			}
			if !c33ReturnsStale(ifs.Body, wantStale) || tomb != nil {
				return c33Guard{}, c33Guard{}, fmt.Errorf("%s: tombstone guard does not end in the expected return", name)
			}
			tomb = &g
		case ifs.Init == nil && strings.Contains(txt, "s.ownerSeq[key]"):
			g, err := c33Cond(ifs.Cond, ".OwnerSeq", "s.ownerSeq[key]")
			if err != nil {
				return c33Guard{}, c33Guard{}, fmt.Errorf("%s: %v", name, err)
			}
			if !c33ReturnsStale(ifs.Body, wantStale) || seq != nil || g.ok != "none" {
				return c33Guard{}, c33Guard{}, fmt.Errorf("%s: owner-sequence guard does not end in the expected return", name)
			}
			seq = &g
		}
	}
	if tomb == nil || seq == nil {
		return c33Guard{}, c33Guard{}, fmt.Errorf("%s: tombstone or owner-sequence guard is missing", name)
	}
	return *tomb, *seq, nil
}

func extractC33(repo string) (string, error) {
	const rel = "internal/runtime/presence/directory.go"
	_, f, err := parseFile(repo, rel)
	if err != nil {
		return "", err
	}
	var sb strings.Builder
	sb.WriteString("namespace WK.Gen.C33\n\n")
	sb.WriteString("/-- comparison operators as written in the Go source -/\ninductive Cmp | lt | le | gt | ge | eq | ne\n  deriving DecidableEq, Repr\n\n")
	sb.WriteString("/-- how the map-presence flag `ok` enters a guard: `ok && c`, `!ok || c`, or not at all -/\ninductive OkUse | and | ornot | none\n  deriving DecidableEq, Repr\n\n")
	for _, site := range []struct {
		method, lean string
		stale        bool
	}{{"registerLocked", "register", true}, {"commitRouteLocked", "commit", true}, {"touchLocked", "touch", false}} {
		t, s, err := c33StaleGuards(f, site.method, site.stale)
		if err != nil {
			return "", fmt.Errorf("%s: %v", rel, err)
		}
		fmt.Fprintf(&sb, "/-- %s: `if tombstone, ok := s.tombstoneSeq[key]; <ok-use> X.OwnerSeq <cmp> tombstone` -/\n", site.method)
		fmt.Fprintf(&sb, "def %sTombOk : OkUse := .%s\ndef %sTombCmp : Cmp := .%s\n", site.lean, t.ok, site.lean, t.op)
		fmt.Fprintf(&sb, "/-- %s: `if X.OwnerSeq <cmp> s.ownerSeq[key]` -/\ndef %sSeqCmp : Cmp := .%s\n\n", site.method, site.lean, s.op)
	}
	// UnregisterRoute
	fd := findMethod(f, "Directory", "UnregisterRoute")
	if fd == nil || fd.Body == nil {
		return "", fmt.Errorf("%s: Directory.UnregisterRoute not found", rel)
	}
	var store, oseq, act, pend *c33Guard
	for _, st := range fd.Body.List {
		switch x := st.(type) {
		case *ast.IfStmt:
			txt := exprText(x.Cond)
			switch {
			case x.Init != nil && c33IsTombInit(x.Init, "slot"):
				g, err := c33Cond(x.Cond, "ownerSeq", "tombstone")
				if err != nil {
					return "", fmt.Errorf("%s: UnregisterRoute: %v", rel, err)
				}
				if len(x.Body.List) != 1 || exprText(x.Body.List[0].(*ast.AssignStmt).Lhs[0]) != "slot.tombstoneSeq[key]" ||
					exprText(x.Body.List[0].(*ast.AssignStmt).Rhs[0]) != "ownerSeq" {
					return "", fmt.Errorf("%s: UnregisterRoute: tombstone store has an unexpected body", rel)
				}
				store = &g
			case x.Init == nil && strings.Contains(txt, "slot.ownerSeq[key]"):
				g, err := c33Cond(x.Cond, "ownerSeq", "slot.ownerSeq[key]")
				if err != nil {
					return "", fmt.Errorf("%s: UnregisterRoute: %v", rel, err)
				}
				oseq = &g
			case x.Init != nil && strings.Contains(exprText(x.Init.(*ast.AssignStmt).Rhs[0]), "slot.active[key]"):
				g, err := c33Cond(x.Cond, "existing.OwnerSeq", "ownerSeq")
				if err != nil {
					return "", fmt.Errorf("%s: UnregisterRoute: %v", rel, err)
				}
				act = &g
			}
		case *ast.RangeStmt:
			if exprText(x.X) != "slot.pending" || len(x.Body.List) != 1 {
				continue
			}
			ifs, ok := x.Body.List[0].(*ast.IfStmt)
			if !ok {
				continue
			}
			be, ok := ifs.Cond.(*ast.BinaryExpr)
			if !ok || be.Op.String() != "&&" || exprText(be.X) != "makeRouteIdentityKey(pending.route)==key" {
				return "", fmt.Errorf("%s: UnregisterRoute: pending filter has an unexpected shape", rel)
			}
			g, err := c33Cond(be.Y, "pending.route.OwnerSeq", "ownerSeq")
			if err != nil {
				return "", fmt.Errorf("%s: UnregisterRoute: %v", rel, err)
			}
			pend = &g
		}
	}
	if store == nil || oseq == nil || act == nil || pend == nil {
		return "", fmt.Errorf("%s: UnregisterRoute: a guard is missing (store=%v ownerSeq=%v active=%v pending=%v)", rel, store != nil, oseq != nil, act != nil, pend != nil)
	}
	fmt.Fprintf(&sb, "/-- UnregisterRoute: `if tombstone, ok := slot.tombstoneSeq[key]; <ok-use> ownerSeq <cmp> tombstone { slot.tombstoneSeq[key] = ownerSeq }` -/\n")
	fmt.Fprintf(&sb, "def unregStoreOk : OkUse := .%s\ndef unregStoreCmp : Cmp := .%s\n", store.ok, store.op)
	fmt.Fprintf(&sb, "/-- UnregisterRoute: `if ownerSeq <cmp> slot.ownerSeq[key]` -/\ndef unregSeqCmp : Cmp := .%s\n", oseq.op)
	fmt.Fprintf(&sb, "/-- UnregisterRoute: `existing, ok := slot.active[key]; <ok-use> existing.OwnerSeq <cmp> ownerSeq` -/\n")
	fmt.Fprintf(&sb, "def unregActiveOk : OkUse := .%s\ndef unregActiveCmp : Cmp := .%s\n", act.ok, act.op)
	fmt.Fprintf(&sb, "/-- UnregisterRoute: `makeRouteIdentityKey(pending.route) == key && pending.route.OwnerSeq <cmp> ownerSeq` -/\n")
	fmt.Fprintf(&sb, "def unregPendingCmp : Cmp := .%s\n\n", pend.op)

	// online registry: RegisterPending refuses UID == "" || SessionID == 0 (the fallback owner sequence is the session id)
	const rel2 = "internal/runtime/online/registry.go"
	_, f2, err := parseFile(repo, rel2)
	if err != nil {
		return "", err
	}
	rp := findMethod(f2, "Registry", "RegisterPending")
	if rp == nil || rp.Body == nil {
		return "", fmt.Errorf("%s: Registry.RegisterPending not found", rel2)
	}
	rejects := false
	for _, st := range rp.Body.List {
		if ifs, ok := st.(*ast.IfStmt); ok && ifs.Init == nil {
			c := exprText(ifs.Cond)
			if (c == `route.UID==""||route.SessionID==0` || c == `route.SessionID==0||route.UID==""`) && len(ifs.Body.List) == 1 {
				if r, ok := ifs.Body.List[0].(*ast.ReturnStmt); ok && len(r.Results) == 1 && exprText(r.Results[0]) == "ErrInvalidConnection" {
					rejects = true
				}
			}
		}
	}
	fmt.Fprintf(&sb, "/-- online.Registry.RegisterPending returns ErrInvalidConnection for an empty UID or SessionID 0 -/\n")
	fmt.Fprintf(&sb, "def registryRejectsZeroSession : Bool := %v\n\n", rejects)
	sb.WriteString("end WK.Gen.C33\n")
	return sb.String(), nil
}

package main

// C14 — T tie for the snapshot publish-then-commit protocol: the order of the relevant
// calls in pkg/raftlog (pebbleStore.Save, DB.publishSnapshotAndCommit,
// snapshotStore.write, snapshotStore.publishFinal) is regenerated into WK/Gen/C14.lean;
// `c14_publish_before_commit` is decided on these lists, so committing the manifest
// before the directory is published (or publishing before the chunks are written and
// synced) breaks a proof.

import (
	"fmt"
	"go/ast"
	"strings"
)

func init() { register("C14", extractC14) }

var c14Calls = map[string]bool{
	"planSnapshotSave": true, "prepareAndWriteSnapshot": true, "publishSnapshotAndCommit": true, "startSnapshotGC": true,
	"submitWrite": true, "publishFinal": true, "removePublishedSnapshotDir": true,
	"Mkdir": true, "MkdirAll": true, "snapshotFsyncDir": true, "snapshotWriteFile": true, "renameNoOverwrite": true,
	"prepare": true, "write": true,
}

func c14Order(fd *ast.FuncDecl) []string {
	var out []string
	ast.Inspect(fd.Body, func(n ast.Node) bool {
		c, ok := n.(*ast.CallExpr)
		if !ok {
			return true
		}
		name := ""
		switch f := c.Fun.(type) {
		case *ast.SelectorExpr:
			name = f.Sel.Name
		case *ast.Ident:
			name = f.Name
		}
		if c14Calls[name] {
			out = append(out, name)
		}
		return true
	})
	return out
}

func extractC14(repo string) (string, error) {
	var sb strings.Builder
	sb.WriteString("namespace WK.Gen.C14\n\n")
	for _, w := range []struct{ file, recv, fn, lean string }{
		{"pkg/raftlog/pebble_store.go", "pebbleStore", "Save", "save"},
		{"pkg/raftlog/pebble_store.go", "DB", "publishSnapshotAndCommit", "publishSnapshotAndCommit"},
		{"pkg/raftlog/pebble_store.go", "DB", "prepareAndWriteSnapshot", "prepareAndWriteSnapshot"},
		{"pkg/raftlog/snapshot_store.go", "snapshotStore", "write", "snapshotWrite"},
		{"pkg/raftlog/snapshot_store.go", "snapshotStore", "publishFinal", "publishFinal"},
	} {
		_, f, err := parseFile(repo, w.file)
		if err != nil {
			return "", err
		}
		fd := findMethod(f, w.recv, w.fn)
		if fd == nil || fd.Body == nil {
			return "", fmt.Errorf("%s: method %s.%s not found", w.file, w.recv, w.fn)
		}
		xs := c14Order(fd)
		q := make([]string, len(xs))
		for i, x := range xs {
			q[i] = leanStr(x)
		}
		sb.WriteString(fmt.Sprintf("def %s : List String := [%s]\n", w.lean, strings.Join(q, ", ")))
	}
	sb.WriteString("\nend WK.Gen.C14\n")
	return sb.String(), nil
}

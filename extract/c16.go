package main

// C16 — T tie (fact mode): the shape of the rows the real callers build.
// c16_command_level is proved for histories whose join rows carry
// ReadSeq = DeletedToSeq = committed tail; this extractor reads the three
// constructors and states, as Bool facts re-derived on every run, that their
// composite literals still have that shape.

import (
	"fmt"
	"go/ast"
	"sort"
	"strings"
)

func init() { register("C16", extractC16) }

// literalFields returns field -> expression text of the unique composite literal whose type
// text is typ inside fd.
func literalFields(fd *ast.FuncDecl, typ string) (map[string]string, error) {
	if fd == nil {
		return nil, fmt.Errorf("function not found")
	}
	var found []*ast.CompositeLit
	ast.Inspect(fd.Body, func(n ast.Node) bool {
		if cl, ok := n.(*ast.CompositeLit); ok && cl.Type != nil {
			if exprText(cl.Type) == typ {
				found = append(found, cl)
			} else if exprText(cl.Type) == "[]"+typ {
				// elements of a slice literal elide their type
				for _, e := range cl.Elts {
					if el, ok := e.(*ast.CompositeLit); ok && el.Type == nil {
						found = append(found, el)
					}
				}
			}
		}
		return true
	})
	if len(found) != 1 {
		return nil, fmt.Errorf("%s: %d composite literals of %s, want 1", fd.Name.Name, len(found), typ)
	}
	out := map[string]string{}
	for _, e := range found[0].Elts {
		kv, ok := e.(*ast.KeyValueExpr)
		if !ok {
			return nil, fmt.Errorf("%s: positional field in %s literal", fd.Name.Name, typ)
		}
		out[exprText(kv.Key)] = exprText(kv.Value)
	}
	return out, nil
}

func leanBool(b bool) string {
	if b {
		return "true"
	}
	return "false"
}

// cursorWrite is one assignment to a cursor column inside the membership tables.
type cursorWrite struct {
	fn, field, rhs, kind, ctx string
}

// walkWrites collects the assignments to ReadSeq / DeletedToSeq / AckSeq under n together with
// the stack of enclosing `if` conditions (an else branch contributes the negated condition).
// kind = "max" when the innermost guard is `<rhs> > <lhs>`, else "assign".
func walkWrites(fn string, n ast.Node, stack []string, out *[]cursorWrite) {
	switch x := n.(type) {
	case nil:
		return
	case *ast.BlockStmt:
		for _, st := range x.List {
			walkWrites(fn, st, stack, out)
		}
	case *ast.IfStmt:
		c := exprText(x.Cond)
		walkWrites(fn, x.Body, append(append([]string{}, stack...), c), out)
		if x.Else != nil {
			walkWrites(fn, x.Else, append(append([]string{}, stack...), "!("+c+")"), out)
		}
	case *ast.AssignStmt:
		for i, l := range x.Lhs {
			sel, ok := l.(*ast.SelectorExpr)
			if !ok || i >= len(x.Rhs) {
				continue
			}
			f := sel.Sel.Name
			if f != "ReadSeq" && f != "DeletedToSeq" && f != "AckSeq" {
				continue
			}
			lhs, rhs := exprText(l), exprText(x.Rhs[i])
			kind, ctx := "assign", ""
			if len(stack) > 0 && stack[len(stack)-1] == rhs+">"+lhs {
				kind = "max"
				if len(stack) > 1 {
					ctx = stack[len(stack)-2]
				}
			} else if len(stack) > 0 {
				ctx = stack[len(stack)-1]
			}
			*out = append(*out, cursorWrite{fn, lhs, rhs, kind, ctx})
		}
		for _, r := range x.Rhs {
			walkWrites(fn, r, stack, out)
		}
	case *ast.ExprStmt:
		walkWrites(fn, x.X, stack, out)
	case *ast.ReturnStmt:
		for _, r := range x.Results {
			walkWrites(fn, r, stack, out)
		}
	case *ast.CallExpr:
		for _, a := range x.Args {
			walkWrites(fn, a, stack, out)
		}
	case *ast.FuncLit:
		walkWrites(fn, x.Body, stack, out)
	}
}

func fileWrites(f *ast.File) []cursorWrite {
	var out []cursorWrite
	for _, d := range f.Decls {
		fd, ok := d.(*ast.FuncDecl)
		if !ok || fd.Body == nil {
			continue
		}
		name := fd.Name.Name
		if fd.Recv != nil && len(fd.Recv.List) == 1 {
			t := fd.Recv.List[0].Type
			if st, ok := t.(*ast.StarExpr); ok {
				t = st.X
			}
			name = exprText(t) + "." + name
		}
		if strings.HasPrefix(fd.Name.Name, "decode") {
			continue
		}
		walkWrites(name, fd.Body, nil, &out)
	}
	return out
}

// returnsOf lists, in source order, `guard -> returned expression` for the top-level shape of a
// reducer (nested ifs flattened with their condition stacks).
func returnsOf(n ast.Node, stack []string, out *[]string) {
	switch x := n.(type) {
	case *ast.BlockStmt:
		for _, st := range x.List {
			returnsOf(st, stack, out)
		}
	case *ast.IfStmt:
		c := exprText(x.Cond)
		returnsOf(x.Body, append(append([]string{}, stack...), c), out)
		if x.Else != nil {
			returnsOf(x.Else, append(append([]string{}, stack...), "!("+c+")"), out)
		}
	case *ast.ReturnStmt:
		var rs []string
		for _, r := range x.Results {
			rs = append(rs, exprText(r))
		}
		*out = append(*out, strings.Join(stack, " & ")+" => "+strings.Join(rs, ","))
	}
}

func extractC16(repo string) (string, error) {
	_, nodeFile, err := parseFile(repo, "pkg/cluster/node_meta.go")
	if err != nil {
		return "", err
	}
	node, err := literalFields(findMethod(nodeFile, "Node", "groupUserChannelMembershipsByHashSlot"), "metadb.UserChannelMembership")
	if err != nil {
		return "", err
	}
	_, projFile, err := parseFile(repo, "internal/runtime/persondirectory/projector.go")
	if err != nil {
		return "", err
	}
	proj, err := literalFields(findFunc(projFile, "projectedMembership"), "metadb.UserChannelMembership")
	if err != nil {
		return "", err
	}
	_, bindFile, err := parseFile(repo, "internal/usecase/cmdsync/app.go")
	if err != nil {
		return "", err
	}
	bind, err := literalFields(findMethod(bindFile, "App", "Bind"), "metadb.UserCMDChannelMembership")
	if err != nil {
		return "", err
	}
	_, ordFile, err := parseFile(repo, "pkg/db/meta/table_user_channel_membership.go")
	if err != nil {
		return "", err
	}
	_, cmdFile, err := parseFile(repo, "pkg/db/meta/table_user_cmd_channel_membership.go")
	if err != nil {
		return "", err
	}
	writes := append(fileWrites(ordFile), fileWrites(cmdFile)...)
	var rets []string
	for _, fn := range []struct {
		f    *ast.File
		name string
	}{{ordFile, "resolveUserChannelMembership"}, {ordFile, "resolveEnsuredUserChannelMembership"}, {cmdFile, "resolveUserCMDChannelMembership"}} {
		fd := findFunc(fn.f, fn.name)
		if fd == nil {
			return "", fmt.Errorf("%s not found", fn.name)
		}
		var rs []string
		returnsOf(fd.Body, nil, &rs)
		for _, r := range rs {
			rets = append(rets, fn.name+": "+r)
		}
	}
	var sb strings.Builder
	sb.WriteString("namespace WK.Gen.C16\n\n")
	sb.WriteString("/-- every assignment to a cursor column (ReadSeq, DeletedToSeq, AckSeq) in the two membership\n    table files: (function, lhs, rhs, \"max\" iff guarded by `rhs > lhs` else \"assign\", enclosing condition) -/\n")
	sb.WriteString("def cursorWrites : List (String × String × String × String × String) := [\n")
	for i, w := range writes {
		sep := ","
		if i == len(writes)-1 {
			sep = ""
		}
		fmt.Fprintf(&sb, "  (%s, %s, %s, %s, %s)%s\n", leanStr(w.fn), leanStr(w.field), leanStr(w.rhs), leanStr(w.kind), leanStr(w.ctx), sep)
	}
	sb.WriteString("]\n\n/-- the return statements of the three reducers with their guard stacks, in source order -/\n")
	sb.WriteString("def reducerReturns : List String := [\n")
	for i, r := range rets {
		sep := ","
		if i == len(rets)-1 {
			sep = ""
		}
		fmt.Fprintf(&sb, "  %s%s\n", leanStr(r), sep)
	}
	sb.WriteString("]\n\n")
	dump := func(name string, m map[string]string) {
		keys := make([]string, 0, len(m))
		for k := range m {
			keys = append(keys, k)
		}
		sort.Strings(keys)
		fmt.Fprintf(&sb, "/- %s:\n", name)
		for _, k := range keys {
			fmt.Fprintf(&sb, "     %s: %s\n", k, m[k])
		}
		sb.WriteString("-/\n")
	}
	dump("pkg/cluster/node_meta.go groupUserChannelMembershipsByHashSlot", node)
	dump("internal/runtime/persondirectory/projector.go projectedMembership", proj)
	dump("internal/usecase/cmdsync/app.go Bind", bind)
	_, nodeAct := node["ActivatedAt"]
	_, bindAck := bind["AckSeq"]
	fmt.Fprintf(&sb, "\n/-- join rows of the subscriber path: ReadSeq = DeletedToSeq = committedTail, tombstone flag passed through -/\n")
	fmt.Fprintf(&sb, "def nodeCtorShaped : Bool := %s\n", leanBool(node["ReadSeq"] == "committedTail" && node["DeletedToSeq"] == "committedTail" &&
		node["Tombstone"] == "tombstone" && node["SourceVersion"] == "sourceVersion" && !nodeAct))
	fmt.Fprintf(&sb, "\n/-- person-directory projection rows: ReadSeq = DeletedToSeq = task.CommittedTail, generation as source version -/\n")
	fmt.Fprintf(&sb, "def projCtorShaped : Bool := %s\n", leanBool(proj["ReadSeq"] == "task.CommittedTail" && proj["DeletedToSeq"] == "task.CommittedTail" &&
		proj["SourceVersion"] == "task.Generation"))
	fmt.Fprintf(&sb, "\n/-- CMD bind rows: StartSeq = tail+1 and no AckSeq (zero) -/\n")
	fmt.Fprintf(&sb, "def bindCtorShaped : Bool := %s\n", leanBool(bind["StartSeq"] == "tail+1" && !bindAck))
	sb.WriteString("\nend WK.Gen.C16\n")
	return sb.String(), nil
}

package main

// C16 — T tie (fact mode): the shape of the rows the real callers build.
// c16_command_level is proved for histories whose join rows carry
// ReadSeq = DeletedToSeq = committed tail; this extractor reads the three
// constructors and states, as Bool facts re-derived on every run, that their
// composite literals still have that shape.

import (
	"fmt"
	"go/ast"
	"sort"
	"strings"
)

func init() { register("C16", extractC16) }

// literalFields returns field -> expression text of the unique composite literal whose type
// text is typ inside fd.
func literalFields(fd *ast.FuncDecl, typ string) (map[string]string, error) {
	if fd == nil {
		return nil, fmt.Errorf("function not found")
	}
	var found []*ast.CompositeLit
	ast.Inspect(fd.Body, func(n ast.Node) bool {
		if cl, ok := n.(*ast.CompositeLit); ok && cl.Type != nil {
			if exprText(cl.Type) == typ {
				found = append(found, cl)
			} else if exprText(cl.Type) == "[]"+typ {
				// elements of a slice literal elide their type
				for _, e := range cl.Elts {
					if el, ok := e.(*ast.CompositeLit); ok && el.Type == nil {
						found = append(found, el)
					}
				}
			}
		}
		return true
	})
	if len(found) != 1 {
		return nil, fmt.Errorf("%s: %d composite literals of %s, want 1", fd.Name.Name, len(found), typ)
	}
	out := map[string]string{}
	for _, e := range found[0].Elts {
		kv, ok := e.(*ast.KeyValueExpr)
		if !ok {
			return nil, fmt.Errorf("%s: positional field in %s literal", fd.Name.Name, typ)
		}
		out[exprText(kv.Key)] = exprText(kv.Value)
	}
	return out, nil
}

func leanBool(b bool) string {
	if b {
		return "true"
	}
	return "false"
}

func extractC16(repo string) (string, error) {
	_, nodeFile, err := parseFile(repo, "pkg/cluster/node_meta.go")
	if err != nil {
		return "", err
	}
	node, err := literalFields(findMethod(nodeFile, "Node", "groupUserChannelMembershipsByHashSlot"), "metadb.UserChannelMembership")
	if err != nil {
		return "", err
	}
	_, projFile, err := parseFile(repo, "internal/runtime/persondirectory/projector.go")
	if err != nil {
		return "", err
	}
	proj, err := literalFields(findFunc(projFile, "projectedMembership"), "metadb.UserChannelMembership")
	if err != nil {
		return "", err
	}
	_, bindFile, err := parseFile(repo, "internal/usecase/cmdsync/app.go")
	if err != nil {
		return "", err
	}
	bind, err := literalFields(findMethod(bindFile, "App", "Bind"), "metadb.UserCMDChannelMembership")
	if err != nil {
		return "", err
	}
	var sb strings.Builder
	sb.WriteString("namespace WK.Gen.C16\n\n")
	dump := func(name string, m map[string]string) {
		keys := make([]string, 0, len(m))
		for k := range m {
			keys = append(keys, k)
		}
		sort.Strings(keys)
		fmt.Fprintf(&sb, "/- %s:\n", name)
		for _, k := range keys {
			fmt.Fprintf(&sb, "     %s: %s\n", k, m[k])
		}
		sb.WriteString("-/\n")
	}
	dump("pkg/cluster/node_meta.go groupUserChannelMembershipsByHashSlot", node)
	dump("internal/runtime/persondirectory/projector.go projectedMembership", proj)
	dump("internal/usecase/cmdsync/app.go Bind", bind)
	_, nodeAct := node["ActivatedAt"]
	_, bindAck := bind["AckSeq"]
	fmt.Fprintf(&sb, "\n/-- join rows of the subscriber path: ReadSeq = DeletedToSeq = committedTail, tombstone flag passed through -/\n")
	fmt.Fprintf(&sb, "def nodeCtorShaped : Bool := %s\n", leanBool(node["ReadSeq"] == "committedTail" && node["DeletedToSeq"] == "committedTail" &&
		node["Tombstone"] == "tombstone" && node["SourceVersion"] == "sourceVersion" && !nodeAct))
	fmt.Fprintf(&sb, "\n/-- person-directory projection rows: ReadSeq = DeletedToSeq = task.CommittedTail, generation as source version -/\n")
	fmt.Fprintf(&sb, "def projCtorShaped : Bool := %s\n", leanBool(proj["ReadSeq"] == "task.CommittedTail" && proj["DeletedToSeq"] == "task.CommittedTail" &&
		proj["SourceVersion"] == "task.Generation"))
	fmt.Fprintf(&sb, "\n/-- CMD bind rows: StartSeq = tail+1 and no AckSeq (zero) -/\n")
	fmt.Fprintf(&sb, "def bindCtorShaped : Bool := %s\n", leanBool(bind["StartSeq"] == "tail+1" && !bindAck))
	sb.WriteString("\nend WK.Gen.C16\n")
	return sb.String(), nil
}
